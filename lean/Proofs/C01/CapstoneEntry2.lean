import Proofs.C01.Entry2
import Proofs.C01.CapstoneAff
import Proofs.C01.CapstoneLadders2
import Proofs.C01.EndoSecp
import Proofs.C01.Sec
/-
C01 capstone for the remaining entry points: `multi_mult_var`, `_sum_var`, `_tweak_add_var` of a concrete `Curve`
(`ctxOf C`) on btclib's real arithmetic — `is_on_curve` ⇔ "reduced valid pair", `add_aff_var` is the affine group law
(`addAff_spec`), the Jacobian ladders through `jacRel_ec`.
-/
open WeierstrassCurve

namespace Btc.C01
open Btc.EC

section
variable {p : ℕ} [Fact p.Prime] {c : CurveGroup} (hp : c.p = (p : ℤ))
include hp

/-- `ec.is_on_curve(Q)` answers `True` only on a reduced pair that is infinity (`y = 0`) or a nonsingular point -/
theorem isOnCurveX_valid (hp2 : p ≠ 2) {Q : Point} (h : isOnCurveX c Q = some true) : AValid p c Q ∧ RedA c Q := by
  by_cases hy : Q.2 = 0
  · exact ⟨fun h' => absurd hy h', ⟨by rw [hy]; exact ⟨le_refl _, p_pos hp⟩, fun h' => absurd hy h'⟩⟩
  · obtain ⟨hx, hyr, heq⟩ := (isOnCurveX_true_iff c Q hy).mp h
    have hyZ : ((Q.2 : ℤ) : ZMod p) ≠ 0 := cast_ne_zero_of_red hp ⟨le_of_lt hyr.1, hyr.2⟩ hy
    have heqZ : (curveOf p c).toAffine.Equation (Q.1 : ZMod p) (Q.2 : ZMod p) := by
      rw [aff_equation_iff]
      have h1 := congrArg (fun z : ℤ => (z : ZMod p)) heq
      simp only [y2_cast hp] at h1
      rw [hp, ZMod.intCast_mod] at h1
      push_cast at h1
      rw [pow_two]; exact h1.symm
    have hns := aff_nonsingular_of_y_ne hp2 heqZ hyZ
    have e : castJ p (Q.1, Q.2, 1) = ![(Q.1 : ZMod p), (Q.2 : ZMod p), 1] := by simp [castJ]
    refine ⟨fun _ => ?_, ⟨⟨le_of_lt hyr.1, hyr.2⟩, fun _ => hx⟩⟩
    rw [e]; exact (Jacobian.nonsingular_some ..).mpr hns

/-- … and on EVERY such pair -/
theorem isOnCurveX_of_valid {Q : Point} (hv : AValid p c Q) (hr : RedA c Q) : isOnCurveX c Q = some true := by
  by_cases hy : Q.2 = 0
  · simp [isOnCurveX, hy]
  · obtain ⟨hns, _⟩ := absA_eq_some hy hv
    have heqZ := ((Affine.nonsingular_iff ..).mp hns).1
    rw [aff_equation_iff] at heqZ
    have hyr : 0 < Q.2 ∧ Q.2 < c.p := ⟨lt_of_le_of_ne hr.1.1 (Ne.symm hy), hr.1.2⟩
    refine (isOnCurveX_true_iff c Q hy).mpr ⟨hr.2 hy, hyr, ?_⟩
    have hpp := p_pos hp
    apply eq_of_cast_eq_c hp ⟨Int.emod_nonneg _ (by omega), Int.emod_lt_of_pos _ hpp⟩
      ⟨Int.emod_nonneg _ (by omega), Int.emod_lt_of_pos _ hpp⟩
    have hy2 := y2_cast hp Q.1
    unfold y2 at hy2
    rw [hy2, hp, ZMod.intCast_mod]
    push_cast
    rw [← pow_two]; exact heqZ.symm

theorem toAff_red (x : JacPoint) : RedA c ((affFromJac c x).getD INF) := by
  have hpp := p_pos hp
  unfold affFromJac
  split
  · exact RedA_INF hp
  · cases modInv x.2.2 c.p with
    | none => exact RedA_INF hp
    | some zi =>
      simp only [Option.map_some, Option.getD_some, affFromZInv]
      exact ⟨⟨Int.emod_nonneg _ (by omega), Int.emod_lt_of_pos _ hpp⟩,
        fun _ => ⟨Int.emod_nonneg _ (by omega), Int.emod_lt_of_pos _ hpp⟩⟩
end

section
variable {p : ℕ} [Fact p.Prime]

/-- `add_aff_var`, `is_on_curve` and `aff_from_jac_var` of a concrete curve meet `AffRel` (any odd prime `p`) -/
def affRel_ec (C : Curve) (hC : C.p = (p : ℤ)) (hp2 : p ≠ 2) (H : AddSubgroup (Pt p C.toCurveGroup))
    (hH : NoTwoTorsionIn H) : AffRel (ctxOf C) (jacRel_ec hC H hH) where
  Red := RedA C.toCurveGroup
  zero_red := RedA_INF hC
  onCurve_red h := (isOnCurveX_valid hC hp2 h).2
  toAff_red x := toAff_red hC x
  add := by
    intro P Q g h hP hQ rP rQ
    obtain ⟨hPv, rfl, hPH⟩ := hP
    obtain ⟨hQv, rfl, hQH⟩ := hQ
    have hsum := H.add_mem hPH hQH
    obtain ⟨A, hA, hAv, hAr, hAe⟩ := addAff_spec hC hp2 P Q hPv hQv rP rQ (hH _ hsum)
    exact ⟨A, hA, ⟨hAv, hAe, hsum⟩, hAr⟩
  onCurve_of := by
    intro Q g hQ rQ
    exact isOnCurveX_of_valid hC hQ.1 rQ

theorem forall₂_RA_ec (C : Curve) (hC : C.p = (p : ℤ)) (H : AddSubgroup (Pt p C.toCurveGroup))
    (hH : NoTwoTorsionIn H) :
    ∀ points : List Point, (∀ Q ∈ points, AValid p C.toCurveGroup Q ∧ absA p C.toCurveGroup Q ∈ H) →
      List.Forall₂ (jacRel_ec hC H hH).RA points (points.map (absA p C.toCurveGroup))
  | [], _ => List.Forall₂.nil
  | Q :: ps, h => List.Forall₂.cons (RA_mk hC H hH (h Q (by simp)).1 (h Q (by simp)).2)
      (forall₂_RA_ec C hC H hH ps fun Q' hQ' => h Q' (by simp [hQ']))

theorem ctxOf_n (C : Curve) (hn0 : 0 < C.n) : (((ctxOf C).n : ℕ) : ℤ) = C.n := by
  show ((C.n.toNat : ℕ) : ℤ) = C.n
  omega

theorem ctxOf_fixedW (C : Curve) (hn0 : 0 < C.n) : 1 ≤ (ctxOf C).fixedW := by
  have h1 : 1 ≤ (ctxOf C).scalarLen := by
    show 1 ≤ bitLength C.n.toNat
    unfold bitLength
    have : C.n.toNat ≠ 0 := by omega
    simp [this]
  have h2 : 1 ≤ (ctxOf C).fixedPointW := by show 1 ≤ Gen.Curves.FIXED_POINT_W; decide
  unfold CurveCtx.fixedW
  omega

/-- **`multi_mult_var(scalars, points, ec)` on btclib's arithmetic, EVERY curve (secp256k1's pure-Python route included:
the multi-scalar algorithms do not use the endomorphism)**: a returned pair is valid and denotes `Σ sᵢ • Qᵢ`, every
integer scalars, any number of terms (both sides of the generated `BOS_COSTER_THRESHOLD`, Python's heap order) -/
theorem multiMultEntry_ec (C : Curve) (hC : C.p = (p : ℤ)) (H : AddSubgroup (Pt p C.toCurveGroup))
    (hH : NoTwoTorsionIn H) (hn0 : 0 < C.n) (scalars : List ℤ) (points : List Point) (A : Point)
    (hpts : ∀ Q ∈ points, AValid p C.toCurveGroup Q ∧ absA p C.toCurveGroup Q ∈ H)
    (hn : ∀ Q ∈ points, C.n • absA p C.toCurveGroup Q = 0)
    (h : multiMultEntry (ctxOf C) scalars points = some A) :
    AValid p C.toCurveGroup A ∧
      absA p C.toCurveGroup A = lsum scalars (points.map (absA p C.toCurveGroup)) := by
  obtain ⟨hv, he, _⟩ := multiMultEntry_spec (ctxOf C) (jacRel_ec hC H hH) (jacRel_ec_functional hC H hH)
    heapSelect_ok (ctxOf_fixedW C hn0) (by show 0 < C.n.toNat; omega) scalars
    (forall₂_RA_ec C hC H hH points hpts)
    (by
      intro g hg
      obtain ⟨Q, hQ, rfl⟩ := List.mem_map.mp hg
      rw [ctxOf_n C hn0]; exact hn Q hQ) h
  exact ⟨hv, he⟩

/-- **`_sum_var(points, ec)` on btclib's arithmetic (pure-Python path, every curve, odd `p`)**: it ANSWERS on every list
of pairs passing `is_on_curve` whose points lie in `H`, with a valid reduced pair denoting `Σ Qᵢ` -/
theorem sumEntry_ec (C : Curve) (hC : C.p = (p : ℤ)) (hp2 : p ≠ 2) (H : AddSubgroup (Pt p C.toCurveGroup))
    (hH : NoTwoTorsionIn H) (points : List Point)
    (hon : ∀ Q ∈ points, isOnCurveX C.toCurveGroup Q = some true)
    (hpts : ∀ Q ∈ points, absA p C.toCurveGroup Q ∈ H) :
    ∃ A, sumEntry (ctxOf C) points = some A ∧ AValid p C.toCurveGroup A ∧
      absA p C.toCurveGroup A = (points.map (absA p C.toCurveGroup)).sum := by
  obtain ⟨A, hA, hv, he, _⟩ := sumEntry_spec (ctxOf C) (jacRel_ec hC H hH) (affRel_ec C hC hp2 H hH)
    (forall₂_RA_ec C hC H hH points fun Q hQ => ⟨(isOnCurveX_valid hC hp2 (hon Q hQ)).1, hpts Q hQ⟩) hon
  exact ⟨A, hA, hv, he⟩

/-- **`_tweak_add_var(P, t, ec)` on btclib's arithmetic (pure-Python path, every curve but secp256k1)**: `P + t • G` for
EVERY integer `t`, any blind -/
theorem tweakAddEntry_ec (C : Curve) (hC : C.p = (p : ℤ)) (hp2 : p ≠ 2) (H : AddSubgroup (Pt p C.toCurveGroup))
    (hH : NoTwoTorsionIn H) (hsecp : (ctxOf C).isSecp = false) (hn0 : 0 < C.n) (lam : ℤ)
    (hlam : (lam : ZMod p) ≠ 0) (t : ℤ) (P A : Point) (hP : AValid p C.toCurveGroup P)
    (hPH : absA p C.toCurveGroup P ∈ H) (hgy : C.gy ≠ 0) (hG : AValid p C.toCurveGroup C.G)
    (hGH : absA p C.toCurveGroup C.G ∈ H) (hnG : C.n • absA p C.toCurveGroup C.G = 0)
    (h : tweakAddEntry (ctxOf C) lam P t = some A) :
    AValid p C.toCurveGroup A ∧
      absA p C.toCurveGroup A = absA p C.toCurveGroup P + t • absA p C.toCurveGroup C.G := by
  obtain ⟨hv, he, _⟩ := tweakAddEntry_spec (ctxOf C) (jacRel_ec hC H hH) (affRel_ec C hC hp2 H hH) lam
    (gG := absA p C.toCurveGroup C.G) (by rw [ctxOf_n C hn0]; exact hnG)
    (by
      intro m T hT
      obtain ⟨hv, he⟩ := multEntry_ec C hC H hH hsecp hn0 lam hlam m C.G T hG hGH hgy hG hnG hT
      exact ⟨hv, he, H.zsmul_mem hGH m⟩)
    t (RA_mk hC H hH hP hPH) h
  exact ⟨hv, he⟩
end

section Secp
open Btc.E2E

theorem secp256k1_p_ne_two : secp256k1_p ≠ 2 := secpOk.p_ne_two

/-- `multi_mult_var` on secp256k1's pure-Python route, points in `⟨G⟩`: `Σ sᵢ • Qᵢ`, NO hypothesis about the curve -/
theorem multiMultEntry_secp256k1 (scalars : List ℤ) (points : List Point) (A : Point)
    (hpts : ∀ Q ∈ points, AValid secp256k1_p cS Q ∧ absA secp256k1_p cS Q ∈ HG)
    (h : multiMultEntry (ctxOf EC.secp256k1) scalars points = some A) :
    AValid secp256k1_p cS A ∧ absA secp256k1_p cS A = lsum scalars (points.map (absA secp256k1_p cS)) :=
  multiMultEntry_ec EC.secp256k1 secp_hp HG HG_noTwoTorsion secpOk.n_pos scalars points A hpts
    (fun Q hQ => n_smul_of_mem_HG (hpts Q hQ).2) h

/-- `_sum_var` on secp256k1's pure-Python route: answers, with `Σ Qᵢ` -/
theorem sumEntry_secp256k1 (points : List Point) (hon : ∀ Q ∈ points, isOnCurveX cS Q = some true)
    (hpts : ∀ Q ∈ points, absA secp256k1_p cS Q ∈ HG) :
    ∃ A, sumEntry (ctxOf EC.secp256k1) points = some A ∧ AValid secp256k1_p cS A ∧
      absA secp256k1_p cS A = (points.map (absA secp256k1_p cS)).sum :=
  sumEntry_ec EC.secp256k1 secp_hp secp256k1_p_ne_two HG HG_noTwoTorsion points hon hpts

/-- `_tweak_add_var` on secp256k1's pure-Python route: `P + t • G` for every integer `t`, every valid `P ∈ ⟨G⟩` -/
theorem tweakAddEntry_secp256k1 (lam : ℤ) (hlam : (lam : ZMod secp256k1_p) ≠ 0) (t : ℤ) (P A : Point)
    (hP : AValid secp256k1_p cS P) (hPH : absA secp256k1_p cS P ∈ HG)
    (h : tweakAddEntry (ctxOf EC.secp256k1) lam P t = some A) :
    AValid secp256k1_p cS A ∧
      absA secp256k1_p cS A = absA secp256k1_p cS P + t • absA secp256k1_p cS EC.secp256k1.G := by
  obtain ⟨hv, he, _⟩ := tweakAddEntry_spec (ctxOf EC.secp256k1) (jacRel_ec secp_hp HG HG_noTwoTorsion)
    (affRel_ec EC.secp256k1 secp_hp secp256k1_p_ne_two HG HG_noTwoTorsion) lam
    (gG := absA secp256k1_p cS EC.secp256k1.G)
    (by rw [ctxOf_n EC.secp256k1 secpOk.n_pos]; exact n_smul_of_mem_HG absA_G_mem_HG)
    (by
      intro m T hT
      obtain ⟨hv, he⟩ := multEntry_secp256k1 lam hlam m EC.secp256k1.G T secpOk.gen_valid absA_G_mem_HG hT
      exact ⟨hv, he, HG.zsmul_mem absA_G_mem_HG m⟩)
    t (RA_mk secp_hp HG HG_noTwoTorsion hP hPH) h
  exact ⟨hv, he⟩
end Secp

end Btc.C01
