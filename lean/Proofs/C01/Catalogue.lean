import Proofs.E2E.CatalogueOk
import Proofs.E2E.CofactorOne
import Proofs.C01.CapstoneEntry2
import Proofs.C01.CapstoneCtor
import Proofs.C01.CapstoneCofactor
import Proofs.C01.Totality2
/-
C01 — "for every catalogued curve" as THEOREMS with no primality / order hypothesis: `Btc.E2E.Cat.catalogue_ok_all`
(Pratt certificates for every `p` and `n`, kernel-evaluated `n•G = ∞`, over the catalogue REGENERATED from btclib's
source each run) composed with the generic capstone theorems; and secp256k1 with cofactor one PROVED
(`Btc.E2E.secpCofactorOne`): `⟨G⟩` is the whole curve, so the membership hypotheses disappear.
-/
open WeierstrassCurve

namespace Btc.C01
open Btc Btc.EC

/-- "`P` holds of every curve of the regenerated catalogue", the primality of its `p` being part of what is proved -/
def ForCatalogue (P : ∀ (p : ℕ) [Fact p.Prime] (C : Curve), CurveOk p C → Prop) : Prop :=
  ∀ d ∈ Gen.Curves.catalogue, ∃ hp : Nat.Prime d.p.toNat, Nat.Prime d.n.toNat ∧
    ∃ K : @CurveOk d.p.toNat ⟨hp⟩ (Curve.ofData d), @P d.p.toNat ⟨hp⟩ (Curve.ofData d) K

theorem forCatalogue_of {P : ∀ (p : ℕ) [Fact p.Prime] (C : Curve), CurveOk p C → Prop}
    (h : ∀ (p : ℕ) [Fact p.Prime] (C : Curve) (K : CurveOk p C), P p C K) : ForCatalogue P := by
  intro d hd
  obtain ⟨hp, hn, K⟩ := Btc.E2E.Cat.catalogue_ok_all d hd
  exact ⟨hp, hn, K, @h d.p.toNat ⟨hp⟩ _ K⟩

section
variable {p : ℕ} [Fact p.Prime] {C : Curve}

/-- the `n`-torsion of a `CurveOk` curve: a subgroup without 2-torsion (`n` odd) holding the generator -/
theorem torsion_noTwo (K : CurveOk p C) : NoTwoTorsionIn (torsionSub p C.toCurveGroup C.n) :=
  noTwoTorsionIn_torsionSub C.n K.n_odd

/-- `double_mult_var` on btclib's arithmetic, every curve but secp256k1 -/
theorem doubleMultEntry_ec (hC : C.p = (p : ℤ)) (H : AddSubgroup (Pt p C.toCurveGroup))
    (hH : NoTwoTorsionIn H) (hsecp : (ctxOf C).isSecp = false) (hn0 : 0 < C.n) (u v : ℤ) (P Q A : Point)
    (hP : AValid p C.toCurveGroup P) (hPH : absA p C.toCurveGroup P ∈ H)
    (hQ : AValid p C.toCurveGroup Q) (hQH : absA p C.toCurveGroup Q ∈ H)
    (hnP : C.n • absA p C.toCurveGroup P = 0) (hnQ : C.n • absA p C.toCurveGroup Q = 0)
    (h : doubleMultEntry (ctxOf C) u P v Q = some A) :
    AValid p C.toCurveGroup A ∧
      absA p C.toCurveGroup A = u • absA p C.toCurveGroup P + v • absA p C.toCurveGroup Q := by
  obtain ⟨hv, he, _⟩ := doubleMultEntry_spec (ctxOf C) (jacRel_ec hC H hH) (jacRel_ec_functional hC H hH) hsecp
    (ctxOf_fixedW C hn0) (by show 0 < C.n.toNat; omega) u v (RA_mk hC H hH hP hPH) (RA_mk hC H hH hQ hQH)
    (by rw [ctxOf_n C hn0]; exact hnP) (by rw [ctxOf_n C hn0]; exact hnQ) h
  exact ⟨hv, he⟩

/-- `mult` of a `CurveOk` curve other than secp256k1: `m • Q` for every valid `Q` of the `n`-torsion -/
theorem multEntry_ok (K : CurveOk p C) (hsecp : (ctxOf C).isSecp = false) (lam : ℤ) (hlam : (lam : ZMod p) ≠ 0)
    (m : ℤ) (Q A : Point) (hQ : AValid p C.toCurveGroup Q) (hn : C.n • absA p C.toCurveGroup Q = 0)
    (h : multEntry (ctxOf C) lam m Q = some A) :
    AValid p C.toCurveGroup A ∧ absA p C.toCurveGroup A = m • absA p C.toCurveGroup Q :=
  multEntry_ec C K.hC _ (torsion_noTwo K) hsecp K.n_pos lam hlam m Q A hQ hn K.gen_ne K.gen_valid hn h

theorem doubleMultEntry_ok (K : CurveOk p C) (hsecp : (ctxOf C).isSecp = false) (u v : ℤ) (P Q A : Point)
    (hP : AValid p C.toCurveGroup P) (hnP : C.n • absA p C.toCurveGroup P = 0)
    (hQ : AValid p C.toCurveGroup Q) (hnQ : C.n • absA p C.toCurveGroup Q = 0)
    (h : doubleMultEntry (ctxOf C) u P v Q = some A) :
    AValid p C.toCurveGroup A ∧
      absA p C.toCurveGroup A = u • absA p C.toCurveGroup P + v • absA p C.toCurveGroup Q :=
  doubleMultEntry_ec K.hC _ (torsion_noTwo K) hsecp K.n_pos u v P Q A hP hnP hQ hnQ hnP hnQ h

theorem multiMultEntry_ok (K : CurveOk p C) (scalars : List ℤ) (points : List Point) (A : Point)
    (hpts : ∀ Q ∈ points, AValid p C.toCurveGroup Q ∧ C.n • absA p C.toCurveGroup Q = 0)
    (h : multiMultEntry (ctxOf C) scalars points = some A) :
    AValid p C.toCurveGroup A ∧
      absA p C.toCurveGroup A = lsum scalars (points.map (absA p C.toCurveGroup)) :=
  multiMultEntry_ec C K.hC _ (torsion_noTwo K) K.n_pos scalars points A hpts (fun Q hQ => (hpts Q hQ).2) h
end

/-! ## the catalogue -/

/-- **every catalogued curve: `p` prime, `n` prime, `CurveOk`** (re-export) -/
theorem catalogue_ok : ∀ d ∈ Gen.Curves.catalogue,
    ∃ hp : Nat.Prime d.p.toNat, Nat.Prime d.n.toNat ∧ @CurveOk d.p.toNat ⟨hp⟩ (Curve.ofData d) :=
  Btc.E2E.Cat.catalogue_ok_all

theorem lawfulGroup_catalogue : ForCatalogue fun p _ C K =>
    ∃ L : LawfulGroup (opsSub K) (Pt p C.toCurveGroup), ∀ P, L.abs P = absA p C.toCurveGroup P.1 :=
  forCatalogue_of fun _ _ _ K => ⟨lawfulGroup_ec K, fun _ => rfl⟩

theorem lawful_catalogue : ForCatalogue fun p _ C K => p % 4 = 3 →
    ∃ L : Lawful (opsSub K) (Pt p C.toCurveGroup), ∀ P, L.abs P = absA p C.toCurveGroup P.1 :=
  forCatalogue_of fun _ _ _ K h34 => ⟨lawful_ec K h34, fun _ => rfl⟩

theorem multEntry_catalogue : ForCatalogue fun p _ C _ => (ctxOf C).isSecp = false →
    ∀ (lam : ℤ), (lam : ZMod p) ≠ 0 → ∀ (m : ℤ) (Q A : Point), AValid p C.toCurveGroup Q →
      C.n • absA p C.toCurveGroup Q = 0 → multEntry (ctxOf C) lam m Q = some A →
      AValid p C.toCurveGroup A ∧ absA p C.toCurveGroup A = m • absA p C.toCurveGroup Q :=
  forCatalogue_of fun _ _ _ K hsecp lam hlam m Q A hQ hn h => multEntry_ok K hsecp lam hlam m Q A hQ hn h

theorem multEntry_answers_catalogue : ForCatalogue fun _ _ C _ =>
    ∀ (lam m : ℤ) (Q : Point), (ctxOf C).eqAff Q (ctxOf C).G = true ∨ isOnCurveX C.toCurveGroup Q = some true →
      ∃ A, multEntry (ctxOf C) lam m Q = some A :=
  forCatalogue_of fun _ _ C K lam m Q hQ => multEntry_answers_all (ctxOf C) (ctxOf_okEndo C K.n_pos) lam m Q hQ

theorem doubleMultEntry_catalogue : ForCatalogue fun p _ C _ => (ctxOf C).isSecp = false →
    ∀ (u v : ℤ) (P Q A : Point), AValid p C.toCurveGroup P → C.n • absA p C.toCurveGroup P = 0 →
      AValid p C.toCurveGroup Q → C.n • absA p C.toCurveGroup Q = 0 →
      doubleMultEntry (ctxOf C) u P v Q = some A →
      AValid p C.toCurveGroup A ∧
        absA p C.toCurveGroup A = u • absA p C.toCurveGroup P + v • absA p C.toCurveGroup Q :=
  forCatalogue_of fun _ _ _ K hsecp u v P Q A hP hnP hQ hnQ h => doubleMultEntry_ok K hsecp u v P Q A hP hnP hQ hnQ h

theorem multiMultEntry_catalogue : ForCatalogue fun p _ C _ =>
    ∀ (scalars : List ℤ) (points : List Point) (A : Point),
      (∀ Q ∈ points, AValid p C.toCurveGroup Q ∧ C.n • absA p C.toCurveGroup Q = 0) →
      multiMultEntry (ctxOf C) scalars points = some A →
      AValid p C.toCurveGroup A ∧ absA p C.toCurveGroup A = lsum scalars (points.map (absA p C.toCurveGroup)) :=
  forCatalogue_of fun _ _ _ K scalars points A hpts h => multiMultEntry_ok K scalars points A hpts h

/-- the reference `mult` the scheme drivers run (`Btc.EC.ops C`): closed on the carrier and `= m • P` -/
theorem mul_catalogue : ForCatalogue fun p _ C _ => ∀ (m : ℤ) (P : Point), InSub p C P →
    InSub p C ((EC.ops C).mul m P) ∧
      absA p C.toCurveGroup ((EC.ops C).mul m P) = m • absA p C.toCurveGroup P :=
  forCatalogue_of fun _ _ _ K m P hP => mul_closed K m P hP

/-! ## secp256k1: cofactor one is a theorem -/
section Secp
open Btc.E2E

theorem secp_hcof : ∀ g : Pt secp256k1_p cS, EC.secp256k1.n • g = 0 := secpCofactorOne

theorem secp_delta : (curveOf secp256k1_p cS).toAffine.Δ ≠ 0 :=
  delta_ne_zero_of_disc secp_hp secpOk.p_ne_two (by decide +kernel)

/-- `⟨G⟩` is the whole curve: the group has prime order `n` and `G ≠ 0` -/
theorem mem_HG (g : Pt secp256k1_p cS) : g ∈ HG := by
  have : Finite (Pt secp256k1_p cS) := pt_finite secpOk.p_ne_two
  have hcard : Nat.card (Pt secp256k1_p cS) = secp256k1_n := secp_card
  have hord : addOrderOf G0 = secp256k1_n := by
    have := addOrderOf_gen secpOk
    rw [absA_G_of secpOk] at this
    exact this
  have : (HG : AddSubgroup (Pt secp256k1_p cS)) = ⊤ := by
    apply AddSubgroup.eq_top_of_card_eq
    rw [hcard]
    show Nat.card (AddSubgroup.zmultiples G0) = _
    rw [Nat.card_zmultiples, hord]
  rw [this]; exact AddSubgroup.mem_top g

end Secp
end Btc.C01
