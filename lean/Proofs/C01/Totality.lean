import Proofs.C01.BosCoster
import Proofs.C01.Entry
/-
C01 — totality: the fixed base and the public `mult` / `PreparedPoint.mult` (pure-Python path, every curve but
secp256k1) ANSWER on every admissible input, so the partial-correctness theorems (`… = some r → …`) are not
satisfied by a model that refuses.
-/
namespace Btc.C01
variable {α β : Type}

theorem signedOddDigits_answers (m w size : ℕ) (hw : 1 ≤ w) (hs : 1 ≤ size) (hfit : m < 2 ^ (w * size)) :
    signedOddDigits ((orOne m : ℕ) : ℤ) w size = some (sodLoop w (size - 1) ((orOne m : ℕ) : ℤ)) := by
  have hfit' : orOne m < 2 ^ (w * size) := by
    obtain ⟨e, he⟩ : ∃ e, w * size = e + 1 := ⟨w * size - 1, by
      have : 1 ≤ w * size := Nat.mul_pos hw hs
      omega⟩
    rw [he, pow_succ] at hfit ⊢
    unfold orOne; split <;> omega
  unfold signedOddDigits
  have hw0 : ¬ w = 0 := by omega
  have hodd : ¬ ((orOne m : ℕ) : ℤ) % 2 = 0 := by unfold orOne; split <;> omega
  have hz : ((orOne m : ℕ) : ℤ) / 2 ^ (w * size) = 0 := by
    apply Int.ediv_eq_zero_of_lt (by omega)
    exact_mod_cast hfit'
  simp [hw0, hodd, hz]; omega

/-- `_mult_fixed_base(m, Q, ec, w)` answers for every scalar below `2^scalar_len` (every reduced scalar), `w ≥ 1` -/
theorem multFixedBase_answers (o : JacOps α β) (scalarLen m w : ℕ) (lam : ℤ) (hw : 1 ≤ w) (hs : 1 ≤ scalarLen)
    (hm : m < 2 ^ scalarLen) (Q : α) : ∃ r, multFixedBase o scalarLen lam m Q w = some r := by
  unfold multFixedBase
  have hw0 : ¬ w = 0 := by omega
  simp only [hw0, if_false, fixedBaseTables_length]
  have hsize : 1 ≤ ceilDiv scalarLen w := by
    have := le_mul_ceilDiv scalarLen w hw
    rcases Nat.eq_zero_or_pos (ceilDiv scalarLen w) with h0 | h0
    · rw [h0] at this; omega
    · exact h0
  have hfit : m < 2 ^ (w * ceilDiv scalarLen w) :=
    lt_of_lt_of_le hm (Nat.pow_le_pow_right (by omega) (le_mul_ceilDiv scalarLen w hw))
  rw [signedOddDigits_answers m w _ hw hsize hfit]
  exact ⟨_, rfl⟩

/-- the side conditions on a curve context under which its entry points answer: what `Curve.__init__` and the
generated widths provide (`scalar_len = n.bit_length()`, all widths ≥ 1) -/
structure CtxOk (c : CurveCtx α β) : Prop where
  n_pos : 0 < c.n
  n_fits : c.n < 2 ^ c.scalarLen
  len_pos : 1 ≤ c.scalarLen
  fixedBaseW_pos : 1 ≤ c.fixedBaseW
  multW_pos : 1 ≤ c.multW

theorem multChecked_answers (c : CurveCtx α β) (hc : CtxOk c) (hsecp : c.isSecp = false) (lam : ℤ) (m : ℕ)
    (hm : m < c.n) (Q : β) (prepared : Bool) : ∃ A, multChecked c lam m Q prepared = some A := by
  have hm2 : m < 2 ^ c.scalarLen := lt_trans hm hc.n_fits
  unfold multChecked
  split
  · obtain ⟨r, hr⟩ := multFixedBase_answers c.o c.scalarLen m c.fixedBaseW lam hc.fixedBaseW_pos hc.len_pos hm2 c.GJ
    exact ⟨_, by rw [hr]; rfl⟩
  · simp only [hsecp]
    split
    · obtain ⟨r, hr⟩ := multFixedBase_answers c.o c.scalarLen m c.fixedBaseW lam hc.fixedBaseW_pos hc.len_pos hm2
        (c.o.jacFromAff Q)
      exact ⟨_, by rw [hr]; rfl⟩
    · obtain ⟨r, hr⟩ := multRegularWindow_answers (o := c.o) c.scalarLen m c.multW hc.multW_pos (Or.inl hc.len_pos)
        (c.o.rescale lam (c.o.jacFromAff Q))
      exact ⟨_, by simp only [Bool.false_eq_true, if_false]; rw [hr]; rfl⟩

/-- T8 (totality): `mult(m, Q, ec)` answers for EVERY integer `m` and every `Q` that is the generator or passes
`is_on_curve` (pure-Python path, every curve but secp256k1) -/
theorem multEntry_answers (c : CurveCtx α β) (hc : CtxOk c) (hsecp : c.isSecp = false) (lam m : ℤ) (Q : β)
    (hQ : c.eqAff Q c.G = true ∨ c.onCurve Q = some true) : ∃ A, multEntry c lam m Q = some A := by
  unfold multEntry
  simp only []
  have hguard : ¬ ((!c.eqAff Q c.G && !c.requireOnCurve Q) = true) := by
    unfold CurveCtx.requireOnCurve
    rcases hQ with h | h <;> simp [h]
  rw [if_neg hguard]
  have hn : (0 : ℤ) < c.n := by exact_mod_cast hc.n_pos
  exact multChecked_answers c hc hsecp lam _ (by
    have := Int.emod_lt_of_pos m hn
    have := Int.emod_nonneg m (ne_of_gt hn)
    omega) Q false

/-- `PreparedPoint(Q, ec).mult(m)` answers for every `m` and every on-curve `Q` other than infinity -/
theorem preparedMult_answers (c : CurveCtx α β) (hc : CtxOk c) (hsecp : c.isSecp = false) (lam m : ℤ) (Q : β)
    (hQ : c.onCurve Q = some true) (hinf : c.isInf Q = false) : ∃ A, preparedMult c lam Q m = some A := by
  unfold preparedMult CurveCtx.requireOnCurve
  simp only [hQ, hinf, beq_self_eq_true, Bool.not_true, Bool.false_eq_true, if_false]
  have hn : (0 : ℤ) < c.n := by exact_mod_cast hc.n_pos
  exact multChecked_answers c hc hsecp lam _ (by
    have := Int.emod_lt_of_pos m hn
    have := Int.emod_nonneg m (ne_of_gt hn)
    omega) Q true

/-- the context of a real `Curve` with `n ≥ 1` satisfies the side conditions (generated widths are ≥ 1) -/
theorem ctxOf_ok (C : EC.Curve) (hn : 0 < C.n) : CtxOk (ctxOf C) where
  n_pos := by simp only [ctxOf]; omega
  n_fits := by simp only [ctxOf]; exact lt_two_pow_bitLength _
  len_pos := by
    simp only [ctxOf, bitLength]
    have : C.n.toNat ≠ 0 := by omega
    simp [this]
  fixedBaseW_pos := by show 1 ≤ Gen.Curves.FIXED_BASE_W; decide
  multW_pos := by show 1 ≤ Gen.Curves.MULT_W; decide

end Btc.C01
