import Proofs.C01.Ctor
import Proofs.C01.CapstoneEntry2
import Proofs.C01.CapstoneLawful
/-
C01 — what an ACCEPTED curve is: `CurveGroup.__init__` / `Curve.__init__` (model `newCurveGroup` / `newCurve`, proved
equal to the chain of refusals generated from the source in `Proofs/C01/Ctor.lean`) answer exactly on the parameters
passing every check, and — when `p` and `n` are truly prime, which the code's Fermat base-2 test cannot promise — an
accepted curve with `order_check` has `Δ ≠ 0`, a generator that is a nonsingular reduced point `≠ ∞` with `n • G = 0`
in Mathlib's point group: `CurveOk`, the hypothesis bundle of every scheme-level theorem.
-/
open WeierstrassCurve

namespace Btc.C01
open Btc.EC

/-- `CurveGroup(p, a, b)` is accepted EXACTLY when: `p` passes the Fermat test, `0 ≤ a < p`, `0 ≤ b < p`,
`4a³ + 27b² ≢ 0 (mod p)` — everything else is refused -/
theorem newCurveGroup_ok_iff (p a b : Int) (g : CurveGroup) :
    newCurveGroup p a b = .ok g ↔
      isPrimeFermat p = true ∧ (0 ≤ a ∧ a < p) ∧ (0 ≤ b ∧ b < p) ∧ (4 * a * a * a + 27 * b * b) % p ≠ 0 ∧
        g = { p := p, a := a, b := b } := by
  unfold newCurveGroup
  by_cases h1 : isPrimeFermat p = true
  · by_cases h2 : a < 0
    · simp [h1, h2]
    · by_cases h3 : p ≤ a
      · simp [h1, h2, h3]
      · by_cases h4 : b < 0
        · simp [h1, h2, h3, h4]
        · by_cases h5 : p ≤ b
          · simp [h1, h2, h3, h4, h5]
          · by_cases h6 : (4 * a * a * a + 27 * b * b) % p = 0
            · simp [h1, h2, h3, h4, h5, h6]
            · simp only [h1, h2, h3, h4, h5, h6, Bool.not_true, Bool.false_eq_true, if_false, Except.ok.injEq]
              constructor
              · intro h; exact ⟨trivial, ⟨by omega, by omega⟩, ⟨by omega, by omega⟩, h6, h.symm⟩
              · intro h; exact h.2.2.2.2.symm
  · simp [h1]

/-- what `Curve(p, a, b, G, n, cofactor, weakness_check, order_check)` being ACCEPTED means, every check spelled out
(the converse — each failing check refuses, in the code's order — is `newCurve_eq_generated`) -/
theorem newCurve_ok (p a b gx gy n h : Int) (wc oc : Bool) (C : Curve)
    (hC : newCurve p a b gx gy n h wc oc = .ok C) :
    newCurveGroup p a b = .ok C.toCurveGroup ∧
      C = { p := p, a := a, b := b, gx := gx, gy := gy, n := n, h := h } ∧
      (0 ≤ gx ∧ gx < p) ∧ gy ≠ 0 ∧ isOnCurve C.toCurveGroup (gx, gy) = some true ∧
      isPrimeFermat n = true ∧
      (h < 2 → p + 1 - (Nat.sqrt (4 * p).toNat : Int) ≤ n ∧ n ≤ p + 1 + (Nat.sqrt (4 * p).toNat : Int)) ∧
      (oc = true → (multJacVar (ecOps C.toCurveGroup) n.toNat (gx, gy, 1)).2.2 = 0) ∧
      h = (1 + (Nat.sqrt (4 * p).toNat : Int) + p) / n ∧ n ≠ p ∧ (wc = true → movWeak p n = false) := by
  unfold newCurve at hC
  cases hg : newCurveGroup p a b with
  | error e => simp [hg, bind, Except.bind] at hC
  | ok g =>
    have hgp := ((newCurveGroup_ok_iff p a b g).mp hg).2.2.2.2
    simp only [hg, bind, Except.bind] at hC
    split at hC; · cases hC
    next hx =>
    split at hC
    · cases hC
    · cases hC
    next hon =>
    split at hC; · cases hC
    next hpn =>
    split at hC; · cases hC
    next hh =>
    split at hC; · cases hC
    next hgy =>
    split at hC; · cases hC
    next ho =>
    split at hC; · cases hC
    next hcof =>
    split at hC; · cases hC
    next hnp =>
    split at hC; · cases hC
    next hmov =>
    simp only [Except.ok.injEq] at hC
    subst hC
    have hx' : 0 ≤ gx ∧ gx < p := by
      by_contra hcon
      exact hx ⟨hgy, hcon⟩
    refine ⟨rfl, by rw [hgp], hx', hgy, hon, by simpa using hpn, ?_, ?_, by simpa using hcof, hnp, ?_⟩
    · intro h2
      simp only [Bool.and_eq_true, decide_eq_true_eq, Bool.not_eq_true', Bool.and_eq_false_iff,
        decide_eq_false_iff_not, not_and, not_or, Decidable.not_not] at hh
      have := hh h2
      simpa using this
    · intro hoc
      have hGJ : ({ toCurveGroup := g, gx := gx, gy := gy, n := n, h := h } : Curve).GJ = (gx, gy, 1) := rfl
      rw [hGJ] at ho
      simpa [hoc] using ho
    · intro hwc
      simpa [hwc] using hmov

section
variable {p : ℕ} [Fact p.Prime] {c : CurveGroup} (hp : c.p = (p : ℤ))
include hp

/-- `_mult_jac_var` on btclib's arithmetic with NO hypothesis on 2-torsion (it never leaves Jacobian coordinates):
a valid triple denoting `m • Q` -/
theorem multJacLoop_ec_all (m : ℕ) : ∀ (Q R0 : JacPoint), JValid p c Q → JValid p c R0 →
    JValid p c (multJacLoop (ecOps c) m Q R0) ∧
      absJ p c (multJacLoop (ecOps c) m Q R0) = absJ p c R0 + (m : ℤ) • (absJ p c Q + absJ p c Q) := by
  induction m using Nat.strong_induction_on with
  | _ m ih =>
    intro Q R0 hQ hR
    rw [multJacLoop]
    split
    · next h => subst h; simpa using hR
    · next h =>
      obtain ⟨hdv, hde⟩ := doubleJac_spec hp Q hQ
      by_cases hodd : m % 2 = 1
      · simp only [hodd, if_true]
        obtain ⟨hav, hae⟩ := addJac_spec hp R0 (doubleJac c Q) hR hdv
        obtain ⟨hv, he⟩ := ih (m / 2) (by omega) _ _ hdv hav
        refine ⟨hv, ?_⟩
        show absJ p c (multJacLoop (ecOps c) (m / 2) (doubleJac c Q) (addJac c R0 (doubleJac c Q))) = _
        rw [he, hae, hde]
        have : (m : ℤ) = 2 * ((m / 2 : ℕ) : ℤ) + 1 := by omega
        rw [this]; module
      · simp only [hodd, if_false]
        obtain ⟨hv, he⟩ := ih (m / 2) (by omega) _ _ hdv hR
        refine ⟨hv, ?_⟩
        show absJ p c (multJacLoop (ecOps c) (m / 2) (doubleJac c Q) R0) = _
        rw [he, hde]
        have : (m : ℤ) = 2 * ((m / 2 : ℕ) : ℤ) := by omega
        rw [this]; module

theorem multJacVar_ec_all (m : ℕ) (Q : JacPoint) (hQ : JValid p c Q) :
    JValid p c (multJacVar (ecOps c) m Q) ∧ absJ p c (multJacVar (ecOps c) m Q) = (m : ℤ) • absJ p c Q := by
  unfold multJacVar
  by_cases hodd : m % 2 = 1
  · simp only [hodd, if_true]
    obtain ⟨hv, he⟩ := multJacLoop_ec_all hp (m / 2) Q Q hQ hQ
    refine ⟨hv, ?_⟩
    rw [he]
    have : (m : ℤ) = 2 * ((m / 2 : ℕ) : ℤ) + 1 := by omega
    rw [this]; module
  · simp only [hodd, if_false]
    obtain ⟨hv, he⟩ := multJacLoop_ec_all hp (m / 2) Q INFJ hQ JValid_INFJ
    refine ⟨hv, ?_⟩
    show absJ p c (multJacLoop (ecOps c) (m / 2) Q INFJ) = _
    rw [he, absJ_INFJ]
    have : (m : ℤ) = 2 * ((m / 2 : ℕ) : ℤ) := by omega
    rw [this]; module

/-- the constructor's discriminant test is Mathlib's `Δ ≠ 0` (odd `p`) -/
theorem delta_ne_zero_of_disc (hp2 : p ≠ 2) (hd : (4 * c.a * c.a * c.a + 27 * c.b * c.b) % c.p ≠ 0) :
    (curveOf p c).toAffine.Δ ≠ 0 := by
  have hΔ : (curveOf p c).toAffine.Δ =
      -(2 * 2 * 2 * 2) * (4 * (c.a : ZMod p) * c.a * c.a + 27 * (c.b : ZMod p) * c.b) := by
    simp only [curveOf, swc, WeierstrassCurve.Δ, WeierstrassCurve.b₂, WeierstrassCurve.b₄, WeierstrassCurve.b₆,
      WeierstrassCurve.b₈]
    ring
  rw [hΔ]
  have h2 : (2 : ZMod p) ≠ 0 := by
    intro h0
    have : ((2 : ℕ) : ZMod p) = 0 := by exact_mod_cast h0
    rw [ZMod.natCast_eq_zero_iff] at this
    have hpp := (Fact.out : p.Prime)
    exact hp2 ((Nat.prime_dvd_prime_iff_eq hpp Nat.prime_two).mp this)
  refine mul_ne_zero (neg_ne_zero.mpr (by simp [h2])) ?_
  intro h0
  apply hd
  have : (((4 * c.a * c.a * c.a + 27 * c.b * c.b : ℤ)) : ZMod p) = 0 := by push_cast; exact h0
  rw [ZMod.intCast_zmod_eq_zero_iff_dvd] at this
  rw [hp]
  exact Int.emod_eq_zero_of_dvd this
end

/-- the Fermat test accepts only odd numbers `≥ 3` -/
theorem isPrimeFermat_odd {x : Int} (h : isPrimeFermat x = true) : 2 ≤ x ∧ x % 2 = 1 := by
  unfold isPrimeFermat at h
  simp only [Bool.and_eq_true, decide_eq_true_eq] at h
  omega

/-- **an accepted curve is a good curve**: if `Curve(p, a, b, G, n, h, weakness_check, order_check=True)` is accepted
and `p`, `n` are truly prime (the Fermat test of the code accepts base-2 pseudoprimes: known finding
`curvegroup.fermat_pseudoprime`), then `Δ ≠ 0` and `CurveOk`: odd `p`, odd prime `n`, the generator is a reduced
nonsingular point, not infinity, with `n • G = 0` in Mathlib's point group.  A malformed curve — singular, generator
off the curve or out of range or infinite, `n • G ≠ ∞` — is therefore refused. -/
theorem newCurve_curveOk {p' : ℕ} [Fact p'.Prime] (p a b gx gy n h : Int) (wc : Bool) (C : Curve)
    (hp : p = (p' : ℤ)) (hn : Nat.Prime n.toNat)
    (hC : newCurve p a b gx gy n h wc true = .ok C) :
    CurveOk p' C ∧ (curveOf p' C.toCurveGroup).toAffine.Δ ≠ 0 := by
  obtain ⟨hg, hCe, hx, hgy, hon, hpn, _, hord, _, _, _⟩ := newCurve_ok p a b gx gy n h wc true C hC
  obtain ⟨hpp, _, _, hdisc, hge⟩ := (newCurveGroup_ok_iff p a b _).mp hg
  have hCp : C.p = (p' : ℤ) := by rw [hCe]; exact hp
  have hcp : C.toCurveGroup.p = (p' : ℤ) := hCp
  have hp2 : p' ≠ 2 := by
    intro h2
    have := (isPrimeFermat_odd hpp).2
    rw [hp, h2] at this
    norm_num at this
  have hGe : C.G = (gx, gy) := by rw [hCe]; rfl
  have hCn : C.n = n := by rw [hCe]
  have hCgy : C.gy = gy := by rw [hCe]
  have honX : isOnCurveX C.toCurveGroup (gx, gy) = some true := by
    unfold isOnCurveX
    have : (0 ≤ gx ∧ gx < C.toCurveGroup.p) := by rw [hcp, ← hp]; exact hx
    simp [hgy, this, hon]
  obtain ⟨hGv, hGr⟩ := isOnCurveX_valid hcp hp2 honX
  have hnodd := isPrimeFermat_odd hpn
  have hJ : JValid p' C.toCurveGroup (gx, gy, 1) := JValid_of_AValid (R := (gx, gy)) hgy hGv
  obtain ⟨hmv, hme⟩ := multJacVar_ec_all hcp n.toNat (gx, gy, 1) hJ
  have hz := absJ_of_Z_eq_zero (p := p') (c := C.toCurveGroup) (hord rfl)
  rw [hme] at hz
  have hnn : ((n.toNat : ℕ) : ℤ) = n := Int.toNat_of_nonneg (by omega)
  refine ⟨⟨hCp, hp2, by rw [hCn]; omega, by rw [hCn]; exact hn, by rw [hCn]; exact hnodd.2, by rw [hGe]; exact hGv,
    by rw [hGe]; exact hGr, by rw [hCgy]; exact hgy, ?_⟩, ?_⟩
  · rw [hGe, hCn, absA_of_y_ne_zero (R := (gx, gy)) hgy, ← hnn]
    exact hz
  · apply delta_ne_zero_of_disc hcp hp2
    have : C.toCurveGroup = { p := p, a := a, b := b } := hge
    rw [this]
    exact hdisc

end Btc.C01
