import Model.C01.Curve
import Generated.C01Ctor
/-
C01 — the constructors and the doubling formula, TIED TO THE SOURCE: `Generated/C01Ctor.lean` is rewritten from the AST
of `CurveGroup.__init__`, `Curve.__init__`, `_is_prime`, `_assert_mov_resistant`, `double_jac`, `_double_jac_helper` on
every run (tools/specs/c01ctor.py); the theorems below say the hand-written model (`Model/Common/EC.lean`,
`Model/C01/Curve.lean`) IS what was generated — so a change of a flag (`_a_is_minus_3 = a == p - 3`), of a spelling of
the `a·Z⁴` term, of a refusal or of the order of the refusals breaks an obligation.  Core Lean only.
-/
namespace Btc.C01
open Btc.EC Gen.C01Ctor

theorem isPrimeFermat_eq_generated (x : Int) : isPrimeFermat x = is_prime x := by
  unfold isPrimeFermat is_prime
  simp only [ge_iff_le, ne_eq, decide_not, Bool.and_assoc]
  congr 2

theorem standIn_eq_generated (c : CurveGroup) : standInQ c = stand_in_q c.p ∧ standInR c = stand_in_r c.p := ⟨rfl, rfl⟩

/-- `_double_jac_helper` of the model = the generated one at the flags the generated constructor assigns, EVERY curve
(`a = 0`, `a = p - 3`, general), every triple, every `QZ2` (`add_jac` passes its own) -/
theorem doubleJacHelper_eq_generated (c : CurveGroup) (Q : JacPoint) (QZ2 : Int) :
    doubleJacHelper c Q QZ2 =
      double_jac_helper (a_is_zero c.p c.a) (a_is_minus_3 c.p c.a) c.p c.a Q.1 Q.2.1 Q.2.2 QZ2 := by
  obtain ⟨X, Y, Z⟩ := Q
  unfold doubleJacHelper double_jac_helper a_is_zero a_is_minus_3
  by_cases h0 : c.a = 0
  · simp [h0]
  · by_cases h3 : c.a = c.p - 3
    · simp [h0, h3]
    · simp [h0, h3]

/-- `double_jac` of the model = the generated `double_jac` -/
theorem doubleJac_eq_generated (c : CurveGroup) (Q : JacPoint) :
    doubleJac c Q =
      double_jac_helper (a_is_zero c.p c.a) (a_is_minus_3 c.p c.a) c.p c.a Q.1 Q.2.1 Q.2.2
        (double_jac_qz2 (a_is_zero c.p c.a) c.p Q.2.2) := by
  unfold doubleJac
  rw [doubleJacHelper_eq_generated]
  congr 1
  unfold double_jac_qz2 a_is_zero
  by_cases h0 : c.a = 0 <;> simp [h0]

/-- the message fragment of each refusal, as the source spells it -/
def NewErr.msg : NewErr → String
  | .pNotPrime => "p is not prime: " | .aNeg => "negative a: " | .aGe => "p <= a: " | .bNeg => "negative b: "
  | .bGe => "p <= b: " | .disc => "zero discriminant" | .genX => "Generator is not on the curve"
  | .genY => "Generator is not on the curve" | .genOff => "Generator is not on the curve"
  | .nNotPrime => "n is not prime: " | .hasse => "n not in p+1-delta..p+1+delta: "
  | .infGen => "INF point cannot be a generator" | .order => "n is not the group order: "
  | .cofactor => "invalid cofactor: " | .nEqP => "n=p weak curve: " | .mov => "weak curve: "

def refusal {ε : Type} (r : Except NewErr ε) : Option String :=
  match r with | .ok _ => none | .error e => some e.msg

/-- `CurveGroup.__init__`: the model refuses exactly what the generated chain of checks refuses, the SAME check first -/
theorem newCurveGroup_eq_generated (p a b : Int) : refusal (newCurveGroup p a b) = group_checks p a b := by
  unfold newCurveGroup group_checks
  rw [isPrimeFermat_eq_generated]
  by_cases h1 : is_prime p = true
  · by_cases h2 : a < 0
    · simp [h1, h2, refusal, NewErr.msg]
    · by_cases h3 : p ≤ a
      · simp [h1, h2, h3, refusal, NewErr.msg]
      · by_cases h4 : b < 0
        · simp [h1, h2, h3, h4, refusal, NewErr.msg]
        · by_cases h5 : p ≤ b
          · simp [h1, h2, h3, h4, h5, refusal, NewErr.msg]
          · by_cases h6 : (4 * a * a * a + 27 * b * b) % p = 0
            · simp [h1, h2, h3, h4, h5, h6, refusal, NewErr.msg]
            · simp [h1, h2, h3, h4, h5, h6, refusal]
  · simp [h1, refusal, NewErr.msg]

theorem movWeak_eq_generated (p n : Int) : movWeak p n = mov_weak p n := by
  unfold movWeak mov_weak mov_hit mov_lo mov_hi
  show (List.range 99).any _ = (List.range 99).any _
  congr 1
  funext i
  rw [Nat.add_comm 1 i]
  simp
  rfl

/-- `Curve.__init__` after the generator has been accepted: the model refuses exactly what the generated chain
refuses, the same check first (`nGZ` is the `Z` of the model's `_mult_jac_var(n, GJ)`) -/
theorem newCurve_eq_generated (p a b gx gy n h : Int) (weaknessCheck orderCheck : Bool) (g : CurveGroup)
    (hg : newCurveGroup p a b = .ok g) (hx : ¬ (gy ≠ 0 ∧ ¬ (0 ≤ gx ∧ gx < p)))
    (hon : isOnCurve g (gx, gy) = some true) :
    refusal (newCurve p a b gx gy n h weaknessCheck orderCheck) =
      curve_checks p n h gy (multJacVar (ecOps g) n.toNat (gx, gy, 1)).2.2 weaknessCheck orderCheck := by
  unfold newCurve curve_checks
  simp only [hg, bind, Except.bind, hx, if_false, hon]
  rw [isPrimeFermat_eq_generated, movWeak_eq_generated]
  show refusal (if (!is_prime n) = true then _ else _) = _
  by_cases h1 : is_prime n = true
  · simp only [h1, Bool.not_true, Bool.false_eq_true, if_false]
    generalize hd : ((Nat.sqrt (4 * p).toNat : Nat) : Int) = delta
    by_cases h2 : (h < 2 && !(decide (p + 1 - delta ≤ n) && decide (n ≤ p + 1 + delta))) = true
    · simp only [h2, if_true, refusal, NewErr.msg]
    · have h2' : (decide (h < 2) && !(decide (p + 1 - delta ≤ n) && decide (n ≤ p + 1 + delta))) = false := by
        simpa using h2
      simp only [h2, Bool.false_eq_true, if_false]
      by_cases h3 : gy = 0
      · simp [h3, refusal, NewErr.msg]
      · simp only [h3, if_false, decide_false, Bool.false_eq_true]
        have hGJ : ({ toCurveGroup := g, gx := gx, gy := gy, n := n, h := h } : Curve).GJ = (gx, gy, 1) := rfl
        rw [hGJ]
        generalize (multJacVar (ecOps g) n.toNat (gx, gy, 1)).2.2 = z
        by_cases h4 : orderCheck = true ∧ z ≠ 0
        · obtain ⟨ho, hz⟩ := h4
          simp [ho, hz, refusal, NewErr.msg]
        · have h4a : (!(!orderCheck || z == 0)) = false := by
            cases orderCheck <;> simp at h4 ⊢
            exact h4
          have h4b : (orderCheck && decide (z ≠ 0)) = false := by
            cases orderCheck <;> simp at h4 ⊢
            exact h4
          simp only [h4a, h4b, Bool.false_eq_true, if_false]
          by_cases h5 : h ≠ (1 + delta + p) / n
          · simp [h5, refusal, NewErr.msg]
          · simp only [h5, if_false, decide_false, Bool.false_eq_true]
            by_cases h6 : n = p
            · simp [h6, refusal, NewErr.msg]
            · simp only [h6, if_false, decide_false, Bool.false_eq_true]
              by_cases h7 : (weaknessCheck && mov_weak p n) = true
              · simp [h7, refusal, NewErr.msg]
              · simp [h7, refusal]
  · simp [h1, refusal, NewErr.msg]

end Btc.C01
