import Proofs.C01.CapstoneLadders
import Proofs.C01.Ladders2
import Proofs.C01.Ladders3
import Proofs.C01.BosCoster
/-
C01 capstone, part 1c: the remaining ladder theorems (`Ladders2`, `Ladders3`, `BosCoster`) instantiated for
btclib's real arithmetic `ecOps c` through `jacRel_ec`: fixed window ×3, sliding window, single wNAF,
Shamir–Strauss, regular double window, the GLV multiplications (under the named endomorphism law), and
Bos–Coster with the model's heap — total: it always answers, and the answer is `Σ uᵢ • Pᵢ`.
-/
open WeierstrassCurve

namespace Btc.C01
open Btc.EC

variable {p : ℕ} [Fact p.Prime] {c : CurveGroup} (hp : c.p = (p : ℤ))
  (H : AddSubgroup (Pt p c)) (hH : NoTwoTorsionIn H)
include hp hH

/-- `_mult_fixed_window_var(m, Q, ec, w, cached=False)` -/
theorem multFixedWindow_ec (m w : ℕ) (hw : 1 ≤ w) (Q : JacPoint) (hQ : JValid p c Q) (hQH : absJ p c Q ∈ H) :
    JValid p c (multFixedWindow (ecOps c) m Q w) ∧
      absJ p c (multFixedWindow (ecOps c) m Q w) = (m : ℤ) • absJ p c Q := by
  obtain ⟨hv, he, _⟩ := multFixedWindow_spec (jacRel_ec hp H hH) m w hw (R_mk hp H hH hQ hQH)
  exact ⟨hv, he⟩

/-- `_mult_fixed_window_var(m, Q, ec, w, cached=True)`, `w ≤ MAX_W` -/
theorem multFixedWindowCached_ec (maxW m w : ℕ) (hw : 1 ≤ w) (hmax : w ≤ maxW) (Q : JacPoint)
    (hQ : JValid p c Q) (hQH : absJ p c Q ∈ H) :
    JValid p c (multFixedWindowCached (ecOps c) maxW m Q w) ∧
      absJ p c (multFixedWindowCached (ecOps c) maxW m Q w) = (m : ℤ) • absJ p c Q := by
  obtain ⟨hv, he, _⟩ := multFixedWindowCached_spec (jacRel_ec hp H hH) maxW m w hw hmax (R_mk hp H hH hQ hQH)
  exact ⟨hv, he⟩

/-- `_mult_fixed_window_cached_var(m, Q, ec, w)` -/
theorem multFixedWindowCachedPos_ec (pSize m w : ℕ) (hw : 1 ≤ w) (Q r : JacPoint) (hQ : JValid p c Q)
    (hQH : absJ p c Q ∈ H) (h : multFixedWindowCachedPos (ecOps c) pSize m Q w = some r) :
    JValid p c r ∧ absJ p c r = (m : ℤ) • absJ p c Q := by
  obtain ⟨hv, he, _⟩ := multFixedWindowCachedPos_spec (jacRel_ec hp H hH) pSize m w hw (R_mk hp H hH hQ hQH) h
  exact ⟨hv, he⟩

/-- `_mult_sliding_window_var(m, Q, ec, w)` -/
theorem multSlidingWindow_ec (m w : ℕ) (hw : 1 ≤ w) (Q : JacPoint) (hQ : JValid p c Q) (hQH : absJ p c Q ∈ H) :
    JValid p c (multSlidingWindow (ecOps c) m Q w) ∧
      absJ p c (multSlidingWindow (ecOps c) m Q w) = (m : ℤ) • absJ p c Q := by
  obtain ⟨hv, he, _⟩ := multSlidingWindow_spec (jacRel_ec hp H hH) m w hw (R_mk hp H hH hQ hQH)
  exact ⟨hv, he⟩

/-- `_mult_w_NAF_var(m, Q, ec, w)` -/
theorem multWNAF_ec (m w : ℕ) (hw : 1 ≤ w) (Q : JacPoint) (hQ : JValid p c Q) (hQH : absJ p c Q ∈ H) :
    JValid p c (multWNAF (ecOps c) m Q w) ∧
      absJ p c (multWNAF (ecOps c) m Q w) = (m : ℤ) • absJ p c Q := by
  obtain ⟨hv, he, _⟩ := multWNAF_spec (jacRel_ec hp H hH) m w hw (R_mk hp H hH hQ hQH)
  exact ⟨hv, he⟩

/-- `_double_mult_var(u, H, v, Q, ec)` (Shamir–Strauss) -/
theorem doubleMultVar_ec (u v : ℕ) (P Q : JacPoint) (hP : JValid p c P) (hPH : absJ p c P ∈ H)
    (hQ : JValid p c Q) (hQH : absJ p c Q ∈ H) :
    JValid p c (doubleMultVar (ecOps c) u P v Q) ∧
      absJ p c (doubleMultVar (ecOps c) u P v Q) = (u : ℤ) • absJ p c P + (v : ℤ) • absJ p c Q := by
  obtain ⟨hv, he, _⟩ := doubleMultVar_spec (jacRel_ec hp H hH) u v (R_mk hp H hH hP hPH) (R_mk hp H hH hQ hQH)
  exact ⟨hv, he⟩

/-- `_double_mult_regular_window(u, H, v, Q, ec, w, scalar_len)` -/
theorem doubleMultRegularWindow_ec (scalarLen u v w : ℕ) (P Q r : JacPoint) (hP : JValid p c P)
    (hPH : absJ p c P ∈ H) (hQ : JValid p c Q) (hQH : absJ p c Q ∈ H)
    (h : doubleMultRegularWindow (ecOps c) scalarLen u P v Q w = some r) :
    JValid p c r ∧ absJ p c r = (u : ℤ) • absJ p c P + (v : ℤ) • absJ p c Q := by
  obtain ⟨hv, he, _⟩ := doubleMultRegularWindow_spec (jacRel_ec hp H hH) scalarLen u v w
    (R_mk hp H hH hP hPH) (R_mk hp H hH hQ hQH) h
  exact ⟨hv, he⟩

/-- the GLV endomorphism law, stated for btclib's arithmetic on `H`: `(β·X, Y, Z)` denotes `λ • P`, and `N` kills `H`
(for secp256k1: `H` = the whole prime-order group, `β`, `λ`, `N` the generated constants) -/
def EndoLawEc : Prop := EndoLaw (jacRel_ec hp H hH) Gen.Curves.glv_LAM Gen.Curves.glv_N

/-- `_mult_endomorphism_secp256k1(m, Q, ec, w)` -/
theorem multEndomorphism_ec (E : EndoLawEc hp H hH) (halfLen m w : ℕ) (Q r : JacPoint) (hQ : JValid p c Q)
    (hQH : absJ p c Q ∈ H) (h : multEndomorphism (ecOps c) halfLen m Q w = some r) :
    JValid p c r ∧ absJ p c r = (m : ℤ) • absJ p c Q := by
  obtain ⟨hv, he, _⟩ := multEndomorphism_spec (jacRel_ec hp H hH) E halfLen m w (R_mk hp H hH hQ hQH) h
  exact ⟨hv, he⟩

/-- `_mult_endomorphism_secp256k1_var(m, Q, ec, w)` -/
theorem multEndomorphismVar_ec (E : EndoLawEc hp H hH) (isFixed : JacPoint → Bool) (fixedW m w : ℕ)
    (hfw : 1 ≤ fixedW) (Q r : JacPoint) (hQ : JValid p c Q) (hQH : absJ p c Q ∈ H)
    (h : multEndomorphismVar (ecOps c) isFixed fixedW m Q w = some r) :
    JValid p c r ∧ absJ p c r = (m : ℤ) • absJ p c Q := by
  obtain ⟨hv, he, _⟩ := multEndomorphismVar_spec (jacRel_ec hp H hH) (jacRel_ec_functional hp H hH) E isFixed
    fixedW m w hfw (R_mk hp H hH hQ hQH) h
  exact ⟨hv, he⟩

/-- `_double_mult_endomorphism_secp256k1_var(u, H, v, Q, ec, w, fixed)` (what `double_mult_var` runs on secp256k1) -/
theorem doubleMultEndomorphismVar_ec (E : EndoLawEc hp H hH) (isFixed : JacPoint → Bool)
    (eqv : JacPoint → JacPoint → Bool) (fixedW u v w : ℕ) (hfw : 1 ≤ fixedW) (P Q r : JacPoint)
    (hP : JValid p c P) (hPH : absJ p c P ∈ H) (hQ : JValid p c Q) (hQH : absJ p c Q ∈ H)
    (h : doubleMultEndomorphismVar (ecOps c) isFixed eqv fixedW u P v Q w = some r) :
    JValid p c r ∧ absJ p c r = (u : ℤ) • absJ p c P + (v : ℤ) • absJ p c Q := by
  obtain ⟨hv, he, _⟩ := doubleMultEndomorphismVar_spec (jacRel_ec hp H hH) (jacRel_ec_functional hp H hH) E
    isFixed eqv fixedW u v w hfw (R_mk hp H hH hP hPH) (R_mk hp H hH hQ hQH) h
  exact ⟨hv, he⟩

/-- Bos–Coster with the model's heap (Python's `heapq` order), TOTAL: on admissible arguments it always answers,
and the answer is `Σ uᵢ • Pᵢ` -/
theorem multiMultBosCoster_heap_ec (scalarLen multW : ℕ) (hw : 1 ≤ multW) (scalars : List ℕ)
    (points : List JacPoint) (hlen : scalars.length = points.length) (h2 : 2 ≤ scalars.length)
    (hpts : ∀ P ∈ points, JValid p c P ∧ absJ p c P ∈ H) :
    ∃ r, multiMultBosCoster (ecOps c) heapSelect scalarLen multW scalars points = some r ∧
      JValid p c r ∧ absJ p c r = psum p c (scalars.zip points) := by
  obtain ⟨r, hr⟩ := multiMultBosCoster_answers (o := ecOps c) heapSelect heapSelect_ok heapSelect_max scalarLen multW hw
    scalars points hlen h2
  exact ⟨r, hr, multiMultBosCoster_ec hp H hH heapSelect heapSelect_ok scalarLen multW scalars points hpts r hr⟩

end Btc.C01
