import Proofs.C01.Entry
import Proofs.C01.EntrySecp
/-
C01 — T8, the remaining public entry points of `curve.py` on the pure-Python path, generically over a curve context:
`multi_mult_var` (`Σ sᵢ • Qᵢ`), `_sum_var` (`Σ Qᵢ`), `_tweak_add_var` (`P + t • G`): what they answer is the group-law
value, and a point failing `is_on_curve` / a length mismatch is refused.
-/
namespace Btc.C01
variable {α β G : Type} [AddCommGroup G]

/-- `Σ sᵢ • gᵢ` -/
def lsum (ss : List ℤ) (gs : List G) : G := (List.zipWith (fun s g => s • g) ss gs).sum

theorem toNat_emod_cast (n : ℕ) (hn0 : 0 < n) (m : ℤ) : (((m % (n : ℤ)).toNat : ℕ) : ℤ) = m % (n : ℤ) :=
  Int.toNat_of_nonneg (Int.emod_nonneg _ (by omega))

theorem tsum_entry {o : JacOps α β} (L : JacRel o G) (hf : L.Functional) (n : ℕ) (hn0 : 0 < n) :
    ∀ (ps : List β) (gs : List G), List.Forall₂ L.RA ps gs → (∀ g ∈ gs, (n : ℤ) • g = 0) → ∀ ss : List ℤ,
      tsum L ((ss.map fun s => (s % (n : ℤ)).toNat).zip (ps.map o.jacFromAff)) = lsum ss gs := by
  intro ps gs h
  induction h with
  | nil => intro _ ss; cases ss <;> simp [tsum, lsum]
  | @cons q g ps gs hq _ ih =>
    intro hn ss
    cases ss with
    | nil => simp [tsum, lsum]
    | cons s ss =>
      simp only [List.map_cons, List.zip_cons_cons, tsum_cons, lsum, List.zipWith_cons_cons, List.sum_cons]
      rw [L.val_eq hf (L.jacFromAff hq), toNat_emod_cast n hn0, zsmul_emod_order n (hn g (by simp)),
        ih (fun g' hg' => hn g' (by simp [hg']))]
      rfl

theorem forall₂_R {o : JacOps α β} (L : JacRel o G) {ps : List β} {gs : List G} (h : List.Forall₂ L.RA ps gs) :
    ∀ P ∈ ps.map o.jacFromAff, ∃ g, L.R P g := by
  induction h with
  | nil => simp
  | cons hq _ ih =>
    intro P hP
    simp only [List.map_cons, List.mem_cons] at hP
    rcases hP with rfl | hP
    · exact ⟨_, L.jacFromAff hq⟩
    · exact ih P hP

/-- T8 (`multi_mult_var`, pure-Python path, EVERY curve — the multi-scalar route does not use the endomorphism):
`multi_mult_var(scalars, points, ec) = Σ sᵢ • Qᵢ` for every integer scalars (negative, `≥ n`, multiples of `n`), any
number of terms (both sides of the wNAF / Bos–Coster dispatch), infinity among the points included -/
theorem multiMultEntry_spec (c : CurveCtx α β) (L : JacRel c.o G) (hf : L.Functional) (hsel : SelectOk c.sel)
    (hfw : 1 ≤ c.fixedW) (hn0 : 0 < c.n) (scalars : List ℤ) {points : List β} {gs : List G} {A : β}
    (hpts : List.Forall₂ L.RA points gs) (hn : ∀ g ∈ gs, (c.n : ℤ) • g = 0)
    (h : multiMultEntry c scalars points = some A) : L.RA A (lsum scalars gs) := by
  unfold multiMultEntry at h
  split at h; · simp at h
  split at h; · simp at h
  obtain ⟨r, hr, rfl⟩ := Option.map_eq_some_iff.mp h
  have := multiMultVar_spec L hf c.sel hsel c.isFixed c.fixedW c.scalarLen c.multW c.multiW c.threshold hfw _ _
    (forall₂_R L hpts) hr
  rw [tsum_entry L hf c.n hn0 points gs hpts hn scalars] at this
  exact L.toAff this

/-- BY CONSTRUCTION of the model: `multi_mult_var` refuses a length mismatch and any point failing `is_on_curve` -/
theorem multiMultEntry_refuses (c : CurveCtx α β) (scalars : List ℤ) (points : List β)
    (hbad : scalars.length ≠ points.length ∨ ∃ Q ∈ points, c.onCurve Q ≠ some true) :
    multiMultEntry c scalars points = none := by
  unfold multiMultEntry
  rcases hbad with hl | ⟨Q, hQ, hoff⟩
  · simp [hl]
  · split; · rfl
    have : points.all c.requireOnCurve = false := by
      rw [List.all_eq_false]
      exact ⟨Q, hQ, by simp [CurveCtx.requireOnCurve, hoff]⟩
    simp [this]

/-- what `ec.add_aff_var`, `ec.is_on_curve` and the affine results owe the relation `L`: `Red` is "coordinates
reduced"; established for btclib's arithmetic in `Proofs/C01/CapstoneEntry2.lean` (`affRel_ec`) -/
structure AffRel (c : CurveCtx α β) (L : JacRel c.o G) where
  Red : β → Prop
  zero_red : Red c.o.zeroAff
  onCurve_red : ∀ {Q}, c.onCurve Q = some true → Red Q
  toAff_red : ∀ x, Red (c.o.toAff x)
  add : ∀ {P Q g h}, L.RA P g → L.RA Q h → Red P → Red Q →
    ∃ A, c.addAffVar P Q = some A ∧ L.RA A (g + h) ∧ Red A
  onCurve_of : ∀ {Q g}, L.RA Q g → Red Q → c.onCurve Q = some true

theorem sumFold_spec (c : CurveCtx α β) (L : JacRel c.o G) (F : AffRel c L) :
    ∀ (ps : List β) (gs : List G), List.Forall₂ L.RA ps gs → (∀ Q ∈ ps, F.Red Q) →
      ∀ (T : β) (t : G), L.RA T t → F.Red T →
        ∃ A, ps.foldl (fun acc Q => acc.bind fun t => c.addAffVar t Q) (some T) = some A ∧
          L.RA A (t + gs.sum) ∧ F.Red A := by
  intro ps gs h
  induction h with
  | nil => intro _ T t hT rT; exact ⟨T, rfl, by simpa using hT, rT⟩
  | @cons q g ps gs hq _ ih =>
    intro hred T t hT rT
    obtain ⟨B, hB, hBR, rB⟩ := F.add hT hq rT (hred q (by simp))
    obtain ⟨A, hA, hAR, rA⟩ := ih (fun Q hQ => hred Q (by simp [hQ])) B _ hBR rB
    refine ⟨A, ?_, ?_, rA⟩
    · simp only [List.foldl_cons, Option.bind_some, hB]; exact hA
    · rw [List.sum_cons, ← add_assoc]; exact hAR

/-- T8 (`_sum_var`, pure-Python path): it ANSWERS on every list of points passing `is_on_curve`, and the answer is
`Σ Qᵢ` (empty list, infinity among the terms, cancelling partial sums included) -/
theorem sumEntry_spec (c : CurveCtx α β) (L : JacRel c.o G) (F : AffRel c L) {points : List β} {gs : List G}
    (hpts : List.Forall₂ L.RA points gs) (hon : ∀ Q ∈ points, c.onCurve Q = some true) :
    ∃ A, sumEntry c points = some A ∧ L.RA A gs.sum := by
  unfold sumEntry
  have hall : points.all c.requireOnCurve = true := by
    rw [List.all_eq_true]; intro Q hQ; simp [CurveCtx.requireOnCurve, hon Q hQ]
  simp only [hall, Bool.not_true, Bool.false_eq_true, if_false]
  obtain ⟨A, hA, hAR, _⟩ := sumFold_spec c L F points gs hpts (fun Q hQ => F.onCurve_red (hon Q hQ))
    c.o.zeroAff 0 L.zeroAff F.zero_red
  exact ⟨A, hA, by simpa using hAR⟩

/-- BY CONSTRUCTION of the model: `_sum_var` refuses when a term fails `is_on_curve` -/
theorem sumEntry_refuses (c : CurveCtx α β) (points : List β) (hbad : ∃ Q ∈ points, c.onCurve Q ≠ some true) :
    sumEntry c points = none := by
  obtain ⟨Q, hQ, hoff⟩ := hbad
  unfold sumEntry
  have : points.all c.requireOnCurve = false := by
    rw [List.all_eq_false]
    exact ⟨Q, hQ, by simp [CurveCtx.requireOnCurve, hoff]⟩
  simp [this]

/-- T8 (`_tweak_add_var`, pure-Python path): `P + t • G` for EVERY integer `t`, given that `mult(·, G)` is the group
law (`hmult`: `mult_entry` on every curve but secp256k1, `mult_entry_secp256k1` there) -/
theorem tweakAddEntry_spec (c : CurveCtx α β) (L : JacRel c.o G) (F : AffRel c L) (lam : ℤ)
    {gG : G} (hnG : (c.n : ℤ) • gG = 0)
    (hmult : ∀ (m : ℤ) (T : β), multEntry c lam m c.G = some T → L.RA T (m • gG))
    (t : ℤ) {P A : β} {g : G} (hP : L.RA P g) (h : tweakAddEntry c lam P t = some A) :
    L.RA A (g + t • gG) := by
  unfold tweakAddEntry at h
  split at h; · simp at h
  next hon =>
  have hon' : c.onCurve P = some true := by simpa [CurveCtx.requireOnCurve] using hon
  split at h; · simp at h
  next T hT =>
  have hTR := hmult _ T hT
  rw [zsmul_emod_order c.n hnG] at hTR
  split at h; · simp at h
  have hTred : F.Red T := by
    unfold multEntry multChecked at hT
    simp only [] at hT
    split at hT; · simp at hT
    split at hT
    · obtain ⟨r, _, rfl⟩ := Option.map_eq_some_iff.mp hT; exact F.toAff_red _
    · split at hT
      · obtain ⟨r, _, rfl⟩ := Option.map_eq_some_iff.mp hT; exact F.toAff_red _
      · obtain ⟨r, _, rfl⟩ := Option.map_eq_some_iff.mp hT; exact F.toAff_red _
  obtain ⟨B, hB, hBR, _⟩ := F.add hP hTR (F.onCurve_red hon') hTred
  rw [hB] at h
  cases h
  exact hBR

/-- … and it ANSWERS whenever `P` passes `is_on_curve` and `mult(t, G)` answers -/
theorem tweakAddEntry_answers (c : CurveCtx α β) (L : JacRel c.o G) (F : AffRel c L) (lam : ℤ)
    {gG : G} (hmult : ∀ (m : ℤ), ∃ T, multEntry c lam m c.G = some T ∧ L.RA T (m • gG) ∧ F.Red T)
    (t : ℤ) {P : β} {g : G} (hP : L.RA P g) (hon : c.onCurve P = some true) :
    ∃ A, tweakAddEntry c lam P t = some A := by
  obtain ⟨T, hT, hTR, hTred⟩ := hmult (t % (c.n : ℤ))
  obtain ⟨B, hB, _, _⟩ := F.add hP hTR (F.onCurve_red hon) hTred
  refine ⟨B, ?_⟩
  unfold tweakAddEntry
  simp [CurveCtx.requireOnCurve, hon, hT, F.onCurve_of hTR hTred, hB]

/-- BY CONSTRUCTION of the model: `_tweak_add_var` refuses a `P` failing `is_on_curve` -/
theorem tweakAddEntry_refuses (c : CurveCtx α β) (lam : ℤ) (P : β) (t : ℤ) (hoff : c.onCurve P ≠ some true) :
    tweakAddEntry c lam P t = none := by
  unfold tweakAddEntry
  simp [CurveCtx.requireOnCurve, hoff]

end Btc.C01
