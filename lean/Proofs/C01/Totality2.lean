import Proofs.C01.Totality
import Proofs.C01.GlvGen
/-
C01 — totality of secp256k1's own pure-Python route (`_mult_endomorphism_secp256k1` = GLV split + regular double
window) and the size of the GLV halves: `_multiplier_decomposer(m)` returns `|m₁|, |m₂| < 2^128 = 2^_HALF_LEN` for EVERY
integer `m`, so the double window really runs on `ceil(_HALF_LEN / w)` digits (never on more), and it always answers.
-/
namespace Btc.C01
open Gen.Curves
variable {α β : Type}

/-- `_double_mult_regular_window` ANSWERS for every `u`, `v` (whatever their size: the digit count follows the larger
of `scalar_len` and the operands' bit lengths), `w ≥ 1`, `scalar_len ≥ 1` -/
theorem doubleMultRegularWindow_answers (o : JacOps α β) (scalarLen u v w : ℕ) (hw : 1 ≤ w) (hs : 1 ≤ scalarLen)
    (H Q : α) : ∃ r, doubleMultRegularWindow o scalarLen u H v Q w = some r := by
  unfold doubleMultRegularWindow
  have hw0 : ¬ w = 0 := by omega
  simp only [hw0, if_false]
  have hbits : 1 ≤ max scalarLen (max (bitLength u) (bitLength v)) := le_trans hs (le_max_left _ _)
  have hsize : 1 ≤ ceilDiv (max scalarLen (max (bitLength u) (bitLength v))) w := by
    have := le_mul_ceilDiv (max scalarLen (max (bitLength u) (bitLength v))) w hw
    rcases Nat.eq_zero_or_pos (ceilDiv (max scalarLen (max (bitLength u) (bitLength v))) w) with h0 | h0
    · rw [h0] at this; omega
    · exact h0
  have hle := le_mul_ceilDiv (max scalarLen (max (bitLength u) (bitLength v))) w hw
  have hu : u < 2 ^ (w * ceilDiv (max scalarLen (max (bitLength u) (bitLength v))) w) :=
    lt_of_lt_of_le (lt_two_pow_bitLength u) (Nat.pow_le_pow_right (by omega)
      (le_trans (le_trans (le_max_left _ _) (le_max_right _ _)) hle))
  have hv : v < 2 ^ (w * ceilDiv (max scalarLen (max (bitLength u) (bitLength v))) w) :=
    lt_of_lt_of_le (lt_two_pow_bitLength v) (Nat.pow_le_pow_right (by omega)
      (le_trans (le_trans (le_max_right _ _) (le_max_right _ _)) hle))
  rw [signedOddDigits_answers u w _ hw hsize hu, signedOddDigits_answers v w _ hw hsize hv]
  exact ⟨_, rfl⟩

/-- `_mult_endomorphism_secp256k1(m, Q, ec, w)` ANSWERS for every scalar `m` (reduced or not), every `w ≥ 1` -/
theorem multEndomorphism_answers (o : JacOps α β) (halfLen m w : ℕ) (hw : 1 ≤ w) (hs : 1 ≤ halfLen) (Q : α) :
    ∃ r, multEndomorphism o halfLen m Q w = some r := by
  unfold multEndomorphism endomorphismSplit
  exact doubleMultRegularWindow_answers o halfLen _ _ w hw hs _ _

/-- side conditions for the secp256k1 route: what the generated `_ENDOMORPHISM_W`, `_HALF_LEN` provide -/
structure CtxOkEndo (c : CurveCtx α β) : Prop extends CtxOk c where
  endoW_pos : 1 ≤ c.endoW
  halfLen_pos : 1 ≤ c.halfLen

theorem multChecked_answers_all (c : CurveCtx α β) (hc : CtxOkEndo c) (lam : ℤ) (m : ℕ)
    (hm : m < c.n) (Q : β) (prepared : Bool) : ∃ A, multChecked c lam m Q prepared = some A := by
  cases hsecp : c.isSecp with
  | false => exact multChecked_answers c hc.toCtxOk hsecp lam m hm Q prepared
  | true =>
    have hm2 : m < 2 ^ c.scalarLen := lt_trans hm hc.n_fits
    unfold multChecked
    split
    · obtain ⟨r, hr⟩ := multFixedBase_answers c.o c.scalarLen m c.fixedBaseW lam hc.fixedBaseW_pos hc.len_pos hm2 c.GJ
      exact ⟨_, by rw [hr]; rfl⟩
    · simp only []
      split
      · obtain ⟨r, hr⟩ := multFixedBase_answers c.o c.scalarLen m c.fixedBaseW lam hc.fixedBaseW_pos hc.len_pos hm2
          (c.o.jacFromAff Q)
        exact ⟨_, by rw [hr]; rfl⟩
      · obtain ⟨r, hr⟩ := multEndomorphism_answers c.o c.halfLen m c.endoW hc.endoW_pos hc.halfLen_pos
          (c.o.rescale lam (c.o.jacFromAff Q))
        exact ⟨_, by first | (rw [hr]; rfl) | (simp only [if_true]; rw [hr]; rfl) | (simp [hr])⟩

/-- T8 (totality, EVERY curve, secp256k1's GLV route included): `mult(m, Q, ec)` answers for every integer `m` and
every `Q` that is the generator or passes `is_on_curve` -/
theorem multEntry_answers_all (c : CurveCtx α β) (hc : CtxOkEndo c) (lam m : ℤ) (Q : β)
    (hQ : c.eqAff Q c.G = true ∨ c.onCurve Q = some true) : ∃ A, multEntry c lam m Q = some A := by
  unfold multEntry
  simp only []
  have hguard : ¬ ((!c.eqAff Q c.G && !c.requireOnCurve Q) = true) := by
    unfold CurveCtx.requireOnCurve
    rcases hQ with h | h <;> simp [h]
  rw [if_neg hguard]
  have hn : (0 : ℤ) < c.n := by exact_mod_cast hc.n_pos
  exact multChecked_answers_all c hc lam _ (by
    have := Int.emod_lt_of_pos m hn
    have := Int.emod_nonneg m (ne_of_gt hn)
    omega) Q false

theorem ctxOf_okEndo (C : EC.Curve) (hn : 0 < C.n) : CtxOkEndo (ctxOf C) where
  toCtxOk := ctxOf_ok C hn
  endoW_pos := by show 1 ≤ Gen.Curves.ENDOMORPHISM_W; decide
  halfLen_pos := by show 1 ≤ Gen.Curves.glv_HALF_LEN.toNat; decide

/-! ## the size of the GLV halves -/

/-- the lattice basis has determinant `N`: `A1·B2 − A2·B1 = N` (generated constants) -/
theorem glv_det : glv_A1 * glv_B2 - glv_A2 * glv_B1 = glv_N := by decide +kernel

/-- **GLV bounds**: for EVERY integer `m`, `_multiplier_decomposer(m) = (m₁, m₂)` has `|m₁|, |m₂| < 2^128` (rounding
errors `|B2·m − c1·N|, |−B1·m − c2·N| ≤ N/2` and `N·m₁ = e₁·A1 + e₂·A2`, `N·m₂ = e₁·B1 + e₂·B2`) -/
theorem multiplierDecomposer_bounds (m : ℤ) :
    -(2 : ℤ) ^ 128 < (multiplierDecomposer m).1 ∧ (multiplierDecomposer m).1 < 2 ^ 128 ∧
    -(2 : ℤ) ^ 128 < (multiplierDecomposer m).2 ∧ (multiplierDecomposer m).2 < 2 ^ 128 := by
  have hN : glv_N = 115792089237316195423570985008687907852837564279074904382605163141518161494337 := rfl
  have hA1 : glv_A1 = 64502973549206556628585045361533709077 := rfl
  have hB1 : glv_B1 = -303414439467246543595250775667605759171 := rfl
  have hA2 : glv_A2 = 367917413016453100223835821029139468248 := rfl
  have hB2 : glv_B2 = 64502973549206556628585045361533709077 := rfl
  have hm0 := Int.emod_nonneg m (show glv_N ≠ 0 by rw [hN]; decide)
  have hm1 := Int.emod_lt_of_pos m (show (0 : ℤ) < glv_N by rw [hN]; decide)
  simp only [multiplierDecomposer]
  generalize m % glv_N = r at hm0 hm1
  rw [hN, hA1, hB1, hA2, hB2] at *
  norm_num only
  omega

theorem generated_decomposer_bounds (m : ℤ) :
    -(2 : ℤ) ^ 128 < (Gen.C01Glv.multiplier_decomposer m).1 ∧ (Gen.C01Glv.multiplier_decomposer m).1 < 2 ^ 128 ∧
    -(2 : ℤ) ^ 128 < (Gen.C01Glv.multiplier_decomposer m).2 ∧ (Gen.C01Glv.multiplier_decomposer m).2 < 2 ^ 128 := by
  rw [multiplierDecomposer_eq_generated]; exact multiplierDecomposer_bounds m

end Btc.C01
