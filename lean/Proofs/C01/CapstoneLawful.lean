import Proofs.C01.CapstoneAff
import Proofs.Common.Lawful
/-
C01 capstone, part 2: (A) meets (C).  `lawful_ec`: the concrete instance `Btc.EC.ops C` every scheme-level driver
executes (ECDSA, BIP340, BIP32, taproot, MuSig2 …), restricted to the reduced valid pairs of the `n`-torsion
(`SubPt`), satisfies `Btc.Lawful` with `G` = Mathlib's point group of the curve over `ZMod p`.

Hypotheses (`CurveOk`): `p` prime (Fact) and odd, `n` prime and odd (primality of catalogued constants is a
hypothesis), generator reduced, on the curve, `≠ ∞`, `n • G = 0`.  NO hypothesis on the cofactor and none on the
discriminant.  `liftX` needs `p ≡ 3 (mod 4)` (secp256k1's case: the `mod_sqrt` arm proved in CapstoneArith).

Treatment of the spelling of infinity: every pair `(x, 0)` denotes `0` (as the code reads it); `eq` (the model of
the code's comparison, which tests `y = 0` first) is then exactly equality of the denoted points.
-/
open WeierstrassCurve

namespace Btc.C01
open Btc Btc.EC

/-- the hypotheses on a curve under which `Btc.EC.ops C` is lawful -/
structure CurveOk (p : ℕ) [Fact p.Prime] (C : Curve) : Prop where
  hC : C.p = (p : ℤ)
  p_ne_two : p ≠ 2
  n_pos : 0 < C.n
  n_prime : Nat.Prime C.n.toNat
  n_odd : C.n % 2 = 1
  gen_valid : AValid p C.toCurveGroup C.G
  gen_red : RedA C.toCurveGroup C.G
  gen_ne : C.gy ≠ 0
  gen_order : C.n • absA p C.toCurveGroup C.G = 0

section Sub
variable (p : ℕ) [Fact p.Prime] (C : Curve)

/-- a reduced valid affine pair (infinity spelled `y = 0`) denoting a point of the `n`-torsion -/
def InSub (P : Point) : Prop :=
  AValid p C.toCurveGroup P ∧ RedA C.toCurveGroup P ∧ C.n • absA p C.toCurveGroup P = 0

/-- the carrier on which `Btc.EC.ops C` is lawful -/
abbrev SubPt : Type := {P : Point // InSub p C P}

variable {p C}

theorem InSub.h2 (K : CurveOk p C) {g : Pt p C.toCurveGroup} (hg : C.n • g = 0) : g + g = 0 → g = 0 :=
  noTwoTorsionIn_torsionSub C.n K.n_odd g hg

theorem inSub_INF (K : CurveOk p C) : InSub p C INF :=
  ⟨fun h => absurd rfl h, RedA_INF K.hC, by rw [absA_of_y_eq_zero (show INF.2 = 0 from rfl), zsmul_zero]⟩

theorem inSub_G (K : CurveOk p C) : InSub p C C.G := ⟨K.gen_valid, K.gen_red, K.gen_order⟩

/-- closure of `add` (= `add_aff_var`) -/
theorem add_closed (K : CurveOk p C) (P Q : Point) (hP : InSub p C P) (hQ : InSub p C Q) :
    InSub p C ((EC.ops C).add P Q) ∧
      absA p C.toCurveGroup ((EC.ops C).add P Q) = absA p C.toCurveGroup P + absA p C.toCurveGroup Q := by
  have hn : C.n • (absA p C.toCurveGroup P + absA p C.toCurveGroup Q) = 0 := by
    rw [zsmul_add, hP.2.2, hQ.2.2, add_zero]
  obtain ⟨A, hA, hv, hr, he⟩ := addAff_spec K.hC K.p_ne_two P Q hP.1 hQ.1 hP.2.1 hQ.2.1 (InSub.h2 K hn)
  have e : (EC.ops C).add P Q = A := by
    show (addAff C.toCurveGroup P Q).getD INF = A
    rw [hA]; rfl
  rw [e]
  exact ⟨⟨hv, hr, by rw [he]; exact hn⟩, he⟩

/-- closure of `neg` (= `negate`, infinity kept as spelled) -/
theorem neg_closed (K : CurveOk p C) (P : Point) (hP : InSub p C P) :
    InSub p C ((EC.ops C).neg P) ∧
      absA p C.toCurveGroup ((EC.ops C).neg P) = -absA p C.toCurveGroup P := by
  by_cases h : P.2 = 0
  · have e : (EC.ops C).neg P = P := by
      show (if P.2 = 0 then P else negate C.toCurveGroup P) = P
      rw [if_pos h]
    rw [e, absA_of_y_eq_zero h, neg_zero]
    exact ⟨hP, rfl⟩
  · have e : (EC.ops C).neg P = negate C.toCurveGroup P := by
      show (if P.2 = 0 then P else negate C.toCurveGroup P) = _
      rw [if_neg h]
    obtain ⟨hv, he⟩ := negate_spec K.hC P hP.1 (InSub.h2 K hP.2.2)
    rw [e]
    exact ⟨⟨hv, negate_red K.hC P hP.2.1, by rw [he, zsmul_neg, hP.2.2, neg_zero]⟩, he⟩

/-- closure of `mul` (= `mult`, every integer scalar) -/
theorem mul_closed (K : CurveOk p C) (m : ℤ) (P : Point) (hP : InSub p C P) :
    InSub p C ((EC.ops C).mul m P) ∧
      absA p C.toCurveGroup ((EC.ops C).mul m P) = m • absA p C.toCurveGroup P := by
  obtain ⟨A, hA, hv, hr, he⟩ := mult_sub C K.hC K.n_pos K.n_odd m P hP.1 hP.2.2
  have e : (EC.ops C).mul m P = A := by
    show (mult C m P).getD INF = A
    rw [hA]; rfl
  rw [e]
  exact ⟨⟨hv, hr, by rw [he, smul_comm, hP.2.2, zsmul_zero]⟩, he⟩

open Classical in
/-- `lift_x` restricted to the carrier: the pair `Btc.EC.ops C` lifts to, kept when it denotes a non-zero point
of the `n`-torsion.  (On a curve of cofactor 1 and non-zero discriminant the filter never fires, see
`liftXSub_val_of_cofactor_one`; with a cofactor the unrestricted `lift_x` does leave the prime-order subgroup, and
for an `x` with `x³ + ax + b = 0` it returns `(x, 0)`, which every affine routine of btclib reads as infinity.) -/
noncomputable def liftXSub (p : ℕ) [Fact p.Prime] (C : Curve) (x : ℤ) : Option (SubPt p C) :=
  match (EC.ops C).liftX x with
  | some P => if h : InSub p C P ∧ P.2 ≠ 0 then some ⟨P, h.1⟩ else none
  | none => none

theorem liftXSub_some {x : ℤ} {P : SubPt p C} (h : liftXSub p C x = some P) :
    (EC.ops C).liftX x = some P.1 ∧ P.1.2 ≠ 0 := by
  unfold liftXSub at h
  split at h
  · next Q hQ =>
    split at h
    · next hin =>
      simp only [Option.some.injEq] at h
      subst h
      exact ⟨hQ, hin.2⟩
    · simp at h
  · simp at h

theorem liftXSub_none {x : ℤ} (h : liftXSub p C x = none) :
    (EC.ops C).liftX x = none ∨ ∃ Q, (EC.ops C).liftX x = some Q ∧ ¬ (InSub p C Q ∧ Q.2 ≠ 0) := by
  unfold liftXSub at h
  split at h
  · next Q hQ =>
    split at h
    · simp at h
    · next hin => exact Or.inr ⟨Q, hQ, hin⟩
  · next hQ => exact Or.inl hQ

/-- **the restriction of `Btc.EC.ops C`** to the carrier: every operation is the one the drivers execute, applied
to the underlying pairs (`liftX` filtered as explained at `liftXSub`) -/
noncomputable def opsSub (K : CurveOk p C) : GroupOps (SubPt p C) where
  n := C.n
  p := C.p
  zero := ⟨INF, inSub_INF K⟩
  add P Q := ⟨(EC.ops C).add P.1 Q.1, (add_closed K P.1 Q.1 P.2 Q.2).1⟩
  neg P := ⟨(EC.ops C).neg P.1, (neg_closed K P.1 P.2).1⟩
  mul m P := ⟨(EC.ops C).mul m P.1, (mul_closed K m P.1 P.2).1⟩
  gen := ⟨C.G, inSub_G K⟩
  isZero P := (EC.ops C).isZero P.1
  x P := (EC.ops C).x P.1
  y P := (EC.ops C).y P.1
  liftX := liftXSub p C
  eq P Q := (EC.ops C).eq P.1 Q.1

/-- `opsSub` computes on the underlying pairs exactly what `Btc.EC.ops C` computes -/
theorem opsSub_val (K : CurveOk p C) (P Q : SubPt p C) (m : ℤ) :
    ((opsSub K).add P Q).1 = (EC.ops C).add P.1 Q.1 ∧ ((opsSub K).neg P).1 = (EC.ops C).neg P.1 ∧
    ((opsSub K).mul m P).1 = (EC.ops C).mul m P.1 ∧ (opsSub K).zero.1 = (EC.ops C).zero ∧
    (opsSub K).gen.1 = (EC.ops C).gen ∧ (opsSub K).isZero P = (EC.ops C).isZero P.1 ∧
    (opsSub K).x P = (EC.ops C).x P.1 ∧ (opsSub K).y P = (EC.ops C).y P.1 ∧
    (opsSub K).eq P Q = (EC.ops C).eq P.1 Q.1 ∧ (opsSub K).n = (EC.ops C).n ∧ (opsSub K).p = (EC.ops C).p :=
  ⟨rfl, rfl, rfl, rfl, rfl, rfl, rfl, rfl, rfl, rfl, rfl⟩

end Sub

/-! ## the laws -/
section Laws
variable {p : ℕ} [Fact p.Prime] {C : Curve} (K : CurveOk p C)

/-- the abstraction: the point of Mathlib's group a pair denotes -/
noncomputable def absSub (P : SubPt p C) : Pt p C.toCurveGroup := absA p C.toCurveGroup P.1

theorem absSub_ne_zero_iff (P : SubPt p C) : absSub P ≠ 0 ↔ P.1.2 ≠ 0 :=
  not_congr (absA_eq_zero_iff P.2.1)

/-- what `Btc.EC.ops C` lifts to is `(x, y_even_var x)` -/
theorem ops_liftX_some {x : ℤ} {Q : Point} (h : (EC.ops C).liftX x = some Q) :
    Q.1 = x ∧ yEven C.toCurveGroup x = some Q.2 := by
  have h' : (yEven C.toCurveGroup x).map (fun y => (x, y)) = some Q := h
  obtain ⟨y, hy, rfl⟩ := Option.map_eq_some_iff.mp h'
  exact ⟨rfl, hy⟩

/-- the curve equation of a finite carrier element -/
theorem sub_equation (P : SubPt p C) (h : P.1.2 ≠ 0) :
    ((P.1.2 : ℤ) : ZMod p) ^ 2 = ((P.1.1 : ℤ) : ZMod p) ^ 3 + (C.a : ZMod p) * (P.1.1 : ZMod p) + (C.b : ZMod p) := by
  obtain ⟨hns, _⟩ := absA_eq_some h P.2.1
  exact (aff_equation_iff _ _).mp hns.1

include K

theorem law_isZero (P : SubPt p C) : (opsSub K).isZero P = true ↔ absSub P = 0 := by
  show (P.1.2 == 0) = true ↔ _
  rw [beq_iff_eq]
  exact (absA_eq_zero_iff P.2.1).symm

theorem law_eq (P Q : SubPt p C) : (opsSub K).eq P Q = true ↔ absSub P = absSub Q := by
  show (if P.1.2 = 0 then Q.1.2 == 0 else P.1 == Q.1) = true ↔ _
  by_cases h : P.1.2 = 0
  · rw [if_pos h, beq_iff_eq]
    unfold absSub
    rw [absA_of_y_eq_zero h]
    constructor
    · intro e; exact (absA_of_y_eq_zero e).symm
    · intro e; exact (absA_eq_zero_iff Q.2.1).mp e.symm
  · rw [if_neg h, beq_iff_eq]
    constructor
    · intro e; unfold absSub; rw [e]
    · intro e
      exact absA_inj K.hC P.1 Q.1 P.2.1 Q.2.1 P.2.2.1 Q.2.2.1 h e

theorem law_x_eq (P Q : SubPt p C) (hP : absSub P ≠ 0) (hQ : absSub Q ≠ 0) :
    (opsSub K).x P = (opsSub K).x Q ↔ absSub P = absSub Q ∨ absSub P = -absSub Q :=
  x_eq_iff_aff K.hC P.1 Q.1 P.2.1 Q.2.1 P.2.2.1 Q.2.2.1 ((absSub_ne_zero_iff P).mp hP)
    ((absSub_ne_zero_iff Q).mp hQ)

theorem law_x_range (P : SubPt p C) (hP : absSub P ≠ 0) :
    0 ≤ (opsSub K).x P ∧ (opsSub K).x P < (opsSub K).p :=
  P.2.2.1.2 ((absSub_ne_zero_iff P).mp hP)

theorem neg_val_of_ne (P : SubPt p C) (h : P.1.2 ≠ 0) :
    ((opsSub K).neg P).1 = negate C.toCurveGroup P.1 := by
  show (if P.1.2 = 0 then P.1 else negate C.toCurveGroup P.1) = _
  rw [if_neg h]

theorem law_y_neg (P : SubPt p C) (hP : absSub P ≠ 0) :
    (opsSub K).y ((opsSub K).neg P) % 2 = 0 ↔ ¬ ((opsSub K).y P % 2 = 0) := by
  have h := (absSub_ne_zero_iff P).mp hP
  show ((opsSub K).neg P).1.2 % 2 = 0 ↔ ¬ (P.1.2 % 2 = 0)
  rw [neg_val_of_ne K P h]
  exact negate_parity K.hC K.p_ne_two P.1 P.2.2.1 h

theorem law_x_neg (P : SubPt p C) : (opsSub K).x ((opsSub K).neg P) = (opsSub K).x P := by
  show (if P.1.2 = 0 then P.1 else negate C.toCurveGroup P.1).1 = P.1.1
  split <;> rfl

theorem law_y_congr (P Q : SubPt p C) (h : absSub P = absSub Q) (hP : absSub P ≠ 0) :
    (opsSub K).y P % 2 = 0 ↔ (opsSub K).y Q % 2 = 0 := by
  have e := absA_inj K.hC P.1 Q.1 P.2.1 Q.2.1 P.2.2.1 Q.2.2.1 ((absSub_ne_zero_iff P).mp hP) h
  show P.1.2 % 2 = 0 ↔ Q.1.2 % 2 = 0
  rw [e]

theorem law_liftX_some (h34 : p % 4 = 3) (x : ℤ) (P : SubPt p C) (h : (opsSub K).liftX x = some P) :
    absSub P ≠ 0 ∧ (opsSub K).x P = x ∧ (opsSub K).y P % 2 = 0 := by
  obtain ⟨hl, hne⟩ := liftXSub_some (show liftXSub p C x = some P from h)
  obtain ⟨hx, hy⟩ := ops_liftX_some hl
  obtain ⟨_, _, heven, _⟩ := yEven_some K.hC h34 x _ hy
  exact ⟨(absSub_ne_zero_iff P).mpr hne, hx, heven⟩

theorem law_liftX_none (h34 : p % 4 = 3) (x : ℤ) (h : (opsSub K).liftX x = none) (P : SubPt p C)
    (hP : absSub P ≠ 0) : (opsSub K).x P ≠ x := by
  intro hx
  have hx' : P.1.1 = x := hx
  have hP2 := (absSub_ne_zero_iff P).mp hP
  have heq := sub_equation P hP2
  have hxr : 0 ≤ x ∧ x < (p : ℤ) := by
    rw [← hx', ← K.hC]; exact P.2.2.1.2 hP2
  rw [hx'] at heq
  rcases liftXSub_none (show liftXSub p C x = none from h) with hn | ⟨Q, hQ, hnot⟩
  · -- `y_even_var` refused: `x³ + ax + b` is not a square, but `y(P)` is a root
    have hn' : (yEven C.toCurveGroup x).map (fun y => (x, y)) = none := hn
    have := yEven_none K.hC h34 x hxr (Option.map_eq_none_iff.mp hn') ((P.1.2 : ℤ) : ZMod p)
    exact this heq
  · -- `y_even_var` answered `y`: then `(x, y)` is `P` or `-P`, both in the carrier
    obtain ⟨hQx, hQy⟩ := ops_liftX_some hQ
    obtain ⟨_, hyr, _, hysq⟩ := yEven_some K.hC h34 x _ hQy
    have hcases : ((Q.2 : ℤ) : ZMod p) = (P.1.2 : ZMod p) ∨ ((Q.2 : ℤ) : ZMod p) = -(P.1.2 : ZMod p) := by
      apply sq_eq_sq_iff_eq_or_eq_neg.mp
      rw [hysq, heq]
    have hyrc : 0 ≤ Q.2 ∧ Q.2 < C.p := by rw [K.hC]; exact hyr
    apply hnot
    rcases hcases with hc | hc
    · have e2 : Q.2 = P.1.2 := eq_of_cast_eq_c K.hC hyrc P.2.2.1.1 hc
      have e : Q = P.1 := Prod.ext (hQx.trans hx'.symm) e2
      rw [e]; exact ⟨P.2, hP2⟩
    · have hnr := negate_red K.hC P.1 P.2.2.1
      have hcast : (((negate C.toCurveGroup P.1).2 : ℤ) : ZMod p) = -(P.1.2 : ZMod p) := by
        show ((((C.p - P.1.2) % C.p : ℤ)) : ZMod p) = _
        rw [cast_emod K.hC, K.hC]; simp
      have e2 : Q.2 = (negate C.toCurveGroup P.1).2 :=
        eq_of_cast_eq_c K.hC hyrc hnr.1 (by rw [hc, hcast])
      have e : Q = negate C.toCurveGroup P.1 := Prod.ext (hQx.trans hx'.symm) e2
      have hneg := (neg_closed K P.1 P.2).1
      have en : (EC.ops C).neg P.1 = negate C.toCurveGroup P.1 := neg_val_of_ne K P hP2
      rw [en] at hneg
      rw [e]
      refine ⟨hneg, ?_⟩
      intro h0
      have hz : ((Q.2 : ℤ) : ZMod p) = 0 := by rw [e2, h0]; simp
      rw [hz] at hc
      exact cast_ne_zero_of_red K.hC P.2.2.1.1 hP2 (neg_eq_zero.mp hc.symm)

/-- **C01 ⇒ the hypothesis of every scheme-level theorem**: `Btc.EC.ops C`, on the reduced valid pairs of the
`n`-torsion, is `Lawful` with `G` = Mathlib's point group of `y² = x³ + ax + b` over `ZMod p`.
`p ≡ 3 (mod 4)` (secp256k1's case) is used by `liftX_some` / `liftX_none` only. -/
noncomputable def lawful_ec (h34 : p % 4 = 3) : Lawful (opsSub K) (Pt p C.toCurveGroup) where
  abs := absSub
  n_pos := K.n_pos
  n_prime := K.n_prime
  abs_zero := absA_of_y_eq_zero rfl
  abs_add P Q := (add_closed K P.1 Q.1 P.2 Q.2).2
  abs_neg P := (neg_closed K P.1 P.2).2
  abs_mul m P := (mul_closed K m P.1 P.2).2
  order P := P.2.2.2
  isZero_iff := law_isZero K
  gen_ne_zero := (absSub_ne_zero_iff _).mpr K.gen_ne
  eq_iff := law_eq K
  x_eq_iff := law_x_eq K
  x_range := law_x_range K
  y_neg := law_y_neg K
  x_neg := law_x_neg K
  y_congr := law_y_congr K
  liftX_some := law_liftX_some K h34
  liftX_none := law_liftX_none K h34

/-- **the group part, with NO hypothesis `p % 4 = 3`**: `Btc.EC.ops C` on the reduced valid pairs of the `n`-torsion is a
`LawfulGroup` (every law of `Lawful` except the two about `lift_x`) for EVERY odd prime `p` — so for every catalogued
curve with `p ≡ 1 (mod 4)` too (secp224k1, the Brainpool and NIST curves with such a `p`, …).  Theorems that never call
`liftX` can be instantiated through this. -/
noncomputable def lawfulGroup_ec : LawfulGroup (opsSub K) (Pt p C.toCurveGroup) where
  abs := absSub
  n_pos := K.n_pos
  n_prime := K.n_prime
  abs_zero := absA_of_y_eq_zero rfl
  abs_add P Q := (add_closed K P.1 Q.1 P.2 Q.2).2
  abs_neg P := (neg_closed K P.1 P.2).2
  abs_mul m P := (mul_closed K m P.1 P.2).2
  order P := P.2.2.2
  isZero_iff := law_isZero K
  gen_ne_zero := (absSub_ne_zero_iff _).mpr K.gen_ne
  eq_iff := law_eq K
  x_eq_iff := law_x_eq K
  x_range := law_x_range K
  y_neg := law_y_neg K
  x_neg := law_x_neg K
  y_congr := law_y_congr K

/-- the two instances agree: `lawful_ec` forgets to `lawfulGroup_ec` -/
theorem lawful_ec_toLawfulGroup (h34 : p % 4 = 3) : (lawful_ec K h34).toLawfulGroup = lawfulGroup_ec K := rfl

end Laws

end Btc.C01
