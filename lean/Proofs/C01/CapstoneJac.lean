import Proofs.C01.JacMult
import Proofs.C01.Ladders
import Model.C01.Instance
/-
C01 capstone, part 1: (A) meets (B).

`jacRel_ec`: btclib's Jacobian arithmetic (`ecOps c`: `add_jac`, `add_jac_aff`, `double_jac`, `negate_jac`,
`negate`, `_jac_from_aff`, `aff_from_jac_var`, `_blinded_jac`) satisfies the hypothesis `JacRel` under which
every ladder theorem of `Proofs/C01/Ladders.lean` was proved, with `G` = Mathlib's point group of the curve over
`ZMod p`, for EVERY prime `p` and every curve `(a, b)`, relative to any subgroup `H` of the point group
without points of order 2 (`H = ⊤` when the curve has no rational 2-torsion, e.g. prime odd order; or the
`n`-torsion subgroup for an odd `n`, whatever the cofactor).  The restriction to such an `H` is forced by the
code: `aff_from_jac` / `negate` / `add_jac_aff` spell infinity `y = 0`, so a point of order 2 cannot be expressed
in affine form (`affFromJac_two_torsion`).

Then every ladder theorem is instantiated: corollaries `*_ec`.
-/
open WeierstrassCurve
open scoped WeierstrassCurve.Jacobian

namespace Btc.C01
open Btc.EC Jacobian.Point

section Rel
variable {p : ℕ} [Fact p.Prime] {c : CurveGroup}

/-- Mathlib's point group of `y² = x³ + a x + b` over `ZMod p` -/
abbrev Pt (p : ℕ) [Fact p.Prime] (c : CurveGroup) : Type := (curveOf p c).toAffine.Point

/-- the subgroup has no point of order 2 -/
def NoTwoTorsionIn (H : AddSubgroup (Pt p c)) : Prop := ∀ g ∈ H, g + g = 0 → g = 0

theorem noTwoTorsionIn_top (h2 : NoTwoTorsion p c) : NoTwoTorsionIn (⊤ : AddSubgroup (Pt p c)) :=
  fun g _ h => h2 g h

/-- the `n`-torsion subgroup `{g | n • g = 0}` -/
def torsionSub (p : ℕ) [Fact p.Prime] (c : CurveGroup) (n : ℤ) : AddSubgroup (Pt p c) where
  carrier := {g | n • g = 0}
  zero_mem' := by simp
  add_mem' := by
    intro a b ha hb
    simp only [Set.mem_ofPred_eq] at *
    rw [zsmul_add, ha, hb, add_zero]
  neg_mem' := by
    intro a ha
    simp only [Set.mem_ofPred_eq] at *
    rw [zsmul_neg, ha, neg_zero]

theorem mem_torsionSub {n : ℤ} {g : Pt p c} : g ∈ torsionSub p c n ↔ n • g = 0 := Iff.rfl

/-- odd torsion has no point of order 2 -/
theorem noTwoTorsionIn_torsionSub (n : ℤ) (hn : n % 2 = 1) : NoTwoTorsionIn (torsionSub p c n) := by
  intro g hg h
  have hg' : n • g = 0 := hg
  have h2 : (2 : ℤ) • g = 0 := by rw [two_zsmul]; exact h
  have e : n = (n / 2) * 2 + 1 := by omega
  rw [e, add_zsmul, mul_zsmul, h2, zsmul_zero, zero_add, one_zsmul] at hg'
  exact hg'

variable (hp : c.p = (p : ℤ))
include hp

/-- a finite valid triple that is not a point of order 2 has `Y ≠ 0` in the field -/
theorem Y_ne_zero_of_not_two_torsion (Q : JacPoint) (hQ : JValid p c Q) (hQz : Q.2.2 ≠ 0)
    (h2 : absJ p c Q + absJ p c Q = 0 → absJ p c Q = 0) : (Q.2.1 : ZMod p) ≠ 0 := by
  intro hY
  obtain ⟨_, _, _, hne⟩ := affFromJac_two_torsion hp Q hQ hQz hY
  apply hne
  apply h2
  rw [← doubleJac_refines hp Q hQ]
  apply absJ_of_Z_eq_zero
  apply doubleJacHelper_Z_reduced hp
  have hc := doubleJac_eq hp Q
  have : castJ p (doubleJac c Q) 2 = 0 := by rw [hc]; simp [dbl, dblZ, hY]
  exact this

/-- `aff_from_jac_var` (total form used by the ladders) on a triple that is not a point of order 2 -/
theorem toAff_spec (Q : JacPoint) (hQ : JValid p c Q)
    (h2 : absJ p c Q + absJ p c Q = 0 → absJ p c Q = 0) :
    AValid p c ((affFromJac c Q).getD INF) ∧ absA p c ((affFromJac c Q).getD INF) = absJ p c Q := by
  obtain ⟨A, hA, hAv, hAe⟩ := affFromJac_absA hp Q hQ
    (by
      by_cases hz : Q.2.2 = 0
      · exact Or.inl hz
      · exact Or.inr (Y_ne_zero_of_not_two_torsion hp Q hQ hz h2))
  rw [hA]
  exact ⟨hAv, hAe⟩

omit hp in
theorem negate_y_zero (q : Point) (h : q.2 = 0) : (negate c q).2 = 0 := by
  simp [negate, h]

/-- `negate` (affine) computes the inverse of a pair that is not a point of order 2 -/
theorem negate_spec (q : Point) (hq : AValid p c q)
    (h2 : absA p c q + absA p c q = 0 → absA p c q = 0) :
    AValid p c (negate c q) ∧ absA p c (negate c q) = -absA p c q := by
  by_cases h : q.2 = 0
  · have h' := negate_y_zero (c := c) q h
    rw [absA_of_y_eq_zero h, absA_of_y_eq_zero h', neg_zero]
    exact ⟨fun hne => absurd h' hne, rfl⟩
  · have hJ : JValid p c (q.1, q.2, 1) := JValid_of_AValid h hq
    obtain ⟨hnv, hne⟩ := negateJac_spec hp (q.1, q.2, 1) hJ
    have hneg : negateJac c (q.1, q.2, 1) = ((negate c q).1, (negate c q).2, 1) := rfl
    rw [hneg] at hnv hne
    rw [absA_of_y_ne_zero h] at h2 ⊢
    by_cases h' : (negate c q).2 = 0
    · exfalso
      have hY := Y_ne_zero_of_not_two_torsion hp (q.1, q.2, 1) hJ (by simp) h2
      apply hY
      have : ((c.p - q.2) % c.p : ℤ) = 0 := h'
      have hc := (emod_eq_zero_iff hp (c.p - q.2)).mp this
      rw [hp] at hc
      simpa using hc
    · refine ⟨fun _ => hnv.2 (by simp), ?_⟩
      rw [absA_of_y_ne_zero h', hne]

omit hp in
theorem JValid_Z_cast {Q : JacPoint} (hQ : JValid p c Q) : (Q.2.2 : ZMod p) = 0 ↔ Q.2.2 = 0 :=
  ⟨hQ.1, fun h => by rw [h, Int.cast_zero]⟩

theorem blindedJac_cast (lam : ℤ) (Q : JacPoint) :
    castJ p (blindedJac c lam Q) = (lam : ZMod p) • castJ p Q := by
  rw [Jacobian.smul_fin3]
  simp only [blindedJac, castJ, cast_emod hp, Int.cast_mul]
  congr 1
  · simp only [Matrix.cons_val_zero]; ring
  · congr 1
    · simp only [Matrix.cons_val_one, Matrix.cons_val_zero]; ring
    · congr 1
      simp only [Matrix.cons_val_two, Matrix.tail_cons, Matrix.head_cons]; ring

/-- `_blinded_jac`: `(λ²X, λ³Y, λZ)` is another representative of the same point, any `λ ≠ 0 (mod p)` -/
theorem blindedJac_spec (lam : ℤ) (hlam : (lam : ZMod p) ≠ 0) (Q : JacPoint) (hQ : JValid p c Q) :
    JValid p c (blindedJac c lam Q) ∧ absJ p c (blindedJac c lam Q) = absJ p c Q := by
  have hc := blindedJac_cast hp lam Q
  have hu : IsUnit (lam : ZMod p) := hlam.isUnit
  refine ⟨⟨fun h => emod_eq_zero_of_cast hp _ h, fun _ => ?_⟩, ?_⟩
  · rw [hc, Jacobian.nonsingular_smul _ hu]
    apply hQ.2
    intro hz
    have : (blindedJac c lam Q).2.2 = 0 := by simp [blindedJac, hz]
    contradiction
  · rw [absJ, hc, toAffine_smul _ hu]; rfl

/-- **(A) ⇒ the hypothesis of (B)**: btclib's arithmetic is a `JacRel` on Mathlib's point group, relative to
any subgroup `H` without 2-torsion.  `R Q g` : `Q` is a valid triple denoting `g ∈ H`;
`RA q g` : `q` is a valid affine pair (infinity spelled `y = 0`) denoting `g ∈ H`; admissible blinds: `λ ≢ 0 (mod p)`. -/
def jacRel_ec (H : AddSubgroup (Pt p c)) (hH : NoTwoTorsionIn H) : JacRel (ecOps c) (Pt p c) where
  R Q g := JValid p c Q ∧ absJ p c Q = g ∧ g ∈ H
  RA q g := AValid p c q ∧ absA p c q = g ∧ g ∈ H
  blindOk lam := (lam : ZMod p) ≠ 0
  zero := ⟨JValid_INFJ, absJ_INFJ, H.zero_mem⟩
  zeroAff := ⟨fun h => absurd rfl h, absA_of_y_eq_zero rfl, H.zero_mem⟩
  add := by
    rintro x y g h ⟨hx, rfl, hg⟩ ⟨hy, rfl, hh⟩
    obtain ⟨hv, he⟩ := addJac_spec hp x y hx hy
    exact ⟨hv, he, H.add_mem hg hh⟩
  addAff := by
    rintro x q g h ⟨hx, rfl, hg⟩ ⟨hq, rfl, hh⟩
    obtain ⟨hv, he⟩ := addJacAff_spec hp x q hx hq
    exact ⟨hv, he, H.add_mem hg hh⟩
  dbl := by
    rintro x g ⟨hx, rfl, hg⟩
    obtain ⟨hv, he⟩ := doubleJac_spec hp x hx
    exact ⟨hv, he, H.add_mem hg hg⟩
  neg := by
    rintro x g ⟨hx, rfl, hg⟩
    obtain ⟨hv, he⟩ := negateJac_spec hp x hx
    exact ⟨hv, he, H.neg_mem hg⟩
  negAff := by
    rintro q g ⟨hq, rfl, hg⟩
    obtain ⟨hv, he⟩ := negate_spec hp q hq (hH _ hg)
    exact ⟨hv, he, H.neg_mem hg⟩
  jacFromAff := by
    rintro q g ⟨hq, rfl, hg⟩
    exact ⟨JValid_jacFromAff hq, rfl, hg⟩
  toAff := by
    rintro x g ⟨hx, rfl, hg⟩
    obtain ⟨hv, he⟩ := toAff_spec hp x hx (hH _ hg)
    exact ⟨hv, he, hg⟩
  rescale := by
    rintro l x g hl ⟨hx, rfl, hg⟩
    obtain ⟨hv, he⟩ := blindedJac_spec hp l hl x hx
    exact ⟨hv, he, hg⟩

theorem jacRel_ec_functional (H : AddSubgroup (Pt p c)) (hH : NoTwoTorsionIn H) :
    (jacRel_ec hp H hH).Functional := by
  rintro x g g' ⟨_, rfl, _⟩ ⟨_, h, _⟩
  exact h

end Rel

end Btc.C01
