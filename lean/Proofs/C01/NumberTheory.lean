import Model.C01.NumberTheory
import Proofs.C01.Arith
import Proofs.C01.JacRefine
import Mathlib.Data.Int.ModEq
import Mathlib.Data.Int.GCD
/-
C01 — T9 continued: `mod_inv_var` is exactly "the inverse, iff one exists"; the blinded inverse and Montgomery's
batch inverse are pointwise equal to it.
-/
namespace Btc.C01.NT
open Btc.EC Btc.C01

/-- `x` is THE inverse of `a` modulo `m`: reduced, and `a·x ≡ 1` -/
def IsInv (m a x : ℤ) : Prop := 0 ≤ x ∧ x < m ∧ a * x % m = 1 % m

theorem isInv_unique {m a x y : ℤ} (hx : IsInv m a x) (hy : IsInv m a y) : x = y := by
  obtain ⟨hx0, hx1, hxa⟩ := hx
  obtain ⟨hy0, hy1, hya⟩ := hy
  have h1 : a * x ≡ 1 [ZMOD m] := hxa
  have h2 : a * y ≡ 1 [ZMOD m] := hya
  have : x ≡ y [ZMOD m] := by
    calc x = x * 1 := by ring
      _ ≡ x * (a * y) [ZMOD m] := (h2.symm.mul_left x)
      _ = y * (a * x) := by ring
      _ ≡ y * 1 [ZMOD m] := h1.mul_left y
      _ = y := by ring
  have h := this
  unfold Int.ModEq at h
  rwa [Int.emod_eq_of_lt hx0 hx1, Int.emod_eq_of_lt hy0 hy1] at h

theorem gcd_of_inv {m a x : ℤ} (h : a * x % m = 1 % m) : Int.gcd a m = 1 := by
  have hd : m ∣ a * x - 1 := Int.dvd_of_emod_eq_zero (Int.emod_eq_emod_iff_emod_sub_eq_zero.mp h)
  obtain ⟨k, hk⟩ := hd
  rw [← Int.isCoprime_iff_gcd_eq_one]
  exact ⟨x, -k, by linear_combination hk⟩

/-- T9: `mod_inv_var(a, m) = x` iff `x` is the reduced inverse — for every integer `a`, every `m ≥ 1` -/
theorem modInv_eq_some_iff {m : ℤ} (hm : 1 ≤ m) (a x : ℤ) : modInv a m = some x ↔ IsInv m a x := by
  constructor
  · intro h; exact modInv_sound a m x h
  · intro h
    have hg := gcd_of_inv h.2.2
    obtain ⟨n, rfl⟩ : ∃ n : ℕ, m = n := ⟨m.toNat, by omega⟩
    obtain ⟨x', hx', _⟩ := Btc.C01.modInv_spec (n := n) (by omega) a hg
    rw [hx', isInv_unique (modInv_sound a n x' hx') h]

/-- T9: `mod_inv_var` refuses exactly the operands with no inverse (`gcd(a, m) ≠ 1`) -/
theorem modInv_eq_none_iff {m : ℤ} (hm : 1 ≤ m) (a : ℤ) : modInv a m = none ↔ Int.gcd a m ≠ 1 := by
  constructor
  · intro h hg
    obtain ⟨n, rfl⟩ : ∃ n : ℕ, m = n := ⟨m.toNat, by omega⟩
    obtain ⟨x', hx', _⟩ := Btc.C01.modInv_spec (n := n) (by omega) a hg
    rw [h] at hx'; simp at hx'
  · intro hg
    cases h : modInv a m with
    | none => rfl
    | some x => exact absurd (gcd_of_inv (modInv_sound a m x h).2.2) hg

theorem isInv_congr {m a b x : ℤ} (hab : a % m = b % m) (h : IsInv m a x) : IsInv m b x := by
  refine ⟨h.1, h.2.1, ?_⟩
  have : a * x ≡ b * x [ZMOD m] := Int.ModEq.mul_right x hab
  exact this.symm.trans h.2.2

/-- `mod_inv_var` depends on its operand only modulo `m` -/
theorem modInv_congr {m : ℤ} (hm : 1 ≤ m) {a b : ℤ} (hab : a % m = b % m) : modInv a m = modInv b m := by
  cases h : modInv a m with
  | some x => exact ((modInv_eq_some_iff hm b x).mpr (isInv_congr hab ((modInv_eq_some_iff hm a x).mp h))).symm
  | none =>
    cases h' : modInv b m with
    | none => rfl
    | some y =>
      have := (modInv_eq_some_iff hm a y).mpr (isInv_congr hab.symm ((modInv_eq_some_iff hm b y).mp h'))
      rw [h] at this; simp at this

/-- T9 (`mod_inv`): the blinded inverse equals the bare one — for EVERY blind `b` (if `a·b` is not invertible the
code falls back), every `a`, every `m ≥ 1`, composite `m` included -/
theorem modInvBlind_eq {m : ℤ} (hm : 1 ≤ m) (a b : ℤ) : modInvBlind a m b = modInv a m := by
  unfold modInvBlind
  have : ¬ m < 1 := by omega
  simp only [this, if_false]
  cases h : modInv (a * b % m) m with
  | none => rfl
  | some z =>
    simp only []
    obtain ⟨hz0, hz1, hz⟩ := modInv_sound _ _ _ h
    symm
    rw [modInv_eq_some_iff hm]
    refine ⟨Int.emod_nonneg _ (by omega), Int.emod_lt_of_pos _ (by omega), ?_⟩
    have h1 : a * b % m * z ≡ 1 [ZMOD m] := hz
    have h2 : a * b % m ≡ a * b [ZMOD m] := Int.mod_modEq _ _
    have : a * (z * b % m) ≡ 1 [ZMOD m] := by
      calc a * (z * b % m) ≡ a * (z * b) [ZMOD m] := (Int.mod_modEq _ _).mul_left a
        _ = a * b * z := by ring
        _ ≡ a * b % m * z [ZMOD m] := (h2.symm.mul_right z)
        _ ≡ 1 [ZMOD m] := h1
    exact this


/-! ## Montgomery's trick: `mod_inv_batch_var` -/

/-- the running product `a₀·…·aₖ mod m` (last entry of `acc`) -/
def pp (m : ℤ) (s : ℤ) (l : List ℤ) : ℤ := l.foldl (fun p x => p * x % m) s

theorem prefixProducts_append (m s : ℤ) (l : List ℤ) (a : ℤ) :
    prefixProducts m s (l ++ [a]) = prefixProducts m s l ++ [pp m s l * a % m] := by
  induction l generalizing s with
  | nil => simp [prefixProducts, pp]
  | cons x xs ih => simp [prefixProducts, pp, ih]

theorem prefixProducts_length (m s : ℤ) (l : List ℤ) : (prefixProducts m s l).length = l.length := by
  induction l generalizing s with
  | nil => simp [prefixProducts]
  | cons x xs ih => simp [prefixProducts, ih]

theorem prefixProducts_getLast (m s : ℤ) (l : List ℤ) : (prefixProducts m s l).getLastD s = pp m s l := by
  induction l using List.reverseRecOn with
  | nil => simp [prefixProducts, pp]
  | append_singleton l a _ => rw [prefixProducts_append]; simp [pp, List.foldl_append]

theorem pp_append (m s : ℤ) (l : List ℤ) (a : ℤ) : pp m s (l ++ [a]) = pp m s l * a % m := by
  simp [pp, List.foldl_append]

theorem batchBackward_cons2 (m inv a b : ℤ) (as : List ℤ) (c d : ℤ) (accs : List ℤ) :
    batchBackward m inv (a :: b :: as) (c :: d :: accs) =
      (inv * d % m) :: batchBackward m (inv * a % m) (b :: as) (d :: accs) := by
  simp [batchBackward]

theorem batchBackward_spec {m : ℤ} (hm : 1 ≤ m) (as : List ℤ) (hne : as ≠ []) (inv : ℤ) (h0 : 0 ≤ inv)
    (h1 : inv < m) (hinv : inv * pp m 1 as ≡ 1 [ZMOD m]) :
    List.Forall₂ (fun a x => IsInv m a x) as
      (batchBackward m inv as.reverse (prefixProducts m 1 as).reverse).reverse := by
  induction as using List.reverseRecOn generalizing inv with
  | nil => exact absurd rfl hne
  | append_singleton init a ih =>
    rw [pp_append] at hinv
    have hinv' : inv * (pp m 1 init * a) ≡ 1 [ZMOD m] := ((Int.mod_modEq _ _).mul_left inv).symm.trans hinv
    rw [prefixProducts_append, List.reverse_append, List.reverse_append]
    simp only [List.reverse_cons, List.reverse_nil, List.nil_append, List.singleton_append]
    by_cases hi : init = []
    · subst hi
      simp only [List.reverse_nil, prefixProducts, batchBackward, List.reverse_cons, List.nil_append]
      refine List.Forall₂.cons ⟨h0, h1, ?_⟩ List.Forall₂.nil
      have : a * inv ≡ 1 [ZMOD m] := by
        calc a * inv = inv * (1 * a) := by ring
          _ ≡ 1 [ZMOD m] := by simpa [pp] using hinv'
      exact this
    · -- init = init' ++ [b]: both reversed lists have at least two entries
      obtain ⟨init', b, rfl⟩ : ∃ init' b, init = init' ++ [b] := ⟨init.dropLast, init.getLast hi, (List.dropLast_append_getLast hi).symm⟩
      have hrev : (init' ++ [b]).reverse = b :: init'.reverse := by simp
      have hacc : (prefixProducts m 1 (init' ++ [b])).reverse =
          pp m 1 (init' ++ [b]) :: (prefixProducts m 1 init').reverse := by
        rw [prefixProducts_append, List.reverse_append, pp_append]; simp
      rw [hrev, hacc, batchBackward_cons2, List.reverse_cons, ← hrev, ← hacc]
      refine List.rel_append (ih (by simp) (inv * a % m) (Int.emod_nonneg _ (by omega)) (Int.emod_lt_of_pos _ (by omega)) ?_) ?_
      · calc inv * a % m * pp m 1 (init' ++ [b]) ≡ inv * a * pp m 1 (init' ++ [b]) [ZMOD m] :=
              (Int.mod_modEq _ _).mul_right _
          _ = inv * (pp m 1 (init' ++ [b]) * a) := by ring
          _ ≡ 1 [ZMOD m] := hinv'
      · refine List.Forall₂.cons ⟨Int.emod_nonneg _ (by omega), Int.emod_lt_of_pos _ (by omega), ?_⟩ List.Forall₂.nil
        have : a * (inv * pp m 1 (init' ++ [b]) % m) ≡ 1 [ZMOD m] := by
          calc a * (inv * pp m 1 (init' ++ [b]) % m) ≡ a * (inv * pp m 1 (init' ++ [b])) [ZMOD m] :=
                (Int.mod_modEq _ _).mul_left a
            _ = inv * (pp m 1 (init' ++ [b]) * a) := by ring
            _ ≡ 1 [ZMOD m] := hinv'
        exact this

theorem mapM_of_forall₂ {f : ℤ → Option ℤ} {as xs : List ℤ} (h : List.Forall₂ (fun a x => f a = some x) as xs) :
    as.mapM f = some xs := by
  induction h with
  | nil => rfl
  | cons h _ ih => simp [List.mapM_cons, h, ih]

/-- T9 (`mod_inv_batch_var`, Montgomery's trick): pointwise equal to `mod_inv_var` — the list of the single
inverses when every element is invertible, refused exactly when one is not; every list, every `m ≥ 1` -/
theorem modInvBatchVar_eq {m : ℤ} (hm : 1 ≤ m) (as : List ℤ) : modInvBatchVar as m = as.mapM (modInv · m) := by
  unfold modInvBatchVar
  have : ¬ m < 1 := by omega
  simp only [this, if_false]
  cases as with
  | nil => rfl
  | cons a0 rest =>
    simp only [List.isEmpty_cons, Bool.false_eq_true, if_false]
    cases h : modInv ((prefixProducts m 1 (a0 :: rest)).getLastD 1) m with
    | none => rfl
    | some inv =>
      simp only []
      rw [prefixProducts_getLast] at h
      obtain ⟨h0, h1, hi⟩ := modInv_sound _ _ _ h
      have hinv : inv * pp m 1 (a0 :: rest) ≡ 1 [ZMOD m] := by rw [mul_comm]; exact hi
      have := batchBackward_spec hm (a0 :: rest) (by simp) inv h0 h1 hinv
      symm
      exact mapM_of_forall₂ (this.imp fun a x hx => (modInv_eq_some_iff hm a x).mpr hx)

end Btc.C01.NT
