import Model.C01.Ladders
import Mathlib.Tactic.Module
import Mathlib.Tactic.Ring
import Mathlib.Tactic.Linarith
import Mathlib.Tactic.LinearCombination
import Mathlib.Algebra.Group.Basic
import Mathlib.Algebra.BigOperators.Group.List.Basic
/-
C01 — T2…T6: the integer recodings are exact, and every ladder of `Model/C01/Ladders.lean` computes `m • P`
under the hypothesis `JacRel` (the Jacobian operations represent an additive commutative group).
-/
namespace Btc.C01

/-- The hypothesis of every ladder theorem: a representation relation between the values the code handles
(`α` Jacobian, `β` affine) and the elements of an additive commutative group `G`, preserved by the operations.
The homomorphism form (`abs (add x y) = abs x + abs y`, …) is the instance `R x g := Valid x ∧ abs x = g`;
C01-T1 (`Proofs/C01/JacRefine.lean`) provides it for btclib's formulas over `ZMod p` with `G` = Mathlib's
elliptic-curve point group. -/
structure JacRel {α β : Type} (o : JacOps α β) (G : Type) [AddCommGroup G] where
  R : α → G → Prop
  RA : β → G → Prop
  blindOk : Int → Prop
  zero : R o.zero 0
  zeroAff : RA o.zeroAff 0
  add : ∀ {x y g h}, R x g → R y h → R (o.add x y) (g + h)
  addAff : ∀ {x q g h}, R x g → RA q h → R (o.addAff x q) (g + h)
  dbl : ∀ {x g}, R x g → R (o.dbl x) (g + g)
  neg : ∀ {x g}, R x g → R (o.neg x) (-g)
  negAff : ∀ {q g}, RA q g → RA (o.negAff q) (-g)
  jacFromAff : ∀ {q g}, RA q g → R (o.jacFromAff q) g
  toAff : ∀ {x g}, R x g → RA (o.toAff x) g
  rescale : ∀ {l x g}, blindOk l → R x g → R (o.rescale l x) g

variable {α β G : Type} [AddCommGroup G] {o : JacOps α β} (L : JacRel o G)

namespace JacRel
theorem cast {x : α} {g h : G} (hx : L.R x g) (e : g = h) : L.R x h := e ▸ hx
theorem castA {q : β} {g h : G} (hq : L.RA q g) (e : g = h) : L.RA q h := e ▸ hq
end JacRel

theorem dblN_spec (k : Nat) {x : α} {g : G} (hx : L.R x g) : L.R (dblN o k x) ((2 ^ k : ℤ) • g) := by
  induction k generalizing x g with
  | zero => simpa [dblN] using hx
  | succ k ih =>
    have := ih (L.dbl hx)
    refine L.cast this ?_
    rw [pow_succ]; module

/-! ## single-scalar ladders, binary -/

theorem multRecursiveJac_spec (m : Nat) {Q : α} {g : G} (hQ : L.R Q g) :
    L.R (multRecursiveJac o m Q) ((m : ℤ) • g) := by
  induction m using Nat.strong_induction_on generalizing Q g with
  | _ m ih =>
    rw [multRecursiveJac]
    split
    · next h => subst h; simpa using L.zero
    · next h =>
      split
      · next hodd =>
        have := L.add hQ (ih (m - 1) (by omega) hQ)
        refine L.cast this ?_
        have : ((m - 1 : ℕ) : ℤ) = (m : ℤ) - 1 := by omega
        rw [this]; module
      · next heven =>
        have := ih (m / 2) (by omega) (L.dbl hQ)
        refine L.cast this ?_
        have : (m : ℤ) = 2 * ((m / 2 : ℕ) : ℤ) := by omega
        rw [this]; module

theorem multJacLoop_spec (m : Nat) {Q R0 : α} {g r : G} (hQ : L.R Q g) (hR : L.R R0 r) :
    L.R (multJacLoop o m Q R0) (r + (m : ℤ) • (g + g)) := by
  induction m using Nat.strong_induction_on generalizing Q R0 g r with
  | _ m ih =>
    rw [multJacLoop]
    split
    · next h => subst h; simpa using hR
    · next h =>
      have hQ' := L.dbl hQ
      by_cases hodd : m % 2 = 1
      · simp only [hodd, if_true]
        have := ih (m / 2) (by omega) hQ' (L.add hR hQ')
        refine L.cast this ?_
        have : (m : ℤ) = 2 * ((m / 2 : ℕ) : ℤ) + 1 := by omega
        rw [this]; module
      · simp only [hodd, if_false]
        have := ih (m / 2) (by omega) hQ' hR
        refine L.cast this ?_
        have : (m : ℤ) = 2 * ((m / 2 : ℕ) : ℤ) := by omega
        rw [this]; module

theorem multJacVar_spec (m : Nat) {Q : α} {g : G} (hQ : L.R Q g) :
    L.R (multJacVar o m Q) ((m : ℤ) • g) := by
  unfold multJacVar
  by_cases hodd : m % 2 = 1
  · simp only [hodd, if_true]
    refine L.cast (multJacLoop_spec L (m / 2) hQ hQ) ?_
    have : (m : ℤ) = 2 * ((m / 2 : ℕ) : ℤ) + 1 := by omega
    rw [this]; module
  · simp only [hodd, if_false]
    refine L.cast (multJacLoop_spec L (m / 2) hQ L.zero) ?_
    have : (m : ℤ) = 2 * ((m / 2 : ℕ) : ℤ) := by omega
    rw [this]; module


/-! ## base-b digits (T2'') -/

theorem digitsLE_lt (b m : Nat) : ∀ d ∈ digitsLE b m, d < b := by
  induction m using Nat.strong_induction_on with
  | _ m ih =>
    rw [digitsLE]
    split
    · simp
    · next h =>
      intro d hd
      rcases List.mem_cons.mp hd with rfl | hd
      · exact Nat.mod_lt _ (by omega)
      · exact ih (m / b) (Nat.div_lt_self (by omega) (by omega)) d hd

theorem digitsLE_foldr (b m : Nat) (hb : 2 ≤ b) :
    (digitsLE b m).foldr (fun d k => k * b + d) 0 = m := by
  induction m using Nat.strong_induction_on with
  | _ m ih =>
    rw [digitsLE]
    split
    · next h => rcases h with h | h
                · simp [h]
                · omega
    · next h =>
      simp only [List.foldr_cons]
      rw [ih (m / b) (Nat.div_lt_self (by omega) (by omega))]
      exact Nat.div_add_mod' m b

/-- T2'': the digits `_convert_number_to_base` returns are base-`b` digits of `m` -/
theorem toBase_eval (b m : Nat) (hb : 2 ≤ b) : evalMSB b 0 (toBase b m) = m := by
  unfold toBase evalMSB
  split
  · next h => simp [h]
  · rw [List.foldl_reverse]; exact digitsLE_foldr b m hb

theorem toBase_lt (b m : Nat) (hb : 2 ≤ b) : ∀ d ∈ toBase b m, d < b := by
  unfold toBase
  split
  · intro d hd; simp at hd; omega
  · intro d hd; exact digitsLE_lt b m d (List.mem_reverse.mp hd)

theorem toBase_ne_nil (b m : Nat) (hb : 2 ≤ b) : toBase b m ≠ [] := by
  unfold toBase
  split
  · simp
  · next h =>
    rw [digitsLE]
    split
    · next h' => omega
    · simp

/-! ## most-significant-first ladders -/

theorem foldl_msb_spec {g : G} (b : Nat) (step : α → Nat → α)
    (hstep : ∀ (R : α) (k i : Nat), i < b → L.R R ((k : ℤ) • g) → L.R (step R i) (((k * b + i : ℕ) : ℤ) • g))
    (ds : List Nat) (hds : ∀ d ∈ ds, d < b) (R : α) (k : Nat) (hR : L.R R ((k : ℤ) • g)) :
    L.R (ds.foldl step R) ((evalMSB b k ds : ℤ) • g) := by
  induction ds generalizing R k with
  | nil => simpa [evalMSB] using hR
  | cons d ds ih =>
    simp only [List.foldl_cons, evalMSB]
    exact ih (fun x hx => hds x (List.mem_cons_of_mem _ hx)) _ _ (hstep R k d (hds d (List.mem_cons_self)) hR)

theorem evalMSB_cons_zero (b d : Nat) (ds : List Nat) : evalMSB b 0 (d :: ds) = evalMSB b d ds := by
  simp [evalMSB]

/-- T3 (Montgomery ladder) -/
theorem multMontLadder_spec (m : Nat) {Q : α} {g : G} (hQ : L.R Q g) :
    L.R (multMontLadder o m Q) ((m : ℤ) • g) := by
  unfold multMontLadder
  have key : ∀ (ds : List Nat), (∀ d ∈ ds, d < 2) → ∀ (S : α × α) (k : Nat),
      L.R S.1 ((k : ℤ) • g) → L.R S.2 (((k : ℤ) + 1) • g) →
      L.R (ds.foldl (fun (R : α × α) i =>
        if i = 0 then (o.dbl R.1, o.add R.1 R.2) else (o.add R.2 R.1, o.dbl R.2)) S).1
        ((evalMSB 2 k ds : ℤ) • g) := by
    intro ds
    induction ds with
    | nil => intro _ S k h1 _; simpa [evalMSB] using h1
    | cons d ds ih =>
      intro hds S k h1 h2
      simp only [List.foldl_cons, evalMSB]
      have hd : d < 2 := hds d List.mem_cons_self
      have hds' : ∀ x ∈ ds, x < 2 := fun x hx => hds x (List.mem_cons_of_mem _ hx)
      by_cases h0 : d = 0
      · subst h0
        simp only [if_true]
        refine ih hds' _ (k * 2 + 0) ?_ ?_
        · refine L.cast (L.dbl h1) ?_; push_cast; module
        · refine L.cast (L.add h1 h2) ?_; push_cast; module
      · have : d = 1 := by omega
        subst this
        simp only [if_neg h0]
        refine ih hds' _ (k * 2 + 1) ?_ ?_
        · refine L.cast (L.add h2 h1) ?_; push_cast; module
        · refine L.cast (L.dbl h2) ?_; push_cast; module
  have := key (toBase 2 m) (toBase_lt 2 m (by omega)) (o.zero, Q) 0
    (by simpa using L.zero) (by simpa using hQ)
  rwa [toBase_eval 2 m (by omega)] at this

/-- a list is a table of multiples `0·g, 1·g, …` -/
def IsMultTable (T : List α) (g : G) : Prop := ∀ j, j < T.length → L.R (T.getD j o.zero) ((j : ℤ) • g)

/-- T3 (base 3) -/
theorem multBase3_spec (m : Nat) {Q : α} {g : G} (hQ : L.R Q g) :
    L.R (multBase3 o m Q) ((m : ℤ) • g) := by
  unfold multBase3
  have hT : ∀ i, i < 3 → L.R ([o.zero, Q, o.dbl Q].getD i o.zero) ((i : ℤ) • g) := by
    intro i hi
    rcases i with _ | _ | _ | i
    · simpa using L.zero
    · simpa using hQ
    · refine L.cast (L.dbl hQ) ?_; push_cast; module
    · omega
  have hlt := toBase_lt 3 m (by omega)
  have hev := toBase_eval 3 m (by omega)
  have hne := toBase_ne_nil 3 m (by omega)
  cases hds : toBase 3 m with
  | nil => exact absurd hds hne
  | cons d0 ds =>
    rw [hds] at hlt hev
    simp only []
    rw [evalMSB_cons_zero] at hev
    rw [← hev]
    refine foldl_msb_spec L 3 _ ?_ ds (fun x hx => hlt x (List.mem_cons_of_mem _ hx)) _ d0
      (hT d0 (hlt d0 List.mem_cons_self))
    intro R k i hi hR
    refine L.cast (L.add (L.add (L.dbl hR) hR) (hT i hi)) ?_
    push_cast; module


/-! ## T2: signed odd digits -/

/-- one step of the recoding, with `P = 2^w` abstract: the digit, the exact division, bounds -/
theorem sod_step (P m : ℤ) (hP : 0 < P) :
    (m % (2 * P) - P) + P * ((m - (m % (2 * P) - P)) / P) = m ∧
    (m - (m % (2 * P) - P)) / P = 2 * (m / (2 * P)) + 1 ∧ -P ≤ m % (2 * P) - P ∧ m % (2 * P) - P < P := by
  have h2P : 0 < 2 * P := by omega
  have hr0 := Int.emod_nonneg m (ne_of_gt h2P)
  have hr1 := Int.emod_lt_of_pos m h2P
  have hdiv := Int.emod_add_mul_ediv m (2 * P)
  have hmd : m - (m % (2 * P) - P) = P * (2 * (m / (2 * P)) + 1) := by
    linear_combination hdiv.symm
  have hq : (m - (m % (2 * P) - P)) / P = 2 * (m / (2 * P)) + 1 := by
    rw [hmd]; exact Int.mul_ediv_cancel_left _ (ne_of_gt hP)
  refine ⟨?_, hq, by omega, by omega⟩
  rw [hq]; linear_combination hmd.symm

/-- parity: with `P = 2·P2` even and `m` odd the digit is odd, hence never `-P` -/
theorem sod_step_odd (P2 m : ℤ) (hP2 : 0 < P2) (hodd : m % 2 = 1) :
    (m % (2 * (2 * P2)) - 2 * P2) % 2 = 1 ∧ -(2 * P2) < m % (2 * (2 * P2)) - 2 * P2 := by
  have hdiv := Int.emod_add_mul_ediv m (2 * (2 * P2))
  have hr0 := Int.emod_nonneg m (ne_of_gt (show 0 < 2 * (2 * P2) by omega))
  have h : m = m % (2 * (2 * P2)) + 4 * (P2 * (m / (2 * (2 * P2)))) := by linear_combination hdiv.symm
  generalize P2 * (m / (2 * (2 * P2))) = z at h
  generalize m % (2 * (2 * P2)) = r at *
  omega

/-- size: the value left after a digit is below the remaining capacity -/
theorem sod_step_lt (P m B2 : ℤ) (hP : 0 < P) (h0 : 0 ≤ m) (hlt : m < P * (2 * B2)) :
    0 ≤ m / (2 * P) ∧ 2 * (m / (2 * P)) + 1 < 2 * B2 := by
  have h2P : 0 < 2 * P := by omega
  have hq0 : 0 ≤ m / (2 * P) := Int.ediv_nonneg h0 (by omega)
  have hr0 := Int.emod_nonneg m (ne_of_gt h2P)
  have hdiv := Int.emod_add_mul_ediv m (2 * P)
  have h3 : P * (2 * (m / (2 * P))) < P * (2 * B2) := by nlinarith
  have h4 : 2 * (m / (2 * P)) < 2 * B2 := lt_of_mul_lt_mul_left h3 (le_of_lt hP)
  omega

/-- T2 (sum): the digits of `signed_odd_digits` sum back to `m`, for every `m`, `w`, digit count -/
theorem sodLoop_eval (w k : Nat) (m : ℤ) : evalLE w (sodLoop w k m) = m := by
  induction k generalizing m with
  | zero => simp [sodLoop, evalLE]
  | succ k ih =>
    simp only [sodLoop, evalLE]
    rw [ih]
    exact (sod_step ((2 : ℤ) ^ w) m (by positivity)).1

/-- a digit a signed-odd table of width `w` can name: odd and `|d| < 2^w` -/
def GoodDigit (w : Nat) (d : ℤ) : Prop := d % 2 = 1 ∧ -(2 : ℤ) ^ w < d ∧ d < (2 : ℤ) ^ w

/-- T2 (digits): for odd `0 ≤ m < 2^(w(k+1))`, `w ≥ 1`, every digit is odd with `|d| < 2^w`, and the last is positive -/
theorem sodLoop_good (w : Nat) (hw : 1 ≤ w) (k : Nat) (m : ℤ) (hodd : m % 2 = 1) (h0 : 0 ≤ m)
    (hlt : m < ((2 : ℤ) ^ w) ^ (k + 1)) :
    (∀ d ∈ sodLoop w k m, GoodDigit w d) ∧ ∃ l, (sodLoop w k m).getLast? = some l ∧ 0 < l := by
  obtain ⟨w', rfl⟩ : ∃ w', w = w' + 1 := ⟨w - 1, by omega⟩
  have hPeven : (2 : ℤ) ^ (w' + 1) = 2 * 2 ^ w' := by rw [pow_succ]; ring
  have hP2 : (0 : ℤ) < 2 ^ w' := by positivity
  induction k generalizing m with
  | zero =>
    simp only [sodLoop, List.mem_singleton, forall_eq, List.getLast?_singleton]
    refine ⟨⟨hodd, ?_, by simpa using hlt⟩, m, rfl, by omega⟩
    omega
  | succ k ih =>
    simp only [sodLoop]
    obtain ⟨_, hq, hlo, hhi⟩ := sod_step ((2 : ℤ) ^ (w' + 1)) m (by positivity)
    have hB : ((2 : ℤ) ^ (w' + 1)) ^ (k + 1 + 1) = (2 : ℤ) ^ (w' + 1) * (2 * (2 ^ w' * ((2 : ℤ) ^ (w' + 1)) ^ k)) := by
      rw [hPeven]; ring
    rw [hB] at hlt
    obtain ⟨hq0, hnext⟩ := sod_step_lt ((2 : ℤ) ^ (w' + 1)) m _ (by positivity) h0 hlt
    have hB' : ((2 : ℤ) ^ (w' + 1)) ^ (k + 1) = 2 * (2 ^ w' * ((2 : ℤ) ^ (w' + 1)) ^ k) := by
      rw [hPeven]; ring
    rw [hq]
    obtain ⟨ihg, l, hl, hl0⟩ := ih (2 * (m / (2 * 2 ^ (w' + 1))) + 1) (by omega) (by omega) (by rw [hB']; exact hnext)
    have hne : sodLoop (w' + 1) k (2 * (m / (2 * 2 ^ (w' + 1))) + 1) ≠ [] := by
      intro h; rw [h] at hl; simp at hl
    refine ⟨?_, l, ?_, hl0⟩
    · intro x hx
      rcases List.mem_cons.mp hx with rfl | hx
      · have := sod_step_odd (2 ^ w') m hP2 hodd
        rw [← hPeven] at this
        exact ⟨this.1, this.2, hhi⟩
      · exact ihg x hx
    · rw [List.getLast?_cons_of_ne_nil hne]; exact hl

/-! ## tables of odd multiples -/

theorem oddMultLoop_spec {Q2 : α} {c : G} (hQ2 : L.R Q2 c) (n : Nat) {last : α} {a : G} (hl : L.R last a) :
    (oddMultLoop o Q2 n last).length = n ∧
    ∀ j : ℕ, j < n → ∃ x, (oddMultLoop o Q2 n last)[j]? = some x ∧ L.R x (a + ((j : ℤ) + 1) • c) := by
  induction n generalizing last a with
  | zero => simp [oddMultLoop]
  | succ n ih =>
    simp only [oddMultLoop]
    obtain ⟨hlen, hent⟩ := ih (L.add hl hQ2)
    refine ⟨by simp [hlen], ?_⟩
    intro j hj
    rcases j with _ | j
    · exact ⟨_, by simp, L.cast (L.add hl hQ2) (by module)⟩
    · obtain ⟨x, hx, hR⟩ := hent j (by omega)
      exact ⟨x, by simpa using hx, L.cast hR (by push_cast; module)⟩

/-- `_odd_multiples(Q, ec, w)`: `2^(w-2)` entries (1 for `w ≤ 2`), entry `j` is `(2j+1)·Q` -/
theorem oddMultiples_spec (w : Nat) {Q : α} {g : G} (hQ : L.R Q g) :
    (oddMultiples o Q w).length = 2 ^ (w - 2) ∧
    ∀ j : ℕ, j < 2 ^ (w - 2) → ∃ x, (oddMultiples o Q w)[j]? = some x ∧ L.R x ((2 * (j : ℤ) + 1) • g) := by
  unfold oddMultiples
  by_cases hw : w > 2
  · simp only [hw, if_true]
    obtain ⟨hlen, hent⟩ := oddMultLoop_spec L (L.dbl hQ) (2 ^ (w - 2) - 1) hQ
    have hpos : 0 < 2 ^ (w - 2) := Nat.pos_of_ne_zero (by positivity)
    refine ⟨by simp [hlen]; omega, ?_⟩
    intro j hj
    rcases j with _ | j
    · exact ⟨Q, by simp, L.cast hQ (by module)⟩
    · obtain ⟨x, hx, hR⟩ := hent j (by omega)
      exact ⟨x, by simpa using hx, L.cast hR (by push_cast; module)⟩
  · simp only [hw, if_false]
    have : w - 2 = 0 := by omega
    rw [this]
    refine ⟨by simp, ?_⟩
    intro j hj
    have : j = 0 := by omega
    subst this
    exact ⟨Q, by simp, L.cast hQ (by module)⟩

/-- `_signed_odd_multiples_aff(Q, ec, w)`: the entry a good digit `d` indexes is `d·Q` -/
theorem sodPick_spec (w : Nat) (hw : 1 ≤ w) {Q : α} {g : G} (hQ : L.R Q g) (d : ℤ) (hd : GoodDigit w d) :
    L.RA (sodPick o w (signedOddMultiplesAff o Q w) d) (d • g) := by
  obtain ⟨w', rfl⟩ : ∃ w', w = w' + 1 := ⟨w - 1, by omega⟩
  obtain ⟨hodd, hlo, hhi⟩ := hd
  have hP : (2 : ℤ) ^ (w' + 1) = 2 * 2 ^ w' := by rw [pow_succ]; ring
  obtain ⟨hlen, hent⟩ := oddMultiples_spec L (w' + 1 + 1) hQ
  have hsub : w' + 1 + 1 - 2 = w' := by omega
  rw [hsub] at hlen hent
  unfold sodPick signedOddMultiplesAff oddMultiplesAff
  set T := oddMultiples o Q (w' + 1 + 1) with hT
  have hH : ((2 ^ w' : ℕ) : ℤ) = 2 ^ w' := by push_cast; rfl
  rw [List.getD_eq_getElem?_getD]
  by_cases hneg : d < 0
  · -- lower half: the negation of entry H-1-idx
    obtain ⟨i, hi⟩ : ∃ i : ℕ, (d + (2 ^ (w' + 1) - 1)) / 2 = i := ⟨((d + (2 ^ (w' + 1) - 1)) / 2).toNat, by omega⟩
    have hi2 : 2 * (i : ℤ) = d + (2 ^ (w' + 1) - 1) := by omega
    have hilt : i < 2 ^ w' := by
      have : (i : ℤ) < 2 ^ w' := by omega
      exact_mod_cast this
    rw [hi, Int.toNat_natCast]
    rw [List.getElem?_append_left (by simp [hlen, hilt])]
    rw [List.getElem?_map, List.getElem?_reverse (by simp [hlen, hilt]), List.getElem?_map]
    simp only [List.length_map, hlen]
    obtain ⟨x, hx, hR⟩ := hent (2 ^ w' - 1 - i) (by omega)
    rw [hx]
    simp only [Option.map_some, Option.getD_some]
    refine L.castA (L.negAff (L.toAff hR)) ?_
    have hc : ((2 ^ w' - 1 - i : ℕ) : ℤ) = 2 ^ w' - 1 - i := by
      rw [Nat.sub_sub, Nat.cast_sub (by omega : 1 + i ≤ 2 ^ w')]; push_cast; ring
    rw [hc]
    have : (2 * ((2 : ℤ) ^ w' - 1 - i) + 1) = -d := by omega
    rw [this]; module
  · obtain ⟨i, hi⟩ : ∃ i : ℕ, (d + (2 ^ (w' + 1) - 1)) / 2 = i := ⟨((d + (2 ^ (w' + 1) - 1)) / 2).toNat, by omega⟩
    have hi2 : 2 * (i : ℤ) = d + (2 ^ (w' + 1) - 1) := by omega
    have hige : 2 ^ w' ≤ i := by
      have : (2 : ℤ) ^ w' ≤ i := by omega
      exact_mod_cast this
    have hilt : i - 2 ^ w' < 2 ^ w' := by
      have : (i : ℤ) < 2 * 2 ^ w' := by omega
      have : i < 2 * 2 ^ w' := by exact_mod_cast this
      omega
    rw [hi, Int.toNat_natCast]
    rw [List.getElem?_append_right (by simp [hlen, hige])]
    simp only [List.length_map, List.length_reverse, hlen, List.getElem?_map]
    obtain ⟨x, hx, hR⟩ := hent (i - 2 ^ w') hilt
    rw [hx]
    simp only [Option.map_some, Option.getD_some]
    refine L.castA (L.toAff hR) ?_
    have hc : ((i - 2 ^ w' : ℕ) : ℤ) = i - 2 ^ w' := by push_cast [Nat.cast_sub hige]; ring
    rw [hc]
    have : (2 * ((i : ℤ) - 2 ^ w') + 1) = d := by omega
    rw [this]


/-! ## T3: the regular window (`_mult_regular_window`, `_mult`) and the fixed base -/

theorem sodLoop_ne_nil (w k : Nat) (m : ℤ) : sodLoop w k m ≠ [] := by
  cases k <;> simp [sodLoop]

theorem regLoop_spec (w : Nat) (hw : 1 ≤ w) {Q : α} {g : G} (hQ : L.R Q g) (ds : List ℤ) (hne : ds ≠ [])
    (hgood : ∀ d ∈ ds, GoodDigit w d) :
    L.R (regLoop o w (signedOddMultiplesAff o Q w) ds) (evalLE w ds • g) := by
  induction ds with
  | nil => exact absurd rfl hne
  | cons d ds ih =>
    have hd := sodPick_spec L w hw hQ d (hgood d List.mem_cons_self)
    cases ds with
    | nil =>
      simp only [regLoop, evalLE]
      exact L.cast (L.jacFromAff hd) (by module)
    | cons d' ds' =>
      simp only [regLoop]
      have := ih (by simp) (fun x hx => hgood x (List.mem_cons_of_mem _ hx))
      refine L.cast (L.addAff (dblN_spec L w this) hd) ?_
      simp only [evalLE]; module

theorem signedOddDigits_some {m : ℤ} {w size : Nat} {ds : List ℤ} (h : signedOddDigits m w size = some ds) :
    0 ≤ m ∧ 1 ≤ w ∧ m % 2 = 1 ∧ 1 ≤ size ∧ m < ((2 : ℤ) ^ w) ^ size ∧ ds = sodLoop w (size - 1) m := by
  unfold signedOddDigits at h
  split at h; · simp at h
  split at h; · simp at h
  split at h; · simp at h
  split at h; · simp at h
  split at h; · simp at h
  next h1 h2 h3 h4 h5 =>
  have hpos : (0 : ℤ) < 2 ^ (w * size) := by positivity
  have hlt : m < 2 ^ (w * size) := by
    have h5' : m / 2 ^ (w * size) = 0 := by simpa using h5
    have := Int.emod_add_mul_ediv m (2 ^ (w * size))
    rw [h5'] at this
    have := Int.emod_lt_of_pos m hpos
    omega
  refine ⟨by omega, by omega, by omega, by omega, ?_, by simpa using h.symm⟩
  rw [← pow_mul]; exact hlt

/-- T2 packaged for the function as called: the result of `signed_odd_digits(m, w, size)` has `size` …
sum `m`, every digit odd and `|d| < 2^w` -/
theorem signedOddDigits_spec {m : ℤ} {w size : Nat} {ds : List ℤ} (h : signedOddDigits m w size = some ds) :
    evalLE w ds = m ∧ (∀ d ∈ ds, GoodDigit w d) ∧ ds ≠ [] := by
  obtain ⟨h0, hw, hodd, hs, hlt, rfl⟩ := signedOddDigits_some h
  refine ⟨sodLoop_eval _ _ _, ?_, sodLoop_ne_nil _ _ _⟩
  have : size - 1 + 1 = size := by omega
  exact (sodLoop_good w hw (size - 1) m hodd h0 (by rw [this]; exact hlt)).1

theorem orOne_cast (m : Nat) : ((orOne m : ℕ) : ℤ) = (m : ℤ) + (if m % 2 = 0 then 1 else 0) := by
  unfold orOne; split <;> simp

/-- T3: `_mult_regular_window(m, Q, ec, w)` — hence `_mult` — returns `m • Q`: every `m ≥ 0` (even, zero, above
`scalar_len` bits), every `w ≥ 1`, every point incl. infinity -/
theorem multRegularWindow_spec (scalarLen m w : Nat) {Q r : α} {g : G} (hQ : L.R Q g)
    (h : multRegularWindow o scalarLen m Q w = some r) : L.R r ((m : ℤ) • g) := by
  unfold multRegularWindow at h
  split at h; · simp at h
  next hw =>
  simp only [] at h
  split at h; · simp at h
  next digits hd =>
  obtain ⟨hev, hgood, hne⟩ := signedOddDigits_spec hd
  have hR := regLoop_spec L w (by omega) hQ digits hne hgood
  rw [hev, orOne_cast] at hR
  simp only [Option.some.injEq] at h
  subst h
  by_cases heven : m % 2 = 0
  · simp only [heven, if_true] at hR ⊢
    exact L.cast (L.add hR (L.neg hQ)) (by module)
  · simp only [heven, if_false] at hR ⊢
    exact L.cast (L.add hR L.zero) (by module)


theorem sodLoop_length (w k : Nat) (m : ℤ) : (sodLoop w k m).length = k + 1 := by
  induction k generalizing m with
  | zero => simp [sodLoop]
  | succ k ih => simp [sodLoop, ih]

theorem fixedBaseTables_length (w n : Nat) (K : α) : (fixedBaseTables o w n K).length = n := by
  induction n generalizing K with
  | zero => simp [fixedBaseTables]
  | succ n ih => simp [fixedBaseTables, ih]

theorem fixedBaseLoop_spec (w : Nat) (hw : 1 ≤ w) {lam : ℤ} (hlam : L.blindOk lam) (ds : List ℤ) (hne : ds ≠ [])
    (hgood : ∀ d ∈ ds, GoodDigit w d) {K : α} {k : G} (hK : L.R K k) :
    L.R (fixedBaseLoop o w lam (ds.zip (fixedBaseTables o w ds.length K))) (evalLE w ds • k) := by
  induction ds generalizing K k with
  | nil => exact absurd rfl hne
  | cons d ds ih =>
    have hd := sodPick_spec L w hw hK d (hgood d List.mem_cons_self)
    cases ds with
    | nil =>
      simp only [List.length_singleton, fixedBaseTables, List.zip_cons_cons, List.zip_nil_left, fixedBaseLoop, evalLE]
      exact L.cast (L.rescale hlam (L.jacFromAff hd)) (by module)
    | cons d' ds' =>
      have := ih (by simp) (fun x hx => hgood x (List.mem_cons_of_mem _ hx)) (dblN_spec L w hK)
      simp only [List.length_cons, fixedBaseTables, List.zip_cons_cons, fixedBaseLoop] at this ⊢
      refine L.cast (L.addAff this hd) ?_
      simp only [evalLE]; module

/-- T3: `_mult_fixed_base(m, Q, ec, w)` returns `m • Q` whenever it answers, for any admissible blind -/
theorem multFixedBase_spec (scalarLen m w : Nat) {lam : ℤ} (hlam : L.blindOk lam) {Q r : α} {g : G} (hQ : L.R Q g)
    (h : multFixedBase o scalarLen lam m Q w = some r) : L.R r ((m : ℤ) • g) := by
  unfold multFixedBase at h
  split at h; · simp at h
  next hw =>
  simp only [fixedBaseTables_length] at h
  split at h; · simp at h
  next digits hd =>
  obtain ⟨hev, hgood, hne⟩ := signedOddDigits_spec hd
  obtain ⟨_, _, _, hs, _, hdig⟩ := signedOddDigits_some hd
  have hlen : digits.length = ceilDiv scalarLen w := by rw [hdig, sodLoop_length]; omega
  have hR := fixedBaseLoop_spec L w (by omega) hlam digits hne hgood hQ
  rw [hlen, hev, orOne_cast] at hR
  simp only [Option.some.injEq] at h
  subst h
  by_cases heven : m % 2 = 0
  · simp only [heven, if_true] at hR ⊢
    exact L.cast (L.add hR (L.neg hQ)) (by module)
  · simp only [heven, if_false] at hR ⊢
    exact L.cast (L.add hR L.zero) (by module)


/-! ## T2': width-w NAF -/

/-- bound of a width-`w` NAF digit: `2^(w-1)` (`2` for the binary NAF) -/
def nafBound (w : Nat) : ℤ := if w = 1 then 2 else 2 ^ (w - 1)

/-- a digit of a width-`w` NAF: zero, or odd with `|d| < nafBound w` -/
def NafDigit (w : Nat) (d : ℤ) : Prop := d = 0 ∨ (d % 2 = 1 ∧ -nafBound w < d ∧ d < nafBound w)

theorem wnaf_digit (w : Nat) (hw : 1 ≤ w) (m : ℤ) (hm : 0 < m) (hodd : m % 2 = 1) :
    (if w = 1 then 2 - m % 4 else mods m w) % 2 = 1 ∧ -m < (if w = 1 then 2 - m % 4 else mods m w) ∧
    (if w = 1 then 2 - m % 4 else mods m w) ≤ m ∧ -nafBound w < (if w = 1 then 2 - m % 4 else mods m w) ∧
    (if w = 1 then 2 - m % 4 else mods m w) < nafBound w := by
  by_cases h1 : w = 1
  · subst h1; simp only [if_true, nafBound]; omega
  · obtain ⟨w'', rfl⟩ : ∃ w'', w = w'' + 2 := ⟨w - 2, by omega⟩
    simp only [h1, if_false, nafBound, mods]
    have hw2 : (2 : ℤ) ^ (w'' + 2) = 4 * 2 ^ w'' := by rw [pow_add]; ring
    have hw1 : (2 : ℤ) ^ (w'' + 2 - 1) = 2 * 2 ^ w'' := by
      have : w'' + 2 - 1 = w'' + 1 := by omega
      rw [this, pow_succ]; ring
    rw [hw2, hw1]
    have hQ : (0 : ℤ) < 2 ^ w'' := by positivity
    generalize (2 : ℤ) ^ w'' = Q4 at *
    have hdiv := Int.emod_add_mul_ediv m (4 * Q4)
    have hr0 := Int.emod_nonneg m (ne_of_gt (show 0 < 4 * Q4 by omega))
    have hr1 := Int.emod_lt_of_pos m (show 0 < 4 * Q4 by omega)
    have hq0 : 0 ≤ m / (4 * Q4) := Int.ediv_nonneg (by omega) (by omega)
    have hz : 0 ≤ Q4 * (m / (4 * Q4)) := mul_nonneg (by omega) hq0
    have h : m = m % (4 * Q4) + 4 * (Q4 * (m / (4 * Q4))) := by linear_combination hdiv.symm
    generalize Q4 * (m / (4 * Q4)) = z at h hz
    generalize m % (4 * Q4) = M at *
    split <;> omega

theorem wnafAux_spec (w : Nat) (hw : 1 ≤ w) (fuel m : Nat) (hf : m ≤ fuel) :
    evalLE 1 (wnafAux w fuel m) = m ∧ ∀ d ∈ wnafAux w fuel m, NafDigit w d := by
  induction fuel generalizing m with
  | zero => have : m = 0 := by omega
            subst this; simp [wnafAux, evalLE]
  | succ fuel ih =>
    simp only [wnafAux]
    split
    · next h => subst h; simp [evalLE]
    · next h =>
      split
      · next hodd =>
        obtain ⟨hd1, hd2, hd3, hd4, hd5⟩ := wnaf_digit w hw (m : ℤ) (by omega) (by omega)
        generalize (if w = 1 then 2 - (m : ℤ) % 4 else mods (m : ℤ) w) = d at *
        have hnext : (((m : ℤ) - d) / 2).toNat ≤ fuel := by omega
        obtain ⟨ih1, ih2⟩ := ih _ hnext
        refine ⟨?_, ?_⟩
        · simp only [evalLE]; rw [ih1]; omega
        · intro x hx
          rcases List.mem_cons.mp hx with rfl | hx
          · exact Or.inr ⟨hd1, hd4, hd5⟩
          · exact ih2 x hx
      · next heven =>
        obtain ⟨ih1, ih2⟩ := ih (m / 2) (by omega)
        refine ⟨?_, ?_⟩
        · simp only [evalLE]; rw [ih1]; omega
        · intro x hx
          rcases List.mem_cons.mp hx with rfl | hx
          · exact Or.inl rfl
          · exact ih2 x hx

/-- T2' (wNAF): `Σ dᵢ 2ⁱ = m`, every digit zero or odd with `|d| < 2^(w-1)` (`{0, ±1}` for `w = 1`), all `m`, `w ≥ 1` -/
theorem wnaf_spec (w : Nat) (hw : 1 ≤ w) (m : Nat) :
    evalLE 1 (wnaf w m) = m ∧ ∀ d ∈ wnaf w m, NafDigit w d := wnafAux_spec w hw m m (le_refl m)


/-! ## T4: interleaved wNAF (`_multi_mult_w_NAF_var`, `_double_mult_w_NAF_var`) -/

/-- the table entry a non-zero wNAF digit names in `_odd_multiples_aff(Q, ec, w)` is `d·Q` -/
theorem nafPickAff_spec (w : Nat) (hw : 1 ≤ w) {Q : α} {g : G} (hQ : L.R Q g) (d : ℤ) (hd : NafDigit w d)
    (hd0 : d ≠ 0) : L.RA (nafPickAff o (oddMultiplesAff o Q w) d) (d • g) := by
  rcases hd with h | ⟨hodd, hlo, hhi⟩
  · exact absurd h hd0
  obtain ⟨hlen, hent⟩ := oddMultiples_spec L w hQ
  have hB : nafBound w ≤ 2 * ((2 ^ (w - 2) : ℕ) : ℤ) := by
    unfold nafBound
    split
    · next h => subst h; simp
    · next h =>
      obtain ⟨w'', rfl⟩ : ∃ w'', w = w'' + 2 := ⟨w - 2, by omega⟩
      have : w'' + 2 - 1 = w'' + 1 := by omega
      rw [this]; simp only [Nat.add_sub_cancel]; push_cast; rw [pow_succ]; omega
  unfold nafPickAff oddMultiplesAff
  by_cases hpos : d > 0
  · simp only [hpos, if_true]
    obtain ⟨i, hi⟩ : ∃ i : ℕ, (d - 1) / 2 = i := ⟨((d - 1) / 2).toNat, by omega⟩
    have hilt : i < 2 ^ (w - 2) := by
      have : (i : ℤ) < ((2 ^ (w - 2) : ℕ) : ℤ) := by omega
      exact_mod_cast this
    obtain ⟨x, hx, hR⟩ := hent i hilt
    rw [hi, Int.toNat_natCast, List.getD_eq_getElem?_getD, List.getElem?_map, hx]
    simp only [Option.map_some, Option.getD_some]
    refine L.castA (L.toAff hR) ?_
    have : 2 * (i : ℤ) + 1 = d := by omega
    rw [this]
  · simp only [hpos, if_false]
    obtain ⟨i, hi⟩ : ∃ i : ℕ, (-d - 1) / 2 = i := ⟨((-d - 1) / 2).toNat, by omega⟩
    have hilt : i < 2 ^ (w - 2) := by
      have : (i : ℤ) < ((2 ^ (w - 2) : ℕ) : ℤ) := by omega
      exact_mod_cast this
    obtain ⟨x, hx, hR⟩ := hent i hilt
    rw [hi, Int.toNat_natCast, List.getD_eq_getElem?_getD, List.getElem?_map, hx]
    simp only [Option.map_some, Option.getD_some]
    refine L.castA (L.negAff (L.toAff hR)) ?_
    have : 2 * (i : ℤ) + 1 = -d := by omega
    rw [this]; module

/-- a (wNAF, table) pair is good for `g`: every non-zero digit's entry is that multiple of `g` -/
def GoodPair (nt : List ℤ × List β) (g : G) : Prop :=
  ∀ d ∈ nt.1, d ≠ 0 → L.RA (nafPickAff o nt.2 d) (d • g)

/-- `Σ f(nafᵢ) • gᵢ` -/
def wsum (f : List ℤ → ℤ) : List (List ℤ × List β) → List G → G
  | nt :: ps, g :: gs => f nt.1 • g + wsum f ps gs
  | _, _ => 0

theorem evalLE_one_cons (d : ℤ) (ds : List ℤ) : evalLE 1 (d :: ds) = d + 2 * evalLE 1 ds := by simp [evalLE]

theorem interleave_heads {ps : List (List ℤ × List β)} {gs : List G} (h : List.Forall₂ (GoodPair L) ps gs)
    {acc : α} {a : G} (hacc : L.R acc a) :
    L.R (ps.foldl (fun R nt =>
      match nt.1 with
      | [] => R
      | d :: _ => if d ≠ 0 then o.addAff R (nafPickAff o nt.2 d) else R) acc)
      (a + wsum (β := β) (fun l => l.headD 0) ps gs) := by
  induction h generalizing acc a with
  | nil => simpa [wsum] using hacc
  | @cons nt g ps gs hg _ ih =>
    simp only [List.foldl_cons, wsum]
    rcases hnt : nt.1 with _ | ⟨d, ds⟩
    · simp only []
      exact L.cast (ih hacc) (by simp)
    · simp only []
      by_cases hd : d = 0
      · subst hd
        simp only [ne_eq, not_true_eq_false, if_false]
        exact L.cast (ih hacc) (by simp)
      · simp only [ne_eq, hd, not_false_eq_true, if_true]
        have := hg d (by rw [hnt]; exact List.mem_cons_self) hd
        exact L.cast (ih (L.addAff hacc this)) (by simp only [List.headD_cons]; module)

theorem wsum_split (ps : List (List ℤ × List β)) (gs : List G) :
    wsum (evalLE 1) ps gs =
      (2 : ℤ) • wsum (evalLE 1) (ps.map fun nt => (nt.1.tail, nt.2)) gs + wsum (fun l => l.headD 0) ps gs := by
  induction ps generalizing gs with
  | nil => simp [wsum]
  | cons nt ps ih =>
    cases gs with
    | nil => simp [wsum]
    | cons g gs =>
      simp only [List.map_cons, wsum, ih gs]
      rcases nt.1 with _ | ⟨d, ds⟩
      · simp [evalLE]
      · simp only [List.tail_cons, List.headD_cons, evalLE_one_cons]; module

theorem wsum_nil_of_all_nil (f : List ℤ → ℤ) (hf : f [] = 0) (ps : List (List ℤ × List β)) (gs : List G)
    (h : ∀ nt ∈ ps, nt.1 = []) : wsum f ps gs = 0 := by
  induction ps generalizing gs with
  | nil => simp [wsum]
  | cons nt ps ih =>
    cases gs with
    | nil => simp [wsum]
    | cons g gs =>
      simp only [wsum, h nt List.mem_cons_self, hf, zero_smul, zero_add]
      exact ih gs (fun x hx => h x (List.mem_cons_of_mem _ hx))

/-- T4 (the loop): with one good (wNAF, table) pair per term and enough positions, the interleaved loop
returns `Σ value(nafᵢ) • gᵢ` -/
theorem interleaveLoop_spec (k : Nat) {ps : List (List ℤ × List β)} {gs : List G}
    (h : List.Forall₂ (GoodPair L) ps gs) (hlen : ∀ nt ∈ ps, nt.1.length ≤ k) :
    L.R (interleaveLoop o k ps) (wsum (evalLE 1) ps gs) := by
  induction k generalizing ps gs with
  | zero =>
    simp only [interleaveLoop]
    rw [wsum_nil_of_all_nil _ (by simp [evalLE]) ps gs
      (fun nt hnt => List.eq_nil_of_length_eq_zero (by have := hlen nt hnt; omega))]
    exact L.zero
  | succ k ih =>
    simp only [interleaveLoop]
    have htails : List.Forall₂ (GoodPair L) (ps.map fun nt => (nt.1.tail, nt.2)) gs := by
      rw [List.forall₂_map_left_iff]
      refine h.imp ?_
      intro nt g hg d hd hd0
      exact hg d (List.mem_of_mem_tail hd) hd0
    have hl : ∀ nt ∈ (ps.map fun nt => (nt.1.tail, nt.2)), nt.1.length ≤ k := by
      intro nt hnt
      obtain ⟨nt', hnt', rfl⟩ := List.mem_map.mp hnt
      have := hlen nt' hnt'
      simp only [List.length_tail]; omega
    have hinner := L.dbl (ih htails hl)
    refine L.cast (interleave_heads L h hinner) ?_
    rw [wsum_split ps gs]; module


/-! ## multi-scalar sums -/

/-- the group element a value represents (any one; unique when the relation is functional) -/
noncomputable def JacRel.val (x : α) : G := by
  classical exact if h : ∃ g, L.R x g then h.choose else 0

theorem JacRel.val_spec {x : α} (h : ∃ g, L.R x g) : L.R x (L.val x) := by
  classical
  unfold JacRel.val
  rw [dif_pos h]; exact h.choose_spec

/-- the relation is a function of the value (true of the homomorphism form `R x g := Valid x ∧ abs x = g`) -/
def JacRel.Functional : Prop := ∀ x g g', L.R x g → L.R x g' → g = g'

theorem JacRel.val_eq (hf : L.Functional) {x : α} {g : G} (h : L.R x g) : L.val x = g :=
  hf x _ _ (L.val_spec ⟨g, h⟩) h

/-- `Σ nᵢ • Pᵢ` -/
noncomputable def tsum (xs : List (Nat × α)) : G := (xs.map fun np => ((np.1 : ℕ) : ℤ) • L.val np.2).sum

theorem tsum_cons (x : Nat × α) (xs : List (Nat × α)) : tsum L (x :: xs) = (x.1 : ℤ) • L.val x.2 + tsum L xs := by
  simp [tsum]

theorem tsum_filter (xs : List (Nat × α)) : tsum L (xs.filter fun np => np.1 ≠ 0) = tsum L xs := by
  induction xs with
  | nil => rfl
  | cons x xs ih =>
    rw [List.filter_cons]
    split
    · rw [tsum_cons, tsum_cons, ih]
    · next h =>
      have h0 : x.1 = 0 := by simpa using h
      rw [tsum_cons, ih, h0]; simp

theorem tsum_perm {xs ys : List (Nat × α)} (h : xs.Perm ys) : tsum L xs = tsum L ys := by
  unfold tsum; exact (h.map _).sum_eq

theorem foldl_max_ge (l : List (List ℤ × List β)) (k0 : Nat) :
    k0 ≤ l.foldl (fun k nt => max k nt.1.length) k0 ∧
    ∀ nt ∈ l, nt.1.length ≤ l.foldl (fun k nt => max k nt.1.length) k0 := by
  induction l generalizing k0 with
  | nil => simp
  | cons x xs ih =>
    simp only [List.foldl_cons]
    obtain ⟨h1, h2⟩ := ih (max k0 x.1.length)
    refine ⟨by omega, ?_⟩
    intro nt hnt
    rcases List.mem_cons.mp hnt with rfl | hnt
    · omega
    · exact h2 nt hnt

theorem multiMultPairs_some {scalars : List Nat} {points : List α} {pairs : List (Nat × α)}
    (h : multiMultPairs scalars points = some pairs) :
    pairs = (scalars.zip points).filter (fun np => np.1 ≠ 0) := by
  unfold multiMultPairs at h
  split at h; · simp at h
  split at h; · simp at h
  simpa using h.symm

theorem wsum_map_pairs (F : Nat × α → List ℤ × List β) (pairs : List (Nat × α))
    (hF : ∀ np ∈ pairs, evalLE 1 (F np).1 = np.1) :
    wsum (evalLE 1) (pairs.map F) (pairs.map fun np => L.val np.2) = tsum L pairs := by
  induction pairs with
  | nil => simp [wsum, tsum]
  | cons x xs ih =>
    simp only [List.map_cons, wsum, tsum_cons]
    rw [ih (fun np hnp => hF np (List.mem_cons_of_mem _ hnp)), hF x List.mem_cons_self]

/-- T4: `_multi_mult_w_NAF_var(scalars, points, ec, w, fixed)` (hence `_double_mult_w_NAF_var`) returns
`Σ uᵢ • Pᵢ` whenever it answers: any number of terms, any width `w ≥ 1`, any set of fixed points (their
width `fixedW ≥ 1`), zero scalars and points at infinity included -/
theorem multiMultWNAF_spec (isFixed : α → Bool) (fixedW w : Nat) (hfw : 1 ≤ fixedW) (scalars : List Nat)
    (points : List α) (hpts : ∀ P ∈ points, ∃ g, L.R P g) {r : α}
    (h : multiMultWNAF o isFixed fixedW scalars points w = some r) :
    L.R r (tsum L (scalars.zip points)) := by
  unfold multiMultWNAF at h
  split at h; · simp at h
  next hw =>
  split at h; · simp at h
  next pairs hp =>
  have hpairs := multiMultPairs_some hp
  simp only [Option.some.injEq] at h
  subst h
  rw [← tsum_filter, ← hpairs]
  set F : Nat × α → List ℤ × List β := fun np =>
    (wnaf (if isFixed np.2 = true then fixedW else w) np.1,
      oddMultiplesAff o np.2 (if isFixed np.2 = true then fixedW else w)) with hF
  have hmem : ∀ np ∈ pairs, ∃ g, L.R np.2 g := by
    intro np hnp
    rw [hpairs] at hnp
    exact hpts np.2 (List.of_mem_zip (List.mem_of_mem_filter hnp)).2
  have hgood : List.Forall₂ (GoodPair L) (pairs.map F) (pairs.map fun np => L.val np.2) := by
    rw [List.forall₂_map_left_iff, List.forall₂_map_right_iff, List.forall₂_same]
    intro np hnp d hd hd0
    have hwd : 1 ≤ (if isFixed np.2 = true then fixedW else w) := by split <;> omega
    exact nafPickAff_spec L _ hwd (L.val_spec (hmem np hnp)) d ((wnaf_spec _ hwd np.1).2 d hd) hd0
  have hlen := (foldl_max_ge (pairs.map F) 0).2
  have := interleaveLoop_spec L _ hgood hlen
  rw [wsum_map_pairs L F pairs (fun np _ => by
    have hwd : 1 ≤ (if isFixed np.2 = true then fixedW else w) := by split <;> omega
    exact (wnaf_spec _ hwd np.1).1)] at this
  exact this

/-! ## T5: Bos–Coster -/

/-- what is asked of the heap: it hands back a member and the rest, and says "empty" only of the empty
collection.  NOT asked: that the member is a largest one (that matters for termination only), nor how ties
are broken — so Python's heap order cannot matter. -/
def SelectOk (sel : Select α) : Prop :=
  (∀ xs x rest, sel xs = some (x, rest) → xs.Perm (x :: rest)) ∧ (∀ xs, sel xs = none → xs = [])

theorem bosCosterLoop_spec (hf : L.Functional) (sel : Select α) (hsel : SelectOk sel) (fuel : Nat)
    (xs : List (Nat × α)) (hxs : ∀ np ∈ xs, ∃ g, L.R np.2 g) {n1 : Nat} {p1 : α}
    (h : bosCosterLoop o sel fuel xs = some (n1, p1)) :
    (∃ g, L.R p1 g) ∧ (n1 : ℤ) • L.val p1 = tsum L xs := by
  induction fuel generalizing xs with
  | zero => simp [bosCosterLoop] at h
  | succ fuel ih =>
    simp only [bosCosterLoop] at h
    split at h; · simp at h
    next np1 rest h1 =>
    have hperm1 := hsel.1 _ _ _ h1
    have hmem1 : ∀ np ∈ np1 :: rest, ∃ g, L.R np.2 g := fun np hnp => hxs np (hperm1.mem_iff.mpr hnp)
    split at h
    · next h2 =>
      simp only [Option.some.injEq] at h
      have hrest := hsel.2 _ h2
      subst hrest
      subst h
      refine ⟨hmem1 _ List.mem_cons_self, ?_⟩
      rw [tsum_perm L hperm1]; simp [tsum]
    · next np2 rest2 h2 =>
      have hperm2 := hsel.1 _ _ _ h2
      have hmem2 : ∀ np ∈ np2 :: rest2, ∃ g, L.R np.2 g :=
        fun np hnp => hmem1 np (List.mem_cons_of_mem _ (hperm2.mem_iff.mpr hnp))
      have hv1 := L.val_spec (hmem1 np1 List.mem_cons_self)
      have hv2 := L.val_spec (hmem2 np2 List.mem_cons_self)
      have hp2 := L.add (multJacVar_spec L (np1.1 / np2.1) hv1) hv2
      have hval2 := L.val_eq hf hp2
      have hys : ∀ np ∈ (np2.1, o.add (multJacVar o (np1.1 / np2.1) np1.2) np2.2) ::
          (if np1.1 % np2.1 > 0 then (np1.1 % np2.1, np1.2) :: rest2 else rest2), ∃ g, L.R np.2 g := by
        intro np hnp
        rcases List.mem_cons.mp hnp with rfl | hnp
        · exact ⟨_, hp2⟩
        · split at hnp
          · rcases List.mem_cons.mp hnp with rfl | hnp
            · exact ⟨_, hv1⟩
            · exact hmem2 np (List.mem_cons_of_mem _ hnp)
          · exact hmem2 np (List.mem_cons_of_mem _ hnp)
      obtain ⟨hg, hsum⟩ := ih _ hys h
      refine ⟨hg, ?_⟩
      rw [hsum, tsum_cons, tsum_perm L hperm1, tsum_cons L np1 rest, tsum_perm L hperm2, tsum_cons L np2 rest2]
      simp only [hval2]
      have hdm : (np1.1 : ℤ) = (np1.1 / np2.1 : ℕ) * (np2.1 : ℤ) + (np1.1 % np2.1 : ℕ) := by
        have := Nat.div_add_mod' np1.1 np2.1
        exact_mod_cast this.symm
      by_cases hr : np1.1 % np2.1 > 0
      · simp only [hr, if_true, tsum_cons]
        rw [hdm]; module
      · simp only [hr, if_false]
        have : np1.1 % np2.1 = 0 := by omega
        rw [hdm, this]; push_cast; module

/-- T5: `_multi_mult_bos_coster_var(scalars, points, ec)` returns `Σ uᵢ • Pᵢ` whenever it answers, for ANY
selection function (any tie-breaking — indeed any member at all) -/
theorem multiMultBosCoster_spec (hf : L.Functional) (sel : Select α) (hsel : SelectOk sel) (scalarLen multW : Nat)
    (scalars : List Nat) (points : List α) (hpts : ∀ P ∈ points, ∃ g, L.R P g) {r : α}
    (h : multiMultBosCoster o sel scalarLen multW scalars points = some r) :
    L.R r (tsum L (scalars.zip points)) := by
  unfold multiMultBosCoster at h
  split at h
  · simp at h
  · next hp =>
    have hpairs := multiMultPairs_some hp
    simp only [Option.some.injEq] at h
    subst h
    rw [← tsum_filter, ← hpairs]
    simpa [tsum] using L.zero
  · next pairs hne hp =>
    have hpairs := multiMultPairs_some hp
    split at h; · simp at h
    next n1 p1 hloop =>
    have hmem : ∀ np ∈ pairs, ∃ g, L.R np.2 g := by
      intro np hnp
      rw [hpairs] at hnp
      exact hpts np.2 (List.of_mem_zip (List.mem_of_mem_filter hnp)).2
    obtain ⟨hg, hsum⟩ := bosCosterLoop_spec L hf sel hsel _ pairs hmem hloop
    have := multRegularWindow_spec L scalarLen n1 multW (L.val_spec hg) h
    rw [hsum, hpairs, tsum_filter] at this
    exact this

/-- T6: `_multi_mult_var` returns `Σ uᵢ • Pᵢ` on either side of the dispatch — for EVERY threshold value, so
in particular for the generated `BOS_COSTER_THRESHOLD` -/
theorem multiMultVar_spec (hf : L.Functional) (sel : Select α) (hsel : SelectOk sel) (isFixed : α → Bool)
    (fixedW scalarLen multW multiW threshold : Nat) (hfw : 1 ≤ fixedW) (scalars : List Nat) (points : List α)
    (hpts : ∀ P ∈ points, ∃ g, L.R P g) {r : α}
    (h : multiMultVar o sel isFixed fixedW scalarLen multW multiW threshold scalars points = some r) :
    L.R r (tsum L (scalars.zip points)) := by
  unfold multiMultVar at h
  split at h
  · exact multiMultWNAF_spec L isFixed fixedW multiW hfw scalars points hpts h
  · exact multiMultBosCoster_spec L hf sel hsel scalarLen multW scalars points hpts h

end Btc.C01
