import Proofs.C01.Entry
import Proofs.C01.Ladders3
/-
C01 — T8 on the secp256k1 pure-Python route (`ec == secp256k1`: `mult` runs `_mult_endomorphism_secp256k1`,
`double_mult_var` runs `_double_mult_endomorphism_secp256k1_var`), GIVEN the endomorphism law `EndoLaw`; and
`double_mult_var` on every other curve (interleaved wNAF), unconditionally.
-/
namespace Btc.C01
variable {α β G : Type} [AddCommGroup G]

theorem multChecked_spec_given_endo_law (c : CurveCtx α β) (L : JacRel c.o G)
    (E : EndoLaw L Gen.Curves.glv_LAM Gen.Curves.glv_N) {lam : ℤ}
    (hlam : L.blindOk lam) (m : ℕ) (prepared : Bool) {Q A : β} {g : G} (hQ : L.RA Q g)
    (hG : c.eqAff Q c.G = true → L.R c.GJ g) (h : multChecked c lam m Q prepared = some A) :
    L.RA A ((m : ℤ) • g) := by
  unfold multChecked at h
  split at h
  · next hq =>
    obtain ⟨r, hr, rfl⟩ := Option.map_eq_some_iff.mp h
    exact L.toAff (multFixedBase_spec L _ m _ hlam (hG hq) hr)
  · split at h
    · obtain ⟨r, hr, rfl⟩ := Option.map_eq_some_iff.mp h
      exact L.toAff (multFixedBase_spec L _ m _ hlam (L.jacFromAff hQ) hr)
    · obtain ⟨r, hr, rfl⟩ := Option.map_eq_some_iff.mp h
      have hQJ := L.rescale hlam (L.jacFromAff hQ)
      split at hr
      · exact L.toAff (multEndomorphism_spec L E _ m _ hQJ hr)
      · exact L.toAff (multRegularWindow_spec L _ m _ hQJ hr)

/-- T8 (`mult`, pure-Python path, EVERY curve, secp256k1's GLV route included) GIVEN the endomorphism law:
`mult(m, Q, ec) = m • Q` for every integer `m` -/
theorem multEntry_spec_given_endo_law (c : CurveCtx α β) (L : JacRel c.o G)
    (E : EndoLaw L Gen.Curves.glv_LAM Gen.Curves.glv_N) (hn0 : 0 < c.n) {lam : ℤ}
    (hlam : L.blindOk lam) (m : ℤ) {Q A : β} {g : G} (hQ : L.RA Q g)
    (hG : c.eqAff Q c.G = true → L.R c.GJ g) (hn : (c.n : ℤ) • g = 0)
    (h : multEntry c lam m Q = some A) : L.RA A (m • g) := by
  unfold multEntry at h
  simp only [] at h
  split at h; · simp at h
  have := multChecked_spec_given_endo_law c L E hlam _ false hQ hG h
  have hc : (((m % (c.n : ℤ)).toNat : ℕ) : ℤ) = m % (c.n : ℤ) :=
    Int.toNat_of_nonneg (Int.emod_nonneg _ (by omega))
  rw [hc, zsmul_emod_order c.n hn] at this
  exact this

/-- `_double_mult_python` on every curve but secp256k1 (interleaved wNAF at `_DOUBLE_MULT_W`): `u • H + v • Q` -/
theorem doubleMultPython_spec (c : CurveCtx α β) (L : JacRel c.o G) (hf : L.Functional) (hsecp : c.isSecp = false)
    (hfw : 1 ≤ c.fixedW) (u v : ℕ) {H Q r : α} {h q : G} (hH : L.R H h) (hQ : L.R Q q)
    (hr : doubleMultPython c u H v Q = some r) : L.R r ((u : ℤ) • h + (v : ℤ) • q) := by
  unfold doubleMultPython at hr
  simp only [hsecp, Bool.false_eq_true, if_false] at hr
  have := multiMultWNAF_spec L c.isFixed c.fixedW c.doubleW hfw [u, v] [H, Q]
    (by intro x hx; simp at hx; rcases hx with rfl | rfl; exacts [⟨_, hH⟩, ⟨_, hQ⟩]) hr
  rwa [tsum_two L hf hH hQ] at this

/-- T8 (`double_mult_var`, pure-Python path, every curve but secp256k1): `u • H + v • Q` for EVERY integers `u`, `v`;
refused when either point fails `is_on_curve` -/
theorem doubleMultEntry_spec (c : CurveCtx α β) (L : JacRel c.o G) (hf : L.Functional) (hsecp : c.isSecp = false)
    (hfw : 1 ≤ c.fixedW) (hn0 : 0 < c.n) (u v : ℤ) {H Q A : β} {h q : G} (hH : L.RA H h) (hQ : L.RA Q q)
    (hnh : (c.n : ℤ) • h = 0) (hnq : (c.n : ℤ) • q = 0)
    (hr : doubleMultEntry c u H v Q = some A) : L.RA A (u • h + v • q) := by
  unfold doubleMultEntry at hr
  split at hr; · simp at hr
  split at hr; · simp at hr
  simp only [] at hr
  obtain ⟨r, hr', rfl⟩ := Option.map_eq_some_iff.mp hr
  have := doubleMultPython_spec c L hf hsecp hfw _ _ (L.jacFromAff hH) (L.jacFromAff hQ) hr'
  have hcu : (((u % (c.n : ℤ)).toNat : ℕ) : ℤ) = u % (c.n : ℤ) :=
    Int.toNat_of_nonneg (Int.emod_nonneg _ (by omega))
  have hcv : (((v % (c.n : ℤ)).toNat : ℕ) : ℤ) = v % (c.n : ℤ) :=
    Int.toNat_of_nonneg (Int.emod_nonneg _ (by omega))
  rw [hcu, hcv, zsmul_emod_order c.n hnh, zsmul_emod_order c.n hnq] at this
  exact L.toAff this

theorem doubleMultEntry_refuses (c : CurveCtx α β) (u v : ℤ) (H Q : β)
    (hoff : c.onCurve H ≠ some true ∨ c.onCurve Q ≠ some true) : doubleMultEntry c u H v Q = none := by
  unfold doubleMultEntry CurveCtx.requireOnCurve
  rcases hoff with h | h
  · simp [h]
  · by_cases hH : c.onCurve H = some true <;> simp [hH, h]

end Btc.C01
