import Model.C01.Curve
import Proofs.C01.Ladders
/-
C01 — T8 (partial): the public `mult` / `PreparedPoint.mult` on the pure-Python path of every curve but secp256k1
(regular window, or fixed base for the generator / a prepared point) return `m • Q` for EVERY integer `m`.
-/
namespace Btc.C01
variable {α β G : Type} [AddCommGroup G]

theorem zsmul_emod_order {g : G} (n : ℕ) (hn : (n : ℤ) • g = 0) (m : ℤ) : (m % (n : ℤ)) • g = m • g := by
  have h := Int.emod_add_mul_ediv m n
  conv_rhs => rw [← h]
  rw [add_zsmul, mul_comm, mul_zsmul, hn, zsmul_zero, add_zero]

theorem multChecked_spec (c : CurveCtx α β) (L : JacRel c.o G) (hsecp : c.isSecp = false) {lam : ℤ}
    (hlam : L.blindOk lam) (m : ℕ) (prepared : Bool) {Q A : β} {g : G} (hQ : L.RA Q g)
    (hG : c.eqAff Q c.G = true → L.R c.GJ g) (h : multChecked c lam m Q prepared = some A) :
    L.RA A ((m : ℤ) • g) := by
  unfold multChecked at h
  split at h
  · next hq =>
    obtain ⟨r, hr, rfl⟩ := Option.map_eq_some_iff.mp h
    exact L.toAff (multFixedBase_spec L _ m _ hlam (hG hq) hr)
  · simp only [hsecp] at h
    split at h
    · obtain ⟨r, hr, rfl⟩ := Option.map_eq_some_iff.mp h
      exact L.toAff (multFixedBase_spec L _ m _ hlam (L.jacFromAff hQ) hr)
    · obtain ⟨r, hr, rfl⟩ := Option.map_eq_some_iff.mp h
      simp only [Bool.false_eq_true, if_false] at hr
      exact L.toAff (multRegularWindow_spec L _ m _ (L.rescale hlam (L.jacFromAff hQ)) hr)

/-- T8 (`mult`, Python path, every curve but secp256k1): `mult(m, Q, ec) = m • Q` for every integer `m`
(negative, `≥ n`, multiples of `n`), the generator and infinity included, whenever the order of `Q` divides `n` -/
theorem multEntry_spec (c : CurveCtx α β) (L : JacRel c.o G) (hsecp : c.isSecp = false) (hn0 : 0 < c.n) {lam : ℤ}
    (hlam : L.blindOk lam) (m : ℤ) {Q A : β} {g : G} (hQ : L.RA Q g)
    (hG : c.eqAff Q c.G = true → L.R c.GJ g) (hn : (c.n : ℤ) • g = 0)
    (h : multEntry c lam m Q = some A) : L.RA A (m • g) := by
  unfold multEntry at h
  simp only [] at h
  split at h; · simp at h
  have := multChecked_spec c L hsecp hlam _ false hQ hG h
  have hc : (((m % (c.n : ℤ)).toNat : ℕ) : ℤ) = m % (c.n : ℤ) :=
    Int.toNat_of_nonneg (Int.emod_nonneg _ (by omega))
  rw [hc, zsmul_emod_order c.n hn] at this
  exact this

/-- a point that fails `is_on_curve` (and is not the generator) is refused by `mult` -/
theorem multEntry_refuses (c : CurveCtx α β) (lam m : ℤ) (Q : β) (hq : c.eqAff Q c.G = false)
    (hoff : c.onCurve Q ≠ some true) : multEntry c lam m Q = none := by
  unfold multEntry CurveCtx.requireOnCurve
  simp [hq, hoff]

/-- `PreparedPoint(Q, ec).mult(m) = m • Q` on the same path -/
theorem preparedMult_spec (c : CurveCtx α β) (L : JacRel c.o G) (hsecp : c.isSecp = false) (hn0 : 0 < c.n) {lam : ℤ}
    (hlam : L.blindOk lam) (m : ℤ) {Q A : β} {g : G} (hQ : L.RA Q g)
    (hG : c.eqAff Q c.G = true → L.R c.GJ g) (hn : (c.n : ℤ) • g = 0)
    (h : preparedMult c lam Q m = some A) : L.RA A (m • g) := by
  unfold preparedMult at h
  split at h; · simp at h
  split at h; · simp at h
  have := multChecked_spec c L hsecp hlam _ true hQ hG h
  have hc : (((m % (c.n : ℤ)).toNat : ℕ) : ℤ) = m % (c.n : ℤ) :=
    Int.toNat_of_nonneg (Int.emod_nonneg _ (by omega))
  rw [hc, zsmul_emod_order c.n hn] at this
  exact this

end Btc.C01
