import Proofs.C13.Feistel
/-
C13 / T4 (wrong passphrase): both directions of `_feistel` are INJECTIVE on even-length payloads for any
length-preserving round function, hence decrypting a ciphertext under another round function (another passphrase)
gives the original plaintext exactly when that other round function encrypts the plaintext to the same ciphertext.
That two different passphrases do NOT encrypt a given secret alike is a property of PBKDF2-HMAC-SHA256 (assumed,
tested), not of the network.
-/
namespace Btc.C13

/-- `_feistel` (either direction) is injective on even-length payloads -/
theorem feistel_injective (F : Nat → Bytes → Bytes) (hF : ∀ i r, (F i r).length = r.length)
    (a b : Bytes) (ha : a.length % 2 = 0) (hb : b.length % 2 = 0) (dec : Bool)
    (h : feistel F a dec = feistel F b dec) : a = b := by
  obtain ⟨c, hc, _, hca⟩ := feistel_inv F hF a ha dec
  obtain ⟨c', hc', _, hcb⟩ := feistel_inv F hF b hb dec
  rw [hc, hc'] at h
  have : c = c' := Option.some.inj h
  subst this
  rw [hca] at hcb
  exact Option.some.inj hcb

/-- decrypting under ANOTHER round function `F'`: always some payload of the same length, and it is the plaintext
    iff `F'` encrypts the plaintext to the very same ciphertext -/
theorem feistel_wrong_key (F F' : Nat → Bytes → Bytes) (hF : ∀ i r, (F i r).length = r.length)
    (hF' : ∀ i r, (F' i r).length = r.length) (m : Bytes) (hm : m.length % 2 = 0) :
    ∃ c m', feistel F m false = some c ∧ feistel F' c true = some m' ∧ m'.length = m.length ∧
      (m' = m ↔ feistel F' m false = some c) := by
  obtain ⟨c, hc, hcl, _⟩ := feistel_inv F hF m hm false
  obtain ⟨m', hm', hml, hback⟩ := feistel_inv F' hF' c (by rw [hcl]; exact hm) true
  refine ⟨c, m', hc, hm', by rw [hml, hcl], ?_⟩
  constructor
  · intro h; rw [← h]; exact hback
  · intro h
    have : feistel F' m' false = feistel F' m false := by rw [h]; exact hback
    exact feistel_injective F' hF' m' m (by rw [hml, hcl]; exact hm) hm false this

/-- non-vacuity: two round functions that decrypt the same ciphertext to different plaintexts -/
example : feistel (fun i r => r.map (· + UInt8.ofNat i + 1)) [1, 2, 3, 4] false = some [2, 22, 2, 23] ∧
    feistel (fun _ r => r) [2, 22, 2, 23] true ≠ some [1, 2, 3, 4] := by decide

end Btc.C13
