import Model.C13.Shamir
import Mathlib.LinearAlgebra.Lagrange
/-
C13 / T3: Shamir over any field.  `_interpolate` is coordinate-wise Mathlib's Lagrange interpolant
(`interpolate_eq_lagrange`); any `threshold` distinct shares of `_split_secret`, in any order, interpolate back to
the secret at `SECRET_X` and to the digest share at `DIGEST_X` (`splitSecret_recovers`), so `_recover_secret`
returns the secret (`recoverSecret_splitSecret`, `recoverSecret_threshold_one`).
-/

namespace Btc.C13

open Polynomial

/-- `o` computes in the field `F`; `div` only has to be right for non-zero operands (btclib's `_div` table
    lookup is wrong for a zero numerator, and never receives one). -/
structure FLawful {F : Type} [Field F] (o : FOps F) : Prop where
  zero : o.zero = 0
  one : o.one = 1
  add : ∀ a b, o.add a b = a + b
  sub : ∀ a b, o.sub a b = a - b
  mul : ∀ a b, o.mul a b = a * b
  div : ∀ a b, a ≠ 0 → b ≠ 0 → o.div a b = a / b

section Scalar
variable {F : Type} [Field F] [DecidableEq F] {o : FOps F}

theorem basisAux_eq (L : FLawful o) (xi x : F) (xs : List F) (b : F) (hx : ∀ xj ∈ xs, x ≠ xj) :
    basisAux o xi x xs b =
      b * ((xs.filter (fun xj => xj ≠ xi)).map (fun xj => (x - xj) / (xi - xj))).prod := by
  induction xs generalizing b with
  | nil => simp [basisAux]
  | cons xj rest ih =>
    have hx' : ∀ y ∈ rest, x ≠ y := fun y hy => hx y (List.mem_cons_of_mem _ hy)
    have hxj : x ≠ xj := hx xj (List.mem_cons_self ..)
    rw [basisAux, ih _ hx']
    by_cases h : xj = xi
    · simp [h]
    · have h1 : x - xj ≠ 0 := sub_ne_zero.mpr hxj
      have h2 : xi - xj ≠ 0 := sub_ne_zero.mpr (Ne.symm h)
      simp [h, L.mul, L.sub, L.div _ _ h1 h2, mul_assoc]

/-- the scalar `basis` of `_interpolate` is the Lagrange basis polynomial evaluated at `x` -/
theorem basis_eq_eval {ι : Type} [DecidableEq ι] (L : FLawful o) (v : ι → F) (idx : List ι)
    (hnd : idx.Nodup) (hinj : Set.InjOn v {i | i ∈ idx}) (i : ι) (hi : i ∈ idx) (x : F)
    (hx : ∀ j ∈ idx, x ≠ v j) :
    basis o (idx.map v) (v i) x = eval x (Lagrange.basis idx.toFinset v i) := by
  have hx' : ∀ xj ∈ idx.map v, x ≠ xj := by
    intro xj hxj
    obtain ⟨j, hj, rfl⟩ := List.mem_map.mp hxj
    exact hx j hj
  rw [basis, basisAux_eq L _ _ _ _ hx', L.one, one_mul, Lagrange.basis, eval_prod]
  have hf : (idx.map v).filter (fun xj => xj ≠ v i) = (idx.filter (fun j => j ≠ i)).map v := by
    rw [List.filter_map]
    congr 1
    apply List.filter_congr
    intro j hj
    simp only [Function.comp, decide_eq_decide]
    constructor
    · intro h e; exact h (by rw [e])
    · intro h e; exact h (hinj hj hi e)
  rw [hf, List.map_map]
  have hnd' : (idx.filter (fun j => j ≠ i)).Nodup := hnd.filter _
  rw [← List.prod_toFinset _ hnd', List.toFinset_filter]
  simp only [decide_eq_true_eq, Finset.filter_ne']
  apply Finset.prod_congr rfl
  intro j _
  simp [Lagrange.basisDivisor, div_eq_inv_mul]

end Scalar

section Vector
variable {α : Type} [DecidableEq α] (o : FOps α)

omit [DecidableEq α] in
theorem accum_length (b : α) (rs ys : List α) : (accum o b rs ys).length = rs.length := by
  induction rs generalizing ys with
  | nil => cases ys <;> simp [accum]
  | cons r rs ih => cases ys <;> simp [accum, ih]

theorem interpAux_length (xs : List α) (x : α) (pts : List (α × List α)) (res : List α) :
    (interpAux o xs x pts res).length = res.length := by
  induction pts generalizing res with
  | nil => simp [interpAux]
  | cons p rest ih => simp [interpAux, ih, accum_length]

theorem interpolate_length (pts : List (α × List α)) (x : α) :
    (interpolate o pts x).length = (match pts with | [] => 0 | p :: _ => p.2.length) := by
  cases pts <;> simp [interpolate, interpAux_length]

end Vector

section VectorField
variable {F : Type} [Field F] [DecidableEq F] {o : FOps F}

omit [DecidableEq F] in
theorem accum_getD (L : FLawful o) (b : F) (rs ys : List F) (k : Nat) (hk : k < rs.length) :
    (accum o b rs ys).getD k 0 = rs.getD k 0 + ys.getD k 0 * b := by
  induction rs generalizing ys k with
  | nil => simp at hk
  | cons r rs ih =>
    cases ys with
    | nil => simp [accum]
    | cons y ys =>
      cases k with
      | zero => simp [accum, L.add, L.mul]
      | succ k =>
        have := ih ys k (by simpa using hk)
        simpa [accum] using this

theorem interpAux_getD (L : FLawful o) (xs : List F) (x : F) (pts : List (F × List F)) (res : List F)
    (k : Nat) (hk : k < res.length) :
    (interpAux o xs x pts res).getD k 0 =
      res.getD k 0 + (pts.map (fun p => p.2.getD k 0 * basis o xs p.1 x)).sum := by
  induction pts generalizing res with
  | nil => simp [interpAux]
  | cons p rest ih =>
    rw [interpAux, ih _ (by rw [accum_length]; exact hk), accum_getD L _ _ _ _ hk]
    simp [add_assoc]

theorem interpolate_getD (L : FLawful o) (pts : List (F × List F)) (x : F) (k : Nat)
    (hk : k < (interpolate o pts x).length) :
    (interpolate o pts x).getD k 0 =
      (pts.map (fun p => p.2.getD k 0 * basis o (pts.map (·.1)) p.1 x)).sum := by
  unfold interpolate at hk ⊢
  rw [interpAux_length] at hk
  rw [interpAux_getD L _ _ _ _ _ hk]
  simp only [List.length_replicate] at hk
  simp [L.zero, hk]

/-- **Bridging lemma**: `_interpolate` through the points `(v i, val i)`, `i ∈ idx`, evaluated away from the nodes,
    is coordinate-wise Mathlib's Lagrange interpolant. -/
theorem interpolate_eq_lagrange {ι : Type} [DecidableEq ι] (L : FLawful o) (v : ι → F) (val : ι → List F)
    (idx : List ι) (hnd : idx.Nodup) (hinj : Set.InjOn v {i | i ∈ idx}) (x : F)
    (hx : ∀ j ∈ idx, x ≠ v j) (k : Nat)
    (hk : k < (interpolate o (idx.map fun i => (v i, val i)) x).length) :
    (interpolate o (idx.map fun i => (v i, val i)) x).getD k 0 =
      eval x (Lagrange.interpolate idx.toFinset v (fun i => (val i).getD k 0)) := by
  rw [interpolate_getD L _ _ _ hk, List.map_map, List.map_map, Lagrange.interpolate_apply,
    eval_finsetSum, ← List.sum_toFinset _ hnd]
  apply Finset.sum_congr rfl
  intro i hi
  have hb := basis_eq_eval L v idx hnd hinj i (List.mem_toFinset.mp hi) x hx
  simp only [Function.comp] at hb ⊢
  rw [eval_mul, eval_C]
  congr 1

end VectorField

section Split
set_option linter.unusedSectionVars false
variable {F : Type} [Field F] [DecidableEq F] {o : FOps F}

theorem ext_getD {l₁ l₂ : List F} (hl : l₁.length = l₂.length)
    (h : ∀ k < l₂.length, l₁.getD k 0 = l₂.getD k 0) : l₁ = l₂ := by
  apply List.ext_getElem hl
  intro k h1 h2
  have := h k h2
  simpa [h1, h2] using this

/-- the embedding of x-coordinates is injective on member indexes, `DIGEST_X` and `SECRET_X` -/
def XInj (o : FOps F) : Prop :=
  ∀ i j, (i < 16 ∨ i = 254 ∨ i = 255) → (j < 16 ∨ j = 254 ∨ j = 255) → o.x i = o.x j → i = j

/-- the x-coordinates (as integers) of `basePoints` -/
def baseIdx (t : Nat) : List Nat :=
  List.range (t - 2) ++ [Gen.Slip39.DIGEST_X, Gen.Slip39.SECRET_X]

/-- the value vector `basePoints` attaches to x-coordinate `i` -/
def baseVal (secret : List F) (rnd : List (List F)) (ds : List F) (i : Nat) : List F :=
  if i = Gen.Slip39.SECRET_X then secret else if i = Gen.Slip39.DIGEST_X then ds else rnd.getD i []

theorem mem_baseIdx {t i : Nat} : i ∈ baseIdx t ↔ i < t - 2 ∨ i = 254 ∨ i = 255 := by
  simp [baseIdx, Gen.Slip39.DIGEST_X, Gen.Slip39.SECRET_X]

theorem baseIdx_nodup {t : Nat} (ht : t ≤ 16) : (baseIdx t).Nodup := by
  rw [baseIdx, List.nodup_append]
  refine ⟨List.nodup_range, by decide, ?_⟩
  intro a ha b hb
  simp [Gen.Slip39.DIGEST_X, Gen.Slip39.SECRET_X] at ha hb
  omega

theorem baseIdx_length {t : Nat} (h2 : 2 ≤ t) : (baseIdx t).length = t := by
  simp [baseIdx]; omega

theorem baseIdx_card {t : Nat} (h2 : 2 ≤ t) (ht : t ≤ 16) : (baseIdx t).toFinset.card = t := by
  rw [List.toFinset_card_of_nodup (baseIdx_nodup ht), baseIdx_length h2]

theorem baseIdx_injOn {t : Nat} (ht : t ≤ 16) (hx : XInj o) : Set.InjOn o.x {i | i ∈ baseIdx t} := by
  intro i hi j hj e
  simp only [Set.mem_ofPred_eq, mem_baseIdx] at hi hj
  exact hx i j (by omega) (by omega) e

theorem basePoints_eq {t : Nat} (ht : t ≤ 16) (secret : List F) (rnd : List (List F)) (ds : List F)
    (hlen : rnd.length = t - 2) :
    basePoints o secret rnd ds = (baseIdx t).map (fun i => (o.x i, baseVal secret rnd ds i)) := by
  rw [basePoints, baseIdx, List.map_append]
  congr 1
  · apply List.ext_getElem
    · simp [hlen]
    · intro i h1 h2
      have hi : i < rnd.length := by simpa using h1
      have h254 : i ≠ Gen.Slip39.DIGEST_X := by simp [Gen.Slip39.DIGEST_X]; omega
      have h255 : i ≠ Gen.Slip39.SECRET_X := by simp [Gen.Slip39.SECRET_X]; omega
      simp [baseVal, h254, h255, hi]

/-- coordinate `k` of the polynomial `_split_secret` draws the shares from -/
noncomputable def basePoly (o : FOps F) (t : Nat) (secret : List F) (rnd : List (List F)) (ds : List F)
    (k : Nat) : F[X] :=
  Lagrange.interpolate (baseIdx t).toFinset o.x (fun i => (baseVal secret rnd ds i).getD k 0)

theorem basePoly_degree {t : Nat} (h2 : 2 ≤ t) (ht : t ≤ 16) (hx : XInj o) (secret : List F)
    (rnd : List (List F)) (ds : List F) (k : Nat) :
    (basePoly o t secret rnd ds k).degree < t := by
  have h := Lagrange.degree_interpolate_lt (s := (baseIdx t).toFinset) (v := o.x)
    (fun i => (baseVal secret rnd ds i).getD k 0)
    (by simpa using baseIdx_injOn ht hx)
  rwa [baseIdx_card h2 ht] at h

theorem basePoly_eval_node {t : Nat} (ht : t ≤ 16) (hx : XInj o) (secret : List F)
    (rnd : List (List F)) (ds : List F) (k i : Nat) (hi : i ∈ baseIdx t) :
    eval (o.x i) (basePoly o t secret rnd ds k) = (baseVal secret rnd ds i).getD k 0 :=
  Lagrange.eval_interpolate_at_node _ (by simpa using baseIdx_injOn ht hx) (List.mem_toFinset.mpr hi)

end Split
section Shape
variable {α : Type} [DecidableEq α] {o : FOps α}
theorem interpolate_basePoints_length (secret ds : List α) (rnd : List (List α))
    (hr : ∀ r ∈ rnd, r.length = secret.length) (hds : ds.length = secret.length) (x : α) :
    (interpolate o (basePoints o secret rnd ds) x).length = secret.length := by
  rw [interpolate_length]
  cases rnd with
  | nil => simp [basePoints, hds]
  | cons r rs => simp [basePoints, List.zipIdx_cons, hr r (List.mem_cons_self ..)]

theorem splitSecret_ok {t n : Nat} {secret ds : List α} {rnd shares : List (List α)} (h2 : 2 ≤ t)
    (h : splitSecret o t n secret rnd ds = .ok shares) :
    shares = rnd ++ (List.range' (t - 2) (n - (t - 2))).map
      (fun i => interpolate o (basePoints o secret rnd ds) (o.x i)) := by
  unfold splitSecret at h
  split_ifs at h with h1 h3
  · omega
  · simpa using h.symm

theorem splitSecret_bounds {t n : Nat} {secret ds : List α} {rnd shares : List (List α)}
    (h : splitSecret o t n secret rnd ds = .ok shares) : 0 < t ∧ t ≤ n ∧ n ≤ 16 := by
  unfold splitSecret at h
  split_ifs at h with h1 h3
  · simpa [Gen.Slip39.MAX_SHARE_COUNT] using h1
  · simpa [Gen.Slip39.MAX_SHARE_COUNT] using h1

omit [DecidableEq α] in
theorem shares_getD_lt {t n : Nat} {rnd shares : List (List α)} {g : Nat → List α}
    (h : shares = rnd ++ (List.range' (t - 2) (n - (t - 2))).map g) (hlen : rnd.length = t - 2)
    (i : Nat) (hi : i < t - 2) : shares.getD i [] = rnd.getD i [] := by
  subst h
  simp [List.getElem?_append_left, hlen, hi]

omit [DecidableEq α] in
theorem shares_getD_ge {t n : Nat} {rnd shares : List (List α)} {g : Nat → List α}
    (h : shares = rnd ++ (List.range' (t - 2) (n - (t - 2))).map g) (hlen : rnd.length = t - 2)
    (i : Nat) (hi1 : t - 2 ≤ i) (hi2 : i < n) : shares.getD i [] = g i := by
  subst h
  have : i - (t - 2) < n - (t - 2) := by omega
  simp [List.getElem?_append_right, hlen, hi1, this]


/-- threshold 1: every share is the secret, `_recover_secret` returns it (no arithmetic involved) -/
theorem recoverSecret_threshold_one (o : FOps α) (digest : List α → List α → List α) {n : Nat}
    {secret ds : List α} {rnd shares : List (List α)}
    (h : splitSecret o 1 n secret rnd ds = .ok shares) (i : Nat) (hi : i < n) :
    recoverSecret o digest 1 [(o.x i, shares.getD i [])] = .ok secret := by
  unfold splitSecret at h
  split_ifs at h with h1 h3
  · have hs : shares = List.replicate n secret := by simpa using h.symm
    subst hs
    simp [recoverSecret, hi]
  · exact absurd rfl h3

theorem splitSecret_isOk (o : FOps α) {t n : Nat} (ht : 0 < t) (htn : t ≤ n) (hn : n ≤ 16)
    (secret ds : List α) (rnd : List (List α)) : ∃ shares, splitSecret o t n secret rnd ds = .ok shares := by
  unfold splitSecret
  rw [if_neg (by simp [Gen.Slip39.MAX_SHARE_COUNT]; omega)]
  split_ifs <;> exact ⟨_, rfl⟩

theorem splitSecret_one {o : FOps α} {n : Nat} {secret ds : List α} {rnd shares : List (List α)}
    (h : splitSecret o 1 n secret rnd ds = .ok shares) : shares = List.replicate n secret := by
  unfold splitSecret at h
  split_ifs at h with h1 h3
  · simpa using h.symm
  · exact absurd rfl h3

theorem splitSecret_length {o : FOps α} {t n : Nat} {secret ds : List α} {rnd shares : List (List α)}
    (hlen : rnd.length = t - 2) (h : splitSecret o t n secret rnd ds = .ok shares) :
    shares.length = n := by
  obtain ⟨h0, htn, _⟩ := splitSecret_bounds h
  by_cases h1 : t = 1
  · subst h1
    simp [splitSecret_one h]
  · rw [splitSecret_ok (by omega) h]
    simp [hlen]
    omega

theorem splitSecret_share_length {o : FOps α} {t n : Nat} {secret ds : List α}
    {rnd shares : List (List α)} (hr : ∀ r ∈ rnd, r.length = secret.length)
    (hds : ds.length = secret.length) (h : splitSecret o t n secret rnd ds = .ok shares) :
    ∀ s ∈ shares, s.length = secret.length := by
  intro s hs
  obtain ⟨h0, htn, _⟩ := splitSecret_bounds h
  by_cases h1 : t = 1
  · subst h1
    rw [splitSecret_one h] at hs
    rw [(List.mem_replicate.mp hs).2]
  · rw [splitSecret_ok (by omega) h] at hs
    rcases List.mem_append.mp hs with hs | hs
    · exact hr s hs
    · obtain ⟨i, _, rfl⟩ := List.mem_map.mp hs
      exact interpolate_basePoints_length secret ds rnd hr hds _

end Shape
section Recover
set_option linter.unusedSectionVars false
variable {F : Type} [Field F] [DecidableEq F] {o : FOps F}

theorem interpolate_basePoints_getD (L : FLawful o) {t : Nat} (ht : t ≤ 16) (hx : XInj o)
    (secret ds : List F) (rnd : List (List F)) (hlen : rnd.length = t - 2)
    (hr : ∀ r ∈ rnd, r.length = secret.length) (hds : ds.length = secret.length)
    (i : Nat) (hi1 : t - 2 ≤ i) (hi2 : i < 16) (k : Nat) (hk : k < secret.length) :
    (interpolate o (basePoints o secret rnd ds) (o.x i)).getD k 0 =
      eval (o.x i) (basePoly o t secret rnd ds k) := by
  have hlen' := interpolate_basePoints_length (o := o) secret ds rnd hr hds (o.x i)
  rw [basePoints_eq ht secret rnd ds hlen] at hlen' ⊢
  refine interpolate_eq_lagrange L o.x _ (baseIdx t) (baseIdx_nodup ht) (baseIdx_injOn ht hx) (o.x i)
    ?_ k (by rw [hlen']; exact hk)
  intro j hj e
  rw [mem_baseIdx] at hj
  have := hx i j (Or.inl hi2) (by omega) e
  omega

theorem share_spec (L : FLawful o) {t n : Nat} (h2 : 2 ≤ t) (hn : n ≤ 16) (hx : XInj o)
    {secret ds : List F} {rnd shares : List (List F)} (hlen : rnd.length = t - 2)
    (hr : ∀ r ∈ rnd, r.length = secret.length) (hds : ds.length = secret.length)
    (h : splitSecret o t n secret rnd ds = .ok shares) (i : Nat) (hi : i < n) :
    (shares.getD i []).length = secret.length ∧
      ∀ k < secret.length,
        (shares.getD i []).getD k 0 = eval (o.x i) (basePoly o t secret rnd ds k) := by
  have hs := splitSecret_ok h2 h
  have htn := (splitSecret_bounds h).2.1
  have ht : t ≤ 16 := by omega
  by_cases hit : i < t - 2
  · rw [shares_getD_lt hs hlen i hit]
    have hi' : i < rnd.length := by omega
    have hg : rnd.getD i [] = rnd[i] := by simp [hi']
    refine ⟨by rw [hg]; exact hr _ (List.getElem_mem _), fun k _ => ?_⟩
    rw [basePoly_eval_node ht hx secret rnd ds k i (mem_baseIdx.mpr (Or.inl hit))]
    have h254 : i ≠ Gen.Slip39.DIGEST_X := by simp [Gen.Slip39.DIGEST_X]; omega
    have h255 : i ≠ Gen.Slip39.SECRET_X := by simp [Gen.Slip39.SECRET_X]; omega
    simp [baseVal, h254, h255]
  · rw [shares_getD_ge hs hlen i (by omega) hi]
    exact ⟨interpolate_basePoints_length secret ds rnd hr hds _, fun k hk =>
      interpolate_basePoints_getD L ht hx secret ds rnd hlen hr hds i (by omega) (by omega) k hk⟩

/-- interpolating any `t` distinct shares at `DIGEST_X` / `SECRET_X` gives back the base point there -/
theorem select_interpolate (L : FLawful o) {t n : Nat} (h2 : 2 ≤ t) (hx : XInj o)
    {secret ds : List F} {rnd shares : List (List F)} (hlen : rnd.length = t - 2)
    (hr : ∀ r ∈ rnd, r.length = secret.length) (hds : ds.length = secret.length)
    (h : splitSecret o t n secret rnd ds = .ok shares)
    (sel : List Nat) (hnd : sel.Nodup) (hsl : sel.length = t) (hsn : ∀ i ∈ sel, i < n)
    (X : Nat) (hX : X = 254 ∨ X = 255) :
    interpolate o (sel.map fun i => (o.x i, shares.getD i [])) (o.x X) = baseVal secret rnd ds X := by
  obtain ⟨_, htn, hn⟩ := splitSecret_bounds h
  have ht : t ≤ 16 := by omega
  have hspec := share_spec L h2 hn hx hlen hr hds h
  have hbl : (baseVal secret rnd ds X).length = secret.length := by
    rcases hX with rfl | rfl <;> simp [baseVal, Gen.Slip39.SECRET_X, Gen.Slip39.DIGEST_X, hds]
  have hil : (interpolate o (sel.map fun i => (o.x i, shares.getD i [])) (o.x X)).length
      = secret.length := by
    rw [interpolate_length]
    cases sel with
    | nil => simp at hsl; omega
    | cons i0 rest => simpa using (hspec i0 (hsn i0 (List.mem_cons_self ..))).1
  have hinj : Set.InjOn o.x {i | i ∈ sel} := by
    intro i hi j hj e
    simp only [Set.mem_ofPred_eq] at hi hj
    have := hsn i hi
    have := hsn j hj
    exact hx i j (by omega) (by omega) e
  have hXb : X ∈ baseIdx t := mem_baseIdx.mpr (Or.inr hX)
  apply ext_getD (by rw [hil, hbl])
  intro k hk
  rw [hbl] at hk
  rw [interpolate_eq_lagrange L o.x (fun i => shares.getD i []) sel hnd hinj (o.x X) ?_ k
    (by rw [hil]; exact hk)]
  · have hpoly : basePoly o t secret rnd ds k =
        Lagrange.interpolate sel.toFinset o.x (fun i => (shares.getD i []).getD k 0) := by
      apply Lagrange.eq_interpolate_of_eval_eq _ (by simpa using hinj)
      · rw [List.toFinset_card_of_nodup hnd, hsl]
        exact basePoly_degree h2 ht hx secret rnd ds k
      · intro i hi
        exact ((hspec i (hsn i (List.mem_toFinset.mp hi))).2 k hk).symm
    rw [← hpoly, basePoly_eval_node ht hx secret rnd ds k X hXb]
  · intro j hj e
    have := hsn j hj
    have := hx X j (by omega) (by omega) e
    omega

/-- **T3**: any `t` of the `n` shares made by `_split_secret`, in any order, interpolate to the secret at
    `SECRET_X` and to the digest share at `DIGEST_X`. -/
theorem splitSecret_recovers (L : FLawful o) {t n : Nat} (h2 : 2 ≤ t)
    (hx : ∀ i j, (i < 16 ∨ i = 254 ∨ i = 255) → (j < 16 ∨ j = 254 ∨ j = 255) → o.x i = o.x j → i = j)
    {secret ds : List F} {rnd shares : List (List F)} (hlen : rnd.length = t - 2)
    (hr : ∀ r ∈ rnd, r.length = secret.length) (hds : ds.length = secret.length)
    (h : splitSecret o t n secret rnd ds = .ok shares)
    (sel : List Nat) (hnd : sel.Nodup) (hsl : sel.length = t) (hsn : ∀ i ∈ sel, i < n) :
    interpolate o (sel.map fun i => (o.x i, shares.getD i [])) (o.x Gen.Slip39.SECRET_X) = secret ∧
    interpolate o (sel.map fun i => (o.x i, shares.getD i [])) (o.x Gen.Slip39.DIGEST_X) = ds := by
  constructor
  · rw [show Gen.Slip39.SECRET_X = 255 from rfl,
      select_interpolate L h2 hx hlen hr hds h sel hnd hsl hsn 255 (Or.inr rfl)]
    simp [baseVal, Gen.Slip39.SECRET_X]
  · rw [show Gen.Slip39.DIGEST_X = 254 from rfl,
      select_interpolate L h2 hx hlen hr hds h sel hnd hsl hsn 254 (Or.inl rfl)]
    simp [baseVal, Gen.Slip39.SECRET_X, Gen.Slip39.DIGEST_X]

/-- `_recover_secret` inverts `_split_secret` on any `t` distinct shares (threshold ≥ 2) -/
theorem recoverSecret_splitSecret (L : FLawful o) (digest : List F → List F → List F) {t n : Nat}
    (h2 : 2 ≤ t)
    (hx : ∀ i j, (i < 16 ∨ i = 254 ∨ i = 255) → (j < 16 ∨ j = 254 ∨ j = 255) → o.x i = o.x j → i = j)
    {secret ds rp : List F} {rnd shares : List (List F)} (hlen : rnd.length = t - 2)
    (hr : ∀ r ∈ rnd, r.length = secret.length) (hds : ds.length = secret.length)
    (hdig : ds = digest rp secret ++ rp) (hdl : (digest rp secret).length = Gen.Slip39.DIGEST_BYTES)
    (h : splitSecret o t n secret rnd ds = .ok shares)
    (sel : List Nat) (hnd : sel.Nodup) (hsl : sel.length = t) (hsn : ∀ i ∈ sel, i < n) :
    recoverSecret o digest t (sel.map fun i => (o.x i, shares.getD i [])) = .ok secret := by
  obtain ⟨e1, e2⟩ := splitSecret_recovers L h2 hx hlen hr hds h sel hnd hsl hsn
  unfold recoverSecret
  rw [if_neg (by omega : ¬ t = 1)]
  simp only [e1, e2]
  subst hdig
  rw [List.take_left' hdl, List.drop_left' hdl]
  simp

end Recover


section Keyed
variable {F : Type} [Field F] [DecidableEq F] {o : FOps F}

omit [Field F] in
theorem lookup_of_mem {β : Type} (l : List (F × β)) (hnd : (l.map (·.1)).Nodup) (a : F) (b : β)
    (h : (a, b) ∈ l) : l.lookup a = some b := by
  induction l with
  | nil => simp at h
  | cons p rest ih =>
    obtain ⟨a', b'⟩ := p
    simp only [List.map_cons, List.nodup_cons] at hnd
    rcases List.mem_cons.mp h with e | hm
    · cases e; simp
    · have hne : a ≠ a' := by
        intro e; subst e; exact hnd.1 (List.mem_map.mpr ⟨(a, b), hm, rfl⟩)
      have hb : (a == a') = false := by simpa using hne
      simp [List.lookup_cons, hb, ih hnd.2 hm]

/-- the bridging lemma with the points keyed by their field x-coordinates -/
theorem interpolate_eq_lagrange_keyed (L : FLawful o) (points : List (F × List F))
    (hnd : (points.map (·.1)).Nodup) (x : F) (hx : x ∉ points.map (·.1)) (k : Nat)
    (hk : k < (interpolate o points x).length) :
    (interpolate o points x).getD k 0 =
      eval x (Lagrange.interpolate (points.map (·.1)).toFinset id
        (fun xi => ((points.lookup xi).getD []).getD k 0)) := by
  have hp : points = (points.map (·.1)).map (fun xi => (id xi, (points.lookup xi).getD [])) := by
    rw [List.map_map]
    conv_lhs => rw [← List.map_id points]
    apply List.map_congr_left
    intro p hp
    obtain ⟨a, b⟩ := p
    simp [lookup_of_mem points hnd a b hp]
  have := interpolate_eq_lagrange L id (fun xi => (points.lookup xi).getD []) (points.map (·.1)) hnd
    (Function.injective_id.injOn) x (fun j hj e => hx (e ▸ hj)) k (by rw [← hp]; exact hk)
  rw [← hp] at this
  exact this

omit [Field F] in
theorem interpolate_length_of_forall (o : FOps F) (points : List (F × List F)) (x : F) (n : Nat)
    (hne : points ≠ []) (hl : ∀ p ∈ points, p.2.length = n) : (interpolate o points x).length = n := by
  rw [interpolate_length]
  cases points with
  | nil => exact absurd rfl hne
  | cons p _ => exact hl p (List.mem_cons_self ..)

end Keyed

section Example

/-- the rationals as an `FOps` (for non-vacuity examples) -/
def ratOps : FOps ℚ := ⟨0, 1, (· + ·), (· - ·), (· * ·), (· / ·), fun n => (n : ℚ)⟩

theorem ratOps_lawful : FLawful ratOps :=
  ⟨rfl, rfl, fun _ _ => rfl, fun _ _ => rfl, fun _ _ => rfl, fun _ _ _ _ => rfl⟩

theorem ratOps_xinj : XInj ratOps := fun _ _ _ _ e => Nat.cast_injective e

/-- the hypotheses of `recoverSecret_splitSecret` are satisfiable: threshold 3 of 5, 5-element secret,
    shares 4, 0, 2 in that order -/
example : ∃ shares, splitSecret ratOps 3 5 [5, 7, 1, 2, 3] [[1, 1, 1, 1, 1]] ([1, 2, 3, 4] ++ [9]) = .ok shares ∧
    recoverSecret ratOps (fun _ _ => [1, 2, 3, 4]) 3
      ([4, 0, 2].map fun i => (ratOps.x i, shares.getD i [])) = .ok [5, 7, 1, 2, 3] := by
  obtain ⟨shares, h⟩ := splitSecret_isOk ratOps (t := 3) (n := 5) (by decide) (by decide) (by decide)
    [5, 7, 1, 2, 3] ([1, 2, 3, 4] ++ [9]) [[1, 1, 1, 1, 1]]
  exact ⟨shares, h, recoverSecret_splitSecret ratOps_lawful _ (by decide) ratOps_xinj (n := 5) (rp := [9])
    (secret := [5, 7, 1, 2, 3]) (ds := [1, 2, 3, 4] ++ [9])
    (rnd := [[1, 1, 1, 1, 1]]) rfl
    (by simp) rfl rfl rfl h [4, 0, 2] (by decide) rfl (by decide)⟩

end Example
end Btc.C13
