import Proofs.C13.Gf256
import Proofs.C13.Shamir
import Mathlib.Algebra.Field.Defs
/-
T2 (continued): bytes with XOR / `_mul` / `_div` form a field (`instance : Field GF256`), and `gf256Ops` — the
arithmetic the driver runs — is `FLawful`: every theorem of `Proofs/C13/Shamir.lean` applies to it.
-/
namespace Btc.C13
open Gen.Slip39

/-! ### the field of bytes -/

namespace GF256

theorem ext' {a b : GF256} (h : a.val = b.val) : a = b := by
  cases a; cases b; simp at h; subst h; rfl

theorem ofNat_val {n : Nat} (h : n < 256) : (ofNat n).val = n := Nat.mod_eq_of_lt h

theorem mul_val (a b : GF256) : (mul a b).val = tmul a.val b.val :=
  Nat.mod_eq_of_lt (tmul_lt a.lt b.lt)

theorem div_val (a b : GF256) : (div a b).val = tdiv a.val b.val :=
  Nat.mod_eq_of_lt (tdiv_lt _ _)

theorem add_val (a b : GF256) : (add a b).val = a.val ^^^ b.val := rfl

def inv (a : GF256) : GF256 := if a.val = 0 then ofNat 0 else div (ofNat 1) a

instance : Zero GF256 := ⟨ofNat 0⟩
instance : One GF256 := ⟨ofNat 1⟩
instance : Add GF256 := ⟨add⟩
instance : Mul GF256 := ⟨mul⟩
instance : Neg GF256 := ⟨id⟩
instance : Inv GF256 := ⟨inv⟩

instance : Field GF256 where
  add := (· + ·)
  zero := 0
  neg := (- ·)
  mul := (· * ·)
  one := 1
  inv := (·⁻¹)
  sub := fun a b => a + -b
  sub_eq_add_neg := fun _ _ => rfl
  nsmul := nsmulRec
  nsmul_zero := fun _ => rfl
  nsmul_succ := fun _ _ => rfl
  zsmul := zsmulRec
  zsmul_zero' := fun _ => rfl
  zsmul_succ' := fun _ _ => rfl
  zsmul_neg' := fun _ _ => rfl
  add_assoc a b c := ext' (Nat.xor_assoc _ _ _)
  zero_add a := ext' (Nat.zero_xor _)
  add_zero a := ext' (Nat.xor_zero _)
  add_comm a b := ext' (Nat.xor_comm _ _)
  neg_add_cancel a := ext' (Nat.xor_self _)
  mul_assoc a b c := ext' (by
    show (mul (mul a b) c).val = (mul a (mul b c)).val
    rw [mul_val, mul_val, mul_val, mul_val]; exact tmul_assoc a.lt b.lt c.lt)
  mul_comm a b := ext' (by
    show (mul a b).val = (mul b a).val
    rw [mul_val, mul_val]; exact tmul_comm _ _)
  one_mul a := ext' (by
    show (mul (ofNat 1) a).val = a.val
    rw [mul_val]; exact tmul_one_left a.lt)
  mul_one a := ext' (by
    show (mul a (ofNat 1)).val = a.val
    rw [mul_val, tmul_comm]; exact tmul_one_left a.lt)
  zero_mul a := ext' (by
    show (mul (ofNat 0) a).val = (ofNat 0).val
    rw [mul_val]; exact tmul_zero_left _)
  mul_zero a := ext' (by
    show (mul a (ofNat 0)).val = (ofNat 0).val
    rw [mul_val]; exact tmul_zero_right _)
  left_distrib a b c := ext' (by
    show (mul a (add b c)).val = (add (mul a b) (mul a c)).val
    rw [mul_val, add_val, add_val, mul_val, mul_val]; exact tmul_xor a.lt b.lt c.lt)
  right_distrib a b c := ext' (by
    show (mul (add a b) c).val = (add (mul a c) (mul b c)).val
    rw [mul_val, add_val, add_val, mul_val, mul_val, tmul_comm, tmul_comm a.val, tmul_comm b.val]
    exact tmul_xor c.lt a.lt b.lt)
  exists_pair_ne := ⟨ofNat 0, ofNat 1, by intro h; have := congrArg GF256.val h; simp [ofNat] at this⟩
  mul_inv_cancel a h := ext' (by
    have h0 : a.val ≠ 0 := by
      intro e; apply h; exact ext' e
    show (mul a (inv a)).val = (ofNat 1).val
    rw [mul_val, inv, if_neg h0, div_val]
    exact tmul_tdiv_one a.lt h0)
  inv_zero := by
    show inv (ofNat 0) = ofNat 0
    simp [inv, ofNat]
  nnqsmul := _
  nnqsmul_def := fun _ _ => rfl
  qsmul := _
  qsmul_def := fun _ _ => rfl

theorem zero_def : (0 : GF256) = ofNat 0 := rfl
theorem one_def : (1 : GF256) = ofNat 1 := rfl
theorem add_def (a b : GF256) : a + b = add a b := rfl
theorem mul_def (a b : GF256) : a * b = mul a b := rfl
theorem neg_def (a : GF256) : -a = a := rfl
theorem inv_def (a : GF256) : a⁻¹ = inv a := rfl

theorem ne_zero_iff (a : GF256) : a ≠ 0 ↔ a.val ≠ 0 := by
  constructor
  · intro h e; exact h (ext' e)
  · intro h e; exact h (congrArg GF256.val e)

end GF256

/-- the arithmetic the driver runs (`gf256Ops`: XOR, `_mul`, `_div` on the generated tables) is that of the field -/
theorem gf256Ops_lawful : FLawful gf256Ops where
  zero := rfl
  one := rfl
  add _ _ := rfl
  sub a b := by
    show GF256.add a b = a - b
    rw [sub_eq_add_neg, GF256.neg_def]; rfl
  mul _ _ := rfl
  div a b ha hb := by
    show GF256.div a b = a / b
    rw [div_eq_mul_inv, GF256.inv_def, GF256.mul_def]
    have ha0 := (GF256.ne_zero_iff a).1 ha
    have hb0 := (GF256.ne_zero_iff b).1 hb
    apply GF256.ext'
    rw [GF256.div_val, GF256.mul_val, GF256.inv, if_neg hb0, GF256.div_val]
    exact tdiv_eq_tmul a.lt ha0 b.lt hb0

/-- distinct x-coordinates (member / group indexes, 254, 255) are distinct field elements -/
theorem gf256Ops_xinj (i j : Nat) (hi : i < 16 ∨ i = 254 ∨ i = 255) (hj : j < 16 ∨ j = 254 ∨ j = 255)
    (h : gf256Ops.x i = gf256Ops.x j) : i = j := by
  have := congrArg GF256.val h
  simp only [gf256Ops, GF256.ofNat] at this
  omega

end Btc.C13
