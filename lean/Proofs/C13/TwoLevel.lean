import Model.C13.Generate
import Proofs.C13.Shamir
/-
C13 / T6: the two-level SLIP39 scheme end to end.  Any selection of shares of the table made by
`mnemonics_from_master_secret` (`makeShares`) that meets the group threshold and, in each chosen group, the member
threshold exactly -- in any order -- is recombined by `master_secret_from_mnemonics` (`recoverEms`) into the
encrypted master secret.  Arbitrary field (`FLawful`, `XInj`), arbitrary digest function, thresholds 1 allowed.
-/
namespace Btc.C13

/-! ### `List.eraseDups` -/

section EraseDups
variable {β : Type} [DecidableEq β]

theorem mem_eraseDups_aux (n : Nat) : ∀ (l : List β), l.length ≤ n → ∀ x, x ∈ l.eraseDups ↔ x ∈ l := by
  induction n with
  | zero =>
    intro l hl x
    have : l = [] := List.length_eq_zero_iff.mp (by omega)
    subst this; simp
  | succ n ih =>
    intro l hl x
    cases l with
    | nil => simp
    | cons a as =>
      have hf : (as.filter fun b => !b == a).length ≤ n :=
        le_trans (List.length_filter_le _ _) (by simpa using hl)
      rw [List.eraseDups_cons, List.mem_cons, ih _ hf, List.mem_filter, List.mem_cons]
      by_cases h : x = a
      · simp [h]
      · simp [h]

theorem mem_eraseDups {l : List β} {x : β} : x ∈ l.eraseDups ↔ x ∈ l :=
  mem_eraseDups_aux l.length l le_rfl x

theorem nodup_eraseDups_aux (n : Nat) : ∀ (l : List β), l.length ≤ n → l.eraseDups.Nodup := by
  induction n with
  | zero =>
    intro l hl
    have : l = [] := List.length_eq_zero_iff.mp (by omega)
    subst this; simp
  | succ n ih =>
    intro l hl
    cases l with
    | nil => simp
    | cons a as =>
      have hf : (as.filter fun b => !b == a).length ≤ n :=
        le_trans (List.length_filter_le _ _) (by simpa using hl)
      rw [List.eraseDups_cons, List.nodup_cons]
      refine ⟨?_, ih _ hf⟩
      rw [mem_eraseDups, List.mem_filter]
      simp

theorem nodup_eraseDups (l : List β) : l.eraseDups.Nodup := nodup_eraseDups_aux l.length l le_rfl

theorem eraseDups_of_nodup {l : List β} (h : l.Nodup) : l.eraseDups = l := by
  induction l with
  | nil => rfl
  | cons a as ih =>
    rw [List.nodup_cons] at h
    have hf : (as.filter fun b => !b == a) = as := by
      rw [List.filter_eq_self]
      intro b hb
      have : b ≠ a := fun e => h.1 (e ▸ hb)
      simpa using this
    rw [List.eraseDups_cons, hf, ih h.2]

theorem eraseDups_const {l : List β} {a : β} (hne : l ≠ []) (h : ∀ x ∈ l, x = a) : l.eraseDups = [a] := by
  cases l with
  | nil => exact absurd rfl hne
  | cons b bs =>
    have hb : b = a := h b (List.mem_cons_self ..)
    subst hb
    have hf : (bs.filter fun x => !x == b) = [] := by
      rw [List.filter_eq_nil_iff]
      intro x hx
      simp [h x (List.mem_cons_of_mem _ hx)]
    rw [List.eraseDups_cons, hf]
    rfl

end EraseDups

/-! ### `mapM` of an everywhere-successful function -/

theorem mapM_except_ok {ε β γ : Type} (f : β → Except ε γ) (g : β → γ) (l : List β)
    (h : ∀ a ∈ l, f a = .ok (g a)) : l.mapM f = .ok (l.map g) := by
  induction l with
  | nil => rfl
  | cons a as ih =>
    rw [List.mapM_cons, h a (List.mem_cons_self ..), ih (fun b hb => h b (List.mem_cons_of_mem _ hb))]
    rfl

theorem mapM_option_some {β γ : Type} (f : β → Option γ) (g : β → γ) (l : List β)
    (h : ∀ a ∈ l, f a = some (g a)) : l.mapM f = some (l.map g) := by
  induction l with
  | nil => rfl
  | cons a as ih =>
    rw [List.mapM_cons, h a (List.mem_cons_self ..), ih (fun b hb => h b (List.mem_cons_of_mem _ hb))]
    rfl

/-! ### the recombination, abstractly -/

section Core
variable {α : Type} [DecidableEq α]

/-- the share `groupRow` makes for member `mi` of group `gi` -/
def mkShare (h : SetHeader) (gi mt mi : Nat) (v : List α) : Share α :=
  { identifier := h.identifier, extendable := h.extendable, iterationExponent := h.iterationExponent,
    groupIndex := gi, groupThreshold := h.groupThreshold, groupCount := h.groupCount,
    memberIndex := mi, memberThreshold := mt, value := v }

theorem recoverGroup_core (o : FOps α) (digest : List α → List α → List α) (hdr : SetHeader) (mt : Nat → Nat)
    (val : Nat × Nat → List α) (gvals : Nat → List α) (sel : List (Nat × Nat)) (hnd : sel.Nodup)
    (hmembers : ∀ g ∈ sel.map (·.1), (sel.filter (·.1 = g)).length = mt g)
    (G : ∀ g ∈ sel.map (·.1), ∀ msel : List Nat, msel.Nodup → msel.length = mt g →
      (∀ i ∈ msel, (g, i) ∈ sel) →
      recoverSecret o digest (mt g) (msel.map fun i => (o.x i, val (g, i))) = .ok (gvals g))
    (g : Nat) (hg : g ∈ sel.map (·.1)) :
    recoverGroup o digest (sel.map fun p => mkShare hdr p.1 (mt p.1) p.2 (val p)) g = .ok (o.x g, gvals g) := by
  have hfil : (sel.map fun p => mkShare hdr p.1 (mt p.1) p.2 (val p)).filter (·.groupIndex = g) =
      (sel.filter (·.1 = g)).map fun p => mkShare hdr p.1 (mt p.1) p.2 (val p) := by
    rw [List.filter_map]; rfl
  have hsg1 : ∀ p ∈ sel.filter (·.1 = g), p.1 = g := by
    intro p hp
    simpa using (List.mem_filter.mp hp).2
  have hsgsel : ∀ p ∈ sel.filter (·.1 = g), p ∈ sel := fun p hp => (List.mem_filter.mp hp).1
  have hsgne : sel.filter (·.1 = g) ≠ [] := by
    obtain ⟨p, hp, hpg⟩ := List.mem_map.mp hg
    exact List.ne_nil_of_mem (List.mem_filter.mpr ⟨hp, by simpa using hpg⟩)
  have hsgl := hmembers g hg
  have hsgnd0 : (sel.filter (·.1 = g)).Nodup := hnd.filter _
  generalize sel.filter (·.1 = g) = sg at hfil hsg1 hsgsel hsgne hsgl hsgnd0
  have hth : ((sg.map fun p => mkShare hdr p.1 (mt p.1) p.2 (val p)).map (·.memberThreshold)).eraseDups
      = [mt g] := by
    apply eraseDups_const (by simpa using hsgne)
    intro x hx
    simp only [List.map_map, List.mem_map, Function.comp] at hx
    obtain ⟨p, hp, rfl⟩ := hx
    simp [mkShare, hsg1 p hp]
  have hidx : (sg.map fun p => mkShare hdr p.1 (mt p.1) p.2 (val p)).map (·.memberIndex) = sg.map (·.2) := by
    rw [List.map_map]; rfl
  have hsgnd : (sg.map (·.2)).Nodup :=
    List.Nodup.map_on (fun p hp q hq e => Prod.ext (by rw [hsg1 p hp, hsg1 q hq]) e) hsgnd0
  have hpts : ((sg.map fun p => mkShare hdr p.1 (mt p.1) p.2 (val p)).map
      fun m => (o.x m.memberIndex, m.value)) = (sg.map (·.2)).map fun i => (o.x i, val (g, i)) := by
    rw [List.map_map, List.map_map]
    apply List.map_congr_left
    intro p hp
    have : p = (g, p.2) := Prod.ext (hsg1 p hp) rfl
    simp only [Function.comp, mkShare]
    rw [← this]
  have hG := G g hg (sg.map (·.2)) hsgnd (by simpa using hsgl) (by
    intro i hi
    obtain ⟨p, hp, rfl⟩ := List.mem_map.mp hi
    have : p = (g, p.2) := Prod.ext (hsg1 p hp) rfl
    rw [← this]; exact hsgsel p hp)
  unfold recoverGroup
  simp only [hfil, hth, hidx, eraseDups_of_nodup hsgnd, hpts, hG, List.length_map, hsgl]
  simp

omit [DecidableEq α] in
theorem commonField_of (shares : List (Share α)) (hne : shares ≠ []) (hdr : SetHeader) (len : Nat)
    (h : ∀ s ∈ shares, s.identifier = hdr.identifier ∧ s.extendable = hdr.extendable ∧
      s.iterationExponent = hdr.iterationExponent ∧ s.groupThreshold = hdr.groupThreshold ∧
      s.groupCount = hdr.groupCount ∧ s.value.length = len) : commonField shares = true := by
  cases shares with
  | nil => exact absurd rfl hne
  | cons f rest =>
    unfold commonField
    simp only
    rw [List.all_eq_true]
    intro s hs
    obtain ⟨a1, a2, a3, a4, a5, a6⟩ := h s hs
    obtain ⟨b1, b2, b3, b4, b5, b6⟩ := h f (List.mem_cons_self ..)
    simp [a1, a2, a3, a4, a5, a6, b1, b2, b3, b4, b5, b6]

theorem recoverEms_of (o : FOps α) (digest : List α → List α → List α) (shares : List (Share α))
    (first : Share α) (hfirst : shares.head? = some first) (hcf : commonField shares = true)
    (gs : List (α × List α)) (hgr : grouped o digest shares = .ok gs) (hl : gs.length = first.groupThreshold) :
    recoverEms o digest shares = recoverSecret o digest first.groupThreshold gs := by
  cases shares with
  | nil => simp at hfirst
  | cons f rest =>
    have : f = first := by simpa using hfirst
    subst this
    unfold recoverEms
    simp [hcf, hgr, hl]

/-- the recombination for a selection meeting the thresholds, given that every single Shamir recovery works -/
theorem recoverEms_core (o : FOps α) (digest : List α → List α → List α) (hdr : SetHeader) (mt : Nat → Nat)
    (val : Nat × Nat → List α) (gvals : Nat → List α) (ems : List α) (len : Nat)
    (sel : List (Nat × Nat)) (hne : sel ≠ []) (hnd : sel.Nodup)
    (hgroups : (sel.map (·.1)).eraseDups.length = hdr.groupThreshold)
    (hmembers : ∀ g ∈ sel.map (·.1), (sel.filter (·.1 = g)).length = mt g)
    (hlen : ∀ p ∈ sel, (val p).length = len)
    (G : ∀ g ∈ sel.map (·.1), ∀ msel : List Nat, msel.Nodup → msel.length = mt g →
      (∀ i ∈ msel, (g, i) ∈ sel) →
      recoverSecret o digest (mt g) (msel.map fun i => (o.x i, val (g, i))) = .ok (gvals g))
    (T : ∀ keys : List Nat, keys.Nodup → keys.length = hdr.groupThreshold →
      (∀ g ∈ keys, g ∈ sel.map (·.1)) →
      recoverSecret o digest hdr.groupThreshold (keys.map fun g => (o.x g, gvals g)) = .ok ems) :
    recoverEms o digest (sel.map fun p => mkShare hdr p.1 (mt p.1) p.2 (val p)) = .ok ems := by
  obtain ⟨p0, hp0⟩ : ∃ p0, sel.head? = some p0 := by
    cases sel with
    | nil => exact absurd rfl hne
    | cons p _ => exact ⟨p, rfl⟩
  have hkeys : groupKeys (sel.map fun p => mkShare hdr p.1 (mt p.1) p.2 (val p)) =
      (sel.map (·.1)).eraseDups := by
    unfold groupKeys; rw [List.map_map]; rfl
  have hgr : grouped o digest (sel.map fun p => mkShare hdr p.1 (mt p.1) p.2 (val p)) =
      .ok ((sel.map (·.1)).eraseDups.map fun g => (o.x g, gvals g)) := by
    unfold grouped
    rw [hkeys]
    exact mapM_except_ok _ _ _ fun g hg =>
      recoverGroup_core o digest hdr mt val gvals sel hnd hmembers G g (mem_eraseDups.mp hg)
  have hcf : commonField (sel.map fun p => mkShare hdr p.1 (mt p.1) p.2 (val p)) = true := by
    apply commonField_of _ (by simpa using hne) hdr len
    intro s hs
    obtain ⟨p, hp, rfl⟩ := List.mem_map.mp hs
    exact ⟨rfl, rfl, rfl, rfl, rfl, hlen p hp⟩
  rw [recoverEms_of o digest _ (mkShare hdr p0.1 (mt p0.1) p0.2 (val p0)) (by simp [hp0]) hcf _ hgr
    (by simpa [mkShare] using hgroups)]
  exact T _ (nodup_eraseDups _) hgroups fun g hg => mem_eraseDups.mp hg

/-! ### the shape of the share table -/

theorem splitWithDigest_shape (o : FOps α) (digest : List α → List α → List α)
    (hdl : ∀ rp s, (digest rp s).length = Gen.Slip39.DIGEST_BYTES) {t n : Nat} {secret rp : List α}
    {rnd shares : List (List α)}
    (hh : 2 ≤ t → rnd.length = t - 2 ∧ (∀ r ∈ rnd, r.length = secret.length) ∧
      rp.length + Gen.Slip39.DIGEST_BYTES = secret.length)
    (h : splitWithDigest o digest t n secret rnd rp = .ok shares) :
    shares.length = n ∧ ∀ s ∈ shares, s.length = secret.length := by
  unfold splitWithDigest at h
  obtain ⟨h0, _, _⟩ := splitSecret_bounds h
  by_cases h1 : t = 1
  · subst h1
    rw [splitSecret_one h]
    exact ⟨by simp, fun s hs => by rw [(List.mem_replicate.mp hs).2]⟩
  · obtain ⟨hlen, hr, hrp⟩ := hh (by omega)
    have hds : (digest rp secret ++ rp).length = secret.length := by
      rw [List.length_append, hdl]; omega
    exact ⟨splitSecret_length hlen h, splitSecret_share_length hr hds h⟩

theorem memberRows_spec (o : FOps α) (digest : List α → List α → List α) (h : SetHeader)
    (memberRnd : Nat → List (List α)) (memberRp : Nat → List α) :
    ∀ (gvs : List (List α)) (gi : Nat) (gs : List (Nat × Nat)) (rows : List (List (Share α))),
      gvs.length = gs.length → memberRows o digest h memberRnd memberRp gi gvs gs = .ok rows →
      rows.length = gs.length ∧ ∀ j, j < gs.length → ∃ values,
        splitWithDigest o digest (gs.getD j (0, 0)).1 (gs.getD j (0, 0)).2 (gvs.getD j [])
          (memberRnd (gi + j)) (memberRp (gi + j)) = .ok values ∧
        rows.getD j [] = groupRow h (gi + j) (gs.getD j (0, 0)).1 values := by
  intro gvs
  induction gvs with
  | nil =>
    intro gi gs rows hl hm
    cases gs with
    | nil =>
      have : rows = [] := by simpa [memberRows] using hm.symm
      subst this
      exact ⟨rfl, fun j hj => by simp at hj⟩
    | cons _ _ => simp at hl
  | cons gv gvs ih =>
    intro gi gs rows hl hm
    cases gs with
    | nil => simp at hl
    | cons g gs =>
      obtain ⟨mt, mc⟩ := g
      rw [memberRows] at hm
      cases hs : splitWithDigest o digest mt mc gv (memberRnd gi) (memberRp gi) with
      | error e => rw [hs] at hm; simp at hm
      | ok values =>
        rw [hs] at hm
        simp only at hm
        cases hr : memberRows o digest h memberRnd memberRp (gi + 1) gvs gs with
        | error e => rw [hr] at hm; simp at hm
        | ok rows' =>
          rw [hr] at hm
          simp only [Except.ok.injEq] at hm
          subst hm
          obtain ⟨ihl, ihj⟩ := ih (gi + 1) gs rows' (by simpa using hl) hr
          refine ⟨by simp [ihl], ?_⟩
          intro j hj
          cases j with
          | zero => exact ⟨values, by simpa using hs, by simp⟩
          | succ j =>
            obtain ⟨v, hv1, hv2⟩ := ihj j (by simpa using hj)
            have e : gi + 1 + j = gi + (j + 1) := by omega
            rw [e] at hv1 hv2
            exact ⟨v, by simpa using hv1, by simpa using hv2⟩

omit [DecidableEq α] in
theorem groupRow_getElem? (h : SetHeader) (gi mt : Nat) (values : List (List α)) (i : Nat)
    (hi : i < values.length) :
    (groupRow h gi mt values)[i]? = some (mkShare h gi mt i (values.getD i [])) := by
  simp [groupRow, mkShare, hi]

theorem memberRows_isOk (o : FOps α) (digest : List α → List α → List α) (h : SetHeader)
    (memberRnd : Nat → List (List α)) (memberRp : Nat → List α) :
    ∀ (gvs : List (List α)) (gi : Nat) (gs : List (Nat × Nat)),
      (∀ g ∈ gs, 0 < g.1 ∧ g.1 ≤ g.2 ∧ g.2 ≤ 16) →
      ∃ rows, memberRows o digest h memberRnd memberRp gi gvs gs = .ok rows := by
  intro gvs
  induction gvs with
  | nil => intro gi gs _; exact ⟨[], by simp [memberRows]⟩
  | cons gv gvs ih =>
    intro gi gs hgs
    cases gs with
    | nil => exact ⟨[], by simp [memberRows]⟩
    | cons g gs =>
      obtain ⟨mt, mc⟩ := g
      obtain ⟨h1, h2, h3⟩ := hgs (mt, mc) (List.mem_cons_self ..)
      obtain ⟨values, hv⟩ := splitSecret_isOk o h1 h2 h3 gv (digest (memberRp gi) gv ++ memberRp gi)
        (memberRnd gi)
      obtain ⟨rows, hr⟩ := ih (gi + 1) gs (fun g hg => hgs g (List.mem_cons_of_mem _ hg))
      refine ⟨groupRow h gi mt values :: rows, ?_⟩
      rw [memberRows, splitWithDigest, hv]
      simp only [hr]

theorem makeShares_isOk (o : FOps α) (digest : List α → List α → List α) (identifier : Nat)
    (extendable : Bool) (e gt : Nat) (groups : List (Nat × Nat)) (ems : List α) (groupRnd : List (List α))
    (groupRp : List α) (memberRnd : Nat → List (List α)) (memberRp : Nat → List α)
    (h0 : 0 < gt) (h1 : gt ≤ groups.length) (h2 : groups.length ≤ 16)
    (hgs : ∀ g ∈ groups, 0 < g.1 ∧ g.1 ≤ g.2 ∧ g.2 ≤ 16) :
    ∃ table, makeShares o digest identifier extendable e gt groups ems groupRnd groupRp memberRnd memberRp
      = .ok table := by
  obtain ⟨gv, hgv⟩ := splitSecret_isOk o h0 h1 h2 ems (digest groupRp ems ++ groupRp) groupRnd
  unfold makeShares
  rw [splitWithDigest, hgv]
  exact memberRows_isOk o digest _ memberRnd memberRp gv 0 groups hgs

omit [DecidableEq α] in
theorem getD_mem' (l : List (List α)) (i : Nat) (hi : i < l.length) : l.getD i [] ∈ l := by
  have : l.getD i [] = l[i] := by simp [hi]
  rw [this]; exact List.getElem_mem hi

end Core

/-! ### T6 -/

section Final
variable {F : Type} [Field F] [DecidableEq F] {o : FOps F}

/-- one Shamir level: any `t` distinct shares of `splitWithDigest` recover the secret (threshold 1 included) -/
theorem recoverSecret_splitWithDigest (L : FLawful o) (hx : XInj o) (digest : List F → List F → List F)
    (hdl : ∀ rp s, (digest rp s).length = Gen.Slip39.DIGEST_BYTES) {t n : Nat} {secret rp : List F}
    {rnd shares : List (List F)}
    (hh : 2 ≤ t → rnd.length = t - 2 ∧ (∀ r ∈ rnd, r.length = secret.length) ∧
      rp.length + Gen.Slip39.DIGEST_BYTES = secret.length)
    (h : splitWithDigest o digest t n secret rnd rp = .ok shares)
    (msel : List Nat) (hnd : msel.Nodup) (hsl : msel.length = t) (hsn : ∀ i ∈ msel, i < n) :
    recoverSecret o digest t (msel.map fun i => (o.x i, shares.getD i [])) = .ok secret := by
  unfold splitWithDigest at h
  obtain ⟨h0, _, _⟩ := splitSecret_bounds h
  by_cases h1 : t = 1
  · subst h1
    obtain ⟨i, rfl⟩ : ∃ i, msel = [i] := List.length_eq_one_iff.mp hsl
    exact recoverSecret_threshold_one o digest h i (hsn i (by simp))
  · obtain ⟨hlen, hr, hrp⟩ := hh (by omega)
    have hds : (digest rp secret ++ rp).length = secret.length := by
      rw [List.length_append, hdl]; omega
    exact recoverSecret_splitSecret L digest (by omega) hx hlen hr hds rfl (hdl _ _) h msel hnd hsl hsn

/-- T6 with the selection shown to exist in the table (so the hypothesis `hp` of `recoverEms_makeShares` is
    satisfiable for every selection in range) -/
theorem recoverEms_makeShares_exists (L : FLawful o) (hx : XInj o) (digest : List F → List F → List F)
    (hdl : ∀ rp s, (digest rp s).length = Gen.Slip39.DIGEST_BYTES)
    (identifier : Nat) (extendable : Bool) (e gt : Nat) (groups : List (Nat × Nat)) (ems : List F)
    (groupRnd : List (List F)) (groupRp : List F) (memberRnd : Nat → List (List F)) (memberRp : Nat → List F)
    (hgr : 2 ≤ gt → groupRnd.length = gt - 2 ∧ (∀ r ∈ groupRnd, r.length = ems.length) ∧
      groupRp.length + Gen.Slip39.DIGEST_BYTES = ems.length)
    (hmr : ∀ g, g < groups.length → 2 ≤ (groups.getD g (0, 0)).1 →
      (memberRnd g).length = (groups.getD g (0, 0)).1 - 2 ∧ (∀ r ∈ memberRnd g, r.length = ems.length) ∧
      (memberRp g).length + Gen.Slip39.DIGEST_BYTES = ems.length)
    {table : List (List (Share F))}
    (h : makeShares o digest identifier extendable e gt groups ems groupRnd groupRp memberRnd memberRp
      = .ok table)
    (sel : List (Nat × Nat)) (hne : sel ≠ []) (hnd : sel.Nodup)
    (hrange : ∀ p ∈ sel, p.1 < groups.length ∧ p.2 < (groups.getD p.1 (0, 0)).2)
    (hgroups : (sel.map (·.1)).eraseDups.length = gt)
    (hmembers : ∀ g ∈ sel.map (·.1), (sel.filter (·.1 = g)).length = (groups.getD g (0, 0)).1)
    : ∃ picked, sel.mapM (pick table) = some picked ∧ recoverEms o digest picked = .ok ems := by
  unfold makeShares at h
  cases hgv : splitWithDigest o digest gt groups.length ems groupRnd groupRp with
  | error err => rw [hgv] at h; simp at h
  | ok gv =>
    rw [hgv] at h
    simp only at h
    obtain ⟨hgvl, hgvs⟩ := splitWithDigest_shape o digest hdl hgr hgv
    obtain ⟨htl, hrows⟩ := memberRows_spec o digest _ memberRnd memberRp gv 0 groups table hgvl h
    simp only [Nat.zero_add] at hrows
    choose! vals hvals using hrows
    have hgl : ∀ g, g < groups.length → (gv.getD g []).length = ems.length := fun g hg =>
      hgvs _ (getD_mem' gv g (by omega))
    have hmh : ∀ g, g < groups.length → 2 ≤ (groups.getD g (0, 0)).1 →
        (memberRnd g).length = (groups.getD g (0, 0)).1 - 2 ∧
        (∀ r ∈ memberRnd g, r.length = (gv.getD g []).length) ∧
        (memberRp g).length + Gen.Slip39.DIGEST_BYTES = (gv.getD g []).length := by
      intro g hg h2
      rw [hgl g hg]
      exact hmr g hg h2
    have hshape := fun g (hg : g < groups.length) =>
      splitWithDigest_shape o digest hdl (hmh g hg) (hvals g hg).1
    have hpick : ∀ p ∈ sel, pick table p =
        some (mkShare ⟨identifier, extendable, e, gt, groups.length⟩ p.1 (groups.getD p.1 (0, 0)).1 p.2
          ((vals p.1).getD p.2 [])) := by
      intro p hp
      obtain ⟨hp1, hp2⟩ := hrange p hp
      unfold pick
      rw [(hvals p.1 hp1).2]
      exact groupRow_getElem? _ _ _ _ _ (by rw [(hshape p.1 hp1).1]; exact hp2)
    refine ⟨_, mapM_option_some _ _ sel hpick, ?_⟩
    have hmemN : ∀ g ∈ sel.map (·.1), g < groups.length := by
      intro g hg
      obtain ⟨p, hp, rfl⟩ := List.mem_map.mp hg
      exact (hrange p hp).1
    apply recoverEms_core o digest ⟨identifier, extendable, e, gt, groups.length⟩
      (fun g => (groups.getD g (0, 0)).1) (fun p => (vals p.1).getD p.2 []) (fun g => gv.getD g []) ems
      ems.length sel hne hnd hgroups hmembers
    · intro p hp
      obtain ⟨hp1, hp2⟩ := hrange p hp
      rw [(hshape p.1 hp1).2 _ (getD_mem' _ _ (by rw [(hshape p.1 hp1).1]; exact hp2)), hgl p.1 hp1]
    · intro g hg msel hmnd hml hmsel
      have hgN := hmemN g hg
      exact recoverSecret_splitWithDigest L hx digest hdl (hmh g hgN) (hvals g hgN).1 msel hmnd hml
        (fun i hi => (hrange (g, i) (hmsel i hi)).2)
    · intro keys hknd hkl hkmem
      exact recoverSecret_splitWithDigest L hx digest hdl hgr hgv keys hknd hkl
        (fun g hg => hmemN g (hkmem g hg))

/-- **T6**: `master_secret_from_mnemonics` recombines any selection of the shares of
    `mnemonics_from_master_secret` that meets the thresholds exactly, in any order -/
theorem recoverEms_makeShares (L : FLawful o) (hx : XInj o) (digest : List F → List F → List F)
    (hdl : ∀ rp s, (digest rp s).length = Gen.Slip39.DIGEST_BYTES)
    (identifier : Nat) (extendable : Bool) (e gt : Nat) (groups : List (Nat × Nat)) (ems : List F)
    (groupRnd : List (List F)) (groupRp : List F) (memberRnd : Nat → List (List F)) (memberRp : Nat → List F)
    (hgr : 2 ≤ gt → groupRnd.length = gt - 2 ∧ (∀ r ∈ groupRnd, r.length = ems.length) ∧
      groupRp.length + Gen.Slip39.DIGEST_BYTES = ems.length)
    (hmr : ∀ g, g < groups.length → 2 ≤ (groups.getD g (0, 0)).1 →
      (memberRnd g).length = (groups.getD g (0, 0)).1 - 2 ∧ (∀ r ∈ memberRnd g, r.length = ems.length) ∧
      (memberRp g).length + Gen.Slip39.DIGEST_BYTES = ems.length)
    {table : List (List (Share F))}
    (h : makeShares o digest identifier extendable e gt groups ems groupRnd groupRp memberRnd memberRp
      = .ok table)
    (sel : List (Nat × Nat)) (hne : sel ≠ []) (hnd : sel.Nodup)
    (hrange : ∀ p ∈ sel, p.1 < groups.length ∧ p.2 < (groups.getD p.1 (0, 0)).2)
    (hgroups : (sel.map (·.1)).eraseDups.length = gt)
    (hmembers : ∀ g ∈ sel.map (·.1), (sel.filter (·.1 = g)).length = (groups.getD g (0, 0)).1)
    {picked : List (Share F)} (hp : sel.mapM (pick table) = some picked) :
    recoverEms o digest picked = .ok ems := by
  obtain ⟨picked', h1, h2⟩ := recoverEms_makeShares_exists L hx digest hdl identifier extendable e gt groups ems
    groupRnd groupRp memberRnd memberRp hgr hmr h sel hne hnd hrange hgroups hmembers
  rw [hp] at h1
  rw [Option.some.inj h1]
  exact h2

/-- non-vacuity over ℚ: group threshold 2 of 3 groups (1-of-1, 2-of-3, 3-of-5), shares picked out of order -/
example : ∃ table picked,
    makeShares ratOps (fun _ _ => [1, 2, 3, 4]) 7 true 1 2 [(1, 1), (2, 3), (3, 5)] [5, 7, 1, 2, 3] [] [9]
      (fun g => if g = 2 then [[1, 1, 1, 1, 1]] else []) (fun _ => [9]) = .ok table ∧
    [(2, 4), (0, 0), (2, 0), (2, 2)].mapM (pick table) = some picked ∧
    recoverEms ratOps (fun _ _ => [1, 2, 3, 4]) picked = .ok [5, 7, 1, 2, 3] := by
  obtain ⟨table, ht⟩ := makeShares_isOk ratOps (fun _ _ => [1, 2, 3, 4]) 7 true 1 2 [(1, 1), (2, 3), (3, 5)]
    [5, 7, 1, 2, 3] [] [9] (fun g => if g = 2 then [[1, 1, 1, 1, 1]] else []) (fun _ => [9])
    (by decide) (by decide) (by decide) (by decide)
  obtain ⟨picked, h1, h2⟩ := recoverEms_makeShares_exists ratOps_lawful ratOps_xinj (fun _ _ => [1, 2, 3, 4])
    (fun _ _ => rfl) 7 true 1 2 [(1, 1), (2, 3), (3, 5)] [5, 7, 1, 2, 3] [] [9]
    (fun g => if g = 2 then [[1, 1, 1, 1, 1]] else []) (fun _ => [9])
    (fun _ => ⟨rfl, by simp, rfl⟩)
    (by
      intro g hg h2
      have hg' : g < 3 := hg
      obtain rfl | rfl | rfl : g = 0 ∨ g = 1 ∨ g = 2 := by omega
      · simp at h2
      · exact ⟨rfl, by simp, rfl⟩
      · exact ⟨rfl, by simp, rfl⟩)
    ht [(2, 4), (0, 0), (2, 0), (2, 2)] (by decide) (by decide) (by decide) (by decide) (by decide)
  exact ⟨table, picked, ht, h1, h2⟩

end Final

end Btc.C13
