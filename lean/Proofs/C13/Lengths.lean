import Model.C13.Slip39
import Model.C13.Bits
import Generated.Mnemonic
import Mathlib.Tactic.Ring
/-
C13: the length hypotheses of the Feistel / digest theorems discharged for the functions the driver runs
(`roundFunction` = PBKDF2-HMAC-SHA256, `hmacSha256`), and the translated `_bits_per_digit` tied to `bitsPerDigit`.
-/
namespace Btc.C13
open Gen.Slip39

theorem state_bytes_length (s : Sha256.State) : s.bytes.length = 32 := by
  simp [Sha256.State.bytes, HashUtil.be32Bytes]

theorem sha256_length (b : Bytes) : (sha256 b).length = 32 := by
  unfold sha256 Sha256.digest
  simp [state_bytes_length]

theorem hmacSha256_length (k m : Bytes) : (hmacSha256 k m).length = 32 := by
  unfold hmacSha256 hmac
  exact sha256_length _

theorem digest_bytes_le_hmacSha256 (k m : Bytes) : DIGEST_BYTES ≤ (hmacSha256 k m).length := by
  rw [hmacSha256_length]; decide

/-! ### PBKDF2 -/

theorem xorBytes_length : ∀ a b : Bytes, (xorBytes a b).length = min a.length b.length
  | [], _ => by simp [xorBytes]
  | _ :: _, [] => by simp [xorBytes]
  | _ :: as, _ :: bs => by simp [xorBytes, xorBytes_length as bs, Nat.succ_min_succ]

theorem pbkdf2Loop_length (prf : Bytes → Bytes) (hLen : Nat) (hprf : ∀ x, (prf x).length = hLen) :
    ∀ (n : Nat) (u acc : Bytes), acc.length = hLen → (pbkdf2Loop prf n u acc).length = hLen := by
  intro n
  induction n with
  | zero => intro u acc h; simpa [pbkdf2Loop] using h
  | succ n ih =>
    intro u acc h
    rw [pbkdf2Loop]
    exact ih _ _ (by rw [xorBytes_length, h, hprf]; exact Nat.min_self _)

theorem pbkdf2Block_length (prf : Bytes → Bytes → Bytes) (hLen : Nat) (hprf : ∀ k m, (prf k m).length = hLen)
    (pw salt : Bytes) (iters i : Nat) : (pbkdf2Block prf hLen pw salt iters i).length = hLen := by
  cases iters with
  | zero => simp [pbkdf2Block]
  | succ n =>
    rw [pbkdf2Block]
    exact pbkdf2Loop_length (prf pw) hLen (hprf pw) n _ _ (hprf _ _)

theorem flatMap_length_const {β : Type} (f : β → Bytes) (c : Nat) (l : List β)
    (h : ∀ a ∈ l, (f a).length = c) : (l.flatMap f).length = l.length * c := by
  induction l with
  | nil => simp
  | cons a as ih =>
    rw [List.flatMap_cons, List.length_append, h a (List.mem_cons_self ..),
      ih (fun b hb => h b (List.mem_cons_of_mem _ hb)), List.length_cons]
    ring

/-- PBKDF2 returns exactly `dkLen` bytes -/
theorem pbkdf2_length (prf : Bytes → Bytes → Bytes) (hLen : Nat) (h0 : 0 < hLen)
    (hprf : ∀ k m, (prf k m).length = hLen) (pw salt : Bytes) (iters dkLen : Nat) :
    (pbkdf2 prf hLen pw salt iters dkLen).length = dkLen := by
  unfold pbkdf2
  simp only
  rw [List.length_take, flatMap_length_const _ hLen _ (fun k _ => pbkdf2Block_length prf hLen hprf _ _ _ _),
    List.length_range]
  apply Nat.min_eq_left
  have h := Nat.lt_mul_div_succ (dkLen + hLen - 1) h0
  rw [Nat.mul_succ, Nat.mul_comm] at h
  omega

theorem pbkdf2HmacSha256_length (pw salt : Bytes) (iters dkLen : Nat) :
    (pbkdf2HmacSha256 pw salt iters dkLen).length = dkLen :=
  pbkdf2_length hmacSha256 32 (by decide) hmacSha256_length pw salt iters dkLen

/-- the round function of the driver preserves the length of the half block: `hRF` of the Feistel theorems -/
theorem roundFunction_length (pw : Bytes) (e id : Nat) (ext : Bool) (i : Nat) (r : Bytes) :
    (roundFunction pw e id ext i r).length = r.length := by
  unfold roundFunction
  exact pbkdf2HmacSha256_length _ _ _ _

/-! ### the translated `_bits_per_digit` -/

theorem natBitLengthAux_eq (fuel n : Nat) (h : n ≤ fuel) : Btc.Py.natBitLengthAux fuel n = bitLen n := by
  induction fuel generalizing n with
  | zero =>
    have : n = 0 := by omega
    subst this; rfl
  | succ fuel ih =>
    rw [Btc.Py.natBitLengthAux]
    by_cases h0 : n = 0
    · simp [h0, bitLen]
    · rw [if_neg h0, ih (n / 2) (by omega)]
      unfold bitLen
      rw [if_neg h0, Nat.log2_def n]
      by_cases h2 : 2 ≤ n
      · have : n / 2 ≠ 0 := by omega
        rw [if_neg this, if_pos h2]; omega
      · have : n / 2 = 0 := by omega
        rw [if_pos this, if_neg h2]

theorem natBitLength_eq (n : Nat) : Btc.Py.natBitLength n = bitLen n :=
  natBitLengthAux_eq n n le_rfl

theorem bits_per_digit_translated (n : Nat) (h : 1 ≤ n) :
    Gen.Mnemonic.bits_per_digit (n : Int) = ((bitsPerDigit n : Nat) : Int) := by
  unfold Gen.Mnemonic.bits_per_digit Btc.Py.bitLength bitsPerDigit
  rw [Int.natAbs_natCast, natBitLength_eq]
  have : 1 ≤ bitLen n := by
    unfold bitLen; rw [if_neg (by omega)]; omega
  omega

end Btc.C13
