import Model.C13.Shamir
/-
T2: the GENERATED `_EXP` / `_LOG` tables of slip39.py are mutually inverse, the table multiplication `_mul` is
carry-less multiplication modulo 0x11B on all 65 536 pairs; the laws of `_mul` / `_div` on bytes (as naturals).
The field structure is assembled in `Proofs/C13/Gf256Field.lean`.
-/
namespace Btc.C13
open Gen.Slip39

/-! ### finite checks, written as Bool folds (cheap for the kernel) -/

def allBelow : Nat → (Nat → Bool) → Bool
  | 0, _ => true
  | n + 1, p => p n && allBelow n p

theorem allBelow_spec {n : Nat} {p : Nat → Bool} (h : allBelow n p = true) : ∀ k < n, p k = true := by
  induction n with
  | zero => intro k hk; omega
  | succ n ih =>
    intro k hk
    simp only [allBelow, Bool.and_eq_true] at h
    by_cases hkn : k = n
    · subst hkn; exact h.1
    · exact ih h.2 k (by omega)

theorem nbeq_iff {a b : Nat} : Nat.beq a b = true ↔ a = b :=
  ⟨Nat.eq_of_beq_eq_true, fun h => by subst h; exact Nat.beq_refl a⟩

/-- packed-table lookups: entry `i` is byte `i` of the packed literal -/
def expP (i : Nat) : Nat := (EXP_PACKED >>> (8 * i)) % 256
def logP (a : Nat) : Nat := (LOG_PACKED >>> (8 * a)) % 256

/-- `_mul` on the packed tables -/
def tmulP (a b : Nat) : Nat :=
  cond (Nat.beq a 0 || Nat.beq b 0) 0 (expP ((logP a + logP b) % 255))

/-- the packed literals are the generated lists (256 lookups each) -/
theorem tables_packed :
    allBelow 256 (fun i => Nat.beq (expT i) (expP i) && Nat.beq (logT i) (logP i)) = true := by decide +kernel

theorem expT_eq_expP {i : Nat} (h : i < 256) : expT i = expP i := by
  have := allBelow_spec tables_packed i h
  simp only [Bool.and_eq_true, nbeq_iff] at this
  exact this.1

theorem logT_eq_logP {i : Nat} (h : i < 256) : logT i = logP i := by
  have := allBelow_spec tables_packed i h
  simp only [Bool.and_eq_true, nbeq_iff] at this
  exact this.2

/-- THE 65 536-case check: table multiplication = carry-less multiplication mod 0x11B -/
theorem tmulP_eq_clmul_all :
    allBelow 256 (fun a => allBelow 256 (fun b => Nat.beq (tmulP a b) (clmul a b))) = true := by
  decide +kernel

/-- `_EXP[i]` is a non-zero byte whose `_LOG` is `i`, for every `i < 255` -/
theorem exp_table :
    allBelow 255 (fun i => !(Nat.beq (expT i) 0) && Nat.blt (expT i) 256 && Nat.beq (logT (expT i)) i) = true := by
  decide +kernel

/-- `_LOG[a] < 255` and `_EXP[_LOG[a]] = a` for every non-zero byte `a` -/
theorem log_table :
    allBelow 256 (fun a => Nat.beq a 0 || (Nat.blt (logT a) 255 && Nat.beq (expT (logT a)) a)) = true := by
  decide +kernel

theorem log_mod : LOG_MOD = 255 := by decide

theorem exp_spec {i : Nat} (h : i < 255) : expT i ≠ 0 ∧ expT i < 256 ∧ logT (expT i) = i := by
  have := allBelow_spec exp_table i h
  simp only [Bool.and_eq_true, nbeq_iff, Bool.not_eq_true', Nat.blt_eq] at this
  refine ⟨?_, this.1.2, this.2⟩
  intro h0
  have h1 := this.1.1
  rw [h0] at h1
  simp at h1

theorem log_spec {a : Nat} (h : a < 256) (h0 : a ≠ 0) : logT a < 255 ∧ expT (logT a) = a := by
  have := allBelow_spec log_table a h
  simp only [Bool.or_eq_true, Bool.and_eq_true, nbeq_iff, Nat.blt_eq] at this
  rcases this with h | h
  · exact absurd h h0
  · exact h

/-! ### T2: the tables are mutually inverse; `_mul` is the carry-less product -/

theorem tmul_eq_tmulP {a b : Nat} (ha : a < 256) (hb : b < 256) : tmul a b = tmulP a b := by
  unfold tmul tmulP
  by_cases h : a = 0 ∨ b = 0
  · rcases h with h | h <;> simp [h]
  · have ha0 : a ≠ 0 := fun e => h (Or.inl e)
    have hb0 : b ≠ 0 := fun e => h (Or.inr e)
    have e1 : Nat.beq a 0 = false := by
      cases hx : Nat.beq a 0
      · rfl
      · exact absurd (nbeq_iff.1 hx) ha0
    have e2 : Nat.beq b 0 = false := by
      cases hx : Nat.beq b 0
      · rfl
      · exact absurd (nbeq_iff.1 hx) hb0
    rw [if_neg h, e1, e2, log_mod, logT_eq_logP ha, logT_eq_logP hb]
    simp only [Bool.or_false, cond_false]
    exact expT_eq_expP (by omega)

theorem tmul_eq_clmul {a b : Nat} (ha : a < 256) (hb : b < 256) : tmul a b = clmul a b := by
  rw [tmul_eq_tmulP ha hb]
  exact nbeq_iff.1 (allBelow_spec (allBelow_spec tmulP_eq_clmul_all a ha) b hb)

theorem tmul_nonzero {a b : Nat} (ha0 : a ≠ 0) (hb0 : b ≠ 0) :
    tmul a b = expT ((logT a + logT b) % 255) := by
  unfold tmul
  rw [if_neg (by simp [ha0, hb0]), log_mod]

theorem tmul_lt {a b : Nat} (_ha : a < 256) (_hb : b < 256) : tmul a b < 256 := by
  by_cases h : a = 0 ∨ b = 0
  · unfold tmul; rw [if_pos h]; omega
  · rw [tmul_nonzero (fun e => h (Or.inl e)) (fun e => h (Or.inr e))]
    exact (exp_spec (Nat.mod_lt _ (by omega))).2.1

theorem tmul_zero_left (b : Nat) : tmul 0 b = 0 := by simp [tmul]
theorem tmul_zero_right (a : Nat) : tmul a 0 = 0 := by simp [tmul]

theorem tmul_ne_zero {a b : Nat} (ha0 : a ≠ 0) (hb0 : b ≠ 0) : tmul a b ≠ 0 := by
  rw [tmul_nonzero ha0 hb0]
  exact (exp_spec (Nat.mod_lt _ (by omega))).1

theorem tmul_comm (a b : Nat) : tmul a b = tmul b a := by
  unfold tmul
  by_cases ha : a = 0 <;> by_cases hb : b = 0 <;> simp [ha, hb, Nat.add_comm]

theorem tmul_assoc {a b c : Nat} (ha : a < 256) (hb : b < 256) (hc : c < 256) :
    tmul (tmul a b) c = tmul a (tmul b c) := by
  by_cases ha0 : a = 0
  · simp [ha0, tmul_zero_left]
  by_cases hb0 : b = 0
  · simp [hb0, tmul_zero_left, tmul_zero_right]
  by_cases hc0 : c = 0
  · simp [hc0, tmul_zero_right]
  have hab := tmul_ne_zero ha0 hb0
  have hbc := tmul_ne_zero hb0 hc0
  rw [tmul_nonzero hab hc0, tmul_nonzero ha0 hbc, tmul_nonzero ha0 hb0, tmul_nonzero hb0 hc0]
  have la := (log_spec ha ha0).1
  have lb := (log_spec hb hb0).1
  have lc := (log_spec hc hc0).1
  rw [(exp_spec (Nat.mod_lt _ (by omega))).2.2, (exp_spec (Nat.mod_lt _ (by omega))).2.2]
  congr 1
  omega

theorem tmul_one_left {a : Nat} (ha : a < 256) : tmul 1 a = a := by
  by_cases ha0 : a = 0
  · simp [ha0, tmul_zero_right]
  have l1 : logT 1 = 0 := by decide
  rw [tmul_nonzero (by omega) ha0, l1, Nat.zero_add, Nat.mod_eq_of_lt (log_spec ha ha0).1]
  exact (log_spec ha ha0).2

/-! #### distributivity: from the carry-less side -/

theorem force_eq (n : Nat) (f : Nat → Nat) : force n f = f n := by
  cases n <;> rfl

theorem clmulAux_succ (n a b : Nat) :
    clmulAux (n + 1) a b = ((b % 2) * a) ^^^ clmulAux n (xtime a) (b / 2) := by
  simp [clmulAux, force_eq]

theorem sel_xor (a b c : Nat) : ((b ^^^ c) % 2) * a = ((b % 2) * a) ^^^ ((c % 2) * a) := by
  have h := Nat.xor_mod_two_pow (a := b) (b := c) (n := 1)
  rw [Nat.pow_one] at h
  rw [h]
  rcases Nat.mod_two_eq_zero_or_one b with hb | hb <;> rcases Nat.mod_two_eq_zero_or_one c with hc | hc <;>
    simp [hb, hc]

theorem clmulAux_xor (n a b c : Nat) :
    clmulAux n a (b ^^^ c) = clmulAux n a b ^^^ clmulAux n a c := by
  induction n generalizing a b c with
  | zero => simp [clmulAux]
  | succ n ih =>
    rw [clmulAux_succ, clmulAux_succ, clmulAux_succ, sel_xor, Nat.xor_div_two, ih]
    ac_rfl

theorem tmul_xor {a b c : Nat} (ha : a < 256) (hb : b < 256) (hc : c < 256) :
    tmul a (b ^^^ c) = tmul a b ^^^ tmul a c := by
  have hbc : b ^^^ c < 256 := Nat.xor_lt_two_pow (n := 8) hb hc
  rw [tmul_eq_clmul ha hbc, tmul_eq_clmul ha hb, tmul_eq_clmul ha hc]
  exact clmulAux_xor 8 a b c

/-! #### inverses and division -/

theorem tdiv_eq {a b : Nat} : tdiv a b = expT ((logT a + 255 - logT b) % 255) := by
  unfold tdiv; rw [log_mod]

theorem tdiv_one_ne_zero {b : Nat} (_hb : b < 256) (_hb0 : b ≠ 0) : tdiv 1 b ≠ 0 := by
  rw [tdiv_eq]; exact (exp_spec (Nat.mod_lt _ (by omega))).1

theorem tdiv_lt (a b : Nat) : tdiv a b < 256 := by
  rw [tdiv_eq]; exact (exp_spec (Nat.mod_lt _ (by omega))).2.1

theorem tmul_tdiv_one {a : Nat} (ha : a < 256) (ha0 : a ≠ 0) : tmul a (tdiv 1 a) = 1 := by
  have la := (log_spec ha ha0).1
  have l1 : logT 1 = 0 := by decide
  have e0 : expT 0 = 1 := by decide
  rw [tmul_nonzero ha0 (tdiv_one_ne_zero ha ha0), tdiv_eq, (exp_spec (Nat.mod_lt _ (by omega))).2.2, l1]
  have : (logT a + (0 + 255 - logT a) % 255) % 255 = 0 := by omega
  rw [this, e0]

theorem tdiv_eq_tmul {a b : Nat} (ha : a < 256) (ha0 : a ≠ 0) (hb : b < 256) (hb0 : b ≠ 0) :
    tdiv a b = tmul a (tdiv 1 b) := by
  have la := (log_spec ha ha0).1
  have lb := (log_spec hb hb0).1
  have l1 : logT 1 = 0 := by decide
  rw [tmul_nonzero ha0 (tdiv_one_ne_zero hb hb0), tdiv_eq, tdiv_eq,
    (exp_spec (Nat.mod_lt _ (by omega))).2.2, l1]
  congr 1
  omega

end Btc.C13
