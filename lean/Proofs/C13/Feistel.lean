import Model.C13.Slip39
/-
C13 / T4: the Feistel network of `slip39._feistel` is an involution-pair for ANY round function that preserves
lengths (so for any passphrase / iteration exponent / identifier / extendable flag): decrypt ∘ encrypt = id,
encrypt ∘ decrypt = id, and both directions are total on even-length payloads (a WRONG round function, i.e. a
wrong passphrase, never raises — it returns a different secret of the same length).
-/
namespace Btc.C13
open Gen.Slip39

/-! ### `xorStrict` -/

theorem xorStrict_total : ∀ (x f : Bytes), x.length = f.length →
    ∃ y, xorStrict x f = some y ∧ y.length = x.length
  | [], [], _ => ⟨[], rfl, rfl⟩
  | [], _ :: _, h => by simp at h
  | _ :: _, [], h => by simp at h
  | a :: as, b :: bs, h => by
    obtain ⟨y, hy, hl⟩ := xorStrict_total as bs (by simpa using h)
    exact ⟨(a ^^^ b) :: y, by simp [xorStrict, hy], by simp [hl]⟩

theorem xorStrict_length : ∀ (x f y : Bytes), xorStrict x f = some y → y.length = x.length ∧ x.length = f.length
  | [], [], y, h => by simp [xorStrict] at h; subst h; simp
  | [], _ :: _, y, h => by simp [xorStrict] at h
  | _ :: _, [], y, h => by simp [xorStrict] at h
  | a :: as, b :: bs, y, h => by
    simp only [xorStrict, Option.map_eq_some_iff] at h
    obtain ⟨y', hy', rfl⟩ := h
    have := xorStrict_length as bs y' hy'
    simp [this.1, this.2]

theorem uint8_xor_cancel (a b : UInt8) : (a ^^^ b) ^^^ b = a := by
  rw [UInt8.xor_assoc, UInt8.xor_self, UInt8.xor_zero]

/-- xor with the same pad is an involution -/
theorem xorStrict_invol : ∀ (x f y : Bytes), xorStrict x f = some y → xorStrict y f = some x
  | [], [], y, h => by simp [xorStrict] at h; subst h; rfl
  | [], _ :: _, y, h => by simp [xorStrict] at h
  | _ :: _, [], y, h => by simp [xorStrict] at h
  | a :: as, b :: bs, y, h => by
    simp only [xorStrict, Option.map_eq_some_iff] at h
    obtain ⟨y', hy', rfl⟩ := h
    simp [xorStrict, xorStrict_invol as bs y' hy', uint8_xor_cancel]

/-! ### rounds -/

theorem feistelRounds_append (F : Nat → Bytes → Bytes) (is js : List Nat) (l r : Bytes) :
    feistelRounds F (is ++ js) l r =
      (feistelRounds F is l r).bind fun p => feistelRounds F js p.1 p.2 := by
  induction is generalizing l r with
  | nil => simp [feistelRounds]
  | cons i is ih =>
    simp only [List.cons_append, feistelRounds]
    cases xorStrict l (F i r) with
    | none => simp
    | some x => simpa using ih r x

/-- any list of rounds is total on equal-length halves, preserves the length, and is undone by the reversed list
    of rounds applied to the swapped halves -/
theorem feistelRounds_inv (F : Nat → Bytes → Bytes) (hF : ∀ i r, (F i r).length = r.length) :
    ∀ (is : List Nat) (l r : Bytes), l.length = r.length →
      ∃ l' r', feistelRounds F is l r = some (l', r') ∧ l'.length = l.length ∧ r'.length = l.length ∧
        feistelRounds F is.reverse r' l' = some (r, l)
  | [], l, r, h => ⟨l, r, rfl, rfl, h.symm, rfl⟩
  | i :: is, l, r, h => by
    obtain ⟨x, hx, hxl⟩ := xorStrict_total l (F i r) (by rw [hF, h])
    obtain ⟨l', r', hrun, hl', hr', hback⟩ := feistelRounds_inv F hF is r x (by rw [hxl, h])
    refine ⟨l', r', by simp [feistelRounds, hx, hrun], by rw [hl', h], by rw [hr', h], ?_⟩
    rw [List.reverse_cons, feistelRounds_append, hback]
    simp [feistelRounds, xorStrict_invol _ _ _ hx]

/-! ### `_feistel` -/

private theorem halves (m : Bytes) (hm : m.length % 2 = 0) :
    (m.take (m.length / 2)).length = (m.drop (m.length / 2)).length := by
  simp only [List.length_take, List.length_drop]; omega

private theorem rounds_rev (dec : Bool) :
    (if (!dec) = true then (List.range ROUNDS).reverse else List.range ROUNDS) =
      (if dec = true then (List.range ROUNDS).reverse else List.range ROUNDS).reverse := by
  cases dec <;> simp

/-- one direction followed by the other is the identity, for any length-preserving round function -/
theorem feistel_inv (F : Nat → Bytes → Bytes) (hF : ∀ i r, (F i r).length = r.length)
    (m : Bytes) (hm : m.length % 2 = 0) (dec : Bool) :
    ∃ c, feistel F m dec = some c ∧ c.length = m.length ∧ feistel F c (!dec) = some m := by
  obtain ⟨l', r', hrun, hl', hr', hback⟩ :=
    feistelRounds_inv F hF (if dec = true then (List.range ROUNDS).reverse else List.range ROUNDS)
      _ _ (halves m hm)
  have hlen : (m.take (m.length / 2)).length = m.length / 2 := by
    simp only [List.length_take]; omega
  rw [hlen] at hl' hr'
  have hc : (r' ++ l').length = m.length := by simp only [List.length_append, hl', hr']; omega
  refine ⟨r' ++ l', by simp only [feistel, hrun, Option.map_some], hc, ?_⟩
  have ht : (r' ++ l').take ((r' ++ l').length / 2) = r' := by
    rw [hc, ← hr']; simp
  have hd : (r' ++ l').drop ((r' ++ l').length / 2) = l' := by
    rw [hc, ← hr']; simp
  simp only [feistel, ht, hd, rounds_rev, hback, Option.map_some, List.take_append_drop]

/-- T4: decrypting an encryption gives back the plaintext -/
theorem feistel_decrypt_encrypt (F : Nat → Bytes → Bytes) (hF : ∀ i r, (F i r).length = r.length)
    (m : Bytes) (hm : m.length % 2 = 0) :
    ∃ c, feistel F m false = some c ∧ c.length = m.length ∧ feistel F c true = some m :=
  feistel_inv F hF m hm false

/-- the other composition: encrypting a decryption gives back the ciphertext -/
theorem feistel_encrypt_decrypt (F : Nat → Bytes → Bytes) (hF : ∀ i r, (F i r).length = r.length)
    (c : Bytes) (hc : c.length % 2 = 0) :
    ∃ m, feistel F c true = some m ∧ m.length = c.length ∧ feistel F m false = some c :=
  feistel_inv F hF c hc true

/-- both directions are total and length-preserving on even-length payloads: decrypting under a WRONG round
    function (wrong passphrase) never errors -/
theorem feistel_total (F : Nat → Bytes → Bytes) (hF : ∀ i r, (F i r).length = r.length)
    (m : Bytes) (hm : m.length % 2 = 0) (dec : Bool) :
    ∃ r, feistel F m dec = some r ∧ r.length = m.length := by
  obtain ⟨c, h, hl, _⟩ := feistel_inv F hF m hm dec
  exact ⟨c, h, hl⟩

/-- hypotheses are satisfiable by a non-trivial round function and payload -/
example : ∃ (F : Nat → Bytes → Bytes) (m : Bytes), (∀ i r, (F i r).length = r.length) ∧ m.length % 2 = 0 ∧
    feistel F m false = some [2, 22, 2, 23] ∧ feistel F [2, 22, 2, 23] true = some m :=
  ⟨fun i r => r.map (· + UInt8.ofNat i + 1), [1, 2, 3, 4], by simp, by decide, by decide, by decide⟩

end Btc.C13
