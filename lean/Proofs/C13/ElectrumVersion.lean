import Model.C13.Bip39
/-
C13: Electrum's version-prefix ACCEPTANCE as an iff.  `mnemonicType false digits n` (the loop of
`electrum._mnemonic_type` over the generated `_MNEMONIC_VERSIONS`, for a sentence that is not a pre-2.0 seed) answers a
version exactly when the hex digits of HMAC-SHA512("Seed version", normalised sentence) start with that version's
prefix — "2fa" only at 12 words or at least 20 — and "" exactly when none of the four applies.
-/
namespace Btc.C13

theorem mnemonicType_cases (digits : List Nat) (n : Nat) :
    mnemonicType false digits n =
      if [0, 1].isPrefixOf digits then "standard"
      else if [1, 0, 0].isPrefixOf digits then "segwit"
      else if [1, 0, 1].isPrefixOf digits ∧ (n = 12 ∨ 20 ≤ n) then "2fa"
      else if [1, 0, 2].isPrefixOf digits then "2fa_segwit"
      else "" := by
  simp only [mnemonicType, Gen.Mnemonic.MNEMONIC_VERSIONS, versionLoop, Gen.Mnemonic.TWOFA_EXACT,
    Gen.Mnemonic.TWOFA_MIN, Bool.false_eq_true, if_false]
  by_cases h1 : [0, 1].isPrefixOf digits = true
  · simp [h1]
  · by_cases h2 : [1, 0, 0].isPrefixOf digits = true
    · simp [h1, h2]
    · by_cases h3 : [1, 0, 1].isPrefixOf digits = true
      · by_cases hn : n = 12 ∨ 20 ≤ n
        · have : ¬ (¬ n = 12 ∧ n < 20) := by omega
          simp [h1, h2, h3, hn, this]
        · have : ¬ n = 12 ∧ n < 20 := by omega
          simp [h1, h2, h3, this]
          omega
      · simp [h1, h2, h3]

/-- acceptance: which sentences (not pre-2.0 seeds) carry which version -/
theorem mnemonicType_iff (digits : List Nat) (n : Nat) :
    (mnemonicType false digits n = "standard" ↔ [0, 1] <+: digits) ∧
    (mnemonicType false digits n = "segwit" ↔ [1, 0, 0] <+: digits) ∧
    (mnemonicType false digits n = "2fa" ↔ [1, 0, 1] <+: digits ∧ (n = 12 ∨ 20 ≤ n)) ∧
    (mnemonicType false digits n = "2fa_segwit" ↔ [1, 0, 2] <+: digits) ∧
    (mnemonicType false digits n = "" ↔ ¬ [0, 1] <+: digits ∧ ¬ [1, 0, 0] <+: digits ∧
      ¬ ([1, 0, 1] <+: digits ∧ (n = 12 ∨ 20 ≤ n)) ∧ ¬ [1, 0, 2] <+: digits) ∧
    mnemonicType false digits n ∈ ["standard", "segwit", "2fa", "2fa_segwit", ""] := by
  rw [mnemonicType_cases]
  simp only [← List.isPrefixOf_iff_prefix]
  have e1 : ∀ rest : List Nat, ([0, 1].isPrefixOf rest = true → [1, 0, 0].isPrefixOf rest = false ∧
      [1, 0, 1].isPrefixOf rest = false ∧ [1, 0, 2].isPrefixOf rest = false) := by
    intro rest; rcases rest with _ | ⟨a, _ | ⟨b, r⟩⟩ <;> simp [List.isPrefixOf] <;> omega
  have e2 : ∀ rest : List Nat, ([1, 0, 0].isPrefixOf rest = true →
      [1, 0, 1].isPrefixOf rest = false ∧ [1, 0, 2].isPrefixOf rest = false) := by
    intro rest; rcases rest with _ | ⟨a, _ | ⟨b, _ | ⟨c, r⟩⟩⟩ <;> simp [List.isPrefixOf] <;> omega
  have e3 : ∀ rest : List Nat, ([1, 0, 1].isPrefixOf rest = true → [1, 0, 2].isPrefixOf rest = false) := by
    intro rest; rcases rest with _ | ⟨a, _ | ⟨b, _ | ⟨c, r⟩⟩⟩ <;> simp [List.isPrefixOf] <;> omega
  by_cases h1 : [0, 1].isPrefixOf digits = true
  · obtain ⟨a, b, c⟩ := e1 digits h1
    simp [h1, a, b, c]
  · by_cases h2 : [1, 0, 0].isPrefixOf digits = true
    · obtain ⟨b, c⟩ := e2 digits h2
      simp [h1, h2, b, c]
    · by_cases h3 : [1, 0, 1].isPrefixOf digits = true
      · have c := e3 digits h3
        by_cases hn : n = 12 ∨ 20 ≤ n
        · simp [h1, h2, h3, c, hn]
        · simp [h1, h2, h3, c, hn]
      · by_cases h4 : [1, 0, 2].isPrefixOf digits = true
        · simp [h1, h2, h3, h4]
        · simp [h1, h2, h3, h4]

end Btc.C13
