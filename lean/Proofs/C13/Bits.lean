import Model.C13.Bip39
import Proofs.Common.Bytes
import Mathlib.Data.Nat.Digits.Lemmas
/-
C13 / T1, T5 core: bit strings and word indexes.  `indexesFromBits` / `bitsFromIndexes` are inverse of each other
for a power-of-two base on bit strings of a whole number of words (leading zeros preserved), the Electrum
self-check for any base, and the BIP39 entropy ↔ sentence round trip for an arbitrary 32-byte hash.
-/
namespace Btc.C13

/-! ### A. bits -/

theorem ofBits_foldl (l : Bits) (a : Nat) :
    l.foldl (fun a b => 2 * a + b.toNat) a = a * 2 ^ l.length + ofBits l := by
  induction l generalizing a with
  | nil => simp [ofBits]
  | cons b l ih =>
    rw [ofBits, List.foldl_cons, List.foldl_cons, ih, ih (2 * 0 + b.toNat), List.length_cons, pow_succ]
    ring

theorem ofBits_nil : ofBits [] = 0 := rfl

theorem ofBits_append (a b : Bits) : ofBits (a ++ b) = ofBits a * 2 ^ b.length + ofBits b := by
  rw [ofBits, List.foldl_append, ofBits_foldl]; rfl

theorem ofBits_singleton (b : Bool) : ofBits [b] = b.toNat := by simp [ofBits]

theorem ofBits_lt (l : Bits) : ofBits l < 2 ^ l.length := by
  induction l using List.reverseRecOn with
  | nil => simp [ofBits]
  | append_singleton l b ih =>
    rw [ofBits_append, ofBits_singleton, List.length_append, List.length_singleton, pow_succ]
    have : b.toNat ≤ 1 := by cases b <;> simp
    omega

@[simp] theorem natToBits_length (w v : Nat) : (natToBits w v).length = w := by
  induction w generalizing v with
  | zero => simp [natToBits]
  | succ w ih => simp [natToBits, ih]

theorem testBit_zero_toNat (v : Nat) : (v.testBit 0).toNat = v % 2 := by
  rw [Nat.testBit_zero]
  rcases Nat.mod_two_eq_zero_or_one v with h | h <;> simp [h]

theorem ofBits_natToBits (w v : Nat) : ofBits (natToBits w v) = v % 2 ^ w := by
  induction w generalizing v with
  | zero => simp [natToBits, ofBits, Nat.mod_one]
  | succ w ih =>
    rw [natToBits, ofBits_append, ih, ofBits_singleton, testBit_zero_toNat, pow_succ, mul_comm (2 ^ w) 2,
      Nat.mod_mul]
    simp only [List.length_singleton, pow_one]
    omega

theorem natToBits_ofBits (l : Bits) : natToBits l.length (ofBits l) = l := by
  induction l using List.reverseRecOn with
  | nil => simp [natToBits]
  | append_singleton l b ih =>
    rw [List.length_append, List.length_singleton, natToBits, ofBits_append, ofBits_singleton]
    simp only [List.length_singleton, pow_one]
    have hb : b.toNat ≤ 1 := by cases b <;> simp
    have h1 : (ofBits l * 2 + b.toNat) / 2 = ofBits l := by omega
    have h2 : (ofBits l * 2 + b.toNat).testBit 0 = b := by
      rw [Nat.testBit_zero]; cases b <;> simp
    rw [h1, h2, ih]

/-- a bit string is determined by its length and its value -/
theorem bits_ext {l₁ l₂ : Bits} (hl : l₁.length = l₂.length) (hv : ofBits l₁ = ofBits l₂) : l₁ = l₂ := by
  rw [← natToBits_ofBits l₁, ← natToBits_ofBits l₂, hl, hv]

theorem natToBits_inj_length (w : Nat) (l : Bits) (hl : l.length = w) : natToBits w (ofBits l) = l := by
  subst hl; exact natToBits_ofBits l

theorem bitLen_le_iff (n w : Nat) : bitLen n ≤ w ↔ n < 2 ^ w := by
  unfold bitLen
  by_cases h : n = 0
  · simp [h]
  · rw [if_neg h, Nat.add_one_le_iff, Nat.log2_lt h]

theorem lt_two_pow_bitLen (n : Nat) : n < 2 ^ bitLen n := (bitLen_le_iff n _).mp le_rfl

theorem bitLen_two_pow_sub_one (w : Nat) : bitLen (2 ^ w - 1) = w := by
  cases w with
  | zero => simp [bitLen]
  | succ w =>
    have hpos : 2 ^ w ≥ 1 := Nat.one_le_two_pow
    have hne : 2 ^ (w + 1) - 1 ≠ 0 := by rw [pow_succ]; omega
    have hlog : (2 ^ (w + 1) - 1).log2 = w :=
      (Nat.log2_eq_iff (k := w) hne).mpr ⟨by rw [pow_succ]; omega, by omega⟩
    rw [bitLen, if_neg hne, hlog]

theorem bitLen_two_pow (w : Nat) : bitLen (2 ^ w) = w + 1 := by
  have : 2 ^ w ≠ 0 := by positivity
  rw [bitLen, if_neg this, Nat.log2_two_pow]

theorem ofBits_replicate_false (n : Nat) : ofBits (List.replicate n false) = 0 := by
  induction n with
  | zero => rfl
  | succ n ih => rw [List.replicate_succ', ofBits_append, ih, ofBits_singleton]; simp

theorem ofBits_zfill (w : Nat) (s : Bits) : ofBits (zfill w s) = ofBits s := by
  rw [zfill, ofBits_append, ofBits_replicate_false]; simp

theorem zfill_length (w : Nat) (s : Bits) : (zfill w s).length = max w s.length := by
  simp [zfill]; omega

theorem binStr_length (v : Nat) : (binStr v).length = max 1 (bitLen v) := by
  unfold binStr
  by_cases h : v = 0
  · simp [h, bitLen]
  · rw [if_neg h, natToBits_length]
    have : 1 ≤ bitLen v := by simp [bitLen, h]
    omega

theorem ofBits_binStr (v : Nat) : ofBits (binStr v) = v := by
  unfold binStr
  by_cases h : v = 0
  · simp [h, ofBits]
  · rw [if_neg h, ofBits_natToBits, Nat.mod_eq_of_lt (lt_two_pow_bitLen v)]

/-- `f"{v:b}".zfill(w)` is the `w`-bit representation when `v` fits -/
theorem zfill_binStr (w v : Nat) (hw : 0 < w) (hv : v < 2 ^ w) : zfill w (binStr v) = natToBits w v := by
  apply bits_ext
  · rw [zfill_length, binStr_length, natToBits_length]
    have := (bitLen_le_iff v w).mpr hv
    omega
  · rw [ofBits_zfill, ofBits_binStr, ofBits_natToBits, Nat.mod_eq_of_lt hv]

/-! ### digits -/

theorem digitsLE_eq_digits (base : Nat) (hb : 2 ≤ base) (fuel v : Nat) (hv : v ≤ fuel) :
    digitsLE base fuel v = Nat.digits base v := by
  induction fuel generalizing v with
  | zero =>
    have : v = 0 := by omega
    subst this; simp [digitsLE]
  | succ fuel ih =>
    rw [digitsLE]
    by_cases h : v = 0
    · simp [h]
    · rw [if_neg h, Nat.digits_def' (by omega) (Nat.pos_of_ne_zero h)]
      have : v / base < v := Nat.div_lt_self (Nat.pos_of_ne_zero h) (by omega)
      rw [ih _ (by omega)]

theorem foldl_eq_ofDigits (base : Nat) (idx : List Nat) :
    idx.foldl (fun e i => e * base + i) 0 = Nat.ofDigits base idx.reverse := by
  rw [List.foldl_eq_foldr_reverse, Nat.ofDigits_eq_foldr]
  congr 1
  funext x y
  simp [mul_comm, add_comm]

/-! ### B. round trips -/

theorem bitsPerDigit_two_pow (k : Nat) : bitsPerDigit (2 ^ k) = k := by
  simp [bitsPerDigit, bitLen_two_pow]

theorem one_lt_two_pow' {k : Nat} (hk : 1 ≤ k) : 1 < 2 ^ k := Nat.one_lt_two_pow (by omega)

theorem nwords_eq (k m : Nat) (hk : 1 ≤ k) : (k * m + k - 1) / k = m := by
  rw [Nat.add_sub_assoc hk, Nat.mul_add_div (by omega), Nat.div_eq_of_lt (by omega)]
  rfl

/-- `indexesFromBits` for a power-of-two base: the base-`2^k` digits of the value, zero-padded to `m` words,
    most significant first -/
theorem indexesFromBits_eq (k m : Nat) (hk : 1 ≤ k) (bits : Bits) (hl : bits.length = k * m) :
    indexesFromBits bits (2 ^ k) =
      (Nat.digits (2 ^ k) (ofBits bits) ++
        List.replicate (m - (Nat.digits (2 ^ k) (ofBits bits)).length) 0).reverse := by
  unfold indexesFromBits
  simp only []
  rw [digitsLE_eq_digits (2 ^ k) (one_lt_two_pow' hk) _ _ le_rfl, bitsPerDigit_two_pow, hl,
    nwords_eq k m hk]

theorem digits_ofBits_length_le (k m : Nat) (hk : 1 ≤ k) (bits : Bits) (hl : bits.length = k * m) :
    (Nat.digits (2 ^ k) (ofBits bits)).length ≤ m := by
  rw [Nat.digits_length_le_iff (one_lt_two_pow' hk), ← pow_mul, ← hl]
  exact ofBits_lt bits

theorem indexesFromBits_length (k m : Nat) (hk : 1 ≤ k) (bits : Bits) (hl : bits.length = k * m) :
    (indexesFromBits bits (2 ^ k)).length = m := by
  rw [indexesFromBits_eq k m hk bits hl]
  have := digits_ofBits_length_le k m hk bits hl
  simp
  omega

theorem indexesFromBits_lt (k m : Nat) (hk : 1 ≤ k) (bits : Bits) (hl : bits.length = k * m) :
    ∀ i ∈ indexesFromBits bits (2 ^ k), i < 2 ^ k := by
  intro i hi
  rw [indexesFromBits_eq k m hk bits hl, List.mem_reverse, List.mem_append] at hi
  rcases hi with hi | hi
  · exact Nat.digits_lt_base (one_lt_two_pow' hk) hi
  · rw [(List.mem_replicate.mp hi).2]; positivity

/-- the value `bitsFromIndexes` computes, when all indexes are in range -/
theorem bitsFromIndexes_eq (idx : List Nat) (base : Nat) (h : ∀ i ∈ idx, i < base) :
    bitsFromIndexes idx base =
      some (zfill (bitLen (base ^ idx.length - 1)) (binStr (Nat.ofDigits base idx.reverse))) := by
  unfold bitsFromIndexes
  rw [if_pos (by simpa using h), foldl_eq_ofDigits]

/-- **bits → indexes → bits** (leading zeros preserved) -/
theorem bitsFromIndexes_indexesFromBits (k : Nat) (hk : 1 ≤ k) (bits : Bits) (m : Nat) (hm : 1 ≤ m)
    (hl : bits.length = k * m) :
    bitsFromIndexes (indexesFromBits bits (2 ^ k)) (2 ^ k) = some bits := by
  rw [bitsFromIndexes_eq _ _ (indexesFromBits_lt k m hk bits hl), indexesFromBits_length k m hk bits hl,
    indexesFromBits_eq k m hk bits hl, List.reverse_reverse, Nat.ofDigits_append_replicate_zero,
    Nat.ofDigits_digits, ← pow_mul, bitLen_two_pow_sub_one]
  have hpos : 0 < k * m := Nat.mul_pos (by omega) (by omega)
  have hlt : ofBits bits < 2 ^ (k * m) := by rw [← hl]; exact ofBits_lt bits
  rw [zfill_binStr _ _ hpos hlt, ← hl, natToBits_ofBits]

/-- **indexes → bits → indexes** -/
theorem indexesFromBits_bitsFromIndexes (k : Nat) (hk : 1 ≤ k) (idx : List Nat) (hne : idx ≠ [])
    (hlt : ∀ i ∈ idx, i < 2 ^ k) :
    ∃ bits, bitsFromIndexes idx (2 ^ k) = some bits ∧ bits.length = k * idx.length ∧
      indexesFromBits bits (2 ^ k) = idx := by
  have hb := one_lt_two_pow' hk
  have hn : 1 ≤ idx.length := by
    cases idx with
    | nil => exact absurd rfl hne
    | cons _ _ => simp
  have hpos : 0 < k * idx.length := Nat.mul_pos (by omega) (by omega)
  have hlt' : ∀ i ∈ idx.reverse, i < 2 ^ k := fun i hi => hlt i (List.mem_reverse.mp hi)
  have hv : Nat.ofDigits (2 ^ k) idx.reverse < 2 ^ (k * idx.length) := by
    have := Nat.ofDigits_lt_base_pow_length hb hlt'
    rwa [List.length_reverse, ← pow_mul] at this
  refine ⟨natToBits (k * idx.length) (Nat.ofDigits (2 ^ k) idx.reverse), ?_, natToBits_length _ _, ?_⟩
  · rw [bitsFromIndexes_eq _ _ hlt, ← pow_mul, bitLen_two_pow_sub_one, zfill_binStr _ _ hpos hv]
  · rw [indexesFromBits_eq k idx.length hk _ (natToBits_length _ _), ofBits_natToBits,
      Nat.mod_eq_of_lt hv]
    rw [List.reverse_eq_iff]
    have hlen : (Nat.digits (2 ^ k) (Nat.ofDigits (2 ^ k) idx.reverse)).length ≤ idx.length :=
      (Nat.digits_length_le_iff hb _).mpr (by rwa [← pow_mul])
    apply Nat.ofDigits_inj_of_len_eq hb
    · simp; omega
    · intro i hi
      rcases List.mem_append.mp hi with hi | hi
      · exact Nat.digits_lt_base hb hi
      · rw [(List.mem_replicate.mp hi).2]; positivity
    · exact hlt'
    · rw [Nat.ofDigits_append_replicate_zero, Nat.ofDigits_digits]

/-- Electrum's self-check: for any base the entropy integer survives `indexes → bits` -/
theorem electrum_roundtrip (base v : Nat) (hb : 2 ≤ base) :
    ∃ bits, electrumBits (electrumIndexes v base) base = some bits ∧ ofBits bits = v := by
  unfold electrumBits electrumIndexes
  rw [digitsLE_eq_digits base hb v v le_rfl,
    bitsFromIndexes_eq _ _ (fun i hi => Nat.digits_lt_base (by omega) (List.mem_reverse.mp hi)),
    List.reverse_reverse, Nat.ofDigits_digits]
  exact ⟨_, rfl, by rw [ofBits_zfill, ofBits_binStr]⟩

/-! ### C. BIP39 -/

section Bip39
variable (H : Bytes → Bytes)

/-- the checksum bits `_entropy_checksum` appends to the entropy `e` -/
def csBits (e : Bits) : Bits :=
  (zfill 256 (binStr (ofBE (H (bytesOfBits e))))).take ((bytesOfBits e).length / Gen.Mnemonic.CS_DIV)

theorem binStrEntropyFromStr_of_mem (e : Bits) (h : e.length ∈ Gen.Mnemonic.ENTROPY_BITS) :
    binStrEntropyFromStr e = some e := by
  have htop : Gen.Mnemonic.ENTROPY_BITS.foldl max 0 = 512 := by decide
  unfold binStrEntropyFromStr
  simp only [htop]
  have hle : ¬ e.length > 512 := by
    simp [Gen.Mnemonic.ENTROPY_BITS] at h; omega
  rw [if_neg hle, if_pos (by simpa using h)]

theorem entropyChecksum_of_mem (e : Bits) (h : e.length ∈ Gen.Mnemonic.ENTROPY_BITS) :
    entropyChecksum H e = some (e, csBits H e) := by
  unfold entropyChecksum
  rw [binStrEntropyFromStr_of_mem e h]
  rfl

theorem zfill256_length (hH : ∀ b, (H b).length = 32) (b : Bytes) :
    (zfill 256 (binStr (ofBE (H b)))).length = 256 := by
  have h1 : ofBE (H b) < 2 ^ 256 := by
    have := ofBE_lt (H b)
    rw [hH b] at this
    exact lt_of_lt_of_eq this (by norm_num)
  have h2 := (bitLen_le_iff _ _).mpr h1
  rw [zfill_length, binStr_length]
  omega

theorem csBits_length (hH : ∀ b, (H b).length = 32) (e : Bits) (hl : e.length ≤ 8192) :
    (csBits H e).length = (e.length + 7) / 8 / 4 := by
  rw [csBits, List.length_take, zfill256_length H hH, bytesOfBits, beBytes_length]
  simp only [Gen.Mnemonic.CS_DIV]
  omega

theorem base_eq : Gen.Mnemonic.BIP39_BASE = 2 ^ 11 := by decide

/-- **T1**: `entropy_from_mnemonic ∘ mnemonic_from_entropy = id` at index level, any 32-byte hash -/
theorem bip39_roundtrip (hH : ∀ b, (H b).length = 32) (e : Bits)
    (hL : e.length ∈ [128, 160, 192, 224, 256]) :
    ∃ idx, bip39Indexes H e = some idx ∧ idx.length = e.length / 32 * 3 ∧ (∀ i ∈ idx, i < 2048) ∧
      bip39Entropy H idx = some e := by
  have hmem : e.length ∈ Gen.Mnemonic.ENTROPY_BITS := by
    simp only [Gen.Mnemonic.ENTROPY_BITS]; simp at hL ⊢; omega
  have hL' : e.length = 128 ∨ e.length = 160 ∨ e.length = 192 ∨ e.length = 224 ∨ e.length = 256 := by
    simpa using hL
  have hcs := csBits_length H hH e (by omega)
  have hlen : (e ++ csBits H e).length = 11 * (e.length / 32 * 3) := by
    rw [List.length_append, hcs]; omega
  have hm : 1 ≤ e.length / 32 * 3 := by omega
  refine ⟨indexesFromBits (e ++ csBits H e) (2 ^ 11), ?_, indexesFromBits_length 11 _ (by decide) _ hlen,
    indexesFromBits_lt 11 _ (by decide) _ hlen, ?_⟩
  · rw [bip39Indexes, entropyChecksum_of_mem H e hmem, base_eq]
  · unfold bip39Entropy
    rw [base_eq, bitsFromIndexes_indexesFromBits 11 (by decide) _ _ hm hlen]
    have hbits : (e ++ csBits H e).length * Gen.Mnemonic.CS_NUM / Gen.Mnemonic.CS_DEN = e.length := by
      rw [hlen]; simp only [Gen.Mnemonic.CS_NUM, Gen.Mnemonic.CS_DEN]; omega
    simp only [hbits, List.take_left' rfl, List.drop_left' rfl, entropyChecksum_of_mem H e hmem]
    simp

/-- the accepted sentences (of the five standard lengths) are exactly the images of the encoder -/
theorem bip39Entropy_eq_some_iff (hH : ∀ b, (H b).length = 32) (idx : List Nat)
    (hn : idx.length ∈ [12, 15, 18, 21, 24]) (hlt : ∀ i ∈ idx, i < 2048) (e : Bits) :
    bip39Entropy H idx = some e ↔ bip39Indexes H e = some idx ∧ e.length = idx.length / 3 * 32 := by
  have hn' : idx.length = 12 ∨ idx.length = 15 ∨ idx.length = 18 ∨ idx.length = 21 ∨ idx.length = 24 := by
    simpa using hn
  constructor
  · intro h
    have hne : idx ≠ [] := by
      intro h0; rw [h0] at hn'; simp at hn'
    obtain ⟨cse, hc, hclen, hci⟩ := indexesFromBits_bitsFromIndexes 11 (by decide) idx hne hlt
    unfold bip39Entropy at h
    rw [base_eq, hc] at h
    have hbits : cse.length * Gen.Mnemonic.CS_NUM / Gen.Mnemonic.CS_DEN = idx.length / 3 * 32 := by
      rw [hclen]; simp only [Gen.Mnemonic.CS_NUM, Gen.Mnemonic.CS_DEN]; omega
    have htl : (cse.take (idx.length / 3 * 32)).length = idx.length / 3 * 32 := by
      rw [List.length_take, hclen]; omega
    have hmem : (cse.take (idx.length / 3 * 32)).length ∈ Gen.Mnemonic.ENTROPY_BITS := by
      rw [htl]; simp only [Gen.Mnemonic.ENTROPY_BITS]; simp; omega
    simp only [hbits, entropyChecksum_of_mem H _ hmem] at h
    split_ifs at h with hd
    have he : cse.take (idx.length / 3 * 32) = e := by simpa using h
    have hd' : cse.drop (idx.length / 3 * 32) = csBits H (cse.take (idx.length / 3 * 32)) := by
      simpa using hd
    refine ⟨?_, by rw [← he, htl]⟩
    rw [bip39Indexes, ← he, entropyChecksum_of_mem H _ hmem]
    simp only [← hd', List.take_append_drop, base_eq, hci]
  · rintro ⟨h, hel⟩
    obtain ⟨idx', h1, _, _, h4⟩ := bip39_roundtrip H hH e (by simp; omega)
    rw [h] at h1
    rw [Option.some.inj h1]
    exact h4

/-! #### all the sizes btclib accepts (`entropy._bits` contains 512: 48 words) -/

theorem bip39_roundtrip_all (hH : ∀ b, (H b).length = 32) (e : Bits)
    (hL : e.length ∈ Gen.Mnemonic.ENTROPY_BITS) :
    ∃ idx, bip39Indexes H e = some idx ∧ idx.length = e.length / 32 * 3 ∧ (∀ i ∈ idx, i < 2048) ∧
      bip39Entropy H idx = some e := by
  have hL' : e.length = 128 ∨ e.length = 160 ∨ e.length = 192 ∨ e.length = 224 ∨ e.length = 256 ∨
      e.length = 512 := by
    simpa [Gen.Mnemonic.ENTROPY_BITS] using hL
  have hcs := csBits_length H hH e (by omega)
  have hlen : (e ++ csBits H e).length = 11 * (e.length / 32 * 3) := by
    rw [List.length_append, hcs]; omega
  have hm : 1 ≤ e.length / 32 * 3 := by omega
  refine ⟨indexesFromBits (e ++ csBits H e) (2 ^ 11), ?_, indexesFromBits_length 11 _ (by decide) _ hlen,
    indexesFromBits_lt 11 _ (by decide) _ hlen, ?_⟩
  · rw [bip39Indexes, entropyChecksum_of_mem H e hL, base_eq]
  · unfold bip39Entropy
    rw [base_eq, bitsFromIndexes_indexesFromBits 11 (by decide) _ _ hm hlen]
    have hbits : (e ++ csBits H e).length * Gen.Mnemonic.CS_NUM / Gen.Mnemonic.CS_DEN = e.length := by
      rw [hlen]; simp only [Gen.Mnemonic.CS_NUM, Gen.Mnemonic.CS_DEN]; omega
    simp only [hbits, List.take_left' rfl, List.drop_left' rfl, entropyChecksum_of_mem H e hL]
    simp

theorem bip39Entropy_eq_some_iff_all (hH : ∀ b, (H b).length = 32) (idx : List Nat)
    (hn : idx.length ∈ [12, 15, 18, 21, 24, 48]) (hlt : ∀ i ∈ idx, i < 2048) (e : Bits) :
    bip39Entropy H idx = some e ↔ bip39Indexes H e = some idx ∧ e.length = idx.length / 3 * 32 := by
  have hn' : idx.length = 12 ∨ idx.length = 15 ∨ idx.length = 18 ∨ idx.length = 21 ∨ idx.length = 24 ∨
      idx.length = 48 := by
    simpa using hn
  constructor
  · intro h
    have hne : idx ≠ [] := by
      intro h0; rw [h0] at hn'; simp at hn'
    obtain ⟨cse, hc, hclen, hci⟩ := indexesFromBits_bitsFromIndexes 11 (by decide) idx hne hlt
    unfold bip39Entropy at h
    rw [base_eq, hc] at h
    have hbits : cse.length * Gen.Mnemonic.CS_NUM / Gen.Mnemonic.CS_DEN = idx.length / 3 * 32 := by
      rw [hclen]; simp only [Gen.Mnemonic.CS_NUM, Gen.Mnemonic.CS_DEN]; omega
    have htl : (cse.take (idx.length / 3 * 32)).length = idx.length / 3 * 32 := by
      rw [List.length_take, hclen]; omega
    have hmem : (cse.take (idx.length / 3 * 32)).length ∈ Gen.Mnemonic.ENTROPY_BITS := by
      rw [htl]; simp only [Gen.Mnemonic.ENTROPY_BITS]; simp; omega
    simp only [hbits, entropyChecksum_of_mem H _ hmem] at h
    split_ifs at h with hd
    have he : cse.take (idx.length / 3 * 32) = e := by simpa using h
    have hd' : cse.drop (idx.length / 3 * 32) = csBits H (cse.take (idx.length / 3 * 32)) := by
      simpa using hd
    refine ⟨?_, by rw [← he, htl]⟩
    rw [bip39Indexes, ← he, entropyChecksum_of_mem H _ hmem]
    simp only [← hd', List.take_append_drop, base_eq, hci]
  · rintro ⟨h, hel⟩
    obtain ⟨idx', h1, _, _, h4⟩ := bip39_roundtrip_all H hH e (by
      simp only [Gen.Mnemonic.ENTROPY_BITS]; simp; omega)
    rw [h] at h1
    rw [Option.some.inj h1]
    exact h4

/-- a sentence `entropy_from_mnemonic` accepts has one of the six lengths (no hypothesis on `idx`) -/
theorem bip39Entropy_some_length (hH : ∀ b, (H b).length = 32) (idx : List Nat) (e : Bits)
    (h : bip39Entropy H idx = some e) :
    idx.length ∈ [12, 15, 18, 21, 24, 48] ∧ ∀ i ∈ idx, i < 2048 := by
  have hlt : ∀ i ∈ idx, i < 2048 := by
    by_contra hc
    have : bitsFromIndexes idx Gen.Mnemonic.BIP39_BASE = none := by
      unfold bitsFromIndexes
      rw [if_neg]
      intro hall
      exact hc fun i hi => by
        have := List.all_eq_true.mp hall i hi
        simp only [Gen.Mnemonic.BIP39_BASE] at this
        exact of_decide_eq_true this
    unfold bip39Entropy at h
    rw [this] at h
    simp at h
  refine ⟨?_, hlt⟩
  by_cases hne : idx = []
  · subst hne
    exact absurd h (by
      have hb : bitsFromIndexes [] Gen.Mnemonic.BIP39_BASE = some [false] := by decide
      have hs : binStrEntropyFromStr
          (([false] : Bits).take (([false] : Bits).length * Gen.Mnemonic.CS_NUM / Gen.Mnemonic.CS_DEN)) = none := by
        decide
      have : bip39Entropy H [] = none := by
        unfold bip39Entropy
        rw [hb]
        simp only
        unfold entropyChecksum
        rw [hs]
      rw [this]; simp)
  obtain ⟨cse, hc, hclen, _⟩ := indexesFromBits_bitsFromIndexes 11 (by decide) idx hne hlt
  unfold bip39Entropy at h
  rw [base_eq, hc] at h
  simp only at h
  generalize hb : cse.length * Gen.Mnemonic.CS_NUM / Gen.Mnemonic.CS_DEN = bits at h
  have hb' : bits = 11 * idx.length * 32 / 33 := by
    rw [← hb, hclen]; simp only [Gen.Mnemonic.CS_NUM, Gen.Mnemonic.CS_DEN]
  have htl : (cse.take bits).length = bits := by
    rw [List.length_take]; omega
  have htop : Gen.Mnemonic.ENTROPY_BITS.foldl max 0 = 512 := by decide
  by_cases hbig : bits > 512
  · -- truncated to 512 bits: the checksum is 16 bits, the sentence has more left over
    exfalso
    have hbs : binStrEntropyFromStr (cse.take bits) =
        some ((cse.take bits).take 512) := by
      unfold binStrEntropyFromStr
      simp only [htop]
      rw [if_pos (by rw [htl]; exact hbig)]
    unfold entropyChecksum at h
    rw [hbs] at h
    simp only at h
    have hcsl : (List.take
        ((bytesOfBits (List.take 512 (List.take bits cse))).length / Gen.Mnemonic.CS_DIV)
        (zfill 256 (binStr (ofBE (H (bytesOfBits (List.take 512 (List.take bits cse)))))))).length
        = 16 := by
      rw [List.length_take, zfill256_length H hH, bytesOfBits, beBytes_length, List.length_take, htl]
      simp only [Gen.Mnemonic.CS_DIV]
      omega
    generalize List.take
        ((bytesOfBits (List.take 512 (List.take bits cse))).length / Gen.Mnemonic.CS_DIV)
        (zfill 256 (binStr (ofBE (H (bytesOfBits (List.take 512 (List.take bits cse))))))) = cs
      at h hcsl
    by_cases hd : cse.drop bits = cs
    · have := congrArg List.length hd
      rw [List.length_drop, hcsl] at this
      omega
    · rw [if_pos hd] at h
      simp at h
  · have hmem : (cse.take bits).length ∈ Gen.Mnemonic.ENTROPY_BITS := by
      by_contra hnm
      have hbs : binStrEntropyFromStr (cse.take bits) = none := by
        unfold binStrEntropyFromStr
        simp only [htop]
        rw [if_neg (by rw [htl]; exact hbig), if_neg (by simpa using hnm)]
      unfold entropyChecksum at h
      rw [hbs] at h
      simp at h
    rw [htl] at hmem
    simp only [Gen.Mnemonic.ENTROPY_BITS] at hmem
    simp at hmem ⊢
    omega

/-- **the accepted sentences are exactly the encoder's images**, no side condition -/
theorem bip39Entropy_eq_some_iff_full (hH : ∀ b, (H b).length = 32) (idx : List Nat) (e : Bits) :
    bip39Entropy H idx = some e ↔
      idx.length ∈ [12, 15, 18, 21, 24, 48] ∧ bip39Indexes H e = some idx ∧
        e.length = idx.length / 3 * 32 := by
  constructor
  · intro h
    obtain ⟨hn, hlt⟩ := bip39Entropy_some_length H hH idx e h
    exact ⟨hn, (bip39Entropy_eq_some_iff_all H hH idx hn hlt e).mp h⟩
  · rintro ⟨hn, h1, h2⟩
    obtain ⟨idx', h3, _, hlt, h4⟩ := bip39_roundtrip_all H hH e (by
      have hn' : idx.length = 12 ∨ idx.length = 15 ∨ idx.length = 18 ∨ idx.length = 21 ∨
          idx.length = 24 ∨ idx.length = 48 := by simpa using hn
      simp only [Gen.Mnemonic.ENTROPY_BITS]; simp; omega)
    rw [h1] at h3
    rw [Option.some.inj h3]
    exact h4

example : ∃ idx, bip39Indexes (fun _ => List.replicate 32 7) (List.replicate 128 true) = some idx ∧
    idx.length = 12 ∧ bip39Entropy (fun _ => List.replicate 32 7) idx = some (List.replicate 128 true) := by
  obtain ⟨idx, h1, h2, _, h4⟩ := bip39_roundtrip (fun _ => List.replicate 32 7) (by simp)
    (List.replicate 128 true) (by simp)
  exact ⟨idx, h1, by simpa using h2, h4⟩

example : ∃ bits, bitsFromIndexes (indexesFromBits [false, false, false, true, false, true] (2 ^ 3)) (2 ^ 3)
    = some bits ∧ bits = [false, false, false, true, false, true] :=
  ⟨_, bitsFromIndexes_indexesFromBits 3 (by decide) _ 2 (by decide) rfl, rfl⟩

end Bip39

end Btc.C13
