import Model.C13.ElectrumSearch
import Proofs.C13.Bits
import Proofs.C13.ElectrumVersion
/-
C13: Electrum's candidate search (`electrum._search_mnemonic`, `mnemonic_from_entropy`).  The loop returns the LEAST
candidate above the entropy integer that is neither a pre-2.0 seed nor a valid BIP39 sentence and whose seed version
starts with the requested prefix; its self-check never fires; and the closing read-back of `mnemonic_from_entropy`
refuses exactly a "2fa" sentence of a word count other than 12 or ≥ 20.
-/
namespace Btc.C13
open Gen.Mnemonic

theorem selfCheck_true (base c : Nat) (hb : 2 ≤ base) : selfCheck c base = true := by
  obtain ⟨bits, h1, h2⟩ := electrum_roundtrip base c hb
  simp [selfCheck, h1, h2]

section
variable (H : Bytes → Bytes) (isOld : Nat → Bool) (digits : Nat → List Nat) (base : Nat) (pre : List Nat)

theorem searchLoop_succ (hb : 2 ≤ base) (fuel c : Nat) :
    searchLoop H isOld digits base pre (fuel + 1) c =
      if searchQualifies H isOld digits base pre c then .ok c
      else searchLoop H isOld digits base pre fuel (c + 1) := by
  rw [searchLoop]
  simp only [selfCheck_true base c hb, not_true_eq_false, if_false, searchQualifies, show SEARCH_STEP = 1 from rfl]
  by_cases hs : searchSkips H isOld base c = true
  · simp [hs]
  · by_cases hp : pre.isPrefixOf (digits c) = true
    · simp [hs, hp]
    · simp [hs, hp]

theorem searchLoop_ok_iff (hb : 2 ≤ base) : ∀ (fuel c r : Nat),
    searchLoop H isOld digits base pre fuel c = .ok r ↔
      c ≤ r ∧ r < c + fuel ∧ searchQualifies H isOld digits base pre r = true ∧
      ∀ c', c ≤ c' → c' < r → searchQualifies H isOld digits base pre c' = false
  | 0, c, r => by
    simp only [searchLoop, Nat.add_zero]
    constructor
    · intro h; cases h
    · rintro ⟨h1, h2, _⟩; omega
  | fuel + 1, c, r => by
    rw [searchLoop_succ H isOld digits base pre hb]
    by_cases hq : searchQualifies H isOld digits base pre c = true
    · simp only [hq, if_true]
      constructor
      · intro h
        cases h
        exact ⟨Nat.le_refl _, by omega, hq, fun c' h1 h2 => by omega⟩
      · rintro ⟨h1, _, _, h4⟩
        by_cases hr : r = c
        · rw [hr]
        · have := h4 c (Nat.le_refl _) (by omega)
          rw [hq] at this; cases this
    · have hq' : searchQualifies H isOld digits base pre c = false := by
        cases h : searchQualifies H isOld digits base pre c
        · rfl
        · exact absurd h hq
      simp only [hq', Bool.false_eq_true, if_false]
      rw [searchLoop_ok_iff hb fuel (c + 1) r]
      constructor
      · rintro ⟨h1, h2, h3, h4⟩
        refine ⟨by omega, by omega, h3, ?_⟩
        intro c' hc1 hc2
        by_cases hcc : c' = c
        · rw [hcc]; exact hq'
        · exact h4 c' (by omega) hc2
      · rintro ⟨h1, h2, h3, h4⟩
        have hne : r ≠ c := by
          intro hrc; rw [hrc, hq'] at h3; cases h3
        exact ⟨by omega, by omega, h3, fun c' hc1 hc2 => h4 c' (by omega) hc2⟩

theorem searchLoop_error_iff (hb : 2 ≤ base) : ∀ (fuel c : Nat) (e : SearchErr),
    searchLoop H isOld digits base pre fuel c = .error e ↔
      e = .fuel ∧ ∀ c', c ≤ c' → c' < c + fuel → searchQualifies H isOld digits base pre c' = false
  | 0, c, e => by
    simp only [searchLoop, Nat.add_zero]
    constructor
    · intro h; cases h; exact ⟨rfl, fun c' h1 h2 => by omega⟩
    · rintro ⟨h, _⟩; rw [h]
  | fuel + 1, c, e => by
    rw [searchLoop_succ H isOld digits base pre hb]
    by_cases hq : searchQualifies H isOld digits base pre c = true
    · simp only [hq, if_true]
      constructor
      · intro h; cases h
      · rintro ⟨_, h⟩
        have := h c (Nat.le_refl _) (by omega)
        rw [hq] at this; cases this
    · have hq' : searchQualifies H isOld digits base pre c = false := by
        cases h : searchQualifies H isOld digits base pre c
        · rfl
        · exact absurd h hq
      simp only [hq', Bool.false_eq_true, if_false]
      rw [searchLoop_error_iff hb fuel (c + 1) e]
      constructor
      · rintro ⟨h1, h2⟩
        refine ⟨h1, ?_⟩
        intro c' hc1 hc2
        by_cases hcc : c' = c
        · rw [hcc]; exact hq'
        · exact h2 c' (by omega) (by omega)
      · rintro ⟨h1, h2⟩
        exact ⟨h1, fun c' hc1 hc2 => h2 c' (by omega) (by omega)⟩

end

/-- the rows of the generated `_MNEMONIC_VERSIONS` -/
theorem versions_lookup (typ : String) (pre : List Nat) (h : MNEMONIC_VERSIONS.lookup typ = some pre) :
    (typ = "standard" ∧ pre = [0, 1]) ∨ (typ = "segwit" ∧ pre = [1, 0, 0]) ∨
    (typ = "2fa" ∧ pre = [1, 0, 1]) ∨ (typ = "2fa_segwit" ∧ pre = [1, 0, 2]) := by
  simp only [MNEMONIC_VERSIONS, List.lookup] at h
  by_cases h1 : typ = "standard"
  · subst h1; simp at h; simp [h]
  · by_cases h2 : typ = "segwit"
    · subst h2; simp at h; simp [h]
    · by_cases h3 : typ = "2fa"
      · subst h3; simp at h; simp [h]
      · by_cases h4 : typ = "2fa_segwit"
        · subst h4; simp at h; simp [h]
        · have e1 : (typ == "standard") = false := by simpa using h1
          have e2 : (typ == "segwit") = false := by simpa using h2
          have e3 : (typ == "2fa") = false := by simpa using h3
          have e4 : (typ == "2fa_segwit") = false := by simpa using h4
          simp [e1, e2, e3, e4] at h

/-- the read-back of `mnemonic_from_entropy` on a sentence the search returned: it reads as the requested type unless
    the type is "2fa" and the word count is neither 12 nor at least 20 -/
theorem readBack_iff (typ : String) (pre digits : List Nat) (n : Nat)
    (h : MNEMONIC_VERSIONS.lookup typ = some pre) (hp : pre.isPrefixOf digits = true) :
    mnemonicType false digits n = typ ↔ (typ = "2fa" → n = 12 ∨ 20 ≤ n) := by
  have hp' : pre <+: digits := List.isPrefixOf_iff_prefix.mp hp
  obtain ⟨i1, i2, i3, i4, _, _⟩ := mnemonicType_iff digits n
  rcases versions_lookup typ pre h with ⟨rfl, rfl⟩ | ⟨rfl, rfl⟩ | ⟨rfl, rfl⟩ | ⟨rfl, rfl⟩
  · rw [i1]; simp [hp']
  · rw [i2]; simp [hp']
  · rw [i3]; simp [hp']
  · rw [i4]; simp [hp']

/-- `mnemonic_from_entropy` answers candidate `c` exactly when the type is one of the four, `c` is the least qualifying
    candidate above the entropy integer (within the fuel), and — for "2fa" only — it has 12 or at least 20 words -/
theorem electrumGenerate_ok_iff (H : Bytes → Bytes) (isOld : Nat → Bool) (digits : Nat → List Nat) (base : Nat)
    (hb : 2 ≤ base) (typ : String) (fuel e c : Nat) :
    electrumGenerate H isOld digits base typ fuel e = .ok c ↔
      ∃ pre, MNEMONIC_VERSIONS.lookup typ = some pre ∧ e < c ∧ c ≤ e + fuel ∧
        searchQualifies H isOld digits base pre c = true ∧
        (∀ c', e < c' → c' < c → searchQualifies H isOld digits base pre c' = false) ∧
        (typ = "2fa" → (electrumIndexes c base).length = 12 ∨ 20 ≤ (electrumIndexes c base).length) := by
  unfold electrumGenerate
  cases hl : MNEMONIC_VERSIONS.lookup typ with
  | none => simp
  | some pre =>
    simp only [Option.some.injEq, exists_eq_left']
    unfold searchMnemonic
    cases hs : searchLoop H isOld digits base pre fuel (e + SEARCH_FIRST) with
    | error err =>
      simp only [reduceCtorEq, false_iff]
      rintro ⟨h1, h2, h3, h4, _⟩
      have := (searchLoop_ok_iff H isOld digits base pre hb fuel (e + SEARCH_FIRST) c).mpr
        ⟨by show e + 1 ≤ c; omega, by show c < e + 1 + fuel; omega, h3,
         fun c' hc1 hc2 => h4 c' (by have : e + 1 ≤ c' := hc1; omega) hc2⟩
      rw [hs] at this; cases this
    | ok r =>
      obtain ⟨h1, h2, h3, h4⟩ := (searchLoop_ok_iff H isOld digits base pre hb fuel (e + SEARCH_FIRST) r).mp hs
      have h1' : e + 1 ≤ r := h1
      have h2' : r < e + 1 + fuel := h2
      have hq := h3
      simp only [searchQualifies, Bool.and_eq_true, Bool.not_eq_eq_eq_not, Bool.not_true, searchSkips,
        Bool.or_eq_false_iff] at hq
      obtain ⟨⟨hold, _⟩, hpre⟩ := hq
      have hrb := readBack_iff typ pre (digits r) (electrumIndexes r base).length hl hpre
      simp only [hold]
      constructor
      · intro h
        split at h
        · rename_i heq
          cases h
          exact ⟨by omega, by omega, h3, fun c' hc1 hc2 => h4 c' (by show e + 1 ≤ c'; omega) hc2, hrb.mp heq⟩
        · cases h
      · rintro ⟨g1, g2, g3, g4, g5⟩
        have hrc : r = c := by
          rcases Nat.lt_trichotomy r c with hlt | heq | hgt
          · have := g4 r (by omega) hlt
            rw [h3] at this; cases this
          · exact heq
          · have := h4 c (by show e + 1 ≤ c; omega) hgt
            rw [g3] at this; cases this
        subst hrc
        rw [if_pos (hrb.mpr g5)]

/-- … and otherwise it is an error: never the self-check; out of fuel exactly when no candidate qualifies within the
    fuel; the read-back exactly for a "2fa" found at a wrong word count -/
theorem electrumGenerate_error_iff (H : Bytes → Bytes) (isOld : Nat → Bool) (digits : Nat → List Nat) (base : Nat)
    (hb : 2 ≤ base) (typ : String) (fuel e : Nat) :
    electrumGenerate H isOld digits base typ fuel e ≠ .error .selfcheck ∧
    (electrumGenerate H isOld digits base typ fuel e = .error .unknownType ↔ MNEMONIC_VERSIONS.lookup typ = none) ∧
    (electrumGenerate H isOld digits base typ fuel e = .error .fuel ↔
      ∃ pre, MNEMONIC_VERSIONS.lookup typ = some pre ∧
        ∀ c', e < c' → c' ≤ e + fuel → searchQualifies H isOld digits base pre c' = false) := by
  unfold electrumGenerate
  cases hl : MNEMONIC_VERSIONS.lookup typ with
  | none => simp
  | some pre =>
    simp only [Option.some.injEq, exists_eq_left', reduceCtorEq, iff_false]
    unfold searchMnemonic
    cases hs : searchLoop H isOld digits base pre fuel (e + SEARCH_FIRST) with
    | error err =>
      obtain ⟨h1, h2⟩ := (searchLoop_error_iff H isOld digits base pre hb fuel (e + SEARCH_FIRST) err).mp hs
      subst h1
      refine ⟨by simp, by simp, ?_⟩
      simp only [true_iff]
      intro c' hc1 hc2
      exact h2 c' (by show e + 1 ≤ c'; omega) (by show c' < e + 1 + fuel; omega)
    | ok r =>
      obtain ⟨h1, h2, h3, h4⟩ := (searchLoop_ok_iff H isOld digits base pre hb fuel (e + SEARCH_FIRST) r).mp hs
      have h1' : e + 1 ≤ r := h1
      have h2' : r < e + 1 + fuel := h2
      dsimp only
      refine ⟨by split <;> simp, by split <;> simp, ?_⟩
      constructor
      · intro h; split at h <;> cases h
      · intro h
        have := h r (by omega) (by omega)
        rw [h3] at this; cases this

end Btc.C13
