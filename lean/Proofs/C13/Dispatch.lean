import Model.C13.Dispatch
import Proofs.C13.Bits
/-
dispatch.py at word-index level: the BIP39 verdict for the language the caller names is the checksum verdict of
THAT language's indexes.
-/
namespace Btc.C13

theorem bip39SeedType_unknown (H : Bytes → Bytes) (n : Nat) (idx : List Nat) :
    bip39SeedType H n false idx = "" := by
  unfold bip39SeedType; split_ifs <;> simp_all

theorem bip39SeedType_counted (H : Bytes → Bytes) (idx : List Nat) (hn : idx.length ∈ [12, 15, 18, 21, 24]) :
    bip39SeedType H idx.length true idx =
      match bip39Entropy H idx with
      | some _ => "bip39"
      | none => "bip39_wordlist" := by
  unfold bip39SeedType
  have h0 : idx.length ≠ 0 := by
    intro h; rw [h] at hn; simp at hn
  have hc : idx.length ∈ Gen.Mnemonic.BIP39_WORD_COUNTS := hn
  simp [h0, hc]
  cases bip39Entropy H idx <;> rfl

theorem bip39SeedType_eq_bip39_iff (H : Bytes → Bytes) (hH : ∀ b, (H b).length = 32) (idx : List Nat)
    (hn : idx.length ∈ [12, 15, 18, 21, 24]) (hlt : ∀ i ∈ idx, i < 2048) :
    bip39SeedType H idx.length true idx = "bip39" ↔
      ∃ e, bip39Indexes H e = some idx ∧ e.length = idx.length / 3 * 32 := by
  rw [bip39SeedType_counted H idx hn]
  cases h : bip39Entropy H idx with
  | none =>
    simp only
    constructor
    · intro h'; exact absurd h' (by decide)
    · rintro ⟨e, he⟩
      have := (bip39Entropy_eq_some_iff H hH idx hn hlt e).2 he
      rw [h] at this; exact absurd this (by simp)
  | some e =>
    simp only [true_iff]
    exact ⟨e, (bip39Entropy_eq_some_iff H hH idx hn hlt e).1 h⟩

theorem bip39SeedType_wrong_count (H : Bytes → Bytes) (n : Nat) (idx : List Nat) (h0 : n ≠ 0)
    (hn : n ∉ [12, 15, 18, 21, 24]) : bip39SeedType H n true idx = "bip39_wordlist" := by
  unfold bip39SeedType
  have hc : n ∉ Gen.Mnemonic.BIP39_WORD_COUNTS := hn
  simp [h0, hc]

end Btc.C13
