import Model.C13.Entry
import Proofs.C13.TwoLevel
import Proofs.C13.Codec
import Proofs.C13.Rs1024
import Proofs.C13.Feistel
import Proofs.C13.FeistelWrong
import Proofs.C13.Gf256Field
import Proofs.C13.Lengths
/-
C13: the refusals of `recoverGroup` / the group-count check lifted to `recoverEms` and `masterSecret`, and the
composition T6 ∘ T5 ∘ T4 at sentence level: every admissible selection of the sentences made by
`mnemonics_from_master_secret` is turned back into the master secret by `master_secret_from_mnemonics`.
-/
namespace Btc.C13
open Gen.Slip39

/-! ### `mapM` facts -/

theorem mapM_except_error {ε β γ : Type} (f : β → Except ε γ) (l : List β)
    (h : ∃ a ∈ l, ∃ e, f a = .error e) : ∃ e, l.mapM f = .error e := by
  induction l with
  | nil => obtain ⟨a, ha, _⟩ := h; simp at ha
  | cons a as ih =>
    rw [List.mapM_cons]
    cases hfa : f a with
    | error e => exact ⟨e, rfl⟩
    | ok b =>
      obtain ⟨a', ha', e, he⟩ := h
      rcases List.mem_cons.mp ha' with rfl | hmem
      · rw [hfa] at he; cases he
      · obtain ⟨e', he'⟩ := ih ⟨a', hmem, e, he⟩
        exact ⟨e', by rw [he']; rfl⟩

theorem mapM_except_length {ε β γ : Type} (f : β → Except ε γ) (l : List β) (r : List γ)
    (h : l.mapM f = .ok r) : r.length = l.length := by
  induction l generalizing r with
  | nil =>
    have : r = [] := by
      have h' : (Except.ok [] : Except ε (List γ)) = .ok r := h
      cases h'; rfl
    rw [this]; rfl
  | cons a as ih =>
    rw [List.mapM_cons] at h
    cases hfa : f a with
    | error e => rw [hfa] at h; cases h
    | ok b =>
      cases hr : as.mapM f with
      | error e => rw [hfa, hr] at h; cases h
      | ok bs =>
        rw [hfa, hr] at h
        have : r = b :: bs := by
          have h' : (Except.ok (b :: bs) : Except ε (List γ)) = .ok r := h
          cases h'; rfl
        rw [this, List.length_cons, List.length_cons, ih bs hr]

/-! ### (1) refusals lifted -/

section Refusal
variable {α : Type} [DecidableEq α]

theorem grouped_error_of_group (o : FOps α) (digest : List α → List α → List α) (shares : List (Share α))
    (g : Nat) (hg : g ∈ shares.map (·.groupIndex)) (e : ShamirErr)
    (h : recoverGroup o digest shares g = .error e) : ∃ e', grouped o digest shares = .error e' :=
  mapM_except_error _ _ ⟨g, mem_eraseDups.mpr hg, e, h⟩

theorem recoverEms_error_of_grouped (o : FOps α) (digest : List α → List α → List α)
    (shares : List (Share α)) (h : ∃ e, grouped o digest shares = .error e) :
    ∃ e, recoverEms o digest shares = .error e := by
  obtain ⟨e, he⟩ := h
  unfold recoverEms
  cases shares with
  | nil => exact ⟨_, rfl⟩
  | cons first rest =>
    simp only
    by_cases hc : commonField (first :: rest) = true
    · rw [if_neg (by simpa using hc), he]
      exact ⟨_, rfl⟩
    · rw [if_pos (by simpa using hc)]
      exact ⟨_, rfl⟩

/-- a group present with the wrong number of members makes `master_secret_from_mnemonics` fail -/
theorem recoverEms_wrong_member_count (o : FOps α) (digest : List α → List α → List α)
    (shares : List (Share α)) (g t : Nat) (hg : g ∈ shares.map (·.groupIndex))
    (ht : ((shares.filter (·.groupIndex = g)).map (·.memberThreshold)).eraseDups = [t])
    (hn : (shares.filter (·.groupIndex = g)).length ≠ t) :
    ∃ e, recoverEms o digest shares = .error e := by
  apply recoverEms_error_of_grouped
  have : ∃ e, recoverGroup o digest shares g = .error e := by
    unfold recoverGroup
    simp only [ht]
    split_ifs
    · exact ⟨_, rfl⟩
    · exact ⟨_, rfl⟩
  obtain ⟨e, he⟩ := this
  exact grouped_error_of_group o digest shares g hg e he

/-- the wrong number of groups makes it fail -/
theorem recoverEms_wrong_group_count (o : FOps α) (digest : List α → List α → List α)
    (first : Share α) (rest : List (Share α))
    (hn : ((first :: rest).map (·.groupIndex)).eraseDups.length ≠ first.groupThreshold) :
    ∃ e, recoverEms o digest (first :: rest) = .error e := by
  cases hgr : grouped o digest (first :: rest) with
  | error e => exact recoverEms_error_of_grouped o digest _ ⟨e, hgr⟩
  | ok gs =>
    have hl : gs.length = ((first :: rest).map (·.groupIndex)).eraseDups.length :=
      mapM_except_length _ _ _ hgr
    unfold recoverEms
    simp only
    by_cases hc : commonField (first :: rest) = true
    · rw [if_neg (by simpa using hc), hgr]
      simp only
      rw [if_pos (by rw [hl]; exact hn)]
      exact ⟨_, rfl⟩
    · rw [if_pos (by simpa using hc)]
      exact ⟨_, rfl⟩

end Refusal

theorem masterSecret_error_of_recoverEms (hm : Bytes → Bytes → Bytes) (F : ByteShare → Nat → Bytes → Bytes)
    (sentences : List (List Nat)) (bs : List ByteShare) (hbs : sentences.mapM shareFromIndexes = .ok bs)
    (h : ∃ e, recoverEms gf256Ops (digestGF hm) (bs.map toGF) = .error e) :
    ∃ e, masterSecret hm F sentences = .error e := by
  obtain ⟨e, he⟩ := h
  unfold masterSecret
  rw [hbs]
  cases bs with
  | nil => exact ⟨_, rfl⟩
  | cons first rest =>
    simp only
    rw [he]
    exact ⟨_, rfl⟩

/-! ### (2) the sentence-level round trip -/

theorem mapM_option_map {β γ δ : Type} (f : β → Option γ) (g : γ → δ) (l : List β) (r : List γ)
    (h : l.mapM f = some r) : l.mapM (fun a => (f a).map g) = some (r.map g) := by
  induction l generalizing r with
  | nil =>
    have : r = [] := by
      have h' : (some [] : Option (List γ)) = some r := h
      cases h'; rfl
    rw [this]; rfl
  | cons a as ih =>
    rw [List.mapM_cons] at h
    cases hfa : f a with
    | none => rw [hfa] at h; cases h
    | some b =>
      cases hr : as.mapM f with
      | none => rw [hfa, hr] at h; cases h
      | some bs =>
        rw [hfa, hr] at h
        have : r = b :: bs := by
          have h' : (some (b :: bs) : Option (List γ)) = some r := h
          cases h'; rfl
        rw [this, List.mapM_cons, hfa, ih bs hr]
        rfl

theorem mapM_option_mem {β γ : Type} (f : β → Option γ) (l : List β) (r : List γ)
    (h : l.mapM f = some r) : r.length = l.length ∧ ∀ b ∈ r, ∃ a ∈ l, f a = some b := by
  induction l generalizing r with
  | nil =>
    have : r = [] := by
      have h' : (some [] : Option (List γ)) = some r := h
      cases h'; rfl
    rw [this]; exact ⟨rfl, fun b hb => by simp at hb⟩
  | cons a as ih =>
    rw [List.mapM_cons] at h
    cases hfa : f a with
    | none => rw [hfa] at h; cases h
    | some b =>
      cases hr : as.mapM f with
      | none => rw [hfa, hr] at h; cases h
      | some bs =>
        rw [hfa, hr] at h
        have : r = b :: bs := by
          have h' : (some (b :: bs) : Option (List γ)) = some r := h
          cases h'; rfl
        obtain ⟨il, im⟩ := ih bs hr
        rw [this]
        refine ⟨by simp [il], ?_⟩
        intro x hx
        rcases List.mem_cons.mp hx with rfl | hx
        · exact ⟨a, List.mem_cons_self .., hfa⟩
        · obtain ⟨a', ha', hfa'⟩ := im x hx
          exact ⟨a', List.mem_cons_of_mem _ ha', hfa'⟩

theorem mapM_except_ok_map {ε β γ δ : Type} (f : γ → Except ε δ) (k : β → γ) (g : β → δ) (l : List β)
    (h : ∀ a ∈ l, f (k a) = .ok (g a)) : (l.map k).mapM f = .ok (l.map g) := by
  induction l with
  | nil => rfl
  | cons a as ih =>
    rw [List.map_cons, List.mapM_cons, h a (List.mem_cons_self ..),
      ih (fun b hb => h b (List.mem_cons_of_mem _ hb))]
    rfl

theorem ofByte_toByte (a : GF256) : GF256.ofByte (GF256.toByte a) = a := by
  apply GF256.ext'
  simp only [GF256.ofByte, GF256.toByte]
  exact Nat.mod_eq_of_lt a.lt

theorem toByte_ofByte (b : UInt8) : GF256.toByte (GF256.ofByte b) = b := by
  simp [GF256.ofByte, GF256.toByte]

theorem toGF_fromGF (s : Share GF256) : toGF (fromGF s) = s := by
  cases s
  simp [toGF, fromGF, Function.comp_def, ofByte_toByte]

theorem map_toByte_ofByte (l : Bytes) : (l.map GF256.ofByte).map GF256.toByte = l := by
  simp [Function.comp_def, toByte_ofByte]

theorem digestGF_length (hm : Bytes → Bytes → Bytes) (hhm : ∀ k m, DIGEST_BYTES ≤ (hm k m).length)
    (rp s : List GF256) : (digestGF hm rp s).length = DIGEST_BYTES := by
  simp only [digestGF, digestWith, List.length_map, List.length_take]
  exact Nat.min_eq_left (hhm _ _)

theorem shareValid_fromGF (sh : Share GF256) (h1 : sh.identifier ≤ 32767) (h2 : sh.iterationExponent < 16)
    (h3 : sh.groupIndex < 16) (h4 : 1 ≤ sh.groupThreshold) (h4' : sh.groupThreshold ≤ sh.groupCount)
    (h5 : sh.groupCount ≤ 16) (h6 : sh.memberIndex < 16) (h7 : 1 ≤ sh.memberThreshold)
    (h7' : sh.memberThreshold ≤ 16) (h8 : validLength sh.value.length = true) :
    shareValid (fromGF sh) = true := by
  simp only [shareValid, fromGF, List.length_map, MAX_SHARE_COUNT, ID_BITS, E_BITS, h8]
  simp
  omega

/-- what every entry of the share table looks like -/
theorem table_entries {α : Type} [DecidableEq α] (o : FOps α) (digest : List α → List α → List α)
    (hdl : ∀ rp s, (digest rp s).length = DIGEST_BYTES)
    (identifier : Nat) (extendable : Bool) (e gt : Nat) (groups : List (Nat × Nat)) (ems : List α)
    (groupRnd : List (List α)) (groupRp : List α) (memberRnd : Nat → List (List α)) (memberRp : Nat → List α)
    (hgr : 2 ≤ gt → groupRnd.length = gt - 2 ∧ (∀ r ∈ groupRnd, r.length = ems.length) ∧
      groupRp.length + DIGEST_BYTES = ems.length)
    (hmr : ∀ g, g < groups.length → 2 ≤ (groups.getD g (0, 0)).1 →
      (memberRnd g).length = (groups.getD g (0, 0)).1 - 2 ∧ (∀ r ∈ memberRnd g, r.length = ems.length) ∧
      (memberRp g).length + DIGEST_BYTES = ems.length)
    {table : List (List (Share α))}
    (h : makeShares o digest identifier extendable e gt groups ems groupRnd groupRp memberRnd memberRp
      = .ok table) :
    ∀ row ∈ table, ∀ sh ∈ row, sh.identifier = identifier ∧ sh.extendable = extendable ∧
      sh.iterationExponent = e ∧ sh.groupThreshold = gt ∧ sh.groupCount = groups.length ∧
      sh.groupIndex < groups.length ∧ sh.memberIndex < 16 ∧ 1 ≤ sh.memberThreshold ∧
      sh.memberThreshold ≤ 16 ∧ sh.value.length = ems.length := by
  unfold makeShares at h
  cases hgv : splitWithDigest o digest gt groups.length ems groupRnd groupRp with
  | error err => rw [hgv] at h; simp at h
  | ok gv =>
    rw [hgv] at h
    simp only at h
    obtain ⟨hgvl, hgvs⟩ := splitWithDigest_shape o digest hdl hgr hgv
    obtain ⟨htl, hrows⟩ := memberRows_spec o digest _ memberRnd memberRp gv 0 groups table hgvl h
    simp only [Nat.zero_add] at hrows
    intro row hrow sh hsh
    obtain ⟨j, hj, rfl⟩ := List.mem_iff_getElem.mp hrow
    have hjN : j < groups.length := by omega
    obtain ⟨values, hv1, hv2⟩ := hrows j hjN
    have hgetD : table.getD j [] = table[j] := by simp [hj]
    rw [hgetD] at hv2
    rw [hv2] at hsh
    have hgl : (gv.getD j []).length = ems.length := hgvs _ (getD_mem' gv j (by omega))
    have hsh2 := splitWithDigest_shape o digest hdl (by
      intro h2
      rw [hgl]
      exact hmr j hjN h2) hv1
    have hb := splitSecret_bounds (by unfold splitWithDigest at hv1; exact hv1)
    obtain ⟨i, hi, hget⟩ := List.mem_iff_getElem.mp hsh
    have hi' : i < values.length := by simpa [groupRow] using hi
    have hg := groupRow_getElem? (α := α) ⟨identifier, extendable, e, gt, groups.length⟩ j
      (groups.getD j (0, 0)).1 values i hi'
    rw [List.getElem?_eq_getElem hi, hget] at hg
    have hshe := Option.some.inj hg
    have hvl : (values.getD i []).length = ems.length := by
      rw [hsh2.2 _ (getD_mem' values i hi'), hgl]
    rw [hshe]
    refine ⟨rfl, rfl, rfl, rfl, rfl, hjN, ?_, hb.1, le_trans hb.2.1 hb.2.2, hvl⟩
    show i < 16
    have := hsh2.1
    omega

/-- the word-index encoding of a table entry -/
def encShare (sh : Share GF256) : List Nat := (shareIndexes (fromGF sh)).getD []

/-- **T6 ∘ T5 at sentence level, the decryption left open**: `mnemonics_from_master_secret` succeeds on valid inputs
    (passphrase `pw`, round function `RF`), and for every admissible selection of its sentences, in any order,
    `master_secret_from_mnemonics` under ANY valid passphrase `pw'` / round function `RF'` answers with the decryption
    under `RF'` of the encrypted master secret the generator made under `RF`. -/
theorem masterSecretFromMnemonics_mnemonicsFromMasterSecret_any
    (hm : Bytes → Bytes → Bytes) (RF RF' : Nat → Nat → Bool → Nat → Bytes → Bytes)
    (hRF : ∀ e id ext i r, (RF e id ext i r).length = r.length)
    (hhm : ∀ k m, DIGEST_BYTES ≤ (hm k m).length)
    (pw pw' ms : Bytes) (groups : List (Nat × Nat)) (gt e : Nat) (ext : Bool) (idBytes : Bytes)
    (groupRnd : List (List GF256)) (groupRp : List GF256)
    (memberRnd : Nat → List (List GF256)) (memberRp : Nat → List GF256)
    (hpw : validPassphrase pw = true) (hpw' : validPassphrase pw' = true) (hms : validLength ms.length = true) (he : e < 16)
    (hadm : groupsAdmissible groups = true)
    (h0 : 0 < gt) (h1 : gt ≤ groups.length) (h2 : groups.length ≤ 16)
    (hgs : ∀ g ∈ groups, 0 < g.1 ∧ g.1 ≤ g.2 ∧ g.2 ≤ 16)
    (hgr : 2 ≤ gt → groupRnd.length = gt - 2 ∧ (∀ r ∈ groupRnd, r.length = ms.length) ∧
      groupRp.length + DIGEST_BYTES = ms.length)
    (hmr : ∀ g, g < groups.length → 2 ≤ (groups.getD g (0, 0)).1 →
      (memberRnd g).length = (groups.getD g (0, 0)).1 - 2 ∧ (∀ r ∈ memberRnd g, r.length = ms.length) ∧
      (memberRp g).length + DIGEST_BYTES = ms.length) :
    ∃ sentences ems,
      mnemonicsFromMasterSecret hm RF pw ms groups gt e ext idBytes groupRnd groupRp memberRnd memberRp
        = .ok sentences ∧
      feistel (RF e (ofBE idBytes &&& ((1 <<< ID_BITS) - 1)) ext) ms false = some ems ∧ ems.length = ms.length ∧
      ∀ sel : List (Nat × Nat), sel ≠ [] → sel.Nodup →
        (∀ p ∈ sel, p.1 < groups.length ∧ p.2 < (groups.getD p.1 (0, 0)).2) →
        (sel.map (·.1)).eraseDups.length = gt →
        (∀ g ∈ sel.map (·.1), (sel.filter (·.1 = g)).length = (groups.getD g (0, 0)).1) →
        ∃ chosen, sel.mapM (fun p => (sentences.getD p.1 [])[p.2]?) = some chosen ∧
          masterSecretFromMnemonics hm RF' pw' chosen =
            match feistel (RF' e (ofBE idBytes &&& ((1 <<< ID_BITS) - 1)) ext) ems true with
            | none => .error (.slip .feistel)
            | some ms' => .ok ms' := by
  have hmask : (1 <<< ID_BITS) - 1 = 32767 := by decide
  obtain ⟨identifier, hidd⟩ : ∃ i, i = ofBE idBytes &&& ((1 <<< ID_BITS) - 1) := ⟨_, rfl⟩
  have hid : identifier ≤ 32767 := by rw [hidd, hmask]; exact Nat.and_le_right
  have hms' : 16 ≤ ms.length ∧ ms.length % 2 = 0 := by
    simpa [validLength, MIN_SECRET_BYTES] using hms
  obtain ⟨ems, hems, hemsl, _⟩ :=
    feistel_decrypt_encrypt (RF e identifier ext) (hRF e identifier ext) ms hms'.2
  have hdl := digestGF_length hm hhm
  have hl : (ems.map GF256.ofByte).length = ms.length := by rw [List.length_map, hemsl]
  have hgr' : 2 ≤ gt → groupRnd.length = gt - 2 ∧
      (∀ r ∈ groupRnd, r.length = (ems.map GF256.ofByte).length) ∧
      groupRp.length + DIGEST_BYTES = (ems.map GF256.ofByte).length := by
    intro h; rw [hl]; exact hgr h
  have hmr' : ∀ g, g < groups.length → 2 ≤ (groups.getD g (0, 0)).1 →
      (memberRnd g).length = (groups.getD g (0, 0)).1 - 2 ∧
      (∀ r ∈ memberRnd g, r.length = (ems.map GF256.ofByte).length) ∧
      (memberRp g).length + DIGEST_BYTES = (ems.map GF256.ofByte).length := by
    intro g hg h; rw [hl]; exact hmr g hg h
  obtain ⟨table, htable⟩ := makeShares_isOk gf256Ops (digestGF hm) identifier ext e gt groups
    (ems.map GF256.ofByte) groupRnd groupRp memberRnd memberRp h0 h1 h2 hgs
  have hent := table_entries gf256Ops (digestGF hm) hdl identifier ext e gt groups (ems.map GF256.ofByte)
    groupRnd groupRp memberRnd memberRp hgr' hmr' htable
  have henc : ∀ row ∈ table, ∀ sh ∈ row, shareIndexes (fromGF sh) = some (encShare sh) ∧
      shareFromIndexes (encShare sh) = .ok (fromGF sh) := by
    intro row hrow sh hsh
    obtain ⟨a1, a2, a3, a4, a5, a6, a7, a8, a9, a10⟩ := hent row hrow sh hsh
    have hvalid : shareValid (fromGF sh) = true :=
      shareValid_fromGF sh (by rw [a1]; exact hid) (by rw [a3]; exact he) (by omega) (by omega)
        (by omega) (by omega) a7 a8 a9 (by rw [a10, hl]; exact hms)
    obtain ⟨idx, hi1, hi2⟩ := codec_roundtrip (fun idx ext _ => rsVerify_rsChecksum_any idx ext) _ hvalid
    have : encShare sh = idx := by rw [encShare, hi1]; rfl
    rw [this]; exact ⟨hi1, hi2⟩
  have hsent : table.mapM (fun row => row.mapM fun sh => shareIndexes (fromGF sh)) =
      some (table.map fun row => row.map encShare) :=
    mapM_option_some _ _ _ fun row hr => mapM_option_some _ _ _ fun sh hs => (henc row hr sh hs).1
  refine ⟨table.map fun row => row.map encShare, ems, ?_, by rw [← hidd]; exact hems, hemsl, ?_⟩
  · unfold mnemonicsFromMasterSecret
    rw [if_neg (by simp [hpw]), if_neg (by simp [hms]), if_neg (by simpa [E_BITS] using he),
      if_neg (by simp [hadm])]
    simp only [← hidd, hems, htable, hsent]
  · intro sel hne hnd hrange hgroups hmembers
    obtain ⟨picked, hpick, hrec⟩ := recoverEms_makeShares_exists gf256Ops_lawful gf256Ops_xinj (digestGF hm)
      hdl identifier ext e gt groups (ems.map GF256.ofByte) groupRnd groupRp memberRnd memberRp hgr' hmr'
      htable sel hne hnd hrange hgroups hmembers
    obtain ⟨hpl, hpm⟩ := mapM_option_mem _ _ _ hpick
    have hpt : ∀ sh ∈ picked, ∃ row ∈ table, sh ∈ row := by
      intro sh hsh
      obtain ⟨p, _, hp⟩ := hpm sh hsh
      unfold pick at hp
      have hmem : sh ∈ table.getD p.1 [] := List.mem_of_getElem? hp
      by_cases hlt : p.1 < table.length
      · exact ⟨table.getD p.1 [], getD_mem' table p.1 hlt, hmem⟩
      · have : table.getD p.1 [] = [] := by simp [Nat.le_of_not_lt hlt]
        rw [this] at hmem; simp at hmem
    refine ⟨picked.map encShare, ?_, ?_⟩
    · have hfun : (fun p : Nat × Nat => ((table.map fun row => row.map encShare).getD p.1 [])[p.2]?) =
          fun p => (pick table p).map encShare := by
        funext p
        unfold pick
        by_cases hlt : p.1 < table.length
        · simp [hlt]
        · simp [Nat.le_of_not_lt hlt]
      rw [hfun]
      exact mapM_option_map _ _ _ _ hpick
    · have hdecode : (picked.map encShare).mapM shareFromIndexes = .ok (picked.map fromGF) :=
        mapM_except_ok_map _ _ _ _ fun sh hsh => by
          obtain ⟨row, hrow, hmem⟩ := hpt sh hsh
          exact (henc row hrow sh hmem).2
      cases picked with
      | nil =>
        exfalso
        have : sel.length = 0 := by simpa using hpl.symm
        exact hne (List.length_eq_zero_iff.mp this)
      | cons first rest =>
        obtain ⟨row, hrow, hmem⟩ := hpt first (List.mem_cons_self ..)
        obtain ⟨a1, a2, a3, _⟩ := hent row hrow first hmem
        unfold masterSecretFromMnemonics
        rw [if_neg (by simp [hpw'])]
        unfold masterSecret
        rw [hdecode]
        simp only [List.map_cons]
        have htg : toGF (fromGF first) :: (rest.map fromGF).map toGF = first :: rest := by
          rw [toGF_fromGF, List.map_map]
          congr 1
          conv_rhs => rw [← List.map_id rest]
          apply List.map_congr_left
          intro s _
          exact toGF_fromGF s
        rw [htg, hrec]
        simp only [map_toByte_ofByte]
        have hF : (fun i r => RF' (fromGF first).iterationExponent (fromGF first).identifier
            (fromGF first).extendable i r) = RF' e identifier ext := by
          funext i r
          show RF' first.iterationExponent first.identifier first.extendable i r = _
          rw [a1, a2, a3]
        simp only [hF, ← hidd]
        cases feistel (RF' e identifier ext) ems true <;> rfl

/-- **T6 ∘ T5 ∘ T4 at sentence level**: `mnemonics_from_master_secret` succeeds on valid inputs, and every
    admissible selection of its sentences, in any order, is turned back into the master secret by
    `master_secret_from_mnemonics` under the same passphrase. -/
theorem masterSecretFromMnemonics_mnemonicsFromMasterSecret
    (hm : Bytes → Bytes → Bytes) (RF : Nat → Nat → Bool → Nat → Bytes → Bytes)
    (hRF : ∀ e id ext i r, (RF e id ext i r).length = r.length)
    (hhm : ∀ k m, DIGEST_BYTES ≤ (hm k m).length)
    (pw ms : Bytes) (groups : List (Nat × Nat)) (gt e : Nat) (ext : Bool) (idBytes : Bytes)
    (groupRnd : List (List GF256)) (groupRp : List GF256)
    (memberRnd : Nat → List (List GF256)) (memberRp : Nat → List GF256)
    (hpw : validPassphrase pw = true) (hms : validLength ms.length = true) (he : e < 16)
    (hadm : groupsAdmissible groups = true)
    (h0 : 0 < gt) (h1 : gt ≤ groups.length) (h2 : groups.length ≤ 16)
    (hgs : ∀ g ∈ groups, 0 < g.1 ∧ g.1 ≤ g.2 ∧ g.2 ≤ 16)
    (hgr : 2 ≤ gt → groupRnd.length = gt - 2 ∧ (∀ r ∈ groupRnd, r.length = ms.length) ∧
      groupRp.length + DIGEST_BYTES = ms.length)
    (hmr : ∀ g, g < groups.length → 2 ≤ (groups.getD g (0, 0)).1 →
      (memberRnd g).length = (groups.getD g (0, 0)).1 - 2 ∧ (∀ r ∈ memberRnd g, r.length = ms.length) ∧
      (memberRp g).length + DIGEST_BYTES = ms.length) :
    ∃ sentences,
      mnemonicsFromMasterSecret hm RF pw ms groups gt e ext idBytes groupRnd groupRp memberRnd memberRp
        = .ok sentences ∧
      ∀ sel : List (Nat × Nat), sel ≠ [] → sel.Nodup →
        (∀ p ∈ sel, p.1 < groups.length ∧ p.2 < (groups.getD p.1 (0, 0)).2) →
        (sel.map (·.1)).eraseDups.length = gt →
        (∀ g ∈ sel.map (·.1), (sel.filter (·.1 = g)).length = (groups.getD g (0, 0)).1) →
        ∃ chosen, sel.mapM (fun p => (sentences.getD p.1 [])[p.2]?) = some chosen ∧
          masterSecretFromMnemonics hm RF pw chosen = .ok ms := by
  obtain ⟨sentences, ems, hgen, hems, _, hsel⟩ := masterSecretFromMnemonics_mnemonicsFromMasterSecret_any hm RF RF
    hRF hhm pw pw ms groups gt e ext idBytes groupRnd groupRp memberRnd memberRp hpw hpw hms he hadm h0 h1 h2 hgs
    hgr hmr
  have hms' : ms.length % 2 = 0 := by
    have : 16 ≤ ms.length ∧ ms.length % 2 = 0 := by simpa [validLength, MIN_SECRET_BYTES] using hms
    exact this.2
  obtain ⟨c, hc, _, hdec⟩ := feistel_decrypt_encrypt (RF e (ofBE idBytes &&& ((1 <<< ID_BITS) - 1)) ext)
    (hRF _ _ _) ms hms'
  rw [hems] at hc
  have hce : ems = c := Option.some.inj hc
  subst hce
  refine ⟨sentences, hgen, ?_⟩
  intro sel hne hnd hrange hgroups hmembers
  obtain ⟨chosen, hch, hrec⟩ := hsel sel hne hnd hrange hgroups hmembers
  exact ⟨chosen, hch, by rw [hrec, hdec]⟩

/-- **wrong passphrase**: the same selection under ANOTHER valid passphrase / round function is never refused; it
    yields a secret of the same length, which is the master secret exactly when the other round function encrypts
    the master secret to the very ciphertext the right one made (Feistel injectivity; that PBKDF2 under two different
    passphrases does not do that is the cryptographic assumption, tested by the oracle `slip39.set`). -/
theorem masterSecretFromMnemonics_wrong_passphrase
    (hm : Bytes → Bytes → Bytes) (RF RF' : Nat → Nat → Bool → Nat → Bytes → Bytes)
    (hRF : ∀ e id ext i r, (RF e id ext i r).length = r.length)
    (hRF' : ∀ e id ext i r, (RF' e id ext i r).length = r.length)
    (hhm : ∀ k m, DIGEST_BYTES ≤ (hm k m).length)
    (pw pw' ms : Bytes) (groups : List (Nat × Nat)) (gt e : Nat) (ext : Bool) (idBytes : Bytes)
    (groupRnd : List (List GF256)) (groupRp : List GF256)
    (memberRnd : Nat → List (List GF256)) (memberRp : Nat → List GF256)
    (hpw : validPassphrase pw = true) (hpw' : validPassphrase pw' = true)
    (hms : validLength ms.length = true) (he : e < 16)
    (hadm : groupsAdmissible groups = true)
    (h0 : 0 < gt) (h1 : gt ≤ groups.length) (h2 : groups.length ≤ 16)
    (hgs : ∀ g ∈ groups, 0 < g.1 ∧ g.1 ≤ g.2 ∧ g.2 ≤ 16)
    (hgr : 2 ≤ gt → groupRnd.length = gt - 2 ∧ (∀ r ∈ groupRnd, r.length = ms.length) ∧
      groupRp.length + DIGEST_BYTES = ms.length)
    (hmr : ∀ g, g < groups.length → 2 ≤ (groups.getD g (0, 0)).1 →
      (memberRnd g).length = (groups.getD g (0, 0)).1 - 2 ∧ (∀ r ∈ memberRnd g, r.length = ms.length) ∧
      (memberRp g).length + DIGEST_BYTES = ms.length) :
    ∃ sentences ms',
      mnemonicsFromMasterSecret hm RF pw ms groups gt e ext idBytes groupRnd groupRp memberRnd memberRp
        = .ok sentences ∧ ms'.length = ms.length ∧
      (ms' = ms ↔ feistel (RF' e (ofBE idBytes &&& ((1 <<< ID_BITS) - 1)) ext) ms false =
                   feistel (RF e (ofBE idBytes &&& ((1 <<< ID_BITS) - 1)) ext) ms false) ∧
      ∀ sel : List (Nat × Nat), sel ≠ [] → sel.Nodup →
        (∀ p ∈ sel, p.1 < groups.length ∧ p.2 < (groups.getD p.1 (0, 0)).2) →
        (sel.map (·.1)).eraseDups.length = gt →
        (∀ g ∈ sel.map (·.1), (sel.filter (·.1 = g)).length = (groups.getD g (0, 0)).1) →
        ∃ chosen, sel.mapM (fun p => (sentences.getD p.1 [])[p.2]?) = some chosen ∧
          masterSecretFromMnemonics hm RF' pw' chosen = .ok ms' := by
  obtain ⟨sentences, ems, hgen, hems, _, hsel⟩ := masterSecretFromMnemonics_mnemonicsFromMasterSecret_any hm RF RF'
    hRF hhm pw pw' ms groups gt e ext idBytes groupRnd groupRp memberRnd memberRp hpw hpw' hms he hadm h0 h1 h2 hgs
    hgr hmr
  have hms' : ms.length % 2 = 0 := by
    have : 16 ≤ ms.length ∧ ms.length % 2 = 0 := by simpa [validLength, MIN_SECRET_BYTES] using hms
    exact this.2
  obtain ⟨c, m', hc, hm', hml, hiff⟩ := feistel_wrong_key (RF e (ofBE idBytes &&& ((1 <<< ID_BITS) - 1)) ext)
    (RF' e (ofBE idBytes &&& ((1 <<< ID_BITS) - 1)) ext) (hRF _ _ _) (hRF' _ _ _) ms hms'
  rw [hems] at hc
  have hce : ems = c := Option.some.inj hc
  subst hce
  refine ⟨sentences, m', hgen, hml, by rw [hems]; exact hiff, ?_⟩
  intro sel hne hnd hrange hgroups hmembers
  obtain ⟨chosen, hch, hrec⟩ := hsel sel hne hnd hrange hgroups hmembers
  exact ⟨chosen, hch, by rw [hrec, hm']⟩

/-- the same with the functions the driver runs: HMAC-SHA256 digest and the PBKDF2-HMAC-SHA256 round function
    (their length hypotheses are theorems of `Proofs/C13/Lengths.lean`) -/
theorem masterSecretFromMnemonics_mnemonicsFromMasterSecret_concrete
    (pw ms : Bytes) (groups : List (Nat × Nat)) (gt e : Nat) (ext : Bool) (idBytes : Bytes)
    (groupRnd : List (List GF256)) (groupRp : List GF256)
    (memberRnd : Nat → List (List GF256)) (memberRp : Nat → List GF256)
    (hpw : validPassphrase pw = true) (hms : validLength ms.length = true) (he : e < 16)
    (hadm : groupsAdmissible groups = true)
    (h0 : 0 < gt) (h1 : gt ≤ groups.length) (h2 : groups.length ≤ 16)
    (hgs : ∀ g ∈ groups, 0 < g.1 ∧ g.1 ≤ g.2 ∧ g.2 ≤ 16)
    (hgr : 2 ≤ gt → groupRnd.length = gt - 2 ∧ (∀ r ∈ groupRnd, r.length = ms.length) ∧
      groupRp.length + DIGEST_BYTES = ms.length)
    (hmr : ∀ g, g < groups.length → 2 ≤ (groups.getD g (0, 0)).1 →
      (memberRnd g).length = (groups.getD g (0, 0)).1 - 2 ∧ (∀ r ∈ memberRnd g, r.length = ms.length) ∧
      (memberRp g).length + DIGEST_BYTES = ms.length) :
    ∃ sentences,
      mnemonicsFromMasterSecret hmacSha256 (roundFunction pw) pw ms groups gt e ext idBytes groupRnd groupRp
        memberRnd memberRp = .ok sentences ∧
      ∀ sel : List (Nat × Nat), sel ≠ [] → sel.Nodup →
        (∀ p ∈ sel, p.1 < groups.length ∧ p.2 < (groups.getD p.1 (0, 0)).2) →
        (sel.map (·.1)).eraseDups.length = gt →
        (∀ g ∈ sel.map (·.1), (sel.filter (·.1 = g)).length = (groups.getD g (0, 0)).1) →
        ∃ chosen, sel.mapM (fun p => (sentences.getD p.1 [])[p.2]?) = some chosen ∧
          masterSecretFromMnemonics hmacSha256 (roundFunction pw) pw chosen = .ok ms :=
  masterSecretFromMnemonics_mnemonicsFromMasterSecret hmacSha256 (roundFunction pw) (roundFunction_length pw)
    digest_bytes_le_hmacSha256 pw ms groups gt e ext idBytes groupRnd groupRp memberRnd memberRp hpw hms he hadm
    h0 h1 h2 hgs hgr hmr

/-- the hypotheses are satisfiable: a 16-byte secret, 2 groups of 3 (1-of-1, 2-of-3), group threshold 2 -/
example : validPassphrase [84, 82, 69, 90, 79, 82] = true ∧ validLength (List.replicate 16 (7 : UInt8)).length = true ∧
    groupsAdmissible [(1, 1), (2, 3), (1, 1)] = true := by decide

/-- a full instance: 2 groups (1-of-1 and 2-of-3), group threshold 2; the sentences (1,2), (0,0), (1,0) in that
    order give back the secret -/
example : ∃ sentences chosen,
    mnemonicsFromMasterSecret hmacSha256 (roundFunction [84, 82]) [84, 82] (List.replicate 16 7)
      [(1, 1), (2, 3)] 2 1 true [1, 2] [] (List.replicate 12 (GF256.ofNat 5))
      (fun _ => []) (fun _ => List.replicate 12 (GF256.ofNat 9)) = .ok sentences ∧
    [(1, 2), (0, 0), (1, 0)].mapM (fun p => (sentences.getD p.1 [])[p.2]?) = some chosen ∧
    masterSecretFromMnemonics hmacSha256 (roundFunction [84, 82]) [84, 82] chosen = .ok (List.replicate 16 7) := by
  obtain ⟨sentences, h1, h2⟩ := masterSecretFromMnemonics_mnemonicsFromMasterSecret_concrete [84, 82]
    (List.replicate 16 7) [(1, 1), (2, 3)] 2 1 true [1, 2] [] (List.replicate 12 (GF256.ofNat 5))
    (fun _ => []) (fun _ => List.replicate 12 (GF256.ofNat 9))
    (by decide) (by decide) (by decide) (by decide) (by decide) (by decide) (by decide) (by decide)
    (fun _ => ⟨rfl, by simp, by simp [DIGEST_BYTES]⟩)
    (by
      intro g hg h2
      have hg' : g < 2 := hg
      obtain rfl | rfl : g = 0 ∨ g = 1 := by omega
      · simp at h2
      · exact ⟨rfl, by simp, by simp [DIGEST_BYTES]⟩)
  obtain ⟨chosen, h3, h4⟩ := h2 [(1, 2), (0, 0), (1, 0)] (by decide) (by decide) (by decide) (by decide)
    (by decide)
  exact ⟨sentences, chosen, h1, h3, h4⟩

end Btc.C13
