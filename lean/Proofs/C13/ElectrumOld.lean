import Model.C13.ElectrumOld
import Mathlib.Tactic.Ring
import Mathlib.Tactic.Linarith
namespace Btc.C13

/-- Python's `(((x + f) % n) - f) % n = x % n` -/
theorem offset_undo (b x f : Nat) (_hb : 0 < b) :
    ((((x + f) % b : Nat) : Int) - (f : Int)) % (b : Int) = ((x % b : Nat) : Int) := by
  have h1 : (((x + f) % b : Nat) : Int) = ((x : Int) + f) % b := by push_cast; rfl
  rw [h1, Int.sub_emod, Int.emod_emod_of_dvd _ (dvd_refl _), ← Int.sub_emod]
  simp

theorem oldDecode_oldEncode (b x : Nat) (hb : 0 < b) (hx : x < b * b * b) :
    oldDecodeGroup b (x % b) ((x / b + x % b) % b) ((x / b / b + (x / b + x % b) % b) % b) = x := by
  unfold oldDecodeGroup
  rw [offset_undo b (x / b) (x % b) hb, offset_undo b (x / b / b) ((x / b + x % b) % b) hb]
  simp only [Int.toNat_natCast]
  have h3 : x / b / b < b := by
    rw [Nat.div_div_eq_div_mul]
    exact Nat.div_lt_of_lt_mul (by rw [Nat.mul_assoc] at hx; rw [Nat.mul_comm] ; linarith [hx])
  rw [Nat.mod_eq_of_lt h3]
  have e1 := Nat.div_add_mod x b
  have e2 := Nat.div_add_mod (x / b) b
  nlinarith [e1, e2]

/-- `hex_seed_from_old_mnemonic ∘ old_mnemonic_from_hex_seed` on the groups: every group below `n³` comes back -/
theorem oldSeedGroups_oldMnemonicIndexes (b : Nat) (hb : 0 < b) :
    ∀ groups : List Nat, (∀ g ∈ groups, g < b * b * b) → oldSeedGroups b (oldMnemonicIndexes b groups) = groups
  | [], _ => rfl
  | g :: gs, h => by
    have ih := oldSeedGroups_oldMnemonicIndexes b hb gs (fun x hx => h x (List.mem_cons_of_mem _ hx))
    simp only [oldMnemonicIndexes, List.flatMap_cons, oldEncodeGroup, List.cons_append, List.nil_append,
      oldSeedGroups] at ih ⊢
    rw [oldDecode_oldEncode b g hb (h g (List.mem_cons_self ..)), ih]

theorem oldMnemonicIndexes_length (b : Nat) : ∀ groups : List Nat, (oldMnemonicIndexes b groups).length = 3 * groups.length
  | [] => rfl
  | g :: gs => by
    have ih := oldMnemonicIndexes_length b gs
    simp only [oldMnemonicIndexes, List.flatMap_cons, oldEncodeGroup, List.length_append, List.length_cons,
      List.length_nil] at ih ⊢
    omega

theorem oldMnemonicIndexes_lt (b : Nat) (hb : 0 < b) (groups : List Nat) :
    ∀ i ∈ oldMnemonicIndexes b groups, i < b := by
  intro i hi
  simp only [oldMnemonicIndexes, List.mem_flatMap, oldEncodeGroup] at hi
  obtain ⟨g, _, hg⟩ := hi
  simp only [List.mem_cons, List.not_mem_nil, or_false] at hg
  rcases hg with rfl | rfl | rfl <;> exact Nat.mod_lt _ hb

/-- the other composition on one triple: for indexes below `n` the decoded group is below `n³` and encodes back to
    the same three indexes (so triples of words and groups below `n³` are in bijection) -/
theorem offset_redo (n a c : Nat) (ha : a < n) (hc : c < n) :
    (((c : Int) - (a : Int)) % (n : Int)).toNat < n ∧ ((((c : Int) - (a : Int)) % (n : Int)).toNat + a) % n = c := by
  by_cases h : a ≤ c
  · have e : ((c : Int) - (a : Int)) % (n : Int) = ((c - a : Nat) : Int) := by
      rw [Int.emod_eq_of_lt (by omega) (by omega)]; omega
    rw [e, Int.toNat_natCast]
    exact ⟨by omega, by rw [Nat.sub_add_cancel h]; exact Nat.mod_eq_of_lt hc⟩
  · have e : ((c : Int) - (a : Int)) % (n : Int) = ((c + n - a : Nat) : Int) := by
      rw [← Int.add_emod_right, Int.emod_eq_of_lt (by omega) (by omega)]; omega
    rw [e, Int.toNat_natCast]
    refine ⟨by omega, ?_⟩
    have : c + n - a + a = c + n := by omega
    rw [this, Nat.add_mod_right]; exact Nat.mod_eq_of_lt hc

theorem oldEncode_oldDecode (n a c d : Nat) (ha : a < n) (hc : c < n) (hd : d < n) :
    oldDecodeGroup n a c d < n * n * n ∧ oldEncodeGroup n (oldDecodeGroup n a c d) = [a, c, d] := by
  obtain ⟨h1, h1'⟩ := offset_redo n a c ha hc
  obtain ⟨h2, h2'⟩ := offset_redo n c d hc hd
  unfold oldDecodeGroup oldEncodeGroup
  generalize (((c : Int) - (a : Int)) % (n : Int)).toNat = u at h1 h1' ⊢
  generalize (((d : Int) - (c : Int)) % (n : Int)).toNat = v at h2 h2' ⊢
  have hn : 0 < n := by omega
  have m0 : (a + n * u + n * n * v) % n = a := by
    rw [show a + n * u + n * n * v = a + n * (u + n * v) by ring, Nat.add_mul_mod_self_left, Nat.mod_eq_of_lt ha]
  have d0 : (a + n * u + n * n * v) / n = u + n * v := by
    rw [show a + n * u + n * n * v = a + n * (u + n * v) by ring, Nat.add_mul_div_left _ _ hn, Nat.div_eq_of_lt ha,
      Nat.zero_add]
  have d1 : (u + n * v) / n = v := by
    rw [Nat.add_mul_div_left _ _ hn, Nat.div_eq_of_lt h1, Nat.zero_add]
  have m1 : (u + n * v + a) % n = c := by
    rw [show u + n * v + a = u + a + n * v by ring, Nat.add_mul_mod_self_left, h1']
  refine ⟨by nlinarith [h1, h2, ha], ?_⟩
  simp only [m0, d0, d1, m1, h2']

/-- non-vacuity: Electrum's own example group sizes — a 32-bit group and its three offsets over 1626 words -/
example : oldEncodeGroup 1626 0xdeadbeef = [65, 146, 1559] ∧ oldDecodeGroup 1626 65 146 1559 = 0xdeadbeef := by
  decide

end Btc.C13
