import Model.C13.Slip39
/-
C13 / T5b: the RS1024 checksum of `slip39._rs1024_polymod / _rs1024_checksum / _rs1024_verify`.
`rsStep` is GF(2)-linear jointly in (state, word) (`rsStep_xor`); the zero-input step maps every state below 2^30
and has trivial kernel on 30-bit states (`rsStep_zero_kernel`: one 1024-case kernel table on the low ten bits of
the generator fold), so runs over the same words from different 30-bit states stay different
(`polymodFrom_injective`).  Consequences, for sentences of ANY length:
 * `polymod_single_substitution` / `rsVerify_single_substitution`: a single-word substitution at any position
   changes the polymod, so it turns a valid sentence into an invalid one (both customization strings);
 * `rsVerify_rsChecksum`: appending `rsChecksum` makes the sentence verify;
 * `rsVerify_customization_separates`: no sentence verifies under both customization strings.
-/
namespace Btc.C13
open Gen.Slip39

abbrev rsGens : List Nat := RS1024_GEN.take POLY_NGEN

theorem rsGens_lt : ∀ g ∈ rsGens, g < 2 ^ 30 := by decide

theorem xor_xor_xor_cancel (a b c : Nat) : (a ^^^ b) ^^^ (a ^^^ c) = b ^^^ c := by
  rw [Nat.xor_assoc, ← Nat.xor_assoc b, Nat.xor_comm b a, Nat.xor_assoc a b, ← Nat.xor_assoc a a, Nat.xor_self, Nat.zero_xor]

theorem xor_eq_zero_imp {a b : Nat} (h : a ^^^ b = 0) : a = b := by
  apply Nat.eq_of_testBit_eq; intro i
  have := congrArg (·.testBit i) h
  simpa [Nat.testBit_xor] using this

theorem xor_left_cancel {a v w : Nat} (h : a ^^^ v = a ^^^ w) : v = w := by
  apply xor_eq_zero_imp
  rw [← xor_xor_xor_cancel a v w, h, Nat.xor_self]

theorem genFold_xor (gs : List Nat) (i b1 b2 : Nat) :
    genFold gs i (b1 ^^^ b2) = genFold gs i b1 ^^^ genFold gs i b2 := by
  induction gs generalizing i with
  | nil => simp [genFold]
  | cons g gs ih =>
    simp only [genFold, ih, Nat.testBit_xor]
    cases b1.testBit i <;> cases b2.testBit i <;> simp [xor_xor_xor_cancel]
    all_goals ac_rfl

theorem genFold_zero (gs : List Nat) (i : Nat) : genFold gs i 0 = 0 := by
  induction gs generalizing i with
  | nil => simp [genFold]
  | cons g gs ih => simp [genFold, ih]

theorem genFold_lt (gs : List Nat) (h : ∀ g ∈ gs, g < 2 ^ 30) (i b : Nat) : genFold gs i b < 2 ^ 30 := by
  induction gs generalizing i with
  | nil => simp [genFold]
  | cons g gs ih =>
    simp only [genFold]
    apply Nat.xor_lt_two_pow
    · split
      · exact h g (by simp)
      · exact Nat.two_pow_pos 30
    · exact ih (fun g hg => h g (by simp [hg])) _

theorem rsStep_eq (c v : Nat) :
    rsStep c v = ((c % 2 ^ 20 * 2 ^ 10) ^^^ v) ^^^ genFold rsGens 0 (c / 2 ^ 20) := by
  simp only [rsStep, POLY_MASK, POLY_SHIFT, POLY_TOP]
  rw [show (1048575 : Nat) = 2 ^ 20 - 1 from rfl, Nat.and_two_pow_sub_one_eq_mod, Nat.shiftLeft_eq,
    Nat.shiftRight_eq_div_pow]

theorem rsStep_split (c v : Nat) : rsStep c v = rsStep c 0 ^^^ v := by
  simp only [rsStep, Nat.xor_zero]; ac_rfl

theorem rsStep_xor_zero (c1 c2 : Nat) : rsStep (c1 ^^^ c2) 0 = rsStep c1 0 ^^^ rsStep c2 0 := by
  simp only [rsStep, Nat.xor_zero, Nat.and_xor_distrib_right, Nat.shiftLeft_xor_distrib,
    Nat.shiftRight_xor_distrib, genFold_xor]
  ac_rfl

/-- `rsStep` is GF(2)-linear jointly in the state and the input word -/
theorem rsStep_xor (c1 c2 v1 v2 : Nat) :
    rsStep (c1 ^^^ c2) (v1 ^^^ v2) = rsStep c1 v1 ^^^ rsStep c2 v2 := by
  rw [rsStep_split, rsStep_xor_zero, rsStep_split c1 v1, rsStep_split c2 v2]; ac_rfl

theorem rsStep_lt (c v : Nat) (hv : v < 2 ^ 30) : rsStep c v < 2 ^ 30 := by
  rw [rsStep_eq]
  refine Nat.xor_lt_two_pow (Nat.xor_lt_two_pow ?_ hv) (genFold_lt _ rsGens_lt _ _)
  have := Nat.mod_lt c (Nat.two_pow_pos 20)
  omega

theorem genFold_low_kernel :
    ∀ b < 1024, genFold rsGens 0 b % 1024 = 0 → b = 0 := by decide +kernel


/-- the zero-input step has trivial kernel on 30-bit states -/
theorem rsStep_zero_kernel (c : Nat) (hc : c < 2 ^ 30) (h : rsStep c 0 = 0) : c = 0 := by
  rw [rsStep_eq, Nat.xor_zero] at h
  replace h := xor_eq_zero_imp h
  have hhi : c / 2 ^ 20 < 1024 := by omega
  have h0 : c / 2 ^ 20 = 0 := by
    apply genFold_low_kernel _ hhi
    rw [← h]; omega
  rw [h0, genFold_zero] at h
  omega

theorem polymodFrom_cons (c v : Nat) (vs : List Nat) :
    polymodFrom c (v :: vs) = polymodFrom (rsStep c v) vs := rfl

theorem polymodFrom_append (c : Nat) (us vs : List Nat) :
    polymodFrom c (us ++ vs) = polymodFrom (polymodFrom c us) vs := by
  simp [polymodFrom]

/-- two runs over the same words differ by the zero-input run of the difference of the start states -/
theorem polymodFrom_xor_same (c1 c2 : Nat) (vs : List Nat) :
    polymodFrom c1 vs ^^^ polymodFrom c2 vs = polymodFrom (c1 ^^^ c2) (List.replicate vs.length 0) := by
  induction vs generalizing c1 c2 with
  | nil => rfl
  | cons v vs ih =>
    rw [polymodFrom_cons, polymodFrom_cons, ih, List.length_cons, List.replicate_succ, polymodFrom_cons,
      ← rsStep_xor, Nat.xor_self]

theorem polymodFrom_zeros_kernel (n c : Nat) (hc : c < 2 ^ 30)
    (h : polymodFrom c (List.replicate n 0) = 0) : c = 0 := by
  induction n generalizing c with
  | zero => exact h
  | succ n ih =>
    rw [List.replicate_succ, polymodFrom_cons] at h
    exact rsStep_zero_kernel c hc (ih _ (rsStep_lt c 0 (by decide)) h)

/-- runs over the same words from different 30-bit start states end in different states -/
theorem polymodFrom_injective (c1 c2 : Nat) (h1 : c1 < 2 ^ 30) (h2 : c2 < 2 ^ 30) (vs : List Nat)
    (h : polymodFrom c1 vs = polymodFrom c2 vs) : c1 = c2 := by
  have := polymodFrom_xor_same c1 c2 vs
  rw [h, Nat.xor_self] at this
  exact xor_eq_zero_imp (polymodFrom_zeros_kernel _ _ (Nat.xor_lt_two_pow h1 h2) this.symm)

theorem rsStep_ne (c a b : Nat) (hab : a ≠ b) : rsStep c a ≠ rsStep c b := by
  intro h
  rw [rsStep_split c a, rsStep_split c b] at h
  exact hab (xor_left_cancel h)

/-- general form: any start state, words below 2^30 -/
theorem polymodFrom_single_substitution (c : Nat) (pre post : List Nat) (a b : Nat)
    (ha : a < 2 ^ 30) (hb : b < 2 ^ 30) (hab : a ≠ b) :
    polymodFrom c (pre ++ a :: post) ≠ polymodFrom c (pre ++ b :: post) := by
  rw [polymodFrom_append, polymodFrom_append, polymodFrom_cons, polymodFrom_cons]
  intro h
  exact rsStep_ne _ a b hab (polymodFrom_injective _ _ (rsStep_lt _ a ha) (rsStep_lt _ b hb) post h)

/-- T5b: any single-word substitution, at any position, in a sentence of any length, changes the polymod -/
theorem polymod_single_substitution (pre post : List Nat) (a b : Nat) (ha : a < 1024) (hb : b < 1024)
    (hab : a ≠ b) : polymod (pre ++ a :: post) ≠ polymod (pre ++ b :: post) :=
  polymodFrom_single_substitution _ pre post a b (by omega) (by omega) hab

theorem rsVerify_single_substitution (p q : List Nat) (a b : Nat) (ha : a < 1024) (hb : b < 1024)
    (hab : a ≠ b) (ext : Bool) (h : rsVerify (p ++ a :: q) ext = true) :
    rsVerify (p ++ b :: q) ext = false := by
  simp only [rsVerify, decide_eq_true_eq, decide_eq_false_iff_not, ← List.append_assoc] at h ⊢
  intro h'
  exact polymod_single_substitution _ q a b ha hb hab (h.trans h'.symm)

theorem split30 (x : Nat) (hx : x < 2 ^ 30) :
    (((x >>> 20) &&& 1023) <<< 20 ^^^ ((x >>> 10) &&& 1023) <<< 10) ^^^ (x &&& 1023) = x := by
  apply Nat.eq_of_testBit_eq; intro i
  rw [show (1023 : Nat) = 2 ^ 10 - 1 from rfl]
  simp only [Nat.testBit_xor, Nat.testBit_shiftLeft, Nat.testBit_and, Nat.testBit_shiftRight,
    Nat.testBit_two_pow_sub_one]
  by_cases h1 : i < 10
  · simp [h1, show ¬ 20 ≤ i by omega, show ¬ 10 ≤ i by omega]
  · by_cases h2 : i < 20
    · simp [h1, show ¬ 20 ≤ i by omega, show 10 ≤ i by omega, show i - 10 < 10 by omega,
        show 10 + (i - 10) = i by omega]
    · by_cases h3 : i < 30
      · simp [h1, show 20 ≤ i by omega, show 10 ≤ i by omega, show i - 20 < 10 by omega,
          show ¬ i - 10 < 10 by omega, show 20 + (i - 20) = i by omega]
      · have : x.testBit i = false :=
          Nat.testBit_lt_two_pow (Nat.lt_of_lt_of_le hx (Nat.pow_le_pow_right (by decide) (by omega)))
        simp [h1, this, show ¬ i - 20 < 10 by omega, show ¬ i - 10 < 10 by omega]

theorem rsStep_small (w : Nat) (hw : w < 2 ^ 20) : rsStep w 0 = w <<< 10 := by
  rw [rsStep_eq, Nat.mod_eq_of_lt hw, Nat.div_eq_of_lt hw, genFold_zero, Nat.xor_zero, Nat.xor_zero,
    Nat.shiftLeft_eq]

/-- three steps with 10-bit words add `w0·2^20 ⊕ w1·2^10 ⊕ w2` to the three zero steps -/
theorem polymodFrom_three (s w0 w1 w2 : Nat) (h0 : w0 < 1024) (h1 : w1 < 1024) :
    polymodFrom s [w0, w1, w2] = polymodFrom s [0, 0, 0] ^^^ ((w0 <<< 20 ^^^ w1 <<< 10) ^^^ w2) := by
  have hs : w0 <<< 10 < 2 ^ 20 := by rw [Nat.shiftLeft_eq]; omega
  have e1 : rsStep s w0 = rsStep s 0 ^^^ w0 := rsStep_split s w0
  have e2 : rsStep (rsStep s 0 ^^^ w0) w1 = (rsStep (rsStep s 0) 0 ^^^ w0 <<< 10) ^^^ w1 := by
    rw [rsStep_split (rsStep s 0 ^^^ w0) w1, rsStep_xor_zero, rsStep_small w0 (by omega)]
  have e3 : rsStep ((rsStep (rsStep s 0) 0 ^^^ w0 <<< 10) ^^^ w1) w2 =
      ((rsStep (rsStep (rsStep s 0) 0) 0 ^^^ w0 <<< 20) ^^^ w1 <<< 10) ^^^ w2 := by
    rw [rsStep_split _ w2, rsStep_xor_zero, rsStep_xor_zero, rsStep_small w1 (by omega),
      rsStep_small (w0 <<< 10) hs, ← Nat.shiftLeft_add]
  simp only [polymodFrom, List.foldl_cons, List.foldl_nil]
  rw [e1, e2, e3]; simp only [Nat.xor_assoc]

/-- T5b: the checksum makes the sentence verify — for ANY index list (Python ints are unbounded too) -/
theorem rsVerify_rsChecksum_any (idx : List Nat) (ext : Bool) :
    rsVerify (idx ++ rsChecksum idx ext) ext = true := by
  simp only [rsVerify, rsChecksum, polymod, decide_eq_true_eq, ← List.append_assoc]
  rw [polymodFrom_append, polymodFrom_append _ _ [0, 0, 0]]
  generalize polymodFrom POLY_INIT (customization ext ++ idx) = s
  rw [polymodFrom_three _ _ _ _ (Nat.lt_succ_of_le Nat.and_le_right) (Nat.lt_succ_of_le Nat.and_le_right)]
  have hZ : polymodFrom s [0, 0, 0] < 2 ^ 30 := rsStep_lt _ 0 (by decide)
  generalize polymodFrom s [0, 0, 0] = Z at hZ ⊢
  have hpm : Z ^^^ 1 < 2 ^ 30 := Nat.xor_lt_two_pow hZ (by decide)
  rw [split30 _ hpm, ← Nat.xor_assoc, Nat.xor_self, Nat.zero_xor]

/-- the signature with the (unneeded) bound on the indexes, as used by the codec theorems -/
theorem rsVerify_rsChecksum (idx : List Nat) (_hidx : ∀ i ∈ idx, i < 1024) (ext : Bool) :
    rsVerify (idx ++ rsChecksum idx ext) ext = true := rsVerify_rsChecksum_any idx ext

theorem customization_states_ne : polymod CS_PLAIN ≠ polymod CS_EXT := by decide +kernel

theorem customization_lt (ext : Bool) : ∀ v ∈ customization ext, v < 1024 := by
  cases ext <;> decide

theorem polymod_lt (vs : List Nat) (h : ∀ v ∈ vs, v < 2 ^ 30) : polymod vs < 2 ^ 30 := by
  suffices ∀ c, c < 2 ^ 30 → polymodFrom c vs < 2 ^ 30 from this _ (by decide)
  induction vs with
  | nil => exact fun c hc => hc
  | cons v vs ih =>
    intro c _
    rw [polymodFrom_cons]
    exact ih (fun w hw => h w (by simp [hw])) _ (rsStep_lt c v (h v (by simp)))

/-- the two customization strings separate: for every sentence the polymods differ, so no sentence is valid
    both as extendable and as non-extendable -/
theorem polymod_customization_ne (idx : List Nat) : polymod (CS_PLAIN ++ idx) ≠ polymod (CS_EXT ++ idx) := by
  intro h
  simp only [polymod, polymodFrom_append] at h
  exact customization_states_ne
    (polymodFrom_injective _ _ (polymod_lt _ (by decide)) (polymod_lt _ (by decide)) idx h)

theorem rsVerify_customization_separates (idx : List Nat) (ext : Bool) (h : rsVerify idx ext = true) :
    rsVerify idx (!ext) = false := by
  have hne := polymod_customization_ne idx
  cases ext <;>
    simp only [rsVerify, customization, decide_eq_true_eq, decide_eq_false_iff_not, Bool.not_true,
      Bool.not_false, if_true, Bool.false_eq_true, if_false] at h ⊢ <;>
    intro h' <;> exact hne (by rw [h, h'])

/-! ### the hypotheses are satisfiable -/

example : polymod ([1, 2] ++ 5 :: [7, 1023]) ≠ polymod ([1, 2] ++ 6 :: [7, 1023]) :=
  polymod_single_substitution _ _ 5 6 (by decide) (by decide) (by decide)

example : rsVerify ([5, 1000, 33] ++ rsChecksum [5, 1000, 33] true) true = true :=
  rsVerify_rsChecksum _ (by decide) true

/-- a valid sentence (`[5] ++ 1000 :: ([33] ++ checksum)`) whose second word is replaced -/
example : rsVerify ([5] ++ 999 :: ([33] ++ rsChecksum [5, 1000, 33] false)) false = false :=
  rsVerify_single_substitution [5] _ 1000 999 (by decide) (by decide) (by decide) false
    (rsVerify_rsChecksum [5, 1000, 33] (by decide) false)

example : rsVerify ([5, 1000, 33] ++ rsChecksum [5, 1000, 33] true) false = false :=
  rsVerify_customization_separates _ true (rsVerify_rsChecksum _ (by decide) true)

end Btc.C13
