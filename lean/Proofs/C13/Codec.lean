import Model.C13.Slip39
import Proofs.C13.Bits
/-
C13 / T5: the SLIP39 share ↔ word-index codec round trip (`share_from_mnemonic ∘ mnemonic_from_share = id` on
valid shares, at index level), with the RS1024 self-consistency `rsVerify (idx ++ rsChecksum idx ext) ext` as a
hypothesis.
-/
namespace Btc.C13
open Gen.Slip39

/-- the bit string `bitsFromIndexes` produces for base `2^k` -/
def bitsOfIdx (k : Nat) (idx : List Nat) : Bits :=
  natToBits (k * idx.length) (Nat.ofDigits (2 ^ k) idx.reverse)

theorem bitsOfIdx_length (k : Nat) (idx : List Nat) : (bitsOfIdx k idx).length = k * idx.length :=
  natToBits_length _ _

theorem ofDigits_reverse_lt (k : Nat) (hk : 1 ≤ k) (idx : List Nat) (hlt : ∀ i ∈ idx, i < 2 ^ k) :
    Nat.ofDigits (2 ^ k) idx.reverse < 2 ^ (k * idx.length) := by
  have := Nat.ofDigits_lt_base_pow_length (one_lt_two_pow' hk)
    (fun i hi => hlt i (List.mem_reverse.mp hi) : ∀ i ∈ idx.reverse, i < 2 ^ k)
  rwa [List.length_reverse, ← pow_mul] at this

theorem bitsFromIndexes_eq_bitsOfIdx (k : Nat) (hk : 1 ≤ k) (idx : List Nat) (hne : idx ≠ [])
    (hlt : ∀ i ∈ idx, i < 2 ^ k) : bitsFromIndexes idx (2 ^ k) = some (bitsOfIdx k idx) := by
  have hn : 1 ≤ idx.length := by
    cases idx with
    | nil => exact absurd rfl hne
    | cons _ _ => simp
  have hpos : 0 < k * idx.length := Nat.mul_pos (by omega) (by omega)
  rw [bitsFromIndexes_eq _ _ hlt, ← pow_mul, bitLen_two_pow_sub_one,
    zfill_binStr _ _ hpos (ofDigits_reverse_lt k hk idx hlt), bitsOfIdx]

theorem ofBits_bitsOfIdx (k : Nat) (hk : 1 ≤ k) (idx : List Nat) (hlt : ∀ i ∈ idx, i < 2 ^ k) :
    ofBits (bitsOfIdx k idx) = Nat.ofDigits (2 ^ k) idx.reverse := by
  rw [bitsOfIdx, ofBits_natToBits, Nat.mod_eq_of_lt (ofDigits_reverse_lt k hk idx hlt)]

theorem bitsOfIdx_append (k : Nat) (hk : 1 ≤ k) (a b : List Nat) (ha : ∀ i ∈ a, i < 2 ^ k)
    (hb : ∀ i ∈ b, i < 2 ^ k) : bitsOfIdx k (a ++ b) = bitsOfIdx k a ++ bitsOfIdx k b := by
  have hab : ∀ i ∈ a ++ b, i < 2 ^ k := by
    intro i hi
    rcases List.mem_append.mp hi with h | h
    · exact ha i h
    · exact hb i h
  apply bits_ext
  · simp [bitsOfIdx_length, Nat.mul_add]
  · rw [ofBits_append, ofBits_bitsOfIdx k hk _ hab, ofBits_bitsOfIdx k hk _ ha, ofBits_bitsOfIdx k hk _ hb,
      List.reverse_append, Nat.ofDigits_append, bitsOfIdx_length, List.length_reverse, ← pow_mul]
    ring

theorem bitsOfIdx_indexesFromBits (k : Nat) (hk : 1 ≤ k) (bits : Bits) (m : Nat) (hm : 1 ≤ m)
    (hl : bits.length = k * m) : bitsOfIdx k (indexesFromBits bits (2 ^ k)) = bits := by
  have h1 := bitsFromIndexes_indexesFromBits k hk bits m hm hl
  have hne : indexesFromBits bits (2 ^ k) ≠ [] := by
    intro h0
    have := indexesFromBits_length k m hk bits hl
    rw [h0] at this; simp at this; omega
  rw [bitsFromIndexes_eq_bitsOfIdx k hk _ hne (indexesFromBits_lt k m hk bits hl)] at h1
  exact Option.some.inj h1

/-! ### the padded value -/

theorem ofBE_lt_two_pow (b : Bytes) : ofBE b < 2 ^ (8 * b.length) := by
  have := ofBE_lt b
  rwa [show (256 : Nat) = 2 ^ 8 from rfl, ← pow_mul] at this

theorem paddedValue_eq (value : Bytes) (hn : 0 < value.length) :
    paddedValue value =
      List.replicate ((8 * value.length + 9) / 10 * 10 - 8 * value.length) false ++
        natToBits (8 * value.length) (ofBE value) := by
  have hv := ofBE_lt_two_pow value
  have hb := (bitLen_le_iff _ _).mpr hv
  apply bits_ext
  · rw [paddedValue, zfill_length, binStr_length]
    simp only [RADIX_BITS, List.length_append, List.length_replicate, natToBits_length]
    omega
  · rw [paddedValue, ofBits_zfill, ofBits_binStr, ofBits_append, ofBits_replicate_false, ofBits_natToBits,
      Nat.mod_eq_of_lt hv]
    simp

theorem slice_eq {α : Type} (A B R : List α) (a b : Nat) (ha : A.length = a) (hb : a + B.length = b) :
    ((A ++ B ++ R).take b).drop a = B := by
  subst ha hb
  rw [List.take_left' (by simp), List.drop_left' rfl]

/-! ### the round trip -/

theorem rsChecksum_lt (idx : List Nat) (ext : Bool) : ∀ i ∈ rsChecksum idx ext, i < 2 ^ 10 := by
  intro i hi
  simp only [rsChecksum, List.mem_cons, List.not_mem_nil, or_false] at hi
  have h := @Nat.and_le_right
  rcases hi with rfl | rfl | rfl <;> exact Nat.lt_succ_of_le (h ..)

theorem rsChecksum_length (idx : List Nat) (ext : Bool) : (rsChecksum idx ext).length = 3 := rfl

/-- `shareFromIndexes` succeeds with `s` when every intermediate quantity of `share_from_mnemonic` is the right one -/
theorem shareFromIndexes_ok (idx : List Nat) (bits vb : Bits) (s : ByteShare) (P : Nat)
    (h1 : ¬ idx.length < MIN_WORDS)
    (h2 : bitsFromIndexes idx (1 <<< RADIX_BITS) = some bits)
    (h3 : bits.getD ID_BITS false = s.extendable)
    (h4 : rsVerify idx s.extendable = true)
    (h5 : bits.length - HEADER_BITS - CHECKSUM_BITS = P)
    (h6 : ¬ P % 16 > 8)
    (h7 : (bits.take (bits.length - CHECKSUM_BITS)).drop HEADER_BITS = vb)
    (h8 : vb.take (P % 16) = List.replicate (P % 16) false)
    (f1 : ofBits ((bits.take ID_BITS).drop 0) = s.identifier)
    (f2 : ofBits ((bits.take (ID_BITS + EXT_BITS + E_BITS)).drop (ID_BITS + EXT_BITS)) = s.iterationExponent)
    (f3 : ofBits ((bits.take (ID_BITS + EXT_BITS + E_BITS + 4)).drop (ID_BITS + EXT_BITS + E_BITS)) =
      s.groupIndex)
    (f4 : ofBits ((bits.take (ID_BITS + EXT_BITS + E_BITS + 8)).drop (ID_BITS + EXT_BITS + E_BITS + 4)) + 1 =
      s.groupThreshold)
    (f5 : ofBits ((bits.take (ID_BITS + EXT_BITS + E_BITS + 12)).drop (ID_BITS + EXT_BITS + E_BITS + 8)) + 1 =
      s.groupCount)
    (f6 : ofBits ((bits.take (ID_BITS + EXT_BITS + E_BITS + 16)).drop (ID_BITS + EXT_BITS + E_BITS + 12)) =
      s.memberIndex)
    (f7 : ofBits ((bits.take (ID_BITS + EXT_BITS + E_BITS + 20)).drop (ID_BITS + EXT_BITS + E_BITS + 16)) + 1 =
      s.memberThreshold)
    (f8 : beBytes ((vb.length - P % 16) / 8) (ofBits (vb.drop (P % 16))) = s.value)
    (hv : shareValid s = true) : shareFromIndexes idx = .ok s := by
  unfold shareFromIndexes
  rw [if_neg h1, h2]
  simp only [h3, h4, h5, h7, h8, f1, f2, f3, f4, f5, f6, f7, f8]
  rw [if_neg (by simp), if_neg h6, if_neg (by simp)]
  exact if_pos hv

theorem codec_roundtrip
    (hcs : ∀ idx ext, (∀ i ∈ idx, i < 1024) → rsVerify (idx ++ rsChecksum idx ext) ext = true)
    (s : ByteShare) (hv : shareValid s = true) :
    ∃ idx, shareIndexes s = some idx ∧ shareFromIndexes idx = .ok s := by
  have hv' := hv
  simp [shareValid, validLength, MAX_SHARE_COUNT, ID_BITS, E_BITS, MIN_SECRET_BYTES] at hv'
  obtain ⟨hid, hie, hgi, ⟨hgt1, hgt2⟩, ⟨hgc1, hgc2⟩, hmi, ⟨hmt1, hmt2⟩, _, hn16, hn2⟩ := hv'
  -- the pieces
  have hpv := paddedValue_eq s.value (by omega)
  have hvlt := ofBE_lt_two_pow s.value
  generalize hP : (8 * s.value.length + 9) / 10 * 10 = P at hpv
  generalize hC : natToBits (8 * s.value.length) (ofBE s.value) = VB at hpv
  have hVBl : VB.length = 8 * s.value.length := by rw [← hC, natToBits_length]
  have hpvl : (paddedValue s.value).length = P := by
    rw [hpv, List.length_append, List.length_replicate, hVBl]; omega
  have hhl : (headerBits s).length = 40 := by
    simp [headerBits, ID_BITS, E_BITS, FIELD_BITS]
  have hl0 : (headerBits s ++ paddedValue s.value).length = 10 * (4 + P / 10) := by
    rw [List.length_append, hhl, hpvl]; omega
  have hm : 1 ≤ 4 + P / 10 := by omega
  -- the encoder
  have hVBv : ofBits VB = ofBE s.value := by rw [← hC, ofBits_natToBits, Nat.mod_eq_of_lt hvlt]
  have hbo := bitsOfIdx_indexesFromBits 10 (by decide) _ _ hm hl0
  have hi0l := indexesFromBits_length 10 _ (by decide) _ hl0
  have hi0lt := indexesFromBits_lt 10 _ (by decide) _ hl0
  have hsi : shareIndexes s = some (indexesFromBits (headerBits s ++ paddedValue s.value) (2 ^ 10) ++
      rsChecksum (indexesFromBits (headerBits s ++ paddedValue s.value) (2 ^ 10)) s.extendable) := by
    unfold shareIndexes
    rw [if_neg (by simp [hv])]
    rfl
  generalize indexesFromBits (headerBits s ++ paddedValue s.value) (2 ^ 10) = idx0 at hbo hi0l hi0lt hsi
  have hclt := rsChecksum_lt idx0 s.extendable
  refine ⟨idx0 ++ rsChecksum idx0 s.extendable, hsi, ?_⟩
  -- the decoder
  have hall : ∀ i ∈ idx0 ++ rsChecksum idx0 s.extendable, i < 2 ^ 10 := by
    intro i hi
    rcases List.mem_append.mp hi with h | h
    · exact hi0lt i h
    · exact hclt i h
  have hne : idx0 ++ rsChecksum idx0 s.extendable ≠ [] := by
    intro h0
    have := congrArg List.length h0
    simp [rsChecksum_length] at this
  have hbits := bitsFromIndexes_eq_bitsOfIdx 10 (by decide) _ hne hall
  rw [bitsOfIdx_append 10 (by decide) _ _ hi0lt hclt, hbo] at hbits
  generalize hCS : bitsOfIdx 10 (rsChecksum idx0 s.extendable) = CS at hbits
  have hCSl : CS.length = 30 := by rw [← hCS, bitsOfIdx_length, rsChecksum_length]
  -- the header pieces
  have key : ∀ w v : Nat, v < 2 ^ w → ofBits (natToBits w v) = v := fun w v h => by
    rw [ofBits_natToBits, Nat.mod_eq_of_lt h]
  have p15 : (2 : Nat) ^ 15 = 32768 := by norm_num
  have p4 : (2 : Nat) ^ 4 = 16 := by norm_num
  have v1 := key 15 s.identifier (by omega)
  have v3 := key 4 s.iterationExponent (by omega)
  have v4 := key 4 s.groupIndex (by omega)
  have v5 := key 4 (s.groupThreshold - 1) (by omega)
  have v6 := key 4 (s.groupCount - 1) (by omega)
  have v7 := key 4 s.memberIndex (by omega)
  have v8 := key 4 (s.memberThreshold - 1) (by omega)
  have l1 := natToBits_length 15 s.identifier
  have l3 := natToBits_length 4 s.iterationExponent
  have l4 := natToBits_length 4 s.groupIndex
  have l5 := natToBits_length 4 (s.groupThreshold - 1)
  have l6 := natToBits_length 4 (s.groupCount - 1)
  have l7 := natToBits_length 4 s.memberIndex
  have l8 := natToBits_length 4 (s.memberThreshold - 1)
  have hH : headerBits s = natToBits 15 s.identifier ++ [s.extendable] ++ natToBits 4 s.iterationExponent ++
      natToBits 4 s.groupIndex ++ natToBits 4 (s.groupThreshold - 1) ++ natToBits 4 (s.groupCount - 1) ++
      natToBits 4 s.memberIndex ++ natToBits 4 (s.memberThreshold - 1) := rfl
  generalize natToBits 15 s.identifier = I1 at v1 l1 hH
  generalize natToBits 4 s.iterationExponent = I3 at v3 l3 hH
  generalize natToBits 4 s.groupIndex = I4 at v4 l4 hH
  generalize natToBits 4 (s.groupThreshold - 1) = I5 at v5 l5 hH
  generalize natToBits 4 (s.groupCount - 1) = I6 at v6 l6 hH
  generalize natToBits 4 s.memberIndex = I7 at v7 l7 hH
  generalize natToBits 4 (s.memberThreshold - 1) = I8 at v8 l8 hH
  generalize hpvg : paddedValue s.value = PV at hpv hpvl hbits hl0
  obtain ⟨B, hB⟩ : ∃ B, B = headerBits s ++ PV ++ CS := ⟨_, rfl⟩
  rw [← hB] at hbits
  have hBl : B.length = 40 + P + 30 := by
    rw [hB, List.length_append, List.length_append, hhl, hpvl, hCSl]
  rw [hH] at hB
  have hpad : P % 16 = P - 8 * s.value.length := by omega
  have f1 : ofBits ((B.take 15).drop 0) = s.identifier := by
    rw [show B = [] ++ I1 ++ ([s.extendable] ++ I3 ++ I4 ++ I5 ++ I6 ++ I7 ++ I8 ++ PV ++ CS) from
      (by rw [hB]; simp only [List.append_assoc, List.nil_append]),
      slice_eq _ _ _ 0 15 rfl (by rw [l1]), v1]
  have f2 : ofBits ((B.take 20).drop 16) = s.iterationExponent := by
    rw [show B = (I1 ++ [s.extendable]) ++ I3 ++ (I4 ++ I5 ++ I6 ++ I7 ++ I8 ++ PV ++ CS) from
      (by rw [hB]; simp only [List.append_assoc]),
      slice_eq _ _ _ 16 20 (by simp [l1]) (by rw [l3]), v3]
  have f3 : ofBits ((B.take 24).drop 20) = s.groupIndex := by
    rw [show B = (I1 ++ [s.extendable] ++ I3) ++ I4 ++ (I5 ++ I6 ++ I7 ++ I8 ++ PV ++ CS) from
      (by rw [hB]; simp only [List.append_assoc]),
      slice_eq _ _ _ 20 24 (by simp [l1, l3]) (by rw [l4]), v4]
  have f4 : ofBits ((B.take 28).drop 24) + 1 = s.groupThreshold := by
    rw [show B = (I1 ++ [s.extendable] ++ I3 ++ I4) ++ I5 ++ (I6 ++ I7 ++ I8 ++ PV ++ CS) from
      (by rw [hB]; simp only [List.append_assoc]),
      slice_eq _ _ _ 24 28 (by simp [l1, l3, l4]) (by rw [l5]), v5]
    omega
  have f5 : ofBits ((B.take 32).drop 28) + 1 = s.groupCount := by
    rw [show B = (I1 ++ [s.extendable] ++ I3 ++ I4 ++ I5) ++ I6 ++ (I7 ++ I8 ++ PV ++ CS) from
      (by rw [hB]; simp only [List.append_assoc]),
      slice_eq _ _ _ 28 32 (by simp [l1, l3, l4, l5]) (by rw [l6]), v6]
    omega
  have f6 : ofBits ((B.take 36).drop 32) = s.memberIndex := by
    rw [show B = (I1 ++ [s.extendable] ++ I3 ++ I4 ++ I5 ++ I6) ++ I7 ++ (I8 ++ PV ++ CS) from
      (by rw [hB]; simp only [List.append_assoc]),
      slice_eq _ _ _ 32 36 (by simp [l1, l3, l4, l5, l6]) (by rw [l7]), v7]
  have f7 : ofBits ((B.take 40).drop 36) + 1 = s.memberThreshold := by
    rw [show B = (I1 ++ [s.extendable] ++ I3 ++ I4 ++ I5 ++ I6 ++ I7) ++ I8 ++ (PV ++ CS) from
      (by rw [hB]; simp only [List.append_assoc]),
      slice_eq _ _ _ 36 40 (by simp [l1, l3, l4, l5, l6, l7]) (by rw [l8]), v8]
    omega
  have h7 : (B.take (B.length - 30)).drop 40 = PV := by
    rw [hBl, hB, ← hH]
    exact slice_eq _ _ _ 40 _ hhl (by rw [hpvl]; omega)
  have h3 : B.getD 15 false = s.extendable := by
    rw [show B = I1 ++ ([s.extendable] ++ (I3 ++ I4 ++ I5 ++ I6 ++ I7 ++ I8 ++ PV ++ CS)) from
      (by rw [hB]; simp only [List.append_assoc])]
    simp [l1]
  have h1024 : (2 : Nat) ^ 10 = 1024 := by norm_num
  refine shareFromIndexes_ok _ B PV s P ?_ hbits h3 (hcs idx0 s.extendable (by simpa [h1024] using hi0lt))
    (by rw [hBl]; simp only [HEADER_BITS, CHECKSUM_BITS]; omega) (by omega) h7 ?_ f1 f2 f3 f4 f5 f6 f7 ?_ hv
  · simp only [List.length_append, hi0l, rsChecksum_length, MIN_WORDS]; omega
  · rw [hpad, hpv, List.take_left' (List.length_replicate ..)]
  · rw [hpvl, hpad, hpv, List.drop_left' (List.length_replicate ..), hVBv]
    have : (P - (P - 8 * s.value.length)) / 8 = s.value.length := by omega
    rw [this, beBytes_ofBE]

/-- the padding of a valid share is one of 0, 2, 4, 6, 8 bits: `share_from_mnemonic`'s `padding > 8` test never
    rejects an encoder output -/
theorem padding_le_eight (n : Nat) (hn : n % 2 = 0) : ((8 * n + 9) / 10 * 10) % 16 ≤ 8 := by
  obtain ⟨j, rfl⟩ : ∃ j, n = 2 * j := ⟨n / 2, by omega⟩
  have h : ((8 * (2 * j) + 9) / 10 * 10) % 16 = (8 * (2 * j) + 9) / 10 * 10 - 16 * j := by omega
  omega

example : shareValid (⟨1, false, 0, 0, 1, 1, 0, 1, List.replicate 16 7⟩ : ByteShare) = true := by decide

end Btc.C13
