import Model.C08.Num
import Proofs.Common.Bytes
/-! Helper lemmas for script numbers and booleans (C08 T1). Core Lean only. -/
namespace Btc.Script
open Btc Btc.Py

/-! ### booleans -/

theorem toBool_eq_castToBool (b : Bytes) : toBool b = Core.castToBool b := by
  unfold Core.castToBool
  induction b with
  | nil => rfl
  | cons x xs ih =>
    cases xs with
    | nil =>
      simp only [toBool, Core.castToBoolAux, List.isEmpty_nil, Bool.true_and]
      by_cases h0 : x = 0
      · simp [h0]
      · by_cases h8 : x = 0x80
        · simp [h8]
        · simp [h0, h8]
    | cons y r =>
      simp only [toBool, Core.castToBoolAux, List.isEmpty_cons, Bool.false_and]
      by_cases h0 : x = 0
      · simp only [h0, ne_eq, not_true_eq_false, if_false]; exact ih
      · simp [h0]

/-! ### last byte / init decomposition -/

theorem lastByte_append_singleton (a : Bytes) (x : UInt8) : lastByte (a ++ [x]) = x := by
  induction a with
  | nil => rfl
  | cons y ys ih =>
    cases ys with
    | nil => simp [lastByte]
    | cons z zs => simpa [lastByte] using ih

theorem exists_init_last (b : Bytes) (h : b ≠ []) : ∃ a x, b = a ++ [x] := by
  refine ⟨b.dropLast, b.getLast h, ?_⟩
  exact (List.dropLast_concat_getLast h).symm

theorem ofLE_snoc (a : Bytes) (x : UInt8) : ofLE (a ++ [x]) = ofLE a + 256 ^ a.length * x.toNat := by
  rw [ofLE_append]; simp [ofLE]

theorem pow_256_pos (k : Nat) : 0 < 256 ^ k := Nat.pow_pos (by omega)

theorem two_pow_8k (k : Nat) : 2 ^ (8 * k) = 256 ^ k := by
  rw [Nat.pow_mul]

/-- `2^(8(k+1)-1) = 128·256^k` -/
theorem two_pow_top (k : Nat) : 2 ^ ((k + 1) * 8 - 1) = 128 * 256 ^ k := by
  have : (k + 1) * 8 - 1 = 8 * k + 7 := by omega
  rw [this, Nat.pow_add, two_pow_8k]; omega

/-! ### `decode_num` is `CScriptNum::set_vch` -/

/-- arithmetic core of `decode_num`'s masking: with `m < P`, `x ≥ 128`,
    `(m + P·x) mod (128·P) = m + P·(x − 128)` -/
theorem mask_arith (m P x : Nat) (hm : m < P) (hx : 128 ≤ x) (hx2 : x < 256) :
    (m + P * x) % (128 * P) = m + P * (x - 128) := by
  have e : m + P * x = (m + P * (x - 128)) + 128 * P * 1 := by
    have : x = (x - 128) + 128 := by omega
    conv => lhs; rw [this, Nat.mul_add]
    rw [Nat.mul_one, Nat.mul_comm 128 P]; omega
  rw [e, Nat.add_mul_mod_self_left]
  apply Nat.mod_eq_of_lt
  have : P * (x - 128) ≤ P * 127 := Nat.mul_le_mul_left _ (by omega)
  omega

theorem sub_arith (m P x : Nat) (hx : 128 ≤ x) :
    m + P * x - 128 * P = m + P * (x - 128) := by
  have : x = (x - 128) + 128 := by omega
  conv => lhs; rw [this, Nat.mul_add]
  rw [Nat.mul_comm P 128]; omega

theorem decodeNum_snoc (a : Bytes) (x : UInt8) :
    decodeNum (a ++ [x]) =
      if x.toNat ≥ 128 then - ((ofLE a + 256 ^ a.length * (x.toNat - 128) : Nat) : Int)
      else ((ofLE a + 256 ^ a.length * x.toNat : Nat) : Int) := by
  unfold decodeNum
  have hl : (a ++ [x]).length = a.length + 1 := by simp
  simp only [hl, Nat.add_one_ne_zero, if_false, lastByte_append_singleton, ofLE_snoc, two_pow_top]
  have hm := ofLE_lt a
  have hx : x.toNat < 256 := x.toNat_lt
  split
  · rename_i h
    rw [mask_arith _ _ _ hm h hx]
  · rfl

theorem setVch_snoc (a : Bytes) (x : UInt8) :
    Core.setVch (a ++ [x]) =
      if x.toNat ≥ 128 then - ((ofLE a + 256 ^ a.length * (x.toNat - 128) : Nat) : Int)
      else ((ofLE a + 256 ^ a.length * x.toNat : Nat) : Int) := by
  unfold Core.setVch
  have hl : (a ++ [x]).length = a.length + 1 := by simp
  have hne : (a ++ [x]).isEmpty = false := by simp
  simp only [hne, hl, Bool.false_eq_true, if_false, lastByte_append_singleton, ofLE_snoc,
    Nat.add_sub_cancel]
  split
  · rename_i h
    rw [sub_arith _ _ _ h]
  · rfl

theorem decodeNum_eq_setVch (b : Bytes) : decodeNum b = Core.setVch b := by
  by_cases h : b = []
  · subst h; rfl
  · obtain ⟨a, x, rfl⟩ := exists_init_last b h
    rw [decodeNum_snoc, setVch_snoc]

/-! ### bit length -/

theorem natBitLengthAux_spec (fuel n : Nat) (h : n ≤ fuel) :
    n < 2 ^ natBitLengthAux fuel n ∧ (0 < n → 2 ^ (natBitLengthAux fuel n - 1) ≤ n ∧ 0 < natBitLengthAux fuel n) := by
  induction fuel generalizing n with
  | zero =>
    have : n = 0 := by omega
    subst this; simp [natBitLengthAux]
  | succ f ih =>
    unfold natBitLengthAux
    by_cases h0 : n = 0
    · simp [h0]
    · simp only [h0, if_false]
      have hd : n / 2 ≤ f := by omega
      obtain ⟨h1, h2⟩ := ih (n / 2) hd
      constructor
      · rw [Nat.add_comm, Nat.pow_succ]; omega
      · intro _
        refine ⟨?_, by omega⟩
        simp only [Nat.add_sub_cancel_left]
        by_cases hz : n / 2 = 0
        · have : natBitLengthAux f (n / 2) = 0 := by
            rw [hz]; cases f <;> simp [natBitLengthAux]
          rw [this]; simp; omega
        · obtain ⟨h3, h4⟩ := h2 (by omega)
          have : natBitLengthAux f (n / 2) = (natBitLengthAux f (n / 2) - 1) + 1 := by omega
          rw [this, Nat.pow_succ]; omega

theorem natBitLength_spec (n : Nat) (h : 0 < n) :
    n < 2 ^ natBitLength n ∧ 2 ^ (natBitLength n - 1) ≤ n ∧ 0 < natBitLength n := by
  have := natBitLengthAux_spec n n (Nat.le_refl _)
  exact ⟨this.1, (this.2 h).1, (this.2 h).2⟩

/-! ### last byte of `leBytes` -/

theorem leBytes_succ_snoc (k n : Nat) :
    leBytes (k + 1) n = leBytes k n ++ [UInt8.ofNat (n / 256 ^ k % 256)] := by
  induction k generalizing n with
  | zero => simp [leBytes]
  | succ j ih =>
    rw [leBytes, ih (n / 256), leBytes]
    simp only [List.cons_append, Nat.pow_succ, Nat.div_div_eq_div_mul]
    rw [Nat.mul_comm (256 ^ j) 256]

/-! ### round trip -/

/-- the size `encode_num` chooses: `8·nBytes − 1` bits hold the magnitude -/
theorem encode_size (a : Nat) (h : 0 < a) :
    ∃ k, (natBitLength a + 1 + 7) / 8 = k + 1 ∧ a < 128 * 256 ^ k := by
  obtain ⟨h1, _, h3⟩ := natBitLength_spec a h
  refine ⟨(natBitLength a + 1 + 7) / 8 - 1, by omega, ?_⟩
  rw [← two_pow_top]
  refine Nat.lt_of_lt_of_le h1 (Nat.pow_le_pow_right (by omega) (by omega))

theorem decodeNum_encodeNumRaw (i : Int) : decodeNum (encodeNumRaw i) = i := by
  unfold encodeNumRaw
  by_cases h0 : i = 0
  · simp [h0, decodeNum]
  · simp only [h0, if_false]
    have ha : 0 < i.natAbs := by omega
    obtain ⟨k, hk, hlt⟩ := encode_size i.natAbs ha
    rw [hk, two_pow_top, leBytes_succ_snoc, decodeNum_snoc]
    have hp := pow_256_pos k
    simp only [leBytes_length, ofLE_leBytes]
    by_cases hneg : i < 0
    · simp only [hneg, if_true]
      have q : (i.natAbs + 128 * 256 ^ k) / 256 ^ k = i.natAbs / 256 ^ k + 128 := by
        rw [Nat.add_mul_div_right _ _ hp]
      have ql : i.natAbs / 256 ^ k < 128 := by
        apply Nat.div_lt_of_lt_mul; rw [Nat.mul_comm]; exact hlt
      have hb : (UInt8.ofNat ((i.natAbs + 128 * 256 ^ k) / 256 ^ k % 256)).toNat
          = i.natAbs / 256 ^ k + 128 := by
        rw [q]; simp [UInt8.toNat_ofNat']; omega
      rw [hb]
      have : i.natAbs / 256 ^ k + 128 ≥ 128 := Nat.le_add_left _ _
      simp only [this, if_true, Nat.add_sub_cancel]
      have hm : (i.natAbs + 128 * 256 ^ k) % 256 ^ k = i.natAbs % 256 ^ k := by
        rw [Nat.add_mul_mod_self_right]
      rw [hm, Nat.mod_add_div]
      omega
    · simp only [hneg, if_false, Nat.add_zero]
      have ql : i.natAbs / 256 ^ k < 128 := by
        apply Nat.div_lt_of_lt_mul; rw [Nat.mul_comm]; exact hlt
      have hb : (UInt8.ofNat (i.natAbs / 256 ^ k % 256)).toNat = i.natAbs / 256 ^ k := by
        simp [UInt8.toNat_ofNat']; omega
      rw [hb]
      have : ¬ i.natAbs / 256 ^ k ≥ 128 := by omega
      simp only [this, if_false]
      rw [Nat.mod_add_div]
      omega

end Btc.Script
