import Model.C08.Num
import Proofs.Common.Bytes
/-! Helper lemmas for script numbers and booleans (C08 T1). Core Lean only. -/
namespace Btc.Script
open Btc Btc.Py

/-! ### booleans -/

theorem toBool_eq_castToBool (b : Bytes) : toBool b = Core.castToBool b := by
  unfold Core.castToBool
  induction b with
  | nil => rfl
  | cons x xs ih =>
    cases xs with
    | nil =>
      simp only [toBool, Core.castToBoolAux, List.isEmpty_nil, Bool.true_and]
      by_cases h0 : x = 0
      · simp [h0]
      · by_cases h8 : x = 0x80
        · simp [h8]
        · simp [h0, h8]
    | cons y r =>
      simp only [toBool, Core.castToBoolAux, List.isEmpty_cons, Bool.false_and]
      by_cases h0 : x = 0
      · simp only [h0, ne_eq, not_true_eq_false, if_false]; exact ih
      · simp [h0]

/-! ### last byte / init decomposition -/

theorem lastByte_append_singleton (a : Bytes) (x : UInt8) : lastByte (a ++ [x]) = x := by
  induction a with
  | nil => rfl
  | cons y ys ih =>
    cases ys with
    | nil => simp [lastByte]
    | cons z zs => simpa [lastByte] using ih

theorem exists_init_last (b : Bytes) (h : b ≠ []) : ∃ a x, b = a ++ [x] := by
  refine ⟨b.dropLast, b.getLast h, ?_⟩
  exact (List.dropLast_concat_getLast h).symm

theorem ofLE_snoc (a : Bytes) (x : UInt8) : ofLE (a ++ [x]) = ofLE a + 256 ^ a.length * x.toNat := by
  rw [ofLE_append]; simp [ofLE]

theorem pow_256_pos (k : Nat) : 0 < 256 ^ k := Nat.pow_pos (by omega)

theorem two_pow_8k (k : Nat) : 2 ^ (8 * k) = 256 ^ k := by
  rw [Nat.pow_mul]

/-- `2^(8(k+1)-1) = 128·256^k` -/
theorem two_pow_top (k : Nat) : 2 ^ ((k + 1) * 8 - 1) = 128 * 256 ^ k := by
  have : (k + 1) * 8 - 1 = 8 * k + 7 := by omega
  rw [this, Nat.pow_add, two_pow_8k]; omega

/-! ### `decode_num` is `CScriptNum::set_vch` -/

/-- arithmetic core of `decode_num`'s masking: with `m < P`, `x ≥ 128`,
    `(m + P·x) mod (128·P) = m + P·(x − 128)` -/
theorem mask_arith (m P x : Nat) (hm : m < P) (hx : 128 ≤ x) (hx2 : x < 256) :
    (m + P * x) % (128 * P) = m + P * (x - 128) := by
  have e : m + P * x = (m + P * (x - 128)) + 128 * P * 1 := by
    have : x = (x - 128) + 128 := by omega
    conv => lhs; rw [this, Nat.mul_add]
    rw [Nat.mul_one, Nat.mul_comm 128 P]; omega
  rw [e, Nat.add_mul_mod_self_left]
  apply Nat.mod_eq_of_lt
  have : P * (x - 128) ≤ P * 127 := Nat.mul_le_mul_left _ (by omega)
  omega

theorem sub_arith (m P x : Nat) (hx : 128 ≤ x) :
    m + P * x - 128 * P = m + P * (x - 128) := by
  have : x = (x - 128) + 128 := by omega
  conv => lhs; rw [this, Nat.mul_add]
  rw [Nat.mul_comm P 128]; omega

theorem decodeNum_snoc (a : Bytes) (x : UInt8) :
    decodeNum (a ++ [x]) =
      if x.toNat ≥ 128 then - ((ofLE a + 256 ^ a.length * (x.toNat - 128) : Nat) : Int)
      else ((ofLE a + 256 ^ a.length * x.toNat : Nat) : Int) := by
  unfold decodeNum
  have hl : (a ++ [x]).length = a.length + 1 := by simp
  simp only [hl, Nat.add_one_ne_zero, if_false, lastByte_append_singleton, ofLE_snoc, two_pow_top]
  have hm := ofLE_lt a
  have hx : x.toNat < 256 := x.toNat_lt
  split
  · rename_i h
    rw [mask_arith _ _ _ hm h hx]
  · rfl

theorem setVch_snoc (a : Bytes) (x : UInt8) :
    Core.setVch (a ++ [x]) =
      if x.toNat ≥ 128 then - ((ofLE a + 256 ^ a.length * (x.toNat - 128) : Nat) : Int)
      else ((ofLE a + 256 ^ a.length * x.toNat : Nat) : Int) := by
  unfold Core.setVch
  have hl : (a ++ [x]).length = a.length + 1 := by simp
  have hne : (a ++ [x]).isEmpty = false := by simp
  simp only [hne, hl, Bool.false_eq_true, if_false, lastByte_append_singleton, ofLE_snoc,
    Nat.add_sub_cancel]
  split
  · rename_i h
    rw [sub_arith _ _ _ h]
  · rfl

theorem decodeNum_eq_setVch (b : Bytes) : decodeNum b = Core.setVch b := by
  by_cases h : b = []
  · subst h; rfl
  · obtain ⟨a, x, rfl⟩ := exists_init_last b h
    rw [decodeNum_snoc, setVch_snoc]

/-! ### bit length -/

theorem natBitLengthAux_spec (fuel n : Nat) (h : n ≤ fuel) :
    n < 2 ^ natBitLengthAux fuel n ∧ (0 < n → 2 ^ (natBitLengthAux fuel n - 1) ≤ n ∧ 0 < natBitLengthAux fuel n) := by
  induction fuel generalizing n with
  | zero =>
    have : n = 0 := by omega
    subst this; simp [natBitLengthAux]
  | succ f ih =>
    unfold natBitLengthAux
    by_cases h0 : n = 0
    · simp [h0]
    · simp only [h0, if_false]
      have hd : n / 2 ≤ f := by omega
      obtain ⟨h1, h2⟩ := ih (n / 2) hd
      constructor
      · rw [Nat.add_comm, Nat.pow_succ]; omega
      · intro _
        refine ⟨?_, by omega⟩
        simp only [Nat.add_sub_cancel_left]
        by_cases hz : n / 2 = 0
        · have : natBitLengthAux f (n / 2) = 0 := by
            rw [hz]; cases f <;> simp [natBitLengthAux]
          rw [this]; simp; omega
        · obtain ⟨h3, h4⟩ := h2 (by omega)
          have : natBitLengthAux f (n / 2) = (natBitLengthAux f (n / 2) - 1) + 1 := by omega
          rw [this, Nat.pow_succ]; omega

theorem natBitLength_spec (n : Nat) (h : 0 < n) :
    n < 2 ^ natBitLength n ∧ 2 ^ (natBitLength n - 1) ≤ n ∧ 0 < natBitLength n := by
  have := natBitLengthAux_spec n n (Nat.le_refl _)
  exact ⟨this.1, (this.2 h).1, (this.2 h).2⟩

/-! ### last byte of `leBytes` -/

theorem leBytes_succ_snoc (k n : Nat) :
    leBytes (k + 1) n = leBytes k n ++ [UInt8.ofNat (n / 256 ^ k % 256)] := by
  induction k generalizing n with
  | zero => simp [leBytes]
  | succ j ih =>
    rw [leBytes, ih (n / 256), leBytes]
    simp only [List.cons_append, Nat.pow_succ, Nat.div_div_eq_div_mul]
    rw [Nat.mul_comm (256 ^ j) 256]

/-! ### round trip -/

/-- the size `encode_num` chooses: `8·nBytes − 1` bits hold the magnitude -/
theorem encode_size (a : Nat) (h : 0 < a) :
    ∃ k, (natBitLength a + 1 + 7) / 8 = k + 1 ∧ a < 128 * 256 ^ k := by
  obtain ⟨h1, _, h3⟩ := natBitLength_spec a h
  refine ⟨(natBitLength a + 1 + 7) / 8 - 1, by omega, ?_⟩
  rw [← two_pow_top]
  refine Nat.lt_of_lt_of_le h1 (Nat.pow_le_pow_right (by omega) (by omega))

theorem decodeNum_encodeNumRaw (i : Int) : decodeNum (encodeNumRaw i) = i := by
  unfold encodeNumRaw
  by_cases h0 : i = 0
  · simp [h0, decodeNum]
  · simp only [h0, if_false]
    have ha : 0 < i.natAbs := by omega
    obtain ⟨k, hk, hlt⟩ := encode_size i.natAbs ha
    rw [hk, two_pow_top, leBytes_succ_snoc, decodeNum_snoc]
    have hp := pow_256_pos k
    simp only [leBytes_length, ofLE_leBytes]
    by_cases hneg : i < 0
    · simp only [hneg, if_true]
      have q : (i.natAbs + 128 * 256 ^ k) / 256 ^ k = i.natAbs / 256 ^ k + 128 := by
        rw [Nat.add_mul_div_right _ _ hp]
      have ql : i.natAbs / 256 ^ k < 128 := by
        apply Nat.div_lt_of_lt_mul; rw [Nat.mul_comm]; exact hlt
      have hb : (UInt8.ofNat ((i.natAbs + 128 * 256 ^ k) / 256 ^ k % 256)).toNat
          = i.natAbs / 256 ^ k + 128 := by
        rw [q]; simp [UInt8.toNat_ofNat']; omega
      rw [hb]
      have : i.natAbs / 256 ^ k + 128 ≥ 128 := Nat.le_add_left _ _
      simp only [this, if_true, Nat.add_sub_cancel]
      have hm : (i.natAbs + 128 * 256 ^ k) % 256 ^ k = i.natAbs % 256 ^ k := by
        rw [Nat.add_mul_mod_self_right]
      rw [hm, Nat.mod_add_div]
      omega
    · simp only [hneg, if_false, Nat.add_zero]
      have ql : i.natAbs / 256 ^ k < 128 := by
        apply Nat.div_lt_of_lt_mul; rw [Nat.mul_comm]; exact hlt
      have hb : (UInt8.ofNat (i.natAbs / 256 ^ k % 256)).toNat = i.natAbs / 256 ^ k := by
        simp [UInt8.toNat_ofNat']; omega
      rw [hb]
      have : ¬ i.natAbs / 256 ^ k ≥ 128 := by omega
      simp only [this, if_false]
      rw [Nat.mod_add_div]
      omega

/-! ### minimal encodings -/

theorem isMin_snoc (a : Bytes) (x : UInt8) :
    Core.isMinimallyEncoded (a ++ [x]) =
      (if x.toNat % 128 ≠ 0 then true else (!a.isEmpty && decide ((lastByte a).toNat ≥ 128))) := by
  induction a with
  | nil => simp [Core.isMinimallyEncoded]
  | cons y ys ih =>
    cases ys with
    | nil =>
      simp only [List.cons_append, List.nil_append, Core.isMinimallyEncoded, lastByte, List.isEmpty_cons,
        Bool.not_false, Bool.true_and]
      by_cases h : x.toNat % 128 = 0 <;> simp [h]
    | cons z zs =>
      have : (y :: z :: zs) ++ [x] = y :: z :: (zs ++ [x]) := rfl
      rw [this]
      cases zs with
      | nil =>
        simp only [List.nil_append, Core.isMinimallyEncoded, lastByte, List.isEmpty_cons]
        by_cases h : x.toNat % 128 = 0 <;> simp [h]
      | cons w ws =>
        simp only [List.cons_append, Core.isMinimallyEncoded]
        simp only [List.cons_append] at ih
        rw [ih]; simp [lastByte]

theorem pow256_lt_of (j k x : Nat) (h1 : 128 * 256 ^ j ≤ x) (h2 : x < 128 * 256 ^ k) : j < k := by
  by_cases h : j < k
  · exact h
  · have : 256 ^ k ≤ 256 ^ j := Nat.pow_le_pow_right (by omega) (by omega)
    omega

theorem pow256_succ (k : Nat) : 256 ^ (k + 1) = 256 * 256 ^ k := by
  rw [Nat.pow_succ, Nat.mul_comm]

/-- the size `encode_num` chooses, with both bounds -/
theorem encode_size' (a : Nat) (h : 0 < a) :
    ∃ k, (natBitLength a + 1 + 7) / 8 = k + 1 ∧ a < 128 * 256 ^ k ∧ (k = 0 ∨ 128 * 256 ^ (k - 1) ≤ a) := by
  obtain ⟨h1, h2, h3⟩ := natBitLength_spec a h
  refine ⟨(natBitLength a + 1 + 7) / 8 - 1, by omega, ?_, ?_⟩
  · rw [← two_pow_top]
    exact Nat.lt_of_lt_of_le h1 (Nat.pow_le_pow_right (by omega) (by omega))
  · by_cases hk : (natBitLength a + 1 + 7) / 8 - 1 = 0
    · left; exact hk
    · right
      have e : (natBitLength a + 1 + 7) / 8 - 1 - 1 + 1 = (natBitLength a + 1 + 7) / 8 - 1 := by omega
      rw [← two_pow_top]
      refine Nat.le_trans (Nat.pow_le_pow_right (by omega) ?_) h2
      omega

theorem lastByte_lower (a : Bytes) (h : a ≠ []) :
    ofLE a = ofLE a.dropLast + 256 ^ (a.length - 1) * (lastByte a).toNat := by
  obtain ⟨i, x, rfl⟩ := exists_init_last a h
  simp [lastByte_append_singleton, ofLE_snoc]


/-- the magnitude and sign `decode_num` reads off `a ++ [x]` -/
theorem decodeNum_snoc' (a : Bytes) (x : UInt8) :
    decodeNum (a ++ [x]) =
      if x.toNat ≥ 128 then - ((ofLE a + 256 ^ a.length * (x.toNat % 128) : Nat) : Int)
      else ((ofLE a + 256 ^ a.length * (x.toNat % 128) : Nat) : Int) := by
  rw [decodeNum_snoc]
  have hx : x.toNat < 256 := x.toNat_lt
  split
  · have : x.toNat - 128 = x.toNat % 128 := by omega
    rw [this]
  · have : x.toNat = x.toNat % 128 := by omega
    rw [← this]

/-- bounds on the value of a non-empty string from its last byte -/
theorem ofLE_last_bounds (a : Bytes) (h : a ≠ []) :
    256 ^ (a.length - 1) * (lastByte a).toNat ≤ ofLE a ∧
    ofLE a < 256 ^ (a.length - 1) * ((lastByte a).toNat + 1) := by
  obtain ⟨i, x, rfl⟩ := exists_init_last a h
  have hi := ofLE_lt i
  simp only [lastByte_append_singleton, ofLE_snoc, List.length_append, List.length_cons, List.length_nil,
    Nat.add_sub_cancel, Nat.zero_add]
  rw [Nat.mul_add, Nat.mul_one]
  omega

/-- which length `encode_num` picks for the value decoded from `a ++ [x]`, against the length of `a ++ [x]` -/
theorem size_vs_minimal (a : Bytes) (x : UInt8) (k' : Nat)
    (hpos : 0 < ofLE a + 256 ^ a.length * (x.toNat % 128))
    (hlt : ofLE a + 256 ^ a.length * (x.toNat % 128) < 128 * 256 ^ k')
    (hlow : k' = 0 ∨ 128 * 256 ^ (k' - 1) ≤ ofLE a + 256 ^ a.length * (x.toNat % 128)) :
    (Core.isMinimallyEncoded (a ++ [x]) = true → k' = a.length) ∧
    (Core.isMinimallyEncoded (a ++ [x]) = false → k' < a.length) := by
  have hm := ofLE_lt a
  have hP := pow_256_pos a.length
  have hr : x.toNat % 128 < 128 := Nat.mod_lt _ (by omega)
  have hup : 256 ^ a.length * (x.toNat % 128) ≤ 256 ^ a.length * 127 := Nat.mul_le_mul_left _ (by omega)
  rw [isMin_snoc]
  by_cases hz : x.toNat % 128 = 0
  · -- the last byte carries no magnitude: the one before decides
    simp only [hz, ne_eq, not_true_eq_false, if_false, Nat.mul_zero, Nat.add_zero] at *
    have hne : a ≠ [] := by
      intro e; subst e; simp [ofLE] at hpos
    obtain ⟨b1, b2⟩ := ofLE_last_bounds a hne
    have hk : 1 ≤ a.length := by
      cases a with
      | nil => exact absurd rfl hne
      | cons _ _ => simp
    have hpk : 256 ^ a.length = 256 * 256 ^ (a.length - 1) := by
      have : a.length = (a.length - 1) + 1 := by omega
      conv => lhs; rw [this, pow256_succ]
    have hemp : a.isEmpty = false := by
      cases a with
      | nil => exact absurd rfl hne
      | cons _ _ => rfl
    simp only [hemp, Bool.not_false, Bool.true_and, decide_eq_true_eq, decide_eq_false_iff_not]
    constructor
    · intro hl
      have lo : 128 * 256 ^ (a.length - 1) ≤ ofLE a := by
        have : 256 ^ (a.length - 1) * 128 ≤ 256 ^ (a.length - 1) * (lastByte a).toNat :=
          Nat.mul_le_mul_left _ hl
        omega
      have g1 : a.length - 1 < k' := pow256_lt_of _ _ _ lo hlt
      rcases hlow with h0 | h1
      · omega
      · have : k' - 1 < a.length := by
          by_cases hh : k' - 1 < a.length
          · exact hh
          · have : 256 ^ a.length ≤ 256 ^ (k' - 1) := Nat.pow_le_pow_right (by omega) (by omega)
            omega
        omega
    · intro hl
      have hi : ofLE a < 128 * 256 ^ (a.length - 1) := by
        have : 256 ^ (a.length - 1) * ((lastByte a).toNat + 1) ≤ 256 ^ (a.length - 1) * 128 :=
          Nat.mul_le_mul_left _ (by omega)
        omega
      rcases hlow with h0 | h1
      · omega
      · have := pow256_lt_of _ _ _ h1 hi
        omega
  · -- the last byte carries magnitude bits: always minimal
    simp only [hz, ne_eq, not_false_eq_true, if_true, true_implies, Bool.true_eq_false, false_implies, and_true]
    have lo : 256 ^ a.length ≤ ofLE a + 256 ^ a.length * (x.toNat % 128) := by
      have : 256 ^ a.length * 1 ≤ 256 ^ a.length * (x.toNat % 128) := Nat.mul_le_mul_left _ (by omega)
      omega
    have g1 : a.length ≤ k' := by
      by_cases hh : a.length ≤ k'
      · exact hh
      · have : 256 ^ (k' + 1) ≤ 256 ^ a.length := Nat.pow_le_pow_right (by omega) (by omega)
        rw [pow256_succ] at this
        omega
    rcases hlow with h0 | h1
    · omega
    · have hi : ofLE a + 256 ^ a.length * (x.toNat % 128) < 128 * 256 ^ a.length := by omega
      have := pow256_lt_of _ _ _ h1 hi
      omega

/-- btclib's minimality test (`encode_num(decode_num(b)) == b`) is Core's (`CScriptNum` constructor) -/
theorem encode_decode_iff_minimal (b : Bytes) :
    encodeNumRaw (decodeNum b) = b ↔ Core.isMinimallyEncoded b = true := by
  by_cases hb : b = []
  · subst hb; simp [decodeNum, encodeNumRaw, Core.isMinimallyEncoded]
  · obtain ⟨a, x, rfl⟩ := exists_init_last b hb
    have hx : x.toNat < 256 := x.toNat_lt
    have hm := ofLE_lt a
    have hP := pow_256_pos a.length
    rw [decodeNum_snoc']
    generalize hmag : ofLE a + 256 ^ a.length * (x.toNat % 128) = mag
    by_cases h0 : mag = 0
    · -- the value is zero: `encode_num` writes the empty vector, and Core calls every other spelling non-minimal
      subst h0
      have e : (if x.toNat ≥ 128 then -((0 : Nat) : Int) else ((0 : Nat) : Int)) = 0 := by split <;> simp
      rw [e]
      have hz : x.toNat % 128 = 0 := by
        by_cases hz : x.toNat % 128 = 0
        · exact hz
        · have : 256 ^ a.length * 1 ≤ 256 ^ a.length * (x.toNat % 128) := Nat.mul_le_mul_left _ (by omega)
          omega
      have hma : ofLE a = 0 := by omega
      have hnm : Core.isMinimallyEncoded (a ++ [x]) = false := by
        rw [isMin_snoc]
        simp only [hz, ne_eq, not_true_eq_false, if_false]
        cases ha : a with
        | nil => rfl
        | cons y ys =>
          have hne : a ≠ [] := by rw [ha]; exact List.cons_ne_nil _ _
          obtain ⟨b1, _⟩ := ofLE_last_bounds a hne
          rw [hma] at b1
          have hp := pow_256_pos (a.length - 1)
          have : (lastByte a).toNat = 0 := by
            by_cases hl : (lastByte a).toNat = 0
            · exact hl
            · have : 256 ^ (a.length - 1) * 1 ≤ 256 ^ (a.length - 1) * (lastByte a).toNat :=
                Nat.mul_le_mul_left _ (by omega)
              omega
          rw [← ha]; simp [this]
      simp [encodeNumRaw, hnm]
    · have hpos : 0 < mag := by omega
      obtain ⟨k', hk, hlt, hlow⟩ := encode_size' mag hpos
      have hsz := size_vs_minimal a x k' (by rw [hmag]; exact hpos) (by rw [hmag]; exact hlt) (by rw [hmag]; exact hlow)
      -- what `encode_num` writes for the decoded value
      have henc : encodeNumRaw (if x.toNat ≥ 128 then -((mag : Nat) : Int) else ((mag : Nat) : Int))
          = leBytes (k' + 1) (mag + (if x.toNat ≥ 128 then 128 * 256 ^ k' else 0)) := by
        unfold encodeNumRaw
        by_cases hn : x.toNat ≥ 128
        · simp only [hn, if_true]
          have e0 : ¬ (-(mag : Int) = 0) := by omega
          have e1 : (-(mag : Int)).natAbs = mag := by omega
          have e2 : (-(mag : Int)) < 0 := by omega
          simp only [e0, if_false, e1, e2, if_true, hk, two_pow_top]
        · simp only [hn, if_false]
          have e0 : ¬ ((mag : Int) = 0) := by omega
          have e1 : ((mag : Int)).natAbs = mag := by omega
          have e2 : ¬ ((mag : Int) < 0) := by omega
          simp only [e0, if_false, e1, e2, hk, Nat.add_zero]
      rw [henc]
      constructor
      · intro heq
        have hlen : k' + 1 = a.length + 1 := by
          have := congrArg List.length heq
          simpa using this
        cases hmin : Core.isMinimallyEncoded (a ++ [x]) with
        | true => rfl
        | false => have := hsz.2 hmin; omega
      · intro hmin
        have hkk := hsz.1 hmin
        subst hkk
        have hval : mag + (if x.toNat ≥ 128 then 128 * 256 ^ a.length else 0) = ofLE (a ++ [x]) := by
          rw [ofLE_snoc, ← hmag]
          split
          · have : x.toNat = x.toNat % 128 + 128 := by omega
            conv => rhs; rw [this, Nat.mul_add]
            rw [Nat.mul_comm (256 ^ a.length) 128]; omega
          · have : x.toNat = x.toNat % 128 := by omega
            rw [← this]; omega
        rw [hval]
        have := leBytes_ofLE (a ++ [x])
        simpa using this

/-- an operand of at most 8 bytes decodes into the int64 range (`encode_num` then cannot refuse it) -/
theorem decodeNum_range (b : Bytes) (h : b.length ≤ 8) :
    MIN_SCRIPT_NUM ≤ decodeNum b ∧ decodeNum b ≤ MAX_SCRIPT_NUM := by
  by_cases hb : b = []
  · subst hb; simp [decodeNum, MIN_SCRIPT_NUM, MAX_SCRIPT_NUM]
  · obtain ⟨a, x, rfl⟩ := exists_init_last b hb
    have hx : x.toNat < 256 := x.toNat_lt
    have hm := ofLE_lt a
    have hk : a.length ≤ 7 := by simp at h; omega
    have hP : 256 ^ a.length ≤ 256 ^ 7 := Nat.pow_le_pow_right (by omega) hk
    have hr : x.toNat % 128 < 128 := Nat.mod_lt _ (by omega)
    have hup : 256 ^ a.length * (x.toNat % 128) ≤ 256 ^ a.length * 127 := Nat.mul_le_mul_left _ (by omega)
    rw [decodeNum_snoc']
    have e7 : (256 : Nat) ^ 7 = 72057594037927936 := by decide
    simp only [MIN_SCRIPT_NUM, MAX_SCRIPT_NUM]
    split <;> omega

/-- T1: `_to_num` is Core's `CScriptNum(vch, fRequireMinimal, nMaxNumSize)`: same refusals, same value — for every
    operand width up to 8 bytes (the interpreter uses 4 and 5).  From 9 bytes on the two differ: `encode_num` refuses
    what is not an int64, `CScriptNum` does not look. -/
theorem toNum_eq_scriptNum (b : Bytes) (minimal : Bool) (maxSize : Nat) (hmax : maxSize ≤ 8) :
    (toNum b minimal maxSize).toOption = (Core.scriptNum b minimal maxSize).toOption := by
  unfold toNum Core.scriptNum
  by_cases hl : b.length > maxSize
  · simp [hl, Except.toOption]
  · simp only [hl, if_false]
    cases minimal with
    | false => simp [Except.toOption, decodeNum_eq_setVch]
    | true =>
      have hr := decodeNum_range b (by omega)
      simp only [if_true, encodeNum, hr, and_self, Bool.true_and]
      cases hmin : Core.isMinimallyEncoded b with
      | true =>
        have := (encode_decode_iff_minimal b).mpr hmin
        rw [decodeNum_eq_setVch] at this
        simp [this, Except.toOption, decodeNum_eq_setVch]
      | false =>
        have : ¬ encodeNumRaw (decodeNum b) = b := by
          intro e; have := (encode_decode_iff_minimal b).mp e; rw [hmin] at this; cases this
        rw [decodeNum_eq_setVch] at this
        simp [this, Except.toOption, decodeNum_eq_setVch]

/-! ### `encode_num` is `CScriptNum::serialize` -/

theorem magnitudeBytes_eq (j : Nat) : ∀ (fuel n : Nat), n ≤ fuel → n < 256 ^ j → (j = 0 ∨ 256 ^ (j - 1) ≤ n) →
    Core.magnitudeBytes fuel n = leBytes j n := by
  induction j with
  | zero =>
    intro fuel n _ h _
    have : n = 0 := by simpa using h
    subst this
    cases fuel <;> simp [Core.magnitudeBytes, leBytes]
  | succ j ih =>
    intro fuel n hf hlt hlow
    have hp := pow_256_pos j
    have hge : 256 ^ j ≤ n := by
      rcases hlow with h | h
      · omega
      · simpa using h
    cases fuel with
    | zero => omega
    | succ f =>
      have hn : n ≠ 0 := by omega
      simp only [Core.magnitudeBytes, hn, if_false, leBytes]
      congr 1
      apply ih
      · omega
      · rw [pow256_succ] at hlt; omega
      · by_cases hj : j = 0
        · left; exact hj
        · right
          have : 256 ^ j = 256 * 256 ^ (j - 1) := by
            have : j = (j - 1) + 1 := by omega
            conv => lhs; rw [this, pow256_succ]
          omega

theorem leBytes_add_mul (k n c : Nat) : leBytes k (n + c * 256 ^ k) = leBytes k n := by
  induction k generalizing n c with
  | zero => rfl
  | succ k ih =>
    simp only [leBytes]
    have e : c * 256 ^ (k + 1) = 256 * (c * 256 ^ k) := by
      rw [pow256_succ]; rw [← Nat.mul_assoc, Nat.mul_comm c 256, Nat.mul_assoc]
    rw [e]
    have h1 : (n + 256 * (c * 256 ^ k)) % 256 = n % 256 := by omega
    have h2 : (n + 256 * (c * 256 ^ k)) / 256 = n / 256 + c * 256 ^ k := by omega
    rw [h1, h2, ih]

theorem setLast_snoc (a : Bytes) (x v : UInt8) : Core.setLast (a ++ [x]) v = a ++ [v] := by
  induction a with
  | nil => rfl
  | cons y ys ih =>
    cases ys with
    | nil => simp [Core.setLast]
    | cons z zs => simpa [Core.setLast] using ih

/-- `encode_num` writes what `CScriptNum::serialize` writes, for every integer -/
theorem encodeNumRaw_eq_serialize (i : Int) : encodeNumRaw i = Core.scriptNumSerialize i := by
  unfold encodeNumRaw Core.scriptNumSerialize
  by_cases h0 : i = 0
  · simp [h0]
  · simp only [h0, if_false]
    have hpos : 0 < i.natAbs := by omega
    generalize hmag : i.natAbs = mag at *
    obtain ⟨k, hk, hlt, hlow⟩ := encode_size' mag hpos
    rw [hk, two_pow_top]
    have hp := pow_256_pos k
    by_cases hA : 256 ^ k ≤ mag
    · -- the magnitude fills k+1 bytes and leaves the sign bit free
      have hm : Core.magnitudeBytes mag mag = leBytes (k + 1) mag :=
        magnitudeBytes_eq (k + 1) mag mag (Nat.le_refl _) (by rw [pow256_succ]; omega) (Or.inr (by simpa using hA))
      rw [hm, leBytes_succ_snoc k mag, lastByte_append_singleton]
      have q : mag / 256 ^ k < 128 := by
        apply Nat.div_lt_of_lt_mul; rw [Nat.mul_comm]; exact hlt
      have hb : (UInt8.ofNat (mag / 256 ^ k % 256)).toNat = mag / 256 ^ k := by
        simp [UInt8.toNat_ofNat']; omega
      have hnot : ¬ (UInt8.ofNat (mag / 256 ^ k % 256)).toNat ≥ 128 := by rw [hb]; omega
      simp only [hnot, if_false]
      by_cases hn : i < 0
      · simp only [hn, if_true]
        rw [setLast_snoc, leBytes_succ_snoc k (mag + 128 * 256 ^ k)]
        rw [leBytes_add_mul k mag 128, Nat.add_mul_div_right _ _ hp, hb]
        congr 2
        have : (mag / 256 ^ k + 128) % 256 = mag / 256 ^ k + 128 := by omega
        rw [this]
      · simp only [hn, if_false, Nat.add_zero]
        exact leBytes_succ_snoc k mag
    · -- the top bit of the magnitude is taken: one more byte carries the sign
      have hk1 : 1 ≤ k := by
        cases k with
        | zero => simp at hA; omega
        | succ _ => omega
      have hl : 128 * 256 ^ (k - 1) ≤ mag := by
        rcases hlow with h | h
        · omega
        · exact h
      have hpk : 256 ^ k = 256 * 256 ^ (k - 1) := by
        have : k = (k - 1) + 1 := by omega
        conv => lhs; rw [this, pow256_succ]
      have hp1 := pow_256_pos (k - 1)
      have hm : Core.magnitudeBytes mag mag = leBytes k mag :=
        magnitudeBytes_eq k mag mag (Nat.le_refl _) (by omega) (Or.inr (by omega))
      have hks : leBytes k mag = leBytes (k - 1) mag ++ [UInt8.ofNat (mag / 256 ^ (k - 1) % 256)] := by
        have : k = (k - 1) + 1 := by omega
        conv => lhs; rw [this]
        exact leBytes_succ_snoc (k - 1) mag
      have q1 : mag / 256 ^ (k - 1) < 256 := by
        apply Nat.div_lt_of_lt_mul; rw [Nat.mul_comm]; omega
      have q2 : 128 ≤ mag / 256 ^ (k - 1) := by
        apply (Nat.le_div_iff_mul_le hp1).mpr; omega
      have hb : (UInt8.ofNat (mag / 256 ^ (k - 1) % 256)).toNat = mag / 256 ^ (k - 1) := by
        simp [UInt8.toNat_ofNat']; omega
      rw [hm]
      have hlast : (lastByte (leBytes k mag)).toNat ≥ 128 := by
        rw [hks, lastByte_append_singleton, hb]; exact q2
      simp only [hlast, if_true]
      rw [leBytes_succ_snoc]
      have hq0 : mag / 256 ^ k = 0 := Nat.div_eq_of_lt (by omega)
      by_cases hn : i < 0
      · simp only [hn, if_true]
        rw [leBytes_add_mul k mag 128, Nat.add_mul_div_right _ _ hp, hq0]
        rfl
      · simp only [hn, if_false, Nat.add_zero, hq0]
        rfl


end Btc.Script
