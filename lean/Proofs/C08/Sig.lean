import Proofs.C08.Refine
/-! T3, the signature op codes at op level: the arms of btclib's `_run_ops` for OP_CHECKSIG / OP_CHECKMULTISIG (pop order,
NULLFAIL, NULLDUMMY, the two counts, the key/signature walk) against the cases of Core's switch, when both sides end in
the same per-signature function (`Btclib.sharedChecksig`, i.e. the same `Core.Checker`). -/
namespace Btc.Script.Sig
open Btc Btc.Script Btclib Refine

/-- the hypothesis under which the signature op codes are compared: btclib's `op_checksig` is Core's sequence for one
    signature and one key over the checker Core's side uses, and `_run_ops` was handed the script under evaluation -/
structure Shared (cx : Btclib.Ctx) (sc : Bytes) : Prop where
  sig : cx.opChecksig = sharedChecksig cx.checker cx.flags cx.segwit
  script : cx.scriptBytes = sc

/-- Core's sequence for one signature against one key, on Core's context -/
def checkOne (cx : Core.Ctx) (off : Nat) (sig : Bytes) (sigs : List Bytes) (pk : Bytes) : Core.R Bool := do
  let sc ← Core.multisigScriptCode cx sigs (cx.script.drop off)
  Core.checkSignatureEncoding cx.flags sig
  Core.checkPubKeyEncoding cx.flags cx.sigversion pk
  cx.checker.checkECDSA sig pk sc cx.sigversion

theorem msc_congr (cx cx' : Core.Ctx) (hf : cx.flags = cx'.flags) (hs : cx.sigversion = cx'.sigversion)
    (sigs : List Bytes) (sc : Bytes) : Core.multisigScriptCode cx sigs sc = Core.multisigScriptCode cx' sigs sc := by
  induction sigs generalizing sc with
  | nil => rfl
  | cons s r ih =>
    simp only [Core.multisigScriptCode, hf, hs]
    split
    · split
      · rfl
      · exact ih _
    · exact ih _

theorem shared_eq (cx : Btclib.Ctx) (sc : Bytes) (h : Shared cx sc) (sig : Bytes) (sigs : List Bytes) (pk : Bytes) (off : Nat) :
    cx.opChecksig cx.scriptBytes sig sigs pk off = okOpt (checkOne (coreCx cx sc) off sig sigs pk) := by
  rw [h.sig, h.script]
  unfold sharedChecksig checkOne
  have e := msc_congr
    { flags := cx.flags, sigversion := if cx.segwit then .WITNESS_V0 else .BASE, hashes := ⟨id, id, id⟩,
      checker := cx.checker, script := sc } (coreCx cx sc) rfl rfl sigs (sc.drop off)
  simp only at e ⊢
  rw [e]
  show (match checkOne (coreCx cx sc) off sig sigs pk with
    | .ok b => some b | .error _ => none) = okOpt (checkOne (coreCx cx sc) off sig sigs pk)
  cases checkOne (coreCx cx sc) off sig sigs pk <;> rfl

/-- `EvalChecksigPreTapscript` is the per-signature sequence followed by the NULLFAIL rule -/
theorem preTapscript_eq (cx : Core.Ctx) (m : Core.Machine) (sig pk : Bytes) :
    Core.evalChecksigPreTapscript cx m sig pk =
      (checkOne cx m.codeStart sig [sig] pk).bind fun ok =>
        if !ok && Core.has cx.flags Core.FLAG_NULLFAIL && !sig.isEmpty then .error .SIG_NULLFAIL else .ok ok := by
  unfold Core.evalChecksigPreTapscript checkOne
  simp only [Core.multisigScriptCode]
  by_cases hb : (cx.sigversion == Core.SigVersion.BASE) = true
  · simp only [hb, if_true]
    by_cases hf : ((Core.findAndDelete (cx.script.drop m.codeStart) (pushData sig)).2 > 0 &&
        Core.has cx.flags Core.FLAG_CONST_SCRIPTCODE) = true
    · simp [hf, bind, Except.bind, throw, throwThe, MonadExceptOf.throw]
    · have hf' : ((Core.findAndDelete (cx.script.drop m.codeStart) (pushData sig)).2 > 0 &&
          Core.has cx.flags Core.FLAG_CONST_SCRIPTCODE) = false := by simpa using hf
      simp only [hf', Bool.false_eq_true, if_false, bind, Except.bind, pure, Except.pure]
      cases Core.checkSignatureEncoding cx.flags sig with
      | error e => rfl
      | ok _ =>
        cases Core.checkPubKeyEncoding cx.flags cx.sigversion pk with
        | error e => rfl
        | ok _ =>
          simp only
          cases cx.checker.checkECDSA sig pk _ cx.sigversion with
          | error e => rfl
          | ok b => cases b <;> simp [throw, throwThe, MonadExceptOf.throw] <;> split <;> simp_all
  · have hb' : (cx.sigversion == Core.SigVersion.BASE) = false := by simpa using hb
    simp only [hb', Bool.false_eq_true, if_false, bind, Except.bind, pure, Except.pure]
    cases Core.checkSignatureEncoding cx.flags sig with
    | error e => rfl
    | ok _ =>
      cases Core.checkPubKeyEncoding cx.flags cx.sigversion pk with
      | error e => rfl
      | ok _ =>
        simp only
        cases cx.checker.checkECDSA sig pk _ cx.sigversion with
        | error e => rfl
        | ok b => cases b <;> simp [throw, throwThe, MonadExceptOf.throw] <;> split <;> simp_all


theorem enc_bool (b : Bool) : enc (if b then 1 else 0) = Core.ofBool b := by cases b <;> decide

theorem evalChecksig_legacy (cx : Btclib.Ctx) (sc : Bytes) (m : Core.Machine) (sig pk : Bytes) :
    Core.evalChecksig (coreCx cx sc) m sig pk
      = (Core.evalChecksigPreTapscript (coreCx cx sc) m sig pk).map fun ok => (ok, m) := by
  unfold Core.evalChecksig coreCx
  cases cx.segwit <;> rfl

/-- the common part of OP_CHECKSIG and OP_CHECKSIGVERIFY on Core's side, in terms of btclib's arm -/
theorem checksig_eval (cx : Btclib.Ctx) (sc : Bytes) (h : Shared cx sc) (m : Core.Machine) (sig pk : Bytes) :
    okOpt (Core.evalChecksig (coreCx cx sc) m sig pk) =
      (match cx.opChecksig cx.scriptBytes sig [sig] pk m.codeStart with
       | none => none
       | some res => if Core.has cx.flags Core.FLAG_NULLFAIL && !res && !sig.isEmpty then none else some (res, m)) := by
  rw [evalChecksig_legacy, preTapscript_eq, shared_eq cx sc h]
  have hfl : (coreCx cx sc).flags = cx.flags := rfl
  rw [hfl]
  cases checkOne (coreCx cx sc) m.codeStart sig [sig] pk with
  | error e => rfl
  | ok b =>
    simp only [okOpt, Except.bind]
    by_cases hn : (!b && Core.has cx.flags Core.FLAG_NULLFAIL && !sig.isEmpty) = true
    · have hn2 : (Core.has cx.flags Core.FLAG_NULLFAIL && !b && !sig.isEmpty) = true := by
        simp only [Bool.and_eq_true] at hn ⊢; exact ⟨⟨hn.1.2, hn.1.1⟩, hn.2⟩
      simp [hn, hn2, Except.map, okOpt]
    · have hn' : (!b && Core.has cx.flags Core.FLAG_NULLFAIL && !sig.isEmpty) = false := by simpa using hn
      have hn2 : (Core.has cx.flags Core.FLAG_NULLFAIL && !b && !sig.isEmpty) = false := by
        cases b <;> cases hc : Core.has cx.flags Core.FLAG_NULLFAIL <;> cases hs : sig.isEmpty <;> simp_all
      simp [hn', hn2, Except.map, okOpt]

theorem execPlain_checksig (cx : Core.Ctx) (pos opos : Nat) (m : Core.Machine) (verify : Bool) :
    Core.execPlain cx pos opos m (if verify then 0xad else 0xac) =
      (match m.stack with
       | pubkey :: sig :: r => do
         let (ok, m') ← Core.evalChecksig cx m sig pubkey
         if verify then
           if ok then pure { m' with stack := r } else throw .CHECKSIGVERIFY
         else pure { m' with stack := Core.ofBool ok :: r }
       | _ => .error .INVALID_STACK_OPERATION) := by
  cases verify <;> rfl

/-- OP_CHECKSIG: btclib's arm (pop order, `op_checksig`, `assert_nullfail`, `encode_num(int(result))`) is the case of
    Core's switch -/
theorem checksig_core (cx : Btclib.Ctx) (sc : Bytes) (h : Shared cx sc) (pos opos : Nat) (m : Core.Machine) :
    okOpt (Core.execPlain (coreCx cx sc) pos opos m 0xac) =
      (checksigOn cx m.stack m.codeStart).map fun s => { m with stack := s } := by
  have e := execPlain_checksig (coreCx cx sc) pos opos m false
  simp only [Bool.false_eq_true, if_false] at e
  rw [e]
  unfold checksigOn
  rcases hst : m.stack with _ | ⟨pk, _ | ⟨sig, r⟩⟩
  · rfl
  · rfl
  · simp only
    have he := checksig_eval cx sc h m sig pk
    cases hev : Core.evalChecksig (coreCx cx sc) m sig pk with
    | error e1 =>
      rw [hev] at he
      simp only [okOpt] at he
      simp only [bind, Except.bind, okOpt]
      cases ho : cx.opChecksig cx.scriptBytes sig [sig] pk m.codeStart with
      | none => rfl
      | some res =>
        rw [ho] at he
        simp only at he
        split at he
        · rename_i hc; simp [hc]
        · cases he
    | ok p =>
      obtain ⟨ok, m'⟩ := p
      rw [hev] at he
      simp only [okOpt] at he
      simp only [bind, Except.bind, pure, Except.pure, okOpt]
      cases ho : cx.opChecksig cx.scriptBytes sig [sig] pk m.codeStart with
      | none => rw [ho] at he; cases he
      | some res =>
        rw [ho] at he
        simp only at he
        split at he
        · cases he
        · rename_i hc
          simp only [Option.some.injEq, Prod.mk.injEq] at he
          obtain ⟨rfl, rfl⟩ := he
          simp [hc, enc_bool]

/-- OP_CHECKSIGVERIFY as btclib runs it — OP_CHECKSIG's arm, then OP_VERIFY on what it pushed — is the case of Core's
    switch -/
theorem checksigverify_core (cx : Btclib.Ctx) (sc : Bytes) (h : Shared cx sc) (pos opos : Nat) (m : Core.Machine) :
    okOpt (Core.execPlain (coreCx cx sc) pos opos m 0xad) =
      ((checksigOn cx m.stack m.codeStart).bind fun s =>
        match s with
        | top :: r => if toBool top then some r else none
        | [] => none).map fun s => { m with stack := s } := by
  have e := execPlain_checksig (coreCx cx sc) pos opos m true
  simp only [if_true] at e
  rw [e]
  unfold checksigOn
  rcases hst : m.stack with _ | ⟨pk, _ | ⟨sig, r⟩⟩
  · rfl
  · rfl
  · simp only
    have he := checksig_eval cx sc h m sig pk
    cases hev : Core.evalChecksig (coreCx cx sc) m sig pk with
    | error e1 =>
      rw [hev] at he
      simp only [okOpt] at he
      simp only [bind, Except.bind, okOpt]
      cases ho : cx.opChecksig cx.scriptBytes sig [sig] pk m.codeStart with
      | none => rfl
      | some res =>
        rw [ho] at he
        simp only at he
        split at he
        · rename_i hc; simp [hc]
        · cases he
    | ok p =>
      obtain ⟨ok, m'⟩ := p
      rw [hev] at he
      simp only [okOpt] at he
      simp only [bind, Except.bind, pure, Except.pure, okOpt]
      cases ho : cx.opChecksig cx.scriptBytes sig [sig] pk m.codeStart with
      | none => rw [ho] at he; cases he
      | some res =>
        rw [ho] at he
        simp only at he
        split at he
        · cases he
        · rename_i hc
          simp only [Option.some.injEq, Prod.mk.injEq] at he
          obtain ⟨rfl, rfl⟩ := he
          simp only [if_neg hc]
          have t1 : toBool (enc 1) = true := by decide
          have t0 : toBool (enc 0) = false := by decide
          cases ok
          · simp [t0, throw, throwThe, MonadExceptOf.throw]
          · simp [t1]


/-- a walk that starts with more signatures than keys stops at once -/
theorem walk_short (cx : Btclib.Ctx) (off : Nat) (all keys sigs : List Bytes) (h : keys.length < sigs.length) :
    multisigWalk cx off all keys sigs = some sigs := by
  cases keys with
  | nil => rfl
  | cons k ks =>
    cases sigs with
    | nil => simp at h
    | cons s r =>
      have : ks.length + 1 < r.length + 1 := by simpa using h
      simp [multisigWalk, this]

theorem checkOne_with_code (ccx : Core.Ctx) (off : Nat) (all : List Bytes) (scode : Bytes)
    (hsc : Core.multisigScriptCode ccx all (ccx.script.drop off) = .ok scode) (sig key : Bytes) :
    checkOne ccx off sig all key = (do
      Core.checkSignatureEncoding ccx.flags sig
      Core.checkPubKeyEncoding ccx.flags ccx.sigversion key
      ccx.checker.checkECDSA sig key scode ccx.sigversion) := by
  unfold checkOne
  rw [hsc]; rfl

theorem walk_loop (cx : Btclib.Ctx) (sc : Bytes) (h : Shared cx sc) (off : Nat) (all : List Bytes) (scode : Bytes)
    (hsc : Core.multisigScriptCode (coreCx cx sc) all ((coreCx cx sc).script.drop off) = .ok scode) :
    ∀ (keys sigs : List Bytes) (fuel : Nat), fuel ≥ keys.length + 1 → sigs.length ≤ keys.length →
      match Core.multisigLoop (coreCx cx sc) scode fuel sigs keys with
      | .error _ => multisigWalk cx off all keys sigs = none
      | .ok b => ∃ left, multisigWalk cx off all keys sigs = some left ∧ left.isEmpty = b := by
  intro keys
  induction keys with
  | nil =>
    intro sigs fuel hf hl
    have : sigs = [] := List.length_eq_zero_iff.mp (by simpa using hl)
    subst this
    obtain ⟨f, rfl⟩ : ∃ f, fuel = f + 1 := ⟨fuel - 1, by simp at hf; omega⟩
    exact ⟨[], rfl, rfl⟩
  | cons key ks ih =>
    intro sigs fuel hf hl
    obtain ⟨f, rfl⟩ : ∃ f, fuel = f + 1 := ⟨fuel - 1, by simp at hf; omega⟩
    cases sigs with
    | nil => exact ⟨[], rfl, rfl⟩
    | cons sig rest =>
      have hnb : ¬ (ks.length + 1 < rest.length + 1) := by simp only [List.length_cons] at hl; omega
      have hw : multisigWalk cx off all (key :: ks) (sig :: rest) =
          match cx.opChecksig cx.scriptBytes sig all key off with
          | none => none
          | some ok => multisigWalk cx off all ks (if ok then rest else sig :: rest) := by
        rw [multisigWalk]; simp only [hnb, if_false]
        cases cx.opChecksig cx.scriptBytes sig all key off <;> rfl
      rw [hw, shared_eq cx sc h, checkOne_with_code _ off all scode hsc]
      simp only [Core.multisigLoop]
      have hfl : (coreCx cx sc).flags = cx.flags := rfl
      cases h1 : Core.checkSignatureEncoding (coreCx cx sc).flags sig with
      | error e => simp [bind, Except.bind, okOpt]
      | ok _ =>
        cases h2 : Core.checkPubKeyEncoding (coreCx cx sc).flags (coreCx cx sc).sigversion key with
        | error e => simp [bind, Except.bind, okOpt]
        | ok _ =>
          cases h3 : (coreCx cx sc).checker.checkECDSA sig key scode (coreCx cx sc).sigversion with
          | error e => simp [bind, Except.bind, okOpt]
          | ok ok =>
            simp only [bind, Except.bind, okOpt]
            by_cases hgt : (if ok then rest else sig :: rest).length > ks.length
            · simp only [hgt, if_true]
              refine ⟨_, walk_short cx off all ks _ hgt, ?_⟩
              cases hh : (if ok then rest else sig :: rest) with
              | nil => rw [hh] at hgt; simp at hgt
              | cons a b => rfl
            · simp only [hgt, if_false]
              exact ih _ f (by simp only [List.length_cons] at hf; omega) (by omega)




theorem count_n (c n : Int) :
    (Gen.Script.script_op_count c n).toOption = if c + n > 201 then none else some (c + n) := by
  unfold Gen.Script.script_op_count
  simp only [Gen.Script.MAX_OPS_PER_SCRIPT, bind, Except.bind, pure, Except.pure]
  by_cases h : c + n > 201
  · simp [h, Except.toOption, throw, throwThe, MonadExceptOf.throw]
  · have h' : ¬ (201 < c + n) := by omega
    simp [h, h', Except.toOption]

theorem toOption_ok {ε α : Type} (a : α) : (Except.ok a : Except ε α).toOption = some a := rfl
theorem toOption_error {ε α : Type} (e : ε) : (Except.error e : Except ε α).toOption = none := rfl

theorem guard_bind {β : Type} (c : Prop) [Decidable c] (e : Core.ScriptError) (k : PUnit → Core.R β) :
    ((if c then throw e else pure PUnit.unit : Core.R PUnit) >>= k) = if c then .error e else k PUnit.unit := by
  split <;> rfl

theorem throw_bind' {α β : Type} (e : Core.ScriptError) (k : α → Core.R β) :
    ((throw e : Core.R α) >>= k) = .error e := rfl

theorem walk_first_none (cx : Btclib.Ctx) (sc : Bytes) (h : Shared cx sc) (off : Nat) (all keys sigs : List Bytes) (e : Core.ScriptError)
    (hsc : Core.multisigScriptCode (coreCx cx sc) all ((coreCx cx sc).script.drop off) = .error e)
    (hs : sigs ≠ []) (hl : sigs.length ≤ keys.length) : multisigWalk cx off all keys sigs = none := by
  cases sigs with
  | nil => exact absurd rfl hs
  | cons sig rest =>
    cases keys with
    | nil => simp at hl
    | cons key ks =>
      have hnb : ¬ (ks.length + 1 < rest.length + 1) := by simp only [List.length_cons] at hl; omega
      rw [multisigWalk]; simp only [hnb, if_false]
      rw [shared_eq cx sc h]
      unfold checkOne
      rw [hsc]; rfl

/-- what follows OP_CHECKMULTISIG's arm in btclib's passes when it stands for OP_CHECKMULTISIGVERIFY (`verify`): the
    pass over OP_VERIFY, which counts one more op code (`d = 1`) -/
def postMsig (d : Nat) (verify : Bool) (p : List Bytes × Int) : Option (List Bytes × Int) :=
  if p.2 + d > 201 then none
  else if verify then
    match p.1 with
    | top :: r => if toBool top then some (r, p.2 + d) else none
    | [] => none
  else some (p.1, p.2 + d)

theorem postMsig_over (d : Nat) (v : Bool) (X : Option (List Bytes)) (c : Int) (h : c + d > 201) :
    (X.map fun s => (s, c)).bind (postMsig d v) = none := by
  cases X with
  | none => rfl
  | some s => simp [postMsig, h]

/-- OP_CHECKMULTISIG / OP_CHECKMULTISIGVERIFY: btclib's arm (run at op count `c`, followed for the VERIFY form by the pass
    over OP_VERIFY) against the case of Core's switch (run at op count `c + d`) — the stack and op count they leave -/
theorem multisig_core (cx : Btclib.Ctx) (sc : Bytes) (h : Shared cx sc) (m : Core.Machine) (d : Nat) (v : Bool) :
    (checkMultisigOn cx m.stack m.opCount m.codeStart).bind (postMsig d v) =
      (okOpt (Core.execMultisig (coreCx cx sc) { m with opCount := m.opCount + d } v)).map
        fun m' => (m'.stack, (m'.opCount : Int)) := by
  have hsv : ((coreCx cx sc).sigversion == Core.SigVersion.TAPSCRIPT) = false := by
    unfold coreCx; cases cx.segwit <;> rfl
  have hfl : (coreCx cx sc).flags = cx.flags := rfl
  unfold Core.execMultisig checkMultisigOn
  simp only [throw_bind', hsv, Bool.false_eq_true, if_false, hfl]
  rcases hst : m.stack with _ | ⟨nk, r1⟩
  · rfl
  · simp only
    rw [num_eq4 cx sc]
    cases hnk : Core.num (coreCx cx sc) nk Core.DEFAULT_MAX_NUM_SIZE with
    | error e => rfl
    | ok nKeys =>
      simp only [toOption_ok, bind, Except.bind]
      have e1 : (Core.MAX_PUBKEYS_PER_MULTISIG : Int) = 20 := rfl
      have e2 : (Gen.Script.N_MAX_PUBKEYS_PER_MULTISIG : Int) = 20 := rfl
      have e3 : Core.MAX_OPS_PER_SCRIPT = 201 := rfl
      by_cases hk : nKeys < 0 ∨ nKeys > (Core.MAX_PUBKEYS_PER_MULTISIG : Int)
      · have : (!(decide (0 ≤ nKeys) && decide (nKeys ≤ (Gen.Script.N_MAX_PUBKEYS_PER_MULTISIG : Int)))) = true := by
          simp only [Bool.not_eq_true', Bool.and_eq_false_imp, decide_eq_true_eq, decide_eq_false_iff_not]; omega
        simp only [hk, this, if_true, okOpt, Option.map_none, Option.bind_none]
      · have : (!(decide (0 ≤ nKeys) && decide (nKeys ≤ (Gen.Script.N_MAX_PUBKEYS_PER_MULTISIG : Int)))) = false := by
          simp only [Bool.not_eq_false', Bool.and_eq_true, decide_eq_true_eq]; omega
        simp only [hk, this, if_false, Bool.false_eq_true, count_n]
        have hn0 : ((nKeys.toNat : Nat) : Int) = nKeys := by omega
        by_cases hc : (m.opCount : Int) + nKeys > 201
        · have : m.opCount + d + nKeys.toNat > Core.MAX_OPS_PER_SCRIPT := by omega
          simp only [hc, this, if_true, okOpt, Option.map_none, Option.bind_none]
        · simp only [hc, if_false]
          by_cases hcd : m.opCount + d + nKeys.toNat > Core.MAX_OPS_PER_SCRIPT
          · simp only [hcd, if_true, okOpt, Option.map_none]
            exact postMsig_over d v _ _ (by omega)
          simp only [hcd, if_false]
          unfold checkMultisigRest
          by_cases hl1 : r1.length < nKeys.toNat + 1
          · simp only [hl1, if_true, okOpt, Option.map_none]
            by_cases hl1' : r1.length < nKeys.toNat
            · simp [hl1']
            · have : r1.drop nKeys.toNat = [] := List.drop_eq_nil_of_le (by omega)
              simp [hl1', this]
          · have hl1' : ¬ (r1.length < nKeys.toNat) := by omega
            simp only [hl1, hl1', if_false]
            rcases hd1 : r1.drop nKeys.toNat with _ | ⟨ns, r2⟩
            · rfl
            · simp only
              rw [num_eq4 cx sc]
              cases hns : Core.num (coreCx cx sc) ns Core.DEFAULT_MAX_NUM_SIZE with
              | error e => rfl
              | ok nSigs =>
                simp only [toOption_ok]
                by_cases hs : nSigs < 0 ∨ nSigs > ((nKeys.toNat : Nat) : Int)
                · have : (!(decide (0 ≤ nSigs) && decide (nSigs ≤ nKeys))) = true := by
                    simp only [Bool.not_eq_true', Bool.and_eq_false_imp, decide_eq_true_eq, decide_eq_false_iff_not]; omega
                  simp only [hs, this, if_true, okOpt, Option.map_none, Option.bind_none]
                · have : (!(decide (0 ≤ nSigs) && decide (nSigs ≤ nKeys))) = false := by
                    simp only [Bool.not_eq_false', Bool.and_eq_true, decide_eq_true_eq]; omega
                  simp only [hs, this, if_false, Bool.false_eq_true]
                  by_cases hl2 : r2.length < nSigs.toNat + 1
                  · simp only [hl2, if_true, okOpt, Option.map_none]
                    by_cases hl2' : r2.length < nSigs.toNat
                    · simp [hl2']
                    · have : r2.drop nSigs.toNat = [] := List.drop_eq_nil_of_le (by omega)
                      simp [hl2', this]
                  · have hl2' : ¬ (r2.length < nSigs.toNat) := by omega
                    simp only [hl2, hl2', if_false]
                    rcases hd2 : r2.drop nSigs.toNat with _ | ⟨dummy, r3⟩
                    · exfalso
                      have := congrArg List.length hd2
                      simp only [List.length_drop, List.length_nil] at this; omega
                    · simp only
                      have hlk : (r1.take nKeys.toNat).length = nKeys.toNat := by simp [List.length_take]; omega
                      have hls : (r2.take nSigs.toNat).length = nSigs.toNat := by simp [List.length_take]; omega
                      have hsk : (r2.take nSigs.toNat).length ≤ (r1.take nKeys.toNat).length := by omega
                      have hcd' : ¬ ((m.opCount : Int) + nKeys + d > 201) := by omega
                      cases hmsc : Core.multisigScriptCode (coreCx cx sc) (r2.take nSigs.toNat)
                          ((coreCx cx sc).script.drop m.codeStart) with
                      | error e =>
                        simp only [okOpt, Option.map_none]
                        have hne : r2.take nSigs.toNat ≠ [] := by
                          intro hh; rw [hh] at hmsc; cases hmsc
                        rw [walk_first_none cx sc h m.codeStart _ _ _ e hmsc hne hsk]
                        split <;> rfl
                      | ok scode =>
                        simp only
                        have hwl := walk_loop cx sc h m.codeStart _ scode hmsc (r1.take nKeys.toNat) (r2.take nSigs.toNat)
                          (nKeys.toNat + nSigs.toNat + 1) (by omega) hsk
                        cases hlp : Core.multisigLoop (coreCx cx sc) scode (nKeys.toNat + nSigs.toNat + 1)
                            (r2.take nSigs.toNat) (r1.take nKeys.toNat) with
                        | error e =>
                          rw [hlp] at hwl
                          simp only at hwl
                          rw [hwl]
                          simp only [okOpt, Option.map_none]
                          split <;> rfl
                        | ok b =>
                          rw [hlp] at hwl
                          obtain ⟨left, hw, hb⟩ := hwl
                          rw [hw]
                          simp only [hb]
                          have t1 : toBool [1] = true := by decide
                          have t0 : toBool [] = false := by decide
                          have ha : (m.opCount : Int) + nKeys + (d : Int) = ((m.opCount + d + nKeys.toNat : Nat) : Int) := by
                            push_cast; omega
                          cases v <;> cases b <;>
                            cases hnf : Core.has cx.flags Core.FLAG_NULLFAIL <;>
                            cases hnd : Core.has cx.flags Core.FLAG_NULLDUMMY <;>
                            cases hde : dummy.isEmpty <;>
                            cases han : (r2.take nSigs.toNat).any (fun s => !s.isEmpty) <;>
                            simp [okOpt, pure, Except.pure, Core.ofBool, Core.vchTrue, Core.vchFalse, hnf, hnd, hde, han,
                              postMsig, hcd', t1, t0, ha, throw, throwThe, MonadExceptOf.throw] <;> omega

/-- what OP_CHECKMULTISIG(VERIFY) leaves untouched -/
theorem multisig_frame (cx : Core.Ctx) (m m' : Core.Machine) (v : Bool) (h : Core.execMultisig cx m v = .ok m') :
    m' = { m with stack := m'.stack, opCount := m'.opCount } := by
  unfold Core.execMultisig at h
  simp only [throw_bind', bind, Except.bind, pure, Except.pure, throw, throwThe, MonadExceptOf.throw] at h
  repeat' (split at h)
  all_goals first | (cases h; rfl) | cases h


end Btc.Script.Sig
