import Model.C08.Verify
import Model.C08.BtclibVerify
import Proofs.C08.Core
/-! Lemmas about the VerifyScript shell: btclib's `validate_push_only` is Core's `IsPushOnly`; `taproot_get_annex`
is the annex rule of Core's `VerifyWitnessProgram`.  Core Lean only. -/
namespace Btc.Script.VerifyShell
open Btc Btc.Script

/-- the loop over the spans of a list of instructions starting at byte `pos`: refuses iff one op code is above OP_16,
    otherwise `consumed` ends as `pos` + the bytes of the instructions (or stays what it was when there are none). -/
theorem pushOnlyLoop_spansOf (ops : List Op) (pos consumed : Nat) :
    Btclib.pushOnlyLoop (spansOf ops pos) consumed =
      if ops.all (fun op => op.code ≤ 0x60) then
        some (if ops.isEmpty then consumed else pos + (serializeOps ops).length)
      else none := by
  induction ops generalizing pos consumed with
  | nil => simp [spansOf, Btclib.pushOnlyLoop]
  | cons op r ih =>
    simp only [spansOf, Btclib.pushOnlyLoop, List.all_cons, List.isEmpty_cons]
    by_cases h : op.code > 0x60
    · have : ¬ op.code ≤ 0x60 := by omega
      simp [h, this]
    · have h' : op.code ≤ 0x60 := by omega
      rw [ih]
      simp only [h, h', if_false, decide_true, Bool.true_and]
      by_cases ha : (r.all fun op => decide (op.code ≤ 0x60)) = true
      · simp only [ha, if_true, Bool.false_eq_true, if_false]
        cases r with
        | nil => simp [serializeOps]
        | cons a b => simp [serializeOps]; omega
      · simp [ha]

theorem validatePushOnly_eq_isPushOnly (s : Bytes) : Btclib.validatePushOnly s = Core.isPushOnly s := by
  unfold Btclib.validatePushOnly Core.isPushOnly
  rw [opCodeSpans_eq, pushOnlyLoop_spansOf]
  have hp : serializeOps (parse s).1 ++ (parse s).2 = s := parseOps_partition s.length s
  have hl : (serializeOps (parse s).1).length + (parse s).2.length = s.length := by
    rw [← List.length_append, hp]
  by_cases ha : ((parse s).1.all fun op => decide (op.code ≤ 0x60)) = true
  · simp only [ha, if_true, Bool.and_true]
    by_cases he : (parse s).1.isEmpty = true
    · have : (parse s).1 = [] := List.isEmpty_iff.mp he
      simp only [he, if_true]
      rw [this] at hl
      simp only [serializeOps, List.flatMap_nil, List.length_nil, Nat.zero_add] at hl
      cases ht : (parse s).2 with
      | nil => rw [ht] at hl; simp at hl; simp [← hl]
      | cons a b => rw [ht] at hl; simp at hl; simp [← hl]
    · simp only [he, Bool.false_eq_true, if_false, Nat.zero_add]
      cases ht : (parse s).2 with
      | nil => rw [ht] at hl; simp at hl; simp [hl]
      | cons a b => rw [ht] at hl; simp at hl; simp; omega
  · simp [ha]

theorem take1_eq_50 (l : Bytes) : l.take 1 = [0x50] ↔ (Core.getB l 0 = 0x50 ∧ (!l.isEmpty) = true) := by
  cases l with
  | nil => simp [Core.getB]
  | cons a r =>
    simp only [List.take_succ_cons, List.take_zero, List.cons.injEq, and_true, Core.getB, List.getD_cons_zero,
      List.isEmpty_cons, Bool.not_false]
    constructor
    · intro h; subst h; decide
    · intro h; exact UInt8.toNat_inj.mp (by simpa using h)

theorem taprootGetAnnex_eq (wire : List Bytes) :
    (Btclib.taprootGetAnnex wire).2.reverse = Core.stripAnnex wire.reverse := by
  rcases List.eq_nil_or_concat wire with h | ⟨init, last, h⟩
  · subst h; simp [Btclib.taprootGetAnnex, Core.stripAnnex]
  · subst h
    simp only [Btclib.taprootGetAnnex, List.concat_eq_append, List.getLast?_append, List.getLast?_singleton,
      Option.some_or, List.length_append, List.dropLast_concat, Core.stripAnnex,
      List.reverse_append, List.reverse_singleton, List.singleton_append, List.length_cons, List.length_reverse,
      take1_eq_50]
    split
    · rename_i h; simp at h; simp [h]
    · rename_i h; simp at h; simp; intro a b; have := h (by omega) b; simpa using this

end Btc.Script.VerifyShell
