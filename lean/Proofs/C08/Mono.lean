import Model.C08.Core
import Model.C08.Verify
/-! Flag monotonicity (DESIGN §6, T5) at the places where Core's transcription READS a flag below the loop: number
decoding and the signature / public-key encoding checks (NOT yet: CLTV / CSV, the loop, the VerifyScript shell).  Core Lean only. -/
namespace Btc.Script.Mono
open Btc Btc.Script Core

/-- every flag set in `f'` is set in `f` -/
def FlagsLe (f' f : Nat) : Prop := ∀ bit, has f' bit = true → has f bit = true

theorem flagsLe_off {f' f : Nat} (h : FlagsLe f' f) {bit : Nat} (hb : has f bit = false) : has f' bit = false := by
  cases hc : has f' bit with
  | false => rfl
  | true => rw [h bit hc] at hb; exact absurd hb (by decide)

/-- the context with another flag set, everything else (transaction data, checker, script, sigversion) the same -/
def withFlags (cx : Ctx) (f' : Nat) : Ctx := { cx with flags := f' }

theorem scriptNum_mono (v : Bytes) (a b : Bool) (hab : a = true → b = true) (m : Nat) (i : Int)
    (h : scriptNum v b m = .ok i) : scriptNum v a m = .ok i := by
  unfold scriptNum at h ⊢
  cases a <;> cases b <;> simp_all
  · split at h <;> simp_all
    split at h <;> simp_all

theorem num_mono (cx : Ctx) (f' : Nat) (hf : FlagsLe f' cx.flags) (v : Bytes) (m : Nat) (i : Int)
    (h : num cx v m = .ok i) : num (withFlags cx f') v m = .ok i := by
  unfold num at h ⊢
  cases hs : scriptNum v (has cx.flags FLAG_MINIMALDATA) m with
  | error e => rw [hs] at h; simp at h
  | ok x =>
    rw [hs] at h
    have := scriptNum_mono v (has f' FLAG_MINIMALDATA) (has cx.flags FLAG_MINIMALDATA) (hf _) m x hs
    simp only [withFlags, this]
    exact h

theorem checkSignatureEncoding_mono (f' f : Nat) (hf : FlagsLe f' f) (sig : Bytes)
    (h : checkSignatureEncoding f sig = .ok ()) : checkSignatureEncoding f' sig = .ok () := by
  unfold checkSignatureEncoding at h ⊢
  have hd := hf FLAG_DERSIG
  have hl := hf FLAG_LOW_S
  have hs := hf FLAG_STRICTENC
  generalize has f' FLAG_DERSIG = d' at *
  generalize has f' FLAG_LOW_S = l' at *
  generalize has f' FLAG_STRICTENC = s' at *
  generalize has f FLAG_DERSIG = d at *
  generalize has f FLAG_LOW_S = l at *
  generalize has f FLAG_STRICTENC = s at *
  generalize isValidSignatureEncoding sig = v at *
  generalize checkLowS sig = lo at *
  generalize isDefinedHashtype sig = dh at *
  generalize sig.isEmpty = e at *
  clear hf
  revert h hd hl hs
  cases e <;> cases d' <;> cases l' <;> cases s' <;> cases d <;> cases l <;> cases s <;> cases v <;> cases lo <;>
    cases dh <;> simp

theorem checkPubKeyEncoding_mono (f' f : Nat) (hf : FlagsLe f' f) (sv : SigVersion) (k : Bytes)
    (h : checkPubKeyEncoding f sv k = .ok ()) : checkPubKeyEncoding f' sv k = .ok () := by
  unfold checkPubKeyEncoding at h ⊢
  have hs := hf FLAG_STRICTENC
  have hw := hf FLAG_WITNESS_PUBKEYTYPE
  generalize has f' FLAG_STRICTENC = s' at *
  generalize has f' FLAG_WITNESS_PUBKEYTYPE = w' at *
  generalize has f FLAG_STRICTENC = s at *
  generalize has f FLAG_WITNESS_PUBKEYTYPE = w at *
  generalize isCompressedOrUncompressedPubKey k = a at *
  generalize isCompressedPubKey k = b at *
  generalize (sv == SigVersion.WITNESS_V0) = c at *
  clear hf
  revert h hs hw
  cases s' <;> cases w' <;> cases s <;> cases w <;> cases a <;> cases b <;> cases c <;> simp

end Btc.Script.Mono
