import Proofs.C08.Num
import Generated.Script
/-! The function `tools/extract.py` translates from `btclib/utils.py: encode_num` on every run is the hand model. -/
namespace Btc.Script
open Btc Btc.Py

theorem lor_natCast (x y : Nat) : Py.lor (x : Int) (y : Int) = ((x ||| y : Nat) : Int) := rfl

theorem or_pow_eq_add (x e : Nat) (h : x < 2 ^ e) : x ||| 2 ^ e = x + 2 ^ e := by
  have := Nat.two_pow_add_eq_or_of_lt h 1
  rw [Nat.mul_one] at this
  rw [Nat.or_comm, ← this, Nat.add_comm]

/-- the function translated from btclib's source is the hand model -/
theorem gen_encode_num_eq (i : Int) : Gen.Script.encode_num i = encodeNum i := by
  unfold Gen.Script.encode_num encodeNum
  have hmin : Gen.Script.MIN_SCRIPT_NUM = MIN_SCRIPT_NUM := by decide
  have hmax : Gen.Script.MAX_SCRIPT_NUM = MAX_SCRIPT_NUM := by decide
  rw [hmin, hmax]
  by_cases hr : MIN_SCRIPT_NUM ≤ i ∧ i ≤ MAX_SCRIPT_NUM
  · simp only [hr, not_true_eq_false, if_false, and_self, if_true]
    by_cases h0 : i = 0
    · simp [h0, encodeNumRaw]; rfl
    · simp only [h0, if_false]
      have hpos : 0 < i.natAbs := by omega
      obtain ⟨k, hk, hlt, _⟩ := encode_size' i.natAbs hpos
      have hnb : ((Py.bitLength i + 1 + 7) / 8 : Int) = ((k + 1 : Nat) : Int) := by
        unfold Py.bitLength; omega
      simp only [hnb]
      have hs : (((k + 1 : Nat) : Int) * 8 - 1).toNat = (k + 1) * 8 - 1 := by omega
      have henc : Py.lor ((i.natAbs : Nat) : Int) (Py.shl (if decide (i < 0) then 1 else 0 : Int) (((k + 1 : Nat) : Int) * 8 - 1))
          = ((i.natAbs + (if i < 0 then 2 ^ ((k + 1) * 8 - 1) else 0) : Nat) : Int) := by
        unfold Py.shl
        rw [hs]
        by_cases hn : i < 0
        · simp only [hn, decide_true, if_true, Int.one_mul]
          have : ((2 : Int) ^ ((k + 1) * 8 - 1)) = ((2 ^ ((k + 1) * 8 - 1) : Nat) : Int) := by simp
          rw [this, lor_natCast, or_pow_eq_add _ _ (by rw [two_pow_top]; exact hlt)]
        · simp only [hn, decide_false, Bool.false_eq_true, if_false, Int.zero_mul, Nat.add_zero]
          have : (0 : Int) = ((0 : Nat) : Int) := rfl
          rw [this, lor_natCast, Nat.or_zero]
      rw [henc]
      have hfit : i.natAbs + (if i < 0 then 2 ^ ((k + 1) * 8 - 1) else 0) < 256 ^ (k + 1) := by
        rw [two_pow_top, pow256_succ]
        split <;> omega
      unfold Py.toBytesLE
      have g1 : ¬ ((((i.natAbs + (if i < 0 then 2 ^ ((k + 1) * 8 - 1) else 0) : Nat) : Int) < 0) ∨ (((k + 1 : Nat) : Int) < 0)) := by omega
      simp only [g1, if_false, Int.toNat_natCast]
      have g2 : ¬ (i.natAbs + (if i < 0 then 2 ^ ((k + 1) * 8 - 1) else 0) ≥ 256 ^ (k + 1)) := by omega
      simp only [g2, if_false]
      unfold encodeNumRaw
      simp only [h0, if_false, hk]
  · simp [hr]; rfl
end Btc.Script
