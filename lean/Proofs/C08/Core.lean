import Model.C08.Core
/-! Lemmas about the parser and about `Core.step` / `Core.run` / `Core.evalWith` (C08 T2, T4). Core Lean only. -/
namespace Btc.Script
open Btc

/-! ### T2: the walk partitions the script -/

theorem getOp_spec (s : Bytes) (op : Op) (rest : Bytes) (h : getOp s = some (op, rest)) :
    op.raw ++ rest = s ∧ rest.length < s.length := by
  cases s with
  | nil => simp [getOp] at h
  | cons c r =>
    simp only [getOp] at h
    split at h
    · cases h; exact ⟨rfl, by simp⟩
    · split at h
      · split at h
        · cases h
        · cases h
          simp only [List.cons_append, List.take_append_drop, List.length_cons, List.length_drop, true_and]
          omega
      · generalize 2 ^ (c.toNat - 76) = w at h
        split at h
        · cases h
        · split at h
          · cases h
          · cases h
            refine ⟨?_, ?_⟩
            · simp only [List.cons_append, List.append_assoc, List.cons.injEq, true_and]
              rw [List.take_append_drop, List.take_append_drop]
            simp only [List.length_drop, List.length_cons]
            omega

theorem parseOps_partition (fuel : Nat) (s : Bytes) :
    serializeOps (parseOps fuel s).1 ++ (parseOps fuel s).2 = s := by
  induction fuel generalizing s with
  | zero => simp [parseOps, serializeOps]
  | succ f ih =>
    unfold parseOps
    split
    · simp [serializeOps]
    · rename_i op rest h
      have := (getOp_spec s op rest h).1
      simp only [serializeOps, List.flatMap_cons, List.append_assoc]
      have ih' := ih rest
      simp only [serializeOps] at ih'
      rw [ih', this]

theorem parseOps_tail (fuel : Nat) (s : Bytes) (h : s.length ≤ fuel) :
    getOp (parseOps fuel s).2 = none := by
  induction fuel generalizing s with
  | zero =>
    have : s = [] := List.length_eq_zero_iff.mp (by omega)
    subst this; rfl
  | succ f ih =>
    unfold parseOps
    split
    · rename_i h0; exact h0
    · rename_i op rest h0
      have := (getOp_spec s op rest h0).2
      exact ih rest (by omega)

/-- what `getOp` cannot read is the end of the script or a push running past it -/
theorem getOp_none (s : Bytes) (h : getOp s = none) :
    s = [] ∨ ∃ c r, s = c :: r ∧ 0 < c.toNat ∧ c.toNat ≤ 78 := by
  cases s with
  | nil => left; rfl
  | cons c r =>
    right
    refine ⟨c, r, rfl, ?_⟩
    simp only [getOp] at h
    split at h
    · cases h
    · omega

/-! ### T2 for btclib's offset-based reader -/

/-- the spans of a list of instructions laid out from offset `pos` -/
def spansOf : List Op → Nat → List (Nat × Nat × Nat)
  | [], _ => []
  | op :: r, pos => (op.code, pos, pos + op.raw.length) :: spansOf r (pos + op.raw.length)

theorem drop_cons_of (s : Bytes) (start : Nat) (c : UInt8) (r : Bytes) (h : s.drop start = c :: r) :
    s.getD start 0 = c ∧ s.drop (start + 1) = r ∧ r.length + start + 1 = s.length := by
  have hl : start < s.length := by
    by_cases hl : start < s.length
    · exact hl
    · rw [List.drop_eq_nil_of_le (by omega)] at h; cases h
  refine ⟨?_, ?_, ?_⟩
  · have := List.getElem_cons_drop hl
    rw [← this] at h
    have hc : s[start] = c := by injection h
    rw [List.getD_eq_getElem?_getD, List.getElem?_eq_getElem hl]; simpa using hc
  · have := List.getElem_cons_drop hl
    rw [← this] at h
    injection h
  · have := congrArg List.length h
    simp only [List.length_drop, List.length_cons] at this
    omega

/-- btclib's offset-based `read_op_code` reads what Core's `GetOp` reads from the same place -/
theorem readOpCode_eq_getOp (s : Bytes) (start : Nat) :
    readOpCode s start = (getOp (s.drop start)).map fun p => (p.1.code, start + p.1.raw.length) := by
  unfold readOpCode
  by_cases hs : start ≥ s.length
  · simp [hs, List.drop_eq_nil_of_le hs, getOp]
  · simp only [hs, if_false]
    cases hd : s.drop start with
    | nil =>
      have := congrArg List.length hd
      simp at this; omega
    | cons c r =>
      obtain ⟨hc, hr, hlen⟩ := drop_cons_of s start c r hd
      simp only [hc, hr, getOp]
      by_cases h1 : c.toNat = 0 ∨ c.toNat > 78
      · have : ¬ (0 < c.toNat ∧ c.toNat ≤ 78) := by omega
        simp [h1, this]
      · have h1' : 0 < c.toNat ∧ c.toNat ≤ 78 := by omega
        simp only [h1, h1', if_false, if_true, and_self]
        by_cases h2 : c.toNat < 76
        · have : ¬ c.toNat > 75 := by omega
          simp only [h2, this, if_true, if_false]
          by_cases h3 : r.length < c.toNat
          · have : start + 1 + c.toNat > s.length := by omega
            simp [h3, this]
          · have : ¬ start + 1 + c.toNat > s.length := by omega
            simp [h3, this, List.length_take]; omega
        · have : c.toNat > 75 := by omega
          simp only [h2, this, if_true, if_false]
          generalize 2 ^ (c.toNat - 76) = w
          by_cases h3 : r.length < w
          · have : start + 1 + w > s.length := by omega
            simp [h3, this]
          · have h3' : ¬ start + 1 + w > s.length := by omega
            simp only [h3, h3', if_false]
            simp only [List.length_drop]
            by_cases h4 : r.length - w < ofLE (r.take w)
            · have : start + 1 + w + ofLE (r.take w) > s.length := by omega
              simp [h4, this]
            · have : ¬ start + 1 + w + ofLE (r.take w) > s.length := by omega
              simp [h4, this, List.length_take]
              omega

theorem opCodeSpansFrom_eq (fuel : Nat) (s : Bytes) (start : Nat) :
    opCodeSpansFrom fuel s start = spansOf (parseOps fuel (s.drop start)).1 start := by
  induction fuel generalizing start with
  | zero => simp [opCodeSpansFrom, parseOps, spansOf]
  | succ f ih =>
    unfold opCodeSpansFrom parseOps
    rw [readOpCode_eq_getOp]
    cases hg : getOp (s.drop start) with
    | none => simp [spansOf]
    | some p =>
      obtain ⟨op, rest⟩ := p
      have hsp := (getOp_spec _ op rest hg).1
      have hrest : rest = s.drop (start + op.raw.length) := by
        have : (s.drop start).drop op.raw.length = rest := by rw [← hsp]; simp
        rw [← this, List.drop_drop]
      simp only [Option.map_some, spansOf]
      rw [ih, ← hrest]

/-- T2 for btclib's reader: `op_code_spans` yields exactly the spans of Core's `GetOp` walk -/
theorem opCodeSpans_eq (s : Bytes) : opCodeSpans s = spansOf (parse s).1 0 := by
  unfold opCodeSpans parse
  have := opCodeSpansFrom_eq s.length s 0
  simpa using this


namespace Core

/-! ### one step -/

theorem step_ok_iff (cx : Ctx) (st st' : State) (op : Op) :
    step cx st op = .ok st' ↔
      ∃ s1 s2, stepChecks cx st op = .ok s1 ∧ stepExec cx s1 op (st.vfExec.all id) = .ok s2 ∧
        stepFinish s2 = .ok st' := by
  unfold step
  constructor
  · intro h
    cases h1 : stepChecks cx st op with
    | error e => simp [h1, Except.bind] at h
    | ok s1 =>
      simp only [h1, Except.bind] at h
      cases h2 : stepExec cx s1 op (st.vfExec.all id) with
      | error e => simp [h2] at h
      | ok s2 =>
        simp only [h2] at h
        exact ⟨s1, s2, rfl, h2, h⟩
  · rintro ⟨s1, s2, h1, h2, h3⟩
    simp [h1, h2, h3, Except.bind]

theorem stepFinish_ok (s s' : State) (h : stepFinish s = .ok s') :
    s.m.stack.length + s.m.alt.length ≤ MAX_STACK_SIZE ∧ s'.m = s.m ∧ s'.vfExec = s.vfExec := by
  unfold stepFinish at h
  split at h
  · cases h
  · cases h; exact ⟨by omega, rfl, rfl⟩

theorem stepChecks_ok (cx : Ctx) (st s1 : State) (op : Op) (h : stepChecks cx st op = .ok s1) :
    s1.vfExec = st.vfExec ∧ s1.m.stack = st.m.stack ∧ s1.m.alt = st.m.alt ∧
    op.data.length ≤ MAX_SCRIPT_ELEMENT_SIZE ∧ isDisabled op.code = false ∧
    (((cx.sigversion == .BASE || cx.sigversion == .WITNESS_V0) && decide (op.code > 0x60)) = true →
        s1.m.opCount = st.m.opCount + 1 ∧ s1.m.opCount ≤ MAX_OPS_PER_SCRIPT) ∧
    (((cx.sigversion == .BASE || cx.sigversion == .WITNESS_V0) && decide (op.code > 0x60)) = false →
        s1.m.opCount = st.m.opCount) := by
  unfold stepChecks at h
  split at h
  · cases h
  · rename_i hp
    simp only at h
    split at h
    · cases h
    · rename_i hc
      split at h
      · cases h
      · rename_i hd
        split at h
        · cases h
        · cases h
          refine ⟨rfl, rfl, rfl, by omega, by simpa using hd, ?_, ?_⟩
          · intro hcnt
            simp only [hcnt, Bool.true_and, decide_eq_true_eq] at hc
            simp only [hcnt, if_true]
            exact ⟨trivial, by omega⟩
          · intro hcnt
            simp [hcnt]

/-- T4 (limits): after every accepted step the two stacks together hold at most 1000 elements. -/
theorem step_stack_bound (cx : Ctx) (st st' : State) (op : Op) (h : step cx st op = .ok st') :
    st'.m.stack.length + st'.m.alt.length ≤ MAX_STACK_SIZE := by
  obtain ⟨s1, s2, _, _, h3⟩ := (step_ok_iff cx st st' op).mp h
  obtain ⟨hb, hm, _⟩ := stepFinish_ok s2 st' h3
  rw [hm]; exact hb

/-- T4 (limits): a push of more than 520 bytes is refused, executed or not. -/
theorem step_push_size (cx : Ctx) (st : State) (op : Op) (h : op.data.length > MAX_SCRIPT_ELEMENT_SIZE) :
    step cx st op = .error .PUSH_SIZE := by
  simp [step, stepChecks, h, Except.bind]

/-- T4: a disabled op code is refused wherever it stands — executed or not, whatever the state. -/
theorem step_disabled (cx : Ctx) (st : State) (op : Op) (h : isDisabled op.code = true) :
    ∃ e, step cx st op = .error e := by
  cases hs : step cx st op with
  | error e => exact ⟨e, rfl⟩
  | ok st' =>
    obtain ⟨s1, _, h1, _, _⟩ := (step_ok_iff cx st st' op).mp hs
    have := (stepChecks_ok cx st s1 op h1).2.2.2.2.1
    rw [h] at this; cases this

/-- T4: in a branch that does not execute, an op code outside OP_IF..OP_ENDIF changes neither stack nor the
    condition stack (it can only be refused: size, count, disabled, OP_CODESEPARATOR policy). -/
theorem step_unexecuted (cx : Ctx) (st st' : State) (op : Op)
    (hexec : st.vfExec.all id = false) (hrange : inConditionalRange op.code = false)
    (h : step cx st op = .ok st') :
    st'.m.stack = st.m.stack ∧ st'.m.alt = st.m.alt ∧ st'.vfExec = st.vfExec := by
  obtain ⟨s1, s2, h1, h2, h3⟩ := (step_ok_iff cx st st' op).mp h
  obtain ⟨hv, hs, ha, _⟩ := stepChecks_ok cx st s1 op h1
  obtain ⟨_, hm, hv3⟩ := stepFinish_ok s2 st' h3
  have : s2 = s1 := by
    unfold stepExec at h2
    simp only [hexec, hrange, Bool.false_and, Bool.false_eq_true, if_false] at h2
    cases h2; rfl
  subst this
  rw [hm, hv3]; exact ⟨hs, ha, hv⟩

/-! ### op count -/

theorem evalChecksig_opCount (cx : Ctx) (m m' : Machine) (sig key : Bytes) (ok : Bool)
    (h : evalChecksig cx m sig key = .ok (ok, m')) :
    m'.opCount = m.opCount ∧ m'.alt = m.alt ∧ m'.stack = m.stack := by
  have pre : ∀ r : R Bool, (r.map fun ok => (ok, m)) = .ok (ok, m') → m' = m := by
    intro r hr
    cases r with
    | error e => cases hr
    | ok b => simp only [Except.map] at hr; cases hr; rfl
  unfold evalChecksig at h
  split at h
  · rw [pre _ h]; exact ⟨rfl, rfl, rfl⟩
  · rw [pre _ h]; exact ⟨rfl, rfl, rfl⟩
  · unfold evalChecksigTapscript at h
    simp only at h
    split at h
    · cases h
    · split at h
      · cases h
      · split at h
        · split at h
          · split at h
            · cases h
            · cases h; exact ⟨rfl, rfl, rfl⟩
          · cases h; exact ⟨rfl, rfl, rfl⟩
        · split at h
          · cases h
          · cases h
            by_cases hb : (!List.isEmpty sig) = true <;> simp [hb]
  · cases h


theorem execMultisig_opCount (cx : Ctx) (m m' : Machine) (v : Bool)
    (h : execMultisig cx m v = .ok m') :
    m'.opCount ≤ MAX_OPS_PER_SCRIPT ∧ m'.alt = m.alt := by
  unfold execMultisig at h
  simp only [bind, Except.bind, pure, Except.pure, throw, throwThe, MonadExceptOf.throw] at h
  repeat' (first | (cases h; done) | split at h)
  all_goals (first | (cases h; refine ⟨?_, rfl⟩; simp only; omega) | skip)

theorem execPlain_opCount (cx : Ctx) (pos opos : Nat) (m m' : Machine) (code : Nat)
    (hm : m.opCount ≤ MAX_OPS_PER_SCRIPT) (h : execPlain cx pos opos m code = .ok m') :
    m'.opCount ≤ MAX_OPS_PER_SCRIPT := by
  unfold execPlain at h
  split at h
  · rename_i r _
    cases r with
    | error e => cases h
    | ok p => simp only [Except.map] at h; cases h; exact hm
  · split at h
    · cases h; exact hm
    · split at h
      · split at h
        · rename_i pubkey sig r _
          simp only [bind, Except.bind, pure, Except.pure, throw, throwThe, MonadExceptOf.throw] at h
          cases hck : evalChecksig cx m sig pubkey with
          | error e => simp [hck] at h
          | ok p =>
            obtain ⟨ok, m1⟩ := p
            have := (evalChecksig_opCount cx m m1 sig pubkey ok hck).1
            simp only [hck] at h
            split at h
            · split at h
              · cases h; simp only; omega
              · cases h
            · cases h; simp only; omega
        · cases h
      · split at h
        · split at h
          · cases h
          · split at h
            · rename_i pubkey n sig r _
              simp only [bind, Except.bind, pure, Except.pure] at h
              cases hn : num cx n with
              | error e => simp [hn] at h
              | ok nn =>
                simp only [hn] at h
                cases hck : evalChecksig cx m sig pubkey with
                | error e => simp [hck] at h
                | ok p =>
                  obtain ⟨ok, m1⟩ := p
                  have := (evalChecksig_opCount cx m m1 sig pubkey ok hck).1
                  simp only [hck] at h
                  cases h; simp only; omega
            · cases h
        · split at h
          · exact (execMultisig_opCount cx m m' false h).1
          · split at h
            · exact (execMultisig_opCount cx m m' true h).1
            · cases h

theorem execConditional_spec (cx : Ctx) (st st' : State) (code : Nat) (f : Bool)
    (h : execConditional cx st code f = .ok st') :
    st'.m.opCount = st.m.opCount ∧
    st'.vfExec.length + (if code = OP_ENDIF then 1 else 0)
      = st.vfExec.length + (if code = OP_IF ∨ code = OP_NOTIF then 1 else 0) := by
  unfold execConditional at h
  split at h
  · rename_i hc
    have hne : code ≠ OP_ENDIF := by
      rcases hc with hc | hc <;> (rw [hc]; decide)
    simp only [hc, hne, if_true, if_false]
    split at h
    · split at h
      · cases h
      · split at h
        · cases h
        · split at h
          · cases h
          · cases h; exact ⟨rfl, by simp⟩
    · cases h; exact ⟨rfl, by simp⟩
  · rename_i hc
    simp only [hc, if_false]
    split at h
    · rename_i he
      have hne : code ≠ OP_ENDIF := by rw [he]; decide
      simp only [hne, if_false]
      split at h
      · cases h
      · rename_i heq
        cases h; exact ⟨rfl, by simp [heq]⟩
    · split at h
      · rename_i he
        simp only [he, if_true]
        split at h
        · cases h
        · rename_i heq
          cases h; exact ⟨rfl, by simp [heq]⟩
      · cases h

theorem stepExec_spec (cx : Ctx) (s1 s2 : State) (op : Op) (f : Bool)
    (h : stepExec cx s1 op f = .ok s2) :
    (s1.m.opCount ≤ MAX_OPS_PER_SCRIPT → s2.m.opCount ≤ MAX_OPS_PER_SCRIPT) ∧
    s2.vfExec.length + (if op.code = OP_ENDIF then 1 else 0)
      = s1.vfExec.length + (if op.code = OP_IF ∨ op.code = OP_NOTIF then 1 else 0) := by
  unfold stepExec at h
  split at h
  · rename_i hp
    have hle : op.code ≤ 0x4e := by
      simp only [Bool.and_eq_true, decide_eq_true_eq] at hp; exact hp.2
    have h1 : op.code ≠ OP_ENDIF := by unfold OP_ENDIF; omega
    have h2 : ¬ (op.code = OP_IF ∨ op.code = OP_NOTIF) := by unfold OP_IF OP_NOTIF; omega
    simp only [h1, h2, if_false]
    split at h
    · cases h
    · cases h; exact ⟨fun x => x, rfl⟩
  · split at h
    · have := execConditional_spec cx s1 s2 op.code f h
      exact ⟨fun x => by rw [this.1]; exact x, this.2⟩
    · rename_i hr
      have hr' : ¬ (OP_IF ≤ op.code ∧ op.code ≤ OP_ENDIF) := by
        simpa [inConditionalRange] using hr
      have h1 : op.code ≠ OP_ENDIF := by
        intro e; apply hr'; rw [e]; decide
      have h2 : ¬ (op.code = OP_IF ∨ op.code = OP_NOTIF) := by
        rintro (e | e) <;> (apply hr'; rw [e]; decide)
      simp only [h1, h2, if_false]
      split at h
      · cases hx : execPlain cx s1.pos s1.opcodePos s1.m op.code with
        | error e => simp [hx, Except.map] at h
        | ok m' =>
          simp only [hx, Except.map] at h
          cases h
          exact ⟨fun x => execPlain_opCount cx _ _ s1.m m' op.code x hx, rfl⟩
      · cases h; exact ⟨fun x => x, rfl⟩

/-- T4 (limits): the op count never passes 201 on an accepted step. -/
theorem step_op_count (cx : Ctx) (st st' : State) (op : Op)
    (h0 : st.m.opCount ≤ MAX_OPS_PER_SCRIPT) (h : step cx st op = .ok st') :
    st'.m.opCount ≤ MAX_OPS_PER_SCRIPT := by
  obtain ⟨s1, s2, h1, h2, h3⟩ := (step_ok_iff cx st st' op).mp h
  obtain ⟨_, _, _, _, _, hc1, hc2⟩ := stepChecks_ok cx st s1 op h1
  have b1 : s1.m.opCount ≤ MAX_OPS_PER_SCRIPT := by
    cases hb : ((cx.sigversion == .BASE || cx.sigversion == .WITNESS_V0) && decide (op.code > 0x60)) with
    | true => exact (hc1 hb).2
    | false => rw [hc2 hb]; exact h0
  rw [(stepFinish_ok s2 st' h3).2.1]
  exact (stepExec_spec cx s1 s2 op _ h2).1 b1

/-- the condition stack grows by one on OP_IF / OP_NOTIF, shrinks by one on OP_ENDIF, and keeps its depth otherwise -/
theorem step_vfExec_length (cx : Ctx) (st st' : State) (op : Op) (h : step cx st op = .ok st') :
    st'.vfExec.length + (if op.code = OP_ENDIF then 1 else 0)
      = st.vfExec.length + (if op.code = OP_IF ∨ op.code = OP_NOTIF then 1 else 0) := by
  obtain ⟨s1, s2, h1, h2, h3⟩ := (step_ok_iff cx st st' op).mp h
  rw [(stepFinish_ok s2 st' h3).2.2, ← (stepChecks_ok cx st s1 op h1).1]
  exact (stepExec_spec cx s1 s2 op _ h2).2

/-! ### the loop -/

theorem run_cons_ok (cx : Ctx) (op : Op) (ops : List Op) (st st' : State)
    (h : run cx (op :: ops) st = .ok st') : ∃ s, step cx st op = .ok s ∧ run cx ops s = .ok st' := by
  simp only [run] at h
  cases hs : step cx st op with
  | error e => simp [hs, Except.bind] at h
  | ok s => simp only [hs, Except.bind] at h; exact ⟨s, rfl, h⟩

theorem run_invariant (cx : Ctx) (P : State → Prop)
    (hstep : ∀ st st' op, P st → step cx st op = .ok st' → P st')
    (ops : List Op) (st st' : State) (h0 : P st) (h : run cx ops st = .ok st') : P st' := by
  induction ops generalizing st with
  | nil => simp only [run] at h; cases h; exact h0
  | cons op ops ih =>
    obtain ⟨s, h1, h2⟩ := run_cons_ok cx op ops st st' h
    exact ih s (hstep st s op h0 h1) h2

theorem run_rejects (cx : Ctx) (op : Op) (hrej : ∀ st, ∃ e, step cx st op = .error e)
    (ops : List Op) (hmem : op ∈ ops) (st : State) : ∃ e, run cx ops st = .error e := by
  induction ops generalizing st with
  | nil => cases hmem
  | cons o ops ih =>
    simp only [run]
    cases hs : step cx st o with
    | error e => exact ⟨e, rfl⟩
    | ok s =>
      simp only [Except.bind]
      rcases List.mem_cons.mp hmem with rfl | hm
      · obtain ⟨e, he⟩ := hrej st; rw [he] at hs; cases hs
      · exact ih hm s

def opens (ops : List Op) : Nat := ops.countP fun o => o.code = OP_IF ∨ o.code = OP_NOTIF
def closes (ops : List Op) : Nat := ops.countP fun o => o.code = OP_ENDIF

theorem run_vfExec (cx : Ctx) (ops : List Op) (st st' : State) (h : run cx ops st = .ok st') :
    st'.vfExec.length + closes ops = st.vfExec.length + opens ops := by
  induction ops generalizing st with
  | nil => simp only [run] at h; cases h; simp [opens, closes]
  | cons op ops ih =>
    obtain ⟨s, h1, h2⟩ := run_cons_ok cx op ops st st' h
    have a := step_vfExec_length cx st s op h1
    have b := ih s h2
    have hc : closes (op :: ops) = closes ops + (if op.code = OP_ENDIF then 1 else 0) := by
      unfold closes; rw [List.countP_cons]; simp
    have ho : opens (op :: ops) = opens ops + (if op.code = OP_IF ∨ op.code = OP_NOTIF then 1 else 0) := by
      unfold opens; rw [List.countP_cons]; simp
    rw [hc, ho]; omega

/-! ### EvalScript -/

theorem evalWith_ok (cx : Ctx) (stack out : List Bytes) (w : Int) (h : evalWith cx stack w = .ok out) :
    ∃ st, run cx (parse cx.script).1 { m := { stack := stack, weightLeft := w } } = .ok st ∧
      (parse cx.script).2 = [] ∧ st.vfExec = [] ∧ out = st.m.stack ∧
      ((cx.sigversion = .BASE ∨ cx.sigversion = .WITNESS_V0) → cx.script.length ≤ MAX_SCRIPT_SIZE) := by
  unfold evalWith at h
  split at h
  · cases h
  · rename_i hsz
    simp only at h
    split at h
    · cases h
    · rename_i st hrun
      split at h
      · cases h
      · rename_i ht
        split at h
        · cases h
        · rename_i hv
          cases h
          refine ⟨st, hrun, by simpa using ht, by simpa using hv, rfl, ?_⟩
          intro hsv
          rcases hsv with e | e <;> simp [e] at hsz <;> omega

end Core
end Btc.Script
