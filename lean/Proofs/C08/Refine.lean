import Proofs.C08.Num
import Proofs.C08.Core
import Model.C08.Btclib
/-! T3: the btclib-shaped model refines Core's transcription, op-code family by family. -/
namespace Btc.Script.Refine
open Btc Btc.Script

def coreCx (cx : Btclib.Ctx) (script : Bytes) : Core.Ctx :=
  { flags := cx.flags, sigversion := if cx.segwit then .WITNESS_V0 else .BASE, hashes := cx.hashes,
    checker := cx.checker, script := script,
    txLockTime := cx.txLockTime, txSequence := cx.txSequence, txVersion := cx.txVersion }

def btRes : Option Btclib.OpRes → Option (List Bytes × List Bytes)
  | some (.done s a) => some (s, a)
  | _ => none

def coreRes : Option (Core.R (List Bytes × List Bytes)) → Option (List Bytes × List Bytes)
  | some (.ok p) => some p
  | _ => none

def stackFamily : List Nat :=
  [0x76, 0x6e, 0x75, 0x6d, 0x7c, 0x6b, 0x6c, 0x77, 0x78, 0x7b, 0x7d, 0x6f, 0x70, 0x71, 0x72, 0x6a,
   0xa6, 0xa7, 0xa8, 0xa9, 0xaa]

theorem stack_ops_refine (cx : Btclib.Ctx) (sc : Bytes) (code : Nat) (h : code ∈ stackFamily)
    (stack alt : List Bytes) :
    btRes (Btclib.operation cx code stack alt) = coreRes (Core.execStackOp (coreCx cx sc) stack alt code) := by
  simp only [stackFamily, List.mem_cons, List.mem_nil_iff, or_false] at h
  rcases h with rfl | rfl | rfl | rfl | rfl | rfl | rfl | rfl | rfl | rfl | rfl | rfl | rfl | rfl | rfl | rfl | rfl | rfl | rfl | rfl | rfl
  all_goals
    rcases stack with _ | ⟨a, _ | ⟨b, _ | ⟨c, _ | ⟨d, _ | ⟨e, _ | ⟨f, r⟩⟩⟩⟩⟩⟩ <;>
    rcases alt with _ | ⟨x, y⟩ <;> first | rfl | skip

theorem beq_comm_bytes (a b : Bytes) : (a == b) = (b == a) := by
  cases h : (a == b) <;> cases h' : (b == a) <;> simp_all

theorem equal_refines (cx : Btclib.Ctx) (sc : Bytes) (stack alt : List Bytes) :
    btRes (Btclib.operation cx 0x87 stack alt) = coreRes (Core.execStackOp (coreCx cx sc) stack alt 0x87) := by
  rcases stack with _ | ⟨a, _ | ⟨b, r⟩⟩
  · rfl
  · rfl
  · show some (Btclib.boolBytes (a == b) :: r, alt) = some (Core.ofBool (b == a) :: r, alt)
    rw [beq_comm_bytes a b]; rfl

/-! numbers -/
theorem num_eq (cx : Btclib.Ctx) (sc : Bytes) (v : Bytes) (m : Nat) (hm : m ≤ 8) :
    Btclib.num cx v m = (Core.num (coreCx cx sc) v m).toOption := by
  unfold Btclib.num Core.num Btclib.minimaldata
  rw [toNum_eq_scriptNum _ _ _ hm]
  simp only [coreCx]
  cases Core.scriptNum v (Core.has cx.flags Core.FLAG_MINIMALDATA) m <;> rfl

theorem num_eq4 (cx : Btclib.Ctx) (sc : Bytes) (v : Bytes) :
    Btclib.num cx v Gen.Script.MAX_NUM_SIZE = (Core.num (coreCx cx sc) v Core.DEFAULT_MAX_NUM_SIZE).toOption :=
  num_eq cx sc v 4 (by decide)

theorem enc_eq (i : Int) : Btclib.enc i = Core.numBytes i := encodeNumRaw_eq_serialize i

theorem bool_eq (b : Bool) : Btclib.boolBytes b = Core.numBytes (Core.b2i b) := by
  cases b <;> decide

theorem un_refines (cx : Btclib.Ctx) (sc : Bytes) (stack alt : List Bytes) (f : Int → Bytes) (g : Int → Int)
    (hfg : ∀ x, f x = Core.numBytes (g x)) :
    btRes (Btclib.un cx stack alt f) =
      coreRes (some ((Core.unaryNum (coreCx cx sc) stack g).map fun s => (s, alt))) := by
  rcases stack with _ | ⟨a, r⟩
  · rfl
  · have e : Gen.Script.MAX_NUM_SIZE = Core.DEFAULT_MAX_NUM_SIZE := rfl
    simp only [Btclib.un, Core.unaryNum, num_eq4 cx sc]
    cases h : Core.num (coreCx cx sc) a Core.DEFAULT_MAX_NUM_SIZE <;>
      simp [Except.toOption, btRes, coreRes, Except.map, bind, Except.bind, pure, Except.pure, hfg]

theorem bin_refines (cx : Btclib.Ctx) (sc : Bytes) (stack alt : List Bytes) (f : Int → Int → Bytes) (g : Int → Int → Int)
    (hfg : ∀ x y, f x y = Core.numBytes (g x y)) :
    btRes (Btclib.bin cx stack alt f) =
      coreRes (some ((Core.binaryNum (coreCx cx sc) stack g).map fun s => (s, alt))) := by
  rcases stack with _ | ⟨b, _ | ⟨a, r⟩⟩
  · rfl
  · rfl
  · have e : Gen.Script.MAX_NUM_SIZE = Core.DEFAULT_MAX_NUM_SIZE := rfl
    simp only [Btclib.bin, Core.binaryNum, num_eq4 cx sc]
    cases h1 : Core.num (coreCx cx sc) a Core.DEFAULT_MAX_NUM_SIZE <;>
      cases h2 : Core.num (coreCx cx sc) b Core.DEFAULT_MAX_NUM_SIZE <;>
      simp [Except.toOption, btRes, coreRes, Except.map, bind, Except.bind, Option.bind, pure, Except.pure, hfg]

def arithFamily : List Nat :=
  [0x8b, 0x8c, 0x8f, 0x90, 0x91, 0x92, 0x93, 0x94, 0x9a, 0x9b, 0x9c, 0x9e, 0x9f, 0xa0, 0xa1, 0xa2, 0xa3, 0xa4]

theorem arith_ops_refine (cx : Btclib.Ctx) (sc : Bytes) (code : Nat) (h : code ∈ arithFamily)
    (stack alt : List Bytes) :
    btRes (Btclib.operation cx code stack alt) = coreRes (Core.execStackOp (coreCx cx sc) stack alt code) := by
  simp only [arithFamily, List.mem_cons, List.mem_nil_iff, or_false] at h
  rcases h with rfl | rfl | rfl | rfl | rfl | rfl | rfl | rfl | rfl | rfl | rfl | rfl | rfl | rfl | rfl | rfl | rfl | rfl
  · exact un_refines cx sc stack alt _ _ (fun x => enc_eq _)
  · exact un_refines cx sc stack alt _ _ (fun x => enc_eq _)
  · exact un_refines cx sc stack alt _ _ (fun x => enc_eq _)
  · exact un_refines cx sc stack alt _ (fun x => if x < 0 then -x else x) (fun x => by
      rw [enc_eq]; congr 1; split <;> omega)
  · exact un_refines cx sc stack alt _ _ (fun x => bool_eq _)
  · exact un_refines cx sc stack alt _ (fun x => Core.b2i (x != 0)) (fun x => by
      rw [← bool_eq]; by_cases h : x = 0 <;> simp [h, Btclib.boolBytes])
  · exact bin_refines cx sc stack alt _ _ (fun x y => enc_eq _)
  · exact bin_refines cx sc stack alt _ _ (fun x y => enc_eq _)
  · exact bin_refines cx sc stack alt _ _ (fun x y => bool_eq _)
  · exact bin_refines cx sc stack alt _ _ (fun x y => bool_eq _)
  · exact bin_refines cx sc stack alt _ _ (fun x y => bool_eq _)
  · exact bin_refines cx sc stack alt _ _ (fun x y => bool_eq _)
  · exact bin_refines cx sc stack alt _ _ (fun x y => bool_eq _)
  · exact bin_refines cx sc stack alt _ _ (fun x y => bool_eq _)
  · exact bin_refines cx sc stack alt _ _ (fun x y => bool_eq _)
  · exact bin_refines cx sc stack alt _ _ (fun x y => bool_eq _)
  · exact bin_refines cx sc stack alt _ (fun a b => if a < b then a else b) (fun x y => by
      rw [enc_eq]; congr 1; simp only [Int.min_def]; split <;> split <;> omega)
  · exact bin_refines cx sc stack alt _ (fun a b => if a > b then a else b) (fun x y => by
      rw [enc_eq]; congr 1; simp only [Int.max_def]; split <;> split <;> omega)


def miscFamily : List Nat := [0x69, 0x73, 0x4f, 0x74, 0x82, 0xa5, 0x87]

theorem verify_refines (cx : Btclib.Ctx) (sc : Bytes) (stack alt : List Bytes) :
    btRes (Btclib.operation cx 0x69 stack alt) = coreRes (Core.execStackOp (coreCx cx sc) stack alt 0x69) := by
  rcases stack with _ | ⟨a, r⟩
  · rfl
  · show btRes (if toBool a then some (.done r alt) else none)
        = coreRes (if Core.castToBool a then some (.ok (r, alt)) else some (.error .VERIFY))
    rw [toBool_eq_castToBool]; split <;> rfl

theorem ifdup_refines (cx : Btclib.Ctx) (sc : Bytes) (stack alt : List Bytes) :
    btRes (Btclib.operation cx 0x73 stack alt) = coreRes (Core.execStackOp (coreCx cx sc) stack alt 0x73) := by
  rcases stack with _ | ⟨a, r⟩
  · rfl
  · show some ((if toBool a then a :: a :: r else a :: r), alt)
        = some ((if Core.castToBool a then a :: a :: r else a :: r), alt)
    rw [toBool_eq_castToBool]

theorem const_refines (cx : Btclib.Ctx) (sc : Bytes) (stack alt : List Bytes) :
    btRes (Btclib.operation cx 0x4f stack alt) = coreRes (Core.execStackOp (coreCx cx sc) stack alt 0x4f) ∧
    btRes (Btclib.operation cx 0x74 stack alt) = coreRes (Core.execStackOp (coreCx cx sc) stack alt 0x74) ∧
    btRes (Btclib.operation cx 0x82 stack alt) = coreRes (Core.execStackOp (coreCx cx sc) stack alt 0x82) := by
  refine ⟨?_, ?_, ?_⟩
  · show some (Btclib.enc (-1) :: stack, alt) = some (Core.numBytes (-1) :: stack, alt)
    rw [enc_eq]
  · show some (Btclib.enc (stack.length : Nat) :: stack, alt) = some (Core.numBytes (stack.length : Nat) :: stack, alt)
    rw [enc_eq]
  · rcases stack with _ | ⟨a, r⟩
    · rfl
    · show some (Btclib.enc (a.length : Nat) :: a :: r, alt) = some (Core.numBytes (a.length : Nat) :: a :: r, alt)
      rw [enc_eq]

theorem within_refines (cx : Btclib.Ctx) (sc : Bytes) (stack alt : List Bytes) :
    btRes (Btclib.operation cx 0xa5 stack alt) = coreRes (Core.execStackOp (coreCx cx sc) stack alt 0xa5) := by
  rcases stack with _ | ⟨c, _ | ⟨b, _ | ⟨a, r⟩⟩⟩
  · rfl
  · rfl
  · rfl
  · have e : Gen.Script.MAX_NUM_SIZE = Core.DEFAULT_MAX_NUM_SIZE := rfl
    show btRes (do
        let mx ← Btclib.num cx c
        let mn ← Btclib.num cx b
        let x ← Btclib.num cx a
        pure (.done (Btclib.boolBytes (decide (mn ≤ x) && decide (x < mx)) :: r) alt))
      = coreRes (some ((do
        let x ← Core.num (coreCx cx sc) a
        let mn ← Core.num (coreCx cx sc) b
        let mx ← Core.num (coreCx cx sc) c
        pure (Core.ofBool (decide (mn ≤ x) && decide (x < mx)) :: r) : Core.R (List Bytes)).map fun s => (s, alt)))
    simp only [num_eq4 cx sc]
    cases h1 : Core.num (coreCx cx sc) a Core.DEFAULT_MAX_NUM_SIZE <;>
      cases h2 : Core.num (coreCx cx sc) b Core.DEFAULT_MAX_NUM_SIZE <;>
      cases h3 : Core.num (coreCx cx sc) c Core.DEFAULT_MAX_NUM_SIZE <;>
      simp [Except.toOption, btRes, coreRes, Except.map, bind, Except.bind, Option.bind, pure, Except.pure,
        Btclib.boolBytes, Core.ofBool, Btclib.true_, Btclib.false_, Core.vchTrue, Core.vchFalse]



/-- every non-expanding OPERATIONS entry covered so far -/
def covered : List Nat := stackFamily ++ arithFamily ++ miscFamily

theorem operation_refines (cx : Btclib.Ctx) (sc : Bytes) (code : Nat) (h : code ∈ covered) (stack alt : List Bytes) :
    btRes (Btclib.operation cx code stack alt) = coreRes (Core.execStackOp (coreCx cx sc) stack alt code) := by
  simp only [covered, List.mem_append] at h
  rcases h with (h | h) | h
  · exact stack_ops_refine cx sc code h stack alt
  · exact arith_ops_refine cx sc code h stack alt
  · simp only [miscFamily, List.mem_cons, List.mem_nil_iff, or_false] at h
    rcases h with rfl | rfl | rfl | rfl | rfl | rfl | rfl
    · exact verify_refines cx sc stack alt
    · exact ifdup_refines cx sc stack alt
    · exact (const_refines cx sc stack alt).1
    · exact (const_refines cx sc stack alt).2.1
    · exact (const_refines cx sc stack alt).2.2
    · exact within_refines cx sc stack alt
    · exact equal_refines cx sc stack alt

/-- the two expansions, run as the loop runs them (`OP_X` then `OP_VERIFY`), are Core's fused op codes -/
theorem expansion_refines (cx : Btclib.Ctx) (sc : Bytes) (stack alt : List Bytes) :
    ((btRes (Btclib.operation cx 0x87 stack alt)).bind fun p => btRes (Btclib.operation cx 0x69 p.1 p.2))
      = coreRes (Core.execStackOp (coreCx cx sc) stack alt 0x88) ∧
    ((btRes (Btclib.operation cx 0x9c stack alt)).bind fun p => btRes (Btclib.operation cx 0x69 p.1 p.2))
      = coreRes (Core.execStackOp (coreCx cx sc) stack alt 0x9d) := by
  constructor
  · rcases stack with _ | ⟨a, _ | ⟨b, r⟩⟩
    · rfl
    · rfl
    · show (btRes (if toBool (Btclib.boolBytes (a == b)) then some (.done r alt) else none))
          = coreRes (if b == a then some (.ok (r, alt)) else some (.error .EQUALVERIFY))
      rw [beq_comm_bytes a b]
      cases (b == a) <;> rfl
  · rw [arith_ops_refine cx sc 0x9c (by decide) stack alt]
    rcases stack with _ | ⟨b, _ | ⟨a, r⟩⟩
    · rfl
    · rfl
    · show (coreRes (some ((Core.binaryNum (coreCx cx sc) (b :: a :: r) fun a b => Core.b2i (a == b)).map fun s => (s, alt)))).bind _
          = coreRes (some ((do
              let s ← Core.binaryNum (coreCx cx sc) (b :: a :: r) (fun a b => Core.b2i (a == b))
              match s with
              | t :: r => if Core.castToBool t then pure r else throw Core.ScriptError.NUMEQUALVERIFY
              | [] => throw Core.ScriptError.INVALID_STACK_OPERATION : Core.R (List Bytes)).map fun s => (s, alt)))
      cases h : Core.binaryNum (coreCx cx sc) (b :: a :: r) (fun a b => Core.b2i (a == b)) with
      | error e => rfl
      | ok s =>
        rcases s with _ | ⟨t, r'⟩
        · rfl
        · show btRes (if toBool t then some (.done r' alt) else none) = _
          rw [toBool_eq_castToBool]
          simp only [coreRes, Except.map, bind, Except.bind, pure, Except.pure, throw, throwThe, MonadExceptOf.throw]
          split <;> rfl

/-! ### locktime op codes, PICK, ROLL (against the named cases of the switch) -/

theorem num_eq5 (cx : Btclib.Ctx) (sc : Bytes) (v : Bytes) :
    Btclib.num cx v Gen.Script.MAX_LOCK_TIME_NUM_SIZE = (Core.num (coreCx cx sc) v Core.LOCKTIME_MAX_NUM_SIZE).toOption :=
  num_eq cx sc v 5 (by decide)

def okOpt {α} : Core.R α → Option α
  | .ok a => some a
  | .error _ => none


theorem cltv_core (cx : Btclib.Ctx) (sc : Bytes) (stack : List Bytes) :
    (Btclib.cltv cx stack).map (fun _ => stack) = okOpt (Core.execCltv (coreCx cx sc) stack) := by
  unfold Btclib.cltv Core.execCltv
  have hfl : (coreCx cx sc).flags = cx.flags := rfl
  rw [hfl]
  by_cases hf : Core.has cx.flags Core.FLAG_CHECKLOCKTIMEVERIFY = true
  · simp only [hf, Bool.not_true, Bool.false_eq_true, if_false]
    rcases stack with _ | ⟨top, r⟩
    · rfl
    · dsimp only
      rw [num_eq5 cx sc]
      cases hn : Core.num (coreCx cx sc) top Core.LOCKTIME_MAX_NUM_SIZE with
      | error e => rfl
      | ok n =>
        have ht : (coreCx cx sc).txLockTime = cx.txLockTime := rfl
        have hq : (coreCx cx sc).txSequence = cx.txSequence := rfl
        by_cases h1 : n < 0
        · simp [h1, Except.toOption, okOpt, bind, Except.bind, throw, throwThe, MonadExceptOf.throw]
        · have hcl : Core.checkLockTime (coreCx cx sc) n =
              (if !(((cx.txLockTime : Int) < 500000000 && n < 500000000) || ((cx.txLockTime : Int) ≥ 500000000 && n ≥ 500000000)) then false
               else if n > (cx.txLockTime : Int) then false else if cx.txSequence = 0xFFFFFFFF then false else true) := rfl
          by_cases h2 : (cx.txLockTime : Int) ≥ 500000000 <;> by_cases h3 : n ≥ 500000000 <;>
            by_cases h4 : n > (cx.txLockTime : Int) <;> by_cases h5 : cx.txSequence = 0xFFFFFFFF <;>
            simp [h1, h2, h3, h4, h5, hcl, okOpt, Except.toOption, bind, Except.bind, pure, Except.pure, throw, throwThe,
              MonadExceptOf.throw] <;> omega
  · have hf' : Core.has cx.flags Core.FLAG_CHECKLOCKTIMEVERIFY = false := by simpa using hf
    simp [hf', okOpt]

theorem csv_core (cx : Btclib.Ctx) (sc : Bytes) (stack : List Bytes) :
    (Btclib.csv cx stack).map (fun _ => stack) = okOpt (Core.execCsv (coreCx cx sc) stack) := by
  unfold Btclib.csv Core.execCsv
  have hfl : (coreCx cx sc).flags = cx.flags := rfl
  rw [hfl]
  by_cases hf : Core.has cx.flags Core.FLAG_CHECKSEQUENCEVERIFY = true
  · simp only [hf, Bool.not_true, Bool.false_eq_true, if_false]
    rcases stack with _ | ⟨top, r⟩
    · rfl
    · dsimp only
      rw [num_eq5 cx sc]
      cases hn : Core.num (coreCx cx sc) top Core.LOCKTIME_MAX_NUM_SIZE with
      | error e => rfl
      | ok n =>
        by_cases h1 : n < 0
        · simp [h1, Except.toOption, okOpt, bind, Except.bind, throw, throwThe, MonadExceptOf.throw]
        · generalize hsq : n.toNat = sq
          have hcs : Core.checkSequence (coreCx cx sc) n =
              (if cx.txVersion < 2 then false
               else if (cx.txSequence / 2147483648) % 2 = 1 then false
               else
                 if !((((cx.txSequence / 4194304 % 2) * 4194304 + cx.txSequence % 65536) < 4194304 && ((sq / 4194304 % 2) * 4194304 + sq % 65536) < 4194304)
                      || (((cx.txSequence / 4194304 % 2) * 4194304 + cx.txSequence % 65536) ≥ 4194304 && ((sq / 4194304 % 2) * 4194304 + sq % 65536) ≥ 4194304)) then false
                 else if ((sq / 4194304 % 2) * 4194304 + sq % 65536) > ((cx.txSequence / 4194304 % 2) * 4194304 + cx.txSequence % 65536) then false
                 else true) := by rw [← hsq]; rfl
          have hb : ∀ x k, Btclib.bit x k = x / 2 ^ k % 2 * 2 ^ k := fun _ _ => rfl
          have m5 := Nat.mod_lt sq (by decide : 0 < 65536)
          have m6 := Nat.mod_lt cx.txSequence (by decide : 0 < 65536)
          rcases Nat.mod_two_eq_zero_or_one (sq / 2147483648) with e1 | e1 <;>
          rcases Nat.mod_two_eq_zero_or_one (cx.txSequence / 2147483648) with e2 | e2 <;>
          rcases Nat.mod_two_eq_zero_or_one (sq / 4194304) with e3 | e3 <;>
          rcases Nat.mod_two_eq_zero_or_one (cx.txSequence / 4194304) with e4 | e4 <;>
          by_cases h3 : cx.txVersion < 2 <;> by_cases h6 : sq % 65536 > cx.txSequence % 65536 <;>
            simp [h1, h3, h6, e1, e2, e3, e4, hcs, hsq, hb, okOpt, Except.toOption, bind, Except.bind, pure, Except.pure,
              throw, throwThe, MonadExceptOf.throw] <;> (try omega) <;>
            (first | (rw [if_pos (by omega)]) | (rw [if_neg (by omega)]))
  · have hf' : Core.has cx.flags Core.FLAG_CHECKSEQUENCEVERIFY = false := by simpa using hf
    simp [hf', okOpt]

theorem eraseAt_zero (r : List Bytes) (h : r ≠ []) : r.getD 0 [] :: Core.eraseAt r 0 = r := by
  cases r with
  | nil => exact absurd rfl h
  | cons x xs => rfl

theorem pick_roll_core (cx : Btclib.Ctx) (sc : Bytes) (stack alt : List Bytes) :
    btRes (Btclib.operation cx 0x79 stack alt) = (okOpt (Core.execPickRoll (coreCx cx sc) stack false)).map (·, alt) ∧
    btRes (Btclib.operation cx 0x7a stack alt) = (okOpt (Core.execPickRoll (coreCx cx sc) stack true)).map (·, alt) := by
  rcases stack with _ | ⟨top, _ | ⟨below, r0⟩⟩
  · exact ⟨rfl, rfl⟩
  · -- one element: Core refuses before reading it; btclib reads it and then finds nothing to pick
    constructor
    · show btRes (do
          let n ← Btclib.num cx top
          if n < 0 then none else match ([] : List Bytes)[n.toNat]? with | some v => pure (.done (v :: []) alt) | none => none) = none
      cases Btclib.num cx top with
      | none => rfl
      | some n => show btRes (if n < 0 then none else none) = none; split <;> rfl
    · show btRes (do
          let n ← Btclib.num cx top
          if n < 0 then none
          else if (([] : List Bytes).length : Int) < n + 1 then none
          else if n == 0 then pure (.done [] alt)
          else pure (.done (([] : List Bytes).getD n.toNat [] :: Core.eraseAt [] n.toNat) alt)) = none
      cases Btclib.num cx top with
      | none => rfl
      | some n =>
        show btRes (if n < 0 then none else if ((0 : Nat) : Int) < n + 1 then none else _) = none
        by_cases h1 : n < 0
        · simp [h1, btRes]
        · have : (0 : Int) < n + 1 := by omega
          simp [h1, this, btRes]
  · have hlen : ((below :: r0).length : Int) = r0.length + 1 := by simp
    constructor
    · show btRes (do
          let n ← Btclib.num cx top
          if n < 0 then none else match (below :: r0)[n.toNat]? with | some v => pure (.done (v :: below :: r0) alt) | none => none) = _
      unfold Core.execPickRoll
      dsimp only
      rw [num_eq4 cx sc]
      cases hn : Core.num (coreCx cx sc) top Core.DEFAULT_MAX_NUM_SIZE with
      | error e => rfl
      | ok n =>
        by_cases h1 : n < 0
        · simp [h1, Except.toOption, okOpt, btRes, bind, Except.bind, Option.bind, throw, throwThe, MonadExceptOf.throw]
        · by_cases h2 : n ≥ ((below :: r0).length : Nat)
          · have hnone : (below :: r0)[n.toNat]? = none := by
              apply List.getElem?_eq_none; simp only [List.length_cons] at h2 ⊢; omega
            have g1 : (r0.length : Int) + 1 ≤ n := by rw [hlen] at h2; omega
            simp [h1, h2, g1, hnone, Except.toOption, okOpt, btRes, bind, Except.bind, Option.bind, throw, throwThe,
              MonadExceptOf.throw]
          · have hlt : n.toNat < (below :: r0).length := by simp only [List.length_cons] at h2 ⊢; omega
            have hsome : (below :: r0)[n.toNat]? = some ((below :: r0).getD n.toNat []) := by
              rw [List.getD_eq_getElem?_getD, List.getElem?_eq_getElem hlt]; rfl
            simp only [Except.toOption, Option.bind, h1, if_false, hsome, bind, Except.bind, h2, or_self, pure,
              Except.pure, okOpt, btRes, Option.map, Bool.false_eq_true]
    · show btRes (do
          let n ← Btclib.num cx top
          if n < 0 then none
          else if ((below :: r0).length : Int) < n + 1 then none
          else if n == 0 then pure (.done (below :: r0) alt)
          else pure (.done ((below :: r0).getD n.toNat [] :: Core.eraseAt (below :: r0) n.toNat) alt)) = _
      unfold Core.execPickRoll
      dsimp only
      rw [num_eq4 cx sc]
      cases hn : Core.num (coreCx cx sc) top Core.DEFAULT_MAX_NUM_SIZE with
      | error e => rfl
      | ok n =>
        by_cases h1 : n < 0
        · simp [h1, Except.toOption, okOpt, btRes, bind, Except.bind, Option.bind, throw, throwThe, MonadExceptOf.throw]
        · by_cases h2 : n ≥ ((below :: r0).length : Nat)
          · have h2' : ((below :: r0).length : Int) < n + 1 := by omega
            have g1 : (r0.length : Int) + 1 ≤ n := by rw [hlen] at h2; omega
            have g2 : (r0.length : Int) < n := by omega
            simp [h1, h2, h2', g1, g2, Except.toOption, okOpt, btRes, bind, Except.bind, Option.bind, throw, throwThe,
              MonadExceptOf.throw]
          · have h2' : ¬ ((below :: r0).length : Int) < n + 1 := by omega
            have g1 : ¬ ((r0.length : Int) + 1 ≤ n) := by rw [hlen] at h2; omega
            have g2 : ¬ ((r0.length : Int) < n) := by omega
            by_cases h0 : n = 0
            · subst h0
              have g3 : ¬ ((r0.length : Int) < 0) := by omega
              have g4 : ¬ ((r0.length : Int) + 1 ≤ 0) := by omega
              simp [h2', g3, g4, Except.toOption, okOpt, btRes, bind, Except.bind, Option.bind, pure, Except.pure, Core.eraseAt]
            · have hb : (n == 0) = false := by simpa using h0
              simp [h1, h2, h2', g1, g2, hb, h0, Except.toOption, okOpt, btRes, bind, Except.bind, Option.bind, pure, Except.pure]

/-! ### the expansion at loop level -/
section
open Btclib

/-- three passes through the loop -/
def iter3 (cx : Btclib.Ctx) (st : St) : Option Next :=
  match iter cx st with
  | some (.more a) =>
    match iter cx a with
    | some (.more b) => iter cx b
    | x => x
  | x => x

theorem count_spec (c : Int) :
    (Gen.Script.script_op_count c 1).toOption = if c + 1 > 201 then none else some (c + 1) := by
  unfold Gen.Script.script_op_count
  simp only [Gen.Script.MAX_OPS_PER_SCRIPT, bind, Except.bind, pure, Except.pure]
  by_cases h : c + 1 > 201
  · simp [h, Except.toOption, throw, throwThe, MonadExceptOf.throw]
  · have h' : ¬ (201 < c + 1) := by omega
    simp [h, h', Except.toOption]

/-- one pass on an executing branch over one of the three op codes of the EQUALVERIFY expansion -/
theorem iter_operation (cx : Btclib.Ctx) (t : Nat) (ht : t = 0x88 ∨ t = 0x87 ∨ t = 0x69 ∨ t = 0x9d ∨ t = 0x9c)
    (stack alt : List Bytes) (cond : List Bool) (cnt idx : Int) (cso : Nat) (rest : Bytes)
    (hexec : cond.all id = true) (hsize : stack.length + alt.length ≤ 1000) :
    iter cx { stack := stack, alt := alt, cond := cond, opCodeNum := cnt, scriptIndex := idx, s := UInt8.ofNat t :: rest, codesepOffset := cso } =
      if cnt + 1 > 201 then none
      else match operation cx t stack alt with
        | none => none
        | some (.done s a) => some (.more { stack := s, alt := a, cond := cond, opCodeNum := cnt + 1, scriptIndex := idx + 1, s := rest, codesepOffset := cso })
        | some (.expand s a r) =>
          some (.more { stack := s, alt := a, cond := cond, opCodeNum := cnt + 1 - r.length, scriptIndex := idx + 1 - r.length,
                        s := r.map UInt8.ofNat ++ rest, codesepOffset := cso }) := by
  have hsz : ¬ (1000 < stack.length + alt.length) := by omega
  rcases ht with rfl | rfl | rfl | rfl | rfl <;>
    (simp only [iter, Gen.Script.N_MAX_STACK_SIZE, gt_iff_lt, hsz, if_false, hexec]
     by_cases hc : cnt + 1 > 201
     · simp [count_spec, hc, kind]
     · simp [count_spec, hc, kind, dispatch, Gen.Script.DISABLED_OP_CODES, Gen.Script.EVALUATED_WHEN_UNEXECUTED_LO,
         Gen.Script.EVALUATED_WHEN_UNEXECUTED_HI]
       cases operation cx _ stack alt with
       | none => rfl
       | some r => cases r <;> rfl)


/-- T3, the expansion trick with its bookkeeping: OP_EQUALVERIFY runs as three passes of the loop (the expansion, OP_EQUAL,
    OP_VERIFY); `script_index` and `op_code_num` are wound back by two and counted up again, and the three passes together
    leave exactly: stacks as the fused pair leaves them, ONE op code counted (refused iff the count passes 201), the index
    advanced by ONE, the stream past the op code. -/
theorem equalverify_windback (cx : Btclib.Ctx) (stack alt : List Bytes) (cond : List Bool) (cnt idx : Int) (cso : Nat)
    (rest : Bytes) (hexec : cond.all id = true) (hsize : stack.length + alt.length ≤ 1000) :
    iter3 cx { stack := stack, alt := alt, cond := cond, opCodeNum := cnt, scriptIndex := idx, s := UInt8.ofNat 0x88 :: rest, codesepOffset := cso } =
      (if cnt + 1 > 201 then none
       else match (btRes (operation cx 0x87 stack alt)).bind fun p => btRes (operation cx 0x69 p.1 p.2) with
         | some (s, a) => some (.more { stack := s, alt := a, cond := cond, opCodeNum := cnt + 1, scriptIndex := idx + 1, s := rest, codesepOffset := cso })
         | none => none) := by
  unfold iter3
  rw [iter_operation cx 0x88 (Or.inl rfl) stack alt cond cnt idx cso rest hexec hsize]
  by_cases hc : cnt + 1 > 201
  · simp [hc]
  · simp only [hc, if_false]
    have e88 : operation cx 0x88 stack alt = some (.expand stack alt [0x87, 0x69]) := rfl
    simp only [e88, List.map_cons, List.map_nil, List.cons_append, List.nil_append, List.length_cons, List.length_nil]
    rw [iter_operation cx 0x87 (Or.inr (Or.inl rfl)) stack alt cond _ _ cso _ hexec hsize]
    have hc2 : ¬ (cnt + 1 - ((0 + 1 + 1 : Nat) : Int) + 1 > 201) := by omega
    simp only [hc2, if_false]
    rcases stack with _ | ⟨a, _ | ⟨b, r⟩⟩
    · rfl
    · rfl
    · have e87 : operation cx 0x87 (a :: b :: r) alt = some (.done (boolBytes (a == b) :: r) alt) := rfl
      simp only [e87, btRes, Option.bind_some]
      have hs3 : (boolBytes (a == b) :: r).length + alt.length ≤ 1000 := by
        simp only [List.length_cons] at hsize ⊢; omega
      rw [iter_operation cx 0x69 (Or.inr (Or.inr (Or.inl rfl))) _ alt cond _ _ cso rest hexec hs3]
      have hc3 : ¬ (cnt + 1 - ((0 + 1 + 1 : Nat) : Int) + 1 + 1 > 201) := by omega
      simp only [hc3, if_false]
      cases h69 : operation cx 0x69 (boolBytes (a == b) :: r) alt with
      | none => rfl
      | some res =>
        cases res with
        | done s2 a2 =>
          simp only [btRes]
          congr 3 <;> omega
        | expand s2 a2 r2 =>
          exfalso
          have : operation cx 0x69 (boolBytes (a == b) :: r) alt
              = if toBool (boolBytes (a == b)) then some (.done r alt) else none := rfl
          rw [this] at h69; split at h69 <;> cases h69


end

end Btc.Script.Refine
