import Proofs.C08.Refine
import Proofs.C08.Sig
/-! T3 at loop level: the btclib-shaped loop (`Btclib.loop`, byte stream, expansions, sentinel) simulates Core's
`run` over the parsed instructions, for scripts made of covered op codes. -/
namespace Btc.Script.Sim
open Btc Btc.Script Btclib Refine Sig

/-- the relation between the two loop states: stacks equal, btclib's condition stack is Core's `vfExec` over the sentinel,
    op counts equal (btclib's transient wind-back happens inside the passes of one instruction).  The byte cursor
    (`st.s`) is tied to the instruction list by the statement of `sim`, `script_index`/`opcode_pos` are not read by any
    covered op code. -/
def R (st : St) (c : Core.State) : Prop :=
  st.stack = c.m.stack ∧ st.alt = c.m.alt ∧ st.cond = c.vfExec ++ [true] ∧ st.opCodeNum = (c.m.opCount : Int) ∧
  st.codesepOffset = c.m.codeStart

def toOut : Core.R (List Bytes) → Out
  | .ok s => .ok s
  | .error _ => .refused

/-- what `evalWith` does after the loop -/
def finish (r : Core.R Core.State) (tail : Bytes) : Out :=
  match r with
  | .error _ => .refused
  | .ok c => if !tail.isEmpty then .refused else if !c.vfExec.isEmpty then .refused else .ok c.m.stack

theorem all_snoc_true (l : List Bool) : (l ++ [true]).all id = l.all id := by simp

theorem loop_iter_none (cx : Btclib.Ctx) (st : St) (h : iter cx st = none) : ∀ f, loop cx f st = .refused := by
  intro f; cases f with
  | zero => rfl
  | succ f => simp [loop, h]

theorem loop_iter_more (cx : Btclib.Ctx) (st st' : St) (h : iter cx st = some (.more st')) (f : Nat) :
    loop cx (f + 1) st = loop cx f st' := by
  simp [loop, h]

theorem oversize_refused (cx : Btclib.Ctx) (st : St) (h : st.stack.length + st.alt.length > 1000) :
    ∀ f, loop cx f st = .refused := by
  apply loop_iter_none
  unfold iter
  simp [Gen.Script.N_MAX_STACK_SIZE, h]

theorem readPush_none (c : UInt8) (r : Bytes) (h : getOp (c :: r) = none) :
    readPushData c.toNat r = none := by
  simp only [getOp] at h
  unfold readPushData
  split at h
  · cases h
  · rename_i h1
    split at h
    · rename_i h2
      split at h
      · rename_i h3
        have : (r.take c.toNat).length ≠ c.toNat := by simp [List.length_take]; omega
        simp [h2, this]
        intros; omega
      · cases h
    · rename_i h2
      simp only [h2, if_false]
      generalize 2 ^ (c.toNat - 76) = w at h ⊢
      split at h
      · rename_i h3
        have : (r.take w).length ≠ w := by simp [List.length_take]; omega
        simp [this]
        intros; omega
      · rename_i h3
        have e : (r.take w).length = w := by simp [List.length_take]; omega
        simp only [e, ne_eq, not_true_eq_false, if_false]
        split at h
        · rename_i h4
          have : ((r.drop w).take (ofLE (r.take w))).length ≠ ofLE (r.take w) := by
            simp only [List.length_take]; omega
          simp [this]
          simp only [List.length_drop] at h4
          intros; omega
        · cases h

theorem readPush_some (c : UInt8) (r : Bytes) (op : Op) (rest : Bytes) (h : getOp (c :: r) = some (op, rest))
    (hc : 0 < c.toNat ∧ c.toNat ≤ 78) :
    op.code = c.toNat ∧
    readPushData c.toNat r = if op.data.length > 520 then none else some (op.data, rest) := by
  simp only [getOp] at h
  unfold readPushData
  have h1 : ¬ (c.toNat = 0 ∨ c.toNat > 78) := by omega
  simp only [h1, if_false] at h
  split at h
  · rename_i h2
    split at h
    · cases h
    · rename_i h3
      cases h
      have e : (r.take c.toNat).length = c.toNat := by simp [List.length_take]; omega
      refine ⟨rfl, ?_⟩
      have g1 : ¬ (c.toNat > Gen.Script.N_MAX_SCRIPT_ELEMENT_SIZE) := by simp only [Gen.Script.N_MAX_SCRIPT_ELEMENT_SIZE]; omega
      have g2 : ¬ ((r.take c.toNat).length > 520) := by omega
      simp [h2, e, g1, g2]
      omega
  · rename_i h2
    simp only [h2, if_false]
    generalize 2 ^ (c.toNat - 76) = w at h ⊢
    split at h
    · cases h
    · rename_i h3
      split at h
      · cases h
      · rename_i h4
        cases h
        have e : (r.take w).length = w := by simp [List.length_take]; omega
        have e2 : ((r.drop w).take (ofLE (r.take w))).length = ofLE (r.take w) := by
          simp only [List.length_take]; omega
        refine ⟨rfl, ?_⟩
        simp only [e, ne_eq, not_true_eq_false, if_false, e2, Gen.Script.N_MAX_SCRIPT_ELEMENT_SIZE, List.drop_drop]


/-! ### where the two cursors are: `pc` / `opcode_pos` on Core's side, `script_index` on btclib's -/

theorem stepChecks_pos (cx : Core.Ctx) (st s1 : Core.State) (op : Op) (h : Core.stepChecks cx st op = .ok s1) :
    s1.pos = st.pos + op.raw.length ∧ s1.opcodePos = st.opcodePos := by
  unfold Core.stepChecks at h
  split at h
  · cases h
  · simp only at h
    split at h
    · cases h
    · split at h
      · cases h
      · split at h
        · cases h
        · cases h; exact ⟨rfl, rfl⟩

theorem execConditional_pos (cx : Core.Ctx) (s1 s2 : Core.State) (t : Nat) (f : Bool)
    (h : Core.execConditional cx s1 t f = .ok s2) : s2.pos = s1.pos ∧ s2.opcodePos = s1.opcodePos := by
  unfold Core.execConditional at h
  split at h
  · split at h
    · split at h
      · cases h
      · split at h
        · cases h
        · split at h
          · cases h
          · cases h; exact ⟨rfl, rfl⟩
    · cases h; exact ⟨rfl, rfl⟩
  · split at h
    · split at h
      · cases h
      · cases h; exact ⟨rfl, rfl⟩
    · split at h
      · split at h
        · cases h
        · cases h; exact ⟨rfl, rfl⟩
      · cases h

theorem stepExec_pos (cx : Core.Ctx) (s1 s2 : Core.State) (op : Op) (f : Bool)
    (h : Core.stepExec cx s1 op f = .ok s2) : s2.pos = s1.pos ∧ s2.opcodePos = s1.opcodePos := by
  unfold Core.stepExec at h
  split at h
  · split at h
    · cases h
    · cases h; exact ⟨rfl, rfl⟩
  · split at h
    · exact execConditional_pos cx s1 s2 _ f h
    · split at h
      · cases hp : Core.execPlain cx s1.pos s1.opcodePos s1.m op.code with
        | error e => rw [hp] at h; cases h
        | ok m => rw [hp] at h; cases h; exact ⟨rfl, rfl⟩
      · cases h; exact ⟨rfl, rfl⟩

theorem stepFinish_pos (s2 s' : Core.State) (h : Core.stepFinish s2 = .ok s') :
    s'.pos = s2.pos ∧ s'.opcodePos = s2.opcodePos + 1 := by
  unfold Core.stepFinish at h
  split at h
  · cases h
  · cases h; exact ⟨rfl, rfl⟩

/-- `op_code_stops[k]` for the `k`-th instruction of the walk -/
theorem stops_get (done : List Op) (op : Op) (rest : List Op) (pos : Nat) :
    ((spansOf (done ++ op :: rest) pos).map (·.2.2))[done.length]?
      = some (pos + (serializeOps done).length + op.raw.length) := by
  induction done generalizing pos with
  | nil => simp [spansOf, serializeOps]
  | cons d ds ih =>
    simp only [List.cons_append, spansOf, List.map_cons, List.length_cons, List.getElem?_cons_succ]
    rw [ih]
    simp only [serializeOps, List.flatMap_cons, List.length_append]
    congr 1; omega

/-- the stops `verify_script` hands to `_run_ops`, as `sim_loop` needs them -/
def StopsOk (cx : Btclib.Ctx) (script : Bytes) : Prop :=
  (parse script).1.any (fun o => o.code == 0xab) = true →
    cx.opCodeStops = (spansOf (parse script).1 0).map (·.2.2)

/-- one instruction: `k` passes of btclib's loop against Core's checks + switch (the size check of `stepFinish` is
    btclib's check at the top of the NEXT pass) -/
def SimOp (cx : Btclib.Ctx) (script : Bytes) (st : St) (cst : Core.State) (op : Op) (rest : Bytes) : Prop :=
  match (Core.stepChecks (coreCx cx script) cst op).bind
      (fun s1 => Core.stepExec (coreCx cx script) s1 op (cst.vfExec.all id)) with
  | .error _ => ∀ f, loop cx f st = .refused
  | .ok s2 => ∃ k st', 1 ≤ k ∧ k ≤ 3 ∧ R st' s2 ∧ st'.s = rest ∧ st'.scriptIndex = st.scriptIndex + 1 ∧
      ∀ f, loop cx (f + k) st = loop cx f st'

theorem R_finish (st : St) (s2 s' : Core.State) (h : R st s2) (hf : Core.stepFinish s2 = .ok s') : R st s' := by
  obtain ⟨_, hm, hv⟩ := Core.stepFinish_ok s2 s' hf
  obtain ⟨a, b, c, d, e⟩ := h
  exact ⟨by rw [hm]; exact a, by rw [hm]; exact b, by rw [hv]; exact c, by rw [hm]; exact d, by rw [hm]; exact e⟩

/-- the induction over the instructions, given the one-instruction simulation for every instruction of the script;
    the invariant carries where the two cursors are (`script_index + 1 = opcode_pos`, `pc` = the bytes of the
    instructions done) so that an instruction is simulated knowing its `op_code_stops` entry -/
theorem sim_loop (cx : Btclib.Ctx) (script : Bytes)
    (hop : ∀ (st : St) (cst : Core.State) (op : Op) (rest : Bytes), R st cst →
      st.stack.length + st.alt.length ≤ 1000 → getOp st.s = some (op, rest) → op ∈ (parse script).1 →
      -1 ≤ st.scriptIndex →
      ((spansOf (parse script).1 0).map (·.2.2))[(st.scriptIndex + 1).toNat]? = some (cst.pos + op.raw.length) →
      SimOp cx script st cst op rest) :
    ∀ (fuelP : Nat) (s : Bytes) (st : St) (cst : Core.State) (fuel : Nat) (done : List Op),
      st.s = s → R st cst → st.stack.length + st.alt.length ≤ 1000 → s.length ≤ fuelP →
      (parse script).1 = done ++ (parseOps fuelP s).1 → st.scriptIndex + 1 = (done.length : Int) →
      cst.pos = (serializeOps done).length →
      fuel ≥ 3 * (parseOps fuelP s).1.length + 1 →
      loop cx fuel st = finish (Core.run (coreCx cx script) (parseOps fuelP s).1 cst) (parseOps fuelP s).2 := by
  intro fuelP
  induction fuelP with
  | zero =>
    intro s st cst fuel done hs hR hsz hlen _ _ _ hfuel
    have : s = [] := List.length_eq_zero_iff.mp (by omega)
    subst this
    simp only [parseOps, Core.run, finish, List.isEmpty_nil, Bool.not_true, Bool.false_eq_true, if_false]
    obtain ⟨f, rfl⟩ : ∃ f, fuel = f + 1 := ⟨fuel - 1, by simp [parseOps] at hfuel; omega⟩
    obtain ⟨h1, h2, h3, _⟩ := hR
    have hsz' : ¬ (st.stack.length + st.alt.length > 1000) := by omega
    simp only [loop, iter, hs, Gen.Script.N_MAX_STACK_SIZE, hsz', if_false, h3, List.length_append, List.length_cons,
      List.length_nil]
    cases hv : cst.vfExec with
    | nil => simp [h1]
    | cons b l => simp
  | succ fp ih =>
    intro s st cst fuel done hs hR hsz hlen hdone hidx hpos hfuel
    unfold parseOps at hdone hfuel ⊢
    cases hg : getOp s with
    | none =>
      simp only [hg] at hdone hfuel ⊢
      simp only [Core.run, finish]
      obtain ⟨f, rfl⟩ : ∃ f, fuel = f + 1 := ⟨fuel - 1, by simp at hfuel; omega⟩
      rcases getOp_none s hg with rfl | ⟨c, r, rfl, hc1, hc2⟩
      · obtain ⟨h1, h2, h3, _⟩ := hR
        have hsz' : ¬ (st.stack.length + st.alt.length > 1000) := by omega
        simp only [List.isEmpty_nil, Bool.not_true, Bool.false_eq_true, if_false]
        simp only [loop, iter, hs, Gen.Script.N_MAX_STACK_SIZE, hsz', if_false, h3, List.length_append, List.length_cons,
          List.length_nil]
        cases hv : cst.vfExec with
        | nil => simp [h1]
        | cons b l => simp
      · -- a push running past the end: `read_push_data` refuses, Core's GetOp fails (BAD_OPCODE)
        simp only [List.isEmpty_cons, Bool.not_false, if_true]
        apply loop_iter_none
        have hsz' : ¬ (st.stack.length + st.alt.length > 1000) := by omega
        have hrp := readPush_none c r hg
        simp [iter, hs, Gen.Script.N_MAX_STACK_SIZE, hsz', hc1, hc2, hrp]
    | some p =>
      obtain ⟨op, rest⟩ := p
      simp only [hg] at hdone hfuel ⊢
      have hin : op ∈ (parse script).1 := by rw [hdone]; simp
      have hstop : ((spansOf (parse script).1 0).map (·.2.2))[(st.scriptIndex + 1).toNat]?
          = some (cst.pos + op.raw.length) := by
        have e : (st.scriptIndex + 1).toNat = done.length := by omega
        rw [e, hdone, stops_get, hpos]; simp
      have hso := hop st cst op rest hR hsz (by rw [hs]; exact hg) hin (by omega) hstop
      simp only [Core.run, Core.step]
      unfold SimOp at hso
      cases hpre : (Core.stepChecks (coreCx cx script) cst op).bind
          (fun s1 => Core.stepExec (coreCx cx script) s1 op (cst.vfExec.all id)) with
      | error e =>
        rw [hpre] at hso
        have : (Core.stepChecks (coreCx cx script) cst op).bind
            (fun s1 => (Core.stepExec (coreCx cx script) s1 op (cst.vfExec.all id)).bind Core.stepFinish) = .error e := by
          cases h1 : Core.stepChecks (coreCx cx script) cst op with
          | error e1 => simp [h1, Except.bind] at hpre ⊢; exact hpre
          | ok s1 =>
            simp only [h1, Except.bind] at hpre ⊢
            rw [hpre]
        rw [this]
        simp only [Except.bind, finish]
        exact hso fuel
      | ok s2 =>
        rw [hpre] at hso
        obtain ⟨k, st', hk1, hk3, hR', hs', hidx', hloop⟩ := hso
        have hs2pos : s2.pos = cst.pos + op.raw.length := by
          cases h1 : Core.stepChecks (coreCx cx script) cst op with
          | error e1 => simp [h1, Except.bind] at hpre
          | ok s1 =>
            simp only [h1, Except.bind] at hpre
            rw [(stepExec_pos _ s1 s2 op _ hpre).1, (stepChecks_pos _ cst s1 op h1).1]
        have hstep : (Core.stepChecks (coreCx cx script) cst op).bind
            (fun s1 => (Core.stepExec (coreCx cx script) s1 op (cst.vfExec.all id)).bind Core.stepFinish)
              = Core.stepFinish s2 := by
          cases h1 : Core.stepChecks (coreCx cx script) cst op with
          | error e1 => simp [h1, Except.bind] at hpre
          | ok s1 =>
            simp only [h1, Except.bind] at hpre ⊢
            rw [hpre]
        rw [hstep]
        have hrestlen := (getOp_spec s op rest hg).2
        obtain ⟨f, rfl⟩ : ∃ f, fuel = f + k := ⟨fuel - k, by simp only [List.length_cons] at hfuel; omega⟩
        rw [hloop f]
        cases hfin : Core.stepFinish s2 with
        | error e =>
          simp only [Except.bind, finish]
          have : st'.stack.length + st'.alt.length > 1000 := by
            unfold Core.stepFinish at hfin
            split at hfin
            · rename_i h; rw [hR'.1, hR'.2.1]; simpa [Core.MAX_STACK_SIZE] using h
            · cases hfin
          exact oversize_refused cx st' this f
        | ok s' =>
          simp only [Except.bind]
          have hb := (Core.stepFinish_ok s2 s' hfin).1
          apply ih rest st' s' f (done ++ [op]) hs' (R_finish st' s2 s' hR' hfin)
          · rw [hR'.1, hR'.2.1]; simpa [Core.MAX_STACK_SIZE] using hb
          · omega
          · rw [hdone]; simp
          · rw [hidx']; simp only [List.length_append, List.length_cons, List.length_nil]; omega
          · rw [(stepFinish_pos s2 s' hfin).1, hs2pos, hpos]
            simp [serializeOps, List.flatMap_append]
          · simp only [List.length_cons] at hfuel; omega
/-! ### non-push op codes: the frame around the switch -/

theorem sv_counted (cx : Btclib.Ctx) (sc : Bytes) :
    ((coreCx cx sc).sigversion == Core.SigVersion.BASE || (coreCx cx sc).sigversion == Core.SigVersion.WITNESS_V0) = true := by
  unfold coreCx; cases cx.segwit <;> rfl

theorem getOp_nonpush (c : UInt8) (r : Bytes) (op : Op) (rest : Bytes) (h : getOp (c :: r) = some (op, rest))
    (hc : ¬ (0 < c.toNat ∧ c.toNat ≤ 78)) : op = ⟨c.toNat, [], [c]⟩ ∧ rest = r := by
  simp only [getOp] at h
  have : c.toNat = 0 ∨ c.toNat > 78 := by omega
  simp only [this, if_true] at h
  cases h; exact ⟨rfl, rfl⟩

/-- a pass of the loop over a non-push byte, in normal form -/
theorem iter_nonpush (cx : Btclib.Ctx) (stack alt : List Bytes) (cond : List Bool) (cnt idx : Int) (cso : Nat) (c : UInt8) (r : Bytes)
    (hsz : stack.length + alt.length ≤ 1000) (hc : ¬ (0 < c.toNat ∧ c.toNat ≤ 78)) :
    iter cx { stack := stack, alt := alt, cond := cond, opCodeNum := cnt, scriptIndex := idx, s := c :: r, codesepOffset := cso } =
      match (if c.toNat > 96 then (if cnt + 1 > 201 then none else some (cnt + 1)) else some cnt) with
      | none => none
      | some cnt' =>
        if Gen.Script.DISABLED_OP_CODES.contains c.toNat then none
        else if !(cond.all id) && !(decide (99 ≤ c.toNat) && decide (c.toNat < 105)) then
          some (.more { stack := stack, alt := alt, cond := cond, opCodeNum := cnt', scriptIndex := idx + 1, s := r, codesepOffset := cso })
        else dispatch cx c.toNat { stack := stack, alt := alt, cond := cond, opCodeNum := cnt', scriptIndex := idx + 1, s := r, codesepOffset := cso } := by
  have hsz' : ¬ (stack.length + alt.length > 1000) := by omega
  simp only [iter, Gen.Script.N_MAX_STACK_SIZE, hsz', if_false, hc, count_spec,
    Gen.Script.EVALUATED_WHEN_UNEXECUTED_LO, Gen.Script.EVALUATED_WHEN_UNEXECUTED_HI]
  cases (if c.toNat > 96 then (if cnt + 1 > 201 then none else some (cnt + 1)) else some cnt : Option Int) <;> rfl


/-- the dispatch of an evaluated non-push op code against Core's switch, one pass -/
def DispOk (cx : Btclib.Ctx) (sc : Bytes) (t : Nat) (st1 : St) (s1 : Core.State) (op : Op) (fExec : Bool) : Prop :=
  match Core.stepExec (coreCx cx sc) s1 op fExec with
  | .error _ => dispatch cx t st1 = none
  | .ok s2 => ∃ st', dispatch cx t st1 = some (.more st') ∧ R st' s2 ∧ st'.s = st1.s ∧ st'.scriptIndex = st1.scriptIndex

/-- after the checks: either both skip the op code (untaken branch, outside OP_IF..OP_ENDIF) or both dispatch -/
theorem frame_tail (cx : Btclib.Ctx) (sc : Bytes) (st0 st1 : St) (s1 : Core.State) (t : Nat) (op : Op) (fExec : Bool)
    (hop : op.code = t) (ht : ¬ (0 < t ∧ t ≤ 78))
    (hit : iter cx st0 = if (!st1.cond.all id && !(decide (99 ≤ t) && decide (t < 105))) = true then some (.more st1)
                          else dispatch cx t st1)
    (hR1 : R st1 s1) (hf : st1.cond.all id = fExec) (hidx : st1.scriptIndex = st0.scriptIndex + 1)
    (hdisp : (fExec = true ∨ (99 ≤ t ∧ t < 105)) → DispOk cx sc t st1 s1 op fExec) :
    match Core.stepExec (coreCx cx sc) s1 op fExec with
    | .error _ => ∀ f, loop cx f st0 = .refused
    | .ok s2 => ∃ k st', 1 ≤ k ∧ k ≤ 3 ∧ R st' s2 ∧ st'.s = st1.s ∧ st'.scriptIndex = st0.scriptIndex + 1 ∧
        ∀ f, loop cx (f + k) st0 = loop cx f st' := by
  by_cases hskip : fExec = false ∧ ¬ (99 ≤ t ∧ t < 105)
  · obtain ⟨hfe, hr⟩ := hskip
    have hrb : (decide (99 ≤ t) && decide (t < 105)) = false := by
      simp only [Bool.and_eq_false_imp, decide_eq_true_eq, decide_eq_false_iff_not]; omega
    have hse : Core.stepExec (coreCx cx sc) s1 op fExec = .ok s1 := by
      unfold Core.stepExec
      have hr2 : Core.inConditionalRange op.code = false := by
        rw [hop]; unfold Core.inConditionalRange Core.OP_IF Core.OP_ENDIF
        simp only [Bool.and_eq_false_imp, decide_eq_true_eq, decide_eq_false_iff_not]; omega
      simp [hfe, hr2]
    rw [hse]
    refine ⟨1, st1, by omega, by omega, hR1, rfl, hidx, ?_⟩
    intro f
    apply loop_iter_more
    rw [hit, hf, hfe, hrb]; rfl
  · have hd := hdisp (by
      by_cases hfe : fExec = true
      · left; exact hfe
      · right
        have : fExec = false := by simpa using hfe
        by_cases hr : 99 ≤ t ∧ t < 105
        · exact hr
        · exact absurd ⟨this, hr⟩ hskip)
    have hnot : ¬ ((!st1.cond.all id && !(decide (99 ≤ t) && decide (t < 105))) = true) := by
      rw [hf]
      intro hh
      simp only [Bool.and_eq_true, Bool.not_eq_true', Bool.and_eq_false_imp, decide_eq_true_eq,
        decide_eq_false_iff_not] at hh
      apply hskip
      exact ⟨hh.1, by omega⟩
    rw [if_neg hnot] at hit
    unfold DispOk at hd
    cases hse : Core.stepExec (coreCx cx sc) s1 op fExec with
    | error e =>
      rw [hse] at hd
      exact loop_iter_none cx st0 (by rw [hit]; exact hd)
    | ok s2 =>
      rw [hse] at hd
      obtain ⟨st', hd1, hd2, hd3, hd4⟩ := hd
      exact ⟨1, st', by omega, by omega, hd2, hd3, by rw [hd4, hidx], fun f => loop_iter_more cx st0 st' (by rw [hit]; exact hd1) f⟩

/-- frame: everything `_run_ops` and `EvalScript` do around the switch for a non-push op code (count, disabled set,
    skipping in an untaken branch) agrees; what is left is the dispatch -/
theorem sim_nonpush (cx : Btclib.Ctx) (sc : Bytes) (st : St) (cst : Core.State) (c : UInt8) (r : Bytes)
    (hR : R st cst) (hsz : st.stack.length + st.alt.length ≤ 1000) (hs : st.s = c :: r)
    (hc : ¬ (0 < c.toNat ∧ c.toNat ≤ 78))
    (hcs : (c.toNat == Core.OP_CODESEPARATOR && (coreCx cx sc).sigversion == Core.SigVersion.BASE &&
            Core.has (coreCx cx sc).flags Core.FLAG_CONST_SCRIPTCODE) = false)
    (hdisp : ∀ (st1 : St) (s1 : Core.State), R st1 s1 → st1.s = r → st1.stack = st.stack → st1.alt = st.alt →
        st1.cond = st.cond → s1.vfExec = cst.vfExec → s1.m.stack = cst.m.stack → s1.m.alt = cst.m.alt →
        st1.scriptIndex = st.scriptIndex + 1 → s1.pos = cst.pos + 1 →
        (cst.vfExec.all id = true ∨ (99 ≤ c.toNat ∧ c.toNat < 105)) →
        DispOk cx sc c.toNat st1 s1 ⟨c.toNat, [], [c]⟩ (cst.vfExec.all id)) :
    SimOp cx sc st cst ⟨c.toNat, [], [c]⟩ r := by
  obtain ⟨stack, alt, cond, cnt, idx, s, cso⟩ := st
  obtain ⟨h1, h2, h3, h4, h5⟩ := hR
  simp only at h1 h2 h3 h4 hs hsz hdisp
  subst hs
  have hall : cond.all id = cst.vfExec.all id := by rw [h3, all_snoc_true]
  have hit := iter_nonpush cx stack alt cond cnt idx cso c r hsz hc
  unfold SimOp
  simp only [Core.stepChecks, sv_counted, Bool.true_and, List.length_nil, Core.MAX_SCRIPT_ELEMENT_SIZE,
    show ¬ (0 > 520) by omega, if_false, List.length_cons]
  simp only [hcs, Bool.false_eq_true, if_false]
  -- the count
  by_cases hcnt : c.toNat > 96
  · have hcnt2 : c.toNat > 0x60 := hcnt
    by_cases hover : cnt + 1 > 201
    · have : cst.m.opCount + 1 > Core.MAX_OPS_PER_SCRIPT := by
        simp only [Core.MAX_OPS_PER_SCRIPT]; rw [h4] at hover; omega
      simp only [hcnt2, decide_true, this, Bool.and_self, if_true, Except.bind]
      apply loop_iter_none
      rw [hit]; simp [hcnt, hover]
    · have hno : ¬ (cst.m.opCount + 1 > Core.MAX_OPS_PER_SCRIPT) := by
        simp only [Core.MAX_OPS_PER_SCRIPT]; rw [h4] at hover; omega
      simp only [hcnt2, decide_true, hno, decide_false, Bool.and_false, Bool.false_eq_true, if_false, if_true]
      simp only [hcnt, hover, if_true, if_false] at hit
      by_cases hdis : Core.isDisabled c.toNat = true
      · have hd2 : Gen.Script.DISABLED_OP_CODES.contains c.toNat = true := hdis
        simp only [hdis, if_true, Except.bind]
        apply loop_iter_none
        rw [hit, if_pos hd2]
      · have hd2 : Gen.Script.DISABLED_OP_CODES.contains c.toNat = false := by
          have : Core.isDisabled c.toNat = false := by simpa using hdis
          exact this
        simp only [hdis, Bool.false_eq_true, if_false, Except.bind]
        simp only [hd2, Bool.false_eq_true, if_false] at hit
        have hc4 : cnt + 1 = ((cst.m.opCount + 1 : Nat) : Int) := by omega
        refine frame_tail cx sc
          { stack := stack, alt := alt, cond := cond, opCodeNum := cnt, scriptIndex := idx, s := c :: r, codesepOffset := cso }
          { stack := stack, alt := alt, cond := cond, opCodeNum := cnt + 1, scriptIndex := idx + 1, s := r, codesepOffset := cso }
          _ c.toNat ⟨c.toNat, [], [c]⟩ (cst.vfExec.all id) rfl hc hit ?_ hall rfl ?_
        · exact ⟨h1, h2, h3, hc4, h5⟩
        · intro hh
          exact hdisp _ _ ⟨h1, h2, h3, hc4, h5⟩ rfl rfl rfl rfl rfl rfl rfl rfl rfl hh
  · have hcnt2 : ¬ (c.toNat > 0x60) := hcnt
    simp only [hcnt2, decide_false, Bool.false_and, Bool.false_eq_true, if_false]
    simp only [hcnt, if_false] at hit
    by_cases hdis : Core.isDisabled c.toNat = true
    · have hd2 : Gen.Script.DISABLED_OP_CODES.contains c.toNat = true := hdis
      simp only [hdis, if_true, Except.bind]
      apply loop_iter_none
      rw [hit, if_pos hd2]
    · have hd2 : Gen.Script.DISABLED_OP_CODES.contains c.toNat = false := by
        have : Core.isDisabled c.toNat = false := by simpa using hdis
        exact this
      simp only [hdis, Bool.false_eq_true, if_false, Except.bind]
      simp only [hd2, Bool.false_eq_true, if_false] at hit
      refine frame_tail cx sc
        { stack := stack, alt := alt, cond := cond, opCodeNum := cnt, scriptIndex := idx, s := c :: r, codesepOffset := cso }
        { stack := stack, alt := alt, cond := cond, opCodeNum := cnt, scriptIndex := idx + 1, s := r, codesepOffset := cso }
        _ c.toNat ⟨c.toNat, [], [c]⟩ (cst.vfExec.all id) rfl hc hit ?_ hall rfl ?_
      · exact ⟨h1, h2, h3, h4, h5⟩
      · intro hh
        exact hdisp _ _ ⟨h1, h2, h3, h4, h5⟩ rfl rfl rfl rfl rfl rfl rfl rfl rfl hh

/-! ### the switch, family by family -/

def isExpand : Option OpRes → Bool
  | some (.expand _ _ _) => true
  | _ => false

theorem isExpand_un (cx : Btclib.Ctx) (stack alt : List Bytes) (f : Int → Bytes) : isExpand (un cx stack alt f) = false := by
  rcases stack with _ | ⟨a, r⟩
  · rfl
  · simp only [un]; cases Btclib.num cx a <;> rfl

theorem isExpand_bin (cx : Btclib.Ctx) (stack alt : List Bytes) (f : Int → Int → Bytes) :
    isExpand (bin cx stack alt f) = false := by
  rcases stack with _ | ⟨b, _ | ⟨a, r⟩⟩
  · rfl
  · rfl
  · simp only [bin]
    cases Btclib.num cx b <;> cases Btclib.num cx a <;> rfl

/-- what the generic operation lemma needs of an op code besides the op-level refinement -/
def WellOp (cx : Btclib.Ctx) (sc : Bytes) (t : Nat) : Prop :=
  ∀ stack alt, (Core.execStackOp (coreCx cx sc) stack alt t).isSome = true ∧ isExpand (operation cx t stack alt) = false

theorem well_stack (cx : Btclib.Ctx) (sc : Bytes) (t : Nat) (h : t ∈ stackFamily) : WellOp cx sc t := by
  simp only [stackFamily, List.mem_cons, List.mem_nil_iff, or_false] at h
  intro stack alt
  rcases h with rfl | rfl | rfl | rfl | rfl | rfl | rfl | rfl | rfl | rfl | rfl | rfl | rfl | rfl | rfl | rfl | rfl | rfl | rfl | rfl | rfl
  all_goals
    rcases stack with _ | ⟨a, _ | ⟨b, _ | ⟨c, _ | ⟨d, _ | ⟨e, _ | ⟨f, r⟩⟩⟩⟩⟩⟩ <;>
    rcases alt with _ | ⟨x, y⟩ <;> exact ⟨rfl, rfl⟩

theorem well_arith (cx : Btclib.Ctx) (sc : Bytes) (t : Nat) (h : t ∈ arithFamily) : WellOp cx sc t := by
  simp only [arithFamily, List.mem_cons, List.mem_nil_iff, or_false] at h
  intro stack alt
  rcases h with rfl | rfl | rfl | rfl | rfl | rfl | rfl | rfl | rfl | rfl | rfl | rfl | rfl | rfl | rfl | rfl | rfl | rfl
  all_goals first
    | exact ⟨rfl, isExpand_un cx stack alt _⟩
    | exact ⟨rfl, isExpand_bin cx stack alt _⟩


theorem well_misc (cx : Btclib.Ctx) (sc : Bytes) (t : Nat) (h : t ∈ miscFamily ∨ t = 0x79 ∨ t = 0x7a) : WellOp cx sc t := by
  simp only [miscFamily, List.mem_cons, List.mem_nil_iff, or_false] at h
  intro stack alt
  rcases h with (rfl | rfl | rfl | rfl | rfl | rfl | rfl) | rfl | rfl
  · -- OP_VERIFY
    rcases stack with _ | ⟨a, r⟩
    · exact ⟨rfl, rfl⟩
    · constructor
      · show (if Core.castToBool a then some (Except.ok (r, alt)) else some (Except.error Core.ScriptError.VERIFY) :
            Option (Core.R (List Bytes × List Bytes))).isSome = true
        split <;> rfl
      · show isExpand (if toBool a then some (.done r alt) else none) = false
        split <;> rfl
  · -- OP_IFDUP
    rcases stack with _ | ⟨a, r⟩ <;> exact ⟨rfl, rfl⟩
  · exact ⟨rfl, rfl⟩
  · exact ⟨rfl, rfl⟩
  · rcases stack with _ | ⟨a, r⟩ <;> exact ⟨rfl, rfl⟩
  · -- OP_WITHIN
    rcases stack with _ | ⟨c, _ | ⟨b, _ | ⟨a, r⟩⟩⟩
    · exact ⟨rfl, rfl⟩
    · exact ⟨rfl, rfl⟩
    · exact ⟨rfl, rfl⟩
    · refine ⟨rfl, ?_⟩
      show isExpand (do
        let mx ← Btclib.num cx c
        let mn ← Btclib.num cx b
        let x ← Btclib.num cx a
        pure (.done (Btclib.boolBytes (decide (mn ≤ x) && decide (x < mx)) :: r) alt)) = false
      cases Btclib.num cx c <;> cases Btclib.num cx b <;> cases Btclib.num cx a <;> rfl
  · -- OP_EQUAL
    rcases stack with _ | ⟨a, _ | ⟨b, r⟩⟩ <;> exact ⟨rfl, rfl⟩
  · -- OP_PICK
    refine ⟨rfl, ?_⟩
    rcases stack with _ | ⟨top, r⟩
    · rfl
    · show isExpand (do
          let n ← Btclib.num cx top
          if n < 0 then none else match r[n.toNat]? with | some v => pure (.done (v :: r) alt) | none => none) = false
      cases Btclib.num cx top with
      | none => rfl
      | some n =>
        show isExpand (if n < 0 then none else match r[n.toNat]? with | some v => some (.done (v :: r) alt) | none => none) = false
        split
        · rfl
        · cases r[n.toNat]? <;> rfl
  · -- OP_ROLL
    refine ⟨rfl, ?_⟩
    rcases stack with _ | ⟨top, r⟩
    · rfl
    · show isExpand (do
          let n ← Btclib.num cx top
          if n < 0 then none
          else if (r.length : Int) < n + 1 then none
          else if n == 0 then pure (.done r alt)
          else pure (.done (r.getD n.toNat [] :: Core.eraseAt r n.toNat) alt)) = false
      cases Btclib.num cx top with
      | none => rfl
      | some n =>
        show isExpand (if n < 0 then none else if (r.length : Int) < n + 1 then none
          else if n == 0 then some (.done r alt) else some (.done (r.getD n.toNat [] :: Core.eraseAt r n.toNat) alt)) = false
        split
        · rfl
        · split
          · rfl
          · split <;> rfl


/-- an OPERATIONS entry that does not expand, against its case of the switch, in an executing branch -/
theorem disp_operation (cx : Btclib.Ctx) (sc : Bytes) (t : Nat) (raw : Bytes) (st1 : St) (s1 : Core.State)
    (hk : kind t = .operation) (hne : ¬ (t = 0xad ∨ t = 0xaf)) (hnr : Core.inConditionalRange t = false) (hnp : ¬ t ≤ 0x4e)
    (href : ∀ stack alt, btRes (operation cx t stack alt) = coreRes (Core.execStackOp (coreCx cx sc) stack alt t))
    (hw : WellOp cx sc t) (hR : R st1 s1) :
    DispOk cx sc t st1 s1 ⟨t, [], raw⟩ true := by
  obtain ⟨h1, h2, h3, h4, h5⟩ := hR
  have hnp' : (decide (t ≤ 0x4e)) = false := by simpa using hnp
  unfold DispOk Core.stepExec
  simp only [Bool.true_and, hnp', Bool.false_eq_true, if_false, hnr, if_true]
  obtain ⟨hs, hx⟩ := hw s1.m.stack s1.m.alt
  have hr := href s1.m.stack s1.m.alt
  unfold Core.execPlain
  cases he : Core.execStackOp (coreCx cx sc) s1.m.stack s1.m.alt t with
  | none => rw [he] at hs; cases hs
  | some r =>
    simp only
    rw [he] at hr
    unfold dispatch
    simp only [hk, hne, if_false, h1, h2]
    cases ho : operation cx t s1.m.stack s1.m.alt with
    | none =>
      rw [ho] at hr
      cases r with
      | error e => rfl
      | ok p => simp [btRes, coreRes] at hr
    | some res =>
      rw [ho] at hr hx
      cases res with
      | expand s a rr => cases hx
      | done s a =>
        cases r with
        | error e => simp [btRes, coreRes] at hr
        | ok p =>
          simp only [btRes, coreRes, Option.some.injEq] at hr
          obtain ⟨s', a'⟩ := p
          cases hr
          simp only [Except.map]
          exact ⟨_, rfl, ⟨rfl, rfl, h3, h4, h5⟩, rfl, rfl⟩


/-- OP_0 and OP_1..OP_16 -/
theorem disp_digit (cx : Btclib.Ctx) (sc : Bytes) (t : Nat) (raw : Bytes) (st1 : St) (s1 : Core.State)
    (ht : t = 0 ∨ (0x51 ≤ t ∧ t ≤ 0x60)) (hR : R st1 s1) :
    DispOk cx sc t st1 s1 ⟨t, [], raw⟩ true := by
  obtain ⟨h1, h2, h3, h4, h5⟩ := hR
  have hcases : t = 0 ∨ t = 0x51 ∨ t = 0x52 ∨ t = 0x53 ∨ t = 0x54 ∨ t = 0x55 ∨ t = 0x56 ∨ t = 0x57 ∨ t = 0x58 ∨ t = 0x59
      ∨ t = 0x5a ∨ t = 0x5b ∨ t = 0x5c ∨ t = 0x5d ∨ t = 0x5e ∨ t = 0x5f ∨ t = 0x60 := by omega
  unfold DispOk
  rcases hcases with rfl | rfl | rfl | rfl | rfl | rfl | rfl | rfl | rfl | rfl | rfl | rfl | rfl | rfl | rfl | rfl | rfl
  · -- OP_0: Core's push path, the empty vector is minimal under op code 0
    have : Core.stepExec (coreCx cx sc) s1 ⟨0, [], raw⟩ true
        = .ok { s1 with m := { s1.m with stack := [] :: s1.m.stack } } := by
      unfold Core.stepExec
      simp [Core.checkMinimalPush]
    rw [this]
    exact ⟨{ st1 with stack := enc ((0 : Nat) : Int) :: st1.stack }, rfl, ⟨by simp only [h1]; rfl, h2, h3, h4, h5⟩, rfl, rfl⟩
  all_goals
    (exact ⟨{ st1 with stack := _ :: st1.stack }, rfl,
      ⟨by simp only [h1]; exact congrArg (· :: s1.m.stack) (enc_eq _), h2, h3, h4, h5⟩, rfl, rfl⟩)


def nopNs : List Nat := [0xb0, 0xb3, 0xb4, 0xb5, 0xb6, 0xb7, 0xb8, 0xb9]

theorem nopN_exec (cx : Core.Ctx) (stack alt : List Bytes) (t : Nat) (h : t ∈ nopNs) :
    Core.execStackOp cx stack alt t =
      (if Core.has cx.flags Core.FLAG_DISCOURAGE_UPGRADABLE_NOPS then some (.error .DISCOURAGE_UPGRADABLE_NOPS)
       else some (.ok (stack, alt))) ∧ kind t = .nopN ∧ Core.inConditionalRange t = false ∧ ¬ t ≤ 0x4e := by
  simp only [nopNs, List.mem_cons, List.mem_nil_iff, or_false] at h
  rcases h with rfl | rfl | rfl | rfl | rfl | rfl | rfl | rfl <;> exact ⟨rfl, by decide, by decide, by decide⟩

/-- OP_NOP1, OP_NOP4..OP_NOP10 -/
theorem disp_nopN (cx : Btclib.Ctx) (sc : Bytes) (t : Nat) (raw : Bytes) (st1 : St) (s1 : Core.State)
    (ht : t ∈ nopNs) (hR : R st1 s1) :
    DispOk cx sc t st1 s1 ⟨t, [], raw⟩ true := by
  obtain ⟨he, hk, hnr, hnp⟩ := nopN_exec (coreCx cx sc) s1.m.stack s1.m.alt t ht
  have hnp' : (decide (t ≤ 0x4e)) = false := by simpa using hnp
  have hfl : (coreCx cx sc).flags = cx.flags := rfl
  unfold DispOk Core.stepExec Core.execPlain
  simp only [Bool.true_and, hnp', Bool.false_eq_true, if_false, hnr, if_true, he, hfl]
  unfold dispatch
  simp only [hk]
  by_cases hf : Core.has cx.flags Core.FLAG_DISCOURAGE_UPGRADABLE_NOPS = true
  · simp [hf, Except.map]
  · have hf' : Core.has cx.flags Core.FLAG_DISCOURAGE_UPGRADABLE_NOPS = false := by simpa using hf
    simp only [hf', Bool.false_eq_true, if_false, Except.map]
    exact ⟨st1, rfl, hR, rfl, rfl⟩

/-- OP_NOP -/
theorem disp_nop (cx : Btclib.Ctx) (sc : Bytes) (raw : Bytes) (st1 : St) (s1 : Core.State) (hR : R st1 s1) :
    DispOk cx sc 0x61 st1 s1 ⟨0x61, [], raw⟩ true :=
  ⟨st1, rfl, hR, rfl, rfl⟩


/-- OP_CHECKLOCKTIMEVERIFY / OP_CHECKSEQUENCEVERIFY -/
theorem disp_locktime (cx : Btclib.Ctx) (sc : Bytes) (raw : Bytes) (st1 : St) (s1 : Core.State) (hR : R st1 s1) :
    DispOk cx sc 0xb1 st1 s1 ⟨0xb1, [], raw⟩ true ∧ DispOk cx sc 0xb2 st1 s1 ⟨0xb2, [], raw⟩ true := by
  obtain ⟨h1, h2, h3, h4, h5⟩ := hR
  constructor
  · have hc := cltv_core cx sc s1.m.stack
    have e1 : Core.stepExec (coreCx cx sc) s1 ⟨0xb1, [], raw⟩ true
        = ((Core.execCltv (coreCx cx sc) s1.m.stack).map fun s => (s, s1.m.alt)).map
            (fun (p : List Bytes × List Bytes) => { s1 with m := { s1.m with stack := p.1, alt := p.2 } }) := by
      cases h : Core.execCltv (coreCx cx sc) s1.m.stack <;>
        simp [Core.stepExec, Core.execPlain, Core.inConditionalRange, Core.OP_IF, Core.OP_ENDIF, Core.execStackOp, h, Except.map]
    have e2 : dispatch cx 0xb1 st1 = (cltv cx st1.stack).map fun _ => .more st1 := rfl
    unfold DispOk
    rw [e1, e2, h1]
    cases h : Core.execCltv (coreCx cx sc) s1.m.stack with
    | error e =>
      rw [h] at hc
      cases hb : cltv cx s1.m.stack with
      | none => rfl
      | some u => rw [hb] at hc; simp [okOpt] at hc
    | ok s =>
      rw [h] at hc
      cases hb : cltv cx s1.m.stack with
      | none => rw [hb] at hc; simp [okOpt] at hc
      | some u =>
        rw [hb] at hc
        simp only [okOpt, Option.map_some, Option.some.injEq] at hc
        subst hc
        exact ⟨st1, rfl, ⟨h1, h2, h3, h4, h5⟩, rfl, rfl⟩
  · have hc := csv_core cx sc s1.m.stack
    have e1 : Core.stepExec (coreCx cx sc) s1 ⟨0xb2, [], raw⟩ true
        = ((Core.execCsv (coreCx cx sc) s1.m.stack).map fun s => (s, s1.m.alt)).map
            (fun (p : List Bytes × List Bytes) => { s1 with m := { s1.m with stack := p.1, alt := p.2 } }) := by
      cases h : Core.execCsv (coreCx cx sc) s1.m.stack <;>
        simp [Core.stepExec, Core.execPlain, Core.inConditionalRange, Core.OP_IF, Core.OP_ENDIF, Core.execStackOp, h, Except.map]
    have e2 : dispatch cx 0xb2 st1 = (csv cx st1.stack).map fun _ => .more st1 := rfl
    unfold DispOk
    rw [e1, e2, h1]
    cases h : Core.execCsv (coreCx cx sc) s1.m.stack with
    | error e =>
      rw [h] at hc
      cases hb : csv cx s1.m.stack with
      | none => rfl
      | some u => rw [hb] at hc; simp [okOpt] at hc
    | ok s =>
      rw [h] at hc
      cases hb : csv cx s1.m.stack with
      | none => rw [hb] at hc; simp [okOpt] at hc
      | some u =>
        rw [hb] at hc
        simp only [okOpt, Option.map_some, Option.some.injEq] at hc
        subst hc
        exact ⟨st1, rfl, ⟨h1, h2, h3, h4, h5⟩, rfl, rfl⟩


theorem snoc_true_cons (l : List Bool) : ∃ c2 r, l ++ [true] = c2 :: r := by
  cases l with
  | nil => exact ⟨true, [], rfl⟩
  | cons x xs => exact ⟨x, xs ++ [true], rfl⟩

theorem minimalif_pred (top : Bytes) :
    (!(top == [] || top == [1])) = (decide (top.length > 1) || (top.length == 1 && top != [1])) := by
  rcases top with _ | ⟨x, _ | ⟨y, r⟩⟩
  · rfl
  · by_cases h : x = 1 <;> simp [h, bne]
  · simp

/-- OP_IF, OP_NOTIF, OP_ELSE, OP_ENDIF (and OP_VERIF / OP_VERNOTIF), executing or not -/
theorem disp_conditional (cx : Btclib.Ctx) (sc : Bytes) (t : Nat) (raw : Bytes) (st1 : St) (s1 : Core.State) (fExec : Bool)
    (ht : t = 0x63 ∨ t = 0x64 ∨ t = 0x67 ∨ t = 0x68 ∨ t = 0x65 ∨ t = 0x66) (hR : R st1 s1)
    (hfe : s1.vfExec.all id = fExec) :
    DispOk cx sc t st1 s1 ⟨t, [], raw⟩ fExec := by
  obtain ⟨h1, h2, h3, h4, h5⟩ := hR
  have hall : st1.cond.all id = fExec := by rw [h3, all_snoc_true]; exact hfe
  have hsv : ((coreCx cx sc).sigversion == Core.SigVersion.TAPSCRIPT) = false := by
    unfold coreCx; cases cx.segwit <;> rfl
  have hv0 : ((coreCx cx sc).sigversion == Core.SigVersion.WITNESS_V0) = cx.segwit := by
    unfold coreCx; cases cx.segwit <;> rfl
  have hfl : (coreCx cx sc).flags = cx.flags := rfl
  have hse : ∀ tt, (tt = 0x63 ∨ tt = 0x64 ∨ tt = 0x67 ∨ tt = 0x68 ∨ tt = 0x65 ∨ tt = 0x66) →
      Core.stepExec (coreCx cx sc) s1 ⟨tt, [], raw⟩ fExec = Core.execConditional (coreCx cx sc) s1 tt fExec := by
    intro tt htt
    unfold Core.stepExec
    have a : (decide (tt ≤ 0x4e)) = false := by
      rcases htt with rfl | rfl | rfl | rfl | rfl | rfl <;> rfl
    have b : Core.inConditionalRange tt = true := by
      rcases htt with rfl | rfl | rfl | rfl | rfl | rfl <;> rfl
    simp [a, b]
  unfold DispOk
  rw [hse t ht]
  rcases ht with rfl | rfl | rfl | rfl | rfl | rfl
  · -- OP_IF
    cases hf : fExec with
    | false =>
      rw [hf] at hall
      have e : Core.execConditional (coreCx cx sc) s1 0x63 false = .ok { s1 with vfExec := false :: s1.vfExec } := rfl
      rw [e]
      refine ⟨{ st1 with cond := false :: st1.cond }, ?_, ⟨h1, h2, by simp [h3], h4, h5⟩, rfl, rfl⟩
      simp [dispatch, kind, hall]
    | true =>
      rw [hf] at hall
      cases hst : s1.m.stack with
      | nil =>
        have e : Core.execConditional (coreCx cx sc) s1 0x63 true = .error .INVALID_STACK_OPERATION := by
          simp [Core.execConditional, Core.OP_IF, hst]
        rw [e]
        simp [dispatch, kind, hall, h1, hst]
      | cons top r =>
        by_cases hm : (cx.segwit && Core.has cx.flags Core.FLAG_MINIMALIF && !(top == [] || top == [1])) = true
        · have e : Core.execConditional (coreCx cx sc) s1 0x63 true = .error .MINIMALIF := by
            rw [minimalif_pred] at hm
            simp only [Core.execConditional, Core.OP_IF, Core.OP_NOTIF, true_or, if_true, hst, hsv, Bool.false_and,
              Bool.false_eq_true, if_false, hv0, hfl]
            simp only [hm, if_true]
          rw [e]
          simp [dispatch, kind, hall, h1, hst]
          simp at hm
          exact ⟨hm.1.1, hm.1.2, hm.2.1, hm.2.2⟩
        · have hm' : (cx.segwit && Core.has cx.flags Core.FLAG_MINIMALIF && !(top == [] || top == [1])) = false := by
            simpa using hm
          have e : Core.execConditional (coreCx cx sc) s1 0x63 true
              = .ok { s1 with m := { s1.m with stack := r }, vfExec := Core.castToBool top :: s1.vfExec } := by
            have hm2 := hm'
            rw [minimalif_pred] at hm2
            simp only [Core.execConditional, Core.OP_IF, Core.OP_NOTIF, true_or, if_true, hst, hsv, Bool.false_and,
              Bool.false_eq_true, if_false, hv0, hfl, hm2]
            simp
          rw [e]
          refine ⟨{ st1 with stack := r, cond := toBool top :: st1.cond }, ?_,
            ⟨rfl, h2, by simp [h3, toBool_eq_castToBool], h4, h5⟩, rfl, rfl⟩
          simp [dispatch, kind, hall, h1, hst]
          simpa using hm'
  · -- OP_NOTIF
    cases hf : fExec with
    | false =>
      rw [hf] at hall
      have e : Core.execConditional (coreCx cx sc) s1 0x64 false = .ok { s1 with vfExec := false :: s1.vfExec } := rfl
      rw [e]
      refine ⟨{ st1 with cond := false :: st1.cond }, ?_, ⟨h1, h2, by simp [h3], h4, h5⟩, rfl, rfl⟩
      simp [dispatch, kind, hall]
    | true =>
      rw [hf] at hall
      cases hst : s1.m.stack with
      | nil =>
        have e : Core.execConditional (coreCx cx sc) s1 0x64 true = .error .INVALID_STACK_OPERATION := by
          simp [Core.execConditional, Core.OP_IF, Core.OP_NOTIF, hst]
        rw [e]
        simp [dispatch, kind, hall, h1, hst]
      | cons top r =>
        by_cases hm : (cx.segwit && Core.has cx.flags Core.FLAG_MINIMALIF && !(top == [] || top == [1])) = true
        · have e : Core.execConditional (coreCx cx sc) s1 0x64 true = .error .MINIMALIF := by
            rw [minimalif_pred] at hm
            simp only [Core.execConditional, Core.OP_IF, Core.OP_NOTIF, Nat.reduceEqDiff, false_or, or_true, if_true, hst, hsv, Bool.false_and,
              Bool.false_eq_true, if_false, hv0, hfl]
            simp only [hm, if_true]
          rw [e]
          simp [dispatch, kind, hall, h1, hst]
          simp at hm
          exact ⟨hm.1.1, hm.1.2, hm.2.1, hm.2.2⟩
        · have hm' : (cx.segwit && Core.has cx.flags Core.FLAG_MINIMALIF && !(top == [] || top == [1])) = false := by
            simpa using hm
          have e : Core.execConditional (coreCx cx sc) s1 0x64 true
              = .ok { s1 with m := { s1.m with stack := r }, vfExec := (!Core.castToBool top) :: s1.vfExec } := by
            have hm2 := hm'
            rw [minimalif_pred] at hm2
            simp only [Core.execConditional, Core.OP_IF, Core.OP_NOTIF, Nat.reduceEqDiff, false_or, or_true, if_true, hst, hsv, Bool.false_and,
              Bool.false_eq_true, if_false, hv0, hfl, hm2]
          rw [e]
          refine ⟨{ st1 with stack := r, cond := (!toBool top) :: st1.cond }, ?_,
            ⟨rfl, h2, by simp [h3, toBool_eq_castToBool], h4, h5⟩, rfl, rfl⟩
          simp [dispatch, kind, hall, h1, hst]
          simpa using hm'
  · -- OP_ELSE
    have e : Core.execConditional (coreCx cx sc) s1 0x67 fExec
        = (match s1.vfExec with | [] => .error .UNBALANCED_CONDITIONAL | b :: r => .ok { s1 with vfExec := (!b) :: r }) := rfl
    rw [e]
    cases hv : s1.vfExec with
    | nil =>
      simp only
      have : st1.cond = [true] := by rw [h3, hv]; rfl
      simp [dispatch, kind, this]
    | cons b l =>
      simp only
      obtain ⟨c2, r2, hc⟩ := snoc_true_cons l
      have : st1.cond = b :: c2 :: r2 := by rw [h3, hv, List.cons_append, hc]
      refine ⟨{ st1 with cond := (!b) :: c2 :: r2 }, by simp [dispatch, kind, this], ⟨h1, h2, ?_, h4, h5⟩, rfl, rfl⟩
      simp only [List.cons_append, hc]
  · -- OP_ENDIF
    have e : Core.execConditional (coreCx cx sc) s1 0x68 fExec
        = (match s1.vfExec with | [] => .error .UNBALANCED_CONDITIONAL | _ :: r => .ok { s1 with vfExec := r }) := rfl
    rw [e]
    cases hv : s1.vfExec with
    | nil =>
      simp only
      have : st1.cond = [true] := by rw [h3, hv]; rfl
      simp [dispatch, kind, this]
    | cons b l =>
      simp only
      obtain ⟨c2, r2, hc⟩ := snoc_true_cons l
      have : st1.cond = b :: c2 :: r2 := by rw [h3, hv, List.cons_append, hc]
      exact ⟨{ st1 with cond := c2 :: r2 }, by simp [dispatch, kind, this], ⟨h1, h2, hc.symm, h4, h5⟩, rfl, rfl⟩
  · -- OP_VERIF
    have e : Core.execConditional (coreCx cx sc) s1 0x65 fExec = .error .BAD_OPCODE := rfl
    rw [e]; rfl
  · -- OP_VERNOTIF
    have e : Core.execConditional (coreCx cx sc) s1 0x66 fExec = .error .BAD_OPCODE := rfl
    rw [e]; rfl


/-! ### pushes; op codes refused by both -/

theorem nat_beq_comm (a b : Nat) : (a == b) = (b == a) := by
  cases h : a == b <;> cases h' : b == a <;> simp_all

theorem minimal_eq (data : Bytes) (t : Nat) (ht : 0 < t) (hl : data.length ≤ 520) :
    minimalPush data t = Core.checkMinimalPush data t := by
  rcases data with _ | ⟨b, _ | ⟨b2, r⟩⟩
  · simp [minimalPush, Core.checkMinimalPush]; omega
  · have hb : b.toNat < 256 := b.toNat_lt
    simp only [minimalPush, minimalPush.getB0, Core.checkMinimalPush, List.length_cons, List.length_nil, List.headD_cons,
      pushData]
    by_cases h1 : 1 ≤ b.toNat ∧ b.toNat ≤ 16
    · have : (0 < b.toNat ∧ b.toNat ≤ 16) := by omega
      simp [h1, this]
    · by_cases h2 : b.toNat = 0x81
      · simp [h2]
      · have h3 : ¬ (0 < b.toNat ∧ b.toNat ≤ 16) := by omega
        have h4 : ¬ (b.toNat = 129) := h2
        simp [h1, h2, h3, h4]
        by_cases hp : 0 < b.toNat <;> by_cases hq : b.toNat ≤ 16 <;> simp [hp, hq] <;>
          first | exact nat_beq_comm _ _ | omega
  · simp only [List.length_cons] at hl
    have hlen : (b :: b2 :: r).length = r.length + 2 := by simp
    simp only [minimalPush, Core.checkMinimalPush, pushData, hlen]
    have n1 : ((r.length + 2 == 1) = false) := by simp
    have n0 : ((r.length + 2 == 0) = false) := by simp
    simp only [n1, n0, Bool.false_and, Bool.or_self, Bool.false_eq_true, if_false]
    by_cases c1 : r.length + 2 < 76
    · have : r.length + 2 ≤ 75 := by omega
      have hu : (UInt8.ofNat (r.length + 2)).toNat = r.length + 2 := by
        simp [UInt8.toNat_ofNat']; omega
      simp [c1, this, hu]
      rw [Nat.mod_eq_of_lt (by omega), nat_beq_comm]
    · have c1' : ¬ (r.length + 2 ≤ 75) := by omega
      by_cases c2 : r.length + 2 < 256
      · have : r.length + 2 ≤ 255 := by omega
        simp [c1, c1', c2, this]
        exact nat_beq_comm _ _
      · have c2' : ¬ (r.length + 2 ≤ 255) := by omega
        have c3 : r.length + 2 < 65536 := by omega
        have c3' : r.length + 2 ≤ 65535 := by omega
        simp [c1, c1', c2, c2', c3, c3']
        exact nat_beq_comm _ _

theorem not_disabled_low (t : Nat) (h : t ≤ 78) : Core.isDisabled t = false := by
  simp only [Core.isDisabled, Core.DISABLED, List.contains_cons, List.contains_nil, Bool.or_false]
  simp only [Bool.or_eq_false_iff, beq_eq_false_iff_ne, ne_eq]
  omega

/-- the push family (op codes 1..78, all four widths), executing or not -/
theorem sim_push (cx : Btclib.Ctx) (sc : Bytes) (st : St) (cst : Core.State) (c : UInt8) (r : Bytes) (op : Op) (rest : Bytes)
    (hR : R st cst) (hsz : st.stack.length + st.alt.length ≤ 1000) (hs : st.s = c :: r)
    (hc : 0 < c.toNat ∧ c.toNat ≤ 78) (hg : getOp (c :: r) = some (op, rest)) :
    SimOp cx sc st cst op rest := by
  obtain ⟨stack, alt, cond, cnt, idx, s, cso⟩ := st
  obtain ⟨h1, h2, h3, h4, h5⟩ := hR
  simp only at h1 h2 h3 h4 hs hsz
  subst hs
  obtain ⟨hcode, hrp⟩ := readPush_some c r op rest hg hc
  have hall : cond.all id = cst.vfExec.all id := by rw [h3, all_snoc_true]
  have hsz' : ¬ (stack.length + alt.length > 1000) := by omega
  have hit : iter cx { stack := stack, alt := alt, cond := cond, opCodeNum := cnt, scriptIndex := idx, s := c :: r, codesepOffset := cso } =
      match readPushData c.toNat r with
      | none => none
      | some (data, rest') =>
        if !(cond.all id) then some (.more { stack := stack, alt := alt, cond := cond, opCodeNum := cnt, scriptIndex := idx + 1, s := rest', codesepOffset := cso })
        else if minimaldata cx && !minimalPush data c.toNat then none
        else some (.more { stack := data :: stack, alt := alt, cond := cond, opCodeNum := cnt, scriptIndex := idx + 1, s := rest', codesepOffset := cso }) := by
    simp only [iter, Gen.Script.N_MAX_STACK_SIZE, hsz', if_false, hc, and_self, if_true]
    cases readPushData c.toNat r <;> rfl
  unfold SimOp
  have hnd : Core.isDisabled op.code = false := by rw [hcode]; exact not_disabled_low _ hc.2
  have hncnt : (decide (op.code > 0x60)) = false := by rw [hcode]; simp; omega
  have hncs : (op.code == Core.OP_CODESEPARATOR) = false := by
    rw [hcode]; simp only [Core.OP_CODESEPARATOR]; simp; omega
  by_cases hbig : op.data.length > 520
  · have : op.data.length > Core.MAX_SCRIPT_ELEMENT_SIZE := hbig
    simp only [Core.stepChecks, this, if_true, Except.bind]
    apply loop_iter_none
    rw [hit, hrp]; simp [hbig]
  · have hnb : ¬ (op.data.length > Core.MAX_SCRIPT_ELEMENT_SIZE) := hbig
    simp only [hbig, if_false] at hrp
    simp only [Core.stepChecks, hnb, if_false, hncnt, Bool.and_false, Bool.false_and, Bool.false_eq_true, hnd, hncs,
      Except.bind]
    rw [hrp] at hit
    simp only at hit
    have hle : (decide (op.code ≤ 0x4e)) = true := by rw [hcode]; simp; omega
    have hnr : Core.inConditionalRange op.code = false := by
      rw [hcode]; unfold Core.inConditionalRange Core.OP_IF Core.OP_ENDIF
      simp only [Bool.and_eq_false_imp, decide_eq_true_eq, decide_eq_false_iff_not]; omega
    have hfl : Core.has (coreCx cx sc).flags Core.FLAG_MINIMALDATA = minimaldata cx := rfl
    have hmin : minimalPush op.data c.toNat = Core.checkMinimalPush op.data op.code := by
      rw [hcode]; exact minimal_eq _ _ hc.1 (by omega)
    cases hf : cst.vfExec.all id with
    | false =>
      rw [hf] at hall
      simp only [Core.stepExec, Bool.false_and, Bool.false_eq_true, if_false, hnr]
      refine ⟨1, { stack := stack, alt := alt, cond := cond, opCodeNum := cnt, scriptIndex := idx + 1, s := rest, codesepOffset := cso },
        by omega, by omega, ⟨h1, h2, h3, h4, h5⟩, rfl, rfl, fun f => loop_iter_more cx _ _ ?_ f⟩
      rw [hit, hall]; rfl
    | true =>
      rw [hf] at hall
      simp only [Core.stepExec, Bool.true_and, hle, if_true, hfl, ← hmin]
      by_cases hm : (minimaldata cx && !minimalPush op.data c.toNat) = true
      · simp only [hm, if_true]
        apply loop_iter_none
        rw [hit, hall]; simp [hm]
      · have hm' : (minimaldata cx && !minimalPush op.data c.toNat) = false := by simpa using hm
        simp only [hm', Bool.false_eq_true, if_false]
        refine ⟨1, { stack := op.data :: stack, alt := alt, cond := cond, opCodeNum := cnt, scriptIndex := idx + 1, s := rest, codesepOffset := cso },
          by omega, by omega, ⟨by simp only [h1], h2, h3, h4, h5⟩, rfl, rfl, fun f => loop_iter_more cx _ _ ?_ f⟩
        rw [hit, hall]; simp [hm']


def badOps : List Nat := [0x50, 0x62, 0x89, 0x8a, 0x7e, 0x7f, 0x80, 0x81, 0x83, 0x84, 0x85, 0x86, 0x8d, 0x8e, 0x95, 0x96, 0x97, 0x98, 0x99]

theorem badop_facts (cx : Core.Ctx) (pos opos : Nat) (m : Core.Machine) (t : Nat) (h : t ∈ badOps) :
    Core.execPlain cx pos opos m t = .error .BAD_OPCODE ∧ kind t = .unknown ∧ Core.inConditionalRange t = false ∧ ¬ t ≤ 0x4e := by
  simp only [badOps, List.mem_cons, List.mem_nil_iff, or_false] at h
  rcases h with rfl | rfl | rfl | rfl | rfl | rfl | rfl | rfl | rfl | rfl | rfl | rfl | rfl | rfl | rfl | rfl | rfl | rfl | rfl <;>
    exact ⟨rfl, by decide, by decide, by decide⟩

/-- named op codes without a case (OP_RESERVED OP_VER OP_RESERVED1 OP_RESERVED2) and the disabled ones, when they are
    reached at all: refused by both -/
theorem disp_badop (cx : Btclib.Ctx) (sc : Bytes) (t : Nat) (raw : Bytes) (st1 : St) (s1 : Core.State) (ht : t ∈ badOps) :
    DispOk cx sc t st1 s1 ⟨t, [], raw⟩ true := by
  obtain ⟨he, hk, hnr, hnp⟩ := badop_facts (coreCx cx sc) s1.pos s1.opcodePos s1.m t ht
  have hnp' : (decide (t ≤ 0x4e)) = false := by simpa using hnp
  unfold DispOk Core.stepExec
  simp only [Bool.true_and, hnp', Bool.false_eq_true, if_false, hnr, if_true, he, Except.map]
  unfold dispatch
  simp only [hk]


/-! ### the `*VERIFY` expansions at loop level -/

theorem iter3_none (cx : Btclib.Ctx) (st : St) (h : iter3 cx st = none) : ∀ f, loop cx f st = .refused := by
  unfold iter3 at h
  cases h1 : iter cx st with
  | none => exact loop_iter_none cx st h1
  | some n1 =>
    rw [h1] at h
    cases n1 with
    | more a =>
      simp only at h
      cases h2 : iter cx a with
      | none =>
        intro f; cases f with
        | zero => rfl
        | succ f => rw [loop_iter_more cx st a h1]; exact loop_iter_none cx a h2 f
      | some n2 =>
        rw [h2] at h
        cases n2 with
        | more b =>
          simp only at h
          intro f; cases f with
          | zero => rfl
          | succ f =>
            rw [loop_iter_more cx st a h1]
            cases f with
            | zero => rfl
            | succ f => rw [loop_iter_more cx a b h2]; exact loop_iter_none cx b h f
        | finished x => cases h
        | unsupported => cases h
    | finished x => cases h
    | unsupported => cases h

theorem iter3_more (cx : Btclib.Ctx) (st st' : St) (h : iter3 cx st = some (.more st')) :
    ∀ f, loop cx (f + 3) st = loop cx f st' := by
  unfold iter3 at h
  cases h1 : iter cx st with
  | none => rw [h1] at h; cases h
  | some n1 =>
    rw [h1] at h
    cases n1 with
    | more a =>
      simp only at h
      cases h2 : iter cx a with
      | none => rw [h2] at h; cases h
      | some n2 =>
        rw [h2] at h
        cases n2 with
        | more b =>
          simp only at h
          intro f
          rw [show f + 3 = (f + 2) + 1 from rfl, loop_iter_more cx st a h1, show f + 2 = (f + 1) + 1 from rfl,
            loop_iter_more cx a b h2, loop_iter_more cx b st' h]
        | finished x => cases h
        | unsupported => cases h
    | finished x => cases h
    | unsupported => cases h

/-- the expansion of OP_EQUALVERIFY / OP_NUMEQUALVERIFY: three passes, wound back and counted up again -/
theorem expansion_windback (cx : Btclib.Ctx) (T tX : Nat) (hT : (T = 0x88 ∧ tX = 0x87) ∨ (T = 0x9d ∧ tX = 0x9c))
    (stack alt : List Bytes) (cond : List Bool) (cnt idx : Int) (cso : Nat) (rest : Bytes)
    (hexec : cond.all id = true) (hsize : stack.length + alt.length ≤ 1000)
    (hshrink : ∀ s a, operation cx tX stack alt = some (.done s a) → s.length + a.length ≤ stack.length + alt.length)
    (hnoexp : isExpand (operation cx tX stack alt) = false) :
    iter3 cx { stack := stack, alt := alt, cond := cond, opCodeNum := cnt, scriptIndex := idx, s := UInt8.ofNat T :: rest, codesepOffset := cso } =
      (if cnt + 1 > 201 then none
       else match (btRes (operation cx tX stack alt)).bind fun p => btRes (operation cx 0x69 p.1 p.2) with
         | some (s, a) => some (.more { stack := s, alt := a, cond := cond, opCodeNum := cnt + 1, scriptIndex := idx + 1, s := rest, codesepOffset := cso })
         | none => none) := by
  have hTm : T = 0x88 ∨ T = 0x87 ∨ T = 0x69 ∨ T = 0x9d ∨ T = 0x9c := by rcases hT with ⟨h, _⟩ | ⟨h, _⟩ <;> simp [h]
  have hXm : tX = 0x88 ∨ tX = 0x87 ∨ tX = 0x69 ∨ tX = 0x9d ∨ tX = 0x9c := by rcases hT with ⟨_, h⟩ | ⟨_, h⟩ <;> simp [h]
  have eT : operation cx T stack alt = some (.expand stack alt [tX, 0x69]) := by
    rcases hT with ⟨h1, h2⟩ | ⟨h1, h2⟩ <;> (subst h1; subst h2; rfl)
  unfold iter3
  rw [iter_operation cx T hTm stack alt cond cnt idx cso rest hexec hsize]
  by_cases hc : cnt + 1 > 201
  · simp [hc]
  · simp only [hc, if_false]
    simp only [eT, List.map_cons, List.map_nil, List.cons_append, List.nil_append, List.length_cons, List.length_nil]
    rw [iter_operation cx tX hXm stack alt cond _ _ cso _ hexec hsize]
    have hc2 : ¬ (cnt + 1 - ((0 + 1 + 1 : Nat) : Int) + 1 > 201) := by omega
    simp only [hc2, if_false]
    cases hX : operation cx tX stack alt with
    | none => rfl
    | some res =>
      cases res with
      | expand s a r => rw [hX] at hnoexp; cases hnoexp
      | done s a =>
        simp only [btRes, Option.bind_some]
        have hs3 : s.length + a.length ≤ 1000 := by have := hshrink s a hX; omega
        rw [iter_operation cx 0x69 (Or.inr (Or.inr (Or.inl rfl))) s a cond _ _ cso rest hexec hs3]
        have hc3 : ¬ (cnt + 1 - ((0 + 1 + 1 : Nat) : Int) + 1 + 1 > 201) := by omega
        simp only [hc3, if_false]
        cases h69 : operation cx 0x69 s a with
        | none => rfl
        | some res2 =>
          cases res2 with
          | done s2 a2 =>
            simp only [btRes]
            congr 3 <;> omega
          | expand s2 a2 r2 =>
            exfalso
            have := (well_misc cx [] 0x69 (Or.inl (by decide)) s a).2
            rw [h69] at this; cases this

theorem shrink_equal (cx : Btclib.Ctx) (stack alt : List Bytes) :
    (∀ s a, operation cx 0x87 stack alt = some (.done s a) → s.length + a.length ≤ stack.length + alt.length) ∧
    (∀ s a, operation cx 0x9c stack alt = some (.done s a) → s.length + a.length ≤ stack.length + alt.length) := by
  constructor
  · intro s a h
    rcases stack with _ | ⟨x, _ | ⟨y, r⟩⟩
    · cases h
    · cases h
    · have : operation cx 0x87 (x :: y :: r) alt = some (.done (boolBytes (x == y) :: r) alt) := rfl
      rw [this] at h; cases h; simp only [List.length_cons]; omega
  · intro s a h
    rcases stack with _ | ⟨x, _ | ⟨y, r⟩⟩
    · cases h
    · cases h
    · have : operation cx 0x9c (x :: y :: r) alt = (do
          let b ← Btclib.num cx x
          let a ← Btclib.num cx y
          pure (.done (boolBytes (a == b) :: r) alt)) := rfl
      rw [this] at h
      cases h1 : Btclib.num cx x with
      | none => simp [h1] at h
      | some v1 =>
        cases h2 : Btclib.num cx y with
        | none => simp [h1, h2] at h
        | some v2 =>
          simp only [h1, h2, Option.bind_eq_bind, Option.bind_some, pure, Option.some.injEq, OpRes.done.injEq] at h
          obtain ⟨rfl, rfl⟩ := h
          simp only [List.length_cons]; omega

/-- OP_EQUALVERIFY / OP_NUMEQUALVERIFY in an executing branch: three passes of btclib's loop against one step of Core's -/
theorem sim_expansion (cx : Btclib.Ctx) (sc : Bytes) (st : St) (cst : Core.State) (c : UInt8) (r : Bytes)
    (hR : R st cst) (hsz : st.stack.length + st.alt.length ≤ 1000) (hs : st.s = c :: r)
    (hT : c.toNat = 0x88 ∨ c.toNat = 0x9d) (hexec : cst.vfExec.all id = true) :
    SimOp cx sc st cst ⟨c.toNat, [], [c]⟩ r := by
  obtain ⟨stack, alt, cond, cnt, idx, s, cso⟩ := st
  obtain ⟨h1, h2, h3, h4, h5⟩ := hR
  simp only at h1 h2 h3 h4 hs hsz
  subst hs
  have hall : cond.all id = true := by rw [h3, all_snoc_true]; exact hexec
  have hc : UInt8.ofNat c.toNat = c := by simp
  obtain ⟨tX, hTX, hcomp, hsome⟩ : ∃ tX, ((c.toNat = 0x88 ∧ tX = 0x87) ∨ (c.toNat = 0x9d ∧ tX = 0x9c)) ∧
      ((btRes (operation cx tX stack alt)).bind fun p => btRes (operation cx 0x69 p.1 p.2))
        = coreRes (Core.execStackOp (coreCx cx sc) stack alt c.toNat) ∧
      (Core.execStackOp (coreCx cx sc) stack alt c.toNat).isSome = true := by
    rcases hT with h | h
    · refine ⟨0x87, Or.inl ⟨h, rfl⟩, by rw [h]; exact (expansion_refines cx sc stack alt).1, ?_⟩
      rw [h]
      rcases stack with _ | ⟨x, _ | ⟨y, rr⟩⟩
      · rfl
      · rfl
      · show (if y == x then some (Except.ok (rr, alt)) else some (Except.error Core.ScriptError.EQUALVERIFY) :
            Option (Core.R (List Bytes × List Bytes))).isSome = true
        split <;> rfl
    · refine ⟨0x9c, Or.inr ⟨h, rfl⟩, by rw [h]; exact (expansion_refines cx sc stack alt).2, ?_⟩
      rw [h]; rfl
  have hshr : ∀ s a, operation cx tX stack alt = some (.done s a) → s.length + a.length ≤ stack.length + alt.length := by
    rcases hTX with ⟨_, rfl⟩ | ⟨_, rfl⟩
    · exact (shrink_equal cx stack alt).1
    · exact (shrink_equal cx stack alt).2
  have hnx : isExpand (operation cx tX stack alt) = false := by
    rcases hTX with ⟨_, rfl⟩ | ⟨_, rfl⟩
    · exact (well_misc cx sc 0x87 (Or.inl (by decide)) stack alt).2
    · exact (well_arith cx sc 0x9c (by decide) stack alt).2
  have hwb := expansion_windback cx c.toNat tX hTX stack alt cond cnt idx cso r hall hsz hshr hnx
  rw [hc] at hwb
  -- Core's side
  have hcnt : c.toNat > 0x60 := by rcases hT with h | h <;> omega
  have hnd : Core.isDisabled c.toNat = false := by rcases hT with h | h <;> (rw [h]; rfl)
  have hncs : (c.toNat == Core.OP_CODESEPARATOR) = false := by rcases hT with h | h <;> (rw [h]; rfl)
  have hnp : (decide (c.toNat ≤ 0x4e)) = false := by rcases hT with h | h <;> (rw [h]; rfl)
  have hnr : Core.inConditionalRange c.toNat = false := by rcases hT with h | h <;> (rw [h]; rfl)
  unfold SimOp
  simp only [Core.stepChecks, sv_counted, Bool.true_and, List.length_nil, Core.MAX_SCRIPT_ELEMENT_SIZE,
    show ¬ (0 > 520) by omega, if_false, List.length_cons, hcnt, decide_true, hnd, hncs, Bool.false_and,
    Bool.false_eq_true, if_true]
  by_cases hover : cnt + 1 > 201
  · have : cst.m.opCount + 1 > Core.MAX_OPS_PER_SCRIPT := by
      simp only [Core.MAX_OPS_PER_SCRIPT]; rw [h4] at hover; omega
    simp only [this, decide_true, if_true, Except.bind]
    apply iter3_none
    rw [hwb]; simp [hover]
  · have hno : ¬ (cst.m.opCount + 1 > Core.MAX_OPS_PER_SCRIPT) := by
      simp only [Core.MAX_OPS_PER_SCRIPT]; rw [h4] at hover; omega
    simp only [hno, decide_false, Bool.false_eq_true, if_false, Except.bind, hexec, Core.stepExec, Bool.true_and, hnp, hnr]
    simp only [hover, if_false] at hwb
    rw [hcomp] at hwb
    unfold Core.execPlain
    simp only [← h1, ← h2]
    cases he : Core.execStackOp (coreCx cx sc) stack alt c.toNat with
    | none => rw [he] at hsome; cases hsome
    | some res =>
      rw [he] at hwb
      cases res with
      | error e =>
        simp only [Except.map]
        exact iter3_none cx _ hwb
      | ok p =>
        obtain ⟨s', a'⟩ := p
        simp only [Except.map]
        simp only [coreRes] at hwb
        have hc4 : cnt + 1 = ((cst.m.opCount + 1 : Nat) : Int) := by omega
        exact ⟨3, { stack := s', alt := a', cond := cond, opCodeNum := cnt + 1, scriptIndex := idx + 1, s := r, codesepOffset := cso },
            by omega, by omega, ⟨rfl, rfl, h3, hc4, h5⟩, rfl, rfl, iter3_more cx _ _ hwb⟩


/-! ### bytes from OP_CHECKSIGADD up -/

theorem execStackOp_high (cx : Core.Ctx) (stack alt : List Bytes) (c : Nat) (h : c ≥ 0xba) :
    Core.execStackOp cx stack alt c = none := by
  unfold Core.execStackOp
  split <;> first | omega | rfl

theorem kind_high (c : Nat) (h : c ≥ 0xba) : kind c = .unknown := by
  unfold kind
  repeat rw [if_neg (by omega)]

/-- OP_CHECKSIGADD (not a legacy / v0 op code) and the unnamed bytes 0xbb..0xff: refused by both when reached -/
theorem disp_high (cx : Btclib.Ctx) (sc : Bytes) (t : Nat) (raw : Bytes) (st1 : St) (s1 : Core.State) (ht : t ≥ 0xba) :
    DispOk cx sc t st1 s1 ⟨t, [], raw⟩ true := by
  have hnp' : (decide (t ≤ 0x4e)) = false := by simp; omega
  have hnr : Core.inConditionalRange t = false := by
    unfold Core.inConditionalRange Core.OP_IF Core.OP_ENDIF
    simp only [Bool.and_eq_false_imp, decide_eq_true_eq, decide_eq_false_iff_not]; omega
  have he : Core.execPlain (coreCx cx sc) s1.pos s1.opcodePos s1.m t = .error .BAD_OPCODE := by
    unfold Core.execPlain
    rw [execStackOp_high _ _ _ _ ht]
    have a1 : ¬ t = Core.OP_CODESEPARATOR := by unfold Core.OP_CODESEPARATOR; omega
    have a2 : ¬ (t = Core.OP_CHECKSIG ∨ t = Core.OP_CHECKSIGVERIFY) := by
      unfold Core.OP_CHECKSIG Core.OP_CHECKSIGVERIFY; omega
    have a4 : ¬ t = Core.OP_CHECKMULTISIG := by unfold Core.OP_CHECKMULTISIG; omega
    have a5 : ¬ t = Core.OP_CHECKMULTISIGVERIFY := by unfold Core.OP_CHECKMULTISIGVERIFY; omega
    simp only [a1, a2, a4, a5, if_false]
    have hsv : ((coreCx cx sc).sigversion == Core.SigVersion.BASE || (coreCx cx sc).sigversion == Core.SigVersion.WITNESS_V0) = true :=
      sv_counted cx sc
    split
    · simp [hsv]
    · rfl
  unfold DispOk Core.stepExec
  simp only [Bool.true_and, hnp', Bool.false_eq_true, if_false, hnr, if_true, he, Except.map]
  unfold dispatch
  simp only [kind_high t ht]

/-! ### OP_CODESEPARATOR: `codesep_offset = op_code_stops[script_index]` is Core's `pbegincodehash = pc` -/

theorem disp_codesep (cx : Btclib.Ctx) (sc : Bytes) (raw : Bytes) (st1 : St) (s1 : Core.State) (hR : R st1 s1)
    (hstop : cx.opCodeStops[st1.scriptIndex.toNat]? = some s1.pos) :
    DispOk cx sc 0xab st1 s1 ⟨0xab, [], raw⟩ true := by
  obtain ⟨h1, h2, h3, h4, h5⟩ := hR
  have e : Core.stepExec (coreCx cx sc) s1 ⟨0xab, [], raw⟩ true
      = .ok { s1 with m := { s1.m with codeStart := s1.pos, codesepPos := s1.opcodePos } } := rfl
  have d : dispatch cx 0xab st1 = some (.more { st1 with codesepOffset := s1.pos }) := by
    show (match cx.opCodeStops[st1.scriptIndex.toNat]? with
          | none => none
          | some off => some (Next.more { st1 with codesepOffset := off })) = _
    rw [hstop]
  unfold DispOk
  rw [e]
  exact ⟨_, d, ⟨h1, h2, h3, h4, rfl⟩, rfl, rfl⟩

/-! ### the signature op codes (both sides end in the same per-signature function: `Sig.Shared`) -/

/-- OP_CHECKSIG -/
theorem disp_checksig (cx : Btclib.Ctx) (sc : Bytes) (hsh : Shared cx sc) (raw : Bytes) (st1 : St) (s1 : Core.State)
    (hR : R st1 s1) : DispOk cx sc 0xac st1 s1 ⟨0xac, [], raw⟩ true := by
  obtain ⟨h1, h2, h3, h4, h5⟩ := hR
  have e : Core.stepExec (coreCx cx sc) s1 ⟨0xac, [], raw⟩ true
      = (Core.execPlain (coreCx cx sc) s1.pos s1.opcodePos s1.m 0xac).map fun m => { s1 with m := m } := rfl
  have d : dispatch cx 0xac st1
      = (checksigOn cx st1.stack st1.codesepOffset).map fun s => .more { st1 with stack := s } := rfl
  have hc := checksig_core cx sc hsh s1.pos s1.opcodePos s1.m
  unfold DispOk
  rw [e, d, h1, h5]
  cases hp : Core.execPlain (coreCx cx sc) s1.pos s1.opcodePos s1.m 0xac with
  | error er =>
    rw [hp] at hc
    simp only [okOpt] at hc
    simp only [Except.map]
    cases hx : checksigOn cx s1.m.stack s1.m.codeStart with
    | none => rfl
    | some s => rw [hx] at hc; cases hc
  | ok m2 =>
    rw [hp] at hc
    simp only [okOpt] at hc
    simp only [Except.map]
    cases hx : checksigOn cx s1.m.stack s1.m.codeStart with
    | none => rw [hx] at hc; cases hc
    | some s =>
      rw [hx] at hc
      simp only [Option.map_some, Option.some.injEq] at hc
      subst hc
      exact ⟨_, rfl, ⟨rfl, h2, h3, h4, rfl⟩, rfl, rfl⟩

/-- OP_CHECKMULTISIG -/
theorem disp_multisig (cx : Btclib.Ctx) (sc : Bytes) (hsh : Shared cx sc) (raw : Bytes) (st1 : St) (s1 : Core.State)
    (hR : R st1 s1) : DispOk cx sc 0xae st1 s1 ⟨0xae, [], raw⟩ true := by
  obtain ⟨h1, h2, h3, h4, h5⟩ := hR
  have e : Core.stepExec (coreCx cx sc) s1 ⟨0xae, [], raw⟩ true
      = (Core.execMultisig (coreCx cx sc) s1.m false).map fun m => { s1 with m := m } := rfl
  have d : dispatch cx 0xae st1
      = (checkMultisigOn cx st1.stack st1.opCodeNum st1.codesepOffset).map
          fun p => .more { st1 with stack := p.1, opCodeNum := p.2 } := rfl
  have hc := multisig_core cx sc hsh s1.m 0 false
  have hm0 : ({ s1.m with opCount := s1.m.opCount + 0 } : Core.Machine) = s1.m := rfl
  rw [hm0] at hc
  have hpost : ∀ X : Option (List Bytes × Int), X.bind (postMsig 0 false) = X.bind fun p => if p.2 > 201 then none else some p := by
    intro X; cases X with
    | none => rfl
    | some p => simp [postMsig]
  unfold DispOk
  rw [e, d, h1, h4, h5]
  cases hp : Core.execMultisig (coreCx cx sc) s1.m false with
  | error er =>
    rw [hp] at hc
    simp only [okOpt, Option.map_none] at hc
    simp only [Except.map]
    cases hx : checkMultisigOn cx s1.m.stack s1.m.opCount s1.m.codeStart with
    | none => rfl
    | some p =>
      exfalso
      rw [hx] at hc
      -- the count the arm leaves is at most 201, so the (vacuous for `d = 0`) recount cannot refuse
      have hle : p.2 ≤ 201 := by
        unfold checkMultisigOn at hx
        split at hx
        · cases hx
        · split at hx
          · cases hx
          · split at hx
            · cases hx
            · rw [count_n] at hx
              split at hx
              · cases hx
              · rename_i cnt hcnt
                split at hcnt
                · cases hcnt
                · cases hcnt
                  cases hr : checkMultisigRest cx _ _ s1.m.codeStart with
                  | none => rw [hr] at hx; cases hx
                  | some s2 => rw [hr] at hx; cases hx; simp only; omega
      simp [postMsig] at hc
      omega
  | ok m2 =>
    rw [hp] at hc
    simp only [okOpt, Option.map_some] at hc
    simp only [Except.map]
    have hfr := multisig_frame (coreCx cx sc) s1.m m2 false hp
    cases hx : checkMultisigOn cx s1.m.stack s1.m.opCount s1.m.codeStart with
    | none => rw [hx] at hc; cases hc
    | some p =>
      rw [hx] at hc
      simp only [Option.bind_some, postMsig, Bool.false_eq_true, if_false] at hc
      split at hc
      · cases hc
      · simp only [Option.some.injEq, Prod.mk.injEq] at hc
        obtain ⟨hc1, hc2⟩ := hc
        refine ⟨_, rfl, ⟨hc1, ?_, ?_, ?_, ?_⟩, rfl, rfl⟩
        · rw [hfr]; exact h2
        · exact h3
        · simp only; rw [← hc2]; simp
        · rw [hfr]

/-- OP_CHECKSIGVERIFY / OP_CHECKMULTISIGVERIFY: the first two passes (the expansion, then the signature op code at the
    wound-back count and index); what is left is the pass over OP_VERIFY -/
theorem sig_windback (cx : Btclib.Ctx) (T X : Nat) (hT : (T = 0xad ∧ X = 0xac) ∨ (T = 0xaf ∧ X = 0xae))
    (stack alt : List Bytes) (cond : List Bool) (cnt idx : Int) (cso : Nat) (rest : Bytes)
    (hexec : cond.all id = true) (hsize : stack.length + alt.length ≤ 1000) :
    iter3 cx { stack := stack, alt := alt, cond := cond, opCodeNum := cnt, scriptIndex := idx, s := UInt8.ofNat T :: rest, codesepOffset := cso } =
      if cnt + 1 > 201 then none
      else match dispatch cx X { stack := stack, alt := alt, cond := cond, opCodeNum := cnt, scriptIndex := idx,
                                   s := 0x69 :: rest, codesepOffset := cso } with
        | some (.more st3) => iter cx st3
        | x => x := by
  unfold iter3
  by_cases hc : cnt + 1 > 201
  · rcases hT with ⟨rfl, rfl⟩ | ⟨rfl, rfl⟩ <;>
      (rw [iter_nonpush cx stack alt cond cnt idx cso _ rest hsize (by decide)]
       simp [hc])
  · rcases hT with ⟨rfl, rfl⟩ | ⟨rfl, rfl⟩
    · rw [iter_nonpush cx stack alt cond cnt idx cso _ rest hsize (by decide)]
      have e1 : dispatch cx 0xad { stack := stack, alt := alt, cond := cond, opCodeNum := cnt + 1, scriptIndex := idx + 1, s := rest, codesepOffset := cso }
          = some (.more { stack := stack, alt := alt, cond := cond, opCodeNum := cnt + 1 - 2, scriptIndex := idx + 1 - 2, s := 0xac :: 0x69 :: rest, codesepOffset := cso }) := rfl
      have t : (UInt8.ofNat 0xad).toNat = 0xad := by decide
      simp only [t, show (0xad : Nat) > 96 from by decide, if_true, hc, if_false, hexec, Bool.not_true, Bool.false_and,
        Bool.false_eq_true, show Gen.Script.DISABLED_OP_CODES.contains 0xad = false from by decide, e1]
      rw [iter_nonpush cx stack alt cond _ _ cso _ _ hsize (by decide)]
      have t2 : (0xac : UInt8).toNat = 0xac := by decide
      have hc2 : ¬ (cnt + 1 - 2 + 1 > 201) := by omega
      simp only [t2, show (0xac : Nat) > 96 from by decide, if_true, hc2, if_false, hexec, Bool.not_true, Bool.false_and,
        Bool.false_eq_true, show Gen.Script.DISABLED_OP_CODES.contains 0xac = false from by decide]
      have e2 : (cnt + 1 - 2 + 1 : Int) = cnt := by omega
      have e3 : (idx + 1 - 2 + 1 : Int) = idx := by omega
      rw [e2, e3]
      rcases dispatch cx _ _ with _ | (_ | _ | _) <;> rfl
    · rw [iter_nonpush cx stack alt cond cnt idx cso _ rest hsize (by decide)]
      have e1 : dispatch cx 0xaf { stack := stack, alt := alt, cond := cond, opCodeNum := cnt + 1, scriptIndex := idx + 1, s := rest, codesepOffset := cso }
          = some (.more { stack := stack, alt := alt, cond := cond, opCodeNum := cnt + 1 - 2, scriptIndex := idx + 1 - 2, s := 0xae :: 0x69 :: rest, codesepOffset := cso }) := rfl
      have t : (UInt8.ofNat 0xaf).toNat = 0xaf := by decide
      simp only [t, show (0xaf : Nat) > 96 from by decide, if_true, hc, if_false, hexec, Bool.not_true, Bool.false_and,
        Bool.false_eq_true, show Gen.Script.DISABLED_OP_CODES.contains 0xaf = false from by decide, e1]
      rw [iter_nonpush cx stack alt cond _ _ cso _ _ hsize (by decide)]
      have t2 : (0xae : UInt8).toNat = 0xae := by decide
      have hc2 : ¬ (cnt + 1 - 2 + 1 > 201) := by omega
      simp only [t2, show (0xae : Nat) > 96 from by decide, if_true, hc2, if_false, hexec, Bool.not_true, Bool.false_and,
        Bool.false_eq_true, show Gen.Script.DISABLED_OP_CODES.contains 0xae = false from by decide]
      have e2 : (cnt + 1 - 2 + 1 : Int) = cnt := by omega
      have e3 : (idx + 1 - 2 + 1 : Int) = idx := by omega
      rw [e2, e3]
      rcases dispatch cx _ _ with _ | (_ | _ | _) <;> rfl

theorem checksigOn_len (cx : Btclib.Ctx) (stack s : List Bytes) (off : Nat) (h : checksigOn cx stack off = some s) :
    s.length ≤ stack.length := by
  unfold checksigOn at h
  rcases stack with _ | ⟨pk, _ | ⟨sig, r⟩⟩
  · cases h
  · cases h
  · simp only at h
    split at h
    · cases h
    · split at h
      · cases h
      · cases h; simp

theorem checkMultisigRest_len (cx : Btclib.Ctx) (r1 s : List Bytes) (n : Int) (off : Nat)
    (h : checkMultisigRest cx r1 n off = some s) : s.length ≤ r1.length := by
  unfold checkMultisigRest at h
  split at h
  · cases h
  · split at h
    · cases h
    · rename_i ns r2 hd1
      have l1 : r2.length + 1 ≤ r1.length := by
        have := congrArg List.length hd1
        simp only [List.length_drop, List.length_cons] at this; omega
      split at h
      · cases h
      · split at h
        · cases h
        · split at h
          · cases h
          · simp only at h
            split at h
            · cases h
            · rename_i dummy r3 hd2
              have l2 : r3.length + 1 ≤ r2.length := by
                have := congrArg List.length hd2
                simp only [List.length_drop, List.length_cons] at this; omega
              split at h
              · cases h
              · split at h
                · cases h
                · split at h
                  · cases h; simp only [List.length_cons]; omega
                  · split at h
                    · cases h
                    · cases h; simp only [List.length_cons]; omega

theorem checkMultisigOn_len (cx : Btclib.Ctx) (stack : List Bytes) (c : Int) (off : Nat) (p : List Bytes × Int)
    (h : checkMultisigOn cx stack c off = some p) : p.1.length ≤ stack.length := by
  unfold checkMultisigOn at h
  split at h
  · cases h
  · split at h
    · cases h
    · split at h
      · cases h
      · split at h
        · cases h
        · cases hr : checkMultisigRest cx _ _ off with
          | none => rw [hr] at h; cases h
          | some s2 =>
            rw [hr] at h; cases h
            have := checkMultisigRest_len cx _ _ _ _ hr
            simp only [List.length_cons]; omega

/-- the pass over OP_VERIFY that ends an expansion -/
theorem verify_pass (cx : Btclib.Ctx) (stack alt : List Bytes) (cond : List Bool) (cnt idx : Int) (cso : Nat) (rest : Bytes)
    (hexec : cond.all id = true) (hsize : stack.length + alt.length ≤ 1000) :
    iter cx { stack := stack, alt := alt, cond := cond, opCodeNum := cnt, scriptIndex := idx, s := 0x69 :: rest, codesepOffset := cso } =
      if cnt + 1 > 201 then none
      else match stack with
        | top :: r => if toBool top then some (.more { stack := r, alt := alt, cond := cond, opCodeNum := cnt + 1,
                                                       scriptIndex := idx + 1, s := rest, codesepOffset := cso }) else none
        | [] => none := by
  have := iter_operation cx 0x69 (Or.inr (Or.inr (Or.inl rfl))) stack alt cond cnt idx cso rest hexec hsize
  have e : (UInt8.ofNat 0x69 : UInt8) = 0x69 := rfl
  rw [e] at this
  rw [this]
  by_cases hc : cnt + 1 > 201
  · simp [hc]
  · simp only [hc, if_false]
    rcases stack with _ | ⟨top, r⟩
    · rfl
    · show (match (if toBool top then some (OpRes.done r alt) else none) with
          | none => none
          | some (.done s a) => _
          | some (.expand s a rr) => _) = _
      by_cases ht : toBool top = true <;> simp [ht]

/-- OP_CHECKSIGVERIFY / OP_CHECKMULTISIGVERIFY in an executing branch: three passes of btclib's loop (the expansion, the
    signature op code at the wound-back count, OP_VERIFY) against one step of Core's -/
theorem sim_expansion_sig (cx : Btclib.Ctx) (sc : Bytes) (hsh : Shared cx sc) (st : St) (cst : Core.State) (c : UInt8) (r : Bytes)
    (hR : R st cst) (hsz : st.stack.length + st.alt.length ≤ 1000) (hs : st.s = c :: r)
    (hT : c.toNat = 0xad ∨ c.toNat = 0xaf) (hexec : cst.vfExec.all id = true) :
    SimOp cx sc st cst ⟨c.toNat, [], [c]⟩ r := by
  obtain ⟨stack, alt, cond, cnt, idx, s, cso⟩ := st
  obtain ⟨h1, h2, h3, h4, h5⟩ := hR
  simp only at h1 h2 h3 h4 h5 hs hsz
  subst hs
  have hall : cond.all id = true := by rw [h3, all_snoc_true]; exact hexec
  subst h1 h2 h4 h5
  have hc : UInt8.ofNat c.toNat = c := by simp
  have hcnt : c.toNat > 0x60 := by rcases hT with h | h <;> omega
  have hnd : Core.isDisabled c.toNat = false := by rcases hT with h | h <;> (rw [h]; rfl)
  have hncs : (c.toNat == Core.OP_CODESEPARATOR) = false := by rcases hT with h | h <;> (rw [h]; rfl)
  unfold SimOp
  simp only [Core.stepChecks, sv_counted, Bool.true_and, List.length_nil, Core.MAX_SCRIPT_ELEMENT_SIZE,
    show ¬ (0 > 520) by omega, if_false, List.length_cons, hcnt, decide_true, hnd, hncs, Bool.false_and,
    Bool.false_eq_true, if_true]
  rcases hT with hT | hT
  · -- OP_CHECKSIGVERIFY
    have hwb := sig_windback cx 0xad 0xac (Or.inl ⟨rfl, rfl⟩) cst.m.stack cst.m.alt cond cst.m.opCount idx cst.m.codeStart r hall hsz
    rw [← hT, hc] at hwb
    by_cases hover : (cst.m.opCount : Int) + 1 > 201
    · have : cst.m.opCount + 1 > Core.MAX_OPS_PER_SCRIPT := by
        simp only [Core.MAX_OPS_PER_SCRIPT]; omega
      simp only [this, decide_true, if_true, Except.bind]
      apply iter3_none
      rw [hwb]; simp [hover]
    · have hno : ¬ (cst.m.opCount + 1 > Core.MAX_OPS_PER_SCRIPT) := by
        simp only [Core.MAX_OPS_PER_SCRIPT]; omega
      simp only [hno, decide_false, Bool.false_eq_true, if_false, Except.bind, hexec]
      simp only [hover, if_false] at hwb
      have d : dispatch cx 0xac { stack := cst.m.stack, alt := cst.m.alt, cond := cond, opCodeNum := cst.m.opCount, scriptIndex := idx, s := 0x69 :: r, codesepOffset := cst.m.codeStart }
          = (checksigOn cx cst.m.stack cst.m.codeStart).map fun s' => .more { stack := s', alt := cst.m.alt, cond := cond, opCodeNum := cst.m.opCount, scriptIndex := idx, s := 0x69 :: r, codesepOffset := cst.m.codeStart } := rfl
      rw [d] at hwb
      have e : ∀ s1 : Core.State, Core.stepExec (coreCx cx sc) s1 ⟨c.toNat, [], [c]⟩ true
          = (Core.execPlain (coreCx cx sc) s1.pos s1.opcodePos s1.m 0xad).map fun m => { s1 with m := m } := by
        intro s1; rw [hT]; rfl
      rw [e]
      have hcv := checksigverify_core cx sc hsh (cst.pos + 1) cst.opcodePos { cst.m with opCount := cst.m.opCount + 1 }
      simp only
      cases hx : checksigOn cx cst.m.stack cst.m.codeStart with
      | none =>
        rw [hx] at hwb hcv
        simp only [Option.bind_none, Option.map_none] at hcv
        cases hp : Core.execPlain (coreCx cx sc) (cst.pos + 1) cst.opcodePos { cst.m with opCount := cst.m.opCount + 1 } 0xad with
        | error er => simp only [Except.map]; exact iter3_none cx _ hwb
        | ok m2 => rw [hp] at hcv; cases hcv
      | some s' =>
        rw [hx] at hwb hcv
        have hs' : s'.length + cst.m.alt.length ≤ 1000 := by have := checksigOn_len cx _ s' _ hx; omega
        simp only [Option.map_some] at hwb
        rw [verify_pass cx s' cst.m.alt cond cst.m.opCount idx cst.m.codeStart r hall hs'] at hwb
        simp only [hover, if_false] at hwb
        simp only [Option.bind_some] at hcv
        cases hp : Core.execPlain (coreCx cx sc) (cst.pos + 1) cst.opcodePos { cst.m with opCount := cst.m.opCount + 1 } 0xad with
        | error er =>
          rw [hp] at hcv
          simp only [Except.map]
          apply iter3_none
          rw [hwb]
          rcases s' with _ | ⟨top, r'⟩
          · rfl
          · simp only [okOpt] at hcv
            simp only
            by_cases ht : toBool top = true
            · simp [ht] at hcv
            · simp [ht]
        | ok m2 =>
          rw [hp] at hcv
          simp only [Except.map]
          rcases s' with _ | ⟨top, r'⟩
          · simp [okOpt] at hcv
          · simp only [okOpt] at hcv
            by_cases ht : toBool top = true
            · simp only [ht, if_true, Option.map_some, Option.some.injEq] at hcv hwb
              subst hcv
              have hc4 : (cst.m.opCount : Int) + 1 = ((cst.m.opCount + 1 : Nat) : Int) := by omega
              exact ⟨3, _, by omega, by omega, ⟨rfl, rfl, h3, hc4, rfl⟩, rfl, rfl, iter3_more cx _ _ hwb⟩
            · simp [ht] at hcv
  · -- OP_CHECKMULTISIGVERIFY
    have hwb := sig_windback cx 0xaf 0xae (Or.inr ⟨rfl, rfl⟩) cst.m.stack cst.m.alt cond cst.m.opCount idx cst.m.codeStart r hall hsz
    rw [← hT, hc] at hwb
    by_cases hover : (cst.m.opCount : Int) + 1 > 201
    · have : cst.m.opCount + 1 > Core.MAX_OPS_PER_SCRIPT := by
        simp only [Core.MAX_OPS_PER_SCRIPT]; omega
      simp only [this, decide_true, if_true, Except.bind]
      apply iter3_none
      rw [hwb]; simp [hover]
    · have hno : ¬ (cst.m.opCount + 1 > Core.MAX_OPS_PER_SCRIPT) := by
        simp only [Core.MAX_OPS_PER_SCRIPT]; omega
      simp only [hno, decide_false, Bool.false_eq_true, if_false, Except.bind, hexec]
      simp only [hover, if_false] at hwb
      have d : dispatch cx 0xae { stack := cst.m.stack, alt := cst.m.alt, cond := cond, opCodeNum := cst.m.opCount, scriptIndex := idx, s := 0x69 :: r, codesepOffset := cst.m.codeStart }
          = (checkMultisigOn cx cst.m.stack cst.m.opCount cst.m.codeStart).map fun p => .more { stack := p.1, alt := cst.m.alt, cond := cond, opCodeNum := p.2, scriptIndex := idx, s := 0x69 :: r, codesepOffset := cst.m.codeStart } := rfl
      rw [d] at hwb
      have e : ∀ s1 : Core.State, Core.stepExec (coreCx cx sc) s1 ⟨c.toNat, [], [c]⟩ true
          = (Core.execMultisig (coreCx cx sc) s1.m true).map fun m => { s1 with m := m } := by
        intro s1; rw [hT]; rfl
      rw [e]
      have hcv := multisig_core cx sc hsh cst.m 1 true
      simp only
      cases hx : checkMultisigOn cx cst.m.stack cst.m.opCount cst.m.codeStart with
      | none =>
        rw [hx] at hwb hcv
        simp only [Option.bind_none] at hcv
        cases hp : Core.execMultisig (coreCx cx sc) { cst.m with opCount := cst.m.opCount + 1 } true with
        | error er => simp only [Except.map]; exact iter3_none cx _ hwb
        | ok m2 => rw [hp] at hcv; simp [okOpt] at hcv
      | some p =>
        rw [hx] at hwb hcv
        have hs' : p.1.length + cst.m.alt.length ≤ 1000 := by have := checkMultisigOn_len cx _ _ _ p hx; omega
        simp only [Option.map_some] at hwb
        rw [verify_pass cx p.1 cst.m.alt cond p.2 idx cst.m.codeStart r hall hs'] at hwb
        simp only [Option.bind_some, postMsig, if_true] at hcv
        cases hp : Core.execMultisig (coreCx cx sc) { cst.m with opCount := cst.m.opCount + 1 } true with
        | error er =>
          rw [hp] at hcv
          simp only [Except.map]
          apply iter3_none
          rw [hwb]
          simp only [okOpt, Option.map_none] at hcv
          by_cases hq : p.2 + 1 > 201
          · simp [hq]
          · have hq' : ¬ (p.2 + ((1 : Nat) : Int) > 201) := by simpa using hq
            simp only [hq, if_false]
            simp only [hq', if_false] at hcv
            rcases hp1 : p.1 with _ | ⟨top, r'⟩
            · rfl
            · rw [hp1] at hcv
              simp only at hcv ⊢
              by_cases ht : toBool top = true
              · simp [ht] at hcv
              · simp [ht]
        | ok m2 =>
          rw [hp] at hcv
          have hfr := multisig_frame (coreCx cx sc) _ m2 true hp
          simp only [Except.map]
          simp only [okOpt, Option.map_some] at hcv
          by_cases hq : p.2 + 1 > 201
          · have hq' : (p.2 + ((1 : Nat) : Int) > 201) := by simpa using hq
            simp [hq'] at hcv
            omega
          · have hq' : ¬ (p.2 + ((1 : Nat) : Int) > 201) := by simpa using hq
            simp only [hq', if_false] at hcv
            simp only [hq, if_false] at hwb
            rcases hp1 : p.1 with _ | ⟨top, r'⟩
            · rw [hp1] at hcv; cases hcv
            · rw [hp1] at hcv hwb
              simp only at hcv hwb
              by_cases ht : toBool top = true
              · simp only [ht, if_true, Option.some.injEq, Prod.mk.injEq] at hcv hwb
                obtain ⟨hc1, hc2⟩ := hcv
                refine ⟨3, _, by omega, by omega, ⟨hc1, ?_, h3, ?_, ?_⟩, rfl, rfl, iter3_more cx _ _ hwb⟩
                · rw [hfr]
                · simp only; rw [← hc2]; simp
                · rw [hfr]
              · simp [ht] at hcv

/-- under CONST_SCRIPTCODE a legacy script holding OP_CODESEPARATOR is refused wherever the op code stands -/
theorem step_codesep_rejects (cx : Core.Ctx) (op : Op) (hcode : op.code = 0xab)
    (hf : (cx.sigversion == Core.SigVersion.BASE && Core.has cx.flags Core.FLAG_CONST_SCRIPTCODE) = true) :
    ∀ st, ∃ e, Core.step cx st op = .error e := by
  intro st
  cases hs : Core.step cx st op with
  | error e => exact ⟨e, rfl⟩
  | ok st' =>
    exfalso
    obtain ⟨s1, _, h1, _, _⟩ := (Core.step_ok_iff cx st st' op).mp hs
    unfold Core.stepChecks at h1
    have hcs : (op.code == Core.OP_CODESEPARATOR) = true := by rw [hcode]; rfl
    simp only [Bool.and_eq_true] at hf
    split at h1
    · cases h1
    · simp only at h1
      split at h1
      · cases h1
      · split at h1
        · cases h1
        · simp only [hcs, hf.1, hf.2, Bool.and_self, if_true] at h1
          cases h1

/-! ### assembly -/

/-- the op codes the loop-level refinement speaks about -/
def coveredCode (c : Nat) : Bool :=
  c ≤ 0x4e || (0x51 ≤ c && c ≤ 0x60) || c == 0x61 || nopNs.contains c || Refine.covered.contains c || c == 0x79 || c == 0x7a
  || c == 0xb1 || c == 0xb2 || c == 0x63 || c == 0x64 || c == 0x65 || c == 0x66 || c == 0x67 || c == 0x68 || badOps.contains c
  || c == 0x88 || c == 0x9d || decide (0xba ≤ c) || c == 0xab || c == 0xac || c == 0xad || c == 0xae || c == 0xaf

/-- the scripts the loop-level refinement speaks about: every instruction Core's walk reads is a covered op code -/
def covered (script : Bytes) : Bool := (parse script).1.all (fun op => coveredCode op.code)

theorem covered_facts : ∀ t ∈ Refine.covered,
    kind t = .operation ∧ ¬ (t = 0xad ∨ t = 0xaf) ∧ Core.inConditionalRange t = false ∧ ¬ t ≤ 0x4e := by
  have h : Refine.covered.all (fun t => decide (kind t = .operation ∧ ¬ (t = 0xad ∨ t = 0xaf) ∧
      Core.inConditionalRange t = false ∧ ¬ t ≤ 0x4e)) = true := by decide
  intro t ht
  have := List.all_eq_true.mp h t ht
  simpa using this

theorem well_covered (cx : Btclib.Ctx) (sc : Bytes) (t : Nat) (h : t ∈ Refine.covered) : WellOp cx sc t := by
  simp only [Refine.covered, List.mem_append] at h
  rcases h with (h | h) | h
  · exact well_stack cx sc t h
  · exact well_arith cx sc t h
  · exact well_misc cx sc t (Or.inl h)

theorem pick_roll_refines (cx : Btclib.Ctx) (sc : Bytes) (stack alt : List Bytes) :
    btRes (operation cx 0x79 stack alt) = coreRes (Core.execStackOp (coreCx cx sc) stack alt 0x79) ∧
    btRes (operation cx 0x7a stack alt) = coreRes (Core.execStackOp (coreCx cx sc) stack alt 0x7a) := by
  obtain ⟨h1, h2⟩ := pick_roll_core cx sc stack alt
  constructor
  · rw [h1]
    show _ = coreRes (some ((Core.execPickRoll (coreCx cx sc) stack false).map fun s => (s, alt)))
    cases Core.execPickRoll (coreCx cx sc) stack false <;> rfl
  · rw [h2]
    show _ = coreRes (some ((Core.execPickRoll (coreCx cx sc) stack true).map fun s => (s, alt)))
    cases Core.execPickRoll (coreCx cx sc) stack true <;> rfl


theorem pick_roll_facts : ∀ t, (t = 0x79 ∨ t = 0x7a) →
    kind t = .operation ∧ ¬ (t = 0xad ∨ t = 0xaf) ∧ Core.inConditionalRange t = false ∧ ¬ t ≤ 0x4e := by
  intro t h; rcases h with rfl | rfl <;> decide

/-- one covered instruction: btclib's passes simulate Core's step -/
theorem sim_op_covered (cx : Btclib.Ctx) (sc : Bytes) (hsh : Shared cx sc) (st : St) (cst : Core.State) (op : Op) (rest : Bytes)
    (hR : R st cst) (hsz : st.stack.length + st.alt.length ≤ 1000) (hg : getOp st.s = some (op, rest))
    (hcov : coveredCode op.code = true)
    (hcsf : op.code = 0xab → (Core.has cx.flags Core.FLAG_CONST_SCRIPTCODE && !cx.segwit) = false)
    (hidx : -1 ≤ st.scriptIndex)
    (hstop : op.code = 0xab → cx.opCodeStops[(st.scriptIndex + 1).toNat]? = some (cst.pos + op.raw.length)) :
    SimOp cx sc st cst op rest := by
  cases hs : st.s with
  | nil => rw [hs] at hg; simp [getOp] at hg
  | cons c r =>
    rw [hs] at hg
    by_cases hp : 0 < c.toNat ∧ c.toNat ≤ 78
    · exact sim_push cx sc st cst c r op rest hR hsz hs hp hg
    · obtain ⟨hop, hrest⟩ := getOp_nonpush c r op rest hg hp
      subst hop hrest
      simp only at hcov
      have hcs : (c.toNat == Core.OP_CODESEPARATOR && (coreCx cx sc).sigversion == Core.SigVersion.BASE &&
            Core.has (coreCx cx sc).flags Core.FLAG_CONST_SCRIPTCODE) = false := by
        by_cases he : c.toNat = 0xab
        · have hf := hcsf he
          have hfl : (coreCx cx sc).flags = cx.flags := rfl
          have hsv : ((coreCx cx sc).sigversion == Core.SigVersion.BASE) = !cx.segwit := by
            unfold coreCx; cases cx.segwit <;> rfl
          rw [hfl, hsv]
          cases hseg : cx.segwit <;> cases hc : Core.has cx.flags Core.FLAG_CONST_SCRIPTCODE <;> simp_all
        · have : (c.toNat == Core.OP_CODESEPARATOR) = false := by
            simp only [Core.OP_CODESEPARATOR]; simpa using he
          simp [this]
      by_cases hexp : (c.toNat = 0x88 ∨ c.toNat = 0x9d) ∧ cst.vfExec.all id = true
      · exact sim_expansion cx sc st cst c rest hR hsz hs hexp.1 hexp.2
      by_cases hexs : (c.toNat = 0xad ∨ c.toNat = 0xaf) ∧ cst.vfExec.all id = true
      · exact sim_expansion_sig cx sc hsh st cst c rest hR hsz hs hexs.1 hexs.2
      apply sim_nonpush cx sc st cst c rest hR hsz hs hp hcs
      intro st1 s1 hR1 _ _ _ _ hv _ _ hsi hpos hh
      -- which family
      have hrange_of : ∀ (p : ¬ (99 ≤ c.toNat ∧ c.toNat < 105)), cst.vfExec.all id = true := by
        intro p; rcases hh with h | h
        · exact h
        · exact absurd h p
      simp only [coveredCode, Bool.or_eq_true, decide_eq_true_eq, Bool.and_eq_true, beq_iff_eq,
        List.contains_iff_mem] at hcov
      rcases hcov with ((((((((((((((((((((((h | h) | h) | h) | h) | h) | h) | h) | h) | h) | h) | h) | h) | h) | h) | h) | h) | h) | h) | h) | h) | h) | h) | h
      · -- OP_0
        have h0 : c.toNat = 0 := by omega
        rw [hrange_of (by omega)]
        exact disp_digit cx sc _ _ st1 s1 (Or.inl h0) hR1
      · rw [hrange_of (by omega)]
        exact disp_digit cx sc _ _ st1 s1 (Or.inr h) hR1
      · rw [hrange_of (by omega), h]
        exact disp_nop cx sc _ st1 s1 hR1
      · have hf := (nopN_exec (coreCx cx sc) [] [] _ h).2.2.1
        rw [hrange_of (by
          intro p; simp only [nopNs, List.mem_cons, List.mem_nil_iff, or_false] at h; omega)]
        exact disp_nopN cx sc _ _ st1 s1 h hR1
      · obtain ⟨f1, f2, f3, f4⟩ := covered_facts _ h
        rw [hrange_of (by
          intro p
          have : Core.inConditionalRange c.toNat = true := by
            unfold Core.inConditionalRange Core.OP_IF Core.OP_ENDIF; simp; omega
          rw [this] at f3; cases f3)]
        exact disp_operation cx sc _ _ st1 s1 f1 f2 f3 f4 (fun stack alt => operation_refines cx sc _ h stack alt)
          (well_covered cx sc _ h) hR1
      · rw [hrange_of (by omega), h]
        obtain ⟨f1, f2, f3, f4⟩ := pick_roll_facts 0x79 (Or.inl rfl)
        exact disp_operation cx sc _ _ st1 s1 f1 f2 f3 f4 (fun stack alt => (pick_roll_refines cx sc stack alt).1)
          (well_misc cx sc _ (Or.inr (Or.inl rfl))) hR1
      · rw [hrange_of (by omega), h]
        obtain ⟨f1, f2, f3, f4⟩ := pick_roll_facts 0x7a (Or.inr rfl)
        exact disp_operation cx sc _ _ st1 s1 f1 f2 f3 f4 (fun stack alt => (pick_roll_refines cx sc stack alt).2)
          (well_misc cx sc _ (Or.inr (Or.inr rfl))) hR1
      · rw [hrange_of (by omega), h]
        exact (disp_locktime cx sc _ st1 s1 hR1).1
      · rw [hrange_of (by omega), h]
        exact (disp_locktime cx sc _ st1 s1 hR1).2
      · exact disp_conditional cx sc _ _ st1 s1 _ (by omega) hR1 (by rw [hv])
      · exact disp_conditional cx sc _ _ st1 s1 _ (by omega) hR1 (by rw [hv])
      · exact disp_conditional cx sc _ _ st1 s1 _ (by omega) hR1 (by rw [hv])
      · exact disp_conditional cx sc _ _ st1 s1 _ (by omega) hR1 (by rw [hv])
      · exact disp_conditional cx sc _ _ st1 s1 _ (by omega) hR1 (by rw [hv])
      · exact disp_conditional cx sc _ _ st1 s1 _ (by omega) hR1 (by rw [hv])
      · rw [hrange_of (by
          intro p; simp only [badOps, List.mem_cons, List.mem_nil_iff, or_false] at h; omega)]
        exact disp_badop cx sc _ _ st1 s1 h
      · exact absurd ⟨Or.inl h, hrange_of (by omega)⟩ hexp
      · exact absurd ⟨Or.inr h, hrange_of (by omega)⟩ hexp
      · rw [hrange_of (by omega)]
        exact disp_high cx sc _ _ st1 s1 h
      · rw [hrange_of (by omega), h]
        refine disp_codesep cx sc _ st1 s1 hR1 ?_
        have := hstop h
        rw [hsi, hpos]
        simpa using this
      · rw [hrange_of (by omega), h]
        exact disp_checksig cx sc hsh _ st1 s1 hR1
      · exact absurd ⟨Or.inl h, hrange_of (by omega)⟩ hexs
      · rw [hrange_of (by omega), h]
        exact disp_multisig cx sc hsh _ st1 s1 hR1
      · exact absurd ⟨Or.inr h, hrange_of (by omega)⟩ hexs


theorem parseOps_length (f : Nat) (s : Bytes) : (parseOps f s).1.length ≤ s.length := by
  induction f generalizing s with
  | zero => simp [parseOps]
  | succ f ih =>
    unfold parseOps
    cases hg : getOp s with
    | none => simp
    | some p =>
      obtain ⟨op, rest⟩ := p
      have := (getOp_spec s op rest hg).2
      have := ih rest
      simp only [List.length_cons]; omega

/-- T3 at loop level: on every script made of covered op codes, from every initial stack within the limit, under every
    flag set, the btclib-shaped interpreter and Core's `EvalScript` give the same verdict and the same final stack, when
    btclib's `op_checksig` is Core's per-signature sequence over the checker Core's side uses (`hsig`) -/
theorem eval_refines (cx : Btclib.Ctx) (script : Bytes) (stack : List Bytes)
    (hsig : cx.opChecksig = sharedChecksig cx.checker cx.flags cx.segwit)
    (hcov : covered script = true) (hsz : stack.length ≤ 1000) :
    Btclib.eval cx script stack = toOut (Core.evalWith (coreCx cx script) stack 0) := by
  unfold Btclib.eval Core.evalWith
  rw [sv_counted]
  have hscr : (coreCx cx script).script = script := rfl
  rw [hscr]
  by_cases hlen : script.length > 10000
  · simp [Gen.Script.N_MAX_SCRIPT_SIZE, Core.MAX_SCRIPT_SIZE, hlen, toOut]
  · by_cases hpre : ((parse script).1.any (fun o => o.code == 0xab) && Core.has cx.flags Core.FLAG_CONST_SCRIPTCODE
        && !cx.segwit) = true
    · -- `prepare_script` refuses up front; Core refuses when its walk reaches the op code (or earlier)
      simp only [Gen.Script.N_MAX_SCRIPT_SIZE, Core.MAX_SCRIPT_SIZE, hlen, if_false, hpre, if_true, decide_false,
        Bool.and_false, Bool.false_eq_true]
      simp only [Bool.and_eq_true, Bool.not_eq_true'] at hpre
      obtain ⟨⟨hany, hconst⟩, hseg⟩ := hpre
      obtain ⟨o, ho, hoc⟩ := List.any_eq_true.mp hany
      have hoc' : o.code = 0xab := by simpa using hoc
      have hf : ((coreCx cx script).sigversion == Core.SigVersion.BASE &&
          Core.has (coreCx cx script).flags Core.FLAG_CONST_SCRIPTCODE) = true := by
        have hfl : (coreCx cx script).flags = cx.flags := rfl
        have hsv : ((coreCx cx script).sigversion == Core.SigVersion.BASE) = true := by
          unfold coreCx; rw [hseg]; rfl
        rw [hfl, hsv, hconst]; rfl
      obtain ⟨e, he⟩ := Core.run_rejects (coreCx cx script) o (step_codesep_rejects _ o hoc' hf) _ ho
        { m := { stack := stack, weightLeft := 0 } }
      rw [he]; rfl
    have hpre' : ((parse script).1.any (fun o => o.code == 0xab) && Core.has cx.flags Core.FLAG_CONST_SCRIPTCODE
        && !cx.segwit) = false := by simpa using hpre
    simp only [Gen.Script.N_MAX_SCRIPT_SIZE, Core.MAX_SCRIPT_SIZE, hlen, if_false, hpre', Bool.false_eq_true,
      decide_false, Bool.and_false]
    generalize hcx' : ({ cx with scriptBytes := script, opCodeStops := if (parse script).1.any (fun o => o.code == 0xab) then (opCodeSpans script).map (·.2.2) else [] } : Btclib.Ctx) = cx'
    have hcc : coreCx cx' script = coreCx cx script := by rw [← hcx']; rfl
    have hfl' : cx'.flags = cx.flags := by rw [← hcx']
    have hsg' : cx'.segwit = cx.segwit := by rw [← hcx']
    have hsh : Shared cx' script := by
      rw [← hcx']; exact ⟨hsig, rfl⟩
    have hst : (parse script).1.any (fun o => o.code == 0xab) = true →
        cx'.opCodeStops = (spansOf (parse script).1 0).map (·.2.2) := by
      intro h; rw [← hcx']; simp only [h, if_true]; rw [opCodeSpans_eq]
    have hsim := sim_loop cx' script
      (fun st cst op rest hR hs hg hin hidx hstop => sim_op_covered cx' script hsh st cst op rest hR hs hg
        (List.all_eq_true.mp hcov op hin)
        (fun hc => by
          have hany : (parse script).1.any (fun o => o.code == 0xab) = true :=
            List.any_eq_true.mpr ⟨op, hin, by simp [hc]⟩
          rw [hany, Bool.true_and] at hpre'
          rw [hfl', hsg']
          exact hpre')
        hidx
        (fun hc => by
          have hany : (parse script).1.any (fun o => o.code == 0xab) = true :=
            List.any_eq_true.mpr ⟨op, hin, by simp [hc]⟩
          rw [hst hany]; exact hstop))
      script.length script { stack := stack, s := script } { m := { stack := stack, weightLeft := 0 } }
      (3 * script.length + 2) [] rfl ⟨rfl, rfl, rfl, rfl, rfl⟩ (by simpa using hsz) (Nat.le_refl _)
      rfl rfl rfl (by have := parseOps_length script.length script; omega)
    rw [hsim, hcc]
    show finish (Core.run (coreCx cx script) (parse script).1 _) (parse script).2 = _
    cases Core.run (coreCx cx script) (parse script).1 { m := { stack := stack, weightLeft := 0 } } with
    | error e => rfl
    | ok c =>
      simp only [finish, toOut]
      by_cases ht : (!(parse script).2.isEmpty) = true
      · simp [ht]
      · by_cases hv : (!c.vfExec.isEmpty) = true
        · simp [ht, hv]
        · simp [ht, hv]


end Btc.Script.Sim
