import Proofs.C08.Refine
import Model.C08.BtclibTap
/-! Tapscript, op level: `tapscript.op_checksig` (btclib-shaped, `BtclibTap.opChecksig`) against Core's
`EvalChecksigTapscript`, both over the same `checkSchnorr`. -/
namespace Btc.Script.Tap
open Btc Btc.Script Btclib Refine

theorem enc_one : enc 1 = Core.ofBool true := by decide
theorem enc_zero : enc 0 = Core.ofBool false := by decide

/-- OP_CHECKSIG in tapscript: btclib's `op_checksig` (pops, empty key, the sigops budget, the 32-byte key rule, the
    upgradable-key flag, `encode_num(int(bool(signature)))`) leaves the stack and the budget `EvalChecksigTapscript` leaves
    (as `case OP_CHECKSIG` pushes its answer), and refuses when it does — for every flag set, checker, stack and budget -/
theorem checksig_tapscript (cx : Core.Ctx) (hsv : cx.sigversion = .TAPSCRIPT) (m : Core.Machine) (sig pk : Bytes) (r : List Bytes) :
    BtclibTap.opChecksig cx.flags cx.checker (pk :: sig :: r) m.codesepPos m.weightLeft =
      (okOpt (Core.evalChecksigTapscript cx m sig pk)).map fun p => (Core.ofBool p.1 :: r, p.2.weightLeft) := by
  unfold BtclibTap.opChecksig Core.evalChecksigTapscript
  simp only [Core.VALIDATION_WEIGHT_PER_SIGOP_PASSED, hsv]
  by_cases hpk : pk.length = 0
  · -- empty key: btclib refuses first, Core after the budget
    simp only [hpk, if_true]
    by_cases hs : sig.isEmpty = true
    · simp [hs, okOpt]
    · have hs' : sig.isEmpty = false := by simpa using hs
      by_cases hb : m.weightLeft - 50 < 0
      · simp [hs', hb, okOpt]
      · simp [hs', hb, okOpt]
  · simp only [hpk, if_false]
    by_cases hs : sig.isEmpty = true
    · -- empty signature: no budget is spent, nothing is verified
      simp only [hs, Bool.not_true, Bool.false_eq_true, if_false, Bool.false_and]
      by_cases h32 : pk.length = 32
      · simp [h32, okOpt, enc_zero]
      · by_cases hf : Core.has cx.flags Core.FLAG_DISCOURAGE_UPGRADABLE_PUBKEYTYPE = true
        · simp [h32, hf, okOpt]
        · have hf' : Core.has cx.flags Core.FLAG_DISCOURAGE_UPGRADABLE_PUBKEYTYPE = false := by simpa using hf
          simp [h32, hf', okOpt, enc_zero]
    · have hs' : sig.isEmpty = false := by simpa using hs
      simp only [hs', Bool.not_false, if_true, Bool.true_and]
      by_cases hb : m.weightLeft - 50 < 0
      · simp [hb, okOpt]
      · simp only [hb, decide_false, Bool.false_eq_true, if_false]
        by_cases h32 : pk.length = 32
        · simp only [h32, if_true]
          cases hck : cx.checker.checkSchnorr sig pk Core.SigVersion.TAPSCRIPT m.codesepPos with
          | some e => simp [okOpt]
          | none => simp [okOpt, enc_one]
        · by_cases hf : Core.has cx.flags Core.FLAG_DISCOURAGE_UPGRADABLE_PUBKEYTYPE = true
          · simp [h32, hf, okOpt]
          · have hf' : Core.has cx.flags Core.FLAG_DISCOURAGE_UPGRADABLE_PUBKEYTYPE = false := by simpa using hf
            simp [h32, hf', okOpt, enc_one]

end Btc.Script.Tap
