import Model.C19.Fuel
/-!
Fuel always suffices, consumption is exact, depth and counts are bounded: lemmas about the generic
models of `Model/C19/Fuel.lean`.  Core Lean only.
-/
namespace Btc.Fuel
open Btc

variable {σ α : Type}

/-! ## `many` -/

/-- more fuel than symbols never changes the answer of the loop. -/
theorem many_succ (p : Step σ α) (hc : Consuming p) :
    ∀ (fuel : Nat) (s : List σ), s.length ≤ fuel → many p (fuel + 1) s = many p fuel s := by
  intro fuel
  induction fuel with
  | zero =>
    intro s hs
    have : s = [] := List.eq_nil_of_length_eq_zero (by omega)
    subst this
    simp only [many]
    cases hp : p [] with
    | none => rfl
    | some r =>
      obtain ⟨x, rest⟩ := r
      have := hc _ _ _ hp
      simp at this
  | succ n ih =>
    intro s hs
    rw [many, many]
    cases hp : p s with
    | none => rfl
    | some r =>
      obtain ⟨x, rest⟩ := r
      have hl := hc _ _ _ hp
      simp only
      rw [ih rest (by omega)]

theorem many_add (p : Step σ α) (hc : Consuming p) (s : List σ) :
    ∀ k, many p (s.length + k) s = many p s.length s := by
  intro k
  induction k with
  | zero => rfl
  | succ k ih => rw [← Nat.add_assoc, many_succ p hc _ s (by omega), ih]

/-- the loop with any fuel ≥ the length of the input is the loop with exactly that fuel. -/
theorem many_fuel (p : Step σ α) (hc : Consuming p) (s : List σ) (fuel : Nat) (h : s.length ≤ fuel) :
    many p fuel s = manyAll p s := by
  obtain ⟨k, rfl⟩ := Nat.exists_eq_add_of_le h
  exact many_add p hc s k

/-- with enough fuel the loop stops only where the step refuses (never because fuel ran out). -/
theorem many_stops (p : Step σ α) (hc : Consuming p) :
    ∀ (fuel : Nat) (s : List σ), s.length ≤ fuel → p (many p fuel s).2 = none := by
  intro fuel
  induction fuel with
  | zero =>
    intro s hs
    have : s = [] := List.eq_nil_of_length_eq_zero (by omega)
    subst this
    simp only [many]
    cases hp : p [] with
    | none => rfl
    | some r =>
      obtain ⟨x, rest⟩ := r
      have := hc _ _ _ hp
      simp at this
  | succ n ih =>
    intro s hs
    rw [many]
    cases hp : p s with
    | none => exact hp
    | some r =>
      obtain ⟨x, rest⟩ := r
      have hl := hc _ _ _ hp
      exact ih rest (by omega)

/-- the loop reads no more than it returns, and one symbol at least per item. -/
theorem many_length (p : Step σ α) (hc : Consuming p) :
    ∀ (fuel : Nat) (s : List σ), (many p fuel s).1.length + (many p fuel s).2.length ≤ s.length := by
  intro fuel
  induction fuel with
  | zero => intro s; simp [many]
  | succ n ih =>
    intro s
    rw [many]
    cases hp : p s with
    | none => simp
    | some r =>
      obtain ⟨x, rest⟩ := r
      have hl := hc _ _ _ hp
      have := ih rest
      simp only [List.length_cons]
      omega

theorem many_suffix (p : Step σ α) (hs : Suffixing p) :
    ∀ (fuel : Nat) (s : List σ), ∃ pre, s = pre ++ (many p fuel s).2 := by
  intro fuel
  induction fuel with
  | zero => intro s; exact ⟨[], rfl⟩
  | succ n ih =>
    intro s
    rw [many]
    cases hp : p s with
    | none => exact ⟨[], rfl⟩
    | some r =>
      obtain ⟨x, rest⟩ := r
      obtain ⟨pre, rfl⟩ := hs _ _ _ hp
      obtain ⟨pre2, h2⟩ := ih rest
      refine ⟨pre ++ pre2, ?_⟩
      simp only
      rw [List.append_assoc, ← h2]

/-! ## `times` / `counted` -/

theorem times_length (p : Step σ α) :
    ∀ (n : Nat) (s : List σ) (xs : List α) (r : List σ), times p n s = some (xs, r) → xs.length = n := by
  intro n
  induction n with
  | zero => intro s xs r h; simp only [times, Option.some.injEq, Prod.mk.injEq] at h; simp [← h.1]
  | succ n ih =>
    intro s xs r h
    rw [times] at h
    cases hp : p s with
    | none => simp [hp] at h
    | some q =>
      obtain ⟨x, rest⟩ := q
      simp only [hp] at h
      cases ht : times p n rest with
      | none => simp [ht] at h
      | some q2 =>
        obtain ⟨ys, r2⟩ := q2
        simp only [ht, Option.some.injEq, Prod.mk.injEq] at h
        have := ih rest ys r2 ht
        simp [← h.1, this]

/-- `n` items of a consuming step cost at least `n` symbols. -/
theorem times_consumes (p : Step σ α) (hc : Consuming p) :
    ∀ (n : Nat) (s : List σ) (xs : List α) (r : List σ), times p n s = some (xs, r) →
      n + r.length ≤ s.length := by
  intro n
  induction n with
  | zero => intro s xs r h; simp only [times, Option.some.injEq, Prod.mk.injEq] at h; simp [← h.2]
  | succ n ih =>
    intro s xs r h
    rw [times] at h
    cases hp : p s with
    | none => simp [hp] at h
    | some q =>
      obtain ⟨x, rest⟩ := q
      simp only [hp] at h
      cases ht : times p n rest with
      | none => simp [ht] at h
      | some q2 =>
        obtain ⟨ys, r2⟩ := q2
        simp only [ht, Option.some.injEq, Prod.mk.injEq] at h
        have := ih rest ys r2 ht
        have := hc _ _ _ hp
        rw [← h.2]
        omega

/-- a count above the cap is refused whatever the item parser is: no item is read. -/
theorem counted_tooMany (cap : Nat) (item : Step UInt8 α) (b rest : Bytes) (n : Nat)
    (h : VarInt.parse b Gen.Limits.MAX_SIZE = .ok (n, rest)) (hn : n > cap) :
    counted cap item b = .error .tooMany := by
  simp [counted, h, hn]

/-- what is accepted holds at most `cap` items, and no more items than bytes were left. -/
theorem counted_bounds (cap : Nat) (item : Step UInt8 α) (hc : Consuming item) (b : Bytes)
    (xs : List α) (r : Bytes) (h : counted cap item b = .ok (xs, r)) :
    xs.length ≤ cap ∧ xs.length + r.length ≤ b.length := by
  unfold counted at h
  cases hv : VarInt.parse b Gen.Limits.MAX_SIZE with
  | error e => simp [hv] at h
  | ok q =>
    obtain ⟨n, rest⟩ := q
    simp only [hv] at h
    by_cases hn : n > cap
    · simp [hn] at h
    · simp only [hn, if_false] at h
      cases ht : times item n rest with
      | none => simp [ht] at h
      | some q2 =>
        simp only [ht, Except.ok.injEq] at h
        subst h
        have hl := times_length item n rest xs r ht
        have hcs := times_consumes item hc n rest xs r ht
        -- the count itself took at least one byte
        have hrest : rest.length ≤ b.length := by
          unfold VarInt.parse VarInt.parseWith at hv
          cases b with
          | nil => simp at hv
          | cons x tl =>
            simp only at hv
            split at hv
            · rename_i sz mn _
              unfold VarInt.parseNumber at hv
              by_cases hsz : tl.length < sz
              · simp [hsz, Except.bind] at hv
              · simp only [hsz, if_false] at hv
                by_cases hm : ofLE (List.take sz tl) < mn
                · simp [hm, Except.bind] at hv
                · simp only [hm, if_false, Except.bind, VarInt.checkMax] at hv
                  split at hv
                  · cases hv
                  · simp only [Except.ok.injEq, Prod.mk.injEq] at hv
                    rw [← hv.2]
                    simp only [List.length_drop, List.length_cons]
                    omega
            · simp only [VarInt.checkMax] at hv
              split at hv
              · cases hv
              · simp only [Except.ok.injEq, Prod.mk.injEq] at hv
                rw [← hv.2]
                simp
        omega

/-! ## the nested grammar -/

variable [DecidableEq σ]

theorem parseTree_step (d : Delims σ) (m : Nat) (leaf : Step σ α) (fuel depth : Nat) (s : List σ) :
    parseTree d m leaf (fuel + 1) depth s =
      if depth > m then none
      else match s with
        | [] => none
        | c :: r =>
          if c = d.opn then
            match parseTree d m leaf fuel (depth + 1) r with
            | none => none
            | some (l, r1) =>
              match r1 with
              | [] => none
              | c1 :: r2 =>
                if c1 = d.sep then
                  match parseTree d m leaf fuel (depth + 1) r2 with
                  | none => none
                  | some (rt, r3) =>
                    match r3 with
                    | [] => none
                    | c2 :: r4 => if c2 = d.cls then some (.node l rt, r4) else none
                else none
          else match leaf (c :: r) with
            | none => none
            | some (x, rest) => some (.leaf x, rest) := by
  rfl

/-- exact consumption: an accepted tree is the written form of what was read, the rest is what
    follows it, and at least one symbol was read. -/
theorem parseTree_consumes (d : Delims σ) (m : Nat) (leaf : Step σ α) (hc : Consuming leaf) :
    ∀ (fuel depth : Nat) (s : List σ) (t : Tree α) (rest : List σ),
      parseTree d m leaf fuel depth s = some (t, rest) → rest.length < s.length := by
  intro fuel
  induction fuel with
  | zero => intro depth s t rest h; simp [parseTree] at h
  | succ n ih =>
    intro depth s t rest h
    rw [parseTree_step] at h
    split at h
    · cases h
    · split at h
      · cases h
      · rename_i c r
        split at h
        · cases h1 : parseTree d m leaf n (depth + 1) r with
          | none => simp [h1] at h
          | some q =>
            obtain ⟨l, r1⟩ := q
            simp only [h1] at h
            have i1 := ih _ _ _ _ h1
            cases r1 with
            | nil => simp at h
            | cons c1 r2 =>
              simp only at h
              split at h
              · cases h2 : parseTree d m leaf n (depth + 1) r2 with
                | none => simp [h2] at h
                | some q2 =>
                  obtain ⟨rt, r3⟩ := q2
                  simp only [h2] at h
                  have i2 := ih _ _ _ _ h2
                  cases r3 with
                  | nil => simp at h
                  | cons c2 r4 =>
                    simp only at h
                    split at h
                    · simp only [Option.some.injEq, Prod.mk.injEq] at h
                      rw [← h.2]
                      simp only [List.length_cons] at *
                      omega
                    · cases h
              · cases h
        · cases hl : leaf (c :: r) with
          | none => simp [hl] at h
          | some q =>
            obtain ⟨x, rest'⟩ := q
            simp only [hl, Option.some.injEq, Prod.mk.injEq] at h
            have := hc _ _ _ hl
            rw [← h.2]
            exact this

/-- more fuel than symbols never changes the answer of the descent. -/
theorem parseTree_succ (d : Delims σ) (m : Nat) (leaf : Step σ α) (hc : Consuming leaf) :
    ∀ (fuel depth : Nat) (s : List σ), s.length < fuel →
      parseTree d m leaf (fuel + 1) depth s = parseTree d m leaf fuel depth s := by
  intro fuel
  induction fuel with
  | zero => intro depth s h; omega
  | succ n ih =>
    intro depth s hs
    rw [parseTree_step, parseTree_step (fuel := n)]
    split
    · rfl
    · cases s with
      | nil => rfl
      | cons c r =>
        simp only
        split
        · simp only [List.length_cons] at hs
          rw [ih (depth + 1) r (by omega)]
          cases h1 : parseTree d m leaf n (depth + 1) r with
          | none => rfl
          | some q =>
            obtain ⟨l, r1⟩ := q
            have i1 := parseTree_consumes d m leaf hc _ _ _ _ _ h1
            cases r1 with
            | nil => rfl
            | cons c1 r2 =>
              simp only
              split
              · simp only [List.length_cons] at i1
                rw [ih (depth + 1) r2 (by omega)]
              · rfl
        · rfl

theorem parseTree_add (d : Delims σ) (m : Nat) (leaf : Step σ α) (hc : Consuming leaf)
    (depth : Nat) (s : List σ) :
    ∀ k, parseTree d m leaf (s.length + 1 + k) depth s = parseTree d m leaf (s.length + 1) depth s := by
  intro k
  induction k with
  | zero => rfl
  | succ k ih => rw [← Nat.add_assoc, parseTree_succ d m leaf hc _ depth s (by omega), ih]

/-- exact consumption: what is accepted is the written form of the tree, followed by the rest. -/
theorem parseTree_print (d : Delims σ) (m : Nat) (leaf : Step σ α) (pl : α → List σ)
    (hl : ∀ s x rest, leaf s = some (x, rest) → s = pl x ++ rest) :
    ∀ (fuel depth : Nat) (s : List σ) (t : Tree α) (rest : List σ),
      parseTree d m leaf fuel depth s = some (t, rest) → s = printTree d pl t ++ rest := by
  intro fuel
  induction fuel with
  | zero => intro depth s t rest h; simp [parseTree] at h
  | succ n ih =>
    intro depth s t rest h
    rw [parseTree_step] at h
    split at h
    · cases h
    · split at h
      · cases h
      · rename_i c r
        split at h
        · rename_i hcopn
          cases h1 : parseTree d m leaf n (depth + 1) r with
          | none => simp [h1] at h
          | some q =>
            obtain ⟨l, r1⟩ := q
            simp only [h1] at h
            have i1 := ih _ _ _ _ h1
            cases r1 with
            | nil => simp at h
            | cons c1 r2 =>
              simp only at h
              split at h
              · rename_i hsep
                cases h2 : parseTree d m leaf n (depth + 1) r2 with
                | none => simp [h2] at h
                | some q2 =>
                  obtain ⟨rt, r3⟩ := q2
                  simp only [h2] at h
                  have i2 := ih _ _ _ _ h2
                  cases r3 with
                  | nil => simp at h
                  | cons c2 r4 =>
                    simp only at h
                    split at h
                    · rename_i hcls
                      simp only [Option.some.injEq, Prod.mk.injEq] at h
                      rw [← h.1, ← h.2, i1, i2, hcopn, hsep, hcls]
                      simp [printTree]
                    · cases h
              · cases h
        · cases hq : leaf (c :: r) with
          | none => simp [hq] at h
          | some q =>
            obtain ⟨x, rest'⟩ := q
            simp only [hq, Option.some.injEq, Prod.mk.injEq] at h
            rw [← h.1, ← h.2]
            exact hl _ _ _ hq

/-- bounded recursion: a tree accepted at `depth` enclosing braces nests at most `m - depth`
    further; in particular the descent never goes deeper than `m + 1` frames. -/
theorem parseTree_depth (d : Delims σ) (m : Nat) (leaf : Step σ α) :
    ∀ (fuel depth : Nat) (s : List σ) (t : Tree α) (rest : List σ),
      parseTree d m leaf fuel depth s = some (t, rest) → depth + t.depth ≤ m := by
  intro fuel
  induction fuel with
  | zero => intro depth s t rest h; simp [parseTree] at h
  | succ n ih =>
    intro depth s t rest h
    rw [parseTree_step] at h
    split at h
    · cases h
    · rename_i hdepth
      split at h
      · cases h
      · rename_i c r
        split at h
        · cases h1 : parseTree d m leaf n (depth + 1) r with
          | none => simp [h1] at h
          | some q =>
            obtain ⟨l, r1⟩ := q
            simp only [h1] at h
            have i1 := ih _ _ _ _ h1
            cases r1 with
            | nil => simp at h
            | cons c1 r2 =>
              simp only at h
              split at h
              · cases h2 : parseTree d m leaf n (depth + 1) r2 with
                | none => simp [h2] at h
                | some q2 =>
                  obtain ⟨rt, r3⟩ := q2
                  simp only [h2] at h
                  have i2 := ih _ _ _ _ h2
                  cases r3 with
                  | nil => simp at h
                  | cons c2 r4 =>
                    simp only at h
                    split at h
                    · simp only [Option.some.injEq, Prod.mk.injEq] at h
                      rw [← h.1]
                      simp only [Tree.depth]
                      omega
                    · cases h
              · cases h
        · cases hq : leaf (c :: r) with
          | none => simp [hq] at h
          | some q =>
            obtain ⟨x, rest'⟩ := q
            simp only [hq, Option.some.injEq, Prod.mk.injEq] at h
            rw [← h.1]
            simp only [Tree.depth]
            omega

theorem letterLeaf_consuming : Consuming letterLeaf := by
  intro s x rest h
  cases s with
  | nil => simp [letterLeaf] at h
  | cons c r =>
    simp only [letterLeaf] at h
    split at h
    · simp only [Option.some.injEq, Prod.mk.injEq] at h
      simp [← h.2]
    · cases h

theorem letterLeaf_print : ∀ s x rest, letterLeaf s = some (x, rest) → s = [x] ++ rest := by
  intro s x rest h
  cases s with
  | nil => simp [letterLeaf] at h
  | cons c r =>
    simp only [letterLeaf] at h
    split at h
    · simp only [Option.some.injEq, Prod.mk.injEq] at h
      simp [← h.1, ← h.2]
    · cases h

end Btc.Fuel
