import Proofs.C05.Tx
import Proofs.C05.PsbtMap
import Proofs.C05.Misc
import Model.C08.Parse
import Proofs.C19.Fuel
import Generated.Limits
/-!
C19 on the parser models the other properties own: exact consumption / proper-suffix (T1),
consumers total on the parser's image (T2), bounded allocation (T3).  Core Lean only.
-/
namespace Btc.Wire
open Btc

variable {α β : Type}

/-- exact consumption, from the C05 laws: the bytes read are the serialization of what is returned,
    the bytes left are exactly the rest, and the count of bytes read is the reported size. -/
theorem Lawful.consumed {c : Codec α} (h : Lawful c) (b : Bytes) (t : α) (rest : Bytes)
    (hp : c.parse b = .ok (t, rest)) :
    c.valid t ∧ b = c.ser t ++ rest ∧ c.size t + rest.length = b.length := by
  obtain ⟨hv, hb⟩ := h.ser_parse b t rest hp
  refine ⟨hv, hb, ?_⟩
  rw [h.size_eq t hv]
  have := congrArg List.length hb
  simp only [List.length_append] at this
  omega

/-- the bytes read are exactly the serialization of what is returned, the rest is exactly what is left, and
    the bytes read are as many as the reported size. -/
def ReadsExactly (c : Codec α) : Prop :=
  ∀ b t rest, c.parse b = .ok (t, rest) → b = c.ser t ++ rest ∧ c.size t + rest.length = b.length

theorem readsExactly_of {c : Codec α} (h : Lawful c) : ReadsExactly c :=
  fun b t rest hp => (h.consumed b t rest hp).2

/-- every valid object has at least one byte of encoding. -/
def NonEmpty (c : Codec α) : Prop := ∀ t, c.valid t → 0 < (c.ser t).length

/-- the parser reads at least one byte whenever it answers. -/
def Consuming (c : Codec α) : Prop := ∀ b t rest, c.parse b = .ok (t, rest) → rest.length < b.length

theorem consuming_of {c : Codec α} (h : Lawful c) (hn : NonEmpty c) : Consuming c := by
  intro b t rest hp
  obtain ⟨hv, hb, _⟩ := h.consumed b t rest hp
  have := hn t hv
  have hl := congrArg List.length hb
  simp only [List.length_append] at hl
  omega

theorem nonEmpty_bytesN (n : Nat) (e : Err) (hn : 0 < n) : NonEmpty (bytesN n e) := by
  intro t hv
  simp only [bytesN] at hv ⊢
  omega

theorem nonEmpty_map {c : Codec α} (h : NonEmpty c) (f : α → β) (g : β → α) : NonEmpty (c.map f g) := by
  intro t hv
  exact h (g t) hv.1

theorem nonEmpty_pair_left {a : Codec α} {b : Codec β} (h : NonEmpty a) : NonEmpty (pair a b) := by
  intro t hv
  have := h t.1 hv.1
  simp only [pair, List.length_append]
  omega

theorem nonEmpty_prefixed {cnt : Codec Nat} {body : Nat → Codec α} {len : α → Nat} (h : NonEmpty cnt) :
    NonEmpty (prefixed cnt body len) := by
  intro t hv
  have := h (len t) hv.1
  simp only [prefixed, List.length_append]
  omega

theorem nonEmpty_guardLen {c : Codec α} (h : NonEmpty c) (n : Nat) (e : Err) : NonEmpty (c.guardLen n e) := by
  intro t hv
  exact h t hv

theorem nonEmpty_varInt (m : Nat) : NonEmpty (varInt m) := by
  intro t _
  obtain ⟨h, tl, e, _⟩ := VarInt.ser_head t
  simp only [varInt]
  rw [e]; simp

theorem nonEmpty_varBytes : NonEmpty varBytes := nonEmpty_prefixed (nonEmpty_varInt _)
theorem nonEmpty_listOf (m : Nat) (c : Codec α) : NonEmpty (listOf m c) := nonEmpty_prefixed (nonEmpty_varInt _)
theorem nonEmpty_uintLE (n : Nat) (hn : 0 < n) : NonEmpty (uintLE n) := nonEmpty_map (nonEmpty_bytesN n _ hn) _ _
theorem nonEmpty_uintBE (n : Nat) (hn : 0 < n) : NonEmpty (uintBE n) := nonEmpty_map (nonEmpty_bytesN n _ hn) _ _
theorem nonEmpty_intLE (n : Nat) (hn : 0 < n) : NonEmpty (intLE n) := nonEmpty_map (nonEmpty_uintLE n hn) _ _
theorem nonEmpty_revBytesN (n : Nat) (hn : 0 < n) : NonEmpty (revBytesN n) := nonEmpty_map (nonEmpty_bytesN n _ hn) _ _

theorem nonEmpty_outPoint : NonEmpty outPoint :=
  nonEmpty_map (nonEmpty_pair_left (nonEmpty_revBytesN 32 (by decide))) _ _
theorem nonEmpty_witness : NonEmpty witness := nonEmpty_listOf _ _
theorem nonEmpty_txIn : NonEmpty txIn := nonEmpty_map (nonEmpty_pair_left nonEmpty_outPoint) _ _
theorem nonEmpty_txOut : NonEmpty txOut := nonEmpty_map (nonEmpty_pair_left (nonEmpty_intLE 8 (by decide))) _ _
theorem nonEmpty_tx : NonEmpty tx := by
  intro t _
  simp only [tx, Tx.ser, List.length_append, leBytes_length]
  omega
theorem nonEmpty_blockHeader : NonEmpty blockHeader :=
  nonEmpty_guardLen (nonEmpty_map (nonEmpty_pair_left (nonEmpty_intLE 4 (by decide))) _ _) _ _
theorem nonEmpty_block : NonEmpty block := nonEmpty_map (nonEmpty_pair_left nonEmpty_blockHeader) _ _
theorem nonEmpty_xkey : NonEmpty xkey :=
  nonEmpty_guardLen (nonEmpty_map (nonEmpty_pair_left (nonEmpty_bytesN 4 _ (by decide))) _ _) _ _

/-! ## T3: counts -/

/-- the cap of a CompactSize read only decides whether the value is refused as too big. -/
theorem VarInt.parse_cap (b : Bytes) (M m n : Nat) (rest : Bytes) (h : VarInt.parse b M = .ok (n, rest)) :
    VarInt.parse b m = if n > m then .error .toobig else .ok (n, rest) := by
  unfold VarInt.parse VarInt.parseWith at h ⊢
  cases b with
  | nil => simp at h
  | cons x tl =>
    simp only at h ⊢
    split
    · rename_i sz mn hf
      simp only [hf] at h
      cases hq : VarInt.parseNumber tl sz mn with
      | error e => simp [hq, Except.bind] at h
      | ok q =>
        simp only [hq, Except.bind, VarInt.checkMax] at h ⊢
        split at h
        · cases h
        · cases h
          rfl
    · rename_i hf
      simp only [hf, VarInt.checkMax] at h ⊢
      split at h
      · cases h
      · cases h
        rfl

/-- a count above the cap of the call site is refused before any item is read: the answer is the
    same whatever the item codec is. -/
theorem listOf_rejects_above_cap (m : Nat) (c : Codec α) (b : Bytes) (M n : Nat) (rest : Bytes)
    (h : VarInt.parse b M = .ok (n, rest)) (hn : n > m) : (listOf m c).parse b = .error .toobig := by
  have := VarInt.parse_cap b M m n rest h
  simp only [hn, if_true] at this
  simp [listOf, prefixed, varInt, this, Err.ofVarInt]

theorem serList_length_ge {c : Codec α} (hn : NonEmpty c) (l : List α) (hv : ∀ x ∈ l, c.valid x) :
    l.length ≤ (serList c l).length := by
  induction l with
  | nil => simp [serList]
  | cons x xs ih =>
    have h1 := hn x (hv x (by simp))
    have h2 := ih (fun y hy => hv y (by simp [hy]))
    simp only [serList, List.flatMap_cons, List.length_append, List.length_cons] at h2 ⊢
    omega

/-- what a count-prefixed list parser accepts holds at most `m` items, and fewer items than the
    bytes it was given: nothing is built that the input did not pay for. -/
theorem listOf_bounds (m : Nat) {c : Codec α} (hl : Lawful c) (hn : NonEmpty c) (b : Bytes) (l : List α)
    (rest : Bytes) (hp : (listOf m c).parse b = .ok (l, rest)) :
    l.length ≤ m ∧ l.length + rest.length < b.length := by
  obtain ⟨hv, hb, _⟩ := (lawful_listOf m hl).consumed b l rest hp
  rw [listOf_valid] at hv
  refine ⟨hv.1.1, ?_⟩
  have h1 := serList_length_ge hn l hv.2
  obtain ⟨h, tl, e, _⟩ := VarInt.ser_head l.length
  have hlen := congrArg List.length hb
  rw [listOf_ser, e] at hlen
  simp only [List.length_append, List.length_cons] at hlen
  omega

end Btc.Wire

namespace Btc.Psbt
open Btc Btc.Wire

theorem nonEmpty_lenBytes : NonEmpty lenBytes := nonEmpty_prefixed (nonEmpty_varInt _)
theorem nonEmpty_record : NonEmpty record := nonEmpty_pair_left nonEmpty_lenBytes
theorem consuming_record : Consuming record := consuming_of lawful_record nonEmpty_record

/-- more fuel than bytes never changes the answer of the record loop. -/
theorem parseRecs_succ : ∀ (fuel : Nat) (b : Bytes) (seen : List Bytes), b.length < fuel →
    parseRecs (fuel + 1) b seen = parseRecs fuel b seen := by
  intro fuel
  induction fuel with
  | zero => intro b seen h; omega
  | succ n ih =>
    intro b seen hb
    cases b with
    | nil => simp [parseRecs]
    | cons x xs =>
      rw [parseRecs, parseRecs]
      split
      · rfl
      · cases hr : record.parse (x :: xs) with
        | error e => rfl
        | ok q =>
          obtain ⟨⟨k, v⟩, r⟩ := q
          have hl := consuming_record _ _ _ hr
          simp only [List.length_cons] at hl hb
          simp only
          split
          · rfl
          · rw [ih r (k :: seen) (by omega)]

theorem parseRecs_add (b : Bytes) (seen : List Bytes) :
    ∀ k, parseRecs (b.length + 1 + k) b seen = parseRecs (b.length + 1) b seen := by
  intro k
  induction k with
  | zero => rfl
  | succ k ih => rw [← Nat.add_assoc, parseRecs_succ _ b seen (by omega), ih]

end Btc.Psbt

namespace Btc.Script
open Btc Btc.Fuel

/-- one instruction is exactly its raw bytes off the front; at least the op code byte is read. -/
theorem getOp_exact (s : Bytes) (op : Op) (rest : Bytes) (h : getOp s = some (op, rest)) :
    s = op.raw ++ rest ∧ rest.length < s.length := by
  cases s with
  | nil => simp [getOp] at h
  | cons c r =>
    simp only [getOp] at h
    split at h
    · simp only [Option.some.injEq, Prod.mk.injEq] at h
      rw [← h.1, ← h.2]; simp
    · split at h
      · split at h
        · cases h
        · simp only [Option.some.injEq, Prod.mk.injEq] at h
          rw [← h.1, ← h.2]
          simp only [List.cons_append, List.take_append_drop, List.length_cons, List.length_drop, true_and]
          omega
      · split at h
        · cases h
        · split at h
          · cases h
          · simp only [Option.some.injEq, Prod.mk.injEq] at h
            rw [← h.1, ← h.2]
            simp only [List.cons_append, List.append_assoc, List.take_append_drop, List.length_cons,
              List.length_drop, true_and]
            have : 0 < 2 ^ (c.toNat - 76) := Nat.pow_pos (by decide)
            omega

theorem getOp_consuming : Consuming (getOp : Step UInt8 Op) := fun s op rest h => (getOp_exact s op rest h).2
theorem getOp_suffixing : Suffixing (getOp : Step UInt8 Op) := fun s op rest h => ⟨op.raw, (getOp_exact s op rest h).1⟩

/-- C08's instruction walk is the generic loop over `getOp`. -/
theorem parseOps_eq_many : ∀ (fuel : Nat) (s : Bytes), parseOps fuel s = many getOp fuel s := by
  intro fuel
  induction fuel with
  | zero => intro s; rfl
  | succ n ih =>
    intro s
    rw [parseOps, many]
    cases getOp s with
    | none => rfl
    | some q => simp only [ih]

theorem parseOps_exact : ∀ (fuel : Nat) (s : Bytes),
    s = serializeOps (parseOps fuel s).1 ++ (parseOps fuel s).2 := by
  intro fuel
  induction fuel with
  | zero => intro s; simp [parseOps, serializeOps]
  | succ n ih =>
    intro s
    rw [parseOps]
    cases h : getOp s with
    | none => simp [serializeOps]
    | some q =>
      obtain ⟨op, rest⟩ := q
      have := (getOp_exact s op rest h).1
      simp only [serializeOps, List.flatMap_cons, List.append_assoc]
      have i := ih rest
      simp only [serializeOps] at i
      rw [← i]
      exact this

end Btc.Script
