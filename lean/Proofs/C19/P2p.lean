import Proofs.C19.Wire
import Proofs.C05.P2p
import Model.C06.Base58
import Model.C06.Bech32
/-!
C19 on the models that landed after the first wave: C05's p2p envelope and payload codecs (progress,
count caps before items), C06's Base58Check and bech32 decoders (length bound before any work; the
chunk loop's fuel suffices; nothing is returned that the text did not pay for).  Core Lean only.
-/
namespace Btc.Wire
open Btc

variable {α β κ : Type}

theorem nonEmpty_refine {c : Codec α} (h : NonEmpty c) (p : α → Bool) (e : Err) : NonEmpty (c.refine p e) := by
  intro t hv
  exact h t hv.1

theorem nonEmpty_prefixedBy {hd : Codec κ} {body : κ → Codec α} {key : α → κ} (h : NonEmpty hd) :
    NonEmpty (prefixedBy hd body key) := by
  intro t hv
  have := h (key t) hv.1
  simp only [prefixedBy, List.length_append]
  omega

theorem nonEmpty_pair_right {a : Codec α} {b : Codec β} (h : NonEmpty b) : NonEmpty (pair a b) := by
  intro t hv
  have := h t.2 hv.2
  simp only [pair, List.length_append]
  omega

theorem nonEmpty_msgHead : NonEmpty msgHead :=
  nonEmpty_guardLen (nonEmpty_map (nonEmpty_pair_left (nonEmpty_bytesN _ _ (by decide))) _ _) _ _
theorem nonEmpty_msg (H : Bytes → Bytes) : NonEmpty (msg H) := nonEmpty_prefixedBy nonEmpty_msgHead
theorem nonEmpty_netAddr : NonEmpty netAddr := by
  intro t hv
  have hl := lawful_netAddr.size_eq t hv
  have : 0 < netAddr.size t := by
    simp only [netAddr, Codec.map, pair, uintLE, bytesN]
    omega
  omega
theorem nonEmpty_timedAddr : NonEmpty timedAddr := nonEmpty_pair_left (nonEmpty_uintLE 4 (by decide))
theorem nonEmpty_countUpTo (m : Nat) : NonEmpty (countUpTo m) := nonEmpty_refine (nonEmpty_varInt _) _ _
theorem nonEmpty_listUpTo (m : Nat) (c : Codec α) : NonEmpty (listUpTo m c) := nonEmpty_prefixed (nonEmpty_countUpTo m)
theorem nonEmpty_inventory : NonEmpty inventory := nonEmpty_pair_left (nonEmpty_uintLE 4 (by decide))
theorem nonEmpty_locator : NonEmpty locator := nonEmpty_pair_left (nonEmpty_intLE 4 (by decide))
theorem nonEmpty_headerEntry : NonEmpty (pair blockHeader zeroCount) := nonEmpty_pair_left nonEmpty_blockHeader

/-- a p2p count above the cap of its payload class is refused before any item is read: whatever the
    item codec is. -/
theorem listUpTo_rejects_above_cap (m : Nat) (c : Codec α) (b : Bytes) (n : Nat) (rest : Bytes)
    (h : VarInt.parse b Gen.VarInt.MAX_SIZE = .ok (n, rest)) (hn : n > m) :
    (listUpTo m c).parse b = .error .badCount := by
  have : ¬ n ≤ m := by omega
  simp [listUpTo, prefixed, countUpTo, Codec.refine, varInt, h, this]

/-- what a p2p count-prefixed payload accepts holds at most `m` items and fewer items than bytes. -/
theorem listUpTo_bounds (m : Nat) {c : Codec α} (hl : Lawful c) (hn : NonEmpty c) (b : Bytes) (l : List α)
    (rest : Bytes) (hp : (listUpTo m c).parse b = .ok (l, rest)) :
    l.length ≤ m ∧ l.length + rest.length < b.length := by
  obtain ⟨hv, hb, _⟩ := (lawful_listUpTo m hl).consumed b l rest hp
  rw [listUpTo_valid] at hv
  refine ⟨hv.1.2, ?_⟩
  have h1 := serList_length_ge hn l hv.2
  obtain ⟨h, tl, e, _⟩ := VarInt.ser_head l.length
  have hlen := congrArg List.length hb
  have hs : (listUpTo m c).ser l = VarInt.ser l.length ++ serList c l := rfl
  rw [hs, e] at hlen
  simp only [List.length_append, List.length_cons] at hlen
  omega

end Btc.Wire

namespace Btc.Base58
open Btc Gen.Base58

/-- a text longer than `MAX_LENGTH` is refused before anything else happens: no digit is looked up, no
    big integer is built, nothing is hashed (the answer is the same for every hash function). -/
theorem decode_too_long (H : Bytes → Bytes) (v : List Nat) (o : Option Nat) (h : v.length > MAX_LENGTH) :
    decode H v o = .error .tooLong := by
  simp [decode, h]

end Btc.Base58

namespace Btc.Bech32
open Btc Gen.Bech32

theorem splitLast_length (c : Nat) : ∀ (s a b : List Nat), splitLast c s = some (a, b) →
    s.length = a.length + 1 + b.length := by
  intro s
  induction s with
  | nil => intro a b h; simp [splitLast] at h
  | cons x xs ih =>
    intro a b h
    rw [splitLast] at h
    cases hs : splitLast c xs with
    | some q =>
      obtain ⟨a', b'⟩ := q
      simp only [hs, Option.some.injEq, Prod.mk.injEq] at h
      have := ih a' b' hs
      rw [← h.1, ← h.2]
      simp only [List.length_cons]
      omega
    | none =>
      simp only [hs] at h
      split at h
      · simp only [Option.some.injEq, Prod.mk.injEq] at h
        rw [← h.1, ← h.2]; simp only [List.length_cons, List.length_nil]; omega
      · cases h

theorem allSome_length : ∀ (l : List (Option Nat)) (r : List Nat), allSome l = some r → r.length = l.length := by
  intro l
  induction l with
  | nil => intro r h; simp only [allSome, Option.some.injEq] at h; simp [← h]
  | cons x xs ih =>
    intro r h
    cases x with
    | none => simp [allSome] at h
    | some v =>
      simp only [allSome, Option.map_eq_some_iff] at h
      obtain ⟨r', hr, rfl⟩ := h
      simp [ih r' hr]

/-- what `_decode` returns was paid for by the text, character for character: the human-readable part,
    the data digits and the six checksum digits are exactly as long as the text minus its separator. -/
theorem decodeRaw_length (text hrp data chk : List Nat) (h : decodeRaw text = .ok (hrp, data, chk)) :
    hrp.length + 1 + data.length + chk.length = text.length ∧ chk.length = 6 := by
  unfold decodeRaw at h
  split at h
  · cases h
  · rename_i pre post hs
    have hl := splitLast_length 49 text pre post hs
    split at h
    · cases h
    · split at h
      · cases h
      · rename_i hshort
        split at h
        · cases h
        · split at h
          · cases h
          · simp only [List.length_map] at h
            cases h1 : allSome (List.drop ((lower post).length - 6) (List.map indexOf (lower post))) with
            | none => simp [h1] at h
            | some c6 =>
            cases hd : allSome (List.map indexOf (lower post)) with
            | none => simp [h1, hd] at h
            | some d =>
              simp only [h1, hd, Except.ok.injEq, Prod.mk.injEq] at h
              have hdl := allSome_length _ _ hd
              simp only [List.length_map, lower] at hdl
              have h7 : SEP_CHK_LEN = 7 := rfl
              rw [← h.1, ← h.2.1, ← h.2.2]
              simp only [lower, List.length_map, List.length_take, List.length_drop]
              omega

/-- the same at the public entry point: hrp and data are together strictly shorter than the text. -/
theorem decode_length (text : List Nat) (m : Option Nat) (hrp data : List Nat)
    (h : decode text m = .ok (hrp, data)) : hrp.length + data.length + 7 = text.length := by
  unfold decode at h
  cases hr : decodeRaw text with
  | error e => simp [hr] at h
  | ok q =>
    obtain ⟨hrp', data', chk⟩ := q
    simp only [hr] at h
    have := decodeRaw_length text hrp' data' chk hr
    split at h
    · cases h
    · split at h
      · simp only [Except.ok.injEq, Prod.mk.injEq] at h
        rw [← h.1, ← h.2]
        omega
      · cases h

end Btc.Bech32
