import Model.C14.Descriptor
/-!
C19 on C14's descriptor parser (`descriptors._parse_tree`, `_parse_expression`): the fuel the model
recursion carries is never the reason of a refusal — any fuel above the length of the text gives the
same answer, because every nested call is made on a strictly shorter text.  Core Lean only.
-/
namespace Btc.Desc
open Btc Gen.Descriptor

theorem consHead_mem_length (c : Char) (parts : List (List Char)) (n : Nat)
    (h : ∀ p ∈ parts, p.length ≤ n) : ∀ p ∈ consHead c parts, p.length ≤ n + 1 := by
  intro p hp
  cases parts with
  | nil =>
    simp only [consHead, List.mem_singleton] at hp
    subst hp; simp
  | cons x xs =>
    simp only [consHead, List.mem_cons] at hp
    rcases hp with rfl | hp
    · have := h x (by simp)
      simp only [List.length_cons]; omega
    · have := h p (by simp [hp]); omega

/-- every argument `_split_arguments` returns is a piece of the text: no longer than it. -/
theorem splitArgsFrom_mem_length : ∀ (s : List Char) (d : Nat) (parts : List (List Char)),
    splitArgsFrom d s = some parts → ∀ p ∈ parts, p.length ≤ s.length := by
  intro s
  induction s with
  | nil =>
    intro d parts h p hp
    simp only [splitArgsFrom] at h
    split at h
    · cases h; simp only [List.mem_singleton] at hp; subst hp; simp
    · cases h
  | cons c cs ih =>
    intro d parts h
    simp only [splitArgsFrom] at h
    split at h
    · cases hx : splitArgsFrom (d + 1) cs with
      | none => simp [hx] at h
      | some r =>
        simp only [hx, Option.map_some, Option.some.injEq] at h
        subst h
        exact consHead_mem_length c r cs.length (ih _ _ hx)
    · split at h
      · split at h
        · cases h
        · cases hx : splitArgsFrom (d - 1) cs with
          | none => simp [hx] at h
          | some r =>
            simp only [hx, Option.map_some, Option.some.injEq] at h
            subst h
            exact consHead_mem_length c r cs.length (ih _ _ hx)
      · split at h
        · cases hx : splitArgsFrom 0 cs with
          | none => simp [hx] at h
          | some r =>
            simp only [hx, Option.map_some, Option.some.injEq] at h
            subst h
            intro p hp
            simp only [List.mem_cons] at hp
            rcases hp with rfl | hp
            · simp
            · have := ih _ _ hx p hp
              simp only [List.length_cons]; omega
        · cases hx : splitArgsFrom d cs with
          | none => simp [hx] at h
          | some r =>
            simp only [hx, Option.map_some, Option.some.injEq] at h
            subst h
            exact consHead_mem_length c r cs.length (ih _ _ hx)

theorem splitArgs_mem_length (s : List Char) (parts : List (List Char)) (h : splitArgs s = .ok parts) :
    ∀ p ∈ parts, p.length ≤ s.length := by
  unfold splitArgs at h
  split at h
  · rename_i l hl
    cases h
    exact splitArgsFrom_mem_length s 0 _ hl
  · cases h

/-- `_parse_tree`: more fuel than characters never changes the answer. -/
theorem parseTree_succ (o : KeyOracle) : ∀ (fuel depth : Nat) (e : List Char), e.length < fuel →
    parseTree o (fuel + 1) depth e = parseTree o fuel depth e := by
  intro fuel
  induction fuel with
  | zero => intro depth e h; omega
  | succ n ih =>
    intro depth e he
    conv => lhs; rw [parseTree]
    conv => rhs; rw [parseTree]
    split
    · rfl
    · split
      · rename_i hhead
        split
        · rfl
        · cases hs : splitArgs (e.drop 1).dropLast with
          | error x => rfl
          | ok parts =>
            have hlen := splitArgs_mem_length _ _ hs
            have hinner : ((e.drop 1).dropLast).length < e.length := by
              cases e with
              | nil => simp at hhead
              | cons c cs => simp only [List.drop_succ_cons, List.drop_zero, List.length_dropLast, List.length_cons]; omega
            match parts, hlen with
            | [l, r], hlen =>
              have hl := hlen l (by simp)
              have hr := hlen r (by simp)
              simp only
              rw [ih (depth + 1) l (by omega), ih (depth + 1) r (by omega)]
            | [], _ => rfl
            | [_], _ => rfl
            | _ :: _ :: _ :: _, _ => rfl
      · rfl

theorem parseTree_add (o : KeyOracle) (depth : Nat) (e : List Char) :
    ∀ k, parseTree o (e.length + 1 + k) depth e = parseTree o (e.length + 1) depth e := by
  intro k
  induction k with
  | zero => rfl
  | succ k ih => rw [← Nat.add_assoc, parseTree_succ o _ depth e (by omega), ih]

/-- `parseFn` only hands its two recursive readers arguments out of `args`. -/
theorem parseFn_congr (o : KeyOracle) (pe pe' : Ctx → List Char → P D) (pt pt' : List Char → P Tree)
    (fn : Fn) (ctx : Ctx) (args : List (List Char))
    (hpe : ∀ c a, a ∈ args → pe c a = pe' c a) (hpt : ∀ t, t ∈ args → pt t = pt' t) :
    parseFn o pe pt fn ctx args = parseFn o pe' pt' fn ctx args := by
  cases fn <;> simp only [parseFn]
  · -- sh
    match args, hpe with
    | [a], hpe => simp [oneArg, Except.bind, hpe _ a (by simp)]
    | [], _ => rfl
    | _ :: _ :: _, _ => rfl
  · -- wsh
    match args, hpe with
    | [a], hpe => simp [oneArg, Except.bind, hpe _ a (by simp)]
    | [], _ => rfl
    | _ :: _ :: _, _ => rfl
  · -- tr
    match args, hpt with
    | [k, t], hpt => simp [hpt t (by simp)]
    | [], _ => rfl
    | [_], _ => rfl
    | _ :: _ :: _ :: _, _ => rfl

theorem length_takeWhile_le' (p : Char → Bool) : ∀ l : List Char, (l.takeWhile p).length ≤ l.length
  | [] => by simp
  | x :: xs => by
    simp only [List.takeWhile_cons]
    split
    · have := length_takeWhile_le' p xs
      simp only [List.length_cons]; omega
    · simp

theorem splitFunction_shorter (e name args : List Char) (h : splitFunction e = .ok (name, args)) :
    args.length < e.length := by
  unfold splitFunction at h
  simp only at h
  split at h
  · cases h
  · rename_i hc
    simp only [Except.ok.injEq, Prod.mk.injEq] at h
    rw [← h.2]
    have hle : (e.takeWhile (· != '(')).length ≤ e.length := length_takeWhile_le' _ _
    simp only [not_or] at hc
    have := hc.1
    simp only [List.length_dropLast, List.length_drop]
    omega

/-- `_parse_expression`: more fuel than characters never changes the answer. -/
theorem parseExpr_succ (o : KeyOracle) : ∀ (fuel : Nat) (ctx : Ctx) (e : List Char), e.length < fuel →
    parseExpr o (fuel + 1) ctx e = parseExpr o fuel ctx e := by
  intro fuel
  induction fuel with
  | zero => intro ctx e h; omega
  | succ n ih =>
    intro ctx e he
    conv => lhs; rw [parseExpr]
    conv => rhs; rw [parseExpr]
    split
    · rfl
    · split
      · rfl
      · split
        · rfl
        · rename_i fn _
          cases hsf : splitFunction e with
          | error x => rfl
          | ok q =>
            obtain ⟨nm, arguments⟩ := q
            have hshort := splitFunction_shorter e nm arguments hsf
            simp only
            split
            · rfl
            · cases hsa : splitArgs arguments with
              | error x => rfl
              | ok args =>
                have hlen := splitArgs_mem_length _ _ hsa
                simp only
                apply parseFn_congr
                · intro c a ha
                  have := hlen a ha
                  exact ih c a (by omega)
                · intro t ht
                  have := hlen t ht
                  exact parseTree_succ o n 0 t (by omega)

theorem parseExpr_add (o : KeyOracle) (ctx : Ctx) (e : List Char) :
    ∀ k, parseExpr o (e.length + 1 + k) ctx e = parseExpr o (e.length + 1) ctx e := by
  intro k
  induction k with
  | zero => rfl
  | succ k ih => rw [← Nat.add_assoc, parseExpr_succ o _ ctx e (by omega), ih]

end Btc.Desc

namespace Btc.Desc
open Btc Gen.Descriptor

/-- nesting of braces in a parsed tree. -/
def treeHeight : Tree → Nat
  | .branch l r => max (treeHeight l) (treeHeight r) + 1
  | _ => 0

theorem map_height {α : Type} (f : α → Tree) (hf : ∀ a, treeHeight (f a) = 0) (x : P α) (t : Tree)
    (h : x.map f = .ok t) : treeHeight t = 0 := by
  cases x with
  | error e => simp [Except.map] at h
  | ok a => simp only [Except.map, Except.ok.injEq] at h; rw [← h]; exact hf a

/-- `_parse_tree`'s depth guard on C14's model: a tree accepted at `depth` enclosing braces nests at most
    `MAX_TREE_DEPTH - depth` further, on the left and on the right alike. -/
theorem parseTree_depth (o : KeyOracle) : ∀ (fuel depth : Nat) (e : List Char) (t : Tree),
    parseTree o fuel depth e = .ok t → depth + treeHeight t ≤ MAX_TREE_DEPTH := by
  intro fuel
  induction fuel with
  | zero => intro depth e t h; simp [parseTree] at h
  | succ n ih =>
    intro depth e t h
    rw [parseTree] at h
    split at h
    · cases h
    · rename_i hd
      split at h
      · split at h
        · cases h
        · split at h
          · cases h
          · split at h
            · cases h
            · rename_i tl hl
              split at h
              · cases h
              · rename_i tr hr
                simp only [Except.ok.injEq] at h
                have a := ih _ _ _ hl
                have b := ih _ _ _ hr
                rw [← h]
                simp only [treeHeight]
                omega
          · cases h
      · -- a leaf: height 0
        have hleaf : treeHeight t = 0 := by
          simp only at h
          split at h
          · cases h
          · split at h
            · split at h
              · cases h
              · split at h
                · cases h
                · simp only [Except.ok.injEq] at h; rw [← h]; rfl
            · split at h
              · cases h
              · split at h
                · split at h
                  · cases h
                  · split at h
                    · cases h
                    · exact map_height _ (fun _ => rfl) _ t h
                · cases h
                · exact map_height _ (fun _ => rfl) _ t h
        omega

end Btc.Desc
