import Model.C15.Text
/-!
C19 on C15's miniscript text parser (`miniscript.parse`, modelled as recursive descent with fuel):
every reader returns a rest no longer than what it was given, and any fuel ≥ the length of the text
gives the same answer — the fuel is never the reason of a refusal.  Core Lean only.
-/
namespace Btc.Miniscript
open Btc Gen.Miniscript

/-- a reader whose rest is never longer than its input. -/
def Shrinks {α : Type} (p : P α) : Prop := ∀ s x r, p s = some (x, r) → r.length ≤ s.length
/-- two readers that agree on every text of at most `n` characters. -/
def AgreeUpTo {α : Type} (n : Nat) (p q : P α) : Prop := ∀ s, s.length ≤ n → p s = q s

theorem expect_shrinks (c : Char) (s r : List Char) (h : expect c s = some r) : r.length + 1 = s.length := by
  cases s with
  | nil => simp [expect] at h
  | cons d t =>
    simp only [expect] at h
    split at h
    · cases h; simp
    · cases h

theorem scanColon_shrinks : ∀ (s l r : List Char), scanColon s = some (l, r) → r.length ≤ s.length := by
  intro s
  induction s with
  | nil => intro l r h; simp [scanColon] at h
  | cons c cs ih =>
    intro l r h
    simp only [scanColon] at h
    split at h
    · cases h; simp
    · split at h
      · cases hs : scanColon cs with
        | none => simp [hs] at h
        | some q =>
          obtain ⟨l', r'⟩ := q
          simp only [hs, Option.map_some, Option.some.injEq, Prod.mk.injEq] at h
          have := ih l' r' hs
          rw [← h.2]; simp only [List.length_cons]; omega
      · cases h

theorem readWrappers_shrinks (s : List Char) : (readWrappers s).2.length ≤ s.length := by
  cases s with
  | nil => simp [readWrappers]
  | cons c cs =>
    simp only [readWrappers]
    cases hs : scanColon cs with
    | none => simp
    | some q =>
      obtain ⟨l, r⟩ := q
      have := scanColon_shrinks cs l r hs
      simp only [List.length_cons]; omega

theorem pWrapped_shrinks (pe : P Ms) (h : Shrinks pe) : Shrinks (pWrappedWith pe) := by
  intro s x r hp
  simp only [pWrappedWith] at hp
  have hw := readWrappers_shrinks s
  cases hq : pe (readWrappers s).2 with
  | none => simp [hq] at hp
  | some q =>
    obtain ⟨y, r'⟩ := q
    simp only [hq, Option.bind_some] at hp
    cases ha : applyLetters (readWrappers s).1 y with
    | none => simp [ha] at hp
    | some n =>
      simp only [ha, Option.map_some, Option.some.injEq, Prod.mk.injEq] at hp
      have := h _ _ _ hq
      rw [← hp.2]; omega

theorem pWrapped_congr (n : Nat) (pe pe' : P Ms) (h : AgreeUpTo n pe pe') : AgreeUpTo n (pWrappedWith pe) (pWrappedWith pe') := by
  intro s hs
  simp only [pWrappedWith]
  have hw := readWrappers_shrinks s
  rw [h _ (by omega)]

theorem pMore_shrinks (pw : P Ms) (h : Shrinks pw) : ∀ m, Shrinks (pMoreWith pw m) := by
  intro m
  induction m with
  | zero => intro s x r hp; simp [pMoreWith] at hp
  | succ k ih =>
    intro s x r hp
    cases s with
    | nil => simp [pMoreWith] at hp
    | cons c t =>
      simp only [pMoreWith] at hp
      split at hp
      · cases h1 : pw t with
        | none => simp [h1] at hp
        | some q =>
          obtain ⟨y, r1⟩ := q
          simp only [h1, Option.bind_some] at hp
          cases h2 : pMoreWith pw k r1 with
          | none => simp [h2] at hp
          | some q2 =>
            obtain ⟨ys, r2⟩ := q2
            simp only [h2, Option.map_some, Option.some.injEq, Prod.mk.injEq] at hp
            have a := h _ _ _ h1
            have b := ih _ _ _ h2
            rw [← hp.2]; simp only [List.length_cons]; omega
      · split at hp
        · simp only [Option.some.injEq, Prod.mk.injEq] at hp
          rw [← hp.2]; simp
        · cases hp

theorem pMore_congr (n : Nat) (pw pw' : P Ms) (h : AgreeUpTo n pw pw') (hs : Shrinks pw) :
    ∀ m s, s.length ≤ n + 1 → pMoreWith pw m s = pMoreWith pw' m s := by
  intro m
  induction m with
  | zero => intro s _; rfl
  | succ k ih =>
    intro s hl
    cases s with
    | nil => rfl
    | cons c t =>
      simp only [List.length_cons] at hl
      simp only [pMoreWith]
      split
      · rw [← h t (by omega)]
        cases h1 : pw t with
        | none => rfl
        | some q =>
          obtain ⟨y, r1⟩ := q
          have a := hs _ _ _ h1
          simp only [Option.bind_some]
          rw [ih r1 (by omega)]
      · rfl

/-- the body of `_read_fragment` after the name and the opening bracket, over an abstract reader `pw`
    of wrapped subexpressions. -/
def callBody (ctx : Ctx) (pw : P Ms) (name : List Char) (r : List Char) : Option (Ms × List Char) :=
  match kindOf name with
  | none => none
  | some (.bin b) =>
    (pw r).bind fun (x, r) => (expect ',' r).bind fun r => (pw r).bind fun (y, r) =>
      (expect ')' r).map fun r => (.bin b x y, r)
  | some .andor =>
    (pw r).bind fun (x, r) => (expect ',' r).bind fun r => (pw r).bind fun (y, r) =>
      (expect ',' r).bind fun r => (pw r).bind fun (z, r) =>
        (expect ')' r).map fun r => (.andor x y z, r)
  | some .and_n =>
    (pw r).bind fun (x, r) => (expect ',' r).bind fun r => (pw r).bind fun (y, r) =>
      (expect ')' r).map fun r => (.andor x y .f0, r)
  | some .thresh =>
    let ds := r.takeWhile Char.isDigit
    (parseDec ds).bind fun k => (expect ',' (r.dropWhile Char.isDigit)).bind fun r =>
      (pw r).bind fun (x, r) => (pMoreWith pw r.length.succ r).map fun (xs, r) => (.thresh k x xs, r)
  | some k => (argSpan r).bind fun (arg, r) => (pLeaf ctx k arg).map fun n => (n, r)

theorem pExpr_succ_eq (ctx : Ctx) (fuel : Nat) (s : List Char) :
    pExpr ctx (fuel + 1) s =
      (let name := s.takeWhile isNameChar
       let rest := s.dropWhile isNameChar
       if name = [] then none
       else if name = ['0'] then some (.f0, rest)
       else if name = ['1'] then some (.f1, rest)
       else match rest with
         | '(' :: r => callBody ctx (pWrappedWith (pExpr ctx fuel)) name r
         | _ => none) := by
  rw [pExpr]
  simp only [callBody]
  rfl

theorem length_dropWhile_le' (p : Char → Bool) : ∀ l : List Char, (l.dropWhile p).length ≤ l.length
  | [] => by simp
  | x :: xs => by
    simp only [List.dropWhile_cons]
    split
    · have := length_dropWhile_le' p xs
      simp only [List.length_cons]; omega
    · simp

theorem argSpan_shrinks : ∀ (s a r : List Char), argSpan s = some (a, r) → r.length ≤ s.length := by
  intro s
  induction s with
  | nil => intro a r h; simp [argSpan] at h
  | cons c cs ih =>
    intro a r h
    simp only [argSpan] at h
    split at h
    · cases h; simp
    · split at h
      · cases h
      · cases hs : argSpan cs with
        | none => simp [hs] at h
        | some q =>
          obtain ⟨a', r'⟩ := q
          simp only [hs, Option.map_some, Option.some.injEq, Prod.mk.injEq] at h
          have := ih a' r' hs
          rw [← h.2]; simp only [List.length_cons]; omega


/-- one `pw`, then a separator: the step every bracketed form is made of. -/
theorem step_shrinks (pw : P Ms) (hs : Shrinks pw) (c : Char) (r : List Char) (x : Ms) (r1 r2 : List Char)
    (h1 : pw r = some (x, r1)) (h2 : expect c r1 = some r2) : r2.length + 1 ≤ r.length := by
  have := hs _ _ _ h1
  have := expect_shrinks c r1 r2 h2
  omega

theorem callBody_shrinks (ctx : Ctx) (pw : P Ms) (hs : Shrinks pw) (name r : List Char) (x : Ms) (r' : List Char)
    (h : callBody ctx pw name r = some (x, r')) : r'.length ≤ r.length := by
  unfold callBody at h
  split at h
  · cases h
  · -- bin
    cases h1 : pw r with
    | none => simp [h1] at h
    | some q1 =>
      obtain ⟨a, r1⟩ := q1
      simp only [h1, Option.bind_some] at h
      cases e1 : expect ',' r1 with
      | none => simp [e1] at h
      | some r2 =>
        simp only [e1, Option.bind_some] at h
        cases h2 : pw r2 with
        | none => simp [h2] at h
        | some q2 =>
          obtain ⟨b', r3⟩ := q2
          simp only [h2, Option.bind_some] at h
          cases e2 : expect ')' r3 with
          | none => simp [e2] at h
          | some r4 =>
            simp only [e2, Option.map_some, Option.some.injEq, Prod.mk.injEq] at h
            have s1 := step_shrinks pw hs ',' r a r1 r2 h1 e1
            have s2 := step_shrinks pw hs ')' r2 b' r3 r4 h2 e2
            rw [← h.2]; omega
  · -- andor
    cases h1 : pw r with
    | none => simp [h1] at h
    | some q1 =>
      obtain ⟨a, r1⟩ := q1
      simp only [h1, Option.bind_some] at h
      cases e1 : expect ',' r1 with
      | none => simp [e1] at h
      | some r2 =>
        simp only [e1, Option.bind_some] at h
        cases h2 : pw r2 with
        | none => simp [h2] at h
        | some q2 =>
          obtain ⟨b', r3⟩ := q2
          simp only [h2, Option.bind_some] at h
          cases e2 : expect ',' r3 with
          | none => simp [e2] at h
          | some r4 =>
            simp only [e2, Option.bind_some] at h
            cases h3 : pw r4 with
            | none => simp [h3] at h
            | some q3 =>
              obtain ⟨c', r5⟩ := q3
              simp only [h3, Option.bind_some] at h
              cases e3 : expect ')' r5 with
              | none => simp [e3] at h
              | some r6 =>
                simp only [e3, Option.map_some, Option.some.injEq, Prod.mk.injEq] at h
                have s1 := step_shrinks pw hs ',' r a r1 r2 h1 e1
                have s2 := step_shrinks pw hs ',' r2 b' r3 r4 h2 e2
                have s3 := step_shrinks pw hs ')' r4 c' r5 r6 h3 e3
                rw [← h.2]; omega
  · -- and_n
    cases h1 : pw r with
    | none => simp [h1] at h
    | some q1 =>
      obtain ⟨a, r1⟩ := q1
      simp only [h1, Option.bind_some] at h
      cases e1 : expect ',' r1 with
      | none => simp [e1] at h
      | some r2 =>
        simp only [e1, Option.bind_some] at h
        cases h2 : pw r2 with
        | none => simp [h2] at h
        | some q2 =>
          obtain ⟨b', r3⟩ := q2
          simp only [h2, Option.bind_some] at h
          cases e2 : expect ')' r3 with
          | none => simp [e2] at h
          | some r4 =>
            simp only [e2, Option.map_some, Option.some.injEq, Prod.mk.injEq] at h
            have s1 := step_shrinks pw hs ',' r a r1 r2 h1 e1
            have s2 := step_shrinks pw hs ')' r2 b' r3 r4 h2 e2
            rw [← h.2]; omega
  · -- thresh
    simp only at h
    cases hd : parseDec (r.takeWhile Char.isDigit) with
    | none => simp [hd] at h
    | some k =>
      simp only [hd, Option.bind_some] at h
      cases e1 : expect ',' (r.dropWhile Char.isDigit) with
      | none => simp [e1] at h
      | some r1 =>
        simp only [e1, Option.bind_some] at h
        cases h1 : pw r1 with
        | none => simp [h1] at h
        | some q1 =>
          obtain ⟨a, r2⟩ := q1
          simp only [h1, Option.bind_some] at h
          cases h2 : pMoreWith pw r2.length.succ r2 with
          | none => simp [h2] at h
          | some q2 =>
            obtain ⟨xs, r3⟩ := q2
            simp only [h2, Option.map_some, Option.some.injEq, Prod.mk.injEq] at h
            have d := length_dropWhile_le' Char.isDigit r
            have s0 := expect_shrinks _ _ _ e1
            have s1 := hs _ _ _ h1
            have s2 := pMore_shrinks pw hs _ _ _ _ h2
            rw [← h.2]; omega
  · -- leaf
    cases ha : argSpan r with
    | none => simp [ha] at h
    | some q =>
      obtain ⟨arg, r1⟩ := q
      simp only [ha, Option.bind_some, Option.map_eq_some_iff, Prod.mk.injEq] at h
      obtain ⟨n, _, _, hr⟩ := h
      have := argSpan_shrinks _ _ _ ha
      rw [← hr]; omega


theorem callBody_congr (ctx : Ctx) (n : Nat) (pw pw' : P Ms) (h : AgreeUpTo n pw pw') (hs : Shrinks pw)
    (name r : List Char) (hr : r.length ≤ n) : callBody ctx pw name r = callBody ctx pw' name r := by
  unfold callBody
  split
  · rfl
  · -- bin
    rw [← h r hr]
    cases h1 : pw r with
    | none => rfl
    | some q1 =>
      obtain ⟨a, r1⟩ := q1
      simp only [Option.bind_some]
      cases e1 : expect ',' r1 with
      | none => rfl
      | some r2 =>
        have s1 := step_shrinks pw hs ',' r a r1 r2 h1 e1
        simp only [Option.bind_some]
        rw [← h r2 (by omega)]
  · -- andor
    rw [← h r hr]
    cases h1 : pw r with
    | none => rfl
    | some q1 =>
      obtain ⟨a, r1⟩ := q1
      simp only [Option.bind_some]
      cases e1 : expect ',' r1 with
      | none => rfl
      | some r2 =>
        have s1 := step_shrinks pw hs ',' r a r1 r2 h1 e1
        simp only [Option.bind_some]
        rw [← h r2 (by omega)]
        cases h2 : pw r2 with
        | none => rfl
        | some q2 =>
          obtain ⟨b', r3⟩ := q2
          simp only [Option.bind_some]
          cases e2 : expect ',' r3 with
          | none => rfl
          | some r4 =>
            have s2 := step_shrinks pw hs ',' r2 b' r3 r4 h2 e2
            simp only [Option.bind_some]
            rw [← h r4 (by omega)]
  · -- and_n
    rw [← h r hr]
    cases h1 : pw r with
    | none => rfl
    | some q1 =>
      obtain ⟨a, r1⟩ := q1
      simp only [Option.bind_some]
      cases e1 : expect ',' r1 with
      | none => rfl
      | some r2 =>
        have s1 := step_shrinks pw hs ',' r a r1 r2 h1 e1
        simp only [Option.bind_some]
        rw [← h r2 (by omega)]
  · -- thresh
    simp only
    cases hd : parseDec (r.takeWhile Char.isDigit) with
    | none => rfl
    | some k =>
      simp only [Option.bind_some]
      cases e1 : expect ',' (r.dropWhile Char.isDigit) with
      | none => rfl
      | some r1 =>
        have d := length_dropWhile_le' Char.isDigit r
        have s0 := expect_shrinks _ _ _ e1
        simp only [Option.bind_some]
        rw [← h r1 (by omega)]
        cases h1 : pw r1 with
        | none => rfl
        | some q1 =>
          obtain ⟨a, r2⟩ := q1
          have s1 := hs _ _ _ h1
          simp only [Option.bind_some]
          rw [pMore_congr n pw pw' h hs _ r2 (by omega)]
  · rfl

theorem pExpr_shrinks (ctx : Ctx) : ∀ fuel, Shrinks (pExpr ctx fuel) := by
  intro fuel
  induction fuel with
  | zero => intro s x r h; simp [pExpr] at h
  | succ n ih =>
    intro s x r h
    rw [pExpr_succ_eq] at h
    simp only at h
    have hd := length_dropWhile_le' isNameChar s
    split at h
    · cases h
    · split at h
      · simp only [Option.some.injEq, Prod.mk.injEq] at h
        rw [← h.2]; exact hd
      · split at h
        · simp only [Option.some.injEq, Prod.mk.injEq] at h
          rw [← h.2]; exact hd
        · split at h
          · rename_i r0 hrest
            have := callBody_shrinks ctx _ (pWrapped_shrinks _ ih) _ _ _ _ h
            rw [hrest] at hd
            simp only [List.length_cons] at hd
            omega
          · cases h

/-- `_read_fragment`: more fuel than characters never changes the answer. -/
theorem pExpr_succ (ctx : Ctx) : ∀ (fuel : Nat) (s : List Char), s.length ≤ fuel →
    pExpr ctx (fuel + 1) s = pExpr ctx fuel s := by
  intro fuel
  induction fuel with
  | zero =>
    intro s hs
    have : s = [] := List.eq_nil_of_length_eq_zero (by omega)
    subst this
    rw [pExpr_succ_eq]
    simp [pExpr]
  | succ n ih =>
    intro s hs
    rw [pExpr_succ_eq ctx (n + 1) s, pExpr_succ_eq ctx n s]
    simp only
    have hd := length_dropWhile_le' isNameChar s
    split
    · rfl
    · split
      · rfl
      · split
        · rfl
        · split
          · rename_i r0 hrest
            rw [hrest] at hd
            simp only [List.length_cons] at hd
            exact callBody_congr ctx n _ _ (pWrapped_congr n _ _ (fun t ht => ih t ht))
              (pWrapped_shrinks _ (pExpr_shrinks ctx (n + 1))) _ r0 (by omega)
          · rfl

theorem pExpr_add (ctx : Ctx) (s : List Char) :
    ∀ k, pExpr ctx (s.length + 1 + k) s = pExpr ctx (s.length + 1) s := by
  intro k
  induction k with
  | zero => rfl
  | succ k ih => rw [← Nat.add_assoc, pExpr_succ ctx _ s (by omega), ih]

/-- the same for the reader `parseSyntax` calls on a whole text (wrappers, then the expression). -/
theorem parseSyntax_fuel (ctx : Ctx) (s : List Char) (k : Nat) :
    pWrappedWith (pExpr ctx (s.length.succ + k)) s = pWrappedWith (pExpr ctx s.length.succ) s := by
  have hw := readWrappers_shrinks s
  simp only [pWrappedWith]
  have e : ∀ j, pExpr ctx (s.length.succ + j) (readWrappers s).2 = pExpr ctx s.length.succ (readWrappers s).2 := by
    intro j
    induction j with
    | zero => rfl
    | succ j ihj => rw [← Nat.add_assoc, pExpr_succ ctx _ _ (by omega), ihj]
  rw [e k]

end Btc.Miniscript
