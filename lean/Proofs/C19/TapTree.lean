import Model.C19.TapTree
/-! C19 — `tree_helper` is depth bounded: lemmas on `Btc.TapTree.subtree`. -/
namespace Btc.TapTree
open Btc Btc.Fuel

theorem subtree_deep (M d : Nat) (v : PyVal) (h : d > M) : subtree M d v = .error .deep := by
  unfold subtree; simp [h]

theorem toLeaf_depth (x : PyVal) (t : Tree Nat) (h : toLeaf x = .ok t) : t.depth = 0 := by
  unfold toLeaf at h
  split at h <;> first | (cases h; rfl) | cases h

theorem subtree_depth (M : Nat) : ∀ (v : PyVal) (d : Nat) (t : Tree Nat), subtree M d v = .ok t → d + t.depth ≤ M := by
  intro v
  induction v with
  | two il l r ihl ihr =>
    intro d t h
    unfold subtree at h
    split at h
    · cases h
    · simp only at h
      split at h
      · cases h
      · rename_i tl hl
        split at h
        · cases h
        · rename_i tr hr
          cases h
          have := ihl (d + 1) tl hl
          have := ihr (d + 1) tr hr
          simp only [Tree.depth]
          omega
  | one il x =>
    intro d t h
    unfold subtree at h
    split at h
    · cases h
    · simp only at h
      have := toLeaf_depth x t h
      omega
  | int _ => intro d t h; unfold subtree at h; split at h <;> cases h
  | atom => intro d t h; unfold subtree at h; split at h <;> cases h
  | script _ => intro d t h; unfold subtree at h; split at h <;> cases h
  | nil _ => intro d t h; unfold subtree at h; split at h <;> cases h
  | many _ _ => intro d t h; unfold subtree at h; split at h <;> cases h

/-- the bound does not matter below it: with any two bounds that both admit the tree, the answer is the same -/
theorem subtree_mono (M M' : Nat) (hM : M ≤ M') : ∀ (v : PyVal) (d : Nat) (t : Tree Nat),
    subtree M d v = .ok t → subtree M' d v = .ok t := by
  intro v
  induction v with
  | two il l r ihl ihr =>
    intro d t h
    unfold subtree at h ⊢
    split at h
    · cases h
    · rename_i hd
      have hd' : ¬ d > M' := by omega
      simp only [hd', if_false] at h ⊢
      split at h
      · cases h
      · rename_i tl hl
        split at h
        · cases h
        · rename_i tr hr
          cases h
          rw [ihl (d + 1) tl hl, ihr (d + 1) tr hr]
  | one il x =>
    intro d t h
    unfold subtree at h ⊢
    split at h
    · cases h
    · rename_i hd
      have hd' : ¬ d > M' := by omega
      simpa [hd'] using h
  | int _ => intro d t h; unfold subtree at h; split at h <;> cases h
  | atom => intro d t h; unfold subtree at h; split at h <;> cases h
  | script _ => intro d t h; unfold subtree at h; split at h <;> cases h
  | nil _ => intro d t h; unfold subtree at h; split at h <;> cases h
  | many _ _ => intro d t h; unfold subtree at h; split at h <;> cases h

end Btc.TapTree
