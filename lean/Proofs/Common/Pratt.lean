import Mathlib.NumberTheory.LucasPrimality
import Mathlib.Tactic.NormNum.Prime
/-
Pratt (Lucas) primality certificates checked by the kernel.

`powMod a e m` is a structurally recursive square-and-multiply (`powMod_eq : powMod a e m = a ^ e % m`), so that
`decide +kernel` evaluates a 256-bit modular exponentiation in ~256 GMP squarings.  `prattCheck p a fs` is the
Boolean certificate check for `p` with witness `a` and claimed factorisation `fs = [(q₁,e₁),…]` of `p − 1`;
`pratt` turns a successful check plus primality of the `qᵢ` into `Nat.Prime p` through Mathlib's `lucas_primality`.
-/
namespace Btc.Pratt

/-- square-and-multiply on the binary digits of `e`, most significant first; `f` is fuel (`e ≤ f` suffices) -/
def powModF : ℕ → ℕ → ℕ → ℕ → ℕ
  | 0, _, _, m => 1 % m
  | f+1, a, e, m =>
    if e = 0 then 1 % m else
      let r := powModF f a (e / 2) m
      if e % 2 = 1 then r * r % m * a % m else r * r % m

/-- `a ^ e mod m` -/
def powMod (a e m : ℕ) : ℕ := powModF e a e m

theorem powModF_eq (f a m : ℕ) : ∀ e, e ≤ f → powModF f a e m = a ^ e % m := by
  induction f with
  | zero => intro e he; obtain rfl : e = 0 := by omega
            simp [powModF]
  | succ f ih =>
    intro e he
    unfold powModF
    by_cases h0 : e = 0
    · simp [h0]
    · rw [if_neg h0]
      have hr := ih (e / 2) (by omega)
      simp only [hr]
      have hsq : a ^ (e / 2) % m * (a ^ (e / 2) % m) % m = a ^ (2 * (e / 2)) % m := by
        rw [← Nat.mul_mod, two_mul, pow_add]
      rw [hsq]
      by_cases h1 : e % 2 = 1
      · rw [if_pos h1]
        have he2 : e = 2 * (e / 2) + 1 := by omega
        conv_rhs => rw [he2, pow_succ]
        rw [Nat.mul_mod, Nat.mod_mod, ← Nat.mul_mod]
      · rw [if_neg h1]
        have he2 : e = 2 * (e / 2) := by omega
        conv_rhs => rw [he2]

theorem powMod_eq (a e m : ℕ) : powMod a e m = a ^ e % m := powModF_eq e a m e le_rfl

/-- every listed base is prime -/
def AllPrime : List (ℕ × ℕ) → Prop
  | [] => True
  | (q, _) :: t => q.Prime ∧ AllPrime t

/-- `∏ qᵢ ^ eᵢ` -/
def prodPow : List (ℕ × ℕ) → ℕ
  | [] => 1
  | (q, e) :: t => q ^ e * prodPow t

/-- the certificate check: `1 < p`, `p − 1 = ∏ qᵢ^eᵢ`, `a^(p−1) ≡ 1`, `a^((p−1)/qᵢ) ≢ 1 (mod p)` -/
def prattCheck (p a : ℕ) (fs : List (ℕ × ℕ)) : Bool :=
  decide (1 < p) && (prodPow fs == p - 1) && (powMod a (p - 1) p == 1) &&
    fs.all fun qe => powMod a ((p - 1) / qe.1) p != 1

theorem mem_of_prime_dvd_prodPow {q : ℕ} (hq : q.Prime) :
    ∀ fs : List (ℕ × ℕ), AllPrime fs → q ∣ prodPow fs → ∃ qe ∈ fs, qe.1 = q
  | [], _, h => absurd (Nat.le_of_dvd Nat.one_pos h) (not_le.mpr hq.one_lt)
  | (r, e) :: t, ⟨hr, ht⟩, h => by
    rcases (Nat.Prime.dvd_mul hq).mp h with h | h
    · exact ⟨(r, e), List.mem_cons_self, ((Nat.prime_dvd_prime_iff_eq hq hr).mp (hq.dvd_of_dvd_pow h)).symm⟩
    · obtain ⟨qe, hm, hqe⟩ := mem_of_prime_dvd_prodPow hq t ht h
      exact ⟨qe, List.mem_cons_of_mem _ hm, hqe⟩

theorem zmod_pow_eq_one_iff {p : ℕ} (hp : 1 < p) (a k : ℕ) :
    ((a : ZMod p) ^ k = 1) ↔ powMod a k p = 1 := by
  rw [powMod_eq, ← Nat.cast_pow, ← Nat.cast_one (R := ZMod p), ZMod.natCast_eq_natCast_iff',
    Nat.mod_eq_of_lt hp]

/-- **Pratt certificate ⇒ prime** -/
theorem pratt (p a : ℕ) (fs : List (ℕ × ℕ)) (hc : prattCheck p a fs = true) (hfs : AllPrime fs) : p.Prime := by
  simp only [prattCheck, Bool.and_eq_true, decide_eq_true_eq, beq_iff_eq, List.all_eq_true, bne_iff_ne] at hc
  obtain ⟨⟨⟨hp, hprod⟩, h1⟩, hall⟩ := hc
  refine lucas_primality p (a : ZMod p) ((zmod_pow_eq_one_iff hp a _).mpr h1) ?_
  intro q hq hdvd
  rw [← hprod] at hdvd
  obtain ⟨qe, hm, rfl⟩ := mem_of_prime_dvd_prodPow hq fs hfs hdvd
  rw [Ne, zmod_pow_eq_one_iff hp]
  exact hall qe hm

end Btc.Pratt
