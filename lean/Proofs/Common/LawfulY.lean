import Proofs.Common.Lawful
import Mathlib.RingTheory.Coprime.Basic
import Mathlib.Data.Int.GCD
/-
A further law needed by every scheme that looks at the parity of y (BIP340, taproot tweak,
MuSig2, …), kept beside `Lawful` (additive: a separate bundle, so that nothing built on `Lawful`
changes), plus consequences of `Lawful` used by those schemes.

`YCongr L`: the parity of the y-coordinate is a function of the group element, not of its
representation.  True of elliptic curves over odd prime fields when `abs` reads canonical affine
coordinates (then `abs` is injective on non-zero elements); that `Btc.EC.ops c` satisfies it is,
like `Lawful` itself, property C01's business.
-/
namespace Btc

structure YCongr {α G : Type} [AddCommGroup G] {o : GroupOps α} (L : Lawful o G) : Prop where
  y_congr : ∀ P Q, L.abs P = L.abs Q → L.abs P ≠ 0 → (o.y P % 2 = 0 ↔ o.y Q % 2 = 0)

namespace Lawful
variable {α G : Type} [AddCommGroup G] {o : GroupOps α} (L : Lawful o G)

/-- the x-coordinate is a function of the (non-zero) group element -/
theorem x_congr {P Q : α} (h : L.abs P = L.abs Q) (hP : L.abs P ≠ 0) : o.x P = o.x Q :=
  (L.x_eq_iff P Q hP (h ▸ hP)).2 (Or.inl h)

theorem x_congr_neg {P Q : α} (h : L.abs P = - L.abs Q) (hP : L.abs P ≠ 0) : o.x P = o.x Q := by
  have hQ : L.abs Q ≠ 0 := by
    intro h0; rw [h0, neg_zero] at h; exact hP h
  exact (L.x_eq_iff P Q hP hQ).2 (Or.inr h)

theorem hasEvenY_iff (P : α) : o.hasEvenY P = true ↔ o.y P % 2 = 0 := by
  simp [GroupOps.hasEvenY]

theorem hasEvenY_congr (Y : YCongr L) {P Q : α} (h : L.abs P = L.abs Q) (hP : L.abs P ≠ 0) :
    o.hasEvenY P = o.hasEvenY Q := by
  have := Y.y_congr P Q h hP
  rw [Bool.eq_iff_iff, hasEvenY_iff, hasEvenY_iff]; exact this

theorem n_smul_eq_zero (g : G) (P : α) (h : g = L.abs P) : o.n • g = 0 := h ▸ L.order P

/-- a non-zero element has order exactly `n` (prime exponent) -/
theorem zsmul_eq_zero_iff (m : Int) (P : α) (hP : L.abs P ≠ 0) :
    m • L.abs P = 0 ↔ o.n ∣ m := by
  constructor
  · intro h
    by_contra hnd
    have hp : Prime (o.n) := by
      have := Nat.prime_iff_prime_int.mp L.n_prime
      rwa [Int.toNat_of_nonneg (le_of_lt L.n_pos)] at this
    have hc : IsCoprime o.n m := (Prime.coprime_iff_not_dvd hp).2 hnd
    obtain ⟨a, b, hab⟩ := hc
    have : (a * o.n + b * m) • L.abs P = 0 := by
      rw [add_zsmul, mul_zsmul, mul_zsmul, L.order, h, zsmul_zero, zsmul_zero, add_zero]
    rw [hab, one_zsmul] at this
    exact hP this
  · rintro ⟨k, rfl⟩
    rw [mul_comm, mul_zsmul, L.order, zsmul_zero]

theorem mul_gen_ne_zero (q : Int) (h0 : 0 < q) (hn : q < o.n) : L.abs (o.mul q o.gen) ≠ 0 := by
  rw [L.abs_mul]
  intro h
  have := (L.zsmul_eq_zero_iff q o.gen L.gen_ne_zero).1 h
  have := Int.le_of_dvd h0 this
  omega

/-- two scalars act alike on a non-zero element iff they are congruent mod `n` -/
theorem zsmul_eq_zsmul_iff (a b : Int) (P : α) (hP : L.abs P ≠ 0) :
    a • L.abs P = b • L.abs P ↔ o.n ∣ a - b := by
  rw [← L.zsmul_eq_zero_iff (a - b) P hP, sub_zsmul]
  rw [← sub_eq_add_neg]
  exact (sub_eq_zero (a := a • L.abs P) (b := b • L.abs P)).symm

/-- `lift_x` finds every even-y element from its x-coordinate -/
theorem liftX_of_even (Y : YCongr L) (P : α) (hP : L.abs P ≠ 0) (he : o.y P % 2 = 0) :
    ∃ Q, o.liftX (o.x P) = some Q ∧ L.abs Q = L.abs P := by
  cases hl : o.liftX (o.x P) with
  | none => exact absurd rfl (L.liftX_none _ hl P hP)
  | some Q =>
    refine ⟨Q, rfl, ?_⟩
    obtain ⟨hQ, hx, hy⟩ := L.liftX_some _ _ hl
    rcases (L.x_eq_iff Q P hQ hP).1 hx with h | h
    · exact h
    · exfalso
      -- Q = -P: then y(Q) has the parity of y(neg P), which is odd
      have h1 : L.abs Q = L.abs (o.neg P) := by rw [L.abs_neg]; exact h
      have h2 := (Y.y_congr Q (o.neg P) h1 hQ).1 hy
      exact (L.y_neg P hP).1 h2 he

/-- since `Lawful` gained the field `y_congr` (added by C16) the bundle is a consequence of it -/
theorem ycongr : YCongr L := ⟨L.y_congr⟩

end Lawful

/-! ## the same consequences for the `lift_x`-free bundle `LawfulGroup` (additive) -/
namespace LawfulGroup
variable {α G : Type} [AddCommGroup G] {o : GroupOps α} (L : LawfulGroup o G)

theorem x_congr {P Q : α} (h : L.abs P = L.abs Q) (hP : L.abs P ≠ 0) : o.x P = o.x Q :=
  (L.x_eq_iff P Q hP (h ▸ hP)).2 (Or.inl h)

theorem x_congr_neg {P Q : α} (h : L.abs P = - L.abs Q) (hP : L.abs P ≠ 0) : o.x P = o.x Q := by
  have hQ : L.abs Q ≠ 0 := by
    intro h0; rw [h0, neg_zero] at h; exact hP h
  exact (L.x_eq_iff P Q hP hQ).2 (Or.inr h)

theorem hasEvenY_congr {P Q : α} (h : L.abs P = L.abs Q) (hP : L.abs P ≠ 0) :
    o.hasEvenY P = o.hasEvenY Q := by
  have := L.y_congr P Q h hP
  rw [Bool.eq_iff_iff]
  simp only [GroupOps.hasEvenY, beq_iff_eq]
  exact this

theorem n_smul_eq_zero (g : G) (P : α) (h : g = L.abs P) : o.n • g = 0 := h ▸ L.order P

/-- a non-zero element has order exactly `n` (prime exponent) -/
theorem zsmul_eq_zero_iff (m : Int) (P : α) (hP : L.abs P ≠ 0) :
    m • L.abs P = 0 ↔ o.n ∣ m := by
  constructor
  · intro h
    by_contra hnd
    have hp : Prime (o.n) := by
      have := Nat.prime_iff_prime_int.mp L.n_prime
      rwa [Int.toNat_of_nonneg (le_of_lt L.n_pos)] at this
    have hc : IsCoprime o.n m := (Prime.coprime_iff_not_dvd hp).2 hnd
    obtain ⟨a, b, hab⟩ := hc
    have : (a * o.n + b * m) • L.abs P = 0 := by
      rw [add_zsmul, mul_zsmul, mul_zsmul, L.order, h, zsmul_zero, zsmul_zero, add_zero]
    rw [hab, one_zsmul] at this
    exact hP this
  · rintro ⟨k, rfl⟩
    rw [mul_comm, mul_zsmul, L.order, zsmul_zero]

theorem mul_gen_ne_zero (q : Int) (h0 : 0 < q) (hn : q < o.n) : L.abs (o.mul q o.gen) ≠ 0 := by
  rw [L.abs_mul]
  intro h
  have := (L.zsmul_eq_zero_iff q o.gen L.gen_ne_zero).1 h
  have := Int.le_of_dvd h0 this
  omega

/-- two scalars act alike on a non-zero element iff they are congruent mod `n` -/
theorem zsmul_eq_zsmul_iff (a b : Int) (P : α) (hP : L.abs P ≠ 0) :
    a • L.abs P = b • L.abs P ↔ o.n ∣ a - b := by
  rw [← L.zsmul_eq_zero_iff (a - b) P hP, sub_zsmul]
  rw [← sub_eq_add_neg]
  exact (sub_eq_zero (a := a • L.abs P) (b := b • L.abs P)).symm

end LawfulGroup
end Btc
