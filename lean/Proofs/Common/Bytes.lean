import Model.Common.Bytes
import Model.Common.Py
/- Foundational lemmas on little/big-endian byte strings. Core Lean only. -/
namespace Btc

@[simp] theorem leBytes_length (len n : Nat) : (leBytes len n).length = len := by
  induction len generalizing n with
  | zero => rfl
  | succ k ih => simp [leBytes, ih]

theorem ofLE_lt (b : Bytes) : ofLE b < 256 ^ b.length := by
  induction b with
  | nil => simp [ofLE]
  | cons x xs ih =>
    have hx : x.toNat < 256 := x.toNat_lt
    simp only [ofLE, List.length_cons, Nat.pow_succ]
    omega

theorem ofLE_leBytes (len n : Nat) : ofLE (leBytes len n) = n % 256 ^ len := by
  induction len generalizing n with
  | zero => simp [leBytes, ofLE, Nat.mod_one]
  | succ k ih =>
    simp only [leBytes, ofLE, ih, Nat.pow_succ]
    have h1 : (UInt8.ofNat (n % 256)).toNat = n % 256 := by
      simp [UInt8.toNat_ofNat']
    rw [h1]
    have := Nat.mod_mul (a := 256) (b := 256 ^ k) (x := n)
    rw [Nat.mul_comm (256 ^ k) 256]
    omega

theorem leBytes_ofLE (b : Bytes) : leBytes b.length (ofLE b) = b := by
  induction b with
  | nil => rfl
  | cons x xs ih =>
    have hx : x.toNat < 256 := x.toNat_lt
    simp only [List.length_cons, leBytes, ofLE]
    have h1 : (x.toNat + 256 * ofLE xs) % 256 = x.toNat := by omega
    have h2 : (x.toNat + 256 * ofLE xs) / 256 = ofLE xs := by omega
    rw [h1, h2, ih]
    simp

theorem ofLE_append (a b : Bytes) : ofLE (a ++ b) = ofLE a + 256 ^ a.length * ofLE b := by
  induction a with
  | nil => simp [ofLE]
  | cons x xs ih =>
    simp only [List.cons_append, ofLE, ih, List.length_cons, Nat.pow_succ]
    rw [Nat.mul_add, ← Nat.mul_assoc, Nat.mul_comm 256 (256 ^ xs.length)]
    omega

theorem ofBE_foldl (b : Bytes) (acc : Nat) :
    b.foldl (fun acc x => acc * 256 + x.toNat) acc = acc * 256 ^ b.length + ofLE b.reverse := by
  induction b generalizing acc with
  | nil => simp [ofLE]
  | cons x xs ih =>
    simp only [List.foldl_cons, ih, List.reverse_cons, ofLE_append, List.length_reverse,
      List.length_cons, Nat.pow_succ, ofLE]
    rw [Nat.add_mul, Nat.mul_assoc, Nat.mul_comm 256 (256 ^ xs.length), Nat.mul_zero, Nat.add_zero,
      Nat.mul_comm (256 ^ xs.length) x.toNat]
    omega

theorem ofBE_eq_ofLE_reverse (b : Bytes) : ofBE b = ofLE b.reverse := by
  simp [ofBE, ofBE_foldl]

theorem ofBE_beBytes (len n : Nat) : ofBE (beBytes len n) = n % 256 ^ len := by
  simp [ofBE_eq_ofLE_reverse, beBytes, ofLE_leBytes]

@[simp] theorem beBytes_length (len n : Nat) : (beBytes len n).length = len := by
  simp [beBytes]

theorem beBytes_ofBE (b : Bytes) : beBytes b.length (ofBE b) = b := by
  have := leBytes_ofLE b.reverse
  simp only [List.length_reverse] at this
  simp [beBytes, ofBE_eq_ofLE_reverse, this]

theorem ofBE_lt (b : Bytes) : ofBE b < 256 ^ b.length := by
  have := ofLE_lt b.reverse
  simpa [ofBE_eq_ofLE_reverse] using this

end Btc
