import Model.Common.GroupOps
import Mathlib.Algebra.Module.ZMod
import Mathlib.Data.ZMod.Basic
import Mathlib.FieldTheory.Finite.Basic
/-
`Lawful o`: the operations of `o : GroupOps α` are those of an additive group `G` of prime
order exponent `n`, seen through an abstraction map.  Scheme-level theorems are proved under
this hypothesis, for every such group — so for every curve, catalogued or caller-defined.
-/
namespace Btc

structure Lawful {α : Type} (o : GroupOps α) (G : Type) [AddCommGroup G] where
  abs : α → G
  n_pos : 0 < o.n
  n_prime : Nat.Prime o.n.toNat
  abs_zero : abs o.zero = 0
  abs_add : ∀ P Q, abs (o.add P Q) = abs P + abs Q
  abs_neg : ∀ P, abs (o.neg P) = - abs P
  abs_mul : ∀ (m : Int) P, abs (o.mul m P) = m • abs P
  /-- every element has order dividing `n` -/
  order : ∀ P, o.n • abs P = 0
  isZero_iff : ∀ P, o.isZero P = true ↔ abs P = 0
  gen_ne_zero : abs o.gen ≠ 0
  eq_iff : ∀ P Q, o.eq P Q = true ↔ abs P = abs Q
  /-- the x-coordinate identifies a non-zero element up to sign -/
  x_eq_iff : ∀ P Q, abs P ≠ 0 → abs Q ≠ 0 → (o.x P = o.x Q ↔ abs P = abs Q ∨ abs P = - abs Q)
  x_range : ∀ P, abs P ≠ 0 → 0 ≤ o.x P ∧ o.x P < o.p
  /-- negation flips the parity of y on non-zero elements (odd field characteristic) -/
  y_neg : ∀ P, abs P ≠ 0 → (o.y (o.neg P) % 2 = 0 ↔ ¬ (o.y P % 2 = 0))
  x_neg : ∀ P, o.x (o.neg P) = o.x P
  /-- the parity of y is a function of the group element (affine representation is unique);
      added by C16: needed to identify `liftX (x P)` with `P` or `-P` by the parity of `y P`. -/
  y_congr : ∀ P Q, abs P = abs Q → abs P ≠ 0 → (o.y P % 2 = 0 ↔ o.y Q % 2 = 0)
  liftX_some : ∀ x P, o.liftX x = some P → abs P ≠ 0 ∧ o.x P = x ∧ o.y P % 2 = 0
  liftX_none : ∀ x, o.liftX x = none → ∀ P, abs P ≠ 0 → o.x P ≠ x

namespace Lawful
variable {α G : Type} [AddCommGroup G] {o : GroupOps α} (L : Lawful o G)

theorem abs_sub (P Q : α) : L.abs (o.sub P Q) = L.abs P - L.abs Q := by
  simp [GroupOps.sub, L.abs_add, L.abs_neg, sub_eq_add_neg]

theorem abs_dmul (u v : Int) (H Q : α) :
    L.abs (o.dmul u H v Q) = u • L.abs H + v • L.abs Q := by
  simp [GroupOps.dmul, L.abs_add, L.abs_mul]

/-- scalars only matter modulo `n` -/
theorem zsmul_mod (m : Int) (P : α) : (m % o.n) • L.abs P = m • L.abs P := by
  have h := Int.emod_add_mul_ediv m o.n
  conv_rhs => rw [← h]
  rw [add_zsmul, mul_comm, mul_zsmul, L.order, zsmul_zero, add_zero]

/-- if `k·m ≡ 1 (mod n)` then `k • (m • P) = P` -/
theorem zsmul_inv_cancel (k m : Int) (P : α) (h : k * m % o.n = 1 % o.n) :
    k • (m • L.abs P) = L.abs P := by
  rw [← mul_zsmul, ← L.zsmul_mod, h, L.zsmul_mod, one_zsmul]

end Lawful

/-! ## the group part of `Lawful`, without `lift_x` (added additively: `Lawful` itself is unchanged)

`LawfulGroup o G`: every field of `Lawful` except `liftX_some` / `liftX_none`.  A theorem that never calls
`o.liftX` (ECDSA sign/verify/recover-free parts, ECDH, DLEQ, BIP32 arithmetic, Pedersen, …) can take
`LG : LawfulGroup o G` instead of `L : Lawful o G`; the instance for btclib's arithmetic
(`Btc.C01.lawfulGroup_ec`, `Proofs/C01/CapstoneLawful.lean`) then needs NO hypothesis `p % 4 = 3`, which `Lawful`'s
instance uses for `lift_x` only.  Every `Lawful` is a `LawfulGroup` (`Lawful.toLawfulGroup`). -/
structure LawfulGroup {α : Type} (o : GroupOps α) (G : Type) [AddCommGroup G] where
  abs : α → G
  n_pos : 0 < o.n
  n_prime : Nat.Prime o.n.toNat
  abs_zero : abs o.zero = 0
  abs_add : ∀ P Q, abs (o.add P Q) = abs P + abs Q
  abs_neg : ∀ P, abs (o.neg P) = - abs P
  abs_mul : ∀ (m : Int) P, abs (o.mul m P) = m • abs P
  order : ∀ P, o.n • abs P = 0
  isZero_iff : ∀ P, o.isZero P = true ↔ abs P = 0
  gen_ne_zero : abs o.gen ≠ 0
  eq_iff : ∀ P Q, o.eq P Q = true ↔ abs P = abs Q
  x_eq_iff : ∀ P Q, abs P ≠ 0 → abs Q ≠ 0 → (o.x P = o.x Q ↔ abs P = abs Q ∨ abs P = - abs Q)
  x_range : ∀ P, abs P ≠ 0 → 0 ≤ o.x P ∧ o.x P < o.p
  y_neg : ∀ P, abs P ≠ 0 → (o.y (o.neg P) % 2 = 0 ↔ ¬ (o.y P % 2 = 0))
  x_neg : ∀ P, o.x (o.neg P) = o.x P
  y_congr : ∀ P Q, abs P = abs Q → abs P ≠ 0 → (o.y P % 2 = 0 ↔ o.y Q % 2 = 0)

/-- forget `lift_x` -/
def Lawful.toLawfulGroup {α G : Type} [AddCommGroup G] {o : GroupOps α} (L : Lawful o G) : LawfulGroup o G where
  abs := L.abs
  n_pos := L.n_pos
  n_prime := L.n_prime
  abs_zero := L.abs_zero
  abs_add := L.abs_add
  abs_neg := L.abs_neg
  abs_mul := L.abs_mul
  order := L.order
  isZero_iff := L.isZero_iff
  gen_ne_zero := L.gen_ne_zero
  eq_iff := L.eq_iff
  x_eq_iff := L.x_eq_iff
  x_range := L.x_range
  y_neg := L.y_neg
  x_neg := L.x_neg
  y_congr := L.y_congr

@[simp] theorem Lawful.toLawfulGroup_abs {α G : Type} [AddCommGroup G] {o : GroupOps α} (L : Lawful o G) :
    L.toLawfulGroup.abs = L.abs := rfl

namespace LawfulGroup
variable {α G : Type} [AddCommGroup G] {o : GroupOps α} (L : LawfulGroup o G)

theorem abs_sub (P Q : α) : L.abs (o.sub P Q) = L.abs P - L.abs Q := by
  simp [GroupOps.sub, L.abs_add, L.abs_neg, sub_eq_add_neg]

theorem abs_dmul (u v : Int) (H Q : α) :
    L.abs (o.dmul u H v Q) = u • L.abs H + v • L.abs Q := by
  simp [GroupOps.dmul, L.abs_add, L.abs_mul]

/-- scalars only matter modulo `n` -/
theorem zsmul_mod (m : Int) (P : α) : (m % o.n) • L.abs P = m • L.abs P := by
  have h := Int.emod_add_mul_ediv m o.n
  conv_rhs => rw [← h]
  rw [add_zsmul, mul_comm, mul_zsmul, L.order, zsmul_zero, add_zero]

/-- if `k·m ≡ 1 (mod n)` then `k • (m • P) = P` -/
theorem zsmul_inv_cancel (k m : Int) (P : α) (h : k * m % o.n = 1 % o.n) :
    k • (m • L.abs P) = L.abs P := by
  rw [← mul_zsmul, ← L.zsmul_mod, h, L.zsmul_mod, one_zsmul]

end LawfulGroup
end Btc
