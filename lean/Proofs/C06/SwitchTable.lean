import Proofs.C06.ThreeErr
/-!
Two substitutions with the checksum constant read off the witness version (`m = None`), the version character
possibly one of them: a codeword of one constant never becomes a codeword of the OTHER constant by one or two
substitutions whose first changed value has at most `WS = 88` values after it.

Finite fact behind it: the `89 · 31` residues `x^b · d mod g` (`0 ≤ b ≤ 88`, `1 ≤ d ≤ 31`) and the same residues
xor `SWITCH = BECH32_1_CONST xor BECH32_M_CONST` are `2 · 2759` pairwise different numbers (radix partition on
30 bits, `decide +kernel`), so `x^a·d1 + x^b·d2` is never `SWITCH`.
-/
namespace Btc.Bech32
open Gen.Bech32

/-- values after the first changed one covered by the table. -/
def WS : Nat := 88

/-- rows `prev, prev·x, …, prev·x^n`, concatenated. -/
def rowsAll (n : Nat) (prev : List Nat) : List Nat := prev ++ rowsFrom n prev

theorem tableSwitch :
    nodupRadix 30 (rowsAll WS row0 ++ (rowsAll WS row0).map (· ^^^ SWITCH)) = true := by decide +kernel

end Btc.Bech32
