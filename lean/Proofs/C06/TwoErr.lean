import Proofs.C06.Polymod
/-! Two substitutions at most `WINDOW` positions apart are always detected (finite residue table). -/
namespace Btc.Bech32
open Gen.Bech32

def WINDOW : Nat := 1022

/-- residues x^k·d for k = 1..n stay out of the constants 0..31. -/
def residuesOk : Nat → Nat → Bool
  | 0, _ => true
  | n + 1, c => let c' := step0 c; decide (32 ≤ c') && residuesOk n c'

def allD : Nat → Bool
  | 0 => true
  | d + 1 => (d == 0 || residuesOk WINDOW d) && allD d

theorem table : allD 32 = true := by decide +kernel

theorem shiftK_succ' (k d : Nat) : step0 (shiftK k d) = shiftK (k + 1) d := by
  induction k generalizing d with
  | zero => rfl
  | succ k ih => simp only [shiftK]; exact ih (step0 d)

theorem residuesOk_spec (n c : Nat) (h : residuesOk n c = true) : ∀ k, k < n → 32 ≤ shiftK (k + 1) c := by
  induction n generalizing c with
  | zero => intro k hk; omega
  | succ n ih =>
    simp only [residuesOk, Bool.and_eq_true, decide_eq_true_eq] at h
    intro k hk
    cases k with
    | zero => exact h.1
    | succ k => simp only [shiftK]; exact ih _ h.2 k (by omega)

theorem allD_spec (m : Nat) (h : allD m = true) : ∀ d, d < m → d ≠ 0 → residuesOk WINDOW d = true := by
  induction m with
  | zero => intro d hd; omega
  | succ m ih =>
    simp only [allD, Bool.and_eq_true, Bool.or_eq_true, beq_iff_eq] at h
    intro d hd hne
    by_cases e : d = m
    · subst e; rcases h.1 with h0 | h0
      · exact absurd h0 hne
      · exact h0
    · exact ih h.2 d (by omega) hne

theorem residue_ge (d k : Nat) (hd : d < 32) (hne : d ≠ 0) (hk : k < WINDOW) : 32 ≤ shiftK (k + 1) d :=
  residuesOk_spec WINDOW d (allD_spec 32 table d hd hne) k hk

theorem two_substitutions (pre mid post : List Nat) (v1 v1' v2 v2' : Nat)
    (hmid : ∀ x ∈ mid, x < 2 ^ 30) (hpost : ∀ x ∈ post, x < 2 ^ 30)
    (h1 : v1 < 32) (h1' : v1' < 32) (h2 : v2 < 32) (h2' : v2' < 32) (hne : v1 ≠ v1')
    (hw : mid.length < WINDOW)
    (h : polymod (pre ++ v1 :: (mid ++ v2 :: post)) = polymod (pre ++ v1' :: (mid ++ v2' :: post))) : False := by
  unfold polymod polymodFrom at h
  simp only [List.foldl_append, List.foldl_cons] at h
  generalize List.foldl polymodStep POLY_INIT pre = c at h
  have b1 : v1 < 2 ^ 30 := by omega
  have b1' : v1' < 2 ^ 30 := by omega
  have hd1 : v1 ^^^ v1' < 32 := Nat.xor_lt_two_pow (n := 5) h1 h1'
  have hd2 : v2 ^^^ v2' < 32 := Nat.xor_lt_two_pow (n := 5) h2 h2'
  have e1 : polymodStep c v1' = polymodStep c v1 ^^^ (v1 ^^^ v1') := by
    rw [step_split, step_split, Nat.xor_assoc, ← Nat.xor_assoc v1, Nat.xor_self, Nat.zero_xor]
  have m1 := polymodFrom_xor mid (polymodStep c v1) (v1 ^^^ v1') (step_lt c v1 b1) (by omega) hmid
  unfold polymodFrom at m1
  rw [← e1] at m1
  rw [m1] at h
  generalize hx : List.foldl polymodStep (polymodStep c v1) mid = x at h
  have hxl : x < 2 ^ 30 := by
    rw [← hx]; exact polymodFrom_lt' mid _ (step_lt c v1 b1) hmid
  have hel : shiftK mid.length (v1 ^^^ v1') < 2 ^ 30 := shiftK_lt _ _ (by omega)
  have e2 : polymodStep (x ^^^ shiftK mid.length (v1 ^^^ v1')) v2'
      = polymodStep x v2 ^^^ (shiftK (mid.length + 1) (v1 ^^^ v1') ^^^ (v2 ^^^ v2')) := by
    rw [step_split, step_split, step0_linear _ _ hxl hel, shiftK_succ']
    generalize step0 x = a
    generalize shiftK (mid.length + 1) (v1 ^^^ v1') = b
    apply Nat.eq_of_testBit_eq; intro i
    simp only [Nat.testBit_xor]
    generalize a.testBit i = p
    generalize b.testBit i = q
    generalize v2.testBit i = r
    generalize v2'.testBit i = s
    cases p <;> cases q <;> cases r <;> cases s <;> rfl
  have hE : shiftK (mid.length + 1) (v1 ^^^ v1') ^^^ (v2 ^^^ v2') < 2 ^ 30 :=
    Nat.xor_lt_two_pow (shiftK_lt _ _ (by omega)) (by omega)
  have m2 := polymodFrom_xor post (polymodStep x v2) _ (step_lt x v2 (by omega)) hE hpost
  unfold polymodFrom at m2
  rw [← e2] at m2
  rw [m2] at h
  have z := shiftK_eq_zero _ _ hE (xor_self_cancel h)
  have := xor_eq_zero z
  have hd0 : v1 ^^^ v1' ≠ 0 := fun h0 => hne (xor_eq_zero h0)
  have := residue_ge (v1 ^^^ v1') mid.length hd1 hd0 hw
  omega

/-! ### the two checksum constants are not one substitution apart -/
def SWITCH : Nat := BECH32_1_CONST ^^^ BECH32_M_CONST

def residuesNe : Nat → Nat → Bool
  | 0, c => c != SWITCH
  | n + 1, c => (c != SWITCH) && residuesNe n (step0 c)

def allNe : Nat → Bool
  | 0 => true
  | d + 1 => (d == 0 || residuesNe WINDOW d) && allNe d

theorem tableNe : allNe 32 = true := by decide +kernel

theorem residuesNe_spec (n c : Nat) (h : residuesNe n c = true) : ∀ k, k ≤ n → shiftK k c ≠ SWITCH := by
  induction n generalizing c with
  | zero =>
    intro k hk
    have : k = 0 := by omega
    subst this
    simpa [residuesNe, shiftK] using h
  | succ n ih =>
    simp only [residuesNe, Bool.and_eq_true, bne_iff_ne, ne_eq] at h
    intro k hk
    cases k with
    | zero => exact h.1
    | succ k => simp only [shiftK]; exact ih _ h.2 k (by omega)

theorem allNe_spec (m : Nat) (h : allNe m = true) : ∀ d, d < m → d ≠ 0 → residuesNe WINDOW d = true := by
  induction m with
  | zero => intro d hd; omega
  | succ m ih =>
    simp only [allNe, Bool.and_eq_true, Bool.or_eq_true, beq_iff_eq] at h
    intro d hd hne
    by_cases e : d = m
    · subst e; rcases h.1 with h0 | h0
      · exact absurd h0 hne
      · exact h0
    · exact ih h.2 d (by omega) hne

/-- a single substitution never turns a bech32 checksum into a bech32m one (or back), up to 1022 values
    after the changed one. -/
theorem switch_ne (d k : Nat) (hd : d < 32) (hne : d ≠ 0) (hk : k ≤ WINDOW) : shiftK k d ≠ SWITCH :=
  residuesNe_spec WINDOW d (allNe_spec 32 tableNe d hd hne) k hk

end Btc.Bech32
