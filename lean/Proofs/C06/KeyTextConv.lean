import Proofs.C06.KeyText
import Proofs.C06.ScriptAddr
/-! WIF and extended-key text: acceptance ⇔ being the encoding of what is answered. -/
namespace Btc.KeyText
open Btc Gen.Net Btc.Address

/-- T6 (WIF acceptance): `_prv_keyinfo_from_wif` answers `(q, network, compressed)` exactly on the strings that,
    surrounding blanks removed, ARE the WIF of `q` with that flag on a network `m` that is the first of the table
    carrying its WIF prefix (the one answered), with `0 < q < n`, `q` fitting the key size and the text within
    Base58Check's length cap. One spelling per key: no other version byte, flag byte, padding or size is read. -/
theorem wif_accepts_iff (H : Bytes → Bytes) (hH : ∀ x, 4 ≤ (H x).length) (nSize n : Nat) (s : List Nat)
    (q : Nat) (nm : String) (c : Bool) :
    wifDecode H nSize n s = .ok (q, nm, c) ↔
      ∃ m, networkFrom (·.wif) m.wif = some m ∧ m.name = nm ∧ strip s = wifEncode H m nSize q c ∧
        0 < q ∧ q < n ∧ q < 256 ^ nSize ∧ (strip s).length ≤ Gen.Base58.MAX_LENGTH := by
  constructor
  · intro h
    unfold wifDecode at h
    split at h
    · cases h
    · rename_i payload hdec
      obtain ⟨henc, hcap, _⟩ := Base58.encode_decode H _ _ _ hdec
      split at h
      · cases h
      · rename_i m hm
        split at h
        · cases h
        · rename_i key compr hsplit
          simp only at h
          split at h
          · rename_i hq
            simp only [Except.ok.injEq, Prod.mk.injEq] at h
            obtain ⟨rfl, rfl, rfl⟩ := h
            obtain ⟨hmem, hw⟩ := networkFrom_mem _ _ _ hm
            obtain ⟨hp, hkl, _⟩ := wifSplit_canonical nSize payload key compr hsplit
            refine ⟨m, by rw [hw]; exact hm, rfl, ?_, hq.1, hq.2, by have := ofBE_lt key; rwa [hkl] at this, hcap⟩
            unfold wifEncode
            rw [hw, ofNats_toNats, ← hkl, beBytes_ofBE, ← hp, henc]
          · cases h
  · rintro ⟨m, hm, rfl, hs, hq0, hqn, hfit, hcap⟩
    obtain ⟨hmem, _⟩ := networkFrom_mem _ _ _ hm
    obtain ⟨l1, t1, _⟩ := wif_facts m hmem
    have hpl : (ofNats m.wif).length = 1 := by simp [ofNats, l1]
    have hkl : (beBytes nSize q).length = nSize := by simp
    unfold wifDecode
    rw [hs] at hcap ⊢
    unfold wifEncode at hcap ⊢
    rw [Base58.decode_encode H hH _ hcap]
    simp only
    have ht : toNats ((wifPayload (ofNats m.wif) (beBytes nSize q) c).take 1) = m.wif := by
      unfold wifPayload
      rw [List.append_assoc, List.take_append_of_le_length (by omega), List.take_of_length_le (by omega), t1]
    rw [ht, hm]
    simp only
    rw [wifSplit_payload nSize _ _ c hpl hkl]
    simp only [ofBE_beBytes, Nat.mod_eq_of_lt hfit, hq0, hqn, and_self, if_true]

/-- T6 (extended-key text acceptance, format level): `BIP32KeyData.b58decode(check_validity=False)` answers the
    record `k` exactly on the strings that, surrounding blanks removed, are the Base58Check text of `k`'s 78-byte
    serialization with `k` well-formed (field sizes; C05's lawful codec). -/
theorem xkey_accepts_iff (H : Bytes → Bytes) (hH : ∀ x, (H x).length = 32) (s : List Nat) (k : Wire.XKey) :
    xkeyDecode H s = .ok k ↔ Wire.xkey.valid k ∧ strip s = xkeyEncode H k := by
  constructor
  · intro h
    unfold xkeyDecode at h
    split at h
    · cases h
    · rename_i payload hdec
      obtain ⟨henc, _, _⟩ := Base58.encode_decode H _ _ _ hdec
      split at h
      · cases h
      · rename_i k' hp
        cases h
        obtain ⟨hv, rfl⟩ := (Wire.Lawful.parseAll_iff Wire.lawful_xkey payload k).mp hp
        exact ⟨hv, henc.symm⟩
  · rintro ⟨hv, hs⟩
    obtain ⟨hrt, _⟩ := xkey_roundtrip H hH k hv
    have hstrip : strip (xkeyEncode H k) = xkeyEncode H k :=
      strip_id _ (fun ch hch => alphabet_not_space ch (Base58.b58encode_chars _ ch hch))
    unfold xkeyDecode at hrt ⊢
    rw [hstrip] at hrt
    rw [hs]; exact hrt

end Btc.KeyText

namespace Btc.KeyText
open Btc Gen.Net Btc.Address

/-- the version sets are disjoint and are the private / public halves of the SLIP132 table. -/
theorem version_sets : (∀ v ∈ XPRV_ALL, v ∉ XPUB_ALL) ∧
    (∀ r ∈ SLIP132, (r.2.2.1 = true → r.1 ∈ XPRV_ALL) ∧ (r.2.2.1 = false → r.1 ∈ XPUB_ALL)) ∧
    (∀ v ∈ XPRV_ALL ++ XPUB_ALL, v.length = 4) := by decide +kernel

/-- T6 (extended-key text acceptance, validity checked): `BIP32KeyData.b58decode` answers `k` exactly on the
    strings that, blanks removed, are the Base58Check text of the well-formed `k`, with `k` passing
    `assert_valid`'s depth / index / key rules. -/
theorem xkey_checked_accepts_iff (H : Bytes → Bytes) (hH : ∀ x, (H x).length = 32) (n : Nat) (isX : Nat → Bool)
    (s : List Nat) (k : Wire.XKey) :
    xkeyDecodeChecked H n isX s = .ok k ↔
      Wire.xkey.valid k ∧ strip s = xkeyEncode H k ∧ xkeySemValid n isX k = true := by
  unfold xkeyDecodeChecked
  constructor
  · intro h
    split at h
    · cases h
    · rename_i k' hk
      split at h
      · rename_i hv
        cases h
        obtain ⟨a, b⟩ := (xkey_accepts_iff H hH s k).mp hk
        exact ⟨a, b, hv⟩
      · cases h
  · rintro ⟨a, b, c⟩
    rw [(xkey_accepts_iff H hH s k).mpr ⟨a, b⟩]
    simp [c]

/-- what the validity rules say, spelled out. -/
theorem xkeySemValid_iff (n : Nat) (isX : Nat → Bool) (k : Wire.XKey) :
    xkeySemValid n isX k = true ↔
      (k.depth = 0 → k.parentFp = [0, 0, 0, 0] ∧ k.index = 0) ∧
      ((toNats k.version ∈ XPRV_ALL ∧ k.key.head? = some 0 ∧ 0 < ofBE (k.key.drop 1) ∧ ofBE (k.key.drop 1) < n) ∨
       (toNats k.version ∈ XPUB_ALL ∧ (k.key.head? = some 2 ∨ k.key.head? = some 3) ∧
         isX (ofBE (k.key.drop 1)) = true)) := by
  have hd := version_sets.1
  unfold xkeySemValid
  simp only [Bool.and_eq_true, Bool.or_eq_true, bne_iff_ne, ne_eq, beq_iff_eq, List.contains_iff_mem]
  constructor
  · rintro ⟨h1, h2⟩
    refine ⟨fun h0 => by rcases h1 with h | h; exact absurd h0 h; exact h, ?_⟩
    split at h2
    · rename_i hm
      simp only [Bool.and_eq_true, beq_iff_eq, decide_eq_true_eq] at h2
      exact .inl ⟨hm, h2.1, h2.2.1, h2.2.2⟩
    · split at h2
      · rename_i hm
        simp only [Bool.and_eq_true, Bool.or_eq_true, beq_iff_eq] at h2
        exact .inr ⟨hm, h2.1, h2.2⟩
      · cases h2
  · rintro ⟨h1, h2⟩
    refine ⟨by by_cases h0 : k.depth = 0; exact .inr (h1 h0); exact .inl h0, ?_⟩
    rcases h2 with ⟨hm, a, b, c⟩ | ⟨hm, a, b⟩
    · rw [if_pos hm]
      simp only [a, beq_self_eq_true, Bool.true_and, Bool.and_eq_true, decide_eq_true_eq]
      exact ⟨b, c⟩
    · rw [if_neg (fun hp => hd _ hp hm), if_pos hm]
      simp only [Bool.and_eq_true, Bool.or_eq_true, beq_iff_eq]
      exact ⟨a, b⟩

end Btc.KeyText
