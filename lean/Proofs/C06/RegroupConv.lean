import Proofs.C06.Regroup
/-! Converse: what 5→8 (no pad) accepts re-encodes by 8→5 (pad) to the very digits it read. -/
set_option linter.unusedSimpArgs false
namespace Btc.BitRegroup

/-- encoder bit count that goes with decoder bit count `b2`. -/
def b1of (b2 : Nat) : Nat := (40 - b2) % 5   -- (-b2) mod 5 for b2 < 8

theorem b1of_vals : b1of 0 = 0 ∧ b1of 1 = 4 ∧ b1of 2 = 3 ∧ b1of 3 = 2 ∧ b1of 4 = 1 ∧ b1of 5 = 0 ∧
    b1of 6 = 4 ∧ b1of 7 = 3 := by decide

/-- value of the digits the encoder still owes. -/
def pval : List Nat → Nat
  | [] => 0
  | p :: ps => p * 32 ^ ps.length + pval ps

/-- coupling: the digits `P` read by the decoder and not yet re-emitted by the encoder; the encoder
    holds their top `b1` bits, the decoder their low `b2` bits. -/
def Rel2 (b2 acc2 acc1 : Nat) (P : List Nat) : Prop :=
  b2 < 8 ∧ (∀ p ∈ P, p < 32) ∧ 5 * P.length = b1of b2 + b2 ∧
  acc1 % 2 ^ b1of b2 = pval P / 2 ^ b2 ∧ acc2 % 2 ^ b2 = pval P % 2 ^ b2

theorem loop_ok_lt (f t : Nat) (l : List Nat) (acc bits : Nat) (r) (h : loop f t l acc bits = .ok r) :
    ∀ v ∈ l, v < 2 ^ f := by
  induction l generalizing acc bits r with
  | nil => intro v hv; cases hv
  | cons x xs ih =>
    intro v hv
    by_cases hx : x >>> f = 0
    · rw [loop_cons f t x xs acc bits hx] at h
      rcases List.mem_cons.mp hv with rfl | hm
      · rw [Nat.shiftRight_eq_div_pow] at hx
        exact (Nat.div_eq_zero_iff_lt (Nat.two_pow_pos f)).mp hx
      · generalize hl : loop f t xs _ _ = q at h
        cases q with
        | error e => cases h
        | ok p => exact ih _ _ _ hl v hm
    · simp [loop, hx] at h

theorem bindOut_ok (E : List Nat) (r) (a b : Nat) (o : List Nat) (h : bindOut E r = .ok (a, b, o)) :
    ∃ o', r = .ok (a, b, o') ∧ o = E ++ o' := by
  cases r with
  | error e => cases h
  | ok p =>
    obtain ⟨a', b', o'⟩ := p
    simp only [bindOut, Except.ok.injEq, Prod.mk.injEq] at h
    obtain ⟨rfl, rfl, rfl⟩ := h
    exact ⟨o', rfl, rfl⟩

theorem len0 {P : List Nat} (h : P.length = 0) : P = [] := List.eq_nil_of_length_eq_zero h
theorem len1 {P : List Nat} (h : P.length = 1) : ∃ p, P = [p] := by
  match P, h with
  | [p], _ => exact ⟨p, rfl⟩
theorem len2 {P : List Nat} (h : P.length = 2) : ∃ p q, P = [p, q] := by
  match P, h with
  | [p, q], _ => exact ⟨p, q, rfl⟩

theorem pval_snoc (P : List Nat) (d : Nat) : pval (P ++ [d]) = pval P * 32 + d := by
  induction P with
  | nil => simp [pval]
  | cons p ps ih =>
    simp only [List.cons_append, pval, ih, List.length_append, List.length_cons, List.length_nil]
    rw [Nat.pow_succ, Nat.add_mul]
    simp only [Nat.zero_add, Nat.mul_assoc, Nat.add_assoc]

/-- the decoder reads digit `d`; the encoder is fed whatever byte that releases. -/
theorem convStep (b2 acc2 acc1 d : Nat) (P : List Nat) (hR : Rel2 b2 acc2 acc1 P) (hd : d < 32) :
    ∃ acc1' E P', (∀ tail, loop 8 5 (decOut acc2 b2 d ++ tail) acc1 (b1of b2)
        = bindOut E (loop 8 5 tail acc1' (b1of ((b2 + 5) % 8)))) ∧
      Rel2 ((b2 + 5) % 8) ((acc2 * 32 + d) % 4096) acc1' P' ∧ P ++ [d] = E ++ P' ∧
      (∀ v ∈ decOut acc2 b2 d, v < 256) := by
  obtain ⟨hb, hP, hl, h1, h2⟩ := hR
  have : b2 = 0 ∨ b2 = 1 ∨ b2 = 2 ∨ b2 = 3 ∨ b2 = 4 ∨ b2 = 5 ∨ b2 = 6 ∨ b2 = 7 := by omega
  have hPd : ∀ p ∈ P ++ [d], p < 32 := by
    intro p hp; rcases List.mem_append.mp hp with h | h
    · exact hP p h
    · simp at h; omega
  rcases this with rfl | rfl | rfl | rfl | rfl | rfl | rfl | rfl
  -- b2 = 0, 1, 2: nothing released, the digit joins the pending ones
  iterate 3
    refine ⟨acc1, [], P ++ [d], fun tail => ?_, ?_, rfl, by simp [decOut]⟩
    · simp [decOut, bindOut_nil, b1of]
    · refine ⟨by omega, hPd, ?_, ?_, ?_⟩
      · simp only [List.length_append, List.length_cons, List.length_nil]
        simp only [b1of] at hl ⊢; omega
      · rw [pval_snoc]; simp only [b1of, Nat.reduceAdd, Nat.reduceMod, Nat.reduceSub, Nat.reducePow] at h1 h2 ⊢
        omega
      · rw [pval_snoc]; simp only [b1of, Nat.reduceAdd, Nat.reduceMod, Nat.reduceSub, Nat.reducePow] at h1 h2 ⊢
        omega
  · obtain ⟨p, rfl⟩ := len1 (P := P) (by simp only [b1of] at hl; omega)
    have hp := hP
    simp only [List.mem_cons, List.not_mem_nil, or_false, forall_eq_or_imp, forall_eq] at hp
    simp only [pval, b1of, List.length_cons, List.length_nil, Nat.reduceAdd, Nat.reduceMod, Nat.reduceSub,
      Nat.reducePow, Nat.pow_zero, Nat.mul_one, Nat.add_zero, Nat.pow_one] at h1 h2
    have hdo : decOut acc2 3 d = [((acc2 * 32 + d) % 4096 / 2 ^ (3 - 3) % 256)] := by simp [decOut]
    have hE : encOut acc1 2 ((acc2 * 32 + d) % 4096 / 2 ^ (3 - 3) % 256) = [p, d] := by
      simp only [encOut]; rw [if_neg (by omega)]
      congr 1
      · omega
      · congr 1; omega
    refine ⟨((acc1 * 256 + ((acc2 * 32 + d) % 4096 / 2 ^ (3 - 3) % 256)) % 4096), [p, d], [], fun tail => ?_, ?_, by simp, by rw [hdo]; intro v hv; simp at hv; omega⟩
    · rw [hdo, List.cons_append, List.nil_append]
      show loop 8 5 _ acc1 2 = bindOut _ (loop 8 5 tail _ 0)
      rw [encStep acc1 2 _ tail (by omega) (by omega), hE]
    · refine ⟨by omega, ?_, rfl, ?_, ?_⟩
      · intro x hx; simp at hx <;> omega
      · simp only [pval, b1of, List.length_cons, List.length_nil, Nat.reduceAdd, Nat.reduceMod, Nat.reduceSub,
          Nat.reducePow, Nat.pow_zero, Nat.mul_one, Nat.add_zero, Nat.pow_one]
        omega
      · simp only [pval, b1of, List.length_cons, List.length_nil, Nat.reduceAdd, Nat.reduceMod, Nat.reduceSub,
          Nat.reducePow, Nat.pow_zero, Nat.mul_one, Nat.add_zero, Nat.pow_one]
        omega
  · obtain ⟨p, rfl⟩ := len1 (P := P) (by simp only [b1of] at hl; omega)
    have hp := hP
    simp only [List.mem_cons, List.not_mem_nil, or_false, forall_eq_or_imp, forall_eq] at hp
    simp only [pval, b1of, List.length_cons, List.length_nil, Nat.reduceAdd, Nat.reduceMod, Nat.reduceSub,
      Nat.reducePow, Nat.pow_zero, Nat.mul_one, Nat.add_zero, Nat.pow_one] at h1 h2
    have hdo : decOut acc2 4 d = [((acc2 * 32 + d) % 4096 / 2 ^ (4 - 3) % 256)] := by simp [decOut]
    have hE : encOut acc1 1 ((acc2 * 32 + d) % 4096 / 2 ^ (4 - 3) % 256) = [p] := by
      simp only [encOut]; rw [if_pos (by omega)]
      congr 1; omega
    refine ⟨((acc1 * 256 + ((acc2 * 32 + d) % 4096 / 2 ^ (4 - 3) % 256)) % 4096), [p], [d], fun tail => ?_, ?_, by simp, by rw [hdo]; intro v hv; simp at hv; omega⟩
    · rw [hdo, List.cons_append, List.nil_append]
      show loop 8 5 _ acc1 1 = bindOut _ (loop 8 5 tail _ 4)
      rw [encStep acc1 1 _ tail (by omega) (by omega), hE]
    · refine ⟨by omega, ?_, rfl, ?_, ?_⟩
      · intro x hx; simp at hx <;> omega
      · simp only [pval, b1of, List.length_cons, List.length_nil, Nat.reduceAdd, Nat.reduceMod, Nat.reduceSub,
          Nat.reducePow, Nat.pow_zero, Nat.mul_one, Nat.add_zero, Nat.pow_one]
        omega
      · simp only [pval, b1of, List.length_cons, List.length_nil, Nat.reduceAdd, Nat.reduceMod, Nat.reduceSub,
          Nat.reducePow, Nat.pow_zero, Nat.mul_one, Nat.add_zero, Nat.pow_one]
        omega
  · obtain ⟨p, rfl⟩ := len1 (P := P) (by simp only [b1of] at hl; omega)
    have hp := hP
    simp only [List.mem_cons, List.not_mem_nil, or_false, forall_eq_or_imp, forall_eq] at hp
    simp only [pval, b1of, List.length_cons, List.length_nil, Nat.reduceAdd, Nat.reduceMod, Nat.reduceSub,
      Nat.reducePow, Nat.pow_zero, Nat.mul_one, Nat.add_zero, Nat.pow_one] at h1 h2
    have hdo : decOut acc2 5 d = [((acc2 * 32 + d) % 4096 / 2 ^ (5 - 3) % 256)] := by simp [decOut]
    have hE : encOut acc1 0 ((acc2 * 32 + d) % 4096 / 2 ^ (5 - 3) % 256) = [p] := by
      simp only [encOut]; rw [if_pos (by omega)]
      congr 1; omega
    refine ⟨((acc1 * 256 + ((acc2 * 32 + d) % 4096 / 2 ^ (5 - 3) % 256)) % 4096), [p], [d], fun tail => ?_, ?_, by simp, by rw [hdo]; intro v hv; simp at hv; omega⟩
    · rw [hdo, List.cons_append, List.nil_append]
      show loop 8 5 _ acc1 0 = bindOut _ (loop 8 5 tail _ 3)
      rw [encStep acc1 0 _ tail (by omega) (by omega), hE]
    · refine ⟨by omega, ?_, rfl, ?_, ?_⟩
      · intro x hx; simp at hx <;> omega
      · simp only [pval, b1of, List.length_cons, List.length_nil, Nat.reduceAdd, Nat.reduceMod, Nat.reduceSub,
          Nat.reducePow, Nat.pow_zero, Nat.mul_one, Nat.add_zero, Nat.pow_one]
        omega
      · simp only [pval, b1of, List.length_cons, List.length_nil, Nat.reduceAdd, Nat.reduceMod, Nat.reduceSub,
          Nat.reducePow, Nat.pow_zero, Nat.mul_one, Nat.add_zero, Nat.pow_one]
        omega
  · obtain ⟨p, q, rfl⟩ := len2 (P := P) (by simp only [b1of] at hl; omega)
    have hp := hP
    simp only [List.mem_cons, List.not_mem_nil, or_false, forall_eq_or_imp, forall_eq] at hp
    simp only [pval, b1of, List.length_cons, List.length_nil, Nat.reduceAdd, Nat.reduceMod, Nat.reduceSub,
      Nat.reducePow, Nat.pow_zero, Nat.mul_one, Nat.add_zero, Nat.pow_one] at h1 h2
    have hdo : decOut acc2 6 d = [((acc2 * 32 + d) % 4096 / 2 ^ (6 - 3) % 256)] := by simp [decOut]
    have hE : encOut acc1 4 ((acc2 * 32 + d) % 4096 / 2 ^ (6 - 3) % 256) = [p, q] := by
      simp only [encOut]; rw [if_neg (by omega)]
      congr 1
      · omega
      · congr 1; omega
    refine ⟨((acc1 * 256 + ((acc2 * 32 + d) % 4096 / 2 ^ (6 - 3) % 256)) % 4096), [p, q], [d], fun tail => ?_, ?_, by simp, by rw [hdo]; intro v hv; simp at hv; omega⟩
    · rw [hdo, List.cons_append, List.nil_append]
      show loop 8 5 _ acc1 4 = bindOut _ (loop 8 5 tail _ 2)
      rw [encStep acc1 4 _ tail (by omega) (by omega), hE]
    · refine ⟨by omega, ?_, rfl, ?_, ?_⟩
      · intro x hx; simp at hx <;> omega
      · simp only [pval, b1of, List.length_cons, List.length_nil, Nat.reduceAdd, Nat.reduceMod, Nat.reduceSub,
          Nat.reducePow, Nat.pow_zero, Nat.mul_one, Nat.add_zero, Nat.pow_one]
        omega
      · simp only [pval, b1of, List.length_cons, List.length_nil, Nat.reduceAdd, Nat.reduceMod, Nat.reduceSub,
          Nat.reducePow, Nat.pow_zero, Nat.mul_one, Nat.add_zero, Nat.pow_one]
        omega
  · obtain ⟨p, q, rfl⟩ := len2 (P := P) (by simp only [b1of] at hl; omega)
    have hp := hP
    simp only [List.mem_cons, List.not_mem_nil, or_false, forall_eq_or_imp, forall_eq] at hp
    simp only [pval, b1of, List.length_cons, List.length_nil, Nat.reduceAdd, Nat.reduceMod, Nat.reduceSub,
      Nat.reducePow, Nat.pow_zero, Nat.mul_one, Nat.add_zero, Nat.pow_one] at h1 h2
    have hdo : decOut acc2 7 d = [((acc2 * 32 + d) % 4096 / 2 ^ (7 - 3) % 256)] := by simp [decOut]
    have hE : encOut acc1 3 ((acc2 * 32 + d) % 4096 / 2 ^ (7 - 3) % 256) = [p, q] := by
      simp only [encOut]; rw [if_neg (by omega)]
      congr 1
      · omega
      · congr 1; omega
    refine ⟨((acc1 * 256 + ((acc2 * 32 + d) % 4096 / 2 ^ (7 - 3) % 256)) % 4096), [p, q], [d], fun tail => ?_, ?_, by simp, by rw [hdo]; intro v hv; simp at hv; omega⟩
    · rw [hdo, List.cons_append, List.nil_append]
      show loop 8 5 _ acc1 3 = bindOut _ (loop 8 5 tail _ 1)
      rw [encStep acc1 3 _ tail (by omega) (by omega), hE]
    · refine ⟨by omega, ?_, rfl, ?_, ?_⟩
      · intro x hx; simp at hx <;> omega
      · simp only [pval, b1of, List.length_cons, List.length_nil, Nat.reduceAdd, Nat.reduceMod, Nat.reduceSub,
          Nat.reducePow, Nat.pow_zero, Nat.mul_one, Nat.add_zero, Nat.pow_one]
        omega
      · simp only [pval, b1of, List.length_cons, List.length_nil, Nat.reduceAdd, Nat.reduceMod, Nat.reduceSub,
          Nat.reducePow, Nat.pow_zero, Nat.mul_one, Nat.add_zero, Nat.pow_one]
        omega

theorem convFin (b2 acc2 acc1 : Nat) (P : List Nat) (hR : Rel2 b2 acc2 acc1 P) (hb : b2 < 5)
    (hz : (acc2 <<< (8 - b2)) &&& maxv 8 = 0) : fin acc1 (b1of b2) = P := by
  obtain ⟨_, hP, hl, h1, h2⟩ := hR
  have mv5 : maxv 5 = 31 := by decide
  have mv8 : maxv 8 = 255 := by decide
  rw [mv8, and255, Nat.shiftLeft_eq] at hz
  have : b2 = 0 ∨ b2 = 1 ∨ b2 = 2 ∨ b2 = 3 ∨ b2 = 4 := by omega
  rcases this with rfl | rfl | rfl | rfl | rfl
  · have := len0 (P := P) (by simp only [b1of] at hl; omega)
    subst this; rfl
  all_goals
    obtain ⟨p, rfl⟩ := len1 (P := P) (by simp only [b1of] at hl; omega)
    have hp := hP
    simp only [List.mem_cons, List.not_mem_nil, or_false, forall_eq] at hp
    simp only [pval, b1of, List.length_nil, Nat.reduceAdd, Nat.reduceMod, Nat.reduceSub,
      Nat.reducePow, Nat.pow_zero, Nat.mul_one, Nat.add_zero] at h1 h2 hz
    simp only [fin, b1of, mv5, and31, Nat.shiftLeft_eq, Nat.reduceSub, Nat.reduceMod, Nat.reducePow, ne_eq,
      Nat.succ_ne_zero, not_false_eq_true, if_true]
    congr 1; omega

theorem conv_from (five : List Nat) :
    ∀ b2 acc2 acc1 P, Rel2 b2 acc2 acc1 P → ∀ a2 bb2 out, loop 5 8 five acc2 b2 = .ok (a2, bb2, out) →
      bb2 < 5 → (a2 <<< (8 - bb2)) &&& maxv 8 = 0 →
      ∃ a1 bb1 o1, loop 8 5 out acc1 (b1of b2) = .ok (a1, bb1, o1) ∧ o1 ++ fin a1 bb1 = P ++ five ∧
        (∀ v ∈ out, v < 256) := by
  induction five with
  | nil =>
    intro b2 acc2 acc1 P hR a2 bb2 out h hb hz
    simp only [loop, Except.ok.injEq, Prod.mk.injEq] at h
    obtain ⟨rfl, rfl, rfl⟩ := h
    exact ⟨acc1, b1of b2, [], rfl, by simpa using convFin b2 acc2 acc1 P hR hb hz, by simp⟩
  | cons d rest ih =>
    intro b2 acc2 acc1 P hR a2 bb2 out h hb hz
    have hd : d < 32 := by
      have := loop_ok_lt 5 8 (d :: rest) acc2 b2 _ h d (List.mem_cons_self ..); omega
    rw [decStep acc2 b2 d rest hR.1 hd] at h
    obtain ⟨out', h', rfl⟩ := bindOut_ok _ _ _ _ _ h
    obtain ⟨acc1', E, P', henc, hR', hPE, hlt⟩ := convStep b2 acc2 acc1 d P hR hd
    obtain ⟨a1, bb1, o1, he, ho, hlt'⟩ := ih _ _ _ _ hR' _ _ _ h' hb hz
    refine ⟨a1, bb1, E ++ o1, ?_, ?_, ?_⟩
    · rw [henc, he]; rfl
    · rw [List.append_assoc, ho, ← List.append_assoc, ← hPE]; simp
    · intro v hv; rcases List.mem_append.mp hv with h | h
      · exact hlt v h
      · exact hlt' v h

/-- T4 converse: whatever 5→8 without padding accepts is the canonical grouping of its result. -/
theorem convert_5_8_canonical (five bytes : List Nat) (h : convert five 5 8 false = .ok bytes) :
    convert bytes 8 5 true = .ok five ∧ (∀ v ∈ bytes, v < 256) ∧ (∀ d ∈ five, d < 32) := by
  unfold convert at h
  generalize hl : loop 5 8 five 0 0 = r at h
  cases r with
  | error e => cases h
  | ok t =>
    obtain ⟨a2, bb2, out⟩ := t
    simp only [Bool.false_eq_true, if_false] at h
    split at h
    · cases h
    · split at h
      · cases h
      · rename_i hb hz
        cases h
        have hR : Rel2 0 0 0 [] := ⟨by omega, by simp, by decide, by simp [pval], by simp [pval]⟩
        obtain ⟨a1, bb1, o1, he, ho, hlt⟩ := conv_from five 0 0 0 [] hR a2 bb2 bytes hl (by omega) (by simpa using hz)
        refine ⟨?_, hlt, ?_⟩
        · unfold convert
          have : b1of 0 = 0 := rfl
          rw [this] at he
          rw [he]
          simp only [if_true, fin] at ho ⊢
          split <;> simp_all
        · intro d hd
          have := loop_ok_lt 5 8 five 0 0 _ hl d hd; omega

