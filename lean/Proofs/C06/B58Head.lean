import Proofs.C06.Address
/-! First character of a Base58 string: a p2pkh / p2sh address never looks segwit-prefixed. -/
namespace Btc.Base58
open Gen.Base58 Btc

theorem head_digits (b : Nat) (hb : 1 < b) : ∀ k v, b ^ k ≤ v → v < b ^ (k + 1) →
    (Nat.digits b v).reverse.head? = some (v / b ^ k) := by
  intro k
  induction k with
  | zero =>
    intro v h1 h2
    simp only [pow_zero, zero_add, pow_one] at h1 h2
    rw [Nat.digits_of_lt b v (by omega) h2]; simp
  | succ k ih =>
    intro v h1 h2
    have hpos : 0 < v := lt_of_lt_of_le (Nat.pow_pos (by omega)) h1
    rw [Nat.digits_def' hb hpos, List.reverse_cons]
    have h3 : b ^ k ≤ v / b := by
      rw [Nat.le_div_iff_mul_le (by omega)]; rw [pow_succ] at h1; exact h1
    have h4 : v / b < b ^ (k + 1) := by
      rw [Nat.div_lt_iff_lt_mul (by omega)]; rw [pow_succ (n := k + 1)] at h2; exact h2
    have := ih (v / b) h3 h4
    rw [List.head?_append, this]
    simp [Nat.div_div_eq_div_mul, pow_succ, Nat.mul_comm]

/-- first character of `_b58encode` of bytes starting with a non-zero byte. -/
theorem b58encode_head (x : UInt8) (t : Bytes) (hx : x ≠ 0) (k : Nat) (h1 : 58 ^ k ≤ ofBE (x :: t))
    (h2 : ofBE (x :: t) < 58 ^ (k + 1)) :
    (b58encode (x :: t)).head? = some (charOf (ofBE (x :: t) / 58 ^ k)) := by
  have hpos : 0 < ofBE (x :: t) := lt_of_lt_of_le (Nat.pow_pos (by omega)) h1
  unfold b58encode
  simp only [stripLeading, if_neg hx, Nat.sub_self, List.replicate_zero, List.nil_append, List.isEmpty_cons,
    Bool.false_eq_true, if_false]
  unfold digitsOfInt
  rw [digitsOfIntC_eq CHUNK (by decide) _ hpos, List.head?_map, head_digits 58 (by omega) k _ h1 h2]
  rfl

/-- first character of `_b58encode` of bytes starting with a zero byte: `1`. -/
theorem b58encode_head_zero (t : Bytes) : (b58encode (0 :: t)).head? = some (charOf 0) := by
  obtain ⟨_, hle⟩ := strip_decomp (0 : UInt8) t
  unfold b58encode
  simp only [stripLeading, if_true, List.length_cons]
  have : t.length + 1 - (stripLeading (0 : UInt8) t).length = (t.length - (stripLeading (0 : UInt8) t).length) + 1 := by
    omega
  rw [this, List.replicate_succ]; rfl

end Btc.Base58
