import Model.C06.Base58
import Proofs.Common.Bytes
import Mathlib.Data.Nat.Digits.Lemmas
import Mathlib.Tactic.Ring
/-! Base58: chunked conversion = positional base 58 (any chunk size ≥ 1); decode ∘ encode and canonicity. -/
namespace Btc.Base58
open Gen.Base58 Btc

theorem base_eq : BASE = 58 := rfl

/-! ### encoder: the digits are `Nat.digits 58` -/
theorem chunkDigits_append (n c q : Nat) (hc : c < 58 ^ n) (hq : 0 < q) :
    chunkDigits n c ++ Nat.digits 58 q = Nat.digits 58 (q * 58 ^ n + c) := by
  induction n generalizing c with
  | zero => simp at hc; subst hc; simp [chunkDigits]
  | succ n ih =>
    have hpos : 0 < q * 58 ^ (n + 1) + c := by positivity
    rw [Nat.digits_def' (by omega) hpos]
    simp only [chunkDigits, base_eq, List.cons_append]
    have e : q * 58 ^ (n + 1) + c = 58 * (q * 58 ^ n) + c := by ring
    congr 1
    · rw [e]; omega
    · rw [ih (c / 58) (by rw [Nat.pow_succ] at hc; omega)]
      congr 1; rw [e]; omega

theorem encLoop2_false (fuel i : Nat) (h : i ≤ fuel) : encLoop2 fuel i false = Nat.digits 58 i := by
  induction fuel generalizing i with
  | zero => have : i = 0 := by omega
            subst this; simp [encLoop2]
  | succ k ih =>
    by_cases hi : i = 0
    · subst hi; simp [encLoop2]
    · simp only [encLoop2, hi, ne_eq, not_false_eq_true, true_or, if_true, base_eq]
      rw [Nat.digits_def' (by omega) (by omega), ih (i / 58) (by omega)]

theorem encLoop2_pos (fuel i : Nat) (b : Bool) (h : i ≤ fuel) (hi : 0 < i) :
    encLoop2 fuel i b = Nat.digits 58 i := by
  rw [← encLoop2_false fuel i h]
  cases fuel with
  | zero => omega
  | succ k => simp [encLoop2, Nat.pos_iff_ne_zero.mp hi]

theorem encLoop1_spec (chunk : Nat) (hc : 1 ≤ chunk) (fuel i : Nat) (h : i ≤ fuel) :
    (encLoop1 chunk fuel i).1 ++ Nat.digits 58 (encLoop1 chunk fuel i).2 = Nat.digits 58 i ∧
    (0 < i → 0 < (encLoop1 chunk fuel i).2) ∧ (encLoop1 chunk fuel i).2 ≤ i := by
  induction fuel generalizing i with
  | zero => simp [encLoop1]
  | succ k ih =>
    have hcb : 58 ≤ chunkBase chunk := by
      unfold chunkBase; rw [base_eq]
      calc 58 = 58 ^ 1 := by norm_num
        _ ≤ 58 ^ chunk := Nat.pow_le_pow_right (by omega) hc
    simp only [encLoop1]
    split
    · rename_i hge
      have hq : 0 < i / chunkBase chunk := Nat.div_pos hge (by omega)
      have hle : i / chunkBase chunk ≤ k := by
        have : i / chunkBase chunk ≤ i / 58 := Nat.div_le_div_left hcb (by omega)
        omega
      obtain ⟨a, b, c⟩ := ih (i / chunkBase chunk) hle
      refine ⟨?_, fun _ => b hq, le_trans c (Nat.div_le_self _ _)⟩
      simp only [List.append_assoc]
      rw [a]
      have hm : i % chunkBase chunk < 58 ^ chunk := by
        have : chunkBase chunk = 58 ^ chunk := rfl
        rw [← this]; exact Nat.mod_lt _ (by omega)
      rw [chunkDigits_append chunk _ _ hm hq]
      congr 1
      have : chunkBase chunk = 58 ^ chunk := rfl
      rw [← this]; exact Nat.div_add_mod' i (chunkBase chunk)
    · exact ⟨by simp, fun h => h, le_refl _⟩

/-- T1 (chunked = positional, encoder): for every chunk size ≥ 1 the digits written are the plain
    positional base-58 digits, most significant first. -/
theorem digitsOfIntC_eq (chunk : Nat) (hc : 1 ≤ chunk) (i : Nat) (hi : 0 < i) :
    digitsOfIntC chunk i = (Nat.digits 58 i).reverse := by
  unfold digitsOfIntC
  obtain ⟨a, b, c⟩ := encLoop1_spec chunk hc (i + 1) i (by omega)
  simp only
  rw [encLoop2_pos (i + 1) _ _ (by omega) (b hi), a]

/-! ### decoder: the value is the positional one -/
def val (ds : List Nat) : Nat := ds.foldl (fun v d => v * 58 + d) 0

theorem foldl_shift (l : List Nat) (acc : Nat) :
    l.foldl (fun v d => v * 58 + d) acc = acc * 58 ^ l.length + l.foldl (fun v d => v * 58 + d) 0 := by
  induction l generalizing acc with
  | nil => simp
  | cons x xs ih =>
    simp only [List.foldl_cons, List.length_cons]
    rw [ih (acc * 58 + x), ih (0 * 58 + x)]
    ring

/-- T1 (chunked = positional, decoder): for every chunk size ≥ 1, `_b58decode_to_int` is Horner. -/
theorem decodeToInt_eq (chunk : Nat) (hc : 1 ≤ chunk) (fuel : Nat) (ds : List Nat) (acc : Nat)
    (h : ds.length < fuel) : decodeToInt chunk fuel ds acc = ds.foldl (fun v d => v * 58 + d) acc := by
  induction fuel generalizing ds acc with
  | zero => omega
  | succ k ih =>
    simp only [decodeToInt]
    split
    · rename_i he; simp at he; subst he; rfl
    · rename_i he
      have hne : ds ≠ [] := by simpa using he
      have hl : 0 < ds.length := List.length_pos_iff.mpr hne
      rw [ih _ _ (by simp; omega)]
      have : acc * BASE ^ (ds.take chunk).length + chunkValue (ds.take chunk)
          = (ds.take chunk).foldl (fun v d => v * 58 + d) acc := by
        rw [foldl_shift (ds.take chunk) acc]; rfl
      rw [this, ← List.foldl_append, List.take_append_drop]

theorem val_eq_ofDigits (ds : List Nat) : val ds = Nat.ofDigits 58 ds.reverse := by
  induction ds with
  | nil => rfl
  | cons d ds ih =>
    unfold val at *
    rw [List.foldl_cons, foldl_shift, ih, List.reverse_cons, Nat.ofDigits_append, Nat.ofDigits_singleton]
    simp; ring

/-! ### alphabet -/
theorem alphabet_length : ALPHABET.length = 58 := rfl

theorem digitOf_charOf : ∀ d, d < 58 → digitOf (charOf d) = some d := by decide +kernel

theorem charOf_digitOf (c d : Nat) (h : digitOf c = some d) : d < 58 ∧ charOf d = c := by
  unfold digitOf List.idxOf? at h
  obtain ⟨hl, he, _⟩ := List.findIdx?_eq_some_iff_getElem.mp h
  refine ⟨by rw [alphabet_length] at hl; exact hl, ?_⟩
  unfold charOf
  rw [List.getD_eq_getElem?_getD, List.getElem?_eq_getElem hl]
  simpa using he

theorem allDigits_map (L : List Nat) (h : ∀ d ∈ L, d < 58) : allDigits (L.map charOf) = some L := by
  induction L with
  | nil => rfl
  | cons d ds ih =>
    simp only [List.map_cons, allDigits, digitOf_charOf d (h d (List.mem_cons_self ..)),
      ih (fun x hx => h x (List.mem_cons_of_mem _ hx))]

theorem allDigits_some (s ds : List Nat) (h : allDigits s = some ds) :
    s = ds.map charOf ∧ ∀ d ∈ ds, d < 58 := by
  induction s generalizing ds with
  | nil => simp [allDigits] at h; subst h; simp
  | cons c cs ih =>
    simp only [allDigits] at h
    split at h
    · rename_i d r hd hr
      cases h
      obtain ⟨e, hlt⟩ := ih r hr
      obtain ⟨h1, h2⟩ := charOf_digitOf c d hd
      refine ⟨by simp [h2, ← e], ?_⟩
      intro x hx; rcases List.mem_cons.mp hx with rfl | hx
      · exact h1
      · exact hlt x hx
    · cases h

/-! ### leading zeros -/
section strip
variable {α : Type} [DecidableEq α]

theorem strip_decomp (z : α) (l : List α) :
    l = List.replicate (l.length - (stripLeading z l).length) z ++ stripLeading z l ∧
      (stripLeading z l).length ≤ l.length := by
  induction l with
  | nil => simp [stripLeading]
  | cons x xs ih =>
    simp only [stripLeading]
    split
    · rename_i hx
      subst hx
      obtain ⟨e, hl⟩ := ih
      refine ⟨?_, by simp; omega⟩
      have : (x :: xs).length - (stripLeading x xs).length = (xs.length - (stripLeading x xs).length) + 1 := by
        simp; omega
      rw [this, List.replicate_succ, List.cons_append, ← e]
    · simp

theorem strip_head (z : α) (l : List α) :
    stripLeading z l = [] ∨ ∃ x t, stripLeading z l = x :: t ∧ x ≠ z := by
  induction l with
  | nil => left; rfl
  | cons x xs ih =>
    simp only [stripLeading]
    split
    · exact ih
    · rename_i hx; right; exact ⟨x, xs, rfl, hx⟩

theorem strip_replicate (z : α) (n : Nat) (W : List α) (h : W = [] ∨ ∃ x t, W = x :: t ∧ x ≠ z) :
    stripLeading z (List.replicate n z ++ W) = W := by
  induction n with
  | zero =>
    simp only [List.replicate_zero, List.nil_append]
    rcases h with rfl | ⟨x, t, rfl, hx⟩
    · rfl
    · simp [stripLeading, hx]
  | succ k ih => simp [List.replicate_succ, stripLeading, ih]
end strip

/-! ### minimal big-endian bytes -/
open Btc.Py in
theorem natBitLengthAux_spec : ∀ fuel n, n ≤ fuel → 0 < n →
    1 ≤ natBitLengthAux fuel n ∧ 2 ^ (natBitLengthAux fuel n - 1) ≤ n ∧ n < 2 ^ natBitLengthAux fuel n := by
  intro fuel
  induction fuel with
  | zero => intro n hn hp; omega
  | succ k ih =>
    intro n hn hpos
    have hne : n ≠ 0 := by omega
    simp only [natBitLengthAux, hne, if_false]
    by_cases h2 : n / 2 = 0
    · have : n = 1 := by omega
      subst this
      cases k <;> simp [natBitLengthAux]
    · obtain ⟨a, b, c⟩ := ih (n / 2) (by omega) (by omega)
      refine ⟨by omega, ?_, ?_⟩
      · have : 1 + natBitLengthAux k (n / 2) - 1 = (natBitLengthAux k (n / 2) - 1) + 1 := by omega
        rw [this, Nat.pow_succ]; omega
      · rw [Nat.add_comm, Nat.pow_succ]; omega

def byteLen (x : Nat) : Nat := (Py.natBitLength x + 7) / 8

theorem byteLen_spec (x : Nat) (h : 0 < x) :
    1 ≤ byteLen x ∧ 256 ^ (byteLen x - 1) ≤ x ∧ x < 256 ^ byteLen x := by
  obtain ⟨a, b, c⟩ := natBitLengthAux_spec x x (le_refl _) h
  unfold byteLen Py.natBitLength
  generalize Py.natBitLengthAux x x = L at a b c
  have e : ∀ k, 256 ^ k = 2 ^ (8 * k) := fun k => by rw [Nat.pow_mul]
  refine ⟨by omega, ?_, ?_⟩
  · rw [e]
    exact le_trans (Nat.pow_le_pow_right (by omega) (by omega)) b
  · rw [e]
    exact lt_of_lt_of_le c (Nat.pow_le_pow_right (by omega) (by omega))

theorem ofBE_cons (h : UInt8) (t : Bytes) : ofBE (h :: t) = h.toNat * 256 ^ t.length + ofBE t := by
  rw [ofBE_eq_ofLE_reverse, List.reverse_cons, ofLE_append, ofBE_eq_ofLE_reverse]
  simp [ofLE]; ring

theorem byteLen_unique (x k : Nat) (h1 : 256 ^ (k - 1) ≤ x) (h2 : x < 256 ^ k) (hk : 1 ≤ k) (hx : 0 < x) :
    byteLen x = k := by
  obtain ⟨a, b, c⟩ := byteLen_spec x hx
  have l1 : 256 ^ (k - 1) < 256 ^ byteLen x := lt_of_le_of_lt h1 c
  have l2 : 256 ^ (byteLen x - 1) < 256 ^ k := lt_of_le_of_lt b h2
  have := (Nat.pow_lt_pow_iff_right (a := 256) (by omega)).mp l1
  have := (Nat.pow_lt_pow_iff_right (a := 256) (by omega)).mp l2
  omega

theorem minimalBE_ofBE (x : UInt8) (t : Bytes) (hx : x ≠ 0) : minimalBE (ofBE (x :: t)) = x :: t := by
  unfold minimalBE
  have hxn : 1 ≤ x.toNat := by
    have : x.toNat ≠ 0 := fun h => hx (UInt8.toNat_inj.mp (by simpa using h))
    omega
  have lo : 256 ^ t.length ≤ ofBE (x :: t) := by
    rw [ofBE_cons]; nlinarith [Nat.pow_pos (n := t.length) (show 0 < 256 by omega)]
  have hi := ofBE_lt (x :: t)
  have : (Py.natBitLength (ofBE (x :: t)) + 7) / 8 = (x :: t).length :=
    byteLen_unique _ _ (by simpa using lo) hi (by simp) (lt_of_lt_of_le (by positivity) lo)
  rw [this, beBytes_ofBE]

theorem minimalBE_spec (v : Nat) (hv : 0 < v) :
    ofBE (minimalBE v) = v ∧ ∃ b t, minimalBE v = b :: t ∧ b ≠ 0 := by
  obtain ⟨a, b, c⟩ := byteLen_spec v hv
  have hval : ofBE (minimalBE v) = v := by
    unfold minimalBE; rw [ofBE_beBytes]; exact Nat.mod_eq_of_lt c
  refine ⟨hval, ?_⟩
  have hlen : (minimalBE v).length = byteLen v := by simp [minimalBE, beBytes, byteLen]
  match hm : minimalBE v with
  | [] => rw [hm] at hlen; simp at hlen; omega
  | x :: t =>
    refine ⟨x, t, rfl, ?_⟩
    intro hx0
    subst hx0
    rw [hm, ofBE_cons] at hval
    have hl : t.length = byteLen v - 1 := by rw [hm] at hlen; simp at hlen; omega
    have := ofBE_lt t
    rw [hl] at this
    simp at hval
    omega

/-! ### the raw codec -/
theorem digits_msb_head (i : Nat) (hi : 0 < i) :
    ∃ x t, (Nat.digits 58 i).reverse = x :: t ∧ x ≠ 0 ∧ ∀ d ∈ (Nat.digits 58 i).reverse, d < 58 := by
  have hne : Nat.digits 58 i ≠ [] := Nat.digits_ne_nil_iff_ne_zero.mpr (by omega)
  have hl := Nat.getLast_digit_ne_zero 58 (m := i) (by omega)
  have hr : (Nat.digits 58 i).reverse ≠ [] := by simpa using hne
  match hm : (Nat.digits 58 i).reverse, hr with
  | x :: t, _ =>
    refine ⟨x, t, rfl, ?_, ?_⟩
    · have := List.head_reverse (l := Nat.digits 58 i) hr
      simp only [hm, List.head_cons] at this
      rw [this]; exact hl
    · intro d hd
      rw [← hm] at hd
      exact Nat.digits_lt_base (by omega) (List.mem_reverse.mp hd)

theorem map_replicate_append (n : Nat) (D : List Nat) :
    List.replicate n (charOf 0) ++ D.map charOf = (List.replicate n 0 ++ D).map charOf := by simp

/-- `_b58decode(_b58encode(v)) == v` for every byte string. -/
theorem b58decode_b58encode (v : Bytes) : b58decode (b58encode v) = .ok v := by
  obtain ⟨hv, hle⟩ := strip_decomp (0 : UInt8) v
  generalize hw : stripLeading (0 : UInt8) v = w at hv hle
  unfold b58encode b58decode
  simp only [hw]
  rcases strip_head (0 : UInt8) v with h | ⟨x, t, h, hx⟩
  · rw [hw] at h; subst h
    simp only [List.isEmpty_nil, if_true, List.append_nil, List.length_nil, Nat.sub_zero] at hv ⊢
    have : List.replicate v.length (charOf 0) = (List.replicate v.length 0).map charOf := by simp
    rw [this, allDigits_map _ (by intro d hd; simp at hd; omega)]
    simp only
    have hs : stripLeading 0 (List.replicate v.length 0) = ([] : List Nat) := by
      simpa using strip_replicate (0 : Nat) v.length [] (Or.inl rfl)
    rw [hs]
    simp only [List.length_replicate, List.length_nil, Nat.sub_zero, List.isEmpty_nil, if_true, List.append_nil]
    rw [← hv]
  · rw [hw] at h; subst h
    have hpos : 0 < ofBE (x :: t) := by
      rw [ofBE_cons]
      have : x.toNat ≠ 0 := fun h => hx (UInt8.toNat_inj.mp (by simpa using h))
      have := Nat.pow_pos (n := t.length) (show 0 < 256 by omega)
      have : 1 ≤ x.toNat := by omega
      nlinarith
    simp only [List.isEmpty_cons, Bool.false_eq_true, if_false]
    unfold digitsOfInt
    rw [digitsOfIntC_eq CHUNK (by decide) _ hpos]
    obtain ⟨y, u, hD, hy, hlt⟩ := digits_msb_head _ hpos
    rw [map_replicate_append, allDigits_map _ (by
      intro d hd; rcases List.mem_append.mp hd with h | h
      · simp at h; omega
      · exact hlt d h)]
    simp only
    rw [strip_replicate (0 : Nat) _ _ (Or.inr ⟨y, u, hD, hy⟩)]
    simp only [List.length_append, List.length_replicate, Nat.add_sub_cancel]
    rw [hD]
    simp only [List.isEmpty_cons, Bool.false_eq_true, if_false]
    rw [← hD, decodeToInt_eq CHUNK (by decide) _ _ _ (by omega)]
    have : (Nat.digits 58 (ofBE (x :: t))).reverse.foldl (fun v d => v * 58 + d) 0 = ofBE (x :: t) := by
      have := val_eq_ofDigits (Nat.digits 58 (ofBE (x :: t))).reverse
      unfold val at this
      rw [this, List.reverse_reverse, Nat.ofDigits_digits]
    rw [this, minimalBE_ofBE x t hx]
    rw [← hv]

/-- canonicity: `_b58decode` accepts a string only if it is the encoding of what it returns
    (leading `1`s ↔ leading zero bytes; no alternative spelling). -/
theorem b58encode_b58decode (s : List Nat) (v : Bytes) (h : b58decode s = .ok v) : b58encode v = s := by
  unfold b58decode at h
  split at h
  · cases h
  · rename_i ds hds
    obtain ⟨hs, hlt⟩ := allDigits_some s ds hds
    simp only [Except.ok.injEq] at h
    obtain ⟨hd, hle⟩ := strip_decomp (0 : Nat) ds
    generalize hw : stripLeading (0 : Nat) ds = W at h hd hle
    generalize hn : ds.length - W.length = n at h hd
    rcases strip_head (0 : Nat) ds with hz | ⟨y, u, hz, hy⟩
    · rw [hw] at hz; subst hz
      simp only [List.isEmpty_nil, if_true, List.append_nil] at h hd
      subst h
      unfold b58encode
      have hs0 : stripLeading (0 : UInt8) (List.replicate n 0) = [] := by
        simpa using strip_replicate (0 : UInt8) n [] (Or.inl rfl)
      simp only [hs0, List.length_replicate, List.length_nil, Nat.sub_zero, List.isEmpty_nil, if_true,
        List.append_nil]
      rw [hs, hd]; simp
    · rw [hw] at hz; subst hz
      simp only [List.isEmpty_cons, Bool.false_eq_true, if_false] at h
      rw [decodeToInt_eq CHUNK (by decide) _ _ _ (by omega)] at h
      have hWlt : ∀ d ∈ y :: u, d < 58 := fun d hd' => hlt d (by rw [hd]; exact List.mem_append_right _ hd')
      have hvpos : 0 < val (y :: u) := by
        unfold val
        rw [List.foldl_cons, foldl_shift]
        have := Nat.pow_pos (n := u.length) (show 0 < 58 by omega)
        have : 1 ≤ y := by omega
        have : 1 * 58 ^ u.length ≤ (0 * 58 + y) * 58 ^ u.length := Nat.mul_le_mul_right _ (by omega)
        omega
      obtain ⟨hval, b, t, hB, hb⟩ := minimalBE_spec _ hvpos
      change List.replicate n 0 ++ minimalBE (val (y :: u)) = v at h
      subst h
      unfold b58encode
      rw [hB, strip_replicate (0 : UInt8) n (b :: t) (Or.inr ⟨b, t, rfl, hb⟩)]
      simp only [List.length_append, List.length_replicate, Nat.add_sub_cancel, List.isEmpty_cons,
        Bool.false_eq_true, if_false]
      rw [← hB, hval]
      unfold digitsOfInt
      rw [digitsOfIntC_eq CHUNK (by decide) _ hvpos, val_eq_ofDigits]
      rw [Nat.digits_ofDigits 58 (by omega) _ (by intro l hl; exact hWlt l (List.mem_reverse.mp hl))
        (by intro hne; rw [List.getLast_reverse]; simpa using hy)]
      rw [List.reverse_reverse, hs, hd]; simp

/-! ### Base58Check -/
theorem check_len : CHECKSUM_LEN = 4 := rfl

theorem decode_encode (H : Bytes → Bytes) (hH : ∀ x, 4 ≤ (H x).length) (v : Bytes)
    (hcap : (encode H v).length ≤ MAX_LENGTH) : decode H (encode H v) none = .ok v := by
  unfold decode
  rw [if_neg (by omega)]
  unfold encode
  rw [b58decode_b58encode]
  simp only [check_len]
  have hl : ((H v).take 4).length = 4 := by rw [List.length_take]; have := hH v; omega
  have hl2 : (v ++ (H v).take 4).length - 4 = v.length := by rw [List.length_append, hl]; omega
  have t : (v ++ (H v).take 4).take v.length = v := by simp
  have d : (v ++ (H v).take 4).drop v.length = (H v).take 4 := by simp
  have hlen : ¬ (v ++ (H v).take 4).length < 4 := by rw [List.length_append, hl]; omega
  simp only [hl2, t, d, hlen, if_false, ne_eq, not_true_eq_false]

theorem encode_decode (H : Bytes → Bytes) (s : List Nat) (v : Bytes) (n : Option Nat)
    (h : decode H s n = .ok v) : encode H v = s ∧ s.length ≤ MAX_LENGTH ∧ (∀ k, n = some k → v.length = k) := by
  unfold decode at h
  split at h
  · cases h
  · rename_i hcap
    split at h
    · cases h
    · rename_i r hr
      simp only at h
      split at h
      · cases h
      · rename_i hlen
        split at h
        · cases h
        · rename_i hchk
          have hv : v = r.take (r.length - CHECKSUM_LEN) ∧ (∀ k, n = some k → v.length = k) := by
            cases n with
            | none => simp at h; exact ⟨h.symm, by simp⟩
            | some k =>
              simp only at h
              split at h
              · rename_i hk; cases h; exact ⟨rfl, by intro k' hk'; cases hk'; exact hk⟩
              · cases h
          refine ⟨?_, by omega, hv.2⟩
          have hc : r.drop (r.length - CHECKSUM_LEN) = (H v).take CHECKSUM_LEN := by
            rw [hv.1]; simpa using hchk
          unfold encode
          rw [← hc, hv.1, List.take_append_drop]
          exact b58encode_b58decode s r hr

end Btc.Base58
