import Model.C06.Bech32
import Model.C06.Bech32Ref
/-!
Bech32 checksum: the `_TAPS` table version equals the BIP173 five-generator loop; the map is
XOR-linear; its zero-input step has trivial kernel (so a single error is never cancelled).
Core Lean only.
-/
namespace Btc.Bech32
open Gen.Bech32

/-! ### generated constants are the BIP's -/
theorem alphabet_eq_ref : ALPHABET = Bech32Ref.CHARSET := by decide
theorem generator_eq_ref : GENERATOR = Bech32Ref.generator := by decide
theorem consts_eq_ref : BECH32_1_CONST = 1 ∧ BECH32_M_CONST = Bech32Ref.BECH32M_CONST := by decide
theorem poly_consts : POLY_INIT = 1 ∧ POLY_MASK = 0x1ffffff ∧ POLY_SHIFT = 5 ∧ POLY_TOP = 25 := by decide

theorem xor_eq_zero {a b : Nat} (h : a ^^^ b = 0) : a = b := by
  have : a ^^^ (a ^^^ b) = a := by rw [h, Nat.xor_zero]
  rw [← Nat.xor_assoc, Nat.xor_self, Nat.zero_xor] at this
  exact this.symm

/-! ### table = reference loop -/
theorem genLoop_acc (top : Nat) (gs : List Nat) (i chk : Nat) :
    Bech32Ref.genLoop top gs i chk = chk ^^^ Bech32Ref.genLoop top gs i 0 := by
  induction gs generalizing i chk with
  | nil => simp [Bech32Ref.genLoop]
  | cons g gs ih =>
    simp only [Bech32Ref.genLoop]
    rw [ih, ih (i + 1) (0 ^^^ _), Nat.zero_xor, Nat.xor_assoc]

/-- every entry of the generated `_TAPS` is what the BIP's five conditional XORs produce. -/
theorem taps_eq_ref : ∀ top, top < 32 → tap top = Bech32Ref.genLoop top Bech32Ref.generator 0 0 := by
  decide +kernel

/-- the table built at import is the one `_GENERATOR` (generated) defines. -/
theorem taps_from_generator : ∀ top, top < 32 → tap top = Bech32Ref.genLoop top GENERATOR 0 0 := by
  decide +kernel

theorem taps_length : TAPS.length = 32 := by decide

theorem tap_lt (top : Nat) : tap top < 2 ^ 30 := by
  by_cases h : top < 32
  · have : ∀ t, t < 32 → tap t < 2 ^ 30 := by decide +kernel
    exact this top h
  · have : TAPS.length ≤ top := by rw [taps_length]; omega
    unfold tap
    rw [List.getD_eq_getElem?_getD, List.getElem?_eq_none this]
    decide

theorem top_lt {c : Nat} (h : c < 2 ^ 30) : c >>> POLY_TOP < 32 := by
  have e : POLY_TOP = 25 := rfl
  rw [e, Nat.shiftRight_eq_div_pow]; omega

theorem xor_left_comm (a b c : Nat) : a ^^^ (b ^^^ c) = b ^^^ (a ^^^ c) := by
  rw [← Nat.xor_assoc, Nat.xor_comm a b, Nat.xor_assoc]

theorem step_lt (c v : Nat) (hv : v < 2 ^ 30) : polymodStep c v < 2 ^ 30 := by
  unfold polymodStep
  have h1 : (c &&& POLY_MASK) <<< POLY_SHIFT < 2 ^ 30 := by
    have : c &&& POLY_MASK ≤ POLY_MASK := Nat.and_le_right
    have e : POLY_MASK = 33554431 := rfl
    have e2 : POLY_SHIFT = 5 := rfl
    rw [Nat.shiftLeft_eq, e2]; omega
  exact Nat.xor_lt_two_pow (Nat.xor_lt_two_pow h1 hv) (tap_lt _)

theorem step_eq_ref (c v : Nat) (hc : c < 2 ^ 30) : polymodStep c v = Bech32Ref.polymodStep c v := by
  unfold polymodStep Bech32Ref.polymodStep
  simp only
  rw [genLoop_acc]
  rw [taps_eq_ref _ (top_lt hc)]
  rfl

theorem polymodFrom_eq_ref (values : List Nat) (c : Nat) (hc : c < 2 ^ 30)
    (hv : ∀ v ∈ values, v < 2 ^ 30) : polymodFrom c values = Bech32Ref.polymodFrom c values := by
  induction values generalizing c with
  | nil => rfl
  | cons v vs ih =>
    simp only [polymodFrom, Bech32Ref.polymodFrom, List.foldl_cons] at *
    rw [← step_eq_ref c v hc]
    exact ih _ (step_lt c v (hv v (List.mem_cons_self ..))) (fun x hx => hv x (List.mem_cons_of_mem _ hx))

/-! ### linearity -/
/-- zero-input step: multiplication by x in GF(32)[x]/g. -/
def step0 (c : Nat) : Nat := polymodStep c 0

theorem step_split (c v : Nat) : polymodStep c v = step0 c ^^^ v := by
  unfold step0 polymodStep
  simp only [Nat.xor_zero]
  rw [Nat.xor_assoc, Nat.xor_comm v, ← Nat.xor_assoc]

theorem tap_linear : ∀ a, a < 32 → ∀ b, b < 32 → tap (a ^^^ b) = tap a ^^^ tap b := by
  decide +kernel

theorem step0_linear (a b : Nat) (ha : a < 2 ^ 30) (hb : b < 2 ^ 30) :
    step0 (a ^^^ b) = step0 a ^^^ step0 b := by
  unfold step0 polymodStep
  simp only [Nat.xor_zero]
  rw [Nat.and_xor_distrib_right, Nat.shiftLeft_xor_distrib, Nat.shiftRight_xor_distrib,
    tap_linear _ (top_lt ha) _ (top_lt hb)]
  simp only [Nat.xor_assoc, xor_left_comm]

theorem step0_lt (c : Nat) : step0 c < 2 ^ 30 := step_lt c 0 (by omega)

/-- `k` zero-input steps. -/
def shiftK : Nat → Nat → Nat
  | 0, d => d
  | k + 1, d => shiftK k (step0 d)

theorem shiftK_lt (k d : Nat) (h : d < 2 ^ 30) : shiftK k d < 2 ^ 30 := by
  induction k generalizing d with
  | zero => exact h
  | succ k ih => exact ih _ (step0_lt d)

/-- injecting an error `d` into the state shows up as `x^k·d` after `k` more values. -/
theorem polymodFrom_xor (vs : List Nat) (a d : Nat) (ha : a < 2 ^ 30) (hd : d < 2 ^ 30)
    (hv : ∀ v ∈ vs, v < 2 ^ 30) :
    polymodFrom (a ^^^ d) vs = polymodFrom a vs ^^^ shiftK vs.length d := by
  induction vs generalizing a d with
  | nil => rfl
  | cons v vs ih =>
    simp only [polymodFrom, List.foldl_cons, List.length_cons, shiftK] at *
    have h1 : polymodStep (a ^^^ d) v = polymodStep a v ^^^ step0 d := by
      rw [step_split, step_split, step0_linear a d ha hd]
      simp only [Nat.xor_assoc, Nat.xor_comm]
    rw [h1]
    exact ih _ _ (step_lt a v (hv v (List.mem_cons_self ..))) (step0_lt d) (fun x hx => hv x (List.mem_cons_of_mem _ hx))

/-! ### the zero-input step has trivial kernel -/
theorem tap_low_inj : ∀ t, t < 32 → tap t % 32 = 0 → t = 0 := by decide +kernel

theorem step0_eq_zero (c : Nat) (hc : c < 2 ^ 30) (h : step0 c = 0) : c = 0 := by
  unfold step0 polymodStep at h
  simp only [Nat.xor_zero] at h
  have e := xor_eq_zero h
  have e1 : POLY_MASK = 2 ^ 25 - 1 := rfl
  have e2 : POLY_SHIFT = 5 := rfl
  have e3 : POLY_TOP = 25 := rfl
  rw [e1, e2, e3, Nat.and_two_pow_sub_one_eq_mod, Nat.shiftLeft_eq, Nat.shiftRight_eq_div_pow] at e
  have ht : c / 2 ^ 25 < 32 := by omega
  have hz : c / 2 ^ 25 = 0 := tap_low_inj _ ht (by rw [← e]; omega)
  have t0 : tap 0 = 0 := by decide
  rw [hz, t0] at e
  omega

theorem shiftK_eq_zero (k d : Nat) (hd : d < 2 ^ 30) (h : shiftK k d = 0) : d = 0 := by
  induction k generalizing d with
  | zero => exact h
  | succ k ih => exact step0_eq_zero d hd (ih _ (step0_lt d) h)

end Btc.Bech32

namespace Btc.Bech32
open Gen.Bech32

theorem xor_self_cancel {a b : Nat} (h : a = a ^^^ b) : b = 0 := by
  have : a ^^^ a = a ^^^ (a ^^^ b) := by rw [← h]
  rw [Nat.xor_self, ← Nat.xor_assoc, Nat.xor_self, Nat.zero_xor] at this
  exact this.symm

/-- two sequences that differ in one value cannot have the same checksum. -/
theorem single_substitution (pre post : List Nat) (v v' : Nat)
    (hpost : ∀ x ∈ post, x < 2 ^ 30) (hv : v < 2 ^ 30) (hv' : v' < 2 ^ 30)
    (h : polymod (pre ++ v :: post) = polymod (pre ++ v' :: post)) : v = v' := by
  unfold polymod polymodFrom at h
  rw [List.foldl_append, List.foldl_cons, List.foldl_append, List.foldl_cons] at h
  generalize List.foldl polymodStep POLY_INIT pre = c at h
  have e : polymodStep c v' = polymodStep c v ^^^ (v ^^^ v') := by
    rw [step_split, step_split, Nat.xor_assoc, ← Nat.xor_assoc v, Nat.xor_self, Nat.zero_xor]
  have hd : v ^^^ v' < 2 ^ 30 := Nat.xor_lt_two_pow hv hv'
  have := polymodFrom_xor post (polymodStep c v) (v ^^^ v') (step_lt c v hv) hd hpost
  unfold polymodFrom at this
  rw [← e, ← h] at this
  exact xor_eq_zero (shiftK_eq_zero _ _ hd (xor_self_cancel this))

theorem xor_shift_add (x d : Nat) (hd : d < 32) : (x * 32) ^^^ d = x * 32 + d := by
  have h1 : ((x * 32) ^^^ d) % 2 ^ 5 = d := by
    rw [Nat.xor_mod_two_pow]
    have : x * 32 % 2 ^ 5 = 0 := by omega
    rw [this, Nat.zero_xor]; omega
  have h2 : ((x * 32) ^^^ d) >>> 5 = x := by
    rw [Nat.shiftRight_xor_distrib, Nat.shiftRight_eq_div_pow, Nat.shiftRight_eq_div_pow]
    have a : x * 32 / 2 ^ 5 = x := by omega
    have b : d / 2 ^ 5 = 0 := by omega
    rw [a, b, Nat.xor_zero]
  rw [Nat.shiftRight_eq_div_pow] at h2
  omega

/-- below 2^25 nothing is fed back: the step just shifts the digit in. -/
theorem step_small (s d : Nat) (hs : s < 2 ^ 25) (hd : d < 32) : polymodStep s d = s * 32 + d := by
  unfold polymodStep
  have e1 : POLY_MASK = 2 ^ 25 - 1 := rfl
  have e2 : POLY_SHIFT = 5 := rfl
  have e3 : POLY_TOP = 25 := rfl
  rw [e1, e2, e3, Nat.and_two_pow_sub_one_eq_mod, Nat.shiftLeft_eq, Nat.shiftRight_eq_div_pow]
  have a : s % 2 ^ 25 = s := Nat.mod_eq_of_lt hs
  have b : s / 2 ^ 25 = 0 := by omega
  have t0 : tap 0 = 0 := by decide
  rw [a, b, t0, Nat.xor_zero]
  exact xor_shift_add s d hd

/-- swapping two adjacent distinct 5-bit values changes the checksum. -/
theorem adjacent_transposition (pre post : List Nat) (a b : Nat)
    (hpost : ∀ x ∈ post, x < 2 ^ 30) (ha : a < 32) (hb : b < 32)
    (h : polymod (pre ++ a :: b :: post) = polymod (pre ++ b :: a :: post)) : a = b := by
  unfold polymod polymodFrom at h
  rw [List.foldl_append, List.foldl_cons, List.foldl_cons, List.foldl_append, List.foldl_cons,
    List.foldl_cons] at h
  generalize List.foldl polymodStep POLY_INIT pre = c at h
  have ha' : a < 2 ^ 30 := by omega
  have hb' : b < 2 ^ 30 := by omega
  have hd : a ^^^ b < 32 := Nat.xor_lt_two_pow (n := 5) ha hb
  -- error injected after the two positions: x·d + d with d = a ^ b
  have e : polymodStep (polymodStep c b) a
      = polymodStep (polymodStep c a) b ^^^ (step0 (a ^^^ b) ^^^ (a ^^^ b)) := by
    rw [step_split (polymodStep c b), step_split (polymodStep c a), step_split c a, step_split c b,
      step0_linear _ _ (step0_lt c) hb', step0_linear _ _ (step0_lt c) ha', step0_linear _ _ ha' hb']
    generalize step0 (step0 c) = x
    generalize step0 a = y
    generalize step0 b = z
    apply Nat.eq_of_testBit_eq; intro i
    simp only [Nat.testBit_xor]
    generalize x.testBit i = p
    generalize y.testBit i = q
    generalize z.testBit i = r
    generalize a.testBit i = s
    generalize b.testBit i = t
    cases p <;> cases q <;> cases r <;> cases s <;> cases t <;> rfl
  have hE : step0 (a ^^^ b) ^^^ (a ^^^ b) < 2 ^ 30 :=
    Nat.xor_lt_two_pow (step0_lt _) (by omega)
  have := polymodFrom_xor post (polymodStep (polymodStep c a) b) _
    (step_lt _ b hb') hE hpost
  unfold polymodFrom at this
  rw [← e, ← h] at this
  have z := shiftK_eq_zero _ _ hE (xor_self_cancel this)
  -- x·d ^ d = 0 with d < 32 forces d = 0
  have s0 : step0 (a ^^^ b) = (a ^^^ b) * 32 + 0 := step_small _ 0 (by omega) (by omega)
  rw [s0] at z
  have := xor_eq_zero z
  have d0 : a ^^^ b = 0 := by omega
  exact xor_eq_zero d0

theorem polymodFrom_lt' (vs : List Nat) (c : Nat) (hc : c < 2 ^ 30) (hv : ∀ v ∈ vs, v < 2 ^ 30) :
    List.foldl polymodStep c vs < 2 ^ 30 := by
  induction vs generalizing c with
  | nil => exact hc
  | cons v vs ih =>
    simp only [List.foldl_cons]
    exact ih _ (step_lt c v (hv v (List.mem_cons_self ..))) (fun x hx => hv x (List.mem_cons_of_mem _ hx))

end Btc.Bech32
