import Model.C06.Slip132
import Proofs.C06.Net
/-! SLIP132: finite facts about the regenerated tables (`decide +kernel` on ∃-free forms, then read back). -/
namespace Btc.Slip132
open Gen.Net Btc.Address

/-- a version has one meaning. -/
theorem version_unique : ∀ a ∈ SLIP132, ∀ b ∈ SLIP132, a.1 = b.1 → a = b := by decide +kernel

theorem builder_core : ∀ n ∈ NETWORKS, ∀ pv ∈ versionsOf n, ∀ b ∈ SLIP132_BUILDERS, ∀ prv : Bool,
    (builderKind b.1).isSome = true ∧
    (builderVersion b.1 pv prv).bind info = (builderKind b.1).map fun k => (k, prv, n.isMain) := by decide +kernel

/-- what slip132.py's three builders read: for a parent of ANY version of ANY network and either privacy of
    the key, the version handed to `derive` is, in the table read off the field names, of the script type the
    builder is named for, of the key's privacy, of the parent's network type. -/
theorem builder_spec (n : Network) (hn : n ∈ NETWORKS) (pv : List Nat) (hpv : pv ∈ versionsOf n)
    (b : String × (Bool × Nat) × (Bool × Nat)) (hb : b ∈ SLIP132_BUILDERS) (prv : Bool) :
    ∃ k v, builderKind b.1 = some k ∧ builderVersion b.1 pv prv = some v ∧ info v = some (k, prv, n.isMain) := by
  obtain ⟨h1, h2⟩ := builder_core n hn pv hpv b hb prv
  obtain ⟨k, hk⟩ := Option.isSome_iff_exists.mp h1
  rw [hk] at h2
  obtain ⟨v, hv, hi⟩ := Option.bind_eq_some_iff.mp h2
  exact ⟨k, v, hk, hv, hi⟩

theorem address_core : ∀ n ∈ NETWORKS, ∀ pv ∈ versionsOf n, ∀ b ∈ SLIP132_BUILDERS,
    (builderKind b.1).isSome = true ∧
    ((builderVersion b.1 pv false).bind addressDispatch).map (fun p => (functionKind p.1, p.2.isMain)) =
      some (builderKind b.1, n.isMain) := by decide +kernel

/-- `address_from_xpub` on the version a builder gave a PUBLIC key: the address function is the one of the
    builder's script type, and the network it writes with has the parent's type. -/
theorem address_of_built (n : Network) (hn : n ∈ NETWORKS) (pv : List Nat) (hpv : pv ∈ versionsOf n)
    (b : String × (Bool × Nat) × (Bool × Nat)) (hb : b ∈ SLIP132_BUILDERS) :
    ∃ k v fn m, builderKind b.1 = some k ∧ builderVersion b.1 pv false = some v ∧
      addressDispatch v = some (fn, m) ∧ functionKind fn = some k ∧ m.isMain = n.isMain := by
  obtain ⟨h1, h2⟩ := address_core n hn pv hpv b hb
  obtain ⟨k, hk⟩ := Option.isSome_iff_exists.mp h1
  obtain ⟨p, hp, he⟩ := Option.map_eq_some_iff.mp h2
  obtain ⟨v, hv, hd⟩ := Option.bind_eq_some_iff.mp hp
  simp only [Prod.mk.injEq] at he
  exact ⟨k, v, p.1, p.2, hk, hv, hd, by rw [he.1, hk], he.2⟩

theorem dispatch_core : ∀ r ∈ SLIP132,
    (r.2.2.1 = false ∧ r.2.1 < 3 → (addressDispatch r.1).map (fun p => (functionKind p.1, p.2.isMain)) =
      some (some r.2.1, r.2.2.2)) ∧
    (r.2.2.1 = true ∨ 3 ≤ r.2.1 → addressDispatch r.1 = none) := by decide +kernel

/-- the dispatch agrees with the table on EVERY version: a public version of type 0..2 is written by the
    function of that type on a network of its type; private versions and the p2wsh types have no address. -/
theorem dispatch_table (r : List Nat × Nat × Bool × Bool) (hr : r ∈ SLIP132) :
    (r.2.2.1 = false ∧ r.2.1 < 3 → ∃ fn m, addressDispatch r.1 = some (fn, m) ∧ functionKind fn = some r.2.1 ∧
      m.isMain = r.2.2.2) ∧
    (r.2.2.1 = true ∨ 3 ≤ r.2.1 → addressDispatch r.1 = none) := by
  obtain ⟨h1, h2⟩ := dispatch_core r hr
  refine ⟨fun h => ?_, h2⟩
  obtain ⟨p, hp, he⟩ := Option.map_eq_some_iff.mp (h1 h)
  simp only [Prod.mk.injEq] at he
  exact ⟨p.1, p.2, hp, he.1, he.2⟩

/-- the three builders are three different script types; the dispatch lists three different functions. -/
theorem builders_distinct :
    SLIP132_BUILDERS.map (fun r => builderKind r.1) = [some 0, some 1, some 2] ∧
    SLIP132_ADDRESS.map (fun r => functionKind r.2) = [some 0, some 1, some 2] := by decide +kernel

/-- every version of the networks' xprv/xpub lists is in the table with the network's type. -/
theorem table_covers_networks : ∀ n ∈ NETWORKS, ∀ v ∈ n.xprv ++ n.xpub,
    ∃ i, info v = some i ∧ i.2.2 = n.isMain := by decide +kernel

end Btc.Slip132
