import Model.C06.Slip132
namespace Btc.Slip132
open Gen.Net

/-- a version has one meaning. -/
theorem version_unique : ∀ a ∈ SLIP132, ∀ b ∈ SLIP132, a.1 = b.1 → a = b := by decide +kernel

/-- the version a SLIP132 builder gives keeps the parent's privacy and network type and commits to the
    requested script type — in particular a PUBLIC parent never gets another type's public version. -/
theorem versionFor_spec : ∀ p ∈ SLIP132, ∀ k, k < 5 →
    ∃ v, versionFor p.1 k = some v ∧ info v = some (k, p.2.2.1, p.2.2.2) := by decide +kernel

/-- so the address written from a public child is of the requested type. -/
theorem addressKind_versionFor : ∀ p ∈ SLIP132, p.2.2.1 = false → ∀ k, k < 3 →
    ∃ v, versionFor p.1 k = some v ∧ addressKind v = some k := by decide +kernel

/-- every version of the networks' xprv/xpub lists is in the table with the network's type. -/
theorem table_covers_networks : ∀ n ∈ NETWORKS, ∀ v ∈ n.xprv ++ n.xpub,
    ∃ i, info v = some i ∧ i.2.2 = n.isMain := by decide +kernel

end Btc.Slip132
