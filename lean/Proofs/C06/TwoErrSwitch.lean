import Proofs.C06.SwitchTable
/-!
Two substitutions with the checksum constant read off the witness version (`m = None`): whichever characters
after the separator change — the version character included, where the expected constant switches between
bech32 and bech32m — the corrupted string is refused, when at most 88 characters follow the first changed one
(every pair of positions after the separator of a 90-character string).
-/
namespace Btc.Bech32
open Gen.Bech32

theorem mem_rowsAll (n : Nat) (prev : List Nat) (j d : Nat) (hj : j ≤ n) (hd : d ∈ prev) :
    shiftK j d ∈ rowsAll n prev := by
  unfold rowsAll
  cases j with
  | zero => exact List.mem_append_left _ hd
  | succ j => exact List.mem_append_right _ (mem_rowsFrom n prev j d (by omega) hd)

theorem nodup_cross (k : Nat) (l1 l2 : List Nat) (h : nodupRadix k (l1 ++ l2) = true) (x y : Nat)
    (hx : x ∈ l1) (hy : y ∈ l2) : x % 2 ^ k ≠ y % 2 ^ k := by
  intro e
  have := nodupRadix_spec k _ h x
  rw [List.countP_append] at this
  have p1 : 0 < l1.countP (fun z => decide (z % 2 ^ k = x % 2 ^ k)) :=
    List.countP_pos_iff.2 ⟨x, hx, by simp⟩
  have p2 : 0 < l2.countP (fun z => decide (z % 2 ^ k = x % 2 ^ k)) :=
    List.countP_pos_iff.2 ⟨y, hy, by simp [e]⟩
  omega

/-- THE TABLE FACT: `x^a·d1 + x^b·d2` is never the difference of the two checksum constants,
    `0 ≤ a, b ≤ 88`, `d1, d2 ≠ 0`. -/
theorem switch2_ne (a b d1 d2 : Nat) (ha : a ≤ WS) (hb : b ≤ WS) (h1 : d1 < 32) (n1 : d1 ≠ 0)
    (h2 : d2 < 32) (n2 : d2 ≠ 0) : shiftK a d1 ^^^ shiftK b d2 ≠ SWITCH := by
  intro e
  have hx := mem_rowsAll WS row0 a d1 ha (mem_row0 d1 h1 n1)
  have hy : shiftK b d2 ^^^ SWITCH ∈ (rowsAll WS row0).map (· ^^^ SWITCH) :=
    List.mem_map_of_mem (f := (· ^^^ SWITCH)) (mem_rowsAll WS row0 b d2 hb (mem_row0 d2 h2 n2))
  apply nodup_cross 30 _ _ tableSwitch _ _ hx hy
  have : shiftK a d1 = shiftK b d2 ^^^ SWITCH := by
    rw [← e, xor_left_comm, Nat.xor_self, Nat.xor_zero]
  rw [← this]

/-- the checksum difference of two sequences that differ in (at most) two positions. -/
theorem two_sub_diff (pre mid post : List Nat) (v1 v1' v2 v2' : Nat)
    (hmid : ∀ x ∈ mid, x < 2 ^ 30) (hpost : ∀ x ∈ post, x < 2 ^ 30)
    (h1 : v1 < 32) (h1' : v1' < 32) (h2 : v2 < 32) (h2' : v2' < 32) :
    polymod (pre ++ v1' :: (mid ++ v2' :: post)) =
      polymod (pre ++ v1 :: (mid ++ v2 :: post)) ^^^
        (shiftK (mid.length + 1 + post.length) (v1 ^^^ v1') ^^^ shiftK post.length (v2 ^^^ v2')) := by
  have b30 : ∀ v, v < 32 → v < 2 ^ 30 := fun v h => by omega
  have hp' : ∀ x ∈ mid ++ v2' :: post, x < 2 ^ 30 := by
    intro x hx
    rcases List.mem_append.mp hx with h | h
    · exact hmid x h
    · rcases List.mem_cons.mp h with h | h
      · subst h; exact b30 _ h2'
      · exact hpost x h
  have hl : (mid ++ v2' :: post).length = mid.length + 1 + post.length := by
    simp only [List.length_append, List.length_cons]; omega
  have e : ∀ w, pre ++ v1 :: (mid ++ w :: post) = (pre ++ v1 :: mid) ++ w :: post := by intro w; simp
  rw [single_sub_diff pre (mid ++ v2' :: post) v1 v1' hp' (b30 _ h1) (b30 _ h1'), hl, e v2',
    single_sub_diff (pre ++ v1 :: mid) post v2 v2' hpost (b30 _ h2) (b30 _ h2'), ← e v2,
    Nat.xor_assoc, Nat.xor_comm (shiftK post.length _)]

/-- two changed values, at most 88 values after the first (`mid.length + 1 + post.length ≤ 88`), the first
    one really changed: a codeword of one constant is not turned into a codeword of the other. -/
theorem two_substitutions_switch (pre mid post : List Nat) (v1 v1' v2 v2' : Nat)
    (hmid : ∀ x ∈ mid, x < 2 ^ 30) (hpost : ∀ x ∈ post, x < 2 ^ 30)
    (h1 : v1 < 32) (h1' : v1' < 32) (h2 : v2 < 32) (h2' : v2' < 32) (hne : v1 ≠ v1')
    (hw : mid.length + 1 + post.length ≤ WS)
    (h : polymod (pre ++ v1 :: (mid ++ v2 :: post)) ^^^ polymod (pre ++ v1' :: (mid ++ v2' :: post)) = SWITCH) :
    False := by
  rw [two_sub_diff pre mid post v1 v1' v2 v2' hmid hpost h1 h1' h2 h2', ← Nat.xor_assoc, Nat.xor_self,
    Nat.zero_xor] at h
  have hd1 : v1 ^^^ v1' < 32 := Nat.xor_lt_two_pow (n := 5) h1 h1'
  have hd2 : v2 ^^^ v2' < 32 := Nat.xor_lt_two_pow (n := 5) h2 h2'
  have hd0 : v1 ^^^ v1' ≠ 0 := fun h0 => hne (xor_eq_zero h0)
  unfold WS at hw
  by_cases z : v2 ^^^ v2' = 0
  · rw [z, shiftK_zero_val, Nat.xor_zero] at h
    exact switch_ne _ _ hd1 hd0 (by unfold WINDOW; omega) h
  · exact switch2_ne _ _ _ _ (by unfold WS; omega) (by unfold WS; omega) hd1 hd0 hd2 z h

theorem mFromWitVer_cases (l : List Nat) (mm : Nat) (h : mFromWitVer l = .ok mm) :
    mm = BECH32_1_CONST ∨ mm = BECH32_M_CONST := by
  cases l with
  | nil => simp [mFromWitVer] at h
  | cons v t =>
    simp only [mFromWitVer, Except.ok.injEq] at h
    by_cases z : v = 0
    · left; rw [← h, if_pos z]
    · right; rw [← h, if_neg z]

/-- T3 at the string level, two characters, constant read off the witness version (`decode(s)` as addresses
    use it): changing two characters after the separator of an accepted string — the version character
    included — gives a string `decode` refuses, when at most 88 characters follow the first changed one. -/
theorem two_substitutions_refused_none (pre a mid b : List Nat) (x x' y y' : Nat)
    (h49 : 49 ∉ a ++ x :: (mid ++ y :: b)) (hx' : x' ≠ 49) (hy' : y' ≠ 49)
    (hne : lowerC x ≠ lowerC x') (hw : mid.length + 1 + b.length ≤ 88) (r : List Nat × List Nat)
    (h1 : decode (pre ++ 49 :: (a ++ x :: (mid ++ y :: b))) none = .ok r) :
    ∀ r', decode (pre ++ 49 :: (a ++ x' :: (mid ++ y' :: b))) none ≠ .ok r' := by
  intro r' h2
  obtain ⟨hrp, data⟩ := r
  obtain ⟨hrp', data'⟩ := r'
  obtain ⟨p1, q1, vals1, mm, e1, n1, rfl, _, l1, hv1, _, _, hm1, c1⟩ := decode_ok _ _ _ _ h1
  obtain ⟨p2, q2, vals2, mm', e2, n2, rfl, _, l2, hv2, _, _, hm2, c2⟩ := decode_ok _ _ _ _ h2
  have h49' : 49 ∉ a ++ x' :: (mid ++ y' :: b) := by
    intro hm
    simp only [List.mem_append, List.mem_cons] at hm h49
    rcases hm with h | h | h | h | h
    · exact h49 (Or.inl h)
    · exact hx' h.symm
    · exact h49 (Or.inr (Or.inr (Or.inl h)))
    · exact hy' h.symm
    · exact h49 (Or.inr (Or.inr (Or.inr (Or.inr h))))
  obtain ⟨rfl, rfl⟩ := split_unique _ _ _ _ e1 h49 n1
  obtain ⟨rfl, rfl⟩ := split_unique _ _ _ _ e2 h49' n2
  obtain ⟨va, v, vr, rfl, a1, x1, r1⟩ := vals_split a _ vals1 x l1
  obtain ⟨va', v', vr', rfl, a2, x2, r2⟩ := vals_split a _ vals2 x' l2
  obtain ⟨vm, w, vb, rfl, m1, y1, b1⟩ := vals_split mid b vr y r1
  obtain ⟨vm', w', vb', rfl, m2, y2, b2⟩ := vals_split mid b vr' y' r2
  have inj := fun (l l' : List Nat) (h1 : ∀ z ∈ l, z ∈ va ++ v :: (vm ++ w :: vb))
      (h2 : ∀ z ∈ l', z ∈ va' ++ v' :: (vm' ++ w' :: vb')) (e : l.map charOf = l'.map charOf) =>
    map_charOf_inj l l' (fun z hz => hv1 z (h1 z hz)) (fun z hz => hv2 z (h2 z hz)) e
  have hva : va = va' := inj _ _ (by intro z hz; simp [hz]) (by intro z hz; simp [hz]) (a1.symm.trans a2)
  have hvm : vm = vm' := inj _ _ (by intro z hz; simp [hz]) (by intro z hz; simp [hz]) (m1.symm.trans m2)
  have hvb : vb = vb' := inj _ _ (by intro z hz; simp [hz]) (by intro z hz; simp [hz]) (b1.symm.trans b2)
  subst hva hvm hvb
  simp only [pickM] at hm1 hm2
  have hml : vm.length = mid.length := by
    have := congrArg List.length m1; simpa [lower] using this.symm
  have hbl : vb.length = b.length := by
    have := congrArg List.length b1; simpa [lower] using this.symm
  have lt30 : ∀ z, z ∈ va ++ v :: (vm ++ w :: vb) → z < 2 ^ 30 := fun z hz => by have := hv1 z hz; omega
  have hvv : v ≠ v' := by intro e; subst e; exact hne (x1.trans x2.symm)
  have key : polymod ((hrpExpand (lower pre) ++ va) ++ v :: (vm ++ w :: vb)) ^^^
      polymod ((hrpExpand (lower pre) ++ va) ++ v' :: (vm ++ w' :: vb)) = mm ^^^ mm' := by
    rw [List.append_assoc, List.append_assoc, c1, c2]
  have sw := two_substitutions_switch (hrpExpand (lower pre) ++ va) vm vb v v' w w'
    (fun z hz => lt30 z (by simp [hz])) (fun z hz => lt30 z (by simp [hz]))
    (hv1 v (by simp)) (hv2 v' (by simp)) (hv1 w (by simp)) (hv2 w' (by simp)) hvv
    (by rw [hml, hbl]; exact hw)
  have same : mm = mm' → False := fun e => by
    apply two_substitutions (hrpExpand (lower pre) ++ va) vm vb v v' w w'
      (fun z hz => lt30 z (by simp [hz])) (fun z hz => lt30 z (by simp [hz]))
      (hv1 v (by simp)) (hv2 v' (by simp)) (hv1 w (by simp)) (hv2 w' (by simp)) hvv
      (by rw [hml]; unfold WINDOW; omega)
    rw [List.append_assoc, List.append_assoc, c1, c2, e]
  rcases mFromWitVer_cases _ _ hm1 with e1 | e1 <;> rcases mFromWitVer_cases _ _ hm2 with e2 | e2
  · exact same (e1.trans e2.symm)
  · exact sw (by rw [key, e1, e2]; rfl)
  · exact sw (by rw [key, e1, e2, Nat.xor_comm]; rfl)
  · exact same (e1.trans e2.symm)

/-- non-vacuity: BIP173's "bc1qw508d6qejxtdg4y5r3zarvary0c5xw7kv8f3t4" (version 0, bech32) is accepted with
    the constant read off the version; changing its version character `q`→`p` (constant switches to bech32m)
    AND its last character `4`→`5` is refused. -/
def exData : List Nat :=
  [0, 14, 20, 15, 7, 13, 26, 0, 25, 18, 6, 11, 13, 8, 21, 4, 20, 3, 17, 2, 29, 3, 12, 29, 3, 4, 15, 24, 20, 6, 14, 30, 22]
example : decode ("bc1qw508d6qejxtdg4y5r3zarvary0c5xw7kv8f3t4".toList.map Char.toNat) none = .ok ([98, 99], exData) := by
  decide +kernel
example : ∀ r', decode ("bc1pw508d6qejxtdg4y5r3zarvary0c5xw7kv8f3t5".toList.map Char.toNat) none ≠ .ok r' :=
  two_substitutions_refused_none [98, 99] [] ("w508d6qejxtdg4y5r3zarvary0c5xw7kv8f3t".toList.map Char.toNat) []
    113 112 52 53 (by decide +kernel) (by decide) (by decide) (by decide) (by decide +kernel) ([98, 99], exData)
    (by decide +kernel)

end Btc.Bech32
