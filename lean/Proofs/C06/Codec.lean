import Proofs.C06.Polymod
/-! Bech32 string codec: `decode (encode hrp data) = (hrp, data)`. Core Lean only. -/
namespace Btc.Bech32
open Gen.Bech32

def charOf (d : Nat) : Nat := ALPHABET.getD d 0

theorem charOf_facts : ∀ d, d < 32 →
    charOf d ≠ 49 ∧ lowerC (charOf d) = charOf d ∧ indexOf (charOf d) = some d ∧ charOf d < 128 := by
  decide +kernel

theorem splitLast_none (c : Nat) (l : List Nat) (h : c ∉ l) : splitLast c l = none := by
  induction l with
  | nil => rfl
  | cons x xs ih =>
    simp only [List.mem_cons, not_or] at h
    simp only [splitLast, ih h.2]
    rw [if_neg (fun e => h.1 e.symm)]

theorem splitLast_append (c : Nat) (pre post : List Nat) (h : c ∉ post) :
    splitLast c (pre ++ c :: post) = some (pre, post) := by
  induction pre with
  | nil => simp [splitLast, splitLast_none c post h]
  | cons x xs ih => simp [splitLast, ih]

theorem allSome_map_some (l : List Nat) : allSome (l.map some) = some l := by
  induction l with
  | nil => rfl
  | cons x xs ih => simp [allSome, ih]

theorem polymodFrom_lt (vs : List Nat) (c : Nat) (hc : c < 2 ^ 30) (hv : ∀ v ∈ vs, v < 2 ^ 30) :
    polymodFrom c vs < 2 ^ 30 := by
  induction vs generalizing c with
  | nil => exact hc
  | cons v vs ih =>
    simp only [polymodFrom, List.foldl_cons] at *
    exact ih _ (step_lt c v (hv v (List.mem_cons_self ..))) (fun x hx => hv x (List.mem_cons_of_mem _ hx))

def chk6 (pm : Nat) : List Nat := [0, 1, 2, 3, 4, 5].map fun i => (pm >>> (5 * (5 - i))) &&& 31

theorem and31 (x : Nat) : x &&& 31 = x % 32 := Nat.and_two_pow_sub_one_eq_mod x 5

/-- shifting the six 5-bit digits of `q` into a zero state rebuilds `q`. -/
theorem polymodFrom_zero_chk6 (q : Nat) (hq : q < 2 ^ 30) : polymodFrom 0 (chk6 q) = q := by
  simp only [chk6, List.map_cons, List.map_nil, polymodFrom, List.foldl_cons, List.foldl_nil, and31,
    Nat.shiftRight_eq_div_pow]
  generalize hd0 : q / 2 ^ (5 * (5 - 0)) % 32 = d0
  generalize hd1 : q / 2 ^ (5 * (5 - 1)) % 32 = d1
  generalize hd2 : q / 2 ^ (5 * (5 - 2)) % 32 = d2
  generalize hd3 : q / 2 ^ (5 * (5 - 3)) % 32 = d3
  generalize hd4 : q / 2 ^ (5 * (5 - 4)) % 32 = d4
  generalize hd5 : q / 2 ^ (5 * (5 - 5)) % 32 = d5
  simp only [Nat.sub_zero, Nat.reduceSub, Nat.reduceMul, Nat.reducePow] at hd0 hd1 hd2 hd3 hd4 hd5
  rw [step_small 0 d0 (by omega) (by omega)]
  rw [step_small (0 * 32 + d0) d1 (by omega) (by omega)]
  rw [step_small ((0 * 32 + d0) * 32 + d1) d2 (by omega) (by omega)]
  rw [step_small (((0 * 32 + d0) * 32 + d1) * 32 + d2) d3 (by omega) (by omega)]
  rw [step_small ((((0 * 32 + d0) * 32 + d1) * 32 + d2) * 32 + d3) d4 (by omega) (by omega)]
  rw [step_small (((((0 * 32 + d0) * 32 + d1) * 32 + d2) * 32 + d3) * 32 + d4) d5 (by omega) (by omega)]
  omega

theorem chk6_lt (q : Nat) : ∀ v ∈ chk6 q, v < 32 := by
  intro v hv
  simp only [chk6, List.map_cons, List.map_nil, List.mem_cons, List.not_mem_nil, or_false, and31] at hv
  omega

/-- the six values `_create_checksum` appends make the whole sequence verify against `m`. -/
theorem checksum_verifies (X : List Nat) (m : Nat) (hX : ∀ x ∈ X, x < 2 ^ 30) (hm : m < 2 ^ 30) :
    polymod (X ++ chk6 (polymod (X ++ [0, 0, 0, 0, 0, 0]) ^^^ m)) = m := by
  unfold polymod polymodFrom
  rw [List.foldl_append, List.foldl_append]
  have hc : polymodFrom POLY_INIT X < 2 ^ 30 := polymodFrom_lt X _ (by decide) hX
  unfold polymodFrom at hc
  generalize List.foldl polymodStep POLY_INIT X = c at hc
  have z6 : ∀ v ∈ [0, 0, 0, 0, 0, 0], v < 2 ^ 30 := by decide
  have hP : polymodFrom c [0, 0, 0, 0, 0, 0] < 2 ^ 30 := polymodFrom_lt _ c hc z6
  have e1 := polymodFrom_xor [0, 0, 0, 0, 0, 0] 0 c (by decide) hc z6
  have hQ : polymodFrom c [0, 0, 0, 0, 0, 0] ^^^ m < 2 ^ 30 := Nat.xor_lt_two_pow hP hm
  have e2 := polymodFrom_xor (chk6 (polymodFrom c [0, 0, 0, 0, 0, 0] ^^^ m)) 0 c (by decide) hc
    (fun v hv => by have := chk6_lt _ v hv; omega)
  rw [Nat.zero_xor] at e1 e2
  have l6 : (chk6 (polymodFrom c [0, 0, 0, 0, 0, 0] ^^^ m)).length = 6 := rfl
  have z0 : polymodFrom 0 [0, 0, 0, 0, 0, 0] = 0 := by decide
  rw [polymodFrom_zero_chk6 _ hQ, l6] at e2
  rw [z0, Nat.zero_xor] at e1
  simp only [List.length_cons, List.length_nil] at e1
  unfold polymodFrom at e1 e2
  rw [e2]
  generalize shiftK 6 c = s at e1 e2
  rw [e1]
  rw [Nat.xor_comm s m, Nat.xor_assoc, Nat.xor_self, Nat.xor_zero]

theorem createChecksum_eq (hrp data : List Nat) (m : Nat) :
    createChecksum hrp data m = chk6 (polymod (hrpExpand hrp ++ data ++ [0, 0, 0, 0, 0, 0]) ^^^ m) := rfl

theorem hrpExpand_lt (hrp : List Nat) (h : ∀ x ∈ hrp, x < 2 ^ 30) : ∀ v ∈ hrpExpand hrp, v < 2 ^ 30 := by
  intro v hv
  simp only [hrpExpand, List.mem_append, List.mem_map, List.mem_cons, List.not_mem_nil, or_false] at hv
  rcases hv with (⟨x, hx, rfl⟩ | rfl) | ⟨x, hx, rfl⟩
  · have := h x hx; rw [Nat.shiftRight_eq_div_pow]; omega
  · omega
  · have : x &&& 31 ≤ 31 := Nat.and_le_right
    omega

theorem lower_map_charOf (vals : List Nat) (h : ∀ v ∈ vals, v < 32) :
    lower (vals.map charOf) = vals.map charOf := by
  induction vals with
  | nil => rfl
  | cons v vs ih =>
    simp only [lower, List.map_cons, List.cons.injEq] at *
    exact ⟨(charOf_facts v (h v (List.mem_cons_self ..))).2.1, ih (fun x hx => h x (List.mem_cons_of_mem _ hx))⟩

theorem index_map_charOf (vals : List Nat) (h : ∀ v ∈ vals, v < 32) :
    (vals.map charOf).map indexOf = vals.map some := by
  induction vals with
  | nil => rfl
  | cons v vs ih =>
    simp only [List.map_cons, List.cons.injEq] at *
    exact ⟨(charOf_facts v (h v (List.mem_cons_self ..))).2.2.1, ih (fun x hx => h x (List.mem_cons_of_mem _ hx))⟩

theorem sep_not_mem (vals : List Nat) (h : ∀ v ∈ vals, v < 32) : 49 ∉ vals.map charOf := by
  intro hm
  simp only [List.mem_map] at hm
  obtain ⟨v, hv, e⟩ := hm
  exact (charOf_facts v (h v hv)).1 e

theorem lower_id_of (l : List Nat) (h : ∀ x ∈ l, ¬ (65 ≤ x ∧ x ≤ 90)) : lower l = l := by
  induction l with
  | nil => rfl
  | cons x xs ih =>
    simp only [lower, List.map_cons, List.cons.injEq] at *
    refine ⟨?_, ih (fun y hy => h y (List.mem_cons_of_mem _ hy))⟩
    unfold lowerC
    rw [if_neg (h x (List.mem_cons_self ..))]

/-- `_decode` on `hrp ++ "1" ++ alphabet characters of vals`. -/
theorem decodeRaw_wellformed (hrp vals : List Nat) (hh : hrp ≠ [])
    (hr : ∀ x ∈ hrp, 47 < x ∧ x < 123 ∧ ¬ (65 ≤ x ∧ x ≤ 90)) (hv : ∀ v ∈ vals, v < 32)
    (hl : 6 ≤ vals.length) :
    decodeRaw (hrp ++ [49] ++ vals.map charOf)
      = .ok (hrp, vals.take (vals.length - 6), vals.drop (vals.length - 6)) := by
  have hs : hrp ++ [49] ++ vals.map charOf = hrp ++ 49 :: vals.map charOf := by simp
  have hlow : lower (hrp ++ 49 :: vals.map charOf) = hrp ++ 49 :: vals.map charOf := by
    have : lower (hrp ++ 49 :: vals.map charOf) = lower hrp ++ lowerC 49 :: lower (vals.map charOf) := by
      simp [lower]
    rw [this, lower_id_of hrp (fun x hx => (hr x hx).2.2), lower_map_charOf vals hv]
    rfl
  unfold decodeRaw
  rw [hs, splitLast_append 49 hrp _ (sep_not_mem vals hv)]
  simp only
  rw [if_neg hh]
  have e7 : SEP_CHK_LEN = 7 := rfl
  rw [if_neg (by simp only [List.length_append, List.length_cons, List.length_map, e7]; omega)]
  have hrange : (hrp.all fun x => decide (HRP_LO < x) && decide (x < HRP_HI)) = true := by
    rw [List.all_eq_true]
    intro x hx
    have := hr x hx
    have a : HRP_LO = 47 := rfl
    have b : HRP_HI = 123 := rfl
    simp [a, b, this.1, this.2.1]
  rw [hrange]
  simp only [Bool.not_true, Bool.false_eq_true, if_false]
  rw [if_neg (fun h => h.1 hlow)]
  rw [lower_map_charOf vals hv, index_map_charOf vals hv, lower_id_of hrp (fun x hx => (hr x hx).2.2)]
  rw [← List.map_drop, allSome_map_some, allSome_map_some]

/-- decode ∘ encode = id on the codec (`bech32.encode` then `bech32.decode` with the same `m`). -/
theorem decode_encodeNat (hrp data : List Nat) (m : Option Nat) (mm : Nat) (hh : hrp ≠ [])
    (hr : ∀ x ∈ hrp, 47 < x ∧ x < 123 ∧ ¬ (65 ≤ x ∧ x ≤ 90)) (hd : ∀ d ∈ data, d < 32)
    (hm : pickM m data = .ok mm) (hmm : mm < 2 ^ 30) :
    ∃ s, encodeNat hrp data m = .ok s ∧ decode s m = .ok (hrp, data) := by
  have hc : ∀ v ∈ createChecksum hrp data mm, v < 32 := by rw [createChecksum_eq]; exact chk6_lt _
  have hall : ∀ v ∈ data ++ createChecksum hrp data mm, v < 32 := by
    intro v hv; rcases List.mem_append.mp hv with h | h
    · exact hd v h
    · exact hc v h
  have hlen : (createChecksum hrp data mm).length = 6 := rfl
  refine ⟨hrp ++ [49] ++ (data ++ createChecksum hrp data mm).map charOf, ?_, ?_⟩
  · unfold encodeNat
    have : data.all (· < 32) = true := by rw [List.all_eq_true]; intro x hx; simpa using hd x hx
    rw [this, hm]
    simp only [Bool.not_true, Bool.false_eq_true, if_false]
    have asc : (hrp ++ [49] ++ (data ++ createChecksum hrp data mm).map fun x => ALPHABET.getD x 0).all (· < 128) = true := by
      rw [List.all_eq_true]
      intro x hx
      simp only [List.mem_append, List.mem_cons, List.not_mem_nil, or_false, List.mem_map] at hx
      rcases hx with (hx | rfl) | ⟨v, hv, rfl⟩
      · have := hr x hx; simp; omega
      · decide
      · have := (charOf_facts v (hall v (by simpa using hv))).2.2.2
        simpa [charOf] using this
    rw [if_pos asc]
    rfl
  · unfold decode
    rw [decodeRaw_wellformed hrp _ hh hr hall (by simp [hlen])]
    simp only
    have t : (data ++ createChecksum hrp data mm).take ((data ++ createChecksum hrp data mm).length - 6) = data := by
      simp [hlen]
    have d : (data ++ createChecksum hrp data mm).drop ((data ++ createChecksum hrp data mm).length - 6)
        = createChecksum hrp data mm := by simp [hlen]
    rw [t, d, hm]
    simp only
    have v : verifyChecksum hrp (data ++ createChecksum hrp data mm) mm = true := by
      unfold verifyChecksum
      rw [createChecksum_eq, ← List.append_assoc]
      have hX : ∀ x ∈ hrpExpand hrp ++ data, x < 2 ^ 30 := by
        intro x hx; rcases List.mem_append.mp hx with h | h
        · exact hrpExpand_lt hrp (fun y hy => by have := hr y hy; omega) x h
        · have := hd x h; omega
      simpa using checksum_verifies (hrpExpand hrp ++ data) mm hX hmm
    rw [v]
    rfl

theorem decode_encodeNat_version (hrp : List Nat) (ver : Nat) (rest : List Nat) (hh : hrp ≠ [])
    (hr : ∀ x ∈ hrp, 47 < x ∧ x < 123 ∧ ¬ (65 ≤ x ∧ x ≤ 90)) (hd : ∀ d ∈ ver :: rest, d < 32) :
    ∃ s, encodeNat hrp (ver :: rest) none = .ok s ∧ decode s none = .ok (hrp, ver :: rest) := by
  apply decode_encodeNat hrp (ver :: rest) none (if ver = 0 then 1 else 0x2bc830a3) hh hr hd rfl
  split <;> decide

/-- what `encode` writes: hrp, separator, alphabet characters of `data.length + 6` five-bit values. -/
theorem encodeNat_shape (hrp data : List Nat) (m : Option Nat) (s : List Nat) (h : encodeNat hrp data m = .ok s) :
    ∃ L : List Nat, s = hrp ++ [49] ++ L.map charOf ∧ (∀ d ∈ L, d < 32) ∧ L.length = data.length + 6 := by
  unfold encodeNat at h
  split at h
  · cases h
  · rename_i hall
    split at h
    · cases h
    · rename_i mm hm
      simp only at h
      split at h
      · cases h
        refine ⟨data ++ createChecksum hrp data mm, rfl, ?_, by simp [createChecksum]⟩
        intro d hd
        rcases List.mem_append.mp hd with hd | hd
        · have : data.all (· < 32) = true := by simpa using hall
          simpa using List.all_eq_true.mp this d hd
        · rw [createChecksum_eq] at hd; exact chk6_lt _ d hd
      · cases h

theorem encodeNat_lower (hrp data : List Nat) (m : Option Nat) (s : List Nat) (h : encodeNat hrp data m = .ok s)
    (hu : ∀ x ∈ hrp, ¬ (65 ≤ x ∧ x ≤ 90)) : lower s = s := by
  obtain ⟨L, rfl, hL, _⟩ := encodeNat_shape hrp data m s h
  have : lower (hrp ++ [49] ++ L.map charOf) = lower hrp ++ [lowerC 49] ++ lower (L.map charOf) := by
    simp [lower]
  rw [this, lower_id_of hrp hu, lower_map_charOf L hL]
  rfl

end Btc.Bech32
