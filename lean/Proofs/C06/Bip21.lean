import Model.C06.Bip21
/-! BIP21 query layer: escaping round trip, and the repeated-parameter rule on DECODED names. -/
namespace Btc.Bip21

theorem hexVal_hexDigit : ∀ d, d < 16 → hexVal (hexDigit d) = some d := by decide

theorem isPlain_facts : ∀ c, c < 128 → isPlain c = true → c ≠ 37 ∧ c ≠ 38 ∧ c ≠ 61 ∧ c ≠ 35 ∧ c ≠ 63 := by decide

theorem hexDigit_facts : ∀ d, d < 16 → hexDigit d ≠ 38 ∧ hexDigit d ≠ 61 ∧ hexDigit d ≠ 35 ∧ hexDigit d ≠ 63 := by
  decide

theorem pctDecode_cons_ne (c : Nat) (rest : List Nat) (h : c ≠ 37) :
    pctDecode (c :: rest) = (pctDecode rest).map (fun r => c :: r) := by
  conv => lhs; unfold pctDecode
  rw [if_neg h]

theorem pctDecode_escape (x y : Nat) (rest : List Nat) (hx : x < 16) (hy : y < 16) (h : 16 * x + y < 128) :
    pctDecode (37 :: hexDigit x :: hexDigit y :: rest) = (pctDecode rest).map (fun r => (16 * x + y) :: r) := by
  conv => lhs; unfold pctDecode
  simp only [if_true, hexVal_hexDigit x hx, hexVal_hexDigit y hy, if_pos h]

/-- `_decode(quote(text))` is the text, for every ASCII text. -/
theorem pctDecode_pctEncode (s : List Nat) (h : ∀ c ∈ s, c < 128) : pctDecode (pctEncode s) = .ok s := by
  induction s with
  | nil => rfl
  | cons c cs ih =>
    have hc := h c (List.mem_cons_self ..)
    have ih' := ih (fun x hx => h x (List.mem_cons_of_mem _ hx))
    unfold pctEncode
    split
    · rename_i hp
      have := (isPlain_facts c hc hp).1
      rw [pctDecode_cons_ne c _ this, ih']; rfl
    · have e : 16 * (c / 16) + c % 16 = c := by omega
      rw [pctDecode_escape (c / 16) (c % 16) _ (by omega) (by omega) (by omega), ih', e]; rfl

/-- what `quote` writes contains no query delimiter: `&`, `=`, `#`, `?`. -/
theorem pctEncode_no_delims (s : List Nat) (h : ∀ c ∈ s, c < 128) :
    ∀ x ∈ pctEncode s, x ≠ 38 ∧ x ≠ 61 ∧ x ≠ 35 ∧ x ≠ 63 := by
  induction s with
  | nil => intro x hx; cases hx
  | cons c cs ih =>
    have hc := h c (List.mem_cons_self ..)
    have ih' := ih (fun x hx => h x (List.mem_cons_of_mem _ hx))
    intro x hx
    unfold pctEncode at hx
    split at hx
    · rename_i hp
      rcases List.mem_cons.mp hx with rfl | hx
      · exact (isPlain_facts x hc hp).2
      · exact ih' x hx
    · simp only [List.mem_cons] at hx
      rcases hx with rfl | rfl | rfl | hx
      · decide
      · exact hexDigit_facts _ (by omega)
      · exact hexDigit_facts _ (by omega)
      · exact ih' x hx

/-- an accepted run never met an element whose decoded name was already seen. -/
theorem parseLoop_ok_not_seen (es : List (List Nat)) : ∀ (seen : List (List Nat)) ps, parseLoop es seen = .ok ps →
    ∀ e ∈ es, e ≠ [] → ∀ k, pctDecode (partition 61 e).1 = .ok k → k ∉ seen := by
  induction es with
  | nil => intro seen ps _ e he; cases he
  | cons e0 es ih =>
    intro seen ps h e he hne k hk
    unfold parseLoop at h
    split at h
    · rename_i h0
      rcases List.mem_cons.mp he with rfl | he'
      · exact absurd h0 hne
      · exact ih seen ps h e he' hne k hk
    · simp only at h
      split at h
      · cases h
      · rename_i k0 hk0
        split at h
        · cases h
        · rename_i hns
          split at h
          · cases h
          · rename_i v0 _
            cases hr : parseLoop es (k0 :: seen) with
            | error err => rw [hr] at h; cases h
            | ok r =>
              rcases List.mem_cons.mp he with rfl | he'
              · rw [hk0] at hk; cases hk; exact hns
              · have := ih (k0 :: seen) r hr e he' hne k hk
                exact fun hin => this (List.mem_cons_of_mem _ hin)

/-- BIP21's "a repeated key is an error": two non-empty elements whose names DECODE to the same text — whatever
    their spellings (`amount` and `%61mount`) — make `parse` refuse the query. -/
theorem repeated_name_refused (A B C : List (List Nat)) (e1 e2 : List Nat) (k : List Nat) (seen : List (List Nat))
    (h1 : e1 ≠ []) (h2 : e2 ≠ []) (d1 : pctDecode (partition 61 e1).1 = .ok k)
    (d2 : pctDecode (partition 61 e2).1 = .ok k) :
    ∀ ps, parseLoop (A ++ e1 :: (B ++ e2 :: C)) seen ≠ .ok ps := by
  induction A generalizing seen with
  | nil =>
    intro ps h
    simp only [List.nil_append] at h
    unfold parseLoop at h
    rw [if_neg h1] at h
    simp only [d1] at h
    split at h
    · cases h
    · split at h
      · cases h
      · cases hr : parseLoop (B ++ e2 :: C) (k :: seen) with
        | error err => rw [hr] at h; cases h
        | ok r =>
          exact parseLoop_ok_not_seen _ _ r hr e2 (by simp) h2 k d2 (List.mem_cons_self ..)
  | cons a A ih =>
    intro ps h
    simp only [List.cons_append] at h
    unfold parseLoop at h
    split at h
    · exact ih seen ps h
    · simp only at h
      split at h
      · cases h
      · rename_i k0 _
        split at h
        · cases h
        · split at h
          · cases h
          · cases hr : parseLoop (A ++ e1 :: (B ++ e2 :: C)) (k0 :: seen) with
            | error err => rw [hr] at h; cases h
            | ok r => exact ih (k0 :: seen) r hr

end Btc.Bip21
