import Proofs.C06.SubString
/-!
Three substitutions whose first and last changed value are at most `W3 = 88` positions apart are always
detected by the bech32 checksum.

Finite fact behind it: the `88 · 31` residues `x^b · d mod g` (`1 ≤ b ≤ 88`, `1 ≤ d ≤ 31`) have pairwise
different high parts (`/ 32`), so `x^b·d1 + x^c·d2` is never a constant `d3 < 32`.  Distinctness is checked
by a radix partition on the 25 bits of the high part (structural recursion, `decide +kernel`).
-/
namespace Btc.Bech32
open Gen.Bech32

/-- distance first-to-last changed value covered by the table. -/
def W3 : Nat := 88

/-! ### distinctness by radix partition -/
def bitk (k x : Nat) : Bool := Nat.beq (x / 2 ^ k % 2) 1

/-- the elements of `l` are pairwise different modulo `2 ^ k`. -/
def nodupRadix : Nat → List Nat → Bool
  | 0, l => match l with
    | [] => true
    | [_] => true
    | _ :: _ :: _ => false
  | k + 1, l => match l with
    | [] => true
    | [_] => true
    | _ :: _ :: _ => nodupRadix k (l.filter (bitk k)) && nodupRadix k (l.filter fun x => !bitk k x)

theorem mod_succ_split (x a k : Nat) (h : x % 2 ^ (k + 1) = a % 2 ^ (k + 1)) :
    x % 2 ^ k = a % 2 ^ k ∧ x / 2 ^ k % 2 = a / 2 ^ k % 2 := by
  constructor
  · have d : 2 ^ k ∣ 2 ^ (k + 1) := ⟨2, by rw [Nat.pow_succ]⟩
    rw [← Nat.mod_mod_of_dvd x d, ← Nat.mod_mod_of_dvd a d, h]
  · rw [← Nat.mod_mul_right_div_self, ← Nat.mod_mul_right_div_self a, ← Nat.pow_succ, h]

theorem nodupRadix_spec (k : Nat) (l : List Nat) (h : nodupRadix k l = true) (a : Nat) :
    l.countP (fun x => decide (x % 2 ^ k = a % 2 ^ k)) ≤ 1 := by
  induction k generalizing l with
  | zero =>
    match l, h with
    | [], _ => exact Nat.zero_le _
    | [_], _ => exact List.countP_le_length
    | _ :: _ :: _, h => simp [nodupRadix] at h
  | succ k ih =>
    match l, h with
    | [], _ => exact Nat.zero_le _
    | [_], _ => exact List.countP_le_length
    | x :: y :: t, h =>
      simp only [nodupRadix, Bool.and_eq_true] at h
      generalize x :: y :: t = l at h
      cases hb : bitk k a with
      | true =>
        refine Nat.le_trans ?_ (ih _ h.1)
        rw [List.countP_filter]
        apply List.countP_mono_left
        intro z _ hz
        have e := mod_succ_split z a k (of_decide_eq_true hz)
        simp only [Bool.and_eq_true, decide_eq_true_eq]
        refine ⟨e.1, ?_⟩
        unfold bitk at hb ⊢
        rw [e.2]; exact hb
      | false =>
        refine Nat.le_trans ?_ (ih _ h.2)
        rw [List.countP_filter]
        apply List.countP_mono_left
        intro z _ hz
        have e := mod_succ_split z a k (of_decide_eq_true hz)
        simp only [Bool.and_eq_true, decide_eq_true_eq, Bool.not_eq_true']
        refine ⟨e.1, ?_⟩
        unfold bitk at hb ⊢
        rw [e.2]; exact hb

/-! ### the rows of residues -/
/-- rows `prev·x, prev·x², …, prev·x^n`, concatenated. -/
def rowsFrom : Nat → List Nat → List Nat
  | 0, _ => []
  | n + 1, prev => prev.map step0 ++ rowsFrom n (prev.map step0)

def row0 : List Nat :=
  [1,2,3,4,5,6,7,8,9,10,11,12,13,14,15,16,17,18,19,20,21,22,23,24,25,26,27,28,29,30,31]

theorem mem_row0 : ∀ d, d < 32 → d ≠ 0 → d ∈ row0 := by decide +kernel

/-- the 2728 residues `x^b·d`, `1 ≤ b ≤ 88`, `1 ≤ d ≤ 31`, have pairwise different high parts. -/
theorem table3 : nodupRadix 25 ((rowsFrom W3 row0).map (· / 32)) = true := by decide +kernel

/-- no two elements of `l` have the same high part. -/
def HiDistinct (l : List Nat) : Prop :=
  ∀ a, l.countP (fun x => decide (x / 32 % 2 ^ 25 = a % 2 ^ 25)) ≤ 1

theorem table3_hi : HiDistinct (rowsFrom W3 row0) := by
  intro a
  have := nodupRadix_spec 25 _ table3 a
  rw [List.countP_map] at this
  exact this

theorem HiDistinct.right {l1 l2 : List Nat} (h : HiDistinct (l1 ++ l2)) : HiDistinct l2 := by
  intro a
  have := h a
  rw [List.countP_append] at this
  omega

theorem HiDistinct.cross {l1 l2 : List Nat} (h : HiDistinct (l1 ++ l2)) (x y : Nat)
    (hx : x ∈ l1) (hy : y ∈ l2) : x / 32 ≠ y / 32 := by
  intro e
  have := h (x / 32)
  rw [List.countP_append] at this
  have p1 : 0 < l1.countP (fun z => decide (z / 32 % 2 ^ 25 = x / 32 % 2 ^ 25)) :=
    List.countP_pos_iff.2 ⟨x, hx, by simp⟩
  have p2 : 0 < l2.countP (fun z => decide (z / 32 % 2 ^ 25 = x / 32 % 2 ^ 25)) :=
    List.countP_pos_iff.2 ⟨y, hy, by simp [e]⟩
  omega

theorem mem_rowsFrom (n : Nat) (prev : List Nat) (j d : Nat) (hj : j < n) (hd : d ∈ prev) :
    shiftK (j + 1) d ∈ rowsFrom n prev := by
  induction n generalizing prev j d with
  | zero => omega
  | succ n ih =>
    simp only [rowsFrom]
    cases j with
    | zero => exact List.mem_append_left _ (List.mem_map_of_mem hd)
    | succ j =>
      apply List.mem_append_right
      show shiftK (j + 1) (step0 d) ∈ _
      exact ih _ j _ (by omega) (List.mem_map_of_mem hd)

theorem rows_distinct (n : Nat) (prev : List Nat) (h : HiDistinct (rowsFrom n prev)) (i j : Nat)
    (hij : i < j) (hj : j < n) (d1 d2 : Nat) (h1 : d1 ∈ prev) (h2 : d2 ∈ prev) :
    shiftK (i + 1) d1 / 32 ≠ shiftK (j + 1) d2 / 32 := by
  induction n generalizing prev i j d1 d2 with
  | zero => omega
  | succ n ih =>
    simp only [rowsFrom] at h
    cases j with
    | zero => omega
    | succ j =>
      cases i with
      | zero =>
        apply h.cross _ _ (List.mem_map_of_mem h1)
        show shiftK (j + 1) (step0 d2) ∈ _
        exact mem_rowsFrom n _ j _ (by omega) (List.mem_map_of_mem h2)
      | succ i =>
        show shiftK (i + 1) (step0 d1) / 32 ≠ shiftK (j + 1) (step0 d2) / 32
        exact ih _ h.right i j (by omega) (by omega) _ _ (List.mem_map_of_mem h1) (List.mem_map_of_mem h2)

theorem hi_ne_xor_ge (x y : Nat) (h : x / 32 ≠ y / 32) : 32 ≤ x ^^^ y := by
  apply Nat.le_of_not_lt
  intro lt
  apply h
  have z : (x ^^^ y) >>> 5 = 0 := by rw [Nat.shiftRight_eq_div_pow]; omega
  rw [Nat.shiftRight_xor_distrib] at z
  have := xor_eq_zero z
  rw [Nat.shiftRight_eq_div_pow, Nat.shiftRight_eq_div_pow] at this
  exact this

theorem shiftK_zero_val (k : Nat) : shiftK k 0 = 0 := by
  induction k with
  | zero => rfl
  | succ k ih =>
    have : step0 0 = 0 := by decide
    simp only [shiftK, this]; exact ih

/-- THE TABLE FACT: `x^b·d1 + x^c·d2` is not a constant, for `0 < c < b ≤ 88`, `d1 ≠ 0`. -/
theorem residue3_ge (b c d1 d2 : Nat) (hc : 0 < c) (hcb : c < b) (hb : b ≤ W3)
    (h1 : d1 < 32) (hne : d1 ≠ 0) (h2 : d2 < 32) : 32 ≤ shiftK b d1 ^^^ shiftK c d2 := by
  by_cases z : d2 = 0
  · subst z
    rw [shiftK_zero_val, Nat.xor_zero]
    obtain ⟨b', rfl⟩ : ∃ b', b = b' + 1 := ⟨b - 1, by omega⟩
    exact residue_ge d1 b' h1 hne (by unfold W3 at hb; unfold WINDOW; omega)
  · obtain ⟨b', rfl⟩ : ∃ b', b = b' + 1 := ⟨b - 1, by omega⟩
    obtain ⟨c', rfl⟩ : ∃ c', c = c' + 1 := ⟨c - 1, by omega⟩
    apply hi_ne_xor_ge
    intro e
    exact rows_distinct W3 row0 table3_hi c' b' (by omega) (by omega) d2 d1
      (mem_row0 d2 h2 z) (mem_row0 d1 h1 hne) e.symm

/-! ### linearity of `shiftK` -/
theorem shiftK_xor (k a b : Nat) (ha : a < 2 ^ 30) (hb : b < 2 ^ 30) :
    shiftK k (a ^^^ b) = shiftK k a ^^^ shiftK k b := by
  induction k generalizing a b with
  | zero => rfl
  | succ k ih =>
    simp only [shiftK]
    rw [step0_linear a b ha hb]
    exact ih _ _ (step0_lt a) (step0_lt b)

theorem shiftK_add (j k d : Nat) : shiftK k (shiftK j d) = shiftK (j + k) d := by
  induction j generalizing d with
  | zero => rw [Nat.zero_add]; rfl
  | succ j ih =>
    have : j + 1 + k = (j + k) + 1 := by omega
    rw [this]
    simp only [shiftK]
    exact ih _

/-- a state error `e` and a changed value: the error after the step. -/
theorem step_err (x e v v' : Nat) (hx : x < 2 ^ 30) (he : e < 2 ^ 30) :
    polymodStep (x ^^^ e) v' = polymodStep x v ^^^ (step0 e ^^^ (v ^^^ v')) := by
  rw [step_split, step_split, step0_linear _ _ hx he]
  generalize step0 x = a
  generalize step0 e = b
  apply Nat.eq_of_testBit_eq; intro i
  simp only [Nat.testBit_xor]
  generalize a.testBit i = p
  generalize b.testBit i = q
  generalize v.testBit i = r
  generalize v'.testBit i = s
  cases p <;> cases q <;> cases r <;> cases s <;> rfl

/-- three changed values, first and last at most 88 positions apart (`mid1.length + mid2.length + 2 ≤ 88`),
    the first one really changed: the two sequences have different checksums. -/
theorem three_substitutions (pre mid1 mid2 post : List Nat) (v1 v1' v2 v2' v3 v3' : Nat)
    (hm1 : ∀ x ∈ mid1, x < 2 ^ 30) (hm2 : ∀ x ∈ mid2, x < 2 ^ 30) (hpost : ∀ x ∈ post, x < 2 ^ 30)
    (h1 : v1 < 32) (h1' : v1' < 32) (h2 : v2 < 32) (h2' : v2' < 32) (h3 : v3 < 32) (h3' : v3' < 32)
    (hne : v1 ≠ v1') (hw : mid1.length + mid2.length + 2 ≤ 88)
    (h : polymod (pre ++ v1 :: (mid1 ++ v2 :: (mid2 ++ v3 :: post))) =
         polymod (pre ++ v1' :: (mid1 ++ v2' :: (mid2 ++ v3' :: post)))) : False := by
  unfold polymod polymodFrom at h
  simp only [List.foldl_append, List.foldl_cons] at h
  generalize List.foldl polymodStep POLY_INIT pre = c at h
  have b1 : v1 < 2 ^ 30 := by omega
  have hd1 : v1 ^^^ v1' < 32 := Nat.xor_lt_two_pow (n := 5) h1 h1'
  have hd2 : v2 ^^^ v2' < 32 := Nat.xor_lt_two_pow (n := 5) h2 h2'
  have hd3 : v3 ^^^ v3' < 32 := Nat.xor_lt_two_pow (n := 5) h3 h3'
  generalize hD1 : v1 ^^^ v1' = d1 at hd1
  generalize hD2 : v2 ^^^ v2' = d2 at hd2
  generalize hD3 : v3 ^^^ v3' = d3 at hd3
  have hd0 : d1 ≠ 0 := fun h0 => hne (xor_eq_zero (hD1.trans h0))
  -- first change
  have e1 : polymodStep c v1' = polymodStep c v1 ^^^ d1 := by
    rw [← hD1, step_split, step_split, Nat.xor_assoc, ← Nat.xor_assoc v1, Nat.xor_self, Nat.zero_xor]
  -- through mid1
  have m1 := polymodFrom_xor mid1 (polymodStep c v1) d1 (step_lt c v1 b1) (by omega) hm1
  unfold polymodFrom at m1
  rw [← e1] at m1
  rw [m1] at h
  generalize hx : List.foldl polymodStep (polymodStep c v1) mid1 = x at h
  have hxl : x < 2 ^ 30 := by
    rw [← hx]; exact polymodFrom_lt' mid1 _ (step_lt c v1 b1) hm1
  -- second change
  have hel : shiftK mid1.length d1 < 2 ^ 30 := shiftK_lt _ _ (by omega)
  have e2 := step_err x (shiftK mid1.length d1) v2 v2' hxl hel
  rw [shiftK_succ', hD2] at e2
  generalize hE2 : shiftK (mid1.length + 1) d1 ^^^ d2 = E2 at e2
  have hE2l : E2 < 2 ^ 30 := by
    rw [← hE2]; exact Nat.xor_lt_two_pow (shiftK_lt _ _ (by omega)) (by omega)
  -- through mid2
  have m2 := polymodFrom_xor mid2 (polymodStep x v2) E2 (step_lt x v2 (by omega)) hE2l hm2
  unfold polymodFrom at m2
  rw [← e2] at m2
  rw [m2] at h
  generalize hy : List.foldl polymodStep (polymodStep x v2) mid2 = y at h
  have hyl : y < 2 ^ 30 := by
    rw [← hy]; exact polymodFrom_lt' mid2 _ (step_lt x v2 (by omega)) hm2
  -- third change
  have hel2 : shiftK mid2.length E2 < 2 ^ 30 := shiftK_lt _ _ hE2l
  have e3 := step_err y (shiftK mid2.length E2) v3 v3' hyl hel2
  rw [shiftK_succ', hD3] at e3
  generalize hE3 : shiftK (mid2.length + 1) E2 ^^^ d3 = E3 at e3
  have hE3l : E3 < 2 ^ 30 := by
    rw [← hE3]; exact Nat.xor_lt_two_pow (shiftK_lt _ _ hE2l) (by omega)
  -- through post
  have m3 := polymodFrom_xor post (polymodStep y v3) E3 (step_lt y v3 (by omega)) hE3l hpost
  unfold polymodFrom at m3
  rw [← e3] at m3
  rw [m3] at h
  have z := shiftK_eq_zero _ _ hE3l (xor_self_cancel h)
  rw [← hE3] at z
  have key := xor_eq_zero z
  rw [← hE2, shiftK_xor _ _ _ (shiftK_lt _ _ (by omega)) (by omega), shiftK_add] at key
  have := residue3_ge (mid1.length + 1 + (mid2.length + 1)) (mid2.length + 1) d1 d2
    (by omega) (by omega) (by unfold W3; omega) hd1 hd0 hd2
  omega

/-- the hypotheses of `three_substitutions` (all but the last) are satisfiable. -/
example : ∃ (pre mid1 mid2 post : List Nat) (v1 v1' v2 v2' v3 v3' : Nat),
    (∀ x ∈ mid1, x < 2 ^ 30) ∧ (∀ x ∈ mid2, x < 2 ^ 30) ∧ (∀ x ∈ post, x < 2 ^ 30) ∧
    v1 < 32 ∧ v1' < 32 ∧ v2 < 32 ∧ v2' < 32 ∧ v3 < 32 ∧ v3' < 32 ∧ v1 ≠ v1' ∧
    mid1.length + mid2.length + 2 ≤ 88 ∧
    polymod (pre ++ v1 :: (mid1 ++ v2 :: (mid2 ++ v3 :: post))) ≠
      polymod (pre ++ v1' :: (mid1 ++ v2' :: (mid2 ++ v3' :: post))) :=
  ⟨[3, 3, 0, 2, 3], [0, 14], [20, 15], [7, 13], 1, 2, 5, 9, 30, 0, by decide +kernel⟩

/-- T3 at the string level, three characters: changing three characters after the separator of an accepted
    string, the first and the last at most 88 positions apart (`mid1.length + mid2.length + 2 ≤ 88`), the
    first one really changed, gives a string `decode` (same constant) refuses. -/
theorem three_substitutions_refused (pre a mid1 mid2 b : List Nat) (x x' y y' z z' m : Nat)
    (h49 : 49 ∉ a ++ x :: (mid1 ++ y :: (mid2 ++ z :: b))) (hx' : x' ≠ 49) (hy' : y' ≠ 49) (hz' : z' ≠ 49)
    (hne : lowerC x ≠ lowerC x') (hw : mid1.length + mid2.length + 2 ≤ 88) (r : List Nat × List Nat)
    (h1 : decode (pre ++ 49 :: (a ++ x :: (mid1 ++ y :: (mid2 ++ z :: b)))) (some m) = .ok r) :
    ∀ r', decode (pre ++ 49 :: (a ++ x' :: (mid1 ++ y' :: (mid2 ++ z' :: b)))) (some m) ≠ .ok r' := by
  intro r' h2
  obtain ⟨hrp, data⟩ := r
  obtain ⟨hrp', data'⟩ := r'
  obtain ⟨p1, q1, vals1, mm, e1, n1, rfl, _, l1, hv1, _, _, hm1, c1⟩ := decode_ok _ _ _ _ h1
  obtain ⟨p2, q2, vals2, mm', e2, n2, rfl, _, l2, hv2, _, _, hm2, c2⟩ := decode_ok _ _ _ _ h2
  have h49' : 49 ∉ a ++ x' :: (mid1 ++ y' :: (mid2 ++ z' :: b)) := by
    intro hm
    simp only [List.mem_append, List.mem_cons] at hm h49
    rcases hm with h | h | h | h | h | h | h
    · exact h49 (Or.inl h)
    · exact hx' h.symm
    · exact h49 (Or.inr (Or.inr (Or.inl h)))
    · exact hy' h.symm
    · exact h49 (Or.inr (Or.inr (Or.inr (Or.inr (Or.inl h)))))
    · exact hz' h.symm
    · exact h49 (Or.inr (Or.inr (Or.inr (Or.inr (Or.inr (Or.inr h))))))
  obtain ⟨rfl, rfl⟩ := split_unique _ _ _ _ e1 h49 n1
  obtain ⟨rfl, rfl⟩ := split_unique _ _ _ _ e2 h49' n2
  obtain ⟨va, v, vr, rfl, a1, x1, r1⟩ := vals_split a _ vals1 x l1
  obtain ⟨va', v', vr', rfl, a2, x2, r2⟩ := vals_split a _ vals2 x' l2
  obtain ⟨vm, w, vs, rfl, m1, y1, s1⟩ := vals_split mid1 _ vr y r1
  obtain ⟨vm', w', vs', rfl, m2, y2, s2⟩ := vals_split mid1 _ vr' y' r2
  obtain ⟨vn, u, vb, rfl, n1', z1, b1⟩ := vals_split mid2 b vs z s1
  obtain ⟨vn', u', vb', rfl, n2', z2, b2⟩ := vals_split mid2 b vs' z' s2
  have inj := fun (l l' : List Nat) (h1 : ∀ t ∈ l, t ∈ va ++ v :: (vm ++ w :: (vn ++ u :: vb)))
      (h2 : ∀ t ∈ l', t ∈ va' ++ v' :: (vm' ++ w' :: (vn' ++ u' :: vb'))) (e : l.map charOf = l'.map charOf) =>
    map_charOf_inj l l' (fun t ht => hv1 t (h1 t ht)) (fun t ht => hv2 t (h2 t ht)) e
  have hva : va = va' := inj _ _ (by intro t ht; simp [ht]) (by intro t ht; simp [ht]) (a1.symm.trans a2)
  have hvm : vm = vm' := inj _ _ (by intro t ht; simp [ht]) (by intro t ht; simp [ht]) (m1.symm.trans m2)
  have hvn : vn = vn' := inj _ _ (by intro t ht; simp [ht]) (by intro t ht; simp [ht]) (n1'.symm.trans n2')
  have hvb : vb = vb' := inj _ _ (by intro t ht; simp [ht]) (by intro t ht; simp [ht]) (b1.symm.trans b2)
  subst hva hvm hvn hvb
  simp only [pickM, Except.ok.injEq] at hm1 hm2
  subst hm1 hm2
  have hml : vm.length = mid1.length := by
    have := congrArg List.length m1; simpa [lower] using this.symm
  have hnl : vn.length = mid2.length := by
    have := congrArg List.length n1'; simpa [lower] using this.symm
  have lt30 : ∀ t, t ∈ va ++ v :: (vm ++ w :: (vn ++ u :: vb)) → t < 2 ^ 30 :=
    fun t ht => by have := hv1 t ht; omega
  apply three_substitutions (hrpExpand (lower pre) ++ va) vm vn vb v v' w w' u u'
    (fun t ht => lt30 t (by simp [ht])) (fun t ht => lt30 t (by simp [ht])) (fun t ht => lt30 t (by simp [ht]))
    (hv1 v (by simp)) (hv2 v' (by simp)) (hv1 w (by simp)) (hv2 w' (by simp))
    (hv1 u (by simp)) (hv2 u' (by simp))
    (by intro e; subst e; exact hne (x1.trans x2.symm)) (by rw [hml, hnl]; exact hw)
  rw [List.append_assoc, List.append_assoc, c1, c2]

/-- non-vacuity: "a12uel5l" (BIP173) is accepted; "a13vem5l" (three characters changed) is refused. -/
example : ∀ r', decode [97, 49, 51, 118, 101, 109, 53, 108] (some 1) ≠ .ok r' :=
  three_substitutions_refused [97] [] [] [101] [53, 108] 50 51 117 118 108 109 1
    (by decide +kernel) (by decide) (by decide) (by decide) (by decide) (by decide) ([97], []) (by decide +kernel)

end Btc.Bech32
