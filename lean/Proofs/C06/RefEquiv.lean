import Proofs.C06.CodecConv
/-! `bech32.decode` (model of btclib) versus the literal BIP173/BIP350 `bech32_decode`. -/
namespace Btc.Bech32
open Gen.Bech32

theorem ref_lowerC : Bech32Ref.lowerC = lowerC := rfl
theorem ref_upperC : Bech32Ref.upperC = upperC := rfl
theorem ref_hrpExpand : Bech32Ref.hrpExpand = hrpExpand := rfl

theorem lowerC_49 (c : Nat) : lowerC c = 49 ↔ c = 49 := by
  unfold lowerC; split <;> omega

theorem not_mem_lower_49 (l : List Nat) (h : 49 ∉ l) : 49 ∉ lower l := by
  intro hm
  simp only [lower, List.mem_map] at hm
  obtain ⟨c, hc, e⟩ := hm
  exact h ((lowerC_49 c).mp e ▸ hc)

theorem rfind_none (c : Nat) (l : List Nat) (h : c ∉ l) : Bech32Ref.rfind c l = none := by
  induction l with
  | nil => rfl
  | cons x xs ih =>
    simp only [List.mem_cons, not_or] at h
    simp only [Bech32Ref.rfind, ih h.2]
    rw [if_neg (fun e => h.1 e.symm)]

theorem rfind_append (c : Nat) (a b : List Nat) (h : c ∉ b) :
    Bech32Ref.rfind c (a ++ c :: b) = some a.length := by
  induction a with
  | nil => simp [Bech32Ref.rfind, rfind_none c b h]
  | cons x xs ih => simp [Bech32Ref.rfind, ih]

theorem rfind_some (c : Nat) (l : List Nat) (p : Nat) (h : Bech32Ref.rfind c l = some p) :
    ∃ a b, l = a ++ c :: b ∧ c ∉ b ∧ a.length = p := by
  induction l generalizing p with
  | nil => simp [Bech32Ref.rfind] at h
  | cons x xs ih =>
    simp only [Bech32Ref.rfind] at h
    split at h
    · rename_i i hi
      simp only [Option.some.injEq] at h
      obtain ⟨a, b, e, hn, hl⟩ := ih i hi
      exact ⟨x :: a, b, by rw [e]; rfl, hn, by simp [hl, h]⟩
    · rename_i hnone
      split at h
      · rename_i hx
        simp only [Option.some.injEq] at h
        subst hx
        refine ⟨[], xs, rfl, ?_, by simp [h]⟩
        intro hm
        have : ∃ i, Bech32Ref.rfind x xs = some i := by
          clear hnone ih h
          induction xs with
          | nil => cases hm
          | cons y ys ih2 =>
            simp only [Bech32Ref.rfind]
            rcases List.mem_cons.mp hm with rfl | hm'
            · split
              · exact ⟨_, rfl⟩
              · exact ⟨0, by simp⟩
            · obtain ⟨i, hi⟩ := ih2 hm'
              rw [hi]; exact ⟨_, rfl⟩
        obtain ⟨i, hi⟩ := this
        rw [hi] at hnone; cases hnone
      · cases h

theorem findAll_map (vals : List Nat) (h : ∀ v ∈ vals, v < 32) :
    Bech32Ref.findAll (vals.map charOf) = some vals := by
  induction vals with
  | nil => rfl
  | cons v vs ih =>
    have hv := (charOf_facts v (h v (List.mem_cons_self ..))).2.2.1
    unfold indexOf at hv
    rw [alphabet_eq_ref] at hv
    simp only [List.map_cons, Bech32Ref.findAll, hv, ih (fun x hx => h x (List.mem_cons_of_mem _ hx))]

theorem findAll_some (l vals : List Nat) (h : Bech32Ref.findAll l = some vals) :
    l = vals.map charOf ∧ ∀ v ∈ vals, v < 32 := by
  induction l generalizing vals with
  | nil => simp [Bech32Ref.findAll] at h; subst h; simp
  | cons c cs ih =>
    simp only [Bech32Ref.findAll] at h
    split at h
    · rename_i d r hd hr
      cases h
      obtain ⟨e, hlt⟩ := ih r hr
      have hd' : indexOf c = some d := by unfold indexOf; rw [alphabet_eq_ref]; exact hd
      obtain ⟨h1, h2⟩ := indexOf_some c d hd'
      refine ⟨by simp [h2, ← e], ?_⟩
      intro x hx; rcases List.mem_cons.mp hx with rfl | hx
      · exact h1
      · exact hlt x hx
    · cases h

theorem ref_polymod_eq (hrp vals : List Nat) (hh : ∀ x ∈ hrp, x < 128) (hv : ∀ v ∈ vals, v < 32) :
    Bech32Ref.polymod (Bech32Ref.hrpExpand hrp ++ vals) = polymod (hrpExpand hrp ++ vals) := by
  rw [ref_hrpExpand]
  symm
  apply polymodFrom_eq_ref _ _ (by decide)
  intro x hx
  rcases List.mem_append.mp hx with h | h
  · exact hrpExpand_lt hrp (fun y hy => by have := hh y hy; omega) x h
  · have := hv x h; omega

theorem decode_ok2 (s hrp data : List Nat) (m : Nat) (h : decode s (some m) = .ok (hrp, data)) :
    ∃ pre post vals : List Nat, s = pre ++ 49 :: post ∧ 49 ∉ post ∧ pre ≠ [] ∧ hrp = lower pre ∧
      (∀ x ∈ pre, 47 < x ∧ x < 123) ∧ ¬ (lower s ≠ s ∧ upper s ≠ s) ∧
      lower post = vals.map charOf ∧ (∀ v ∈ vals, v < 32) ∧ 6 ≤ vals.length ∧
      data = vals.take (vals.length - 6) ∧ polymod (hrpExpand hrp ++ vals) = m := by
  unfold decode at h
  split at h
  · cases h
  · rename_i hrp' data' chk hraw
    simp only [pickM] at h
    split at h
    · rename_i hver
      simp only [Except.ok.injEq, Prod.mk.injEq] at h
      obtain ⟨rfl, rfl⟩ := h
      obtain ⟨pre, post, vals, es, hn, hpre, rfl, hr, hmix, hp, hv, hl6, rfl, rfl⟩ := decodeRaw_ok s _ _ _ hraw
      refine ⟨pre, post, vals, es, hn, hpre, rfl, hr, hmix, hp, hv, hl6, rfl, ?_⟩
      unfold verifyChecksum at hver
      rw [List.take_append_drop] at hver
      simpa using hver
    · cases h

def specConst : Bech32Ref.Encoding → Nat
  | .bech32 => 1
  | .bech32m => Bech32Ref.BECH32M_CONST

theorem charOf_range : ∀ d, d < 32 → 48 ≤ charOf d ∧ charOf d ≤ 122 := by decide +kernel

theorem char_range_of_lower (c e : Nat) (h : lowerC c = e) (he : 48 ≤ e ∧ e ≤ 122) : 33 ≤ c ∧ c ≤ 126 := by
  unfold lowerC at h; split at h <;> omega

/-- reference acceptance computed from the parts. -/
theorem ref_decode_parts (pre post vals : List Nat) (hn : 49 ∉ post) (hpre : pre ≠ [])
    (hr : ∀ x ∈ pre, 33 ≤ x ∧ x ≤ 126) (hp : lower post = vals.map charOf) (hv : ∀ v ∈ vals, v < 32)
    (hl : 6 ≤ vals.length) (hmix : ¬ (lower (pre ++ 49 :: post) ≠ pre ++ 49 :: post ∧ upper (pre ++ 49 :: post) ≠ pre ++ 49 :: post))
    (h90 : (pre ++ 49 :: post).length ≤ 90) :
    Bech32Ref.decode (pre ++ 49 :: post) =
      (Bech32Ref.verifyChecksum (lower pre) vals).map fun spec => (lower pre, vals.take (vals.length - 6), spec) := by
  have hvl : vals.length = post.length := by
    have := congrArg List.length hp; simpa [lower] using this.symm
  have hchars : (pre ++ 49 :: post).any (fun x => decide (x < 33) || decide (x > 126)) = false := by
    rw [List.any_eq_false]
    intro x hx
    have : 33 ≤ x ∧ x ≤ 126 := by
      rcases List.mem_append.mp hx with h | h
      · exact hr x h
      · rcases List.mem_cons.mp h with rfl | h
        · omega
        · have hm : lowerC x ∈ lower post := List.mem_map.mpr ⟨x, h, rfl⟩
          rw [hp] at hm
          obtain ⟨d, hd, e⟩ := List.mem_map.mp hm
          exact char_range_of_lower x _ e.symm (charOf_range d (hv d hd))
    simp; omega
  have hlow : (pre ++ 49 :: post).map Bech32Ref.lowerC = lower pre ++ 49 :: lower post := by
    rw [ref_lowerC]; simp [lower, lowerC]
  unfold Bech32Ref.decode
  have hm2 : (decide ((pre ++ 49 :: post).map Bech32Ref.lowerC ≠ pre ++ 49 :: post) &&
      decide ((pre ++ 49 :: post).map Bech32Ref.upperC ≠ pre ++ 49 :: post)) = false := by
    rw [ref_lowerC, ref_upperC]
    have : ¬ ((pre ++ 49 :: post).map lowerC ≠ pre ++ 49 :: post ∧ (pre ++ 49 :: post).map upperC ≠ pre ++ 49 :: post) := hmix
    simpa using this
  rw [hchars, hm2]
  simp only [Bool.or_self, Bool.false_eq_true, if_false]
  rw [hlow, rfind_append 49 _ _ (not_mem_lower_49 post hn)]
  simp only
  have hpl : 0 < pre.length := List.length_pos_iff.mpr hpre
  have hlen : (lower pre ++ 49 :: lower post).length = (pre ++ 49 :: post).length := by simp [lower]
  have hlp : (lower pre).length = pre.length := by simp [lower]
  have hlq : (lower post).length = post.length := by simp [lower]
  rw [if_neg (by
    simp only [List.length_append, List.length_cons, hlp, hlq] at h90 ⊢
    omega)]
  have hd : (lower pre ++ 49 :: lower post).drop ((lower pre).length + 1) = lower post := by
    have : lower pre ++ 49 :: lower post = (lower pre ++ [49]) ++ lower post := by simp
    rw [this, List.drop_left' (by simp)]
  have ht : (lower pre ++ 49 :: lower post).take (lower pre).length = lower pre := by simp
  rw [hd, ht, hp, findAll_map vals hv]
  simp only
  cases Bech32Ref.verifyChecksum (lower pre) vals <;> rfl

theorem verify_spec (hrp vals : List Nat) (hh : ∀ x ∈ hrp, x < 128) (hv : ∀ v ∈ vals, v < 32)
    (spec : Bech32Ref.Encoding) :
    Bech32Ref.verifyChecksum hrp vals = some spec ↔ polymod (hrpExpand hrp ++ vals) = specConst spec := by
  unfold Bech32Ref.verifyChecksum
  simp only [ref_polymod_eq hrp vals hh hv]
  have hne : (1 : Nat) ≠ Bech32Ref.BECH32M_CONST := by decide
  cases spec <;> simp only [specConst]
  · constructor
    · intro h; split at h
      · assumption
      · split at h <;> cases h
    · intro h; rw [if_pos h]
  · constructor
    · intro h; split at h
      · cases h
      · split at h
        · assumption
        · cases h
    · intro h; rw [if_neg (by rw [h]; exact hne.symm), if_pos h]

theorem lower_hrp_lt (pre : List Nat) (hr : ∀ x ∈ pre, 33 ≤ x ∧ x ≤ 126) : ∀ x ∈ lower pre, x < 128 := by
  intro x hx
  simp only [lower, List.mem_map] at hx
  obtain ⟨y, hy, rfl⟩ := hx
  have := hr y hy
  unfold lowerC; split <;> omega

/-- forward: what btclib's decoder accepts under the bech32 / bech32m constant, the BIP reference accepts,
    with the same human-readable part, the same data and that encoding (strings of at most 90 characters,
    the reference's own cap). -/
theorem decode_imp_ref (s hrp data : List Nat) (spec : Bech32Ref.Encoding) (h90 : s.length ≤ 90)
    (h : decode s (some (specConst spec)) = .ok (hrp, data)) : Bech32Ref.decode s = some (hrp, data, spec) := by
  obtain ⟨pre, post, vals, rfl, hn, hpre, rfl, hr, hmix, hp, hv, hl6, rfl, hc⟩ := decode_ok2 s hrp data _ h
  have hr' : ∀ x ∈ pre, 33 ≤ x ∧ x ≤ 126 := fun x hx => by have := hr x hx; omega
  rw [ref_decode_parts pre post vals hn hpre hr' hp hv hl6 hmix h90,
    (verify_spec (lower pre) vals (lower_hrp_lt pre hr') hv spec).mpr hc]
  rfl

/-- the known finding `bech32.hrp-range` as a predicate: some character before the last separator is
    outside btclib's 48..122. -/
def hrpInBtclibRange (s : List Nat) : Prop :=
  ∀ pre post, splitLast 49 s = some (pre, post) → ∀ x ∈ pre, 47 < x ∧ x < 123

/-- converse: what the BIP reference accepts, btclib's decoder accepts with the same value and the
    constant of that encoding — EXCEPT when a human-readable-part character is outside 48..122. -/
theorem ref_imp_decode (s hrp data : List Nat) (spec : Bech32Ref.Encoding) (hrange : hrpInBtclibRange s)
    (h : Bech32Ref.decode s = some (hrp, data, spec)) :
    decode s (some (specConst spec)) = .ok (hrp, data) ∧ s.length ≤ 90 := by
  unfold Bech32Ref.decode at h
  split at h
  · cases h
  · rename_i hcond
    simp only [Bool.or_eq_true, Bool.and_eq_true, decide_eq_true_eq, not_or, not_and] at hcond
    obtain ⟨hchars, hmix0⟩ := hcond
    simp only at h
    split at h
    · cases h
    · rename_i pos hpos
      split at h
      · cases h
      · rename_i hguard
        split at h
        · cases h
        · rename_i vals hfa
          split at h
          · cases h
          · rename_i spec' hver
            simp only [Option.some.injEq, Prod.mk.injEq] at h
            obtain ⟨rfl, rfl, rfl⟩ := h
            rw [ref_lowerC] at hpos hguard hfa hver hmix0 ⊢
            rw [ref_upperC] at hmix0
            obtain ⟨a, b, el, hnb, hal⟩ := rfind_some 49 _ pos hpos
            obtain ⟨pre, r, es, ha, hb⟩ := List.map_eq_append_iff.mp el
            obtain ⟨c, post, rfl, hc, hpost⟩ := List.map_eq_cons_iff.mp hb
            have hc49 : c = 49 := (lowerC_49 c).mp hc
            subst hc49
            subst es
            have hn : 49 ∉ post := by
              intro hm; apply hnb; rw [← hpost]
              exact List.mem_map.mpr ⟨49, hm, by decide⟩
            have hlp : pre.length = pos := by rw [← hal, ← ha]; simp
            have hdrop : ((pre ++ 49 :: post).map lowerC).drop (pos + 1) = lower post := by
              have : (pre ++ 49 :: post).map lowerC = (lower pre ++ [49]) ++ lower post := by simp [lower, lowerC]
              rw [this, List.drop_left' (by simp [lower, hlp])]
            have htake : ((pre ++ 49 :: post).map lowerC).take pos = lower pre := by
              have : (pre ++ 49 :: post).map lowerC = lower pre ++ (49 :: lower post) := by simp [lower, lowerC]
              rw [this, List.take_left' (by simp [lower, hlp])]
            rw [hdrop] at hfa
            rw [htake] at hver ⊢
            obtain ⟨hp, hv⟩ := findAll_some _ _ hfa
            have hlen : ((pre ++ 49 :: post).map lowerC).length = (pre ++ 49 :: post).length := by simp
            rw [hlen] at hguard
            have hvl : vals.length = post.length := by
              have := congrArg List.length hp; simpa [lower] using this.symm
            simp only [List.length_append, List.length_cons] at hguard
            have hpre : pre ≠ [] := by intro e; subst e; simp at hlp; omega
            have hr := hrange pre post (splitLast_append 49 pre post hn)
            have hr' : ∀ x ∈ pre, 33 ≤ x ∧ x ≤ 126 := fun x hx => by have := hr x hx; omega
            have hmix : ¬ (lower (pre ++ 49 :: post) ≠ pre ++ 49 :: post ∧ upper (pre ++ 49 :: post) ≠ pre ++ 49 :: post) := by
              intro hh; exact hmix0 hh.1 hh.2
            refine ⟨?_, by simp only [List.length_append, List.length_cons]; omega⟩
            unfold decode
            rw [decodeRaw_parts pre post vals hn hpre hr hp hv (by omega), if_neg hmix]
            simp only [pickM]
            have hc := (verify_spec (lower pre) vals (lower_hrp_lt pre hr') hv spec').mp hver
            unfold verifyChecksum
            rw [List.take_append_drop, hc]
            simp

end Btc.Bech32
