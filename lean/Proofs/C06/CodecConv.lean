import Proofs.C06.Codec
/-! Bech32 decoder characterised; encode ∘ decode = lower; substitutions refused at the string level. -/
namespace Btc.Bech32
open Gen.Bech32

theorem splitLast_some (c : Nat) (l a b : List Nat) (h : splitLast c l = some (a, b)) :
    l = a ++ c :: b ∧ c ∉ b := by
  induction l generalizing a b with
  | nil => simp [splitLast] at h
  | cons x xs ih =>
    simp only [splitLast] at h
    split at h
    · rename_i a' b' hs
      simp only [Option.some.injEq, Prod.mk.injEq] at h
      obtain ⟨rfl, rfl⟩ := h
      obtain ⟨e, hn⟩ := ih a' b' hs
      exact ⟨by rw [e]; rfl, hn⟩
    · rename_i hs
      split at h
      · rename_i hx
        simp only [Option.some.injEq, Prod.mk.injEq] at h
        obtain ⟨rfl, rfl⟩ := h
        subst hx
        refine ⟨rfl, ?_⟩
        intro hm
        have : splitLast x xs ≠ none := by
          clear hs ih
          induction xs with
          | nil => cases hm
          | cons y ys ih2 =>
            simp only [splitLast]
            rcases List.mem_cons.mp hm with rfl | hm'
            · split <;> simp
            · have := ih2 hm'
              split
              · simp
              · rename_i hq; exact absurd hq this
        exact this hs
      · cases h

theorem alphabet_length : ALPHABET.length = 32 := rfl

theorem indexOf_some (c d : Nat) (h : indexOf c = some d) : d < 32 ∧ charOf d = c := by
  unfold indexOf List.idxOf? at h
  obtain ⟨hl, he, _⟩ := List.findIdx?_eq_some_iff_getElem.mp h
  refine ⟨by rw [alphabet_length] at hl; exact hl, ?_⟩
  unfold charOf
  rw [List.getD_eq_getElem?_getD, List.getElem?_eq_getElem hl]
  simpa using he

theorem allSome_some (l : List (Option Nat)) (vals : List Nat) (h : allSome l = some vals) :
    l = vals.map some := by
  induction l generalizing vals with
  | nil => simp [allSome] at h; subst h; rfl
  | cons x xs ih =>
    cases x with
    | none => simp [allSome] at h
    | some v =>
      simp only [allSome, Option.map_eq_some_iff] at h
      obtain ⟨r, hr, rfl⟩ := h
      rw [ih r hr]; rfl

theorem map_indexOf_some (post vals : List Nat) (h : post.map indexOf = vals.map some) :
    post = vals.map charOf ∧ ∀ v ∈ vals, v < 32 := by
  induction post generalizing vals with
  | nil => cases vals with
    | nil => simp
    | cons _ _ => simp at h
  | cons c cs ih =>
    cases vals with
    | nil => simp at h
    | cons v vs =>
      simp only [List.map_cons, List.cons.injEq] at h
      obtain ⟨h1, h2⟩ := indexOf_some c v h.1
      obtain ⟨e, hl⟩ := ih vs h.2
      refine ⟨by simp [h2, ← e], ?_⟩
      intro x hx; rcases List.mem_cons.mp hx with rfl | hx
      · exact h1
      · exact hl x hx

/-- everything `_decode` checked when it answers. -/
theorem decodeRaw_ok (s hrp data chk : List Nat) (h : decodeRaw s = .ok (hrp, data, chk)) :
    ∃ pre post vals : List Nat, s = pre ++ 49 :: post ∧ 49 ∉ post ∧ pre ≠ [] ∧ hrp = lower pre ∧
      (∀ x ∈ pre, 47 < x ∧ x < 123) ∧ ¬ (lower s ≠ s ∧ upper s ≠ s) ∧
      lower post = vals.map charOf ∧ (∀ v ∈ vals, v < 32) ∧ 6 ≤ vals.length ∧
      data = vals.take (vals.length - 6) ∧ chk = vals.drop (vals.length - 6) := by
  unfold decodeRaw at h
  split at h
  · cases h
  · rename_i pre post hs
    obtain ⟨es, hn⟩ := splitLast_some 49 s pre post hs
    split at h
    · cases h
    · rename_i hpre
      split at h
      · cases h
      · rename_i hlen
        split at h
        · cases h
        · rename_i hrange
          split at h
          · cases h
          · rename_i hmixed
            simp only at h
            split at h
            · cases h
            · cases h
            · rename_i vals hv _
              simp only [Except.ok.injEq, Prod.mk.injEq] at h
              obtain ⟨rfl, rfl, rfl⟩ := h
              obtain ⟨e, hlt⟩ := map_indexOf_some _ _ (allSome_some _ _ hv)
              have hvl : vals.length = post.length := by
                have := congrArg List.length e; simpa [lower] using this.symm
              refine ⟨pre, post, vals, es, hn, hpre, rfl, ?_, hmixed, e, hlt, ?_, rfl, rfl⟩
              · have hr : (pre.all fun x => decide (HRP_LO < x) && decide (x < HRP_HI)) = true := by
                  simpa using hrange
                intro x hx
                have := List.all_eq_true.mp hr x hx
                have a : HRP_LO = 47 := rfl
                have b : HRP_HI = 123 := rfl
                simp [a, b] at this
                exact this
              · have e7 : SEP_CHK_LEN = 7 := rfl
                rw [es, e7] at hlen
                simp only [List.length_append, List.length_cons] at hlen
                omega

/-- `_decode` on a string given by its parts. -/
theorem decodeRaw_parts (pre post vals : List Nat) (hn : 49 ∉ post) (hpre : pre ≠ [])
    (hr : ∀ x ∈ pre, 47 < x ∧ x < 123) (hp : lower post = vals.map charOf) (hv : ∀ v ∈ vals, v < 32)
    (hl : 6 ≤ vals.length) :
    decodeRaw (pre ++ 49 :: post) =
      if lower (pre ++ 49 :: post) ≠ pre ++ 49 :: post ∧ upper (pre ++ 49 :: post) ≠ pre ++ 49 :: post
      then .error .mixedCase
      else .ok (lower pre, vals.take (vals.length - 6), vals.drop (vals.length - 6)) := by
  unfold decodeRaw
  rw [splitLast_append 49 pre post hn]
  simp only
  rw [if_neg hpre]
  have hvl : vals.length = post.length := by
    have := congrArg List.length hp; simpa [lower] using this.symm
  have e7 : SEP_CHK_LEN = 7 := rfl
  rw [if_neg (by simp only [List.length_append, List.length_cons, e7]; omega)]
  have hrange : (pre.all fun x => decide (HRP_LO < x) && decide (x < HRP_HI)) = true := by
    rw [List.all_eq_true]; intro x hx
    have := hr x hx
    have a : HRP_LO = 47 := rfl
    have b : HRP_HI = 123 := rfl
    simp [a, b, this.1, this.2]
  rw [hrange]
  simp only [Bool.not_true, Bool.false_eq_true, if_false]
  split
  · rfl
  · rw [hp, index_map_charOf vals hv, ← List.map_drop, allSome_map_some, allSome_map_some]

theorem len6 {l : List Nat} (h : l.length = 6) : ∃ a b c d e f, l = [a, b, c, d, e, f] := by
  match l, h with
  | [a, b, c, d, e, f], _ => exact ⟨a, b, c, d, e, f, rfl⟩

theorem chk6_polymodFrom_zero (chk : List Nat) (hl : chk.length = 6) (hv : ∀ v ∈ chk, v < 32) :
    chk6 (polymodFrom 0 chk) = chk := by
  obtain ⟨d0, d1, d2, d3, d4, d5, rfl⟩ := len6 hl
  simp only [List.mem_cons, List.not_mem_nil, or_false, forall_eq_or_imp, forall_eq] at hv
  obtain ⟨h0, h1, h2, h3, h4, h5⟩ := hv
  simp only [polymodFrom, List.foldl_cons, List.foldl_nil]
  rw [step_small 0 d0 (by omega) h0]
  rw [step_small (0 * 32 + d0) d1 (by omega) h1]
  rw [step_small ((0 * 32 + d0) * 32 + d1) d2 (by omega) h2]
  rw [step_small (((0 * 32 + d0) * 32 + d1) * 32 + d2) d3 (by omega) h3]
  rw [step_small ((((0 * 32 + d0) * 32 + d1) * 32 + d2) * 32 + d3) d4 (by omega) h4]
  rw [step_small (((((0 * 32 + d0) * 32 + d1) * 32 + d2) * 32 + d3) * 32 + d4) d5 (by omega) h5]
  simp only [chk6, List.map_cons, List.map_nil, and31, Nat.shiftRight_eq_div_pow, Nat.sub_zero, Nat.reduceSub,
    Nat.reduceMul, Nat.reducePow, Nat.sub_self, Nat.mul_zero, Nat.pow_zero, Nat.div_one]
  congr 1; · omega
  congr 1; · omega
  congr 1; · omega
  congr 1; · omega
  congr 1; · omega
  congr 1; omega

/-- the checksum that verifies is the one `_create_checksum` writes (no second valid checksum). -/
theorem checksum_unique (X chk : List Nat) (m : Nat) (hX : ∀ x ∈ X, x < 2 ^ 30) (hl : chk.length = 6)
    (hv : ∀ v ∈ chk, v < 32) (h : polymod (X ++ chk) = m) :
    chk6 (polymod (X ++ [0, 0, 0, 0, 0, 0]) ^^^ m) = chk := by
  unfold polymod polymodFrom at h ⊢
  rw [List.foldl_append] at h ⊢
  have hc : polymodFrom POLY_INIT X < 2 ^ 30 := polymodFrom_lt X _ (by decide) hX
  unfold polymodFrom at hc
  generalize List.foldl polymodStep POLY_INIT X = c at hc h
  have z6 : ∀ v ∈ [0, 0, 0, 0, 0, 0], v < 2 ^ 30 := by decide
  have e1 := polymodFrom_xor [0, 0, 0, 0, 0, 0] 0 c (by decide) hc z6
  have e2 := polymodFrom_xor chk 0 c (by decide) hc (fun v hv' => by have := hv v hv'; omega)
  rw [Nat.zero_xor] at e1 e2
  have z0 : polymodFrom 0 [0, 0, 0, 0, 0, 0] = 0 := by decide
  rw [z0, Nat.zero_xor] at e1
  simp only [List.length_cons, List.length_nil] at e1
  rw [hl] at e2
  unfold polymodFrom at e1 e2
  rw [e1]
  rw [e2] at h
  have : shiftK 6 c ^^^ m = polymodFrom 0 chk := by
    rw [← h]
    unfold polymodFrom
    generalize List.foldl polymodStep 0 chk = V
    generalize shiftK 6 c = P
    rw [Nat.xor_comm V P, ← Nat.xor_assoc, Nat.xor_self, Nat.zero_xor]
  rw [this]
  exact chk6_polymodFrom_zero chk hl hv

theorem lower_append (a b : List Nat) : lower (a ++ b) = lower a ++ lower b := by simp [lower]

theorem lower_lt (l : List Nat) (h : ∀ x ∈ l, x < 123) : ∀ x ∈ lower l, x < 128 := by
  intro x hx
  simp only [lower, List.mem_map] at hx
  obtain ⟨y, hy, rfl⟩ := hx
  have := h y hy
  unfold lowerC; split <;> omega

/-- T2 (encode ∘ decode): whatever `bech32.decode` accepts re-encodes, with the same `m`, to the lower-cased
    string: one spelling per (hrp, data), up to the case of the whole string. -/
theorem encode_decode (s hrp data : List Nat) (m : Option Nat) (h : decode s m = .ok (hrp, data)) :
    encodeNat hrp data m = .ok (lower s) := by
  unfold decode at h
  split at h
  · cases h
  · rename_i hrp' data' chk hraw
    split at h
    · cases h
    · rename_i mm hm
      split at h
      · rename_i hver
        simp only [Except.ok.injEq, Prod.mk.injEq] at h
        obtain ⟨rfl, rfl⟩ := h
        obtain ⟨pre, post, vals, es, hn, hpre, rfl, hr, _, hp, hv, hl6, rfl, rfl⟩ := decodeRaw_ok s _ _ _ hraw
        have hdl : ∀ d ∈ vals.take (vals.length - 6), d < 32 := fun d hd => hv d (List.mem_of_mem_take hd)
        have hcl : ∀ d ∈ vals.drop (vals.length - 6), d < 32 := fun d hd => hv d (List.mem_of_mem_drop hd)
        have hlow : ∀ x ∈ lower pre, x < 2 ^ 30 := fun x hx => by
          have := lower_lt pre (fun y hy => (hr y hy).2) x hx; omega
        have hX : ∀ x ∈ hrpExpand (lower pre) ++ vals.take (vals.length - 6), x < 2 ^ 30 := by
          intro x hx; rcases List.mem_append.mp hx with h | h
          · exact hrpExpand_lt _ hlow x h
          · have := hdl x h; omega
        have hcs : createChecksum (lower pre) (vals.take (vals.length - 6)) mm = vals.drop (vals.length - 6) := by
          rw [createChecksum_eq]
          apply checksum_unique _ _ _ hX (by simp; omega) hcl
          unfold verifyChecksum at hver
          rw [← List.append_assoc] at hver
          simpa using hver
        unfold encodeNat
        have : (vals.take (vals.length - 6)).all (· < 32) = true := by
          rw [List.all_eq_true]; intro x hx; simpa using hdl x hx
        rw [this, hm]
        simp only [Bool.not_true, Bool.false_eq_true, if_false]
        rw [hcs, List.take_append_drop]
        have hout : lower pre ++ [49] ++ vals.map (ALPHABET.getD · 0) = lower s := by
          rw [es, lower_append]
          show _ = lower pre ++ lower (49 :: post)
          have : lower (49 :: post) = 49 :: lower post := by simp [lower, lowerC]
          rw [this, hp]; simp [charOf]
        rw [hout]
        rw [if_pos]
        rw [← hout, List.all_eq_true]
        intro x hx
        simp only [List.mem_append, List.mem_cons, List.not_mem_nil, or_false, List.mem_map] at hx
        rcases hx with (hx | rfl) | ⟨v, hv', rfl⟩
        · have := lower_lt pre (fun y hy => (hr y hy).2) x hx; simpa using this
        · decide
        · have := (charOf_facts v (hv v hv')).2.2.2
          simpa [charOf] using this
      · cases h

/-! ### substitutions at the string level -/
theorem decode_ok (s hrp data : List Nat) (m : Option Nat) (h : decode s m = .ok (hrp, data)) :
    ∃ pre post vals : List Nat, ∃ mm, s = pre ++ 49 :: post ∧ 49 ∉ post ∧ hrp = lower pre ∧
      (∀ x ∈ pre, 47 < x ∧ x < 123) ∧ lower post = vals.map charOf ∧ (∀ v ∈ vals, v < 32) ∧ 6 ≤ vals.length ∧
      data = vals.take (vals.length - 6) ∧ pickM m data = .ok mm ∧ polymod (hrpExpand hrp ++ vals) = mm := by
  unfold decode at h
  split at h
  · cases h
  · rename_i hrp' data' chk hraw
    split at h
    · cases h
    · rename_i mm hm
      split at h
      · rename_i hver
        simp only [Except.ok.injEq, Prod.mk.injEq] at h
        obtain ⟨rfl, rfl⟩ := h
        obtain ⟨pre, post, vals, es, hn, _, rfl, hr, _, hp, hv, hl6, rfl, rfl⟩ := decodeRaw_ok s _ _ _ hraw
        refine ⟨pre, post, vals, mm, es, hn, rfl, hr, hp, hv, hl6, rfl, hm, ?_⟩
        unfold verifyChecksum at hver
        rw [List.take_append_drop] at hver
        simpa using hver
      · cases h

theorem split_unique (pre pre' post post' : List Nat) (h : pre ++ 49 :: post = pre' ++ 49 :: post')
    (h1 : 49 ∉ post) (h2 : 49 ∉ post') : pre = pre' ∧ post = post' := by
  have a := splitLast_append 49 pre post h1
  have b := splitLast_append 49 pre' post' h2
  rw [h, b] at a
  simp only [Option.some.injEq, Prod.mk.injEq] at a
  exact ⟨a.1.symm, a.2.symm⟩

theorem map_charOf_inj (l l' : List Nat) (h1 : ∀ v ∈ l, v < 32) (h2 : ∀ v ∈ l', v < 32)
    (h : l.map charOf = l'.map charOf) : l = l' := by
  have := congrArg (List.map indexOf) h
  rw [index_map_charOf l h1, index_map_charOf l' h2] at this
  clear h h1 h2
  induction l generalizing l' with
  | nil => cases l' with
    | nil => rfl
    | cons _ _ => simp at this
  | cons x xs ih =>
    cases l' with
    | nil => simp at this
    | cons y ys =>
      simp only [List.map_cons, List.cons.injEq, Option.some.injEq] at this
      rw [this.1, ih ys this.2]

/-- the values read from `a ++ x :: b` split along the same positions. -/
theorem vals_split (a b vals : List Nat) (x : Nat) (h : lower (a ++ x :: b) = vals.map charOf) :
    ∃ va v vb, vals = va ++ v :: vb ∧ lower a = va.map charOf ∧ lowerC x = charOf v ∧ lower b = vb.map charOf := by
  rw [lower_append] at h
  obtain ⟨va, r, rfl, h1, h2⟩ := List.map_eq_append_iff.mp h.symm
  have : lower (x :: b) = lowerC x :: lower b := rfl
  rw [this] at h2
  obtain ⟨v, vb, rfl, h3, h4⟩ := List.map_eq_cons_iff.mp h2
  exact ⟨va, v, vb, rfl, h1.symm, h3.symm, h4.symm⟩

theorem single_sub_diff (pre post : List Nat) (v v' : Nat) (hpost : ∀ x ∈ post, x < 2 ^ 30)
    (hv : v < 2 ^ 30) (hv' : v' < 2 ^ 30) :
    polymod (pre ++ v' :: post) = polymod (pre ++ v :: post) ^^^ shiftK post.length (v ^^^ v') := by
  unfold polymod polymodFrom
  rw [List.foldl_append, List.foldl_cons, List.foldl_append, List.foldl_cons]
  generalize List.foldl polymodStep POLY_INIT pre = c
  have e : polymodStep c v' = polymodStep c v ^^^ (v ^^^ v') := by
    rw [step_split, step_split, Nat.xor_assoc, ← Nat.xor_assoc v, Nat.xor_self, Nat.zero_xor]
  have := polymodFrom_xor post (polymodStep c v) (v ^^^ v') (step_lt c v hv) (Nat.xor_lt_two_pow hv hv') hpost
  unfold polymodFrom at this
  rw [e, this]

/-- parts of two strings that differ in one data character, both accepted by `_decode`. -/
theorem sub_parts (pre a b : List Nat) (x x' : Nat) (h49 : 49 ∉ a ++ x :: b) (hx' : x' ≠ 49)
    (hne : lowerC x ≠ lowerC x') (hrp data hrp' data' : List Nat) (m m' : Option Nat)
    (h1 : decode (pre ++ 49 :: (a ++ x :: b)) m = .ok (hrp, data))
    (h2 : decode (pre ++ 49 :: (a ++ x' :: b)) m' = .ok (hrp', data')) :
    ∃ va vb v v' mm mm', v ≠ v' ∧ v < 32 ∧ v' < 32 ∧ (∀ y ∈ vb, y < 32) ∧ hrp' = hrp ∧
      va.length = a.length ∧ vb.length = b.length ∧
      data = (va ++ v :: vb).take ((va ++ v :: vb).length - 6) ∧
      data' = (va ++ v' :: vb).take ((va ++ v' :: vb).length - 6) ∧
      pickM m data = .ok mm ∧ pickM m' data' = .ok mm' ∧
      polymod (hrpExpand hrp ++ va ++ v :: vb) = mm ∧ polymod (hrpExpand hrp ++ va ++ v' :: vb) = mm' := by
  obtain ⟨p1, q1, vals1, mm, e1, n1, rfl, _, l1, hv1, _, rfl, hm1, c1⟩ := decode_ok _ _ _ _ h1
  obtain ⟨p2, q2, vals2, mm', e2, n2, rfl, _, l2, hv2, _, rfl, hm2, c2⟩ := decode_ok _ _ _ _ h2
  have h49' : 49 ∉ a ++ x' :: b := by
    intro hm
    rcases List.mem_append.mp hm with h | h
    · exact h49 (List.mem_append_left _ h)
    · rcases List.mem_cons.mp h with h | h
      · exact hx' h.symm
      · exact h49 (List.mem_append_right _ (List.mem_cons_of_mem _ h))
  obtain ⟨rfl, rfl⟩ := split_unique _ _ _ _ e1 h49 n1
  obtain ⟨rfl, rfl⟩ := split_unique _ _ _ _ e2 h49' n2
  obtain ⟨va, v, vb, rfl, a1, x1, b1⟩ := vals_split a b vals1 x l1
  obtain ⟨va', v', vb', rfl, a2, x2, b2⟩ := vals_split a b vals2 x' l2
  have hva : va = va' := map_charOf_inj _ _ (fun y hy => hv1 y (by simp [hy])) (fun y hy => hv2 y (by simp [hy]))
    (a1.symm.trans a2)
  have hvb : vb = vb' := map_charOf_inj _ _ (fun y hy => hv1 y (by simp [hy])) (fun y hy => hv2 y (by simp [hy]))
    (b1.symm.trans b2)
  subst hva hvb
  refine ⟨va, vb, v, v', mm, mm', ?_, hv1 v (by simp), hv2 v' (by simp), fun y hy => hv1 y (by simp [hy]), rfl,
    ?_, ?_, rfl, rfl, hm1, hm2, by simpa [List.append_assoc] using c1, by simpa [List.append_assoc] using c2⟩
  · intro e; subst e; exact hne (x1.trans x2.symm)
  · have := congrArg List.length a1; simpa [lower] using this.symm
  · have := congrArg List.length b1; simpa [lower] using this.symm

/-- T3 at the string level, explicit constant: changing ONE character after the separator of an accepted
    string (to anything but a separator or its own case variant) gives a string `decode` refuses. -/
theorem substitution_refused (pre a b : List Nat) (x x' m : Nat) (h49 : 49 ∉ a ++ x :: b) (hx' : x' ≠ 49)
    (hne : lowerC x ≠ lowerC x') (r : List Nat × List Nat)
    (h1 : decode (pre ++ 49 :: (a ++ x :: b)) (some m) = .ok r) :
    ∀ r', decode (pre ++ 49 :: (a ++ x' :: b)) (some m) ≠ .ok r' := by
  intro r' h2
  obtain ⟨hrp, data⟩ := r
  obtain ⟨hrp', data'⟩ := r'
  obtain ⟨va, vb, v, v', mm, mm', hvv, hv, hv', hvb, _, _, _, _, _, hm1, hm2, c1, c2⟩ :=
    sub_parts pre a b x x' h49 hx' hne _ _ _ _ _ _ h1 h2
  simp only [pickM, Except.ok.injEq] at hm1 hm2
  subst hm1 hm2
  exact hvv (single_substitution _ vb v v' (fun y hy => by have := hvb y hy; omega) (by omega) (by omega)
    (c1.trans c2.symm))

end Btc.Bech32
