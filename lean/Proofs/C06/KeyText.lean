import Model.C06.KeyText
import Proofs.C06.Address
import Proofs.C05.Misc
/-! WIF and extended-key text: payload layouts round-trip through the Base58Check envelope. -/
namespace Btc.Base58
open Gen.Base58 Btc

/-- a required size that is the size of the payload changes nothing. -/
theorem decode_some (H : Bytes → Bytes) (s : List Nat) (v : Bytes) (h : decode H s none = .ok v) :
    decode H s (some v.length) = .ok v := by
  unfold decode at h ⊢
  split at h
  · cases h
  · rename_i hc
    rw [if_neg hc]
    split at h
    · cases h
    · rename_i r hr
      simp only at h ⊢
      split at h
      · cases h
      · rename_i hlen
        rw [if_neg hlen]
        split at h
        · cases h
        · rename_i hchk
          rw [if_neg hchk]
          simp only [Except.ok.injEq] at h
          simp only [h, if_true]

/-- sharp length bound: `k` characters are enough when 256^(bytes left) ≤ 58^(characters left). -/
theorem b58encode_len_sharp (v : Bytes) (k : Nat)
    (hk : ∀ j, j ≤ v.length → j ≤ k ∧ 256 ^ (v.length - j) ≤ 58 ^ (k - j)) (hv : 0 < k) :
    (b58encode v).length ≤ k := by
  obtain ⟨hd, hle⟩ := strip_decomp (0 : UInt8) v
  unfold b58encode
  generalize stripLeading (0 : UInt8) v = w at hd hle
  obtain ⟨h1, h2⟩ := hk (v.length - w.length) (by omega)
  simp only [List.length_append, List.length_replicate]
  split
  · simp; omega
  · rename_i hw
    have hpos : w ≠ [] := by simpa using hw
    have : 0 < w.length := List.length_pos_iff.mpr hpos
    simp only [List.length_map]
    unfold digitsOfInt
    by_cases h0 : ofBE w = 0
    · rw [h0, digitsOfIntC_zero]
      simp only [List.length_cons, List.length_nil]
      have : v.length - (v.length - w.length) = w.length := by omega
      rw [this] at h2
      have : k - (v.length - w.length) ≠ 0 := by
        intro hz; rw [hz] at h2
        have := Nat.one_lt_pow (n := w.length) (a := 256) (by omega) (by omega)
        omega
      omega
    · rw [digitsOfIntC_eq CHUNK (by decide) _ (by omega), List.length_reverse]
      have : (Nat.digits 58 (ofBE w)).length ≤ k - (v.length - w.length) := by
        rw [Nat.digits_length_le_iff (by omega)]
        have e : v.length - (v.length - w.length) = w.length := by omega
        rw [e] at h2
        exact lt_of_lt_of_le (ofBE_lt w) h2
      omega

theorem xkey_text_bound : ∀ j, j ≤ 82 → j ≤ 112 ∧ 256 ^ (82 - j) ≤ 58 ^ (112 - j) := by decide +kernel

end Btc.Base58

namespace Btc.KeyText
open Btc Gen.Net Btc.Address

theorem wif_facts : ∀ n ∈ NETWORKS, n.wif.length = 1 ∧ toNats (ofNats n.wif) = n.wif ∧
    (networkFrom (·.wif) n.wif).isSome = true := by decide +kernel

/-- payload layout (forward): prefix ‖ key ‖ optional 0x01 splits back into key and flag. -/
theorem wifSplit_payload (nSize : Nat) (pre key : Bytes) (c : Bool) (hp : pre.length = 1)
    (hk : key.length = nSize) : wifSplit nSize (wifPayload pre key c) = .ok (key, c) := by
  unfold wifSplit wifPayload
  cases c
  · simp only [Bool.false_eq_true, if_false, List.append_nil, List.length_append, hp, hk]
    rw [if_neg (by omega), if_pos (by omega)]
    rw [List.drop_append_of_le_length (by omega), List.drop_of_length_le (by omega)]; rfl
  · simp only [if_true, List.length_append, hp, hk, List.length_cons, List.length_nil]
    rw [if_pos (by omega), if_neg (by simp)]
    have : (pre ++ key ++ [1]).drop 1 = key ++ [1] := by
      rw [List.append_assoc, List.drop_append_of_le_length (by omega), List.drop_of_length_le (by omega)]; rfl
    rw [this, List.take_append_of_le_length (by omega), List.take_of_length_le (by omega)]

/-- payload layout (converse): an accepted payload is prefix ‖ key ‖ flag, nothing else. -/
theorem wifSplit_canonical (nSize : Nat) (p key : Bytes) (c : Bool) (h : wifSplit nSize p = .ok (key, c)) :
    p = wifPayload (p.take 1) key c ∧ key.length = nSize ∧ (p.take 1).length = 1 := by
  unfold wifSplit at h
  split at h
  · rename_i hl
    split at h
    · cases h
    · rename_i hf
      simp only [Except.ok.injEq, Prod.mk.injEq] at h
      obtain ⟨rfl, rfl⟩ := h
      have hlast : p.getLast? = some 1 := by simpa using hf
      obtain ⟨q, hq⟩ : ∃ q, p = q ++ [1] := by
        have hne : p ≠ [] := by intro e; rw [e] at hl; simp at hl
        refine ⟨p.dropLast, ?_⟩
        have := List.dropLast_append_getLast hne
        rw [List.getLast?_eq_some_getLast hne] at hlast
        simp only [Option.some.injEq] at hlast
        rw [← hlast]; exact this.symm
      subst hq
      simp only [List.length_append, List.length_cons, List.length_nil] at hl
      have a : (q ++ [1]).take 1 = q.take 1 := List.take_append_of_le_length (by omega)
      have b : ((q ++ [1]).drop 1).take nSize = q.drop 1 := by
        rw [List.drop_append_of_le_length (by omega), List.take_append_of_le_length (by simp; omega),
          List.take_of_length_le (by simp; omega)]
      refine ⟨?_, by rw [b]; simp; omega, by rw [a]; simp; omega⟩
      unfold wifPayload
      rw [a, b, if_pos rfl, List.take_append_drop]
  · split at h
    · rename_i hl
      simp only [Except.ok.injEq, Prod.mk.injEq] at h
      obtain ⟨rfl, rfl⟩ := h
      refine ⟨?_, by rw [List.length_drop]; omega, by rw [List.length_take]; omega⟩
      show p = p.take 1 ++ p.drop 1 ++ []
      rw [List.append_nil, List.take_append_drop]
    · cases h

/-- T6 (WIF round trip): for every network of the table, every key `0 < q < n` that fits `nSize ≤ 50` bytes
    and both compression flags, the WIF text decodes to the same key, the same flag, and the first network
    sharing the version byte. -/
theorem wif_roundtrip (H : Bytes → Bytes) (hH : ∀ x, 4 ≤ (H x).length) (net : Network) (hn : net ∈ NETWORKS)
    (nSize n q : Nat) (c : Bool) (hs : nSize ≤ 50) (hq : 0 < q ∧ q < n) (hfit : q < 256 ^ nSize) :
    ∃ m, networkFrom (·.wif) net.wif = some m ∧
      wifDecode H nSize n (wifEncode H net nSize q c) = .ok (q, m.name, c) := by
  obtain ⟨l1, t1, f1⟩ := wif_facts net hn
  obtain ⟨m, hm⟩ := Option.isSome_iff_exists.mp f1
  refine ⟨m, hm, ?_⟩
  have hpl : (ofNats net.wif).length = 1 := by simp [ofNats, l1]
  have hkl : (beBytes nSize q).length = nSize := by
    have : ∀ len x, (leBytes len x).length = len := by
      intro len; induction len with
      | zero => intro x; rfl
      | succ k ih => intro x; simp [leBytes, ih]
    simp [beBytes, this]
  have hplen : (wifPayload (ofNats net.wif) (beBytes nSize q) c).length ≤ nSize + 2 := by
    unfold wifPayload; cases c <;> simp [hpl, hkl] <;> omega
  have hcap : (wifEncode H net nSize q c).length ≤ Gen.Base58.MAX_LENGTH := by
    have hm' : Gen.Base58.MAX_LENGTH = 112 := rfl
    have hc : Gen.Base58.CHECKSUM_LEN = 4 := rfl
    unfold wifEncode Base58.encode
    have := Base58.b58encode_len (wifPayload (ofNats net.wif) (beBytes nSize q) c ++
      (H (wifPayload (ofNats net.wif) (beBytes nSize q) c)).take Gen.Base58.CHECKSUM_LEN)
    simp only [hc] at this ⊢
    simp only [List.length_append, List.length_take] at this
    omega
  have hstrip : strip (wifEncode H net nSize q c) = wifEncode H net nSize q c :=
    strip_id _ (fun ch hch => alphabet_not_space ch (Base58.b58encode_chars _ ch hch))
  unfold wifDecode
  rw [hstrip]
  unfold wifEncode at hcap ⊢
  rw [Base58.decode_encode H hH _ hcap]
  simp only
  have ht : toNats ((wifPayload (ofNats net.wif) (beBytes nSize q) c).take 1) = net.wif := by
    unfold wifPayload
    rw [List.append_assoc, List.take_append_of_le_length (by omega), List.take_of_length_le (by omega), t1]
  rw [ht, hm]
  simp only
  rw [wifSplit_payload nSize _ _ c hpl hkl]
  simp only [ofBE_beBytes, Nat.mod_eq_of_lt hfit, hq, and_self, if_true]

/-- T6 (extended key round trip): every well-formed 78-byte record (C05's `xkey` codec) is written as a
    Base58Check text within the 112-character cap and reads back field by field. -/
theorem xkey_roundtrip (H : Bytes → Bytes) (hH : ∀ x, (H x).length = 32) (k : Wire.XKey) (hv : Wire.xkey.valid k) :
    xkeyDecode H (xkeyEncode H k) = .ok k ∧ (xkeyEncode H k).length ≤ Gen.Base58.MAX_LENGTH := by
  have hl := Wire.xkey_length k hv
  have hcap : (xkeyEncode H k).length ≤ Gen.Base58.MAX_LENGTH := by
    unfold xkeyEncode Base58.encode
    apply Base58.b58encode_len_sharp _ 112 _ (by omega)
    have : (Wire.xkey.ser k ++ (H (Wire.xkey.ser k)).take Gen.Base58.CHECKSUM_LEN).length = 82 := by
      have hc : Gen.Base58.CHECKSUM_LEN = 4 := rfl
      simp [hl, hH, hc]
    rw [this]; exact Base58.xkey_text_bound
  refine ⟨?_, hcap⟩
  have hstrip : strip (xkeyEncode H k) = xkeyEncode H k :=
    strip_id _ (fun ch hch => alphabet_not_space ch (Base58.b58encode_chars _ ch hch))
  unfold xkeyDecode
  rw [hstrip]
  unfold xkeyEncode at hcap ⊢
  have h1 := Base58.decode_some H _ _ (Base58.decode_encode H (fun x => by rw [hH]; omega) _ hcap)
  rw [hl] at h1
  have : Wire.XKEY_LENGTH = 78 := rfl
  rw [this, h1]
  simp only
  rw [Wire.Lawful.parseAll_ser Wire.lawful_xkey k hv]

end Btc.KeyText
