import Proofs.C06.B58Head
import Proofs.C06.CodecConv
import Proofs.C06.RegroupConv
/-! Script ↔ address: `script_pub_key.address` and `ScriptPubKey.from_address` are inverse maps on every
    address-bearing script type (p2pkh, p2sh, p2wpkh, p2wsh, p2tr, future witness versions). -/
namespace Btc.Address
open Gen.Net Gen.Segwit Btc

/-! ### which reader `from_address` picks -/

/-- no network's hrp starts with the lower-cased character `c`. -/
def hrpHeadFree (c : Nat) : Bool := NETWORKS.all fun n => n.hrp.head? != some (Bech32.lowerC c)

theorem not_prefixed_of_head (a rest : List Nat) (c : Nat) (ha : strip a = c :: rest) (hc : hrpHeadFree c = true) :
    isSegwitPrefixed a = false := by
  unfold isSegwitPrefixed
  simp only [ha, Bech32.lower, List.map_cons]
  rw [List.any_eq_false]
  intro n hn
  have h1 := List.all_eq_true.mp hc n hn
  obtain ⟨hne, _⟩ := hrp_facts n hn
  cases hh : n.hrp with
  | nil => exact absurd hh hne
  | cons h hs =>
    rw [hh] at h1
    simp only [List.head?_cons, bne_iff_ne, ne_eq, Option.some.injEq] at h1
    simp [List.isPrefixOf, h1]

theorem prefixed_of_hrp (n : Network) (hn : n ∈ NETWORKS) (a rest : List Nat)
    (ha : Bech32.lower (strip a) = n.hrp ++ [49] ++ rest) : isSegwitPrefixed a = true := by
  unfold isSegwitPrefixed
  simp only [ha]
  rw [List.any_eq_true]
  refine ⟨n, hn, ?_⟩
  rw [List.isPrefixOf_iff_prefix]
  exact List.prefix_append _ _

/-- leading Base58 digit of prefix ‖ 24 bytes, per version byte `p`: `p = 0` gives `1`; otherwise the string has
    `k+1` digits for a `k` in {33, 34} and its first digit lies in a range whose characters start no hrp. -/
def leadOk (p : Nat) : Bool :=
  p == 0 || [33, 34].any fun k => decide (58 ^ k ≤ p * 256 ^ 24) && decide ((p + 1) * 256 ^ 24 ≤ 58 ^ (k + 1)) &&
    (List.range 58).all fun d =>
      !(decide (p * 256 ^ 24 / 58 ^ k ≤ d) && decide (d ≤ ((p + 1) * 256 ^ 24 - 1) / 58 ^ k)) ||
        hrpHeadFree (Base58.charOf d)

theorem lead_table : ∀ n ∈ NETWORKS, ∀ p ∈ n.p2pkh ++ n.p2sh, p < 256 ∧ leadOk p = true ∧
    hrpHeadFree (Base58.charOf 0) = true := by decide +kernel

theorem ofNats_single (p : Nat) : ofNats [p] = [UInt8.ofNat p] := rfl

/-- a Base58Check string of version byte ‖ 20-byte hash never looks like a segwit address. -/
theorem b58_not_prefixed (H : Bytes → Bytes) (hH : ∀ x, 4 ≤ (H x).length) (n : Network) (hn : n ∈ NETWORKS)
    (pre : List Nat) (hp : pre = n.p2pkh ∨ pre = n.p2sh) (h160 : Bytes) (hl : h160.length = 20) :
    isSegwitPrefixed (Base58.encode H (ofNats pre ++ h160)) = false := by
  obtain ⟨l1, l2, _⟩ := prefix_facts n hn
  have hlen : pre.length = 1 := by rcases hp with rfl | rfl <;> assumption
  obtain ⟨p, rfl⟩ : ∃ p, pre = [p] := by
    match pre, hlen with
    | [p], _ => exact ⟨p, rfl⟩
  have hmem : p ∈ n.p2pkh ++ n.p2sh := by
    rcases hp with h | h <;> simp [← h]
  obtain ⟨hp256, hok, hz⟩ := lead_table n hn p hmem
  have hstrip : strip (Base58.encode H (ofNats [p] ++ h160)) = Base58.encode H (ofNats [p] ++ h160) :=
    strip_id _ (fun ch hch => alphabet_not_space ch (Base58.b58encode_chars _ ch hch))
  set t : Bytes := h160 ++ (H (ofNats [p] ++ h160)).take Gen.Base58.CHECKSUM_LEN with ht
  have htl : t.length = 24 := by
    have hc : Gen.Base58.CHECKSUM_LEN = 4 := rfl
    have := hH (ofNats [p] ++ h160)
    simp [ht, hl, hc]; omega
  have henc : Base58.encode H (ofNats [p] ++ h160) = Base58.b58encode (UInt8.ofNat p :: t) := by
    simp only [Base58.encode, ht, ofNats_single, List.cons_append, List.nil_append, List.append_assoc]
  by_cases h0 : p = 0
  · subst h0
    have hh := Base58.b58encode_head_zero t
    obtain ⟨rest, hr⟩ : ∃ rest, Base58.b58encode ((0 : UInt8) :: t) = Base58.charOf 0 :: rest := by
      cases hb : Base58.b58encode ((0 : UInt8) :: t) with
      | nil => rw [hb] at hh; cases hh
      | cons c r => rw [hb] at hh; simp at hh; exact ⟨r, by rw [hh]⟩
    exact not_prefixed_of_head _ rest _ (by rw [hstrip, henc]; exact hr) hz
  · have hx : UInt8.ofNat p ≠ 0 := by
      intro e
      have := congrArg UInt8.toNat e
      simp [Nat.mod_eq_of_lt hp256] at this
      exact h0 this
    have hv : ofBE (UInt8.ofNat p :: t) = p * 256 ^ 24 + ofBE t := by
      rw [Base58.ofBE_cons, htl]; simp [Nat.mod_eq_of_lt hp256]
    have hlt : ofBE t < 256 ^ 24 := by have := ofBE_lt t; rwa [htl] at this
    simp only [leadOk, beq_iff_eq, h0, false_or, Bool.or_eq_true, List.any_cons, List.any_nil, Bool.or_false,
      Bool.and_eq_true, decide_eq_true_eq, false_or] at hok
    have key : ∀ k, 58 ^ k ≤ p * 256 ^ 24 → (p + 1) * 256 ^ 24 ≤ 58 ^ (k + 1) →
        ((List.range 58).all fun d =>
          !(decide (p * 256 ^ 24 / 58 ^ k ≤ d) && decide (d ≤ ((p + 1) * 256 ^ 24 - 1) / 58 ^ k)) ||
            hrpHeadFree (Base58.charOf d)) = true →
        isSegwitPrefixed (Base58.encode H (ofNats [p] ++ h160)) = false := by
      intro k a b c
      have hsucc : (p + 1) * 256 ^ 24 = p * 256 ^ 24 + 256 ^ 24 := by ring
      have h1 : 58 ^ k ≤ ofBE (UInt8.ofNat p :: t) := by
        rw [hv]; exact le_trans a (Nat.le_add_right _ _)
      have h2 : ofBE (UInt8.ofNat p :: t) < 58 ^ (k + 1) := by
        rw [hv]; exact lt_of_lt_of_le (by rw [hsucc]; exact Nat.add_lt_add_left hlt _) b
      have hh := Base58.b58encode_head (UInt8.ofNat p) t hx k h1 h2
      set d := ofBE (UInt8.ofNat p :: t) / 58 ^ k with hd
      have hd58 : d < 58 := by
        rw [hd, Nat.div_lt_iff_lt_mul (Nat.pow_pos (by omega))]
        rw [pow_succ] at h2; rw [Nat.mul_comm]; exact h2
      have hdlo : p * 256 ^ 24 / 58 ^ k ≤ d := Nat.div_le_div_right (by rw [hv]; exact Nat.le_add_right _ _)
      have hdhi : d ≤ ((p + 1) * 256 ^ 24 - 1) / 58 ^ k := Nat.div_le_div_right (by
        rw [hv, hsucc]
        generalize 256 ^ 24 = P at hlt ⊢
        generalize p * P = Q
        omega)
      have := List.all_eq_true.mp c d (List.mem_range.mpr hd58)
      simp only [hdlo, hdhi, decide_true, Bool.and_self, Bool.not_true, Bool.false_or] at this
      obtain ⟨rest, hr⟩ : ∃ rest, Base58.b58encode (UInt8.ofNat p :: t) = Base58.charOf d :: rest := by
        cases hb : Base58.b58encode (UInt8.ofNat p :: t) with
        | nil => rw [hb] at hh; cases hh
        | cons c r => rw [hb] at hh; simp at hh; exact ⟨r, by rw [hh]⟩
      exact not_prefixed_of_head _ rest _ (by rw [hstrip, henc]; exact hr) this
    rcases hok with ⟨⟨a, b⟩, c⟩ | ⟨⟨a, b⟩, c⟩
    · exact key 33 a b c
    · exact key 34 a b c

/-! ### the two script shapes `from_address` builds, and their classification -/

def witnessScript (ver : Nat) (prog : Bytes) : Bytes := opInt ver :: UInt8.ofNat prog.length :: prog

def h160Script : Kind → Bytes → Bytes
  | .p2sh, h => [0xa9, 0x14] ++ h ++ [0x87]
  | _, h => [0x76, 0xa9, 0x14] ++ h ++ [0x88, 0xac]

def witnessKind (ver n : Nat) : Kind :=
  if ver = 0 ∧ n = 20 then .p2wpkh else if ver = 0 ∧ n = 32 then .p2wsh
  else if ver = 1 ∧ n = 32 then .p2tr else .witnessUnknown

theorem typeAndPayload_cons2 (a b : UInt8) (prog : Bytes) (h76 : a ≠ 0x76) (ha9 : a ≠ 0xa9) :
    typeAndPayload (a :: b :: prog) =
      if prog.length = 20 ∧ a = 0 ∧ b = 0x14 then (.p2wpkh, prog)
      else if prog.length = 32 ∧ a = 0 ∧ b = 0x20 then (.p2wsh, prog)
      else if prog.length = 32 ∧ a = 0x51 ∧ b = 0x20 then (.p2tr, prog)
      else if isSegwit (a :: b :: prog) = true ∧ a ≠ 0 then (.witnessUnknown, prog)
      else (.other, a :: b :: prog) := by
  unfold typeAndPayload
  simp [h76, ha9]

theorem opInt_facts : ∀ ver, ver ≤ 16 → opInt ver ≠ 0x76 ∧ opInt ver ≠ 0xa9 ∧ (opInt ver = 0 ↔ ver = 0) ∧
    (opInt ver = 0x51 ↔ ver = 1) ∧
    (ver ≠ 0 → (0x51 ≤ opInt ver ∧ opInt ver ≤ 0x60) ∧ (opInt ver).toNat = 0x50 + ver) := by decide

theorem lenByte_facts : ∀ n, n ≤ 40 → (UInt8.ofNat n = 0x14 ↔ n = 20) ∧ (UInt8.ofNat n = 0x20 ↔ n = 32) ∧
    (UInt8.ofNat n).toNat = n ∧ (2 ≤ n → (2 : UInt8) ≤ UInt8.ofNat n ∧ UInt8.ofNat n ≤ 40) := by decide

/-- classification of the script `from_address` builds for a witness program. -/
theorem typeAndPayload_witnessScript (ver : Nat) (prog : Bytes) (hok : programOk ver prog.length = true) :
    typeAndPayload (witnessScript ver prog) = (witnessKind ver prog.length, prog) := by
  obtain ⟨hv16, hn2, hn40, hv0⟩ := (programOk_iff ver prog.length).mp hok
  obtain ⟨o1, o2, o3, o4, o5⟩ := opInt_facts ver hv16
  obtain ⟨b1, b2, b3, b4⟩ := lenByte_facts prog.length hn40
  unfold witnessScript witnessKind
  rw [typeAndPayload_cons2 _ _ _ o1 o2]
  simp only [o3, o4, b1, b2]
  by_cases hz : ver = 0
  · subst hz
    rcases hv0 rfl with h | h <;> simp [h]
  · have hseg : isSegwit (opInt ver :: UInt8.ofNat prog.length :: prog) = true := by
      obtain ⟨⟨q1, q2⟩, _⟩ := o5 hz
      obtain ⟨r1, r2⟩ := b4 hn2
      simp [isSegwit, q1, q2, r1, r2, b3]
    simp [hz, hseg]
    split <;> (simp_all; try tauto)


theorem networkNamed_mem (nm : String) (net : Network) (h : networkNamed nm = some net) : net ∈ NETWORKS :=
  List.mem_of_find?_eq_some h

theorem networkFrom_mem (f : Network → List Nat) (v : List Nat) (m : Network) (h : networkFrom f v = some m) :
    m ∈ NETWORKS ∧ f m = v := by
  refine ⟨List.mem_of_find?_eq_some h, ?_⟩
  have := List.find?_some h
  simpa using this

/-- `address` of the script `from_address` builds for a witness program is `address_from_witness`. -/
theorem address_witnessScript (H : Bytes → Bytes) (nm : String) (net : Network) (hnm : networkNamed nm = some net)
    (ver : Nat) (prog : Bytes) (hok : programOk ver prog.length = true) :
    address H (witnessScript ver prog) nm = addressFromWitness (ver : Int) prog net.hrp := by
  obtain ⟨hv16, hn2, hn40, hv0⟩ := (programOk_iff ver prog.length).mp hok
  obtain ⟨_, _, o3, o4, o5⟩ := opInt_facts ver hv16
  unfold address
  rw [typeAndPayload_witnessScript ver prog hok]
  by_cases c1 : ver = 0 ∧ prog.length = 20
  · simp [witnessKind, c1, hnm]
  · by_cases c2 : ver = 0 ∧ prog.length = 32
    · simp [witnessKind, c2, hnm]
    · by_cases c3 : ver = 1 ∧ prog.length = 32
      · simp [witnessKind, c3, hnm]
      · have hz : ver ≠ 0 := by
          intro hz; rcases hv0 hz with h | h
          · exact c1 ⟨hz, h⟩
          · exact c2 ⟨hz, h⟩
        have : (((witnessScript ver prog).headD 0).toNat : Int) - 0x50 = (ver : Int) := by
          simp only [witnessScript, List.headD_cons, (o5 hz).2]; omega
        simp only [witnessKind, if_neg c1, if_neg c2, if_neg c3, hnm, this]

theorem typeAndPayload_h160Script (kind : Kind) (hk : kind = .p2pkh ∨ kind = .p2sh) (h : Bytes) (hl : h.length = 20) :
    typeAndPayload (h160Script kind h) = (kind, h) := by
  rcases hk with rfl | rfl
  · unfold typeAndPayload h160Script
    have d : ([0x76, 0xa9, 0x14] ++ h ++ [0x88, 0xac] : Bytes).drop 23 = [0x88, 0xac] := by
      simp only [List.cons_append, List.nil_append, List.drop_succ_cons]
      rw [List.drop_append_of_le_length (by omega), List.drop_of_length_le (by omega)]; rfl
    have t : (([0x76, 0xa9, 0x14] ++ h ++ [0x88, 0xac] : Bytes).drop 3).take 20 = h := by
      simp only [List.cons_append, List.nil_append, List.drop_succ_cons, List.drop_zero]
      rw [List.take_append_of_le_length (by omega), List.take_of_length_le (by omega)]
    rw [if_pos ⟨by simp [hl], by simp, d⟩, t]
  · unfold typeAndPayload h160Script
    have d : ([0xa9, 0x14] ++ h ++ [0x87] : Bytes).drop 22 = [0x87] := by
      simp only [List.cons_append, List.nil_append, List.drop_succ_cons]
      rw [List.drop_append_of_le_length (by omega), List.drop_of_length_le (by omega)]; rfl
    have t : (([0xa9, 0x14] ++ h ++ [0x87] : Bytes).drop 2).take 20 = h := by
      simp only [List.cons_append, List.nil_append, List.drop_succ_cons, List.drop_zero]
      rw [List.take_append_of_le_length (by omega), List.take_of_length_le (by omega)]
    rw [if_neg (by simp [hl]), if_pos ⟨by simp [hl], by simp, d⟩, t]

theorem address_h160Script (H : Bytes → Bytes) (nm : String) (net : Network) (hnm : networkNamed nm = some net)
    (kind : Kind) (hk : kind = .p2pkh ∨ kind = .p2sh) (h : Bytes) (hl : h.length = 20) :
    address H (h160Script kind h) nm = addressFromH160 H kind h net := by
  unfold address
  rw [typeAndPayload_h160Script kind hk h hl]
  rcases hk with rfl | rfl <;> simp [hnm]

/-- a segwit address `address_from_witness` wrote is read by the segwit reader. -/
theorem witness_address_prefixed (n : Network) (hn : n ∈ NETWORKS) (ver : Int) (prog : Bytes) (a : List Nat)
    (h : addressFromWitness ver prog n.hrp = .ok a) : isSegwitPrefixed a = true := by
  obtain ⟨hne, hr, _, _⟩ := hrp_facts n hn
  unfold addressFromWitness at h
  split at h
  · cases h
  · split at h
    · split at h <;> cases h
    · split at h
      · cases h
      · rename_i d hd
        split at h
        · cases h
        · rename_i s hs
          cases h
          obtain ⟨L, hsL, hsl, _⟩ := Bech32.encodeNat_shape n.hrp _ none a hs
          have hnsp : ∀ c ∈ a, isSpace c = false := by
            intro c hc
            rw [hsL] at hc
            simp only [List.mem_append, List.mem_cons, List.not_mem_nil, or_false, List.mem_map] at hc
            rcases hc with (hc | rfl) | ⟨d, hd', rfl⟩
            · have := hr c hc
              simp [isSpace]; omega
            · decide
            · exact charOf_not_space d (hsl d hd')
          have hlow := Bech32.encodeNat_lower n.hrp _ none a hs (fun x hx => (hr x hx).2.2)
          exact prefixed_of_hrp n hn a (L.map Bech32.charOf) (by rw [strip_id a hnsp, hlow, hsL])

theorem toNats_ofNats (l : List Nat) (h : ∀ v ∈ l, v < 256) : toNats (ofNats l) = l := by
  induction l with
  | nil => rfl
  | cons x xs ih =>
    simp only [toNats, ofNats, List.map_cons, List.map_map] at *
    rw [ih (fun v hv => h v (List.mem_cons_of_mem _ hv))]
    have := h x (List.mem_cons_self ..)
    simp [Nat.mod_eq_of_lt this]

/-- T5 (segwit, encode ∘ decode): an address `witness_from_address` reads is, up to surrounding blanks and the
    case of the whole string, the address `address_from_witness` writes for what was read, on the network
    answered. -/
theorem witness_encode_decode (a : List Nat) (ver : Nat) (prog : Bytes) (nm : String)
    (h : witnessFromAddress a = .ok (ver, prog, nm)) :
    ∃ m, m ∈ NETWORKS ∧ m.name = nm ∧ programOk ver prog.length = true ∧
      addressFromWitness (ver : Int) prog m.hrp = .ok (Bech32.lower (strip a)) := by
  unfold witnessFromAddress at h
  simp only at h
  split at h
  · cases h
  · split at h
    · cases h
    · rename_i hrp data hdec
      split at h
      · cases h
      · rename_i v rest
        split at h
        · cases h
        · rename_i progN hconv
          split at h
          · split at h <;> cases h
          · rename_i hok
            split at h
            · cases h
            · rename_i m hm
              simp only [Except.ok.injEq, Prod.mk.injEq] at h
              obtain ⟨rfl, rfl, rfl⟩ := h
              obtain ⟨hmem, hhrp⟩ := networkFrom_mem _ _ _ hm
              obtain ⟨c1, c2, c3⟩ := BitRegroup.convert_5_8_canonical rest progN hconv
              have hok' : programOk v progN.length = true := by simpa using hok
              have hlen : (ofNats progN).length = progN.length := by simp [ofNats]
              refine ⟨m, hmem, rfl, by rw [hlen]; exact hok', ?_⟩
              have hb := programOk_bounded v progN.length hok'
              unfold addressFromWitness
              rw [if_neg (by omega)]
              simp only [Int.toNat_natCast, hlen, hok', Bool.not_true, Bool.false_eq_true, if_false,
                toNats_ofNats progN c2, c1, hhrp, Bech32.encode_decode _ _ _ _ hdec]

/-- T5 (p2pkh / p2sh, encode ∘ decode): an address `h160_from_address` reads is, up to surrounding blanks, the
    address `address_from_h160` writes for what was read, on the network answered. -/
theorem h160_encode_decode (H : Bytes → Bytes) (a : List Nat) (kind : Kind) (h160 : Bytes) (nm : String)
    (h : h160FromAddress H a = .ok (kind, h160, nm)) :
    ∃ m, m ∈ NETWORKS ∧ m.name = nm ∧ (kind = .p2pkh ∨ kind = .p2sh) ∧ h160.length = 20 ∧
      addressFromH160 H kind h160 m = .ok (strip a) := by
  unfold h160FromAddress at h
  split at h
  · cases h
  · rename_i payload hdec
    obtain ⟨henc, _, hsz⟩ := Base58.encode_decode H _ _ _ hdec
    have hl : payload.length = 21 := hsz 21 rfl
    have hpre : ofNats (toNats (payload.take 1)) = payload.take 1 := ofNats_toNats _
    have hd : (payload.drop 1).length = 20 := by simp [hl]
    simp only at h
    split at h
    · rename_i m hm
      simp only [Except.ok.injEq, Prod.mk.injEq] at h
      obtain ⟨rfl, rfl, rfl⟩ := h
      obtain ⟨hmem, hp⟩ := networkFrom_mem _ _ _ hm
      refine ⟨m, hmem, rfl, .inl rfl, hd, ?_⟩
      simp only [addressFromH160, hd, ne_eq, not_true_eq_false, if_false, hp, hpre, List.take_append_drop, henc]
    · split at h
      · rename_i m hm
        simp only [Except.ok.injEq, Prod.mk.injEq] at h
        obtain ⟨rfl, rfl, rfl⟩ := h
        obtain ⟨hmem, hp⟩ := networkFrom_mem _ _ _ hm
        refine ⟨m, hmem, rfl, .inr rfl, hd, ?_⟩
        simp only [addressFromH160, hd, ne_eq, not_true_eq_false, if_false, hp, hpre, List.take_append_drop, henc]
      · cases h

/-- every script `type_and_payload` gives an address-bearing type is one of the two script shapes
    `from_address` builds, for the payload answered. -/
theorem typeAndPayload_inv (s : Bytes) (kind : Kind) (payload : Bytes) (h : typeAndPayload s = (kind, payload))
    (hk : kind ≠ .other) :
    ((kind = .p2pkh ∨ kind = .p2sh) ∧ payload.length = 20 ∧ s = h160Script kind payload) ∨
    (∃ ver, programOk ver payload.length = true ∧ s = witnessScript ver payload) := by
  unfold typeAndPayload at h
  split at h
  · rename_i c
    obtain ⟨c1, c2, c3⟩ := c
    simp only [Prod.mk.injEq] at h
    obtain ⟨rfl, rfl⟩ := h
    left
    refine ⟨.inl rfl, by simp [c1], ?_⟩
    have e1 : s = s.take 3 ++ s.drop 3 := (List.take_append_drop 3 s).symm
    have e2 : s.drop 3 = (s.drop 3).take 20 ++ (s.drop 3).drop 20 := (List.take_append_drop 20 _).symm
    have e3 : (s.drop 3).drop 20 = s.drop 23 := by rw [List.drop_drop]
    rw [e3, c3] at e2
    conv_lhs => rw [e1, c2, e2]
    simp [h160Script]
  · split at h
    · rename_i _ c
      obtain ⟨c1, c2, c3⟩ := c
      simp only [Prod.mk.injEq] at h
      obtain ⟨rfl, rfl⟩ := h
      left
      refine ⟨.inr rfl, by simp [c1], ?_⟩
      have e1 : s = s.take 2 ++ s.drop 2 := (List.take_append_drop 2 s).symm
      have e2 : s.drop 2 = (s.drop 2).take 20 ++ (s.drop 2).drop 20 := (List.take_append_drop 20 _).symm
      have e3 : (s.drop 2).drop 20 = s.drop 22 := by rw [List.drop_drop]
      rw [e3, c3] at e2
      conv_lhs => rw [e1, c2, e2]
      simp [h160Script]
    · have wit : ∀ (x y : UInt8) (ver n : Nat), s.length = n + 2 → s.take 2 = [x, y] → opInt ver = x →
          UInt8.ofNat n = y → programOk ver n = true →
          ∃ ver, programOk ver (s.drop 2).length = true ∧ s = witnessScript ver (s.drop 2) := by
        intro x y ver n hl ht hx hy hp
        have hdl : (s.drop 2).length = n := by simp [hl]
        refine ⟨ver, by rw [hdl]; exact hp, ?_⟩
        have e1 : s = s.take 2 ++ s.drop 2 := (List.take_append_drop 2 s).symm
        conv_lhs => rw [e1, ht]
        simp [witnessScript, hdl, hx, hy]
      split at h
      · rename_i c
        simp only [Prod.mk.injEq] at h
        obtain ⟨rfl, rfl⟩ := h
        right; exact wit 0 0x14 0 20 c.1 c.2 (by decide) (by decide) (by decide)
      · split at h
        · rename_i c
          simp only [Prod.mk.injEq] at h
          obtain ⟨rfl, rfl⟩ := h
          right; exact wit 0 0x20 0 32 c.1 c.2 (by decide) (by decide) (by decide)
        · split at h
          · rename_i c
            simp only [Prod.mk.injEq] at h
            obtain ⟨rfl, rfl⟩ := h
            right; exact wit 0x51 0x20 1 32 c.1 c.2 (by decide) (by decide) (by decide)
          · split at h
            · rename_i c
              simp only [Prod.mk.injEq] at h
              obtain ⟨rfl, rfl⟩ := h
              right
              obtain ⟨cs, ch⟩ := c
              match s, cs, ch with
              | v :: l :: prog, cs, ch =>
                simp only [isSegwit, Bool.and_eq_true, Bool.or_eq_true, beq_iff_eq, decide_eq_true_eq] at cs
                obtain ⟨⟨cv, cl⟩, cp⟩ := cs
                have hv0 : v ≠ 0 := by simpa using ch
                have hvr : 0x51 ≤ v ∧ v ≤ 0x60 := by
                  rcases cv with h0 | h1
                  · exact absurd h0 hv0
                  · exact h1
                have hvn : 0x51 ≤ v.toNat ∧ v.toNat ≤ 0x60 := ⟨UInt8.le_iff_toNat_le.mp hvr.1, UInt8.le_iff_toNat_le.mp hvr.2⟩
                have hln : 2 ≤ l.toNat ∧ l.toNat ≤ 40 := ⟨UInt8.le_iff_toNat_le.mp cl.1, UInt8.le_iff_toNat_le.mp cl.2⟩
                refine wit v l (v.toNat - 0x50) l.toNat (by simp [cp]) rfl ?_ (by simp) ?_
                · have : v.toNat - 0x50 ≠ 0 := by omega
                  simp only [opInt, if_neg this]
                  have : 0x50 + (v.toNat - 0x50) = v.toNat := by omega
                  rw [this]; simp
                · rw [programOk_iff]; omega
            · simp only [Prod.mk.injEq] at h
              exact absurd h.1.symm hk

/-- T5 (script → address → script): for every network name the lookup resolves and every script
    `type_and_payload` gives an address-bearing type (p2pkh, p2sh, p2wpkh, p2wsh, p2tr, witness versions 1..16
    with any program of 2..40 bytes), `address` writes an address that `ScriptPubKey.from_address` reads back to
    exactly the same script, on the first network sharing the prefix, which has the same main/test type. -/
theorem script_address_roundtrip (H : Bytes → Bytes) (hH : ∀ x, 4 ≤ (H x).length) (nm : String) (net : Network)
    (hnm : networkNamed nm = some net) (s : Bytes) (kind : Kind) (payload : Bytes)
    (ht : typeAndPayload s = (kind, payload)) (hk : kind ≠ .other) :
    ∃ a m, address H s nm = .ok a ∧ fromAddress H a = .ok (s, m.name) ∧ m ∈ NETWORKS ∧ m.isMain = net.isMain := by
  have hn := networkNamed_mem nm net hnm
  obtain ⟨t1, t2, t3, _, _⟩ := lookup_preserves_type net hn
  rcases typeAndPayload_inv s kind payload ht hk with ⟨hkk, hl, rfl⟩ | ⟨ver, hok, rfl⟩
  · obtain ⟨a, m, h1, h2, h3⟩ := h160_roundtrip H hH net hn kind hkk payload hl
    have hnp : isSegwitPrefixed a = false := by
      have : a = Base58.encode H (ofNats (match kind with | .p2sh => net.p2sh | _ => net.p2pkh) ++ payload) := by
        rcases hkk with rfl | rfl <;> simp [addressFromH160, hl] at h1 <;> exact h1.symm
      rw [this]
      apply b58_not_prefixed H hH net hn _ _ payload hl
      rcases hkk with rfl | rfl <;> simp
    refine ⟨a, m, by rw [address_h160Script H nm net hnm kind hkk payload hl]; exact h1, ?_, ?_, ?_⟩
    · unfold fromAddress
      rw [hnp]; simp only [Bool.false_eq_true, if_false, h3]
      rcases hkk with rfl | rfl <;> rfl
    · rcases hkk with rfl | rfl
      · exact (networkFrom_mem _ _ _ h2).1
      · exact (networkFrom_mem _ _ _ h2).1
    · rcases hkk with rfl | rfl
      · exact (t2 m h2).1
      · exact (t3 m h2).1
  · obtain ⟨a, m, h1, h2, h3, _, _⟩ := witness_roundtrip net hn ver payload hok
    refine ⟨a, m, by rw [address_witnessScript H nm net hnm ver payload hok]; exact h1, ?_,
      (networkFrom_mem _ _ _ h2).1, (t1 m h2).1⟩
    unfold fromAddress
    rw [witness_address_prefixed net hn _ _ a h1]
    simp only [if_true, h3]; rfl

/-- T5 (address → script → address): whatever `ScriptPubKey.from_address` accepts, it answers a script of an
    address-bearing type and a network of the table, and `address` of that script on (any name of) that network is
    the accepted string itself up to surrounding blanks and, for segwit addresses, the case of the whole string. -/
theorem address_script_roundtrip (H : Bytes → Bytes) (a : List Nat) (s : Bytes) (nm : String)
    (h : fromAddress H a = .ok (s, nm)) :
    ∃ m, m ∈ NETWORKS ∧ m.name = nm ∧ (∃ kind payload, typeAndPayload s = (kind, payload) ∧ kind ≠ .other) ∧
      ∀ nm', networkNamed nm' = some m →
        address H s nm' = .ok (if isSegwitPrefixed a then Bech32.lower (strip a) else strip a) := by
  unfold fromAddress at h
  split at h
  · rename_i hp
    split at h
    · cases h
    · rename_i ver prog net hw
      simp only [Except.ok.injEq, Prod.mk.injEq] at h
      obtain ⟨rfl, rfl⟩ := h
      obtain ⟨m, hm, hname, hok, henc⟩ := witness_encode_decode a ver prog net hw
      refine ⟨m, hm, hname, ⟨_, _, typeAndPayload_witnessScript ver prog hok, ?_⟩, ?_⟩
      · unfold witnessKind; split
        · simp
        · split
          · simp
          · split <;> simp
      · intro nm' hnm'
        have := address_witnessScript H nm' m hnm' ver prog hok
        unfold witnessScript at this
        rw [this, henc, hp]; rfl
  · rename_i hp
    have hp' : isSegwitPrefixed a = false := by simpa using hp
    split at h
    · cases h
    · rename_i h160 net hd
      simp only [Except.ok.injEq, Prod.mk.injEq] at h
      obtain ⟨rfl, rfl⟩ := h
      obtain ⟨m, hm, hname, hkk, hl, henc⟩ := h160_encode_decode H a .p2sh h160 net hd
      refine ⟨m, hm, hname, ⟨_, _, typeAndPayload_h160Script .p2sh (.inr rfl) h160 hl, by simp⟩, ?_⟩
      intro nm' hnm'
      have := address_h160Script H nm' m hnm' .p2sh (.inr rfl) h160 hl
      unfold h160Script at this
      rw [this, henc, hp']; rfl
    · rename_i k h160 net hnk hd
      simp only [Except.ok.injEq, Prod.mk.injEq] at h
      obtain ⟨rfl, rfl⟩ := h
      obtain ⟨m, hm, hname, hkk, hl, henc⟩ := h160_encode_decode H a k h160 net hd
      have hk : k = .p2pkh := by
        rcases hkk with h | h
        · exact h
        · subst h; exact absurd rfl hnk
      subst hk
      refine ⟨m, hm, hname, ⟨_, _, typeAndPayload_h160Script .p2pkh (.inl rfl) h160 hl, by simp⟩, ?_⟩
      intro nm' hnm'
      have := address_h160Script H nm' m hnm' .p2pkh (.inl rfl) h160 hl
      unfold h160Script at this
      rw [this, henc, hp']; rfl


end Btc.Address
