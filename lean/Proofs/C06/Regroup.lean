import Model.C06.BitRegroup
/-! 8→5 (pad) then 5→8 (no pad) is the identity on byte strings of every length. Core Lean only. -/
namespace Btc.BitRegroup

def bindOut (E : List Nat) (r : Except Err (Nat × Nat × List Nat)) : Except Err (Nat × Nat × List Nat) :=
  match r with
  | .error e => .error e
  | .ok (a, b, o) => .ok (a, b, E ++ o)

theorem or_eq_add (a v k : Nat) (h : v < 2 ^ k) : (a <<< k) ||| v = a * 2 ^ k + v := by
  rw [← Nat.shiftLeft_add_eq_or_of_lt h, Nat.shiftLeft_eq]

theorem and4095 (x : Nat) : x &&& 4095 = x % 4096 := Nat.and_two_pow_sub_one_eq_mod x 12
theorem and31 (x : Nat) : x &&& 31 = x % 32 := Nat.and_two_pow_sub_one_eq_mod x 5
theorem and255 (x : Nat) : x &&& 255 = x % 256 := Nat.and_two_pow_sub_one_eq_mod x 8

theorem loop_cons (f t v : Nat) (rest : List Nat) (acc bits : Nat) (hv : v >>> f = 0) :
    loop f t (v :: rest) acc bits =
      bindOut (drain t (((acc <<< f) ||| v) &&& maxAcc f t) (bits + f + 1) (bits + f)).2
        (loop f t rest (((acc <<< f) ||| v) &&& maxAcc f t)
          (drain t (((acc <<< f) ||| v) &&& maxAcc f t) (bits + f + 1) (bits + f)).1) := by
  simp only [loop, hv, ne_eq, not_true_eq_false, if_false, bindOut]
  generalize loop f t rest _ _ = r
  cases r with
  | error e => rfl
  | ok p => obtain ⟨a, b, o⟩ := p; rfl

/-- one byte through the 8→5 loop. -/
def encOut (acc b v : Nat) : List Nat :=
  if b < 2 then [((acc * 256 + v) % 4096 / 2 ^ (b + 3)) % 32]
  else [((acc * 256 + v) % 4096 / 2 ^ (b + 3)) % 32, ((acc * 256 + v) % 4096 / 2 ^ (b - 2)) % 32]

theorem encStep (acc b v : Nat) (rest : List Nat) (hb : b < 5) (hv : v < 256) :
    loop 8 5 (v :: rest) acc b
      = bindOut (encOut acc b v) (loop 8 5 rest ((acc * 256 + v) % 4096) ((b + 8) % 5)) := by
  have h0 : v >>> 8 = 0 := by rw [Nat.shiftRight_eq_div_pow]; omega
  rw [loop_cons 8 5 v rest acc b h0, or_eq_add acc v 8 (by omega)]
  have m : maxAcc 8 5 = 4095 := by decide
  have mv : maxv 5 = 31 := by decide
  rw [m, and4095]
  have : b = 0 ∨ b = 1 ∨ b = 2 ∨ b = 3 ∨ b = 4 := by omega
  rcases this with rfl | rfl | rfl | rfl | rfl <;>
    simp [drain, encOut, mv, and31, Nat.shiftRight_eq_div_pow]

/-- one 5-bit digit through the 5→8 loop. -/
def decOut (acc b d : Nat) : List Nat :=
  if b < 3 then [] else [((acc * 32 + d) % 4096 / 2 ^ (b - 3)) % 256]

theorem decStep (acc b d : Nat) (rest : List Nat) (hb : b < 8) (hd : d < 32) :
    loop 5 8 (d :: rest) acc b
      = bindOut (decOut acc b d) (loop 5 8 rest ((acc * 32 + d) % 4096) ((b + 5) % 8)) := by
  have h0 : d >>> 5 = 0 := by rw [Nat.shiftRight_eq_div_pow]; omega
  rw [loop_cons 5 8 d rest acc b h0, or_eq_add acc d 5 (by omega)]
  have m : maxAcc 5 8 = 4095 := by decide
  have mv : maxv 8 = 255 := by decide
  rw [m, and4095]
  have : b = 0 ∨ b = 1 ∨ b = 2 ∨ b = 3 ∨ b = 4 ∨ b = 5 ∨ b = 6 ∨ b = 7 := by omega
  rcases this with rfl | rfl | rfl | rfl | rfl | rfl | rfl | rfl <;>
    simp [drain, decOut, mv, and255, Nat.shiftRight_eq_div_pow]

/-- decoder bit count that goes with encoder bit count `b1` (the decoder lags by the pending bits). -/
def b2of (b1 : Nat) : Nat := if b1 = 0 then 0 else 8 - b1
def pend (b1 x : Nat) : List Nat := if b1 = 0 then [] else [x]

/-- coupling of the two loops: `x` is the byte of which the encoder still holds `b1` low bits and the
    decoder the `8 - b1` high bits. -/
def Rel (b1 acc1 acc2 x : Nat) : Prop :=
  b1 < 5 ∧ x < 256 ∧ acc1 % 2 ^ b1 = x % 2 ^ b1 ∧ (b1 ≠ 0 → acc2 % 2 ^ (8 - b1) = x / 2 ^ b1)

theorem bindOut_bindOut (A B : List Nat) (r) : bindOut A (bindOut B r) = bindOut (A ++ B) r := by
  cases r with
  | error e => rfl
  | ok p => obtain ⟨a, b, o⟩ := p; simp [bindOut]

theorem bindOut_nil (r) : bindOut [] r = r := by
  cases r with
  | error e => rfl
  | ok p => obtain ⟨a, b, o⟩ := p; simp [bindOut]

theorem compStep (b1 acc1 acc2 x v : Nat) (hR : Rel b1 acc1 acc2 x) (hv : v < 256) :
    ∃ acc2', (∀ tail, loop 5 8 (encOut acc1 b1 v ++ tail) acc2 (b2of b1)
        = bindOut (pend b1 x ++ (if (b1 + 8) % 5 = 0 then [v] else []))
            (loop 5 8 tail acc2' (b2of ((b1 + 8) % 5)))) ∧
      Rel ((b1 + 8) % 5) ((acc1 * 256 + v) % 4096) acc2' v ∧ (∀ d ∈ encOut acc1 b1 v, d < 32) := by
  obtain ⟨hb, hx, h1, h2⟩ := hR
  have : b1 = 0 ∨ b1 = 1 ∨ b1 = 2 ∨ b1 = 3 ∨ b1 = 4 := by omega
  rcases this with rfl | rfl | rfl | rfl | rfl
  · refine ⟨(acc2 * 32 + ((acc1 * 256 + v) % 4096 / 2 ^ 3) % 32) % 4096, fun tail => ?_, ?_, ?_⟩
    · have e : encOut acc1 0 v = [((acc1 * 256 + v) % 4096 / 2 ^ 3) % 32] := by simp [encOut]
      rw [e, List.cons_append, List.nil_append]
      show loop 5 8 _ acc2 0 = bindOut [] (loop 5 8 tail _ 5)
      rw [decStep _ 0 _ _ (by omega) (by omega)]
      rfl
    · show 3 < 5 ∧ v < 256 ∧ _ % 2 ^ 3 = v % 2 ^ 3 ∧ (3 ≠ 0 → _ % 2 ^ (8 - 3) = v / 2 ^ 3)
      refine ⟨by omega, hv, by omega, fun _ => by omega⟩
    · intro d hd; simp [encOut] at hd; omega
  · have h2 : acc2 % 2 ^ (8 - 1) = x / 2 ^ 1 := h2 (by omega)
    refine ⟨(acc2 * 32 + ((acc1 * 256 + v) % 4096 / 2 ^ 4) % 32) % 4096, fun tail => ?_, ?_, ?_⟩
    · have e : encOut acc1 1 v = [((acc1 * 256 + v) % 4096 / 2 ^ 4) % 32] := by simp [encOut]
      rw [e, List.cons_append, List.nil_append]
      show loop 5 8 _ acc2 7 = bindOut [x] (loop 5 8 tail _ 4)
      rw [decStep _ 7 _ _ (by omega) (by omega)]
      have o : decOut acc2 7 (((acc1 * 256 + v) % 4096 / 2 ^ 4) % 32) = [x] := by
        simp only [decOut]; rw [if_neg (by omega)]; congr 1; omega
      rw [o]
    · show 4 < 5 ∧ v < 256 ∧ _ % 2 ^ 4 = v % 2 ^ 4 ∧ (4 ≠ 0 → _ % 2 ^ (8 - 4) = v / 2 ^ 4)
      refine ⟨by omega, hv, by omega, fun _ => by omega⟩
    · intro d hd; simp [encOut] at hd; omega
  · have h2 : acc2 % 2 ^ (8 - 2) = x / 2 ^ 2 := h2 (by omega)
    refine ⟨((acc2 * 32 + ((acc1 * 256 + v) % 4096 / 2 ^ 5) % 32) % 4096 * 32
        + ((acc1 * 256 + v) % 4096 / 2 ^ 0) % 32) % 4096, fun tail => ?_, ?_, ?_⟩
    · have e : encOut acc1 2 v = [((acc1 * 256 + v) % 4096 / 2 ^ 5) % 32, ((acc1 * 256 + v) % 4096 / 2 ^ 0) % 32] := by
        simp [encOut]
      rw [e, List.cons_append, List.cons_append, List.nil_append]
      show loop 5 8 _ acc2 6 = bindOut [x, v] (loop 5 8 tail _ 0)
      rw [decStep _ 6 _ _ (by omega) (by omega), decStep _ 3 _ _ (by omega) (by omega), bindOut_bindOut]
      have o : decOut acc2 6 (((acc1 * 256 + v) % 4096 / 2 ^ 5) % 32) ++
          decOut ((acc2 * 32 + ((acc1 * 256 + v) % 4096 / 2 ^ 5) % 32) % 4096) 3
            (((acc1 * 256 + v) % 4096 / 2 ^ 0) % 32) = [x, v] := by
        simp only [decOut]; rw [if_neg (by omega), if_neg (by omega)]
        simp only [List.cons_append, List.nil_append]
        congr 1
        · omega
        · congr 1; omega
      rw [o]
    · show 0 < 5 ∧ v < 256 ∧ _ % 2 ^ 0 = v % 2 ^ 0 ∧ (0 ≠ 0 → _ % 2 ^ (8 - 0) = v / 2 ^ 0)
      refine ⟨by omega, hv, by omega, fun h => absurd rfl h⟩
    · intro d hd; simp [encOut] at hd; omega
  · have h2 : acc2 % 2 ^ (8 - 3) = x / 2 ^ 3 := h2 (by omega)
    refine ⟨((acc2 * 32 + ((acc1 * 256 + v) % 4096 / 2 ^ 6) % 32) % 4096 * 32
        + ((acc1 * 256 + v) % 4096 / 2 ^ 1) % 32) % 4096, fun tail => ?_, ?_, ?_⟩
    · have e : encOut acc1 3 v = [((acc1 * 256 + v) % 4096 / 2 ^ 6) % 32, ((acc1 * 256 + v) % 4096 / 2 ^ 1) % 32] := by
        simp [encOut]
      rw [e, List.cons_append, List.cons_append, List.nil_append]
      show loop 5 8 _ acc2 5 = bindOut [x] (loop 5 8 tail _ 7)
      rw [decStep _ 5 _ _ (by omega) (by omega), decStep _ 2 _ _ (by omega) (by omega), bindOut_bindOut]
      have o : decOut acc2 5 (((acc1 * 256 + v) % 4096 / 2 ^ 6) % 32) ++
          decOut ((acc2 * 32 + ((acc1 * 256 + v) % 4096 / 2 ^ 6) % 32) % 4096) 2
            (((acc1 * 256 + v) % 4096 / 2 ^ 1) % 32) = [x] := by
        simp only [decOut]; rw [if_neg (by omega), if_pos (by omega)]
        simp only [List.append_nil]
        congr 1; omega
      rw [o]
    · show 1 < 5 ∧ v < 256 ∧ _ % 2 ^ 1 = v % 2 ^ 1 ∧ (1 ≠ 0 → _ % 2 ^ (8 - 1) = v / 2 ^ 1)
      refine ⟨by omega, hv, by omega, fun _ => by omega⟩
    · intro d hd; simp [encOut] at hd; omega
  · have h2 : acc2 % 2 ^ (8 - 4) = x / 2 ^ 4 := h2 (by omega)
    refine ⟨((acc2 * 32 + ((acc1 * 256 + v) % 4096 / 2 ^ 7) % 32) % 4096 * 32
        + ((acc1 * 256 + v) % 4096 / 2 ^ 2) % 32) % 4096, fun tail => ?_, ?_, ?_⟩
    · have e : encOut acc1 4 v = [((acc1 * 256 + v) % 4096 / 2 ^ 7) % 32, ((acc1 * 256 + v) % 4096 / 2 ^ 2) % 32] := by
        simp [encOut]
      rw [e, List.cons_append, List.cons_append, List.nil_append]
      show loop 5 8 _ acc2 4 = bindOut [x] (loop 5 8 tail _ 6)
      rw [decStep _ 4 _ _ (by omega) (by omega), decStep _ 1 _ _ (by omega) (by omega), bindOut_bindOut]
      have o : decOut acc2 4 (((acc1 * 256 + v) % 4096 / 2 ^ 7) % 32) ++
          decOut ((acc2 * 32 + ((acc1 * 256 + v) % 4096 / 2 ^ 7) % 32) % 4096) 1
            (((acc1 * 256 + v) % 4096 / 2 ^ 2) % 32) = [x] := by
        simp only [decOut]; rw [if_neg (by omega), if_pos (by omega)]
        simp only [List.append_nil]
        congr 1; omega
      rw [o]
    · show 2 < 5 ∧ v < 256 ∧ _ % 2 ^ 2 = v % 2 ^ 2 ∧ (2 ≠ 0 → _ % 2 ^ (8 - 2) = v / 2 ^ 2)
      refine ⟨by omega, hv, by omega, fun _ => by omega⟩
    · intro d hd; simp [encOut] at hd; omega

/-- the padding digit `convert … pad=True` appends. -/
def fin (a1 bb1 : Nat) : List Nat := if bb1 ≠ 0 then [(a1 <<< (5 - bb1)) &&& maxv 5] else []

theorem finStep (b1 acc1 acc2 x : Nat) (hR : Rel b1 acc1 acc2 x) :
    (∀ d ∈ fin acc1 b1, d < 32) ∧
    ∃ a2 bb2, loop 5 8 (fin acc1 b1) acc2 (b2of b1) = .ok (a2, bb2, pend b1 x) ∧ bb2 < 5 ∧
      (a2 <<< (8 - bb2)) &&& maxv 8 = 0 := by
  obtain ⟨hb, hx, h1, h2⟩ := hR
  have mv5 : maxv 5 = 31 := by decide
  have mv8 : maxv 8 = 255 := by decide
  have : b1 = 0 ∨ b1 = 1 ∨ b1 = 2 ∨ b1 = 3 ∨ b1 = 4 := by omega
  rcases this with rfl | rfl | rfl | rfl | rfl
  · refine ⟨by simp [fin], acc2, 0, rfl, by omega, ?_⟩
    rw [mv8, and255, Nat.shiftLeft_eq]; omega
  all_goals
    have h2 := h2 (by omega)
    simp only [fin, mv5, mv8, and31, and255, Nat.shiftLeft_eq, ne_eq, not_false_eq_true,
      if_true, Nat.reduceSub, Nat.reducePow, b2of, pend, if_false, Nat.succ_ne_zero] at h1 h2 ⊢
    refine ⟨by intro d hd; simp at hd; omega, ?_⟩
    rw [decStep _ _ _ _ (by omega) (by omega)]
    simp only [decOut, loop, bindOut, List.append_nil, Nat.reduceAdd, Nat.reduceMod, Nat.reduceSub,
      Nat.reducePow, Nat.reduceLT, if_false]
    have key : ∀ (A k E : Nat), E = x → k < 5 → (A * 2 ^ (8 - k)) % 256 = 0 →
        ∃ a2 bb2, (Except.ok (A, k, [E]) : Except Err (Nat × Nat × List Nat)) = .ok (a2, bb2, [x]) ∧ bb2 < 5 ∧
          (a2 * 2 ^ (8 - bb2)) % 256 = 0 := by
      intro A k E e1 e2 e3; subst e1; exact ⟨A, k, rfl, e2, e3⟩
    apply key
    · omega
    · omega
    · simp only [Nat.reduceSub, Nat.reducePow]; omega

theorem roundtrip_from (bytes : List Nat) (hb : ∀ v ∈ bytes, v < 256) :
    ∀ b1 acc1 acc2 x, Rel b1 acc1 acc2 x →
    ∃ a1 bb1 out, loop 8 5 bytes acc1 b1 = .ok (a1, bb1, out) ∧ (∀ d ∈ out ++ fin a1 bb1, d < 32) ∧
      ∃ a2 bb2, loop 5 8 (out ++ fin a1 bb1) acc2 (b2of b1) = .ok (a2, bb2, pend b1 x ++ bytes) ∧ bb2 < 5 ∧
        (a2 <<< (8 - bb2)) &&& maxv 8 = 0 := by
  induction bytes with
  | nil =>
    intro b1 acc1 acc2 x hR
    obtain ⟨hf, a2, bb2, h2, h3, h4⟩ := finStep b1 acc1 acc2 x hR
    exact ⟨acc1, b1, [], rfl, by simpa using hf, a2, bb2, by simpa using h2, h3, h4⟩
  | cons v rest ih =>
    intro b1 acc1 acc2 x hR
    have hv : v < 256 := hb v (List.mem_cons_self ..)
    obtain ⟨acc2', hdec, hR', hE⟩ := compStep b1 acc1 acc2 x v hR hv
    obtain ⟨a1, bb1, out', h1, hlt, a2, bb2, h2, h3, h4⟩ :=
      ih (fun y hy => hb y (List.mem_cons_of_mem _ hy)) _ _ _ _ hR'
    refine ⟨a1, bb1, encOut acc1 b1 v ++ out', ?_, ?_, a2, bb2, ?_, h3, h4⟩
    · rw [encStep acc1 b1 v rest hR.1 hv, h1]; rfl
    · intro d hd
      rw [List.append_assoc] at hd
      rcases List.mem_append.mp hd with h | h
      · exact hE d h
      · exact hlt d h
    · rw [List.append_assoc, hdec, h2]
      simp only [bindOut, List.append_assoc]
      congr 3
      have : ∀ k : Nat, (if k = 0 then [v] else []) ++ (pend k v ++ rest) = v :: rest := by
        intro k; unfold pend; by_cases hk : k = 0 <;> simp [hk]
      rw [this]

/-- T4: bytes → 5-bit groups with padding → bytes without padding is the identity, for every length. -/
theorem convert_8_5_8 (bytes : List Nat) (hb : ∀ v ∈ bytes, v < 256) :
    ∃ five, convert bytes 8 5 true = .ok five ∧ (∀ d ∈ five, d < 32) ∧
      convert five 5 8 false = .ok bytes := by
  obtain ⟨a1, bb1, out, h1, hlt, a2, bb2, h2, h3, h4⟩ :=
    roundtrip_from bytes hb 0 0 0 0 ⟨by omega, by omega, by omega, fun h => absurd rfl h⟩
  refine ⟨out ++ fin a1 bb1, ?_, hlt, ?_⟩
  · unfold convert
    rw [h1]
    simp only [if_true, fin]
    split <;> simp_all
  · unfold convert
    have : b2of 0 = 0 := rfl
    rw [this] at h2
    rw [h2]
    simp only [Bool.false_eq_true, if_false, pend, if_true, List.nil_append]
    rw [if_neg (by omega), if_neg (by simpa using h4)]

end Btc.BitRegroup
