import Model.C06.Address
/-! Network tables and witness-program sizes (generated from the source): finite facts by `decide`. -/
namespace Btc.Address
open Gen.Net Gen.Segwit

theorem lookup_mem {β} (l : List (Nat × β)) (k : Nat) (v : β) (h : l.lookup k = some v) : (k, v) ∈ l := by
  induction l with
  | nil => simp [List.lookup] at h
  | cons p ps ih =>
    obtain ⟨a, b⟩ := p
    simp only [List.lookup] at h
    split at h
    · rename_i e
      have : k = a := by simpa using e
      cases h; subst this; exact List.mem_cons_self ..
    · exact List.mem_cons_of_mem _ (ih h)

theorem sizes_bounded : ∀ p ∈ PROGRAM_SIZES, p.1 ≤ 16 ∧ ∀ x ∈ p.2, x ≤ 40 := by decide +kernel

theorem programOk_bounded (ver n : Nat) (h : programOk ver n = true) : ver ≤ 16 ∧ n ≤ 40 := by
  unfold programOk at h
  split at h
  · rename_i sizes e
    have m := sizes_bounded _ (lookup_mem _ _ _ e)
    refine ⟨m.1, m.2 n ?_⟩
    simpa using h
  · cases h

theorem programOk_table : ∀ ver, ver < 17 → ∀ n, n < 41 →
    programOk ver n = (2 ≤ n && (ver != 0 || n == 20 || n == 32)) := by decide +kernel

/-- BIP141: versions 0..16, programs of 2..40 bytes, version 0 only 20 or 32 bytes. -/
theorem programOk_iff (ver n : Nat) :
    programOk ver n = true ↔ ver ≤ 16 ∧ 2 ≤ n ∧ n ≤ 40 ∧ (ver = 0 → n = 20 ∨ n = 32) := by
  constructor
  · intro h
    have b := programOk_bounded ver n h
    rw [programOk_table ver (by omega) n (by omega)] at h
    simp at h
    refine ⟨b.1, h.1, b.2, ?_⟩
    intro hv; rcases h.2 with h | h
    · rcases h with h | h
      · exact absurd hv h
      · exact .inl h
    · exact .inr h
  · rintro ⟨h1, h2, h3, h4⟩
    rw [programOk_table ver (by omega) n (by omega)]
    simp
    refine ⟨h2, ?_⟩
    by_cases hv : ver = 0
    · rcases h4 hv with h | h
      · exact .inl (.inr h)
      · exact .inr h
    · exact .inl (.inl hv)

def versionsOf (n : Network) : List (List Nat) := n.xprv ++ n.xpub

/-- no prefix, hrp or extended-key version of a main network equals one of a test network. -/
theorem main_test_disjoint : ∀ a ∈ NETWORKS, ∀ b ∈ NETWORKS, a.isMain = true → b.isMain = false →
    a.wif ≠ b.wif ∧ a.p2pkh ≠ b.p2pkh ∧ a.p2sh ≠ b.p2sh ∧ a.p2pkh ≠ b.p2sh ∧ a.p2sh ≠ b.p2pkh ∧
    a.hrp ≠ b.hrp ∧ (∀ v ∈ versionsOf a, v ∉ versionsOf b) := by decide +kernel

/-- the lookup `network_from_key_value` (first match) never changes the network type. -/
theorem lookup_preserves_type : ∀ n ∈ NETWORKS,
    (∀ m, networkFrom (·.hrp) n.hrp = some m → m.isMain = n.isMain ∧ m.hrp = n.hrp) ∧
    (∀ m, networkFrom (·.p2pkh) n.p2pkh = some m → m.isMain = n.isMain ∧ m.p2pkh = n.p2pkh) ∧
    (∀ m, networkFrom (·.p2sh) n.p2sh = some m → m.isMain = n.isMain ∧ m.p2sh = n.p2sh) ∧
    (∀ m, networkFrom (·.wif) n.wif = some m → m.isMain = n.isMain ∧ m.wif = n.wif) ∧
    networkFrom (·.p2pkh) n.p2sh = none := by
  decide +kernel

/-- `hrp1` of one network is never a proper prefix of `hrp1` of another ("bc1" vs "bcrt1"). -/
theorem hrp_prefix_free : ∀ a ∈ NETWORKS, ∀ b ∈ NETWORKS,
    (a.hrp ++ [49]).isPrefixOf (b.hrp ++ [49]) = true → a.hrp = b.hrp := by decide +kernel

end Btc.Address
