import Proofs.C06.CodecConv
import Proofs.C06.TwoErr
/-! Substitutions of accepted strings, constant read off the witness version (`m = None`). -/
namespace Btc.Bech32
open Gen.Bech32

theorem mFromWitVer_take (y : Nat) (l : List Nat) (n mm : Nat)
    (h : mFromWitVer ((y :: l).take n) = .ok mm) :
    mm = if y = 0 then BECH32_1_CONST else BECH32_M_CONST := by
  cases n with
  | zero => simp [mFromWitVer] at h
  | succ k => simpa [mFromWitVer] using h.symm

/-- T3 at the string level with the constant chosen by the first data value (`decode(s)` as addresses use it):
    one changed character after the separator — the version character included, where bech32 ↔ bech32m
    switches — is refused, when at most 1022 characters follow it. -/
theorem substitution_refused_none (pre a b : List Nat) (x x' : Nat) (h49 : 49 ∉ a ++ x :: b) (hx' : x' ≠ 49)
    (hne : lowerC x ≠ lowerC x') (hb : b.length ≤ 1022) (r : List Nat × List Nat)
    (h1 : decode (pre ++ 49 :: (a ++ x :: b)) none = .ok r) :
    ∀ r', decode (pre ++ 49 :: (a ++ x' :: b)) none ≠ .ok r' := by
  intro r' h2
  obtain ⟨hrp, data⟩ := r
  obtain ⟨hrp', data'⟩ := r'
  obtain ⟨va, vb, v, v', mm, mm', hvv, hv, hv', hvb, _, _, hlb, rfl, rfl, hm1, hm2, c1, c2⟩ :=
    sub_parts pre a b x x' h49 hx' hne _ _ _ _ _ _ h1 h2
  have hvb' : ∀ y ∈ vb, y < 2 ^ 30 := fun y hy => by have := hvb y hy; omega
  simp only [pickM] at hm1 hm2
  have same : mm = mm' → False := fun e =>
    hvv (single_substitution _ vb v v' hvb' (by omega) (by omega) (by rw [c1, c2, e]))
  cases va with
  | cons y va2 =>
    have e1 := mFromWitVer_take y _ _ _ hm1
    have e2 := mFromWitVer_take y _ _ _ hm2
    exact same (e1.trans e2.symm)
  | nil =>
    simp only [List.nil_append] at hm1 hm2
    have e1 := mFromWitVer_take v _ _ _ hm1
    have e2 := mFromWitVer_take v' _ _ _ hm2
    have hd := single_sub_diff (hrpExpand hrp ++ []) vb v v' hvb' (by omega) (by omega)
    rw [c1, c2] at hd
    have hdd : v ^^^ v' < 32 := Nat.xor_lt_two_pow (n := 5) hv hv'
    have hd0 : v ^^^ v' ≠ 0 := fun h0 => hvv (xor_eq_zero h0)
    have hsw := switch_ne (v ^^^ v') vb.length hdd hd0 (by rw [hlb]; exact hb)
    by_cases z : v = 0
    · by_cases z' : v' = 0
      · exact hvv (z.trans z'.symm)
      · rw [if_pos z] at e1; rw [if_neg z'] at e2
        apply hsw
        rw [e1, e2] at hd
        unfold SWITCH
        have : BECH32_1_CONST ^^^ (BECH32_1_CONST ^^^ shiftK vb.length (v ^^^ v')) = BECH32_1_CONST ^^^ BECH32_M_CONST := by
          rw [← hd]
        rw [← Nat.xor_assoc, Nat.xor_self, Nat.zero_xor] at this
        exact this
    · by_cases z' : v' = 0
      · rw [if_neg z] at e1; rw [if_pos z'] at e2
        apply hsw
        rw [e1, e2] at hd
        unfold SWITCH
        have : BECH32_M_CONST ^^^ (BECH32_M_CONST ^^^ shiftK vb.length (v ^^^ v')) = BECH32_M_CONST ^^^ BECH32_1_CONST := by
          rw [← hd]
        rw [← Nat.xor_assoc, Nat.xor_self, Nat.zero_xor] at this
        rw [this, Nat.xor_comm]
      · rw [if_neg z] at e1; rw [if_neg z'] at e2
        exact same (e1.trans e2.symm)

/-- T3 at the string level, two characters: changing two characters after the separator of an accepted
    string, at most 1022 positions apart, gives a string `decode` (same constant) refuses. -/
theorem two_substitutions_refused (pre a mid b : List Nat) (x x' y y' m : Nat)
    (h49 : 49 ∉ a ++ x :: (mid ++ y :: b)) (hx' : x' ≠ 49) (hy' : y' ≠ 49)
    (hne : lowerC x ≠ lowerC x') (hw : mid.length < 1022) (r : List Nat × List Nat)
    (h1 : decode (pre ++ 49 :: (a ++ x :: (mid ++ y :: b))) (some m) = .ok r) :
    ∀ r', decode (pre ++ 49 :: (a ++ x' :: (mid ++ y' :: b))) (some m) ≠ .ok r' := by
  intro r' h2
  obtain ⟨hrp, data⟩ := r
  obtain ⟨hrp', data'⟩ := r'
  obtain ⟨p1, q1, vals1, mm, e1, n1, rfl, _, l1, hv1, _, _, hm1, c1⟩ := decode_ok _ _ _ _ h1
  obtain ⟨p2, q2, vals2, mm', e2, n2, rfl, _, l2, hv2, _, _, hm2, c2⟩ := decode_ok _ _ _ _ h2
  have h49' : 49 ∉ a ++ x' :: (mid ++ y' :: b) := by
    intro hm
    simp only [List.mem_append, List.mem_cons] at hm h49
    rcases hm with h | h | h | h | h
    · exact h49 (Or.inl h)
    · exact hx' h.symm
    · exact h49 (Or.inr (Or.inr (Or.inl h)))
    · exact hy' h.symm
    · exact h49 (Or.inr (Or.inr (Or.inr (Or.inr h))))
  obtain ⟨rfl, rfl⟩ := split_unique _ _ _ _ e1 h49 n1
  obtain ⟨rfl, rfl⟩ := split_unique _ _ _ _ e2 h49' n2
  obtain ⟨va, v, vr, rfl, a1, x1, r1⟩ := vals_split a _ vals1 x l1
  obtain ⟨va', v', vr', rfl, a2, x2, r2⟩ := vals_split a _ vals2 x' l2
  obtain ⟨vm, w, vb, rfl, m1, y1, b1⟩ := vals_split mid b vr y r1
  obtain ⟨vm', w', vb', rfl, m2, y2, b2⟩ := vals_split mid b vr' y' r2
  have inj := fun (l l' : List Nat) (h1 : ∀ z ∈ l, z ∈ va ++ v :: (vm ++ w :: vb))
      (h2 : ∀ z ∈ l', z ∈ va' ++ v' :: (vm' ++ w' :: vb')) (e : l.map charOf = l'.map charOf) =>
    map_charOf_inj l l' (fun z hz => hv1 z (h1 z hz)) (fun z hz => hv2 z (h2 z hz)) e
  have hva : va = va' := inj _ _ (by intro z hz; simp [hz]) (by intro z hz; simp [hz]) (a1.symm.trans a2)
  have hvm : vm = vm' := inj _ _ (by intro z hz; simp [hz]) (by intro z hz; simp [hz]) (m1.symm.trans m2)
  have hvb : vb = vb' := inj _ _ (by intro z hz; simp [hz]) (by intro z hz; simp [hz]) (b1.symm.trans b2)
  subst hva hvm hvb
  simp only [pickM, Except.ok.injEq] at hm1 hm2
  subst hm1 hm2
  have hml : vm.length = mid.length := by
    have := congrArg List.length m1; simpa [lower] using this.symm
  have lt30 : ∀ z, z ∈ va ++ v :: (vm ++ w :: vb) → z < 2 ^ 30 := fun z hz => by have := hv1 z hz; omega
  apply two_substitutions (hrpExpand (lower pre) ++ va) vm vb v v' w w'
    (fun z hz => lt30 z (by simp [hz])) (fun z hz => lt30 z (by simp [hz]))
    (hv1 v (by simp)) (hv2 v' (by simp)) (hv1 w (by simp)) (hv2 w' (by simp))
    (by intro e; subst e; exact hne (x1.trans x2.symm)) (by rw [hml]; exact hw)
  rw [List.append_assoc, List.append_assoc, c1, c2]

end Btc.Bech32
