import Proofs.C06.Codec
import Proofs.C06.Regroup
import Proofs.C06.RegroupConv
import Proofs.C06.Base58
import Proofs.C06.Net
/-! Address layer compositions: segwit and base58 addresses read back to what they were written from. -/
namespace Btc.BitRegroup

theorem drain_len (t acc : Nat) (ht : 1 ≤ t) : ∀ fuel bits, bits < fuel →
    (drain t acc fuel bits).2.length * t + (drain t acc fuel bits).1 = bits ∧ (drain t acc fuel bits).1 < t := by
  intro fuel
  induction fuel with
  | zero => intro bits h; omega
  | succ k ih =>
    intro bits h
    simp only [drain]
    split
    · rename_i hge
      obtain ⟨a, b⟩ := ih (bits - t) (by omega)
      simp only [List.length_cons]
      refine ⟨?_, b⟩
      rw [Nat.add_mul]; omega
    · simp; omega

theorem loop_len (f t : Nat) (ht : 1 ≤ t) (data : List Nat) : ∀ acc bits a b out,
    loop f t data acc bits = .ok (a, b, out) → bits < t →
    out.length * t + b = bits + f * data.length ∧ b < t := by
  induction data with
  | nil =>
    intro acc bits a b out h hb
    simp only [loop, Except.ok.injEq, Prod.mk.injEq] at h
    obtain ⟨rfl, rfl, rfl⟩ := h; simp; exact hb
  | cons v rest ih =>
    intro acc bits a b out h hb
    by_cases hv : v >>> f = 0
    · rw [loop_cons f t v rest acc bits hv] at h
      obtain ⟨o', h', rfl⟩ := bindOut_ok _ _ _ _ _ h
      obtain ⟨d1, d2⟩ := drain_len t (((acc <<< f) ||| v) &&& maxAcc f t) ht (bits + f + 1) (bits + f) (by omega)
      obtain ⟨e1, e2⟩ := ih _ _ _ _ _ h' d2
      refine ⟨?_, e2⟩
      simp only [List.length_append, List.length_cons, Nat.add_mul, Nat.mul_add, Nat.mul_one] at *
      omega
    · simp [loop, hv] at h

/-- number of 5-bit digits written for `n` bytes. -/
theorem convert_8_5_len (bytes five : List Nat) (h : convert bytes 8 5 true = .ok five) :
    five.length = (8 * bytes.length + 4) / 5 := by
  unfold convert at h
  generalize hl : loop 8 5 bytes 0 0 = r at h
  cases r with
  | error e => cases h
  | ok p =>
    obtain ⟨a, b, out⟩ := p
    obtain ⟨e1, e2⟩ := loop_len 8 5 (by omega) bytes 0 0 a b out hl (by omega)
    simp only [if_true] at h
    split at h
    · cases h; simp; omega
    · cases h; omega

end Btc.BitRegroup

namespace Btc.Address
open Gen.Net Gen.Segwit Btc

theorem hrp_facts : ∀ n ∈ NETWORKS, n.hrp ≠ [] ∧
    (∀ x ∈ n.hrp, 47 < x ∧ x < 123 ∧ ¬ (65 ≤ x ∧ x ≤ 90)) ∧ n.hrp.length ≤ 4 ∧
    (networkFrom (·.hrp) n.hrp).isSome = true := by decide +kernel

theorem charOf_not_space : ∀ d, d < 32 → isSpace (Bech32.charOf d) = false := by decide +kernel

theorem lstrip_id (l : List Nat) (h : ∀ c ∈ l, isSpace c = false) : lstrip l = l := by
  cases l with
  | nil => rfl
  | cons c cs => simp [lstrip, h c (List.mem_cons_self ..)]

theorem strip_id (l : List Nat) (h : ∀ c ∈ l, isSpace c = false) : strip l = l := by
  unfold strip
  rw [lstrip_id l h, lstrip_id l.reverse (fun c hc => h c (List.mem_reverse.mp hc)), List.reverse_reverse]

theorem ofNats_toNats (b : Bytes) : ofNats (toNats b) = b := by
  induction b with
  | nil => rfl
  | cons x xs ih =>
    simp only [toNats, ofNats, List.map_cons, List.map_map] at *
    rw [ih]; simp

theorem toNats_lt (b : Bytes) : ∀ v ∈ toNats b, v < 256 := by
  intro v hv
  simp only [toNats, List.mem_map] at hv
  obtain ⟨x, _, rfl⟩ := hv
  exact x.toNat_lt

/-- T5 (segwit, decode ∘ encode): every admissible (version, program) on every network of the generated
    table is written as an address that reads back to the same version and program, on the first network
    sharing the hrp. -/
theorem witness_roundtrip (net : Network) (hn : net ∈ NETWORKS) (ver : Nat) (prog : Bytes)
    (hok : programOk ver prog.length = true) :
    ∃ a m, addressFromWitness (ver : Int) prog net.hrp = .ok a ∧
      networkFrom (·.hrp) net.hrp = some m ∧ witnessFromAddress a = .ok (ver, prog, m.name) ∧
      a.length ≤ MAX_ADDR_LEN ∧ Bech32.lower a = a := by
  obtain ⟨hv16, hn2, hn40, _⟩ := (programOk_iff ver prog.length).mp hok
  obtain ⟨hne, hr, hlen, hfind⟩ := hrp_facts net hn
  obtain ⟨m, hm⟩ := Option.isSome_iff_exists.mp hfind
  obtain ⟨five, h85, hf32, h58⟩ := BitRegroup.convert_8_5_8 (toNats prog) (toNats_lt prog)
  have hflen := BitRegroup.convert_8_5_len _ _ h85
  have hpl : (toNats prog).length = prog.length := by simp [toNats]
  have hd : ∀ d ∈ ver :: five, d < 32 := by
    intro d hd; rcases List.mem_cons.mp hd with rfl | h
    · omega
    · exact hf32 d h
  obtain ⟨s, henc, hdec⟩ := Bech32.decode_encodeNat_version net.hrp ver five hne hr hd
  refine ⟨s, m, ?_, hm, ?_⟩
  · unfold addressFromWitness
    rw [if_neg (by omega)]
    simp only [Int.toNat_natCast, hok, Bool.not_true, Bool.false_eq_true, if_false, h85, henc]
  · -- shape of s
    obtain ⟨L, hs, hsl, hLlen⟩ := Bech32.encodeNat_shape net.hrp (ver :: five) none s henc
    have hnsp : ∀ c ∈ s, isSpace c = false := by
      intro c hc
      rw [hs] at hc
      simp only [List.mem_append, List.mem_cons, List.not_mem_nil, or_false, List.mem_map] at hc
      rcases hc with (hc | rfl) | ⟨d, hd', rfl⟩
      · have := hr c hc
        simp [isSpace]; omega
      · decide
      · exact charOf_not_space d (hsl d hd')
    have hslen : s.length ≤ MAX_ADDR_LEN := by
      have : MAX_ADDR_LEN = 90 := rfl
      rw [this, hs]
      simp only [List.length_append, List.length_cons, List.length_nil, List.length_map]
      simp only [List.length_cons] at hLlen
      omega
    refine ⟨?_, hslen, Bech32.encodeNat_lower net.hrp (ver :: five) none s henc (fun x hx => (hr x hx).2.2)⟩
    unfold witnessFromAddress
    simp only [strip_id s hnsp]
    rw [if_neg (by omega), hdec]
    simp only [h58, hpl, hok, Bool.not_true, Bool.false_eq_true, if_false, hm, ofNats_toNats]

end Btc.Address

namespace Btc.Base58
open Gen.Base58 Btc

theorem digitsOfIntC_zero : digitsOfIntC CHUNK 0 = [0] := by decide

/-- at most two characters per byte. -/
theorem b58encode_len (v : Bytes) : (b58encode v).length ≤ 2 * v.length := by
  obtain ⟨hv, hle⟩ := strip_decomp (0 : UInt8) v
  unfold b58encode
  generalize stripLeading (0 : UInt8) v = w at hv hle
  simp only [List.length_append, List.length_replicate]
  split
  · simp; omega
  · rename_i hw
    have hpos : w ≠ [] := by simpa using hw
    simp only [List.length_map]
    unfold digitsOfInt
    by_cases h0 : ofBE w = 0
    · rw [h0, digitsOfIntC_zero]
      have : 0 < w.length := List.length_pos_iff.mpr hpos
      simp only [List.length_cons, List.length_nil]
      omega
    · rw [digitsOfIntC_eq CHUNK (by decide) _ (by omega), List.length_reverse]
      have : (Nat.digits 58 (ofBE w)).length ≤ 2 * w.length := by
        rw [Nat.digits_length_le_iff (by omega)]
        calc ofBE w < 256 ^ w.length := ofBE_lt w
          _ ≤ (58 ^ 2) ^ w.length := Nat.pow_le_pow_left (by norm_num) _
          _ = 58 ^ (2 * w.length) := by rw [← Nat.pow_mul]
      omega

theorem b58encode_chars (v : Bytes) : ∀ c ∈ b58encode v, c ∈ ALPHABET := by
  have hc : ∀ d, d < 58 → charOf d ∈ ALPHABET := by decide +kernel
  intro c hcm
  unfold b58encode at hcm
  rcases List.mem_append.mp hcm with h | h
  · simp at h; rw [h.2]; exact hc 0 (by omega)
  · split at h
    · cases h
    · simp only [List.mem_map] at h
      obtain ⟨d, hd, rfl⟩ := h
      unfold digitsOfInt at hd
      by_cases h0 : ofBE (stripLeading (0 : UInt8) v) = 0
      · rw [h0, digitsOfIntC_zero] at hd; simp at hd
        rw [hd]; exact hc 0 (by omega)
      · rw [digitsOfIntC_eq CHUNK (by decide) _ (by omega)] at hd
        exact hc d (Nat.digits_lt_base (by omega) (List.mem_reverse.mp hd))

end Btc.Base58

namespace Btc.Address
open Gen.Net Gen.Segwit Btc

theorem alphabet_not_space : ∀ c ∈ Gen.Base58.ALPHABET, isSpace c = false := by decide +kernel

theorem prefix_facts : ∀ n ∈ NETWORKS,
    n.p2pkh.length = 1 ∧ n.p2sh.length = 1 ∧ toNats (ofNats n.p2pkh) = n.p2pkh ∧ toNats (ofNats n.p2sh) = n.p2sh ∧
    (networkFrom (·.p2pkh) n.p2pkh).isSome = true ∧ (networkFrom (·.p2sh) n.p2sh).isSome = true ∧
    networkFrom (·.p2pkh) n.p2sh = none := by decide +kernel

/-- T5 (base58 addresses, decode ∘ encode): a p2pkh / p2sh address written for any network of the table
    reads back as the same type and hash, on the first network sharing the version byte. -/
theorem h160_roundtrip (H : Bytes → Bytes) (hH : ∀ x, 4 ≤ (H x).length) (net : Network) (hn : net ∈ NETWORKS)
    (kind : Kind) (hk : kind = .p2pkh ∨ kind = .p2sh) (h160 : Bytes) (hl : h160.length = 20) :
    ∃ a m, addressFromH160 H kind h160 net = .ok a ∧
      (match kind with | .p2sh => networkFrom (·.p2sh) net.p2sh | _ => networkFrom (·.p2pkh) net.p2pkh) = some m ∧
      h160FromAddress H a = .ok (kind, h160, m.name) := by
  obtain ⟨l1, l2, t1, t2, f1, f2, f3⟩ := prefix_facts net hn
  have key : ∀ pre : List Nat, pre.length = 1 → toNats (ofNats pre) = pre →
      strip (Base58.encode H (ofNats pre ++ h160)) = Base58.encode H (ofNats pre ++ h160) ∧
      Base58.decode H (Base58.encode H (ofNats pre ++ h160)) (some 21) = .ok (ofNats pre ++ h160) ∧
      toNats ((ofNats pre ++ h160).take 1) = pre ∧ (ofNats pre ++ h160).drop 1 = h160 := by
    intro pre hp ht
    have hpl : (ofNats pre).length = 1 := by simp [ofNats, hp]
    have hcap : (Base58.encode H (ofNats pre ++ h160)).length ≤ Gen.Base58.MAX_LENGTH := by
      have := Base58.b58encode_len (ofNats pre ++ h160 ++ (H (ofNats pre ++ h160)).take Gen.Base58.CHECKSUM_LEN)
      have hm : Gen.Base58.MAX_LENGTH = 112 := rfl
      have hc : Gen.Base58.CHECKSUM_LEN = 4 := rfl
      unfold Base58.encode
      simp only [List.length_append, List.length_take, hpl, hl, hc] at this ⊢
      omega
    refine ⟨?_, ?_, ?_, ?_⟩
    · apply strip_id
      intro c hc
      exact alphabet_not_space c (Base58.b58encode_chars _ c hc)
    · have h1 := Base58.decode_encode H hH _ hcap
      unfold Base58.decode at h1 ⊢
      split at h1
      · cases h1
      · rename_i hc
        rw [if_neg hc]
        split at h1
        · cases h1
        · rename_i r hr
          simp only []
          simp only at h1
          split at h1
          · cases h1
          · rename_i hlen
            rw [if_neg hlen]
            split at h1
            · cases h1
            · rename_i hchk
              rw [if_neg hchk]
              simp only [Except.ok.injEq] at h1
              simp only [h1, List.length_append, hpl, hl, if_true]
    · rw [List.take_append_of_le_length (by omega), List.take_of_length_le (by omega), ht]
    · rw [List.drop_append_of_le_length (by omega), List.drop_of_length_le (by omega)]; rfl
  rcases hk with rfl | rfl
  · obtain ⟨m, hm⟩ := Option.isSome_iff_exists.mp f1
    obtain ⟨k1, k2, k3, k4⟩ := key net.p2pkh l1 t1
    refine ⟨Base58.encode H (ofNats net.p2pkh ++ h160), m, ?_, hm, ?_⟩
    · simp [addressFromH160, hl]
    · unfold h160FromAddress
      rw [k1, k2]
      simp only [k3, hm, k4]
  · obtain ⟨m, hm⟩ := Option.isSome_iff_exists.mp f2
    obtain ⟨k1, k2, k3, k4⟩ := key net.p2sh l2 t2
    refine ⟨Base58.encode H (ofNats net.p2sh ++ h160), m, ?_, hm, ?_⟩
    · simp [addressFromH160, hl]
    · unfold h160FromAddress
      rw [k1, k2]
      simp only [k3, f3, hm, k4]

end Btc.Address
