import Model.C20.Lifecycle
/-! C20 helper lemmas: signer objects, memo, backend flag. -/
namespace Btc.C20

/-! ### Signer -/

/-- what the absorbing theorem needs of the source: the flag is tested before anything else in
    `sign_`, `wipe` sets it, and `__exit__` wipes.  Decidable, and decided on the generated lists. -/
def SignerCode.WellFormed (c : SignerCode) : Prop :=
  c.sign.head? = some .wipedCheck ∧ WipeStep.setWiped ∈ c.wipe ∧ c.exitWipes = true

instance (c : SignerCode) : Decidable c.WellFormed := by
  unfold SignerCode.WellFormed; exact inferInstance

/-- `wipe` also lets go of both copies of the key. -/
def SignerCode.DropsKey (c : SignerCode) : Prop :=
  WipeStep.dropKey ∈ c.wipe ∧ WipeStep.zeroScalar ∈ c.wipe

instance (c : SignerCode) : Decidable c.DropsKey := by
  unfold SignerCode.DropsKey; exact inferInstance

theorem runWipe_wiped (l : List WipeStep) (s : Signer) :
    (runWipe l s).wiped = (s.wiped || decide (WipeStep.setWiped ∈ l)) := by
  induction l generalizing s with
  | nil => simp [runWipe]
  | cons h t ih => cases h <;> simp [runWipe, ih]

theorem runWipe_keyObj (l : List WipeStep) (s : Signer) :
    (runWipe l s).keyObj = (s.keyObj && !decide (WipeStep.dropKey ∈ l)) := by
  induction l generalizing s with
  | nil => simp [runWipe]
  | cons h t ih => cases h <;> simp [runWipe, ih]

theorem runWipe_scalar (l : List WipeStep) (s : Signer) :
    (runWipe l s).scalar = (s.scalar && !decide (WipeStep.zeroScalar ∈ l)) := by
  induction l generalizing s with
  | nil => simp [runWipe]
  | cons h t ih => cases h <;> simp [runWipe, ih]

theorem sign_of_wiped {c : SignerCode} (hc : c.sign.head? = some .wipedCheck) (s : Signer)
    (hs : s.wiped = true) (ok : Bool) : runSignerSign ok c.sign s = .err .value := by
  cases hl : c.sign with
  | nil => simp [hl] at hc
  | cons h t =>
    simp [hl] at hc
    subst hc
    simp [runSignerSign, hs]

theorem step_keeps_wiped (c : SignerCode) (op : SignerOp) (s : Signer) (hs : s.wiped = true) :
    (Signer.step c op s).1.wiped = true := by
  cases op <;> simp [Signer.step, hs, runWipe_wiped]
  split <;> simp [hs, runWipe_wiped]

theorem step_of_wiped {c : SignerCode} (wf : c.WellFormed) (op : SignerOp) (s : Signer)
    (hs : s.wiped = true) : (Signer.step c op s).2 ≠ .sig := by
  cases op with
  | sign ok => simp [Signer.step, sign_of_wiped wf.1 s hs ok]
  | wipe => simp [Signer.step]
  | enter => simp [Signer.step]; split <;> simp
  | exit => simp [Signer.step]

theorem run_of_wiped {c : SignerCode} (wf : c.WellFormed) (ops : List SignerOp) (s : Signer)
    (hs : s.wiped = true) :
    (∀ o ∈ (Signer.run c ops s).1, o ≠ .sig) ∧ (Signer.run c ops s).2.wiped = true := by
  induction ops generalizing s with
  | nil => simp [Signer.run, hs]
  | cons op ops ih =>
    have h1 := step_of_wiped wf op s hs
    have h2 := step_keeps_wiped c op s hs
    have := ih (Signer.step c op s).1 h2
    simp only [Signer.run]
    refine ⟨?_, this.2⟩
    intro o ho
    simp only [List.mem_cons] at ho
    rcases ho with rfl | ho
    · exact h1
    · exact this.1 o ho

theorem kill_sets_wiped {c : SignerCode} (wf : c.WellFormed) (s : Signer) :
    (Signer.step c .wipe s).1.wiped = true ∧ (Signer.step c .exit s).1.wiped = true := by
  obtain ⟨_, h2, h3⟩ := wf
  simp [Signer.step, runWipe_wiped, h2, h3]

/-! ### SoftwareSigner -/

theorem soft_step_keeps_closed (h : Gen.Lifecycle.softwareSignerCloseSets = true) (op : SoftOp)
    (s : SoftSigner) (hs : s.closed = true) : (SoftSigner.step op s).1.closed = true := by
  cases op with
  | call m ok => simp only [SoftSigner.step]; split <;> exact hs
  | close => simp [SoftSigner.step, h]

/-! ### Memo -/

/-- every cached pair is right for every argument that maps to its key. -/
def Correct {χ κ ν : Type} (f : χ → ν) (key : χ → κ) (c : List (κ × ν)) : Prop :=
  ∀ k v, (k, v) ∈ c → ∀ x, key x = k → v = f x

theorem mem_of_lookup {κ ν : Type} [DecidableEq κ] {c : List (κ × ν)} {k : κ} {v : ν}
    (h : c.lookup k = some v) : (k, v) ∈ c := by
  induction c with
  | nil => simp at h
  | cons p t ih =>
    obtain ⟨k', v'⟩ := p
    simp only [List.lookup] at h
    split at h
    · rename_i heq
      have : k = k' := by simpa using heq
      cases h; subst this; simp
    · exact List.mem_cons_of_mem _ (ih h)

theorem correct_policy {χ κ ν : Type} {f : χ → ν} {key : χ → κ} {c : List (κ × ν)}
    (p : Policy κ ν) (h : Correct f key c) : Correct f key (p.apply c) :=
  fun k v hm x hx => h k v (p.sub c (k, v) hm) x hx

theorem memo_step {χ κ ν : Type} [DecidableEq κ] (f : χ → ν) (key : χ → κ)
    (sound : ∀ x y, key x = key y → f x = f y) (op : MemoOp χ κ ν) (c : List (κ × ν))
    (h : Correct f key c) :
    Correct f key (Memo.step f key op c).1 ∧
    (Memo.step f key op c).2 = (match op with | .call x _ => some (f x) | .evict _ => none) := by
  cases op with
  | evict p => exact ⟨correct_policy p h, rfl⟩
  | call x after =>
    simp only [Memo.step]
    split
    · rename_i v hv
      refine ⟨correct_policy after h, ?_⟩
      have := h _ _ (mem_of_lookup hv) x rfl
      simp [this]
    · refine ⟨correct_policy after ?_, rfl⟩
      intro k v hm y hy
      simp only [List.mem_cons] at hm
      rcases hm with heq | hm
      · cases heq; exact sound x y hy.symm
      · exact h k v hm y hy

/-! ### objects holding a bindings object -/

theorem dropAt_get (l : List CapObj) (j i : Nat) :
    (dropAt l j)[i]? = (l[i]?).map fun o => if i = j then { o with held := false } else o := by
  induction l generalizing j i with
  | nil => simp [dropAt]
  | cons o r ih =>
    cases j with
    | zero =>
      cases i with
      | zero => simp [dropAt]
      | succ i =>
        simp only [dropAt, List.getElem?_cons_succ]
        cases r[i]? <;> simp
    | succ j =>
      cases i with
      | zero => simp [dropAt]
      | succ i =>
        simp only [dropAt, List.getElem?_cons_succ, ih]
        cases r[i]? <;> simp

theorem getElem?_snoc_left {α : Type} (l : List α) (a : α) (i : Nat) (o : α) (h : l[i]? = some o) :
    (l ++ [a])[i]? = some o := by
  have hi : i < l.length := by
    rcases Nat.lt_or_ge i l.length with hlt | hge
    · exact hlt
    · rw [List.getElem?_eq_none hge] at h; cases h
  rw [List.getElem?_append_left hi]; exact h

/-! ### curve identity key -/

def allFields : List CurveField := [.p, .a, .b, .gx, .gy, .n, .h]

/-- a key that lists all seven components determines the curve. -/
theorem eqKey_injective (fs : List CurveField) (hall : ∀ f ∈ allFields, f ∈ fs) (c1 c2 : CurveId)
    (h : eqKey fs c1 = eqKey fs c2) : c1 = c2 := by
  have hget : ∀ f ∈ fs, f.get c1 = f.get c2 := by
    intro f hf
    have := List.map_inj_left.mp h
    exact this f hf
  have g := fun f hf => hget f (hall f hf)
  have h1 := g .p (by decide)
  have h2 := g .a (by decide)
  have h3 := g .b (by decide)
  have h4 := g .gx (by decide)
  have h5 := g .gy (by decide)
  have h6 := g .n (by decide)
  have h7 := g .h (by decide)
  simp only [CurveField.get] at h1 h2 h3 h4 h5 h6 h7
  cases c1; cases c2
  simp_all

end Btc.C20
