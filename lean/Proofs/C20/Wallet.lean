import Model.C20.Lifecycle
/-! C20 helper lemmas: the wallet ledger refines the list of hand-outs. -/
namespace Btc.C20

variable {α : Type} [DecidableEq α]

/-- `RangedWallet.address` as the current source orders its statements, in closed form. -/
theorem address_closed (src : Source α) (w : Wallet α) (b i : Int) :
    Wallet.address src w b i =
      if src.branches.contains b && decide (0 ≤ i) then
        match src.addr b i.toNat with
        | none => (w, .error .value)
        | some a =>
          if src.isEmpty a then (w, .error .value)
          else (⟨fun b' => if b' = b then max (w.next b) (i + 1).toNat else w.next b',
                 record w.ledger a ⟨some b, some i⟩⟩, .ok a)
      else (w, .error .value) := by
  cases ha : src.addr b i.toNat with
  | none =>
    simp [Wallet.address, Gen.Lifecycle.walletAddress, runAddress, posOk,
      Gen.Lifecycle.walletPosChecks, ha]
  | some a =>
    by_cases he : src.isEmpty a = true <;>
      simp [Wallet.address, Gen.Lifecycle.walletAddress, runAddress, posOk,
        Gen.Lifecycle.walletPosChecks, ha, he, bumpVal]

/-- a refused `address` call leaves the wallet as it was. -/
theorem address_err_same (src : Source α) (w : Wallet α) (b i : Int) (e : Err)
    (h : (Wallet.address src w b i).2 = .error e) : (Wallet.address src w b i).1 = w := by
  rw [address_closed] at h ⊢
  revert h
  by_cases hok : (b ∈ src.branches ∧ 0 ≤ i)
  · cases src.addr b i.toNat with
    | none => simp [hok]
    | some a =>
      by_cases he : src.isEmpty a = true
      · simp [hok, he]
      · simp [hok, he]
  · simp [hok]

/-! ### dict-like ledger -/

theorem keys_record (l : List (α × Info)) (a : α) (i : Info) :
    (record l a i).map Prod.fst = insertNew (l.map Prod.fst) a := by
  unfold record insertNew
  by_cases h : l.any (fun p => decide (p.1 = a)) = true
  · have hm : a ∈ l.map Prod.fst := by
      simp only [List.any_eq_true, decide_eq_true_eq] at h
      obtain ⟨p, hp, rfl⟩ := h
      exact List.mem_map_of_mem hp
    simp only [h, if_true, hm]
    rw [List.map_map]
    apply List.map_congr_left
    intro p _
    simp only [Function.comp]
    split
    · rename_i e; exact e.symm
    · rfl
  · have hm : a ∉ l.map Prod.fst := by
      intro hm
      apply h
      simp only [List.mem_map] at hm
      obtain ⟨p, hp, rfl⟩ := hm
      simp only [List.any_eq_true, decide_eq_true_eq]
      exact ⟨p, hp, rfl⟩
    simp [h, hm]

theorem lookup_cons_ne {k a' : α} {v : Info} {t : List (α × Info)} (h : ¬ a' = k) :
    List.lookup a' ((k, v) :: t) = List.lookup a' t := by
  have : (a' == k) = false := by simpa using h
  simp [List.lookup, this]

theorem lookup_cons_eq {k : α} {v : Info} {t : List (α × Info)} :
    List.lookup k ((k, v) :: t) = some v := by
  simp [List.lookup]

theorem lookup_replace (l : List (α × Info)) (a a' : α) (i : Info) :
    (l.map (fun p => if p.1 = a then (a, i) else p)).lookup a' =
      if a' = a then (if l.any (fun p => decide (p.1 = a)) then some i else none) else l.lookup a' := by
  induction l with
  | nil => by_cases h : a' = a <;> simp [h]
  | cons p t ih =>
    obtain ⟨k, v⟩ := p
    simp only [List.map_cons, List.any_cons]
    by_cases hk : k = a
    · subst hk
      simp only [if_true, decide_true, Bool.true_or]
      by_cases h : a' = k
      · subst h; simp [lookup_cons_eq]
      · rw [lookup_cons_ne h, lookup_cons_ne h, ih]; simp [h]
    · have hd : decide (k = a) = false := by simpa using hk
      simp only [hd, Bool.false_or]
      rw [if_neg (show ¬ (k, v).1 = a from hk)]
      by_cases h : a' = k
      · subst h
        simp [lookup_cons_eq, hk]
      · rw [lookup_cons_ne h, lookup_cons_ne h, ih]
        try simp

theorem lookup_snoc (l : List (α × Info)) (a a' : α) (i : Info) :
    (l ++ [(a, i)]).lookup a' =
      match l.lookup a' with
      | some v => some v
      | none => if a' = a then some i else none := by
  induction l with
  | nil =>
    by_cases h : a' = a
    · subst h; simp [lookup_cons_eq]
    · simp [lookup_cons_ne h, h]
  | cons p t ih =>
    obtain ⟨k, v⟩ := p
    by_cases h : a' = k
    · subst h; simp [lookup_cons_eq]
    · simp only [List.cons_append]
      rw [lookup_cons_ne h, lookup_cons_ne h, ih]

theorem lookup_none_of_not_any (l : List (α × Info)) (a : α)
    (h : ¬ l.any (fun p => decide (p.1 = a)) = true) : l.lookup a = none := by
  induction l with
  | nil => rfl
  | cons p t ih =>
    obtain ⟨k, v⟩ := p
    simp only [List.any_cons, Bool.or_eq_true, decide_eq_true_eq, not_or] at h
    have : ¬ a = k := fun e => h.1 e.symm
    rw [lookup_cons_ne this]
    exact ih h.2

theorem lookup_record (l : List (α × Info)) (a a' : α) (i : Info) :
    (record l a i).lookup a' = if a' = a then some i else l.lookup a' := by
  unfold record
  cases hany : l.any (fun p => decide (p.1 = a)) with
  | true => simp only [if_true, lookup_replace, hany]
  | false =>
    simp only [Bool.false_eq_true, if_false, lookup_snoc]
    by_cases h : a' = a
    · subst h
      rw [lookup_none_of_not_any l a' (by simp [hany])]
      try simp
    · simp only [h, if_false]; cases l.lookup a' <;> rfl

/-! ### the specification side -/

theorem specNext_snoc (H : List (Hand α)) (h : Hand α) (b : Int) :
    specNext (H ++ [h]) b =
      match h.pos with
      | some (b', i) => if b' = b then max (specNext H b) (i + 1) else specNext H b
      | none => specNext H b := by
  induction H with
  | nil =>
    simp only [List.nil_append, specNext]
    cases h.pos with
    | none => rfl
    | some p => obtain ⟨b', i⟩ := p; simp only; split <;> simp [Nat.max_comm]
  | cons g t ih =>
    simp only [List.cons_append, specNext, ih]
    cases hp : h.pos with
    | none => rfl
    | some p =>
      obtain ⟨b', i⟩ := p
      simp only
      cases hg : g.pos with
      | none => rfl
      | some q =>
        obtain ⟨b2, j⟩ := q
        simp only
        split <;> split <;> omega

theorem firstOcc_snoc (l : List α) (a : α) : firstOcc (l ++ [a]) = insertNew (firstOcc l) a := by
  simp [firstOcc, List.foldl_append]

theorem insertNew_nodup (l : List α) (a : α) (h : l.Nodup) : (insertNew l a).Nodup := by
  unfold insertNew
  split
  · exact h
  · rename_i hn
    rw [List.nodup_append]
    refine ⟨h, by simp, ?_⟩
    intro x hx y hy
    simp only [List.mem_singleton] at hy
    subst hy
    intro e; subst e; exact hn hx

theorem foldl_insertNew_nodup (l acc : List α) (h : acc.Nodup) : (l.foldl insertNew acc).Nodup := by
  induction l generalizing acc with
  | nil => exact h
  | cons a t ih => exact ih _ (insertNew_nodup acc a h)

theorem firstOcc_nodup (l : List α) : (firstOcc l).Nodup :=
  foldl_insertNew_nodup l [] List.nodup_nil

theorem mem_insertNew (l : List α) (a x : α) : x ∈ insertNew l a ↔ x ∈ l ∨ x = a := by
  unfold insertNew
  split
  · rename_i h
    constructor
    · exact Or.inl
    · rintro (h1 | rfl)
      · exact h1
      · exact h
  · simp

theorem mem_foldl_insertNew (l acc : List α) (x : α) :
    x ∈ l.foldl insertNew acc ↔ x ∈ acc ∨ x ∈ l := by
  induction l generalizing acc with
  | nil => simp
  | cons a t ih =>
    simp only [List.foldl_cons, ih, mem_insertNew, List.mem_cons]
    constructor
    · rintro ((h | h) | h)
      · exact Or.inl h
      · exact Or.inr (Or.inl h)
      · exact Or.inr (Or.inr h)
    · rintro (h | h | h)
      · exact Or.inl (Or.inl h)
      · exact Or.inl (Or.inr h)
      · exact Or.inr h

theorem mem_firstOcc (l : List α) (x : α) : x ∈ firstOcc l ↔ x ∈ l := by
  simp [firstOcc, mem_foldl_insertNew]

def Hand.info (h : Hand α) : Info :=
  match h.pos with
  | some (b, i) => ⟨some b, some (i : Int)⟩
  | none => ⟨none, none⟩

theorem lastInfo_snoc (H : List (Hand α)) (h : Hand α) (a : α) :
    lastInfo (H ++ [h]) a = if h.a = a then some h.info else lastInfo H a := by
  induction H with
  | nil =>
    simp only [List.nil_append, lastInfo, Hand.info]
    split <;> rfl
  | cons g t ih =>
    simp only [List.cons_append, lastInfo, ih]
    by_cases e : h.a = a
    · simp [e]
    · simp [e]

/-- every position handed out on `b` is below `specNext`, and `specNext` is 0 or one past a
    position that was handed out: `specNext H b = 1 + max{i | (b,i) ∈ H}`, 0 if none. -/
theorem specNext_spec (H : List (Hand α)) (b : Int) :
    (∀ h ∈ H, ∀ i, h.pos = some (b, i) → i < specNext H b) ∧
    (specNext H b = 0 ∨ ∃ h ∈ H, h.pos = some (b, specNext H b - 1)) := by
  induction H with
  | nil => simp [specNext]
  | cons g t ih =>
    obtain ⟨ih1, ih2⟩ := ih
    cases hg : g.pos with
    | none =>
      simp only [specNext, hg, List.mem_cons, forall_eq_or_imp]
      refine ⟨⟨(by intro i h; cases h), ih1⟩, ?_⟩
      rcases ih2 with h | ⟨h, hm, hp⟩
      · exact Or.inl h
      · exact Or.inr ⟨h, Or.inr hm, hp⟩
    | some p =>
      obtain ⟨b', j⟩ := p
      by_cases e : b' = b
      · subst e
        simp only [specNext, hg, if_true, List.mem_cons, forall_eq_or_imp]
        refine ⟨⟨?_, ?_⟩, ?_⟩
        · intro i h
          have : j = i := by cases h; rfl
          omega
        · intro h hm i hp
          have := ih1 h hm i hp
          omega
        · right
          by_cases hle : specNext t b' ≤ j + 1
          · refine ⟨g, Or.inl rfl, ?_⟩
            have : max (j + 1) (specNext t b') = j + 1 := by omega
            rw [this, hg]; simp
          · rcases ih2 with h | ⟨h, hm, hp⟩
            · omega
            · refine ⟨h, Or.inr hm, ?_⟩
              have : max (j + 1) (specNext t b') = specNext t b' := by omega
              rw [this]; exact hp
      · simp only [specNext, hg, e, if_false, List.mem_cons, forall_eq_or_imp]
        refine ⟨⟨?_, ih1⟩, ?_⟩
        · intro i h
          have : b' = b := by cases h; rfl
          exact absurd this e
        · rcases ih2 with h | ⟨h, hm, hp⟩
          · exact Or.inl h
          · exact Or.inr ⟨h, Or.inr hm, hp⟩

/-! ### the simulation -/

/-- the implementation state is a function of the hand-outs so far. -/
structure Inv (src : Source α) (w : Wallet α) (H : List (Hand α)) : Prop where
  next : ∀ b, w.next b = specNext H b
  keys : w.ledger.map Prod.fst = firstOcc (H.map (·.a))
  info : ∀ a, w.ledger.lookup a = lastInfo H a
  real : ∀ h ∈ H, ∀ b i, h.pos = some (b, i) → src.branches.contains b = true ∧ src.addr b i = some h.a

theorem inv_empty (src : Source α) : Inv src (Wallet.empty : Wallet α) [] :=
  ⟨fun _ => rfl, rfl, fun _ => rfl, by simp⟩

theorem any_eq_mem_keys (l : List (α × Info)) (a : α) :
    (l.any fun p => decide (p.1 = a)) = decide (a ∈ l.map Prod.fst) := by
  induction l with
  | nil => simp
  | cons p t ih =>
    simp only [List.any_cons, ih, List.map_cons, List.mem_cons]
    by_cases e : p.1 = a
    · simp [e]
    · have : ¬ a = p.1 := fun h => e h.symm
      simp [e, this]

/-- one hand-out at position `(b, i)`: what both machines do, related. -/
theorem hand_sim (src : Source α) (w : Wallet α) (H : List (Hand α)) (inv : Inv src w H) (b i : Int) :
    let r := Wallet.address src w b i
    let s : List (Hand α) × WalletOut α :=
      if src.branches.contains b && decide (0 ≤ i) then
        match src.addr b i.toNat with
        | some a => if src.isEmpty a then (H, .err .value) else (H ++ [⟨some (b, i.toNat), a⟩], .addr a)
        | none => (H, .err .value)
      else (H, .err .value)
    (match r.2 with | .ok a => WalletOut.addr a | .error e => .err e) = s.2 ∧ Inv src r.1 s.1 := by
  intro r s
  simp only [r, s, address_closed]
  by_cases hok : (src.branches.contains b && decide (0 ≤ i)) = true
  · simp only [hok, if_true]
    cases ha : src.addr b i.toNat with
    | none => exact ⟨by first | rfl | trivial, inv⟩
    | some a =>
      simp only
      by_cases he : src.isEmpty a = true
      · simp only [he, if_true]; exact ⟨by first | rfl | trivial, inv⟩
      · simp only [he, Bool.false_eq_true, if_false]
        refine ⟨by first | rfl | trivial, ?_⟩
        have hb : src.branches.contains b = true := by
          simp only [Bool.and_eq_true] at hok; exact hok.1
        have hi : 0 ≤ i := by
          simp only [Bool.and_eq_true, decide_eq_true_eq] at hok; exact hok.2
        constructor
        · intro b'
          simp only [specNext_snoc]
          by_cases e : b' = b
          · subst e
            try simp only [if_true]
            rw [inv.next]
            have : (i + 1).toNat = i.toNat + 1 := by omega
            rw [this]
          · have e2 : ¬ b = b' := fun h => e h.symm
            simp only [e, e2, if_false]
            exact inv.next b'
        · simp only [List.map_append, List.map_cons, List.map_nil, firstOcc_snoc, keys_record, inv.keys]
        · intro a'
          simp only [lookup_record, lastInfo_snoc, inv.info, Hand.info]
          by_cases e : a' = a
          · subst e
            have : ((i.toNat : Nat) : Int) = i := by omega
            simp [this]
          · have e2 : ¬ a = a' := fun h => e h.symm
            simp [e, e2]
        · intro h hm b' i' hp
          simp only [List.mem_append, List.mem_singleton] at hm
          rcases hm with hm | rfl
          · exact inv.real h hm b' i' hp
          · simp only [Option.some.injEq, Prod.mk.injEq] at hp
            obtain ⟨rfl, rfl⟩ := hp
            exact ⟨hb, ha⟩
  · simp only [hok]
    exact ⟨by first | rfl | trivial, inv⟩

theorem step_sim (src : Source α) (op : WalletOp α) (w : Wallet α) (H : List (Hand α))
    (inv : Inv src w H) :
    (Wallet.step src op w).2 = (specStep src op H).2 ∧
    Inv src (Wallet.step src op w).1 (specStep src op H).1 := by
  cases op with
  | address b i =>
    have := hand_sim src w H inv b i
    simp only [Wallet.step, specStep]
    generalize Wallet.address src w b i = r at this
    obtain ⟨w', o⟩ := r
    cases o <;> exact this
  | next b =>
    have hn : ((if w.next b = 0 then Gen.Lifecycle.walletNextDefault else w.next b : Nat) : Int)
        = (specNext H b : Int) := by
      rw [← inv.next b]
      simp only [Gen.Lifecycle.walletNextDefault]
      split <;> simp_all
    have := hand_sim src w H inv b (specNext H b)
    simp only [Wallet.step, specStep, Wallet.nextAddress, hn]
    generalize Wallet.address src w b (specNext H b) = r at this
    obtain ⟨w', o⟩ := r
    cases o <;> exact this
  | positionOf a last => exact ⟨by first | rfl | trivial, inv⟩
  | info a =>
    simp only [Wallet.step, specStep, inv.info a]
    cases lastInfo H a <;> exact ⟨by first | rfl | trivial, inv⟩
  | contains a =>
    simp only [Wallet.step, specStep]
    refine ⟨?_, inv⟩
    rw [any_eq_mem_keys, inv.keys]
    congr 1
    simp [mem_firstOcc]
  | len =>
    simp only [Wallet.step, specStep]
    refine ⟨?_, inv⟩
    rw [← inv.keys]; simp
  | add oa =>
    cases oa with
    | none => exact ⟨rfl, inv⟩
    | some a =>
    simp only [Wallet.step, specStep]
    refine ⟨by first | rfl | trivial, ?_⟩
    constructor
    · intro b; simp only [specNext_snoc]; exact inv.next b
    · simp only [List.map_append, List.map_cons, List.map_nil, firstOcc_snoc, keys_record, inv.keys]
    · intro a'
      simp only [lookup_record, lastInfo_snoc, inv.info, Hand.info]
      by_cases e : a' = a
      · subst e; simp
      · have e2 : ¬ a = a' := fun h => e h.symm
        simp [e, e2]
    · intro h hm b' i' hp
      simp only [List.mem_append, List.mem_singleton] at hm
      rcases hm with hm | rfl
      · exact inv.real h hm b' i' hp
      · cases hp

theorem run_sim (src : Source α) (ops : List (WalletOp α)) (w : Wallet α) (H : List (Hand α))
    (inv : Inv src w H) :
    (Wallet.run src ops w).1 = (specRun src ops H).1 ∧
    Inv src (Wallet.run src ops w).2 (specRun src ops H).2 := by
  induction ops generalizing w H with
  | nil => exact ⟨by first | rfl | trivial, inv⟩
  | cons op ops ih =>
    obtain ⟨h1, h2⟩ := step_sim src op w H inv
    obtain ⟨h3, h4⟩ := ih _ _ h2
    simp only [Wallet.run, specRun]
    exact ⟨by rw [h1, h3], h4⟩

end Btc.C20
