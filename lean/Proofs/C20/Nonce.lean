import Model.C20.Lifecycle
/-! C20 helper lemmas: the nonce consumed by `musig2.sign`, in every spelling a caller can hold it in. -/
namespace Btc.C20
open Btc

theorem spent_zeroPrefix (bs : Bytes) : Spent (zeroPrefix 64 bs) := by
  simp [Spent, zeroPrefix]

theorem spent_k1 {bs : Bytes} (h : Spent bs) : ofBE (bs.take 32) = 0 := by
  have : bs.take 32 = (bs.take 64).take 32 := by simp [List.take_take]
  rw [this, h]
  decide

theorem spent_length {bs : Bytes} (h : Spent bs) : 64 ≤ bs.length := by
  have := congrArg List.length h
  simp at this
  omega

/-- The shape of every outcome of `musig2.sign` as the current source orders its statements, whatever the
    spelling: either the call raised and the caller's object is as it was, or the first 64 bytes are gone —
    and only the second can carry a signature. -/
theorem signK_cases (kind : NonceKind) (x : SignArgs) (nonce : Bytes) :
    ((Nonce.signK kind x nonce).1 = nonce ∧ ∃ e, (Nonce.signK kind x nonce).2 = .error e) ∨
    ((Nonce.signK kind x nonce).1 = zeroPrefix 64 nonce ∧ x.ctxOk = true ∧
      (kind = .buf ∨ (kind = .view ∧ 64 ≤ nonce.length))) := by
  cases hc : x.ctxOk
  · left
    simp [Nonce.signK, Gen.Lifecycle.musigSign, runSign, hc]
  · cases kind with
    | text => left; simp [Nonce.signK, Gen.Lifecycle.musigSign, runSign, hc]
    | frozen => left; simp [Nonce.signK, Gen.Lifecycle.musigSign, runSign, hc]
    | buf =>
      right
      refine ⟨?_, rfl, Or.inl rfl⟩
      simp only [Nonce.signK, Gen.Lifecycle.musigSign, runSign, hc, if_true]
      repeat' split
      all_goals first | rfl | (exfalso; simp_all)
    | view =>
      by_cases hl : 64 ≤ nonce.length
      · right
        refine ⟨?_, rfl, Or.inr ⟨rfl, hl⟩⟩
        simp only [Nonce.signK, Gen.Lifecycle.musigSign, runSign, hc, if_true, hl]
        repeat' split
        all_goals first | rfl | (exfalso; simp_all)
      · left
        simp [Nonce.signK, Gen.Lifecycle.musigSign, runSign, hc, hl]

/-- a call that returned a signature has overwritten the caller's object. -/
theorem signK_sig_spends (kind : NonceKind) (x : SignArgs) (nonce : Bytes) (s : Bytes)
    (h : (Nonce.signK kind x nonce).2 = .ok s) : Spent (Nonce.signK kind x nonce).1 := by
  rcases signK_cases kind x nonce with ⟨_, e, he⟩ | ⟨h2, _, _⟩
  · rw [he] at h; cases h
  · rw [h2]; exact spent_zeroPrefix nonce

/-- a spent nonce is refused, in every spelling. -/
theorem signK_spent_errs (kind : NonceKind) (x : SignArgs) (nonce : Bytes) (h : Spent nonce) :
    ∃ e, (Nonce.signK kind x nonce).2 = .error e := by
  cases hc : x.ctxOk
  · exact ⟨x.ctxErr, by simp [Nonce.signK, Gen.Lifecycle.musigSign, runSign, hc]⟩
  · have hk := spent_k1 h
    have hl := spent_length h
    cases kind with
    | buf => exact ⟨.value, by simp [Nonce.signK, Gen.Lifecycle.musigSign, runSign, hc, hk]⟩
    | view => exact ⟨.value, by simp [Nonce.signK, Gen.Lifecycle.musigSign, runSign, hc, hk, hl]⟩
    | frozen => exact ⟨.foreign, by simp [Nonce.signK, Gen.Lifecycle.musigSign, runSign, hc]⟩
    | text => exact ⟨.foreign, by simp [Nonce.signK, Gen.Lifecycle.musigSign, runSign, hc]⟩

theorem signK_spent_stays (kind : NonceKind) (x : SignArgs) (nonce : Bytes) (h : Spent nonce) :
    Spent (Nonce.signK kind x nonce).1 := by
  rcases signK_cases kind x nonce with ⟨h2, _⟩ | ⟨h2, _⟩
  · rw [h2]; exact h
  · rw [h2]; exact spent_zeroPrefix nonce

/-- an immutable spelling never yields a signature and is never changed. -/
theorem signK_immutable (kind : NonceKind) (hk : kind = .frozen ∨ kind = .text) (x : SignArgs) (nonce : Bytes) :
    (Nonce.signK kind x nonce).1 = nonce ∧ ∃ e, (Nonce.signK kind x nonce).2 = .error e := by
  rcases signK_cases kind x nonce with h | ⟨_, _, h3⟩
  · exact h
  · rcases hk with rfl | rfl <;> rcases h3 with h3 | ⟨h3, _⟩ <;> cases h3

/-! the `bytearray` case, as the earlier lemmas state it -/

theorem sign_cases (x : SignArgs) (nonce : Bytes) :
    (x.ctxOk = false ∧ Nonce.sign x nonce = (nonce, .error x.ctxErr)) ∨
    (x.ctxOk = true ∧ (Nonce.sign x nonce).1 = zeroPrefix 64 nonce) := by
  cases hc : x.ctxOk
  · left
    simp [Nonce.sign, Nonce.signK, Gen.Lifecycle.musigSign, runSign, hc]
  · right
    refine ⟨rfl, ?_⟩
    simp only [Nonce.sign, Nonce.signK, Gen.Lifecycle.musigSign, runSign, hc, if_true]
    repeat' split
    all_goals first | rfl | (exfalso; simp_all)

theorem sign_spent_errs (x : SignArgs) (nonce : Bytes) (h : Spent nonce) :
    ∃ e, (Nonce.sign x nonce).2 = .error e := signK_spent_errs .buf x nonce h

theorem sign_spent_stays (x : SignArgs) (nonce : Bytes) (h : Spent nonce) :
    Spent (Nonce.sign x nonce).1 := signK_spent_stays .buf x nonce h

end Btc.C20
