import Model.C20.Lifecycle
/-! C20 helper lemmas: the nonce consumed by `musig2.sign`. -/
namespace Btc.C20
open Btc

theorem spent_zeroPrefix (bs : Bytes) : Spent (zeroPrefix 64 bs) := by
  simp [Spent, zeroPrefix]

theorem ofBE_replicate_zero (n : Nat) : ofBE (List.replicate n 0) = 0 := by
  have h : ∀ (n acc : Nat), (List.replicate n (0 : UInt8)).foldl (fun acc b => acc * 256 + b.toNat) acc
      = acc * 256 ^ n := by
    intro n
    induction n with
    | zero => intro acc; simp
    | succ k ih => intro acc; simp [List.replicate_succ, ih, Nat.pow_succ, Nat.mul_assoc, Nat.mul_comm 256]
  simp [ofBE, h]

theorem spent_k1 {bs : Bytes} (h : Spent bs) : ofBE (bs.take 32) = 0 := by
  have : bs.take 32 = (bs.take 64).take 32 := by simp [List.take_take]
  rw [this, h]
  decide

/-- the shape of every outcome of `musig2.sign` as the current source orders its statements:
    either the session did not assemble and nothing was touched, or the first 64 bytes are gone. -/
theorem sign_cases (x : SignArgs) (nonce : Bytes) :
    (x.ctxOk = false ∧ Nonce.sign x nonce = (nonce, .error x.ctxErr)) ∨
    (x.ctxOk = true ∧ (Nonce.sign x nonce).1 = zeroPrefix 64 nonce) := by
  cases hc : x.ctxOk
  · left
    simp [Nonce.sign, Gen.Lifecycle.musigSign, runSign, hc]
  · right
    refine ⟨rfl, ?_⟩
    simp only [Nonce.sign, Gen.Lifecycle.musigSign, runSign, hc, if_true]
    repeat' split
    all_goals rfl

/-- a spent nonce is refused (or the session is, before the nonce is looked at). -/
theorem sign_spent_errs (x : SignArgs) (nonce : Bytes) (h : Spent nonce) :
    ∃ e, (Nonce.sign x nonce).2 = .error e := by
  cases hc : x.ctxOk
  · exact ⟨x.ctxErr, by simp [Nonce.sign, Gen.Lifecycle.musigSign, runSign, hc]⟩
  · have hk := spent_k1 h
    exact ⟨.value, by simp [Nonce.sign, Gen.Lifecycle.musigSign, runSign, hc, hk]⟩

theorem sign_spent_stays (x : SignArgs) (nonce : Bytes) (h : Spent nonce) :
    Spent (Nonce.sign x nonce).1 := by
  rcases sign_cases x nonce with ⟨_, h2⟩ | ⟨_, h2⟩
  · rw [h2]; exact h
  · rw [h2]; exact spent_zeroPrefix nonce

end Btc.C20
