import Proofs.C03.Schnorr
/-
C03 helper lemmas: the fixed-size codec, `gen_keys`, and sign-to-contract.
-/
namespace Btc.Schnorr
open Btc

variable {α : Type} {o : GroupOps α}

/-! ## codec (no group law needed) -/

theorem sigValid_range (sg : Sig) (h : sigValid o sg = .ok ()) :
    0 ≤ sg.r ∧ sg.r < o.p ∧ 0 ≤ sg.s ∧ sg.s < o.n := by
  obtain ⟨hx, h1, h2⟩ := (sigValid_ok_iff sg).1 h
  simp only [isXCoord, Bool.and_eq_true, decide_eq_true_eq] at hx
  exact ⟨hx.1.1, hx.1.2, h1, h2⟩

theorem serialize_ok (prm : Params) (sg : Sig) (b : Bytes) (h : serialize o prm sg = .ok b) :
    sigValid o sg = .ok () ∧ b = intBE prm.pSize sg.r ++ intBE prm.nSize sg.s := by
  unfold serialize at h
  split at h
  · cases h
  · next hv =>
    cases h
    exact ⟨by cases hu : sigValid o sg <;> simp_all, rfl⟩

theorem serialize_length (prm : Params) (sg : Sig) (b : Bytes) (h : serialize o prm sg = .ok b) :
    b.length = prm.pSize + prm.nSize := by
  obtain ⟨_, rfl⟩ := serialize_ok prm sg b h
  simp [intBE]

theorem parse_ok (prm : Params) (b : Bytes) (sg : Sig) (h : parse o prm b = .ok sg) :
    b.length = Gen.Schnorr.REQUIRED_LENGTH ∧ sigValid o sg = .ok () ∧
    sg = ⟨(ofBE (b.take prm.pSize) : Nat), (ofBE (b.drop prm.pSize) : Nat)⟩ := by
  unfold parse at h
  split at h
  · cases h
  · next hl =>
    dsimp only at h
    split at h
    · cases h
    · next hv =>
      cases h
      exact ⟨by simpa using hl, by
        cases hu : sigValid o ⟨(ofBE (b.take prm.pSize) : Nat), (ofBE (b.drop prm.pSize) : Nat)⟩ <;> simp_all, rfl⟩

/-- T5a: `parse (serialize sig) = sig` -/
theorem parse_serialize (prm : Params)
    (hsz : prm.pSize + prm.nSize = Gen.Schnorr.REQUIRED_LENGTH)
    (hp : o.p ≤ 256 ^ prm.pSize) (hn : o.n ≤ 256 ^ prm.nSize)
    (sg : Sig) (b : Bytes) (h : serialize o prm sg = .ok b) : parse o prm b = .ok sg := by
  obtain ⟨hv, rfl⟩ := serialize_ok prm sg b h
  obtain ⟨hr0, hrp, hs0, hsn⟩ := sigValid_range sg hv
  have hlen : (intBE prm.pSize sg.r ++ intBE prm.nSize sg.s).length = Gen.Schnorr.REQUIRED_LENGTH := by
    simp [intBE, hsz]
  have ht : (intBE prm.pSize sg.r ++ intBE prm.nSize sg.s).take prm.pSize = intBE prm.pSize sg.r := by
    simp [intBE]
  have hd : (intBE prm.pSize sg.r ++ intBE prm.nSize sg.s).drop prm.pSize = intBE prm.nSize sg.s := by
    simp [intBE]
  have e1 : ((ofBE (intBE prm.pSize sg.r) : Nat) : Int) = sg.r := by
    rw [intBE, ofBE_beBytes, Nat.mod_eq_of_lt]
    · exact Int.toNat_of_nonneg hr0
    · have : (sg.r.toNat : Int) < ((256 ^ prm.pSize : Nat) : Int) := by
        rw [Int.toNat_of_nonneg hr0]; push_cast; omega
      exact_mod_cast this
  have e2 : ((ofBE (intBE prm.nSize sg.s) : Nat) : Int) = sg.s := by
    rw [intBE, ofBE_beBytes, Nat.mod_eq_of_lt]
    · exact Int.toNat_of_nonneg hs0
    · have : (sg.s.toNat : Int) < ((256 ^ prm.nSize : Nat) : Int) := by
        rw [Int.toNat_of_nonneg hs0]; push_cast; omega
      exact_mod_cast this
  unfold parse
  rw [if_neg (by simpa using hlen)]
  dsimp only
  rw [ht, hd, e1, e2]
  have : ({ r := sg.r, s := sg.s } : Sig) = sg := rfl
  rw [this, hv]

/-- T5b: `serialize (parse b) = b` -/
theorem serialize_parse (prm : Params)
    (hsz : prm.pSize + prm.nSize = Gen.Schnorr.REQUIRED_LENGTH)
    (b : Bytes) (sg : Sig) (h : parse o prm b = .ok sg) : serialize o prm sg = .ok b := by
  obtain ⟨hl, hv, rfl⟩ := parse_ok prm b sg h
  unfold serialize
  rw [hv]
  dsimp only [intBE]
  have h1 : (b.take prm.pSize).length = prm.pSize := by
    rw [List.length_take]; omega
  have h2 : (b.drop prm.pSize).length = prm.nSize := by
    rw [List.length_drop]; omega
  have e1 : beBytes prm.pSize (ofBE (b.take prm.pSize)) = b.take prm.pSize := by
    have := beBytes_ofBE (b.take prm.pSize)
    rwa [h1] at this
  have e2 : beBytes prm.nSize (ofBE (b.drop prm.pSize)) = b.drop prm.pSize := by
    have := beBytes_ofBE (b.drop prm.pSize)
    rwa [h2] at this
  simp only [Int.toNat_natCast, e1, e2, List.take_append_drop]

/-! ## `gen_keys` and sign-to-contract -/

variable {G : Type} [AddCommGroup G] (L : Lawful o G) (prm : Params)

/-- T6: `gen_keys` returns a scalar in range whose point has even y and the returned x; the
    x-only key lifts to that very point -/
theorem genKeys_spec (Y : YCongr L) (q q' x : Int) (h : genKeys o q = .ok (q', x)) :
    0 < q' ∧ q' < o.n ∧ o.hasEvenY (o.mul q' o.gen) = true ∧ o.x (o.mul q' o.gen) = x ∧
    ∃ Q, o.liftX x = some Q ∧ L.abs Q = q' • L.abs o.gen := by
  unfold genKeys at h
  split at h
  · cases h
  · next hq =>
    have hq : 0 < q ∧ q < o.n := by simpa using hq
    simp only [Except.ok.injEq, Prod.mk.injEq] at h
    obtain ⟨rfl, rfl⟩ := h
    have hs := evenScalar_spec L Y q hq.1 hq.2
    have hP := hs.2.2 (o.mul (evenScalar o q) o.gen) (L.abs_mul _ _)
    have hP0 := L.mul_gen_ne_zero _ hs.1 hs.2.1
    obtain ⟨Q, hQ, hQabs⟩ := L.liftX_of_even Y _ hP0 ((Lawful.hasEvenY_iff _).1 hP.1)
    rw [hP.2] at hQ
    exact ⟨hs.1, hs.2.1, hP.1, hP.2, Q, hQ, by rw [hQabs, L.abs_mul]⟩

theorem commitNonce_spec (fuel : Nat) (commitHash : Bytes) (k k1 : Int) (R : α)
    (h : commitNonce o prm fuel commitHash k = .ok (k1, R)) :
    0 < k ∧ k < o.n ∧ R = o.mul k o.gen ∧ 0 < k1 ∧ k1 < o.n ∧
    ∃ e, tweak o prm fuel commitHash R = .ok e ∧ k1 = (k + e) % o.n := by
  unfold commitNonce at h
  split at h
  · cases h
  · next hk =>
    have hk : 0 < k ∧ k < o.n := by simpa using hk
    dsimp only at h
    split at h
    · cases h
    · next e he =>
      split at h
      · cases h
      · next hz =>
        simp only [Except.ok.injEq, Prod.mk.injEq] at h
        obtain ⟨rfl, rfl⟩ := h
        have hn : 0 < o.n := by omega
        have := Int.emod_nonneg (k + e) (ne_of_gt hn)
        have := Int.emod_lt_of_pos (k + e) hn
        exact ⟨hk.1, hk.2, rfl, by omega, by omega, e, he, rfl⟩

/-- (c): a signature made with a sign-to-contract commitment verifies as an ordinary BIP340
    signature, and the commitment opens with the returned receipt -/
theorem signCommit_verifies (Y : YCongr L) (fuel : Nat) (msg : Bytes) (q : Int) (aux commitHash : Bytes)
    (sg : Sig) (R : α) (h : signCommit o prm fuel msg q aux commitHash = .ok (sg, R)) :
    assertAsValid o prm msg (o.x (o.mul q o.gen)) sg = .ok () ∧
    assertCommitment o prm fuel commitHash R sg = .ok () ∧
    o.hasEvenY R = true := by
  unfold signCommit at h
  split at h
  · cases h
  · dsimp only at h
    split at h
    · cases h
    · next k xK0 q' xQ hn =>
      obtain ⟨hq0, hqn, rfl, rfl, hk⟩ := nonce_spec L prm Y fuel msg q _ _ _ _ _ hn
      split at h
      · cases h
      · next k1 R' hcn =>
        obtain ⟨hk0, hkn, rfl, hk10, hk1n, e, he, rfl⟩ := commitNonce_spec prm fuel commitHash k _ _ hcn
        split at h
        · cases h
        · next c hc =>
          split at h
          · cases h
          · next sg' hs =>
            simp only [Except.ok.injEq, Prod.mk.injEq] at h
            obtain ⟨rfl, rfl⟩ := h
            obtain ⟨hr, hv, Q, hQ, hcore⟩ :=
              signCore_verifies L Y c _ _ _ _ sg' (evenScalar_spec L Y q hq0 hqn)
                (evenScalar_spec L Y _ hk10 hk1n) hs
            refine ⟨?_, ?_, ?_⟩
            · unfold assertAsValid
              rw [hv]; simp only [hQ]
              rw [hr, hc]; simp only []
              rw [← hr]; exact hcore
            · unfold assertCommitment commitPoint
              rw [he]; dsimp only
              have hW : L.abs (o.add (o.mul k o.gen) (o.mul e o.gen)) = L.abs (o.mul ((k + e) % o.n) o.gen) := by
                rw [L.abs_add, L.abs_mul, L.abs_mul, L.abs_mul, L.zsmul_mod, add_zsmul]
              have hW0 : L.abs (o.add (o.mul k o.gen) (o.mul e o.gen)) ≠ 0 := by
                rw [hW]; exact L.mul_gen_ne_zero _ hk10 hk1n
              rw [hr, L.x_congr hW hW0]; simp
            · exact (hk.2.2 (o.mul k o.gen) (L.abs_mul _ _)).1

end Btc.Schnorr
