import Model.C03.Schnorr
import Proofs.Common.LawfulY
import Proofs.Common.Bytes
/-
C03 helper lemmas: BIP340 sign / verify over a lawful group.
-/
namespace Btc.Schnorr
open Btc

variable {α G : Type} [AddCommGroup G] {o : GroupOps α}

/-- `d` is a scalar in `1..n-1` whose point has even y and x-coordinate `x`, whatever element of
    `α` represents that point -/
def EvenRep (L : Lawful o G) (d x : Int) : Prop :=
  0 < d ∧ d < o.n ∧ ∀ P', L.abs P' = d • L.abs o.gen → o.hasEvenY P' = true ∧ o.x P' = x

section
variable (L : Lawful o G) (prm : Params)

theorem evenScalar_spec (Y : YCongr L) (q : Int) (h0 : 0 < q) (hn : q < o.n) :
    EvenRep L (evenScalar o q) (o.x (o.mul q o.gen)) := by
  have hne := L.mul_gen_ne_zero q h0 hn
  have habs : L.abs (o.mul q o.gen) = q • L.abs o.gen := L.abs_mul q o.gen
  unfold evenScalar
  by_cases he : o.hasEvenY (o.mul q o.gen) = true
  · rw [if_pos he]
    refine ⟨h0, hn, fun P' hP' => ?_⟩
    have h1 : L.abs P' = L.abs (o.mul q o.gen) := by rw [hP', habs]
    have hP0 : L.abs P' ≠ 0 := h1 ▸ hne
    exact ⟨by rw [L.hasEvenY_congr Y h1 hP0]; exact he, L.x_congr h1 hP0⟩
  · rw [if_neg he]
    refine ⟨by omega, by omega, fun P' hP' => ?_⟩
    have h1 : L.abs P' = L.abs (o.neg (o.mul q o.gen)) := by
      rw [hP', L.abs_neg, habs, sub_zsmul, L.order]; abel
    have hneg0 : L.abs (o.neg (o.mul q o.gen)) ≠ 0 := by
      rw [L.abs_neg]; exact neg_ne_zero.mpr hne
    have hP0 : L.abs P' ≠ 0 := h1 ▸ hneg0
    refine ⟨?_, ?_⟩
    · rw [L.hasEvenY_congr Y h1 hP0, Lawful.hasEvenY_iff]
      apply (L.y_neg _ hne).2
      rw [← Lawful.hasEvenY_iff]; exact he
    · rw [L.x_congr h1 hP0, L.x_neg]

theorem hashToScalar_range (tag : Bytes) (fuel : Nat) (t : Bytes) (v : Int)
    (h : hashToScalar o prm tag fuel t = .ok v) : 0 < v ∧ v < o.n := by
  induction fuel generalizing t with
  | zero => simp [hashToScalar] at h
  | succ f ih =>
    simp only [hashToScalar] at h
    split at h
    · next hc => cases h; exact hc
    · exact ih _ h

theorem nonce_spec (Y : YCongr L) (fuel : Nat) (msg : Bytes) (q : Int) (aux : Bytes) (k xK q' xQ : Int)
    (h : nonce o prm fuel msg q aux = .ok (k, xK, q', xQ)) :
    0 < q ∧ q < o.n ∧ q' = evenScalar o q ∧ xQ = o.x (o.mul q o.gen) ∧ EvenRep L k xK := by
  unfold nonce at h
  split at h
  · cases h
  · next hq =>
    have hq : 0 < q ∧ q < o.n := by simpa using hq
    dsimp only at h
    split at h
    · cases h
    · next k0 hk0 =>
      simp only [Except.ok.injEq, Prod.mk.injEq] at h
      obtain ⟨rfl, rfl, rfl, rfl⟩ := h
      have hr := hashToScalar_range prm _ _ _ _ hk0
      exact ⟨hq.1, hq.2, rfl, rfl, evenScalar_spec L Y k0 hr.1 hr.2⟩

/-- a non-zero element's x-coordinate passes `_is_x_coordinate_var` -/
theorem isXCoord_x (P : α) (hP : L.abs P ≠ 0) : isXCoord o (o.x P) = true := by
  have hr := L.x_range P hP
  have : (o.liftX (o.x P)).isSome = true := by
    cases hl : o.liftX (o.x P) with
    | none => exact absurd rfl (L.liftX_none _ hl P hP)
    | some Q => rfl
  simp [isXCoord, hr.1, hr.2, this]

theorem sigValid_ok_iff (sg : Sig) :
    sigValid o sg = .ok () ↔ isXCoord o sg.r = true ∧ 0 ≤ sg.s ∧ sg.s < o.n := by
  unfold sigValid
  by_cases h1 : isXCoord o sg.r = false
  · simp [h1]
  · have h1' : isXCoord o sg.r = true := by simpa using h1
    by_cases h2 : 0 ≤ sg.s ∧ sg.s < o.n
    · simp [h1', h2]
    · simp [h1', h2]

theorem sigValid_cases (sg : Sig) : sigValid o sg = .ok () ∨ sigValid o sg = .error .value := by
  unfold sigValid; split <;> [skip; split] <;> simp

/-- what `_assert_as_valid_` computes, in the group -/
theorem abs_K (c : Int) (Q : α) (s : Int) :
    L.abs (o.dmul (o.n - c) Q s o.gen) = s • L.abs o.gen - c • L.abs Q := by
  rw [L.abs_dmul, sub_zsmul, L.order]; abel

theorem assertCore_ok_iff' (c : Int) (Q : α) (r s : Int) :
    assertCore o c Q r s = .ok () ↔
      o.isZero (o.dmul (o.n - c) Q s o.gen) = false ∧ o.hasEvenY (o.dmul (o.n - c) Q s o.gen) = true ∧
      o.x (o.dmul (o.n - c) Q s o.gen) = r % o.p := by
  unfold assertCore
  dsimp only
  by_cases h1 : o.isZero (o.dmul (o.n - c) Q s o.gen) = true
  · simp [h1]
  · have h1' : o.isZero (o.dmul (o.n - c) Q s o.gen) = false := by simpa using h1
    by_cases h2 : o.hasEvenY (o.dmul (o.n - c) Q s o.gen) = false
    · simp [h1', h2]
    · have h2' : o.hasEvenY (o.dmul (o.n - c) Q s o.gen) = true := by simpa using h2
      by_cases h3 : o.x (o.dmul (o.n - c) Q s o.gen) = r % o.p <;> simp [h1', h2', h3]

/-- for an `r` that is a field element (every public caller's case) the comparison is with `r` itself -/
theorem assertCore_ok_iff (c : Int) (Q : α) (r s : Int) (hr : 0 ≤ r ∧ r < o.p) :
    assertCore o c Q r s = .ok () ↔
      o.isZero (o.dmul (o.n - c) Q s o.gen) = false ∧ o.hasEvenY (o.dmul (o.n - c) Q s o.gen) = true ∧
      o.x (o.dmul (o.n - c) Q s o.gen) = r := by
  rw [assertCore_ok_iff', Int.emod_eq_of_lt hr.1 hr.2]

/-- the heart of completeness: a signature made by `_sign_` from normalised `(q', k')` passes
    `_assert_as_valid_` under the lifted key -/
theorem signCore_verifies (Y : YCongr L) (c q' k' xQ xK : Int) (sg : Sig)
    (hq : EvenRep L q' xQ) (hk : EvenRep L k' xK)
    (h : signCore o c q' k' xK = .ok sg) :
    sg.r = xK ∧ sigValid o sg = .ok () ∧
    ∃ Q, o.liftX xQ = some Q ∧ assertCore o c Q sg.r sg.s = .ok () := by
  unfold signCore at h
  split at h
  · cases h
  · dsimp only at h
    split at h
    · cases h
    · next hv =>
      cases h
      have hsv : sigValid o ⟨xK, (k' + c * q') % o.n⟩ = .ok () := by
        cases hu : sigValid o ⟨xK, (k' + c * q') % o.n⟩ <;> simp_all
      have hrng : 0 ≤ xK ∧ xK < o.p := by
        have := ((sigValid_ok_iff (o := o) ⟨xK, (k' + c * q') % o.n⟩).1 hsv).1
        simp only [isXCoord, Bool.and_eq_true, decide_eq_true_eq] at this
        exact this.1
      refine ⟨rfl, hsv, ?_⟩
      -- the lifted key
      have hPq := hq.2.2 (o.mul q' o.gen) (L.abs_mul _ _)
      have hPq0 : L.abs (o.mul q' o.gen) ≠ 0 := L.mul_gen_ne_zero q' hq.1 hq.2.1
      obtain ⟨Q, hQ, hQabs⟩ := L.liftX_of_even Y (o.mul q' o.gen) hPq0
        ((Lawful.hasEvenY_iff _).1 hPq.1)
      rw [hPq.2] at hQ
      refine ⟨Q, hQ, ?_⟩
      have hK : L.abs (o.dmul (o.n - c) Q ((k' + c * q') % o.n) o.gen) = k' • L.abs o.gen := by
        rw [abs_K, L.zsmul_mod, hQabs, L.abs_mul, add_zsmul, mul_zsmul]; abel
      have hK0 : L.abs (o.dmul (o.n - c) Q ((k' + c * q') % o.n) o.gen) ≠ 0 := by
        rw [hK, ← L.abs_mul]; exact L.mul_gen_ne_zero k' hk.1 hk.2.1
      have hKk := hk.2.2 _ hK
      rw [assertCore_ok_iff _ _ _ _ hrng]
      refine ⟨?_, hKk.1, hKk.2⟩
      cases hz : o.isZero (o.dmul (o.n - c) Q ((k' + c * q') % o.n) o.gen) with
      | false => rfl
      | true => exact absurd ((L.isZero_iff _).1 hz) hK0

theorem challenge_ok_iff (msg : Bytes) (xQ xK c : Int) :
    challenge o prm msg xQ xK = .ok c ↔ c = challengeInt o prm msg xQ xK ∧ c ≠ 0 := by
  unfold challenge
  by_cases h : challengeInt o prm msg xQ xK = 0
  · simp [h]
  · simp [h]; constructor
    · intro h1; exact ⟨h1.symm, h1 ▸ h⟩
    · intro h1; exact h1.1.symm

/-- T1 (core): any signature `sign_` returns verifies under the signer's x-only key -/
theorem sign_verifies (Y : YCongr L) (fuel : Nat) (msg : Bytes) (q : Int) (aux : Bytes) (sg : Sig)
    (h : sign o prm fuel msg q aux = .ok sg) :
    assertAsValid o prm msg (o.x (o.mul q o.gen)) sg = .ok () := by
  unfold sign at h
  split at h
  · cases h
  · split at h
    · cases h
    · next k xK q' xQ hn =>
      obtain ⟨hq0, hqn, rfl, rfl, hk⟩ := nonce_spec L prm Y fuel msg q aux _ _ _ _ hn
      split at h
      · cases h
      · next c hc =>
        obtain ⟨hr, hv, Q, hQ, hcore⟩ :=
          signCore_verifies L Y c _ _ _ _ sg (evenScalar_spec L Y q hq0 hqn) hk h
        unfold assertAsValid
        rw [hv]; simp only [hQ]
        rw [hr, hc]; simp only []
        rw [← hr]; exact hcore

/-- the self-check of `sign_(verify=True)` never fires: both spellings answer alike -/
theorem signChecked_eq_sign (Y : YCongr L) (fuel : Nat) (msg : Bytes) (q : Int) (aux : Bytes) :
    signChecked o prm fuel msg q aux = sign o prm fuel msg q aux := by
  unfold signChecked sign
  split
  · rfl
  · split
    · rfl
    · next k xK q' xQ hn =>
      obtain ⟨hq0, hqn, rfl, rfl, hk⟩ := nonce_spec L prm Y fuel msg q aux _ _ _ _ hn
      split
      · rfl
      · next c hc =>
        cases hs : signCore o c (evenScalar o q) k xK with
        | error e => rfl
        | ok sg =>
          obtain ⟨_, _, Q, hQ, hcore⟩ :=
            signCore_verifies L Y c _ _ _ _ sg (evenScalar_spec L Y q hq0 hqn) hk hs
          simp only [selfCheck, hQ, hcore]

/-- T2: `verify_` answers true exactly when BIP340's verification equation holds -/
theorem verify_iff (Y : YCongr L) (msg : Bytes) (xQ : Int) (sg : Sig) :
    verify o prm msg xQ sg = true ↔
      0 ≤ sg.r ∧ sg.r < o.p ∧ 0 ≤ sg.s ∧ sg.s < o.n ∧
      ∃ Q, o.liftX xQ = some Q ∧
        challengeInt o prm msg xQ sg.r ≠ 0 ∧
        o.isZero (o.sub (o.mul sg.s o.gen) (o.mul (challengeInt o prm msg xQ sg.r) Q)) = false ∧
        o.hasEvenY (o.sub (o.mul sg.s o.gen) (o.mul (challengeInt o prm msg xQ sg.r) Q)) = true ∧
        o.x (o.sub (o.mul sg.s o.gen) (o.mul (challengeInt o prm msg xQ sg.r) Q)) = sg.r := by
  -- the BIP's `K` and the code's `K` are the same group element
  have key : ∀ (c : Int) (Q : α),
      L.abs (o.dmul (o.n - c) Q sg.s o.gen) = L.abs (o.sub (o.mul sg.s o.gen) (o.mul c Q)) := by
    intro c Q; rw [abs_K, L.abs_sub, L.abs_mul, L.abs_mul]
  have transfer : ∀ (A B : α), L.abs A = L.abs B →
      (o.isZero A = false ∧ o.hasEvenY A = true ∧ o.x A = sg.r ↔
       o.isZero B = false ∧ o.hasEvenY B = true ∧ o.x B = sg.r) := by
    intro A B hAB
    have hz : o.isZero A = o.isZero B := by
      rw [Bool.eq_iff_iff, L.isZero_iff, L.isZero_iff, hAB]
    by_cases hA0 : L.abs A = 0
    · have : o.isZero A = true := (L.isZero_iff A).2 hA0
      have hB : o.isZero B = true := hz ▸ this
      simp [this, hB]
    · rw [hz, L.hasEvenY_congr Y hAB hA0, L.x_congr hAB hA0]
  unfold verify assertAsValid
  constructor
  · intro h
    split at h
    · next hres =>
      split at hres
      · cases hres
      · next hv =>
        have hv' : sigValid o sg = .ok () := by
          cases hu : sigValid o sg <;> simp_all
        obtain ⟨hx, hs0, hsn⟩ := (sigValid_ok_iff sg).1 hv'
        simp only [isXCoord, Bool.and_eq_true, decide_eq_true_eq] at hx
        split at hres
        · cases hres
        · next Q hQ =>
          split at hres
          · cases hres
          · next c hc =>
            obtain ⟨rfl, hc0⟩ := (challenge_ok_iff prm msg xQ sg.r c).1 hc
            refine ⟨hx.1.1, hx.1.2, hs0, hsn, Q, hQ, hc0, ?_⟩
            have := (assertCore_ok_iff (challengeInt o prm msg xQ sg.r) Q sg.r sg.s hx.1).1 hres
            exact (transfer _ _ (key _ Q)).1 this
    · cases h
  · rintro ⟨hr0, hrp, hs0, hsn, Q, hQ, hc0, hK⟩
    have hK' := (transfer _ _ (key _ Q)).2 hK
    have hcore := (assertCore_ok_iff _ Q sg.r sg.s ⟨hr0, hrp⟩).2 hK'
    have hKne : L.abs (o.dmul (o.n - challengeInt o prm msg xQ sg.r) Q sg.s o.gen) ≠ 0 := by
      intro h0; have := (L.isZero_iff _).2 h0; rw [hK'.1] at this; cases this
    have hx : isXCoord o sg.r = true := by
      have := isXCoord_x L _ hKne
      rwa [hK'.2.2] at this
    have hv : sigValid o sg = .ok () := (sigValid_ok_iff sg).2 ⟨hx, hs0, hsn⟩
    have hc : challenge o prm msg xQ sg.r = .ok (challengeInt o prm msg xQ sg.r) :=
      (challenge_ok_iff prm msg xQ sg.r _).2 ⟨rfl, hc0⟩
    rw [hv]; simp only [hQ, hc, hcore]

end
end Btc.Schnorr
