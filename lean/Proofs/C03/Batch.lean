import Model.C03.Batch
import Proofs.C03.Schnorr
/-
C03 helper lemmas: BIP340 batch verification is the linear form `Σ aᵢ•Dᵢ = 0`.
-/
namespace Btc.Schnorr
open Btc

variable {α G : Type} [AddCommGroup G] {o : GroupOps α}

/-! ## pure unfoldings (no group law) -/

/-- the translated statement `rand = 1 if i == 0 else 1 + secrets.randbelow(ec.n - 1)` gives member 0 the coefficient
    1 and member `i ≥ 1` the coefficient `coef i = 1 + draw` -/
theorem coefAt_eq (coef : Nat → Int) (i : Nat) : coefAt coef i = if i = 0 then 1 else coef i := by
  unfold coefAt Gen.Schnorr.batch_rand
  by_cases h : i = 0
  · subst h; simp
  · have h' : ¬ ((i : Int) = 0) := by exact_mod_cast h
    rw [if_neg h', if_neg h]; omega

theorem verify_unfold (prm : Params) (msg : Bytes) (xQ : Int) (sg : Sig) :
    verify o prm msg xQ sg = true ↔
      sigValid o sg = .ok () ∧ ∃ Q, o.liftX xQ = some Q ∧ challengeInt o prm msg xQ sg.r ≠ 0 ∧
        assertCore o (challengeInt o prm msg xQ sg.r) Q sg.r sg.s = .ok () := by
  unfold verify assertAsValid
  constructor
  · intro h
    split at h
    · next hres =>
      split at hres
      · cases hres
      · next hv =>
        have hv' : sigValid o sg = .ok () := by cases hu : sigValid o sg <;> simp_all
        split at hres
        · cases hres
        · next Q hQ =>
          split at hres
          · cases hres
          · next c hc =>
            obtain ⟨rfl, hc0⟩ := (challenge_ok_iff prm msg xQ sg.r c).1 hc
            exact ⟨hv', Q, hQ, hc0, hres⟩
    · cases h
  · rintro ⟨hv, Q, hQ, hc0, hcore⟩
    have hc := (challenge_ok_iff prm msg xQ sg.r _).2 ⟨rfl, hc0⟩
    rw [hv]; simp only [hQ, hc, hcore]

/-- `t = Σ aᵢ·sᵢ` -/
def tSum (coef : Nat → Int) : Nat → List Item → Int
  | _, [] => 0
  | i, it :: rest => coefAt coef i * it.sg.s + tSum coef (i + 1) rest

/-- the interleaved `(scalar, x)` terms -/
def termsOf (o : GroupOps α) (prm : Params) (coef : Nat → Int) : Nat → List Item → List (Int × Int)
  | _, [] => []
  | i, it :: rest =>
    (coefAt coef i, it.sg.r) ::
    (coefAt coef i * challengeInt o prm it.msg it.xQ it.sg.r % o.n, it.xQ) :: termsOf o prm coef (i + 1) rest

theorem batchTerms_ok_iff (prm : Params) (coef : Nat → Int) (i : Nat) (items : List Item)
    (t : Int) (terms : List (Int × Int)) :
    batchTerms o prm coef i items = .ok (t, terms) ↔
      (∀ it ∈ items, (0 ≤ it.xQ ∧ it.xQ < o.p) ∧ challengeInt o prm it.msg it.xQ it.sg.r ≠ 0) ∧
      t = tSum coef i items ∧ terms = termsOf o prm coef i items := by
  induction items generalizing i t terms with
  | nil => simp [batchTerms, tSum, termsOf]; tauto
  | cons it rest ih =>
    unfold batchTerms
    by_cases hx : 0 ≤ it.xQ ∧ it.xQ < o.p
    · rw [if_neg (not_not.mpr hx)]
      by_cases hc0 : challengeInt o prm it.msg it.xQ it.sg.r = 0
      · have : challenge o prm it.msg it.xQ it.sg.r = .error .runtime := by simp [challenge, hc0]
        rw [this]; simp [hc0]
      · have hc : challenge o prm it.msg it.xQ it.sg.r = .ok (challengeInt o prm it.msg it.xQ it.sg.r) :=
          (challenge_ok_iff prm _ _ _ _).2 ⟨rfl, hc0⟩
        rw [hc]; dsimp only
        cases hb : batchTerms o prm coef (i + 1) rest with
        | error e =>
          simp only [reduceCtorEq, false_iff]
          rintro ⟨hall, rfl, rfl⟩
          have := (ih (i + 1) (tSum coef (i + 1) rest) (termsOf o prm coef (i + 1) rest)).2
            ⟨fun it' h' => hall it' (List.mem_cons_of_mem _ h'), rfl, rfl⟩
          rw [hb] at this; cases this
        | ok v =>
          obtain ⟨t', terms'⟩ := v
          obtain ⟨hall, rfl, rfl⟩ := (ih (i + 1) t' terms').1 hb
          simp only [Except.ok.injEq, Prod.mk.injEq, tSum, termsOf, List.mem_cons, forall_eq_or_imp]
          constructor
          · rintro ⟨rfl, rfl⟩; exact ⟨⟨⟨hx, hc0⟩, hall⟩, rfl, rfl⟩
          · rintro ⟨_, rfl, rfl⟩; exact ⟨rfl, rfl⟩
    · rw [if_pos hx]
      simp only [reduceCtorEq, List.mem_cons, forall_eq_or_imp, false_iff]
      rintro ⟨⟨⟨h, _⟩, _⟩, _⟩; exact hx h

theorem allSigValid_ok_iff (items : List Item) :
    allSigValid o items = .ok () ↔ ∀ it ∈ items, sigValid o it.sg = .ok () := by
  induction items with
  | nil => simp [allSigValid]
  | cons it rest ih =>
    unfold allSigValid
    rcases sigValid_cases (o := o) it.sg with h | h
    · rw [h]; simp [ih, h]
    · rw [h]; simp [h]

theorem liftAll_ok_iff (terms : List (Int × Int)) :
    (∃ pts, liftAll o terms = .ok pts) ↔ ∀ ax ∈ terms, (o.liftX ax.2).isSome = true := by
  induction terms with
  | nil => simp [liftAll]
  | cons ax rest ih =>
    obtain ⟨a, x⟩ := ax
    unfold liftAll
    cases hl : o.liftX x with
    | none => simp [hl]
    | some P =>
      simp only [List.mem_cons, forall_eq_or_imp, hl, Option.isSome_some, true_and]
      rw [← ih]
      cases hr : liftAll o rest with
      | error e => simp
      | ok ps => simp

/-! ## in the group -/

section
variable (L : Lawful o G) (prm : Params)

/-- the element an x-coordinate lifts to (0 when it does not lift) -/
def liftAbs (x : Int) : G :=
  match o.liftX x with
  | some P => L.abs P
  | none => 0

theorem liftAbs_rep (x : Int) : ∃ P, liftAbs L x = L.abs P := by
  unfold liftAbs
  cases o.liftX x with
  | none => exact ⟨o.zero, L.abs_zero.symm⟩
  | some P => exact ⟨P, rfl⟩

theorem zsmul_mod_rep (m : Int) (v : G) (hv : ∃ P, v = L.abs P) : (m % o.n) • v = m • v := by
  obtain ⟨P, rfl⟩ := hv; exact L.zsmul_mod m P

/-- `Σ aᵢ•lift(xᵢ)` over a term list -/
def termSum : List (Int × Int) → G
  | [] => 0
  | (a, x) :: rest => a • liftAbs L x + termSum rest

theorem abs_multiMult (terms : List (Int × Int)) (pts : List (Int × α))
    (h : liftAll o terms = .ok pts) : L.abs (multiMult o pts) = termSum L terms := by
  induction terms generalizing pts with
  | nil => simp [liftAll] at h; subst h; simp [multiMult, termSum, L.abs_zero]
  | cons ax rest ih =>
    obtain ⟨a, x⟩ := ax
    unfold liftAll at h
    cases hl : o.liftX x with
    | none => simp [hl] at h
    | some P =>
      simp only [hl] at h
      cases hr : liftAll o rest with
      | error e => simp [hr] at h
      | ok ps =>
        simp only [hr, Except.ok.injEq] at h
        subst h
        simp only [multiMult, termSum, L.abs_add, L.abs_mul, ih ps hr, liftAbs, hl]

/-- the defect of one member: `D = s•G − R − e•Q` with `R = lift_x(r)`, `Q = lift_x(x_Q)` -/
def defect (it : Item) : G :=
  it.sg.s • L.abs o.gen - liftAbs L it.sg.r -
    challengeInt o prm it.msg it.xQ it.sg.r • liftAbs L it.xQ

theorem defect_rep (it : Item) : ∃ P, defect L prm it = L.abs P := by
  obtain ⟨R, hR⟩ := liftAbs_rep L it.sg.r
  obtain ⟨Q, hQ⟩ := liftAbs_rep L it.xQ
  refine ⟨o.sub (o.sub (o.mul it.sg.s o.gen) R) (o.mul (challengeInt o prm it.msg it.xQ it.sg.r) Q), ?_⟩
  rw [defect, L.abs_sub, L.abs_sub, L.abs_mul, L.abs_mul, hR, hQ]

/-- the linear form `Σ aᵢ•Dᵢ` (member `i` of the list has index `i₀ + i`) -/
def lin (coef : Nat → Int) : Nat → List Item → G
  | _, [] => 0
  | i, it :: rest => coefAt coef i • defect L prm it + lin coef (i + 1) rest

theorem tSum_sub_termSum (coef : Nat → Int) (i : Nat) (items : List Item) :
    tSum coef i items • L.abs o.gen - termSum L (termsOf o prm coef i items) = lin L prm coef i items := by
  induction items generalizing i with
  | nil => simp [tSum, termsOf, termSum, lin]
  | cons it rest ih =>
    simp only [tSum, termsOf, termSum, lin]
    rw [← ih (i + 1), zsmul_mod_rep L _ _ (liftAbs_rep L it.xQ), defect]
    simp only [add_zsmul, mul_zsmul, zsmul_sub]
    abel

/-- what the batch checks of every member before the equation -/
def Structural (it : Item) : Prop :=
  sigValid o it.sg = .ok () ∧ (0 ≤ it.xQ ∧ it.xQ < o.p) ∧ (o.liftX it.xQ).isSome = true ∧
  challengeInt o prm it.msg it.xQ it.sg.r ≠ 0

theorem termsOf_liftable (coef : Nat → Int) (i : Nat) (items : List Item) :
    (∀ ax ∈ termsOf o prm coef i items, (o.liftX ax.2).isSome = true) ↔
      ∀ it ∈ items, (o.liftX it.sg.r).isSome = true ∧ (o.liftX it.xQ).isSome = true := by
  induction items generalizing i with
  | nil => simp [termsOf]
  | cons it rest ih =>
    simp only [termsOf, List.mem_cons, forall_eq_or_imp, ih (i + 1)]
    tauto

/-- T4 (exact linear form): for two or more members, the batch passes iff every member passes the
    structural checks and `Σ aᵢ•Dᵢ = 0` -/
theorem assertBatch_ok_iff (coef : Nat → Int) (it0 it1 : Item) (rest : List Item) :
    assertBatch o prm coef (it0 :: it1 :: rest) = .ok () ↔
      (∀ it ∈ it0 :: it1 :: rest, Structural (o := o) prm it) ∧
      lin L prm coef 0 (it0 :: it1 :: rest) = 0 := by
  generalize hitems : it0 :: it1 :: rest = items
  have hunf : assertBatch o prm coef items =
      match allSigValid o items with
      | .error e => .error e
      | .ok _ =>
        match batchTerms o prm coef 0 items with
        | .error e => .error e
        | .ok (t, terms) =>
          match liftAll o terms with
          | .error e => .error e
          | .ok pts => if o.eq (o.mul t o.gen) (multiMult o pts) then .ok () else .error .runtime := by
    subst hitems; rfl
  rw [hunf]
  constructor
  · intro h
    split at h
    · cases h
    · next hsv =>
      have hsv' := (allSigValid_ok_iff items).1 (by cases hu : allSigValid o items <;> simp_all)
      split at h
      · cases h
      · next t terms hbt =>
        obtain ⟨hall, rfl, rfl⟩ := (batchTerms_ok_iff prm coef 0 items _ _).1 hbt
        split at h
        · cases h
        · next pts hla =>
          have hlift := (termsOf_liftable prm coef 0 items).1 ((liftAll_ok_iff _).1 ⟨pts, hla⟩)
          split at h
          · next heq =>
            refine ⟨fun it hit => ⟨hsv' it hit, (hall it hit).1, (hlift it hit).2, (hall it hit).2⟩, ?_⟩
            have := (L.eq_iff _ _).1 heq
            rw [L.abs_mul, abs_multiMult L _ _ hla] at this
            rw [← tSum_sub_termSum, this, sub_self]
          · cases h
  · rintro ⟨hst, hlin⟩
    have hsv : allSigValid o items = .ok () :=
      (allSigValid_ok_iff items).2 fun it hit => (hst it hit).1
    have hbt := (batchTerms_ok_iff prm coef 0 items _ _).2
      ⟨fun it hit => ⟨(hst it hit).2.1, (hst it hit).2.2.2⟩, rfl, rfl⟩
    have hliftable : ∀ it ∈ items, (o.liftX it.sg.r).isSome = true ∧ (o.liftX it.xQ).isSome = true := by
      intro it hit
      refine ⟨?_, (hst it hit).2.2.1⟩
      have := ((sigValid_ok_iff it.sg).1 (hst it hit).1).1
      simp only [isXCoord, Bool.and_eq_true] at this
      exact this.2
    obtain ⟨pts, hla⟩ := (liftAll_ok_iff _).2 ((termsOf_liftable prm coef 0 items).2 hliftable)
    rw [hsv]; dsimp only
    rw [hbt]; dsimp only
    rw [hla]; dsimp only
    have heq : o.eq (o.mul (tSum coef 0 items) o.gen) (multiMult o pts) = true := by
      rw [L.eq_iff, L.abs_mul, abs_multiMult L _ _ hla]
      have := tSum_sub_termSum L prm coef 0 items
      rw [hlin] at this
      exact sub_eq_zero.mp this
    rw [if_pos heq]

/-- T4: a member that passes the structural checks has defect 0 iff it verifies on its own -/
theorem defect_eq_zero_iff (Y : YCongr L) (it : Item) (hst : Structural (o := o) prm it) :
    defect L prm it = 0 ↔ verify o prm it.msg it.xQ it.sg = true := by
  obtain ⟨hv, hxr, hlq, hc0⟩ := hst
  have hxr' := ((sigValid_ok_iff it.sg).1 hv).1
  simp only [isXCoord, Bool.and_eq_true] at hxr'
  have hrng : 0 ≤ it.sg.r ∧ it.sg.r < o.p := by simpa using hxr'.1
  obtain ⟨R, hR⟩ := Option.isSome_iff_exists.1 hxr'.2
  obtain ⟨Q, hQ⟩ := Option.isSome_iff_exists.1 hlq
  obtain ⟨hR0, hRx, hRy⟩ := L.liftX_some _ _ hR
  have hdef : defect L prm it =
      L.abs (o.dmul (o.n - challengeInt o prm it.msg it.xQ it.sg.r) Q it.sg.s o.gen) - L.abs R := by
    rw [defect, liftAbs, liftAbs, hR, hQ, abs_K]; abel
  rw [verify_unfold, hdef, sub_eq_zero]
  constructor
  · intro hK
    refine ⟨hv, Q, hQ, hc0, ?_⟩
    have hK0 : L.abs (o.dmul (o.n - challengeInt o prm it.msg it.xQ it.sg.r) Q it.sg.s o.gen) ≠ 0 :=
      hK ▸ hR0
    rw [assertCore_ok_iff _ _ _ _ hrng]
    refine ⟨?_, ?_, ?_⟩
    · cases hz : o.isZero (o.dmul (o.n - challengeInt o prm it.msg it.xQ it.sg.r) Q it.sg.s o.gen) with
      | false => rfl
      | true => exact absurd ((L.isZero_iff _).1 hz) hK0
    · rw [L.hasEvenY_congr Y hK hK0, Lawful.hasEvenY_iff]; exact hRy
    · rw [L.x_congr hK hK0]; exact hRx
  · rintro ⟨_, Q', hQ', _, hcore⟩
    rw [hQ] at hQ'; cases hQ'
    obtain ⟨hz, he, hx⟩ := (assertCore_ok_iff _ Q it.sg.r it.sg.s hrng).1 hcore
    have hK0 : L.abs (o.dmul (o.n - challengeInt o prm it.msg it.xQ it.sg.r) Q it.sg.s o.gen) ≠ 0 := by
      intro h0; rw [(L.isZero_iff _).2 h0] at hz; cases hz
    rcases (L.x_eq_iff _ R hK0 hR0).1 (hx.trans hRx.symm) with h | h
    · exact h
    · exfalso
      have h1 : L.abs (o.dmul (o.n - challengeInt o prm it.msg it.xQ it.sg.r) Q it.sg.s o.gen)
          = L.abs (o.neg R) := by rw [L.abs_neg]; exact h
      rw [L.hasEvenY_congr Y h1 hK0, Lawful.hasEvenY_iff] at he
      exact (L.y_neg R hR0).1 he hRy

include L in
/-- a member that verifies passes the structural checks -/
theorem structural_of_verify (it : Item) (h : verify o prm it.msg it.xQ it.sg = true) :
    Structural (o := o) prm it := by
  obtain ⟨hv, Q, hQ, hc0, _⟩ := (verify_unfold prm _ _ _).1 h
  obtain ⟨hQ0, hQx, _⟩ := L.liftX_some _ _ hQ
  have := L.x_range Q hQ0
  rw [hQx] at this
  exact ⟨hv, this, by rw [hQ]; rfl, hc0⟩

theorem lin_eq_zero_of_all (coef : Nat → Int) (i : Nat) (items : List Item)
    (h : ∀ it ∈ items, defect L prm it = 0) : lin L prm coef i items = 0 := by
  induction items generalizing i with
  | nil => rfl
  | cons it rest ih =>
    simp only [lin, h it (List.mem_cons_self ..), zsmul_zero, zero_add]
    exact ih (i + 1) fun it' h' => h it' (List.mem_cons_of_mem _ h')

/-- changing one coefficient moves the linear form by that member's defect -/
theorem lin_sub_lin (coef coef' : Nat → Int) (j : Nat) (hagree : ∀ i, i ≠ j → coef i = coef' i)
    (i : Nat) (items : List Item) :
    lin L prm coef i items - lin L prm coef' i items =
      match (if i ≤ j then items[j - i]? else none) with
      | some it => (coefAt coef j - coefAt coef' j) • defect L prm it
      | none => 0 := by
  induction items generalizing i with
  | nil => simp [lin]
  | cons it rest ih =>
    simp only [lin]
    have hstep := ih (i + 1)
    by_cases hij : i = j
    · subst hij
      have hrest : lin L prm coef (i + 1) rest - lin L prm coef' (i + 1) rest = 0 := by
        rw [hstep]; simp
      simp only [le_refl, ↓reduceIte, Nat.sub_self, List.getElem?_cons_zero]
      rw [sub_zsmul]
      have : lin L prm coef (i + 1) rest = lin L prm coef' (i + 1) rest := sub_eq_zero.mp hrest
      rw [this]; abel
    · have hc : coefAt coef i = coefAt coef' i := by
        rw [coefAt_eq, coefAt_eq]; split
        · rfl
        · exact hagree i hij
      rw [hc]
      have : coefAt coef' i • defect L prm it + lin L prm coef (i + 1) rest -
          (coefAt coef' i • defect L prm it + lin L prm coef' (i + 1) rest) =
          lin L prm coef (i + 1) rest - lin L prm coef' (i + 1) rest := by abel
      rw [this, hstep]
      by_cases hlt : i < j
      · have h1 : i + 1 ≤ j := hlt
        have h2 : i ≤ j := Nat.le_of_lt hlt
        have h3 : j - i = (j - (i + 1)) + 1 := by omega
        simp only [h1, h2, ↓reduceIte, h3, List.getElem?_cons_succ]
      · have h1 : ¬ i + 1 ≤ j := by omega
        have h2 : ¬ i ≤ j := by omega
        simp only [h1, h2, ↓reduceIte]

end
end Btc.Schnorr
