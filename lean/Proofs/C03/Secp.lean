import Proofs.E2E.C03
import Proofs.E2E.CofactorOne
/-
C03 on secp256k1 with NO hypothesis left: cofactor one is proved (`Btc.E2E.secpCofactorOne`,
Proofs/E2E/CofactorOne.lean), so the restricted `lift_x` of the lawful carrier is the executed `lift_x`
(`Btc.Schnorr.Secp.liftAgree`) and every `…_cofactor_one` theorem of Proofs/E2E/C03.lean applies to
`Btc.EC.ops secp256k1` outright (re-exported by Props/C03.lean as `…_secp256k1`).
-/
open WeierstrassCurve

namespace Btc.Schnorr.Secp
open Btc Btc.EC Btc.C01 Btc.E2E Btc.Schnorr

/-- the restricted `lift_x` of the lawful carrier IS `Btc.EC.ops secp256k1`'s `lift_x` — no hypothesis -/
theorem liftAgree : LiftAgree secpOk := secp_liftAgree03 secpCofactorOne

/-- the point of Mathlib's group `E(F_p)` of secp256k1 (`y² = x³ + 7` over `ZMod p`) that an integer pair denotes
    (`0`, the point at infinity, when `y = 0`) -/
noncomputable def secpPoint (P : Point) : SecpGroup :=
  @absA secp256k1_p ⟨secp256k1_p_prime⟩ secp256k1.toCurveGroup P

/-- T2, group-level reading, about the executed `verify (Btc.EC.ops secp256k1)`: BIP340's equation `s•G = R + e•P` in
    the group of points of secp256k1 -/
theorem verify_iff_equation (prm : Params) (msg : Bytes) (xQ : ℤ) (sg : Sig) :
    Schnorr.verify (EC.ops secp256k1) prm msg xQ sg = true ↔
      0 ≤ sg.r ∧ sg.r < secp256k1.p ∧ 0 ≤ sg.s ∧ sg.s < secp256k1.n ∧
      ∃ R P : Point, (EC.ops secp256k1).liftX sg.r = some R ∧ (EC.ops secp256k1).liftX xQ = some P ∧
        challengeInt (EC.ops secp256k1) prm msg xQ sg.r ≠ 0 ∧
        sg.s • secpPoint secp256k1.G =
          secpPoint R + challengeInt (EC.ops secp256k1) prm msg xQ sg.r • secpPoint P :=
  @verify_iff_equation_cofactor_one secp256k1_p ⟨secp256k1_p_prime⟩ secp256k1 secpOk liftAgree secp256k1_h34 prm msg xQ sg

end Btc.Schnorr.Secp
