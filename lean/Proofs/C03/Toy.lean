import Proofs.Common.LawfulY
import Model.C03.Batch
/-
Non-vacuity witness for the hypotheses `Lawful o G` and `YCongr L` used by every C03 theorem:
the cyclic group `ZMod 7` with generator 1, "x-coordinate" `P ↦ P² mod 7` (which identifies
exactly `P` and `−P`), "y-coordinate" `P ↦ P.val` (whose parity flips under negation because 7
is odd), and the matching `lift_x`.  It satisfies every law, so the theorems are not vacuous; it
is not an elliptic curve and is not used for anything else.
-/
namespace Btc.Schnorr.Toy
open Btc

def ops : GroupOps (ZMod 7) where
  n := 7
  p := 7
  zero := 0
  add P Q := P + Q
  neg P := -P
  mul m P := (m : ZMod 7) * P
  gen := 1
  isZero P := P == 0
  x P := ((P * P).val : Nat)
  y P := (P.val : Nat)
  liftX x := if x = 1 then some 6 else if x = 4 then some 2 else if x = 2 then some 4 else none
  eq P Q := P == Q

def lawful : Lawful ops (ZMod 7) where
  abs := id
  n_pos := by decide
  n_prime := by decide
  abs_zero := rfl
  abs_add _ _ := rfl
  abs_neg _ := rfl
  abs_mul m P := by simp [ops, zsmul_eq_mul]
  order P := by
    show (7 : Int) • P = 0
    rw [zsmul_eq_mul]
    have : ((7 : Int) : ZMod 7) = 0 := by decide
    rw [this, zero_mul]
  isZero_iff P := by simp [ops]
  gen_ne_zero := by decide
  eq_iff P Q := by simp [ops]
  x_eq_iff := by
    show ∀ P Q : ZMod 7, P ≠ 0 → Q ≠ 0 →
      ((((P * P).val : Nat) : Int) = (((Q * Q).val : Nat) : Int) ↔ P = Q ∨ P = -Q)
    decide
  x_range := by
    show ∀ P : ZMod 7, P ≠ 0 → (0 : Int) ≤ (((P * P).val : Nat) : Int) ∧ (((P * P).val : Nat) : Int) < 7
    decide
  y_neg := by
    show ∀ P : ZMod 7, P ≠ 0 → ((((-P).val : Nat) : Int) % 2 = 0 ↔ ¬ (((P.val : Nat) : Int) % 2 = 0))
    decide
  x_neg := by
    show ∀ P : ZMod 7, ((((-P) * (-P)).val : Nat) : Int) = (((P * P).val : Nat) : Int)
    decide
  y_congr P Q h _ := by
    have : P = Q := h
    subst this; rfl
  liftX_some x P h := by
    simp only [ops] at h
    split at h
    · next hx => cases h; subst hx; decide
    · split at h
      · next hx => cases h; subst hx; decide
      · split at h
        · next hx => cases h; subst hx; decide
        · cases h
  liftX_none x h P hP hx := by
    subst hx
    revert P
    show ∀ P : ZMod 7, P ≠ 0 → ops.liftX (ops.x P) = none → False
    decide

/-- a "tagged hash" whose leftmost three bits are `len(tag) mod 7`: nonce 6, challenge 3, tweak 2 -/
def prm : Params :=
  { pSize := 1, nSize := 1, nlen := 3, hfLen := 1, TH := fun tag _ => [UInt8.ofNat (32 * (tag.length % 7))] }

end Btc.Schnorr.Toy
