import Proofs.C03.Batch
import Proofs.C03.Codec
/-
C03 helper: `verify_` answers true exactly when BIP340's verification EQUATION holds in the group:
`s•G = R + e•P` with `R = lift_x(r)`, `P = lift_x(x_Q)`, `e` the challenge — the group-level reading of T2
(the counterpart of C02's `Grp.SEC1`).
-/
namespace Btc.Schnorr
open Btc

variable {α G : Type} [AddCommGroup G] {o : GroupOps α}

/-- `verify_ = True  ⇔  r < p, s < n, r and x_Q lift (to the even-y points R, P), e ≠ 0 and s•G = R + e•P` -/
theorem verify_iff_equation (L : Lawful o G) (prm : Params) (msg : Bytes) (xQ : Int) (sg : Sig) :
    verify o prm msg xQ sg = true ↔
      0 ≤ sg.r ∧ sg.r < o.p ∧ 0 ≤ sg.s ∧ sg.s < o.n ∧
      ∃ R P : α, o.liftX sg.r = some R ∧ o.liftX xQ = some P ∧
        challengeInt o prm msg xQ sg.r ≠ 0 ∧
        sg.s • L.abs o.gen = L.abs R + challengeInt o prm msg xQ sg.r • L.abs P := by
  have key : ∀ (R P : α), o.liftX sg.r = some R → o.liftX xQ = some P →
      (defect L prm ⟨msg, xQ, sg⟩ = 0 ↔
        sg.s • L.abs o.gen = L.abs R + challengeInt o prm msg xQ sg.r • L.abs P) := by
    intro R P hR hP
    simp only [defect, liftAbs, hR, hP]
    rw [sub_sub, sub_eq_zero]
  constructor
  · intro h
    have hst := structural_of_verify L prm ⟨msg, xQ, sg⟩ h
    have hd := (defect_eq_zero_iff L prm L.ycongr ⟨msg, xQ, sg⟩ hst).2 h
    obtain ⟨hv, _, hlq, hc0⟩ := hst
    obtain ⟨hr0, hrp, hs0, hsn⟩ := sigValid_range sg hv
    have hxr := ((sigValid_ok_iff sg).1 hv).1
    simp only [isXCoord, Bool.and_eq_true] at hxr
    obtain ⟨R, hR⟩ := Option.isSome_iff_exists.1 hxr.2
    obtain ⟨P, hP⟩ := Option.isSome_iff_exists.1 hlq
    exact ⟨hr0, hrp, hs0, hsn, R, P, hR, hP, hc0, (key R P hR hP).1 hd⟩
  · rintro ⟨hr0, hrp, hs0, hsn, R, P, hR, hP, hc0, heq⟩
    obtain ⟨hP0, hPx, _⟩ := L.liftX_some _ _ hP
    have hxq := L.x_range P hP0
    rw [hPx] at hxq
    have hv : sigValid o sg = .ok () := by
      rw [sigValid_ok_iff]
      refine ⟨?_, hs0, hsn⟩
      simp [isXCoord, hr0, hrp, hR]
    have hst : Structural (o := o) prm ⟨msg, xQ, sg⟩ := ⟨hv, hxq, by simp [hP], hc0⟩
    exact (defect_eq_zero_iff L prm L.ycongr ⟨msg, xQ, sg⟩ hst).1 ((key R P hR hP).2 heq)

end Btc.Schnorr
