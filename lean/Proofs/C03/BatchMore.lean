import Proofs.C03.BatchThm
import Mathlib.Logic.Function.Basic
import Mathlib.Algebra.Order.Group.Int
/-
C03 helper: what "batch verification is true exactly when every member verifies" means once the coefficients are
those the code draws (`1 + secrets.randbelow(n - 1)`, the statement translated from ssa.py):
* `Drawn`: every coefficient is in `1..n-1` (`drawn_iff`), so no coefficient is a multiple of `n` (`coefAt_not_dvd`);
* with AT MOST ONE failing member — anywhere, duplicates of valid members allowed — the verdict IS the conjunction of
  the single verdicts, for every draw (`batch_eq_all_of_at_most_one_bad`): deterministic, no probability;
* with a failing member `j ≥ 1` and anything else in the batch, AT MOST ONE of the `n − 1` values the code can draw
  for `aⱼ` lets the batch pass (`batch_passing_coefficient_unique`): soundness error ≤ 1/(n−1) over that one draw.
-/
namespace Btc.Schnorr
open Btc

variable {α G : Type} [AddCommGroup G] {o : GroupOps α}

/-- the coefficients are what the code draws: `coef i = 1 + draw`, `draw = secrets.randbelow(bound)` in `0..bound-1`,
    `bound` the TRANSLATED argument of `secrets.randbelow` -/
def Drawn (o : GroupOps α) (coef : Nat → Int) : Prop :=
  ∀ i, 1 ≤ i → 0 ≤ coef i - 1 ∧ coef i - 1 < Gen.Schnorr.batch_randbelow_bound o.n

/-- … i.e. every coefficient of a member `i ≥ 1` is in `1..n-1` -/
theorem drawn_iff (coef : Nat → Int) : Drawn o coef ↔ ∀ i, 1 ≤ i → 0 < coef i ∧ coef i < o.n := by
  unfold Drawn Gen.Schnorr.batch_randbelow_bound
  constructor
  · intro h i hi; have := h i hi; omega
  · intro h i hi; have := h i hi; omega

section
variable (L : Lawful o G) (prm : Params)

include L in
/-- a drawn coefficient (and the `1` of member 0) is never a multiple of `n` -/
theorem coefAt_not_dvd (coef : Nat → Int) (hd : Drawn o coef) (j : Nat) : ¬ o.n ∣ coefAt coef j := by
  have hn2 : 2 ≤ o.n := by
    have h2 := L.n_prime.two_le
    have := L.n_pos
    omega
  rw [coefAt_eq]
  by_cases hj : j = 0
  · rw [if_pos hj]
    intro h
    have := Int.le_of_dvd (by norm_num) h
    omega
  · rw [if_neg hj]
    intro h
    have hr := (drawn_iff coef).1 hd j (by omega)
    have := Int.le_of_dvd hr.1 h
    omega

include L in
/-- **at most one failing member ⇒ the batch verdict is the conjunction of the single verdicts**, for every size,
    order, repetition of valid members, and every draw of the coefficients -/
theorem batch_eq_all_of_at_most_one_bad (coef : Nat → Int) (hd : Drawn o coef) (items : List Item)
    (hne : items ≠ [])
    (hone : ∀ (j k : Nat) (a b : Item), items[j]? = some a → items[k]? = some b →
      verify o prm a.msg a.xQ a.sg = false → verify o prm b.msg b.xQ b.sg = false → j = k) :
    batchVerify o prm coef items = true ↔ ∀ it ∈ items, verify o prm it.msg it.xQ it.sg = true := by
  constructor
  · intro hb bad hmem
    cases hv : verify o prm bad.msg bad.xQ bad.sg with
    | true => rfl
    | false =>
      exfalso
      obtain ⟨j, hj⟩ := List.mem_iff_getElem?.1 hmem
      match items, hne, hb, hj, hone with
      | [it], _, hb, hj, _ =>
        have hb' : verify o prm it.msg it.xQ it.sg = true := hb
        match j, hj with
        | 0, hj =>
          simp only [List.getElem?_cons_zero, Option.some.injEq] at hj
          subst hj; rw [hv] at hb'; cases hb'
        | j + 1, hj => simp at hj
      | it0 :: it1 :: rest, _, hb, hj, hone =>
        refine Btc.Schnorr.batch_one_bad_fails L prm coef it0 it1 rest j bad hj hv ?_ (coefAt_not_dvd L coef hd j)
          ((batchVerify_eq_true_iff prm coef _).1 hb)
        intro k it' hk hkj
        cases hv' : verify o prm it'.msg it'.xQ it'.sg with
        | true => rfl
        | false => exact absurd (hone j k bad it' hj hk hv hv').symm hkj
  · intro hall
    exact (batchVerify_eq_true_iff prm coef items).2 (Btc.Schnorr.batch_complete L prm coef items hne hall)

include L in
/-- **soundness over the draw of one coefficient**: a batch that contains a failing member `j ≥ 1` — whatever else it
    contains, other failing members included — passes for AT MOST ONE of the `n − 1` values `1..n-1` the code can
    draw for `aⱼ`, the other coefficients being whatever they are -/
theorem batch_passing_coefficient_unique (coef : Nat → Int) (it0 it1 : Item) (rest : List Item) (j : Nat)
    (bad : Item) (hj1 : 1 ≤ j) (hj : (it0 :: it1 :: rest)[j]? = some bad)
    (hbad : verify o prm bad.msg bad.xQ bad.sg = false) (a a' : Int)
    (ha : 0 < a ∧ a < o.n) (ha' : 0 < a' ∧ a' < o.n)
    (h1 : batchVerify o prm (Function.update coef j a) (it0 :: it1 :: rest) = true)
    (h2 : batchVerify o prm (Function.update coef j a') (it0 :: it1 :: rest) = true) : a = a' := by
  have hdvd := Btc.Schnorr.batch_at_most_one_coeff L prm (Function.update coef j a) (Function.update coef j a')
    it0 it1 rest j bad hj1 hj hbad
    (fun i hi => by rw [Function.update_of_ne hi, Function.update_of_ne hi])
    ((batchVerify_eq_true_iff prm _ _).1 h1) ((batchVerify_eq_true_iff prm _ _).1 h2)
  rw [Function.update_self, Function.update_self] at hdvd
  have h0 : a - a' = 0 := Int.eq_zero_of_abs_lt_dvd hdvd (abs_lt.mpr ⟨by omega, by omega⟩)
  omega

end
end Btc.Schnorr
