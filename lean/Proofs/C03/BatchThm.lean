import Proofs.C03.Batch
/-
C03: the batch theorems (T3, T4) assembled from Proofs/C03/Batch.lean.
-/
namespace Btc.Schnorr
open Btc

variable {α G : Type} [AddCommGroup G] {o : GroupOps α} (L : Lawful o G) (prm : Params)

theorem verify_eq_true_iff (msg : Bytes) (xQ : Int) (sg : Sig) :
    verify o prm msg xQ sg = true ↔ assertAsValid o prm msg xQ sg = .ok () := by
  unfold verify
  cases assertAsValid o prm msg xQ sg <;> simp

theorem batchVerify_eq_true_iff (coef : Nat → Int) (items : List Item) :
    batchVerify o prm coef items = true ↔ assertBatch o prm coef items = .ok () := by
  unfold batchVerify
  cases assertBatch o prm coef items <;> simp

include L in
/-- T3: completeness for every coefficient function -/
theorem batch_complete (coef : Nat → Int) (items : List Item) (hne : items ≠ [])
    (hall : ∀ it ∈ items, verify o prm it.msg it.xQ it.sg = true) :
    assertBatch o prm coef items = .ok () := by
  match items, hne with
  | [it], _ =>
    exact (verify_eq_true_iff prm _ _ _).1 (hall it (List.mem_singleton_self it))
  | it0 :: it1 :: rest, _ =>
    rw [assertBatch_ok_iff L prm]
    refine ⟨fun it hit => structural_of_verify L prm it (hall it hit), ?_⟩
    apply lin_eq_zero_of_all
    intro it hit
    exact (defect_eq_zero_iff L prm L.ycongr it (structural_of_verify L prm it (hall it hit))).2 (hall it hit)

/-- if every member but the one at index `j` has defect 0, the linear form is `aⱼ•Dⱼ` -/
theorem lin_of_others_zero (coef : Nat → Int) (j : Nat) (i : Nat) (items : List Item)
    (h0 : ∀ k it', items[k]? = some it' → i + k ≠ j → defect L prm it' = 0) :
    lin L prm coef i items =
      match (if i ≤ j then items[j - i]? else none) with
      | some it => coefAt coef j • defect L prm it
      | none => 0 := by
  induction items generalizing i with
  | nil => simp [lin]
  | cons it rest ih =>
    simp only [lin]
    have hstep := ih (i + 1) (fun k it' hk hne => h0 (k + 1) it' (by simpa using hk) (by omega))
    rw [hstep]
    by_cases hij : i = j
    · subst hij
      simp
    · have hd : defect L prm it = 0 := h0 0 it (by simp) (by simpa using hij)
      rw [hd, zsmul_zero, zero_add]
      by_cases hlt : i < j
      · have h1 : i + 1 ≤ j := hlt
        have h2 : i ≤ j := Nat.le_of_lt hlt
        have h3 : j - i = (j - (i + 1)) + 1 := by omega
        simp only [h1, h2, ↓reduceIte, h3, List.getElem?_cons_succ]
      · have h1 : ¬ i + 1 ≤ j := by omega
        have h2 : ¬ i ≤ j := by omega
        simp only [h1, h2, ↓reduceIte]

theorem zsmul_defect_eq_zero (a : Int) (it : Item) (h : a • defect L prm it = 0)
    (hd : defect L prm it ≠ 0) : o.n ∣ a := by
  obtain ⟨P, hP⟩ := defect_rep L prm it
  rw [hP] at h hd
  exact (L.zsmul_eq_zero_iff a P hd).1 h

include L in
/-- T4 (one bad member): if exactly the member at index `j` fails on its own and its coefficient is
    not a multiple of `n`, the batch fails -/
theorem batch_one_bad_fails (coef : Nat → Int) (it0 it1 : Item) (rest : List Item) (j : Nat) (bad : Item)
    (hj : (it0 :: it1 :: rest)[j]? = some bad)
    (hbad : verify o prm bad.msg bad.xQ bad.sg = false)
    (hothers : ∀ k it', (it0 :: it1 :: rest)[k]? = some it' → k ≠ j →
      verify o prm it'.msg it'.xQ it'.sg = true)
    (hcoef : ¬ o.n ∣ coefAt coef j) :
    assertBatch o prm coef (it0 :: it1 :: rest) ≠ .ok () := by
  intro hok
  obtain ⟨hst, hlin⟩ := (assertBatch_ok_iff L prm coef it0 it1 rest).1 hok
  have hmem : bad ∈ it0 :: it1 :: rest := List.mem_of_getElem? hj
  have hlin' := lin_of_others_zero L prm coef j 0 (it0 :: it1 :: rest) (by
    intro k it' hk hne
    have hv := hothers k it' hk (by omega)
    exact (defect_eq_zero_iff L prm L.ycongr it' (structural_of_verify L prm it' hv)).2 hv)
  rw [hlin] at hlin'
  simp only [Nat.zero_le, ↓reduceIte, Nat.sub_zero, hj] at hlin'
  have hd : defect L prm bad ≠ 0 := by
    intro h0
    have := (defect_eq_zero_iff L prm L.ycongr bad (hst bad hmem)).1 h0
    rw [hbad] at this; cases this
  exact hcoef (zsmul_defect_eq_zero L prm _ bad hlin'.symm hd)

include L in
/-- T4 (any number of bad members): with the other coefficients fixed, two coefficients for a
    failing member `j ≥ 1` that both let the batch pass are congruent modulo `n` -/
theorem batch_at_most_one_coeff (coef coef' : Nat → Int) (it0 it1 : Item) (rest : List Item)
    (j : Nat) (bad : Item) (hj1 : 1 ≤ j)
    (hj : (it0 :: it1 :: rest)[j]? = some bad)
    (hbad : verify o prm bad.msg bad.xQ bad.sg = false)
    (hagree : ∀ i, i ≠ j → coef i = coef' i)
    (h1 : assertBatch o prm coef (it0 :: it1 :: rest) = .ok ())
    (h2 : assertBatch o prm coef' (it0 :: it1 :: rest) = .ok ()) :
    o.n ∣ coef j - coef' j := by
  obtain ⟨hst, hlin1⟩ := (assertBatch_ok_iff L prm coef it0 it1 rest).1 h1
  obtain ⟨_, hlin2⟩ := (assertBatch_ok_iff L prm coef' it0 it1 rest).1 h2
  have hmem : bad ∈ it0 :: it1 :: rest := List.mem_of_getElem? hj
  have hsub := lin_sub_lin L prm coef coef' j hagree 0 (it0 :: it1 :: rest)
  rw [hlin1, hlin2, sub_zero] at hsub
  simp only [Nat.zero_le, ↓reduceIte, Nat.sub_zero, hj] at hsub
  have hd : defect L prm bad ≠ 0 := by
    intro h0
    have := (defect_eq_zero_iff L prm L.ycongr bad (hst bad hmem)).1 h0
    rw [hbad] at this; cases this
  have hne : j ≠ 0 := by omega
  have := zsmul_defect_eq_zero L prm _ bad hsub.symm hd
  simpa [coefAt_eq, hne] using this

end Btc.Schnorr
