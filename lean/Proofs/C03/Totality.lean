import Proofs.C03.Schnorr
/-
C03 helper: WHEN does `sign_` answer?  For a key in `1..n-1` and an aux of the hash's size the run is a closed form
(`sign_eq`): the only refusals left are hash-dependent —
* the retry loop of the nonce finds no candidate in `1..n-1` (Python: `while True` never leaves; model: `Err.fuel`),
* the challenge is `0 mod n` (`challenge_` raises RuntimeError).
`Sig.assert_valid` at the end of `_sign_` never fires.
-/
namespace Btc.Schnorr
open Btc

variable {α G : Type} [AddCommGroup G] {o : GroupOps α}

/-- the `i`-th value of `t` in `while True: t = tagged_hash(tag, t); …` (`i = 0`: after the first hash) -/
def iterHash (prm : Params) (tag : Bytes) : Nat → Bytes → Bytes
  | 0, t => prm.TH tag t
  | i + 1, t => iterHash prm tag i (prm.TH tag t)

/-- the `i`-th candidate scalar of the retry loop -/
def candidate (prm : Params) (tag : Bytes) (i : Nat) (t : Bytes) : Int :=
  Gen.Schnorr.int_from_bits (iterHash prm tag i t) prm.nlen

/-- the loop answers iff one of its first `fuel` candidates is in `1..n-1`; it answers the FIRST such -/
theorem hashToScalar_ok_iff (prm : Params) (tag : Bytes) (fuel : Nat) (t : Bytes) (v : Int) :
    hashToScalar o prm tag fuel t = .ok v ↔
      ∃ i, i < fuel ∧ candidate prm tag i t = v ∧ 0 < v ∧ v < o.n ∧
        ∀ j, j < i → ¬ (0 < candidate prm tag j t ∧ candidate prm tag j t < o.n) := by
  induction fuel generalizing t with
  | zero => simp [hashToScalar]
  | succ f ih =>
    simp only [hashToScalar]
    by_cases hc : 0 < Gen.Schnorr.int_from_bits (prm.TH tag t) prm.nlen ∧
        Gen.Schnorr.int_from_bits (prm.TH tag t) prm.nlen < o.n
    · rw [if_pos hc]
      constructor
      · intro h
        cases h
        exact ⟨0, Nat.succ_pos _, rfl, hc.1, hc.2, fun j hj => absurd hj (Nat.not_lt_zero _)⟩
      · rintro ⟨i, _, hv, _, _, hmin⟩
        cases i with
        | zero => rw [← hv]; rfl
        | succ i => exact absurd hc (hmin 0 (Nat.succ_pos _))
    · rw [if_neg hc, ih]
      constructor
      · rintro ⟨i, hi, hv, h0, hn, hmin⟩
        refine ⟨i + 1, Nat.succ_lt_succ hi, hv, h0, hn, ?_⟩
        intro j hj
        cases j with
        | zero => exact hc
        | succ j => exact hmin j (Nat.lt_of_succ_lt_succ hj)
      · rintro ⟨i, hi, hv, h0, hn, hmin⟩
        cases i with
        | zero => subst hv; exact absurd ⟨h0, hn⟩ hc
        | succ i =>
          exact ⟨i, Nat.lt_of_succ_lt_succ hi, hv, h0, hn, fun j hj => hmin (j + 1) (Nat.succ_lt_succ hj)⟩

/-- the loop's only refusal is the exhausted budget, exactly when none of the `fuel` candidates is in `1..n-1` -/
theorem hashToScalar_error_iff (prm : Params) (tag : Bytes) (fuel : Nat) (t : Bytes) (e : Err) :
    hashToScalar o prm tag fuel t = .error e ↔
      e = .fuel ∧ ∀ i, i < fuel → ¬ (0 < candidate prm tag i t ∧ candidate prm tag i t < o.n) := by
  induction fuel generalizing t with
  | zero =>
    simp only [hashToScalar, Except.error.injEq]
    constructor
    · intro h; exact ⟨h.symm, fun i hi => absurd hi (Nat.not_lt_zero _)⟩
    · intro h; exact h.1.symm
  | succ f ih =>
    simp only [hashToScalar]
    by_cases hc : 0 < Gen.Schnorr.int_from_bits (prm.TH tag t) prm.nlen ∧
        Gen.Schnorr.int_from_bits (prm.TH tag t) prm.nlen < o.n
    · rw [if_pos hc]
      constructor
      · intro h; cases h
      · rintro ⟨_, hno⟩; exact absurd hc (hno 0 (Nat.succ_pos _))
    · rw [if_neg hc, ih]
      constructor
      · rintro ⟨he, hno⟩
        refine ⟨he, fun i hi => ?_⟩
        cases i with
        | zero => exact hc
        | succ i => exact hno i (Nat.lt_of_succ_lt_succ hi)
      · rintro ⟨he, hno⟩
        exact ⟨he, fun i hi => hno (i + 1) (Nat.succ_lt_succ hi)⟩

section
variable (L : Lawful o G) (prm : Params)

/-- `_sign_` on the x-coordinate of a non-zero element: `Sig.assert_valid` never fires -/
theorem signCore_ok (c q' k' : Int) (P : α) (hP : L.abs P ≠ 0) (hc : c ≠ 0) :
    signCore o c q' k' (o.x P) = .ok ⟨o.x P, (k' + c * q') % o.n⟩ := by
  have hv : sigValid o ⟨o.x P, (k' + c * q') % o.n⟩ = .ok () := by
    rw [sigValid_ok_iff]
    exact ⟨isXCoord_x L P hP, Int.emod_nonneg _ (ne_of_gt L.n_pos), Int.emod_lt_of_pos _ L.n_pos⟩
  unfold signCore
  rw [if_neg hc]
  simp only [hv]

include L in
/-- **closed form of `sign_`** for a key in `1..n-1` and an aux of the right size -/
theorem sign_eq (fuel : Nat) (msg : Bytes) (q : Int) (aux : Bytes) (hq : 0 < q ∧ q < o.n)
    (haux : aux.length = prm.hfLen) :
    sign o prm fuel msg q aux =
      match nonceRaw o prm fuel msg (evenScalar o q) (o.x (o.mul q o.gen)) aux with
      | .error e => .error e
      | .ok k0 =>
        if challengeInt o prm msg (o.x (o.mul q o.gen)) (o.x (o.mul k0 o.gen)) = 0 then .error .runtime
        else .ok ⟨o.x (o.mul k0 o.gen),
          (evenScalar o k0 + challengeInt o prm msg (o.x (o.mul q o.gen)) (o.x (o.mul k0 o.gen)) * evenScalar o q)
            % o.n⟩ := by
  unfold sign nonce
  rw [if_neg (by simpa using haux), if_neg (by simpa using hq)]
  dsimp only
  cases hk : nonceRaw o prm fuel msg (evenScalar o q) (o.x (o.mul q o.gen)) aux with
  | error e => rfl
  | ok k0 =>
    have hr := hashToScalar_range prm _ _ _ _ hk
    have hne : L.abs (o.mul k0 o.gen) ≠ 0 := L.mul_gen_ne_zero k0 hr.1 hr.2
    simp only [challenge]
    by_cases hc : challengeInt o prm msg (o.x (o.mul q o.gen)) (o.x (o.mul k0 o.gen)) = 0
    · simp only [hc, if_true]
    · simp only [hc, if_false]
      exact signCore_ok L _ _ _ _ hne hc

include L in
/-- **sign totality**: a key in `1..n-1`, an aux of the hash's size, one of the first `fuel` nonce candidates in
    `1..n-1`, a challenge that is not `0 mod n` — then `sign_` answers, with this signature -/
theorem sign_total (fuel : Nat) (msg : Bytes) (q : Int) (aux : Bytes) (hq : 0 < q ∧ q < o.n)
    (haux : aux.length = prm.hfLen) (k0 : Int)
    (hk : nonceRaw o prm fuel msg (evenScalar o q) (o.x (o.mul q o.gen)) aux = .ok k0)
    (hc : challengeInt o prm msg (o.x (o.mul q o.gen)) (o.x (o.mul k0 o.gen)) ≠ 0) :
    sign o prm fuel msg q aux = .ok ⟨o.x (o.mul k0 o.gen),
      (evenScalar o k0 + challengeInt o prm msg (o.x (o.mul q o.gen)) (o.x (o.mul k0 o.gen)) * evenScalar o q)
        % o.n⟩ := by
  rw [sign_eq L prm fuel msg q aux hq haux, hk]
  simp only [hc, if_false]

include L in
/-- the refusal branches, exactly: for a key in `1..n-1` and an aux of the right size `sign_` refuses only with
    `fuel` (no nonce candidate in range: Python's loop would not end) or `runtime` (zero challenge) -/
theorem sign_error_iff (fuel : Nat) (msg : Bytes) (q : Int) (aux : Bytes) (hq : 0 < q ∧ q < o.n)
    (haux : aux.length = prm.hfLen) (e : Err) :
    sign o prm fuel msg q aux = .error e ↔
      (e = .fuel ∧ nonceRaw o prm fuel msg (evenScalar o q) (o.x (o.mul q o.gen)) aux = .error .fuel) ∨
      (e = .runtime ∧ ∃ k0, nonceRaw o prm fuel msg (evenScalar o q) (o.x (o.mul q o.gen)) aux = .ok k0 ∧
        challengeInt o prm msg (o.x (o.mul q o.gen)) (o.x (o.mul k0 o.gen)) = 0) := by
  rw [sign_eq L prm fuel msg q aux hq haux]
  cases hk : nonceRaw o prm fuel msg (evenScalar o q) (o.x (o.mul q o.gen)) aux with
  | error e' =>
    have he' : e' = .fuel := ((hashToScalar_error_iff prm _ _ _ _).1 hk).1
    subst he'
    simp only [Except.error.injEq]
    constructor
    · intro h; exact Or.inl ⟨h.symm, trivial⟩
    · rintro (⟨h, _⟩ | ⟨_, k0, hk0, _⟩)
      · exact h.symm
      · cases hk0
  | ok k0 =>
    by_cases hc : challengeInt o prm msg (o.x (o.mul q o.gen)) (o.x (o.mul k0 o.gen)) = 0
    · simp only [hc, if_true, Except.error.injEq]
      constructor
      · intro h; exact Or.inr ⟨h.symm, k0, rfl, hc⟩
      · rintro (⟨_, h⟩ | ⟨h, _⟩)
        · cases h
        · exact h.symm
    · simp only [hc, if_false]
      constructor
      · intro h; cases h
      · rintro (⟨_, h⟩ | ⟨_, k1, hk1, hc1⟩)
        · cases h
        · cases hk1; exact absurd hc1 hc

end
end Btc.Schnorr
