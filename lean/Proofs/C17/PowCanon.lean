import Proofs.C17.PowRound
namespace Btc.Pow
open Btc Btc.Py

theorem byteLen_unique (v k : Nat) (hk : 1 ≤ k) (h1 : 256 ^ (k - 1) ≤ v) (h2 : v < 256 ^ k) : byteLen v = k := by
  have hpos : 0 < v := Nat.lt_of_lt_of_le (by positivity) h1
  have hle := byteLen_le v k h2
  obtain ⟨a, b, c⟩ := byteLen_pos v hpos
  by_cases h : byteLen v = k
  · exact h
  · exfalso
    have : 256 ^ byteLen v ≤ 256 ^ (k - 1) := Nat.pow_le_pow_right (by omega) (by omega)
    omega

theorem compactOf_of (v n s0 : Nat) (hn : byteLen v = n)
    (hs0 : (if n ≤ 3 then v * 256 ^ (3 - n) else v / 256 ^ (n - 3)) = s0) :
    compactOf v = if s0 / 8388608 % 2 = 1 then (n + 1, s0 / 256) else (n, s0) := by
  unfold compactOf sig0
  rw [hn, hs0]

/-- the compact forms `bits_from_target` produces: zero, or a normalised significand
    (`0x008000 ≤ s < 0x800000`: no sign bit, minimal exponent) whose dropped low bytes (exponent < 3) are zero -/
def canonical (e s : Nat) : Prop :=
  (e = 0 ∧ s = 0) ∨ (32768 ≤ s ∧ s < 8388608 ∧ 1 ≤ e ∧ (e < 3 → s % 256 ^ (3 - e) = 0))

theorem compactOf_cval (e s : Nat) (h : canonical e s) : compactOf (cval e s) = (e, s) := by
  rcases h with ⟨rfl, rfl⟩ | ⟨hlo, hhi, he, hz⟩
  · have : cval 0 0 = 0 := by simp [cval]
    rw [this, compactOf_of 0 0 0 byteLen_zero (by simp)]
    simp
  · have hm : s % 8388608 = s := Nat.mod_eq_of_lt hhi
    by_cases e1 : e = 1
    · subst e1
      have hz' : s % 65536 = 0 := by simpa using hz (by omega)
      have hv : cval 1 s = s / 65536 := by simp [cval, hm]
      rw [hv, compactOf_of (s / 65536) 1 s (byteLen_unique _ 1 (by omega) (by norm_num; omega) (by norm_num; omega))
        (by norm_num; omega)]
      have : ¬ s / 8388608 % 2 = 1 := by omega
      simp [this]
    by_cases e2 : e = 2
    · subst e2
      have hz' : s % 256 = 0 := by simpa using hz (by omega)
      have hv : cval 2 s = s / 256 := by simp [cval, hm]
      rw [hv]
      by_cases hs : 65536 ≤ s
      · rw [compactOf_of (s / 256) 2 s (byteLen_unique _ 2 (by omega) (by norm_num; omega) (by norm_num; omega))
          (by norm_num; omega)]
        have : ¬ s / 8388608 % 2 = 1 := by omega
        simp [this]
      · rw [compactOf_of (s / 256) 1 (s * 256) (byteLen_unique _ 1 (by omega) (by norm_num; omega) (by norm_num; omega))
          (by norm_num; omega)]
        have : s * 256 / 8388608 % 2 = 1 := by omega
        simp [this]
    by_cases e3 : e = 3
    · subst e3
      have hv : cval 3 s = s := by simp [cval, hm]
      rw [hv]
      by_cases hs : 65536 ≤ s
      · rw [compactOf_of s 3 s (byteLen_unique _ 3 (by omega) (by norm_num; omega) (by norm_num; omega)) (by norm_num)]
        have : ¬ s / 8388608 % 2 = 1 := by omega
        simp [this]
      · rw [compactOf_of s 2 (s * 256) (byteLen_unique _ 2 (by omega) (by norm_num; omega) (by norm_num; omega))
          (by norm_num)]
        have : s * 256 / 8388608 % 2 = 1 := by omega
        simp [this]
    by_cases e4 : e = 4
    · subst e4
      have hv : cval 4 s = s * 256 := by simp [cval, hm]
      rw [hv]
      by_cases hs : 65536 ≤ s
      · rw [compactOf_of (s * 256) 4 s (byteLen_unique _ 4 (by omega) (by norm_num; omega) (by norm_num; omega))
          (by norm_num)]
        have : ¬ s / 8388608 % 2 = 1 := by omega
        simp [this]
      · rw [compactOf_of (s * 256) 3 (s * 256) (byteLen_unique _ 3 (by omega) (by norm_num; omega) (by norm_num; omega))
          (by norm_num)]
        have : s * 256 / 8388608 % 2 = 1 := by omega
        simp [this]
    -- e ≥ 5: K = 256^(e-5)
    have e5 : 5 ≤ e := by omega
    have hK : 0 < 256 ^ (e - 5) := by positivity
    have p3 : 256 ^ (e - 3) = 65536 * 256 ^ (e - 5) := by
      have : e - 3 = (e - 5) + 2 := by omega
      rw [this, Nat.pow_add]; norm_num; ring
    have p4 : 256 ^ (e - 4) = 256 * 256 ^ (e - 5) := by
      have : e - 4 = (e - 5) + 1 := by omega
      rw [this, Nat.pow_add]; norm_num; ring
    have p2 : 256 ^ (e - 2) = 16777216 * 256 ^ (e - 5) := by
      have : e - 2 = (e - 5) + 3 := by omega
      rw [this, Nat.pow_add]; norm_num; ring
    have p1 : 256 ^ (e - 1) = 4294967296 * 256 ^ (e - 5) := by
      have : e - 1 = (e - 5) + 4 := by omega
      rw [this, Nat.pow_add]; norm_num; ring
    have p0 : 256 ^ e = 1099511627776 * 256 ^ (e - 5) := by
      have : e = (e - 5) + 5 := by omega
      rw [this, Nat.pow_add]; norm_num; ring
    have hv : cval e s = s * (65536 * 256 ^ (e - 5)) := by
      unfold cval
      have : ¬ e < 3 := by omega
      simp only [this, if_false, hm, p3]
    rw [hv]
    generalize 256 ^ (e - 5) = K at *
    have hsK : s * (65536 * K) = 65536 * (s * K) := by ring
    by_cases hs : 65536 ≤ s
    · have hb : byteLen (s * (65536 * K)) = e := by
        apply byteLen_unique _ e (by omega)
        · rw [p1, hsK]
          have : 65536 * K ≤ s * K := Nat.mul_le_mul_right K hs
          omega
        · rw [p0, hsK]
          have : s * K < 16777216 * K := Nat.mul_lt_mul_of_pos_right (by omega) hK
          omega
      rw [compactOf_of _ e s hb (by
        have : ¬ e ≤ 3 := by omega
        simp only [this, if_false, p3]
        exact Nat.mul_div_cancel s (by omega))]
      have : ¬ s / 8388608 % 2 = 1 := by omega
      simp [this]
    · have hb : byteLen (s * (65536 * K)) = e - 1 := by
        apply byteLen_unique _ (e - 1) (by omega)
        · have : e - 1 - 1 = e - 2 := by omega
          rw [this, p2, hsK]
          have : 256 * K ≤ s * K := Nat.mul_le_mul_right K (by omega)
          omega
        · rw [p1, hsK]
          have : s * K < 65536 * K := Nat.mul_lt_mul_of_pos_right (by omega) hK
          omega
      rw [compactOf_of _ (e - 1) (s * 256) hb (by
        have h1 : ¬ e - 1 ≤ 3 := by omega
        have h2 : e - 1 - 3 = e - 4 := by omega
        simp only [h1, if_false, h2, p4]
        have : s * (65536 * K) = (s * 256) * (256 * K) := by ring
        rw [this]
        exact Nat.mul_div_cancel (s * 256) (by omega))]
      have h1 : s * 256 / 8388608 % 2 = 1 := by omega
      have h2 : e - 1 + 1 = e := by omega
      simp [h1, h2]

/-- every output of `bits_from_target` / `GetCompact` is canonical: `canonical` is exactly the image -/
theorem compactOf_canonical (v : Nat) : canonical (compactOf v).1 (compactOf v).2 := by
  by_cases h0 : v = 0
  · subst h0
    left
    rw [compactOf_of 0 0 0 byteLen_zero (by simp)]
    simp
  · right
    obtain ⟨hn1, hlo, hhi⟩ := byteLen_pos v (by omega)
    have hs := sig0_lt v
    unfold compactOf
    unfold sig0 at *
    generalize hn : byteLen v = n at *
    by_cases hle : n ≤ 3
    · simp only [hle, if_true] at hs ⊢
      interval_cases n <;> norm_num at hlo hhi hs ⊢ <;> split <;> simp <;> omega
    · simp only [hle, if_false] at hs ⊢
      have hK : 0 < 256 ^ (n - 3) := by positivity
      have hlow : 65536 ≤ v / 256 ^ (n - 3) := by
        rw [Nat.le_div_iff_mul_le hK]
        have : n - 1 = 2 + (n - 3) := by omega
        rw [this, Nat.pow_add] at hlo
        norm_num at hlo
        exact hlo
      generalize v / 256 ^ (n - 3) = s0 at *
      split <;> simp <;> omega

/-- encode ∘ decode = id on canonical bits, on the generated functions -/
theorem canonical_roundtrip4 (x0 x1 x2 x3 : UInt8) (hc : canonical x0.toNat (ofBE [x1, x2, x3]))
    (t' : Bytes) (ht : Gen.Pow.target_from_bits [x0, x1, x2, x3] = .ok t') :
    Gen.Pow.bits_from_target t' = .ok [x0, x1, x2, x3] := by
  rw [target_from_bits_eq] at ht
  split at ht
  · cases ht
  · rename_i hov
    cases ht
    have hlt : cval x0.toNat (ofBE [x1, x2, x3]) < 256 ^ 32 := by rw [← U256_eq]; omega
    rw [bits_from_target_eq _ (by simp), ofBE_beBytes, Nat.mod_eq_of_lt hlt, compactOf_cval _ _ hc]
    simp only []
    have h1 : UInt8.ofNat x0.toNat = x0 := by simp
    have h2 := beBytes_ofBE [x1, x2, x3]
    simp only [List.length_cons, List.length_nil] at h2
    rw [h1, h2]

end Btc.Pow
