import Model.C17.CorePow
import Generated.Pow
import Proofs.Common.Bytes
import Mathlib.Tactic.NormNum
import Mathlib.Tactic.Positivity
import Mathlib.Tactic.Linarith
namespace Btc.Pow
open Btc Btc.Py

/-! ### bit length -/

theorem natBitLengthAux_spec : ∀ fuel n, n ≤ fuel →
    (n = 0 → natBitLengthAux fuel n = 0) ∧
    (0 < n → 1 ≤ natBitLengthAux fuel n ∧ 2 ^ (natBitLengthAux fuel n - 1) ≤ n ∧ n < 2 ^ natBitLengthAux fuel n) := by
  intro fuel
  induction fuel with
  | zero =>
    intro n hn
    have : n = 0 := by omega
    subst this
    simp [natBitLengthAux]
  | succ k ih =>
    intro n hn
    constructor
    · intro h0; simp [natBitLengthAux, h0]
    · intro hpos
      have hne : n ≠ 0 := by omega
      simp only [natBitLengthAux, hne, if_false]
      have hk : n / 2 ≤ k := by omega
      obtain ⟨ih0, ihp⟩ := ih (n / 2) hk
      by_cases h2 : n / 2 = 0
      · rw [ih0 h2]
        have : n = 1 := by omega
        subst this; simp
      · obtain ⟨a, b, c⟩ := ihp (by omega)
        refine ⟨by omega, ?_, ?_⟩
        · have : 1 + natBitLengthAux k (n / 2) - 1 = (natBitLengthAux k (n / 2) - 1) + 1 := by omega
          rw [this, Nat.pow_succ]; omega
        · rw [Nat.add_comm, Nat.pow_succ]; omega

theorem natBitLength_zero : natBitLength 0 = 0 := by simp [natBitLength, natBitLengthAux]

theorem natBitLength_pos (n : Nat) (h : 0 < n) :
    1 ≤ natBitLength n ∧ 2 ^ (natBitLength n - 1) ≤ n ∧ n < 2 ^ natBitLength n :=
  (natBitLengthAux_spec n n (Nat.le_refl n)).2 h

/-- number of bytes a value occupies: Core's `(bits() + 7) / 8` -/
def byteLen (v : Nat) : Nat := (natBitLength v + 7) / 8

theorem byteLen_zero : byteLen 0 = 0 := by simp [byteLen, natBitLength_zero]

theorem pow256 (k : Nat) : 256 ^ k = 2 ^ (8 * k) := by
  rw [Nat.pow_mul]

theorem byteLen_pos (v : Nat) (h : 0 < v) :
    1 ≤ byteLen v ∧ 256 ^ (byteLen v - 1) ≤ v ∧ v < 256 ^ byteLen v := by
  obtain ⟨a, b, c⟩ := natBitLength_pos v h
  unfold byteLen
  refine ⟨by omega, ?_, ?_⟩
  · rw [pow256]
    refine Nat.le_trans (Nat.pow_le_pow_right (by omega) ?_) b
    omega
  · rw [pow256]
    refine Nat.lt_of_lt_of_le c (Nat.pow_le_pow_right (by omega) ?_)
    omega

theorem byteLen_le (v k : Nat) (h : v < 256 ^ k) : byteLen v ≤ k := by
  by_cases h0 : v = 0
  · subst h0; simp [byteLen_zero]
  · obtain ⟨a, b, c⟩ := byteLen_pos v (by omega)
    by_cases hk : byteLen v ≤ k
    · exact hk
    · exfalso
      have : 256 ^ k ≤ 256 ^ (byteLen v - 1) := Nat.pow_le_pow_right (by omega) (by omega)
      omega

/-! ### Python-semantics helpers on naturals -/

theorem land_nat (x y : Nat) : land (x : Int) (y : Int) = ((x &&& y : Nat) : Int) := rfl

theorem shr_nat (x k : Nat) : shr (x : Int) (k : Int) = ((x / 2 ^ k : Nat) : Int) := by
  unfold shr
  simp only [Int.toNat_natCast]
  rw [Int.fdiv_eq_ediv_of_nonneg _ (by positivity)]
  norm_cast

theorem shl_nat (x k : Nat) : shl (x : Int) (k : Int) = ((x * 2 ^ k : Nat) : Int) := by
  unfold shl
  simp only [Int.toNat_natCast]
  norm_cast

theorem and_bit23 (x : Nat) : x &&& 8388608 = 8388608 * (x / 8388608 % 2) := by
  have h1 : (x &&& 2 ^ 23) / 2 ^ 23 = x / 2 ^ 23 % 2 := by
    rw [Nat.and_div_two_pow]; simp [Nat.and_one_is_mod]
  have h2 : (x &&& 2 ^ 23) % 2 ^ 23 = 0 := by
    rw [Nat.and_mod_two_pow]; simp
  have := Nat.div_add_mod (x &&& 2 ^ 23) (2 ^ 23)
  norm_num at h1 h2 this ⊢
  omega

theorem and_mask23 (x : Nat) : x &&& 8388607 = x % 8388608 := by
  have := Nat.and_two_pow_sub_one_eq_mod x 23
  norm_num at this
  exact this

theorem ofBE_cons (x : UInt8) (rest : Bytes) : ofBE (x :: rest) = x.toNat * 256 ^ rest.length + ofBE rest := by
  simp only [ofBE, List.foldl_cons, ofBE_foldl, Nat.zero_mul, Nat.zero_add]

end Btc.Pow
