import Model.C17.Merkle
namespace Btc.Merkle

variable {α : Type}

theorem sibIdx_add_two (i : Nat) : sibIdx (i + 2) = sibIdx i + 2 := by
  unfold sibIdx
  have : (i + 2) % 2 = i % 2 := by omega
  rw [this]
  split <;> omega

theorem sibling_cons_cons (a b : α) (rest : List α) (i : Nat) (d : α) :
    sibling (a :: b :: rest) (i + 2) d = sibling rest i d := by
  unfold sibling
  rw [sibIdx_add_two]
  simp

/-- the node above position `i` is the hash of `l[i]` and its sibling, in the order parity says -/
theorem nextLevel_get (h : α → α → α) (d : α) : ∀ (l : List α) (i : Nat) (x : α), l[i]? = some x →
    (nextLevel h l)[i / 2]? = some (if i % 2 = 1 then h (sibling l i d) x else h x (sibling l i d))
  | [], i, x, hx => by simp at hx
  | [a], i, x, hx => by
    cases i with
    | zero =>
      simp at hx; subst hx
      simp [nextLevel, sibling, sibIdx]
    | succ k => simp at hx
  | a :: b :: rest, 0, x, hx => by
    simp at hx; subst hx
    simp [nextLevel, sibling, sibIdx]
  | a :: b :: rest, 1, x, hx => by
    simp at hx; subst hx
    simp [nextLevel, sibling, sibIdx]
  | a :: b :: rest, i + 2, x, hx => by
    have hx' : rest[i]? = some x := by simpa using hx
    have ih := nextLevel_get h d rest i x hx'
    have e1 : (i + 2) / 2 = i / 2 + 1 := by omega
    have e2 : (i + 2) % 2 = i % 2 := by omega
    rw [e1, e2, sibling_cons_cons]
    simpa [nextLevel] using ih

/-- a right child equal to its left sibling is an equal pair at an even position -/
theorem levelMutated_of_pair [DecidableEq α] : ∀ (l : List α) (i : Nat) (y : α), i % 2 = 1 → l[i - 1]? = some y → l[i]? = some y →
    levelMutated l = true
  | [], i, y, _, h1, _ => by simp at h1
  | [a], i, y, hi, h1, h2 => by
    cases i with
    | zero => omega
    | succ k => simp at h2
  | a :: b :: rest, 0, y, hi, _, _ => by omega
  | a :: b :: rest, 1, y, _, h1, h2 => by
    simp at h1 h2
    simp [levelMutated, h1, h2]
  | a :: b :: rest, i + 2, y, hi, h1, h2 => by
    have hi' : i % 2 = 1 := by omega
    have e : i + 2 - 1 = (i - 1) + 2 := by omega
    rw [e] at h1
    have h1' : rest[i - 1]? = some y := by simpa using h1
    have h2' : rest[i]? = some y := by simpa using h2
    simp [levelMutated, levelMutated_of_pair rest i y hi' h1' h2']

/-- the flag of the loop only grows -/
theorem rootLoop_flag [DecidableEq α] (h : α → α → α) : ∀ (n : Nat) (l : List α), l.length ≤ n → ∀ (r : α) (m : Bool),
    rootLoop h l true = some (r, m) → m = true := by
  intro n
  induction n with
  | zero =>
    intro l hl r m hr
    have : l = [] := List.eq_nil_of_length_eq_zero (by omega)
    subst this
    simp [rootLoop] at hr
  | succ k ih =>
    intro l hl r m hr
    match l, hl, hr with
    | [], _, hr => simp [rootLoop] at hr
    | [a], _, hr => simp [rootLoop] at hr; exact hr.2
    | a :: b :: rest, hl, hr =>
      rw [rootLoop] at hr
      simp only [Bool.true_or] at hr
      refine ih (nextLevel h (a :: b :: rest)) ?_ r m hr
      have := nextLevel_length h (a :: b :: rest)
      simp only [List.length_cons] at this hl ⊢
      omega

/-- T1 (loop form): the branch of leaf `i` recomputes the root the loop returns, or is refused as
    mutated -- and then the loop's flag is set. -/
theorem branch_complete_loop [DecidableEq α] (h : α → α → α) : ∀ (n : Nat) (l : List α), l.length ≤ n →
    ∀ (i : Nat) (x : α) (m0 : Bool) (r : α) (m : Bool), l[i]? = some x → rootLoop h l m0 = some (r, m) →
      rootFromBranch h x (branch h l i) i = .ok r ∨
        (rootFromBranch h x (branch h l i) i = .error .mutated ∧ m = true) := by
  intro n
  induction n with
  | zero =>
    intro l hl i x m0 r m hx _
    have : l = [] := List.eq_nil_of_length_eq_zero (by omega)
    subst this
    simp at hx
  | succ k ih =>
    intro l hl i x m0 r m hx hr
    match l, hl, hx, hr with
    | [], _, hx, _ => simp at hx
    | [a], _, hx, hr =>
      cases i with
      | zero =>
        simp at hx; subst hx
        simp [rootLoop] at hr
        left
        simp [branch, rootFromBranch, hr.1]
      | succ j => simp at hx
    | a :: b :: rest, hl, hx, hr =>
      rw [rootLoop] at hr
      have hlen : (nextLevel h (a :: b :: rest)).length ≤ k := by
        have := nextLevel_length h (a :: b :: rest)
        simp only [List.length_cons] at this hl ⊢
        omega
      have hnext := nextLevel_get h a (a :: b :: rest) i x hx
      rw [branch, rootFromBranch]
      by_cases hi : i % 2 = 1
      · simp only [hi, if_true] at hnext ⊢
        by_cases hs : sibling (a :: b :: rest) i a = x
        · -- the CVE-2012-2459 position: right child equal to its left sibling
          simp only [hs, if_true]
          right
          refine ⟨trivial, ?_⟩
          have hsib : (a :: b :: rest)[i - 1]? = some x := by
            unfold sibling sibIdx at hs
            simp only [hi, if_true] at hs
            have hlt : i - 1 < (a :: b :: rest).length := by
              have := (List.getElem?_eq_some_iff.mp hx).1
              omega
            rw [List.getElem?_eq_getElem hlt] at hs ⊢
            simpa using hs
          have hm := levelMutated_of_pair (a :: b :: rest) i x hi hsib hx
          rw [hm, Bool.or_true] at hr
          exact rootLoop_flag h k _ hlen r m hr
        · simp only [hs, if_false]
          exact ih _ hlen (i / 2) _ _ r m hnext hr
      · simp only [hi, if_false] at hnext ⊢
        exact ih _ hlen (i / 2) _ _ r m hnext hr

/-- T1: every leaf's branch recomputes the root, or is refused as mutated and the tree is flagged. -/
theorem branch_complete [DecidableEq α] (h : α → α → α) (l : List α) (i : Nat) (x r : α) (m : Bool)
    (hx : l[i]? = some x) (hr : rootAndMutated h l = some (r, m)) :
    rootFromBranch h x (branch h l i) i = .ok r ∨
      (rootFromBranch h x (branch h l i) i = .error .mutated ∧ m = true) :=
  branch_complete_loop h l.length l (Nat.le_refl _) i x false r m hx hr

theorem branch_complete_unmutated [DecidableEq α] (h : α → α → α) (l : List α) (i : Nat) (x r : α)
    (hx : l[i]? = some x) (hr : rootAndMutated h l = some (r, false)) :
    rootFromBranch h x (branch h l i) i = .ok r := by
  rcases branch_complete h l i x r false hx hr with h1 | ⟨_, h2⟩
  · exact h1
  · cases h2

/-- every non-empty list has a root -/
theorem rootLoop_some [DecidableEq α] (h : α → α → α) : ∀ (n : Nat) (l : List α), l.length ≤ n → l ≠ [] →
    ∀ m0, ∃ r m, rootLoop h l m0 = some (r, m) := by
  intro n
  induction n with
  | zero => intro l hl hne; exact absurd (List.eq_nil_of_length_eq_zero (by omega)) hne
  | succ k ih =>
    intro l hl hne m0
    match l, hl, hne with
    | [], _, hne => exact absurd rfl hne
    | [a], _, _ => exact ⟨a, m0, by simp [rootLoop]⟩
    | a :: b :: rest, hl, _ =>
      rw [rootLoop]
      apply ih
      · have := nextLevel_length h (a :: b :: rest)
        simp only [List.length_cons] at this hl ⊢
        omega
      · simp [nextLevel]

theorem rootAndMutated_some_iff [DecidableEq α] (h : α → α → α) (l : List α) :
    (∃ r m, rootAndMutated h l = some (r, m)) ↔ l ≠ [] := by
  constructor
  · rintro ⟨r, m, hr⟩ hl
    subst hl
    simp [rootAndMutated, rootLoop] at hr
  · intro hne
    exact rootLoop_some h l.length l (Nat.le_refl _) hne false

/-- T2: a root commits to at most one (leaf, branch) per index and depth -- or the node hash collides,
    and the colliding pairs are exhibited. -/
theorem branch_sound [DecidableEq α] (h : α → α → α) : ∀ (br br' : List α) (x y r : α) (i : Nat),
    br.length = br'.length → rootFromBranch h x br i = .ok r → rootFromBranch h y br' i = .ok r →
    (x = y ∧ br = br') ∨ ∃ a b c d, (a, b) ≠ (c, d) ∧ h a b = h c d := by
  intro br
  induction br with
  | nil =>
    intro br' x y r i hl h1 h2
    have : br' = [] := List.eq_nil_of_length_eq_zero (by simpa using hl.symm)
    subst this
    simp only [rootFromBranch] at h1 h2
    split at h1
    · cases h1
    · split at h2
      · cases h2
      · cases h1; cases h2; exact Or.inl ⟨rfl, rfl⟩
  | cons s bs ih =>
    intro br' x y r i hl h1 h2
    match br', hl with
    | s' :: bs', hl =>
      have hl' : bs.length = bs'.length := by simpa using hl
      simp only [rootFromBranch] at h1 h2
      by_cases hi : i % 2 = 1
      · simp only [hi, if_true] at h1 h2
        split at h1
        · cases h1
        · split at h2
          · cases h2
          · rcases ih bs' _ _ r (i / 2) hl' h1 h2 with ⟨he, hb⟩ | hc
            · by_cases hp : (s, x) = (s', y)
              · cases hp; exact Or.inl ⟨rfl, by rw [hb]⟩
              · exact Or.inr ⟨s, x, s', y, hp, he⟩
            · exact Or.inr hc
      · simp only [hi, if_false] at h1 h2
        rcases ih bs' _ _ r (i / 2) hl' h1 h2 with ⟨he, hb⟩ | hc
        · by_cases hp : (x, s) = (y, s')
          · cases hp; exact Or.inl ⟨rfl, by rw [hb]⟩
          · exact Or.inr ⟨x, s, y, s', hp, he⟩
        · exact Or.inr hc

/-- T2 against a real tree: whatever verifies at index `i` with a branch of the honest depth is the
    leaf at `i`, or a collision of the node hash is exhibited. -/
theorem branch_sound_tree [DecidableEq α] (h : α → α → α) (l : List α) (i : Nat) (x y r : α) (br' : List α)
    (hx : l[i]? = some x) (hr : rootAndMutated h l = some (r, false))
    (hl : br'.length = (branch h l i).length) (hv : rootFromBranch h y br' i = .ok r) :
    y = x ∨ ∃ a b c d, (a, b) ≠ (c, d) ∧ h a b = h c d := by
  have h1 := branch_complete_unmutated h l i x r hx hr
  rcases branch_sound h _ _ x y r i hl.symm h1 hv with ⟨he, _⟩ | hc
  · exact Or.inl he.symm
  · exact Or.inr hc

/-- leftover index bits are refused: an accepted index fits the depth of the branch -/
theorem rootFromBranch_index_bound [DecidableEq α] (h : α → α → α) : ∀ (br : List α) (x r : α) (i : Nat),
    rootFromBranch h x br i = .ok r → i < 2 ^ br.length := by
  intro br
  induction br with
  | nil =>
    intro x r i h1
    simp only [rootFromBranch] at h1
    split at h1
    · cases h1
    · simp; omega
  | cons s bs ih =>
    intro x r i h1
    simp only [rootFromBranch] at h1
    have key : i / 2 < 2 ^ bs.length → i < 2 ^ (s :: bs).length := by
      intro hh; simp only [List.length_cons, Nat.pow_succ]; omega
    split at h1
    · split at h1
      · cases h1
      · exact key (ih _ _ _ h1)
    · exact key (ih _ _ _ h1)

/-! ### T3: the mutation flag -/

/-- the levels the loop visits: the leaves, then each level above, down to the single root -/
def levels [DecidableEq α] (h : α → α → α) : Nat → List α → List (List α)
  | 0, l => [l]
  | n + 1, l => if l.length ≤ 1 then [l] else l :: levels h n (nextLevel h l)

/-- the flag is independent of the root: `rootLoop l m = (root, m || flag-from-false)` -/
theorem rootLoop_flag_eq [DecidableEq α] (h : α → α → α) : ∀ (n : Nat) (l : List α), l.length ≤ n → ∀ m,
    rootLoop h l m = (rootLoop h l false).map (fun p => (p.1, m || p.2)) := by
  intro n
  induction n with
  | zero =>
    intro l hl m
    have : l = [] := List.eq_nil_of_length_eq_zero (by omega)
    subst this; simp [rootLoop]
  | succ k ih =>
    intro l hl m
    match l, hl with
    | [], _ => simp [rootLoop]
    | [a], _ => simp [rootLoop]
    | a :: b :: rest, hl =>
      have hlen : (nextLevel h (a :: b :: rest)).length ≤ k := by
        have := nextLevel_length h (a :: b :: rest)
        simp only [List.length_cons] at this hl ⊢
        omega
      rw [rootLoop, rootLoop, ih _ hlen (m || _), ih _ hlen (false || _)]
      simp [Option.map_map, Function.comp_def, Bool.or_assoc]

/-- the flag the loop returns is the disjunction of `levelMutated` over the levels it visits -/
theorem mutated_iff_levels [DecidableEq α] (h : α → α → α) : ∀ (n : Nat) (l : List α), l.length ≤ n →
    ∀ r m, rootLoop h l false = some (r, m) → (m = true ↔ ∃ lvl ∈ levels h n l, levelMutated lvl = true) := by
  intro n
  induction n with
  | zero =>
    intro l hl r m hr
    have : l = [] := List.eq_nil_of_length_eq_zero (by omega)
    subst this; simp [rootLoop] at hr
  | succ k ih =>
    intro l hl r m hr
    match l, hl, hr with
    | [], _, hr => simp [rootLoop] at hr
    | [a], _, hr =>
      simp [rootLoop] at hr
      simp [levels, levelMutated, hr.2.symm]
    | a :: b :: rest, hl, hr =>
      have hlen : (nextLevel h (a :: b :: rest)).length ≤ k := by
        have := nextLevel_length h (a :: b :: rest)
        simp only [List.length_cons] at this hl ⊢
        omega
      rw [rootLoop, rootLoop_flag_eq h k _ hlen] at hr
      simp only [Bool.false_or, Option.map_eq_some_iff] at hr
      obtain ⟨⟨r', m'⟩, hr', heq⟩ := hr
      have := ih _ hlen r' m' hr'
      simp only [Prod.mk.injEq] at heq
      obtain ⟨_, hm⟩ := heq
      have hlv : levels h (k + 1) (a :: b :: rest) = (a :: b :: rest) :: levels h k (nextLevel h (a :: b :: rest)) := by
        simp [levels]
      rw [hlv, ← hm]
      simp only [Bool.or_eq_true, List.mem_cons, exists_eq_or_imp]
      rw [this]

theorem levelMutated_iff [DecidableEq α] : ∀ (l : List α), levelMutated l = true ↔
    ∃ k x, l[2 * k]? = some x ∧ l[2 * k + 1]? = some x
  | [] => by simp [levelMutated]
  | [a] => by
    simp only [levelMutated, Bool.false_eq_true, false_iff, not_exists, not_and]
    intro k x h1 h2
    simp at h2
  | a :: b :: rest => by
    have ih := levelMutated_iff rest
    simp only [levelMutated, Bool.or_eq_true, beq_iff_eq, ih]
    constructor
    · rintro (hab | ⟨k, x, h1, h2⟩)
      · exact ⟨0, a, by simp, by simp [hab]⟩
      · refine ⟨k + 1, x, ?_, ?_⟩
        · have : 2 * (k + 1) = 2 * k + 2 := by omega
          rw [this]; simpa using h1
        · have : 2 * (k + 1) + 1 = (2 * k + 1) + 2 := by omega
          rw [this]; simpa using h2
    · rintro ⟨k, x, h1, h2⟩
      cases k with
      | zero =>
        simp at h1 h2
        left; rw [h1, h2]
      | succ j =>
        right
        refine ⟨j, x, ?_, ?_⟩
        · have : 2 * (j + 1) = 2 * j + 2 := by omega
          rw [this] at h1; simpa using h1
        · have : 2 * (j + 1) + 1 = (2 * j + 1) + 2 := by omega
          rw [this] at h2; simpa using h2

/-- CVE-2012-2459: on an even-length prefix followed by `z`, appending a second `z` gives the same
    next level and an equal pair at an even position. -/
theorem dup_last_level [DecidableEq α] (h : α → α → α) (z : α) : ∀ (pre : List α), pre.length % 2 = 0 →
    nextLevel h (pre ++ [z, z]) = nextLevel h (pre ++ [z]) ∧ levelMutated (pre ++ [z, z]) = true
  | [], _ => by simp [nextLevel, levelMutated]
  | [a], hp => by simp at hp
  | a :: b :: rest, hp => by
    have hp' : rest.length % 2 = 0 := by simp only [List.length_cons] at hp; omega
    obtain ⟨h1, h2⟩ := dup_last_level h z rest hp'
    simp [nextLevel, levelMutated, h1, h2]

/-- T3 (duplicated tail): an odd level of at least three nodes with its last node repeated has the
    same root, and the flag is raised. -/
theorem dup_tail [DecidableEq α] (h : α → α → α) (pre : List α) (z : α) (hp : pre.length % 2 = 0) (h2 : 2 ≤ pre.length) :
    rootAndMutated h (pre ++ [z, z]) = (rootAndMutated h (pre ++ [z])).map (fun p => (p.1, true)) := by
  obtain ⟨e1, e2⟩ := dup_last_level h z pre hp
  match pre, h2 with
  | a :: b :: rest, _ =>
    unfold rootAndMutated
    simp only [List.cons_append]
    rw [rootLoop, rootLoop]
    simp only [List.cons_append] at e1 e2
    rw [e1, e2]
    simp only [Bool.false_or]
    rw [rootLoop_flag_eq h _ _ (Nat.le_refl _) true,
      rootLoop_flag_eq h _ _ (Nat.le_refl _) (levelMutated (a :: b :: (rest ++ [z])))]
    simp [Option.map_map, Function.comp_def]

/-! ### byte level -/

theorem rootFromBranchBytesLoop_eq (H : Bytes → Bytes) : ∀ (br : List Bytes) (r : Bytes) (i : Nat),
    (∀ s ∈ br, s.length = 32) →
    rootFromBranchBytesLoop H r br i = rootFromBranch (fun a b => H (a ++ b)) r br i := by
  intro br
  induction br with
  | nil => intro r i _; simp [rootFromBranchBytesLoop, rootFromBranch]
  | cons s bs ih =>
    intro r i hall
    have hs : s.length = 32 := hall s (by simp)
    have hbs : ∀ t ∈ bs, t.length = 32 := fun t ht => hall t (by simp [ht])
    simp only [rootFromBranchBytesLoop, rootFromBranch, hs, ne_eq, not_true_eq_false, if_false]
    rw [ih _ _ hbs, ih _ _ hbs]

/-- on well-sized input the byte-level entry point is the abstract verifier with `h a b = H (a ++ b)` -/
theorem rootFromBranchBytes_eq (H : Bytes → Bytes) (leaf : Bytes) (br : List Bytes) (index : Int)
    (hi : 0 ≤ index) (hl : leaf.length = 32) (hall : ∀ s ∈ br, s.length = 32) :
    rootFromBranchBytes H leaf br index = rootFromBranch (fun a b => H (a ++ b)) leaf br index.toNat := by
  unfold rootFromBranchBytes
  have : ¬ index < 0 := by omega
  simp only [this, if_false, hl, ne_eq, not_true_eq_false]
  exact rootFromBranchBytesLoop_eq H br leaf _ hall

/-- the depth of a branch depends on the number of leaves only -/
theorem branch_length_eq (h h' : α → α → α) : ∀ (n : Nat) (l l' : List α) (i i' : Nat), l.length ≤ n →
    l.length = l'.length → (branch h l i).length = (branch h' l' i').length := by
  intro n
  induction n with
  | zero =>
    intro l l' i i' hl he
    have e1 : l = [] := List.eq_nil_of_length_eq_zero (by omega)
    have e2 : l' = [] := List.eq_nil_of_length_eq_zero (by omega)
    subst e1 e2; simp [branch]
  | succ k ih =>
    intro l l' i i' hl he
    match l, l', he with
    | [], [], _ => simp [branch]
    | [_], [_], _ => simp [branch]
    | a :: b :: rest, a' :: b' :: rest', he =>
      rw [branch, branch]
      simp only [List.length_cons, Nat.add_right_cancel_iff]
      apply ih
      · have := nextLevel_length h (a :: b :: rest)
        simp only [List.length_cons] at this hl ⊢
        omega
      · rw [nextLevel_length, nextLevel_length, he]

/-! ### the `check_inner_node` callback (CVE-2017-12842) -/

/-- the checked verifier accepts exactly when the plain one does and no pair hashed on the way up is one
    the callback refuses: an accepted proof never passes through a node that is a serialized transaction. -/
theorem checked_ok_iff [DecidableEq α] (h : α → α → α) (bad : α → α → Bool) : ∀ (br : List α) (x r : α) (i : Nat),
    rootFromBranchChecked h bad x br i = .ok r ↔
      rootFromBranch h x br i = .ok r ∧ ∀ p ∈ pathPairs h x br i, bad p.1 p.2 = false := by
  intro br
  induction br with
  | nil =>
    intro x r i
    simp [rootFromBranchChecked, rootFromBranch, pathPairs]
  | cons s bs ih =>
    intro x r i
    simp only [rootFromBranchChecked, rootFromBranch, pathPairs]
    by_cases hi : i % 2 = 1
    · simp only [hi, if_true]
      by_cases hs : s = x
      · simp [hs]
      · simp only [hs, if_false]
        cases hb : bad s x with
        | true =>
          simp only [if_true, List.mem_cons, forall_eq_or_imp, hb]
          simp
        | false =>
          simp only [Bool.false_eq_true, if_false, List.mem_cons, forall_eq_or_imp, hb, true_and]
          exact ih _ _ _
    · simp only [hi, if_false]
      cases hb : bad x s with
      | true =>
        simp only [if_true, List.mem_cons, forall_eq_or_imp, hb]
        simp
      | false =>
        simp only [Bool.false_eq_true, if_false, List.mem_cons, forall_eq_or_imp, hb, true_and]
        exact ih _ _ _

theorem rootFromBranchBytesCheckedLoop_eq (H : Bytes → Bytes) (isTx : Bytes → Bool) : ∀ (br : List Bytes) (r : Bytes) (i : Nat),
    (∀ s ∈ br, s.length = 32) →
    rootFromBranchBytesCheckedLoop H isTx r br i =
      rootFromBranchChecked (fun a b => H (a ++ b)) (fun a b => isTx (a ++ b)) r br i := by
  intro br
  induction br with
  | nil => intro r i _; simp [rootFromBranchBytesCheckedLoop, rootFromBranchChecked]
  | cons s bs ih =>
    intro r i hall
    have hs : s.length = 32 := hall s (by simp)
    have hbs : ∀ t ∈ bs, t.length = 32 := fun t ht => hall t (by simp [ht])
    simp only [rootFromBranchBytesCheckedLoop, rootFromBranchChecked, hs, ne_eq, not_true_eq_false, if_false]
    rw [ih _ _ hbs, ih _ _ hbs]

/-! ### indexes past the last leaf (the verifier's side of CVE-2012-2459) -/

theorem rootLoop_unmutated_step [DecidableEq α] (h : α → α → α) (a b : α) (rest : List α) (r : α)
    (hr : rootLoop h (a :: b :: rest) false = some (r, false)) :
    rootLoop h (nextLevel h (a :: b :: rest)) false = some (r, false) := by
  rw [rootLoop, rootLoop_flag_eq h _ _ (Nat.le_refl _)] at hr
  cases hn : rootLoop h (nextLevel h (a :: b :: rest)) false with
  | none => rw [hn] at hr; simp at hr
  | some p =>
    rw [hn] at hr
    obtain ⟨r', m'⟩ := p
    simp only [Option.map_some, Option.some.injEq, Prod.mk.injEq, Bool.or_eq_false_iff] at hr
    obtain ⟨h1, _, h3⟩ := hr
    rw [h1, h3]

/-- no leaf position past the end verifies: in an unmutated tree, a proof of the honest depth accepted at an
    index `≥` the number of leaves (the phantom copies of a duplicated last node) exhibits a collision. -/
theorem out_of_range_loop [DecidableEq α] (h : α → α → α) (r : α) : ∀ (n : Nat) (l : List α), l.length ≤ n →
    rootLoop h l false = some (r, false) → ∀ (i : Nat) (y : α) (br' : List α), l.length ≤ i →
    br'.length = (branch h l 0).length → rootFromBranch h y br' i = .ok r →
    ∃ a b c d, (a, b) ≠ (c, d) ∧ h a b = h c d := by
  intro n
  induction n with
  | zero =>
    intro l hl hr
    have : l = [] := List.eq_nil_of_length_eq_zero (by omega)
    subst this; simp [rootLoop] at hr
  | succ k ih =>
    intro l hl hr i y br' hi hlen hv
    match l, hl, hr, hi, hlen with
    | [], _, hr, _, _ => simp [rootLoop] at hr
    | [a], _, _, hi, hlen =>
      have : br' = [] := List.eq_nil_of_length_eq_zero (by simpa [branch] using hlen)
      subst this
      simp only [rootFromBranch] at hv
      simp only [List.length_cons, List.length_nil] at hi
      have : i ≠ 0 := by omega
      simp [this] at hv
    | a :: b :: rest, hl, hr, hi, hlen =>
      have hr' := rootLoop_unmutated_step h a b rest r hr
      have hnl := nextLevel_length h (a :: b :: rest)
      have hk : (nextLevel h (a :: b :: rest)).length ≤ k := by
        simp only [List.length_cons] at hnl hl ⊢; omega
      rw [branch] at hlen
      match br', hlen with
      | s :: bs, hlen =>
        have hbs : bs.length = (branch h (nextLevel h (a :: b :: rest)) 0).length := by
          have := branch_length_eq h h (nextLevel h (a :: b :: rest)).length (nextLevel h (a :: b :: rest))
            (nextLevel h (a :: b :: rest)) (0 / 2) 0 (Nat.le_refl _) rfl
          simp only [List.length_cons, Nat.add_right_cancel_iff] at hlen
          rw [hlen, this]
        simp only [rootFromBranch] at hv
        by_cases hin : (nextLevel h (a :: b :: rest)).length ≤ i / 2
        · -- still past the end one level up
          by_cases hodd : i % 2 = 1
          · simp only [hodd, if_true] at hv
            split at hv
            · cases hv
            · exact ih _ hk hr' (i / 2) _ bs hin hbs hv
          · simp only [hodd, if_false] at hv
            exact ih _ hk hr' (i / 2) _ bs hin hbs hv
        · -- i is the phantom copy of the odd last leaf
          simp only [List.length_cons] at hnl hi hin
          have hodd : i % 2 = 1 := by omega
          simp only [hodd, if_true] at hv
          split at hv
          · cases hv
          · rename_i hsy
            have hlast : (a :: b :: rest)[i - 1]? = some ((a :: b :: rest)[i - 1]'(by simp only [List.length_cons]; omega)) :=
              List.getElem?_eq_getElem _
            generalize hz : (a :: b :: rest)[i - 1]'(by simp only [List.length_cons]; omega) = z at hlast
            have hget := nextLevel_get h a (a :: b :: rest) (i - 1) z hlast
            have he : (i - 1) % 2 = 0 := by omega
            have hhalf : (i - 1) / 2 = i / 2 := by omega
            have hsib : sibling (a :: b :: rest) (i - 1) a = z := by
              unfold sibling sibIdx
              have h1 : ¬ (i - 1) % 2 = 1 := by omega
              simp only [h1, if_false]
              have h2 : (a :: b :: rest)[i - 1 + 1]? = none := by
                apply List.getElem?_eq_none_iff.mpr
                simp only [List.length_cons]; omega
              rw [h2, hlast]; rfl
            have h1 : ¬ (i - 1) % 2 = 1 := by omega
            simp only [h1, if_false, hsib, hhalf] at hget
            have hlen2 : bs.length = (branch h (nextLevel h (a :: b :: rest)) (i / 2)).length := by
              rw [hbs]
              exact branch_length_eq h h _ _ _ 0 (i / 2) (Nat.le_refl _) rfl
            rcases branch_sound_tree h (nextLevel h (a :: b :: rest)) (i / 2) (h z z) (h s y) r bs hget hr' hlen2 hv
              with e | c
            · refine ⟨s, y, z, z, ?_, e⟩
              intro hp
              simp only [Prod.mk.injEq] at hp
              exact hsy (hp.1.trans hp.2.symm)
            · exact c

end Btc.Merkle
