import Model.C17.Bip158
import Proofs.C17.Golomb
namespace Btc.Bip158
open Btc Btc.Golomb

theorem hashToRange_lt (k0 k1 : UInt64) (e : Bytes) (upper : Nat) (hu : 0 < upper) :
    hashToRange k0 k1 e upper < upper := by
  unfold hashToRange
  rw [Nat.shiftRight_eq_div_pow, Nat.div_lt_iff_lt_mul (by decide)]
  have : (siphash k0 k1 e).toNat < 2 ^ 64 := (siphash k0 k1 e).toNat_lt
  rw [Nat.mul_comm]
  exact Nat.mul_lt_mul_of_pos_left this hu

theorem sorted_mergeSort (l : List Nat) : List.Pairwise (· ≤ ·) (l.mergeSort (· ≤ ·)) := by
  have := List.pairwise_mergeSort (le := fun a b : Nat => decide (a ≤ b))
    (fun a b c hab hbc => by simp at *; omega) (fun a b => by simp; omega) l
  simpa using this

/-- no false negatives, on the functions the driver runs: the filter `build` makes for a block (any block
    hash, any scripts) matches — through `matchAnyElems`, i.e. key derivation, SipHash range mapping, sorting,
    Golomb-Rice coding, decoding and the merge walk — every element of its own contents rule. -/
theorem build_matches_every_element (bh : Bytes) (outs prevs : List Bytes) (e : Bytes)
    (he : e ∈ elements outs prevs) :
    matchAnyElems bh (build bh outs prevs).1 (build bh outs prevs).2 [e] = .ok true := by
  unfold build matchAnyElems hashedSorted
  simp only []
  generalize hk : keyFromBlockHash bh = key
  obtain ⟨k0, k1⟩ := key
  simp only []
  generalize hes : elements outs prevs = es at he
  have hpos : 0 < es.length * M := by
    have h1 : 0 < es.length := List.length_pos_of_mem he
    have h2 : 0 < M := by decide
    exact Nat.mul_pos h1 h2
  generalize hup : es.length * M = upper at hpos
  have hs := sorted_mergeSort (es.map (hashToRange k0 k1 · upper))
  have hperm := List.mergeSort_perm (es.map (hashToRange k0 k1 · upper)) (fun a b : Nat => decide (a ≤ b))
  have hlen : ((es.map (hashToRange k0 k1 · upper)).mergeSort (· ≤ ·)).length = es.length := by simp
  have hb : ∀ v ∈ (es.map (hashToRange k0 k1 · upper)).mergeSort (· ≤ ·), v < upper := by
    intro v hv
    obtain ⟨x, _, rfl⟩ := List.mem_map.mp (hperm.mem_iff.mp hv)
    exact hashToRange_lt k0 k1 x upper hpos
  have hm : hashToRange k0 k1 e upper ∈ (es.map (hashToRange k0 k1 · upper)).mergeSort (· ≤ ·) :=
    hperm.mem_iff.mpr (List.mem_map.mpr ⟨e, he, rfl⟩)
  have key := no_false_negative P upper _ (hashToRange k0 k1 e upper) hs hb hm
  rw [hlen] at key
  have ht : ((List.map (fun x => hashToRange k0 k1 x upper) [e]).eraseDups).mergeSort (· ≤ ·)
      = [hashToRange k0 k1 e upper] := by
    simp [List.eraseDups, List.eraseDupsBy, List.eraseDupsBy.loop]
  rw [ht]
  exact key

/-- `match_any` on a built filter, for ANY list of queries (repeats, any order, elements or strangers): the
    answer is never an error and is `true` exactly when some query hashes — under the block's key, into the
    filter's range — onto the hashed value of some element of the contents rule. -/
theorem build_matchAny_iff (bh : Bytes) (outs prevs qs : List Bytes) :
    matchAnyElems bh (build bh outs prevs).1 (build bh outs prevs).2 qs =
      .ok (decide (∃ q ∈ qs, ∃ e ∈ elements outs prevs,
        hashToRange (keyFromBlockHash bh).1 (keyFromBlockHash bh).2 q ((elements outs prevs).length * M) =
        hashToRange (keyFromBlockHash bh).1 (keyFromBlockHash bh).2 e ((elements outs prevs).length * M))) := by
  unfold build matchAnyElems hashedSorted
  simp only []
  generalize keyFromBlockHash bh = key
  obtain ⟨k0, k1⟩ := key
  simp only []
  generalize elements outs prevs = es
  generalize hup : es.length * M = upper
  have hs := sorted_mergeSort (es.map (hashToRange k0 k1 · upper))
  have hperm := List.mergeSort_perm (es.map (hashToRange k0 k1 · upper)) (fun a b : Nat => decide (a ≤ b))
  have hlen : ((es.map (hashToRange k0 k1 · upper)).mergeSort (· ≤ ·)).length = es.length := by simp
  have hb : ∀ v ∈ (es.map (hashToRange k0 k1 · upper)).mergeSort (· ≤ ·), v < upper := by
    intro v hv
    obtain ⟨x, hx, rfl⟩ := List.mem_map.mp (hperm.mem_iff.mp hv)
    have hpos : 0 < upper := by
      rw [← hup]
      exact Nat.mul_pos (List.length_pos_of_mem hx) (by decide)
    exact hashToRange_lt k0 k1 x upper hpos
  have ht := sorted_mergeSort ((qs.map (hashToRange k0 k1 · upper)).eraseDups)
  have key := matchAny_encodeSet P upper _ _ hs hb ht
  rw [hlen] at key
  rw [key]
  congr 1
  apply decide_eq_decide.mpr
  have hpt := List.mergeSort_perm ((qs.map (hashToRange k0 k1 · upper)).eraseDups) (fun a b : Nat => decide (a ≤ b))
  constructor
  · rintro ⟨x, hx1, hx2⟩
    have h1 := List.mem_eraseDups.mp (hpt.mem_iff.mp hx1)
    obtain ⟨q, hq, rfl⟩ := List.mem_map.mp h1
    obtain ⟨e, he, hee⟩ := List.mem_map.mp (hperm.mem_iff.mp hx2)
    exact ⟨q, hq, e, he, hee.symm⟩
  · rintro ⟨q, hq, e, he, hqe⟩
    refine ⟨hashToRange k0 k1 q upper, hpt.mem_iff.mpr (List.mem_eraseDups.mpr (List.mem_map.mpr ⟨q, hq, rfl⟩)), ?_⟩
    rw [hqe]
    exact hperm.mem_iff.mpr (List.mem_map.mpr ⟨e, he, rfl⟩)

/-- no false negatives for ANY query list: if one of the queries is an element of the block's contents rule,
    `match_any` answers `True`, whatever else is asked along with it. -/
theorem build_matches_any_query (bh : Bytes) (outs prevs qs : List Bytes) (e : Bytes)
    (hq : e ∈ qs) (he : e ∈ elements outs prevs) :
    matchAnyElems bh (build bh outs prevs).1 (build bh outs prevs).2 qs = .ok true := by
  rw [build_matchAny_iff]
  congr 1
  exact decide_eq_true ⟨e, hq, e, he, rfl⟩

/-- …and a `False` answer is definitive: none of the queries is an element. -/
theorem build_miss_is_definitive (bh : Bytes) (outs prevs qs : List Bytes)
    (h : matchAnyElems bh (build bh outs prevs).1 (build bh outs prevs).2 qs = .ok false) :
    ∀ q ∈ qs, q ∉ elements outs prevs := by
  intro q hq he
  rw [build_matches_any_query bh outs prevs qs q hq he] at h
  cases h

/-- the contents rule of BIP158 as a set: the script of every output that is neither empty nor an OP_RETURN, the
    script of every spent previous output that is not empty; nothing else; each once. -/
theorem elements_spec (outs prevs : List Bytes) (s : Bytes) :
    s ∈ elements outs prevs ↔
      (s ∈ outs ∧ s ≠ [] ∧ s.head?.map (·.toNat) ≠ some Gen.Filter.OP_RETURN) ∨ (s ∈ prevs ∧ s ≠ []) := by
  unfold elements
  rw [List.mem_eraseDups, List.mem_append, List.mem_filter, List.mem_filter]
  constructor
  · rintro (⟨h1, h2⟩ | ⟨h1, h2⟩)
    · left
      cases s with
      | nil => simp at h2
      | cons x xs => simp at h2 ⊢; exact ⟨h1, h2⟩
    · right; exact ⟨h1, by simpa using h2⟩
  · rintro (⟨h1, h2, h3⟩ | ⟨h1, h2⟩)
    · left
      cases s with
      | nil => exact absurd rfl h2
      | cons x xs => simp at h3 ⊢; exact ⟨h1, h3⟩
    · right; exact ⟨h1, by simpa using h2⟩

end Btc.Bip158
