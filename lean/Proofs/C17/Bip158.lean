import Model.C17.Bip158
import Proofs.C17.Golomb
namespace Btc.Bip158
open Btc Btc.Golomb

theorem hashToRange_lt (k0 k1 : UInt64) (e : Bytes) (upper : Nat) (hu : 0 < upper) :
    hashToRange k0 k1 e upper < upper := by
  unfold hashToRange
  rw [Nat.shiftRight_eq_div_pow, Nat.div_lt_iff_lt_mul (by decide)]
  have : (siphash k0 k1 e).toNat < 2 ^ 64 := (siphash k0 k1 e).toNat_lt
  rw [Nat.mul_comm]
  exact Nat.mul_lt_mul_of_pos_left this hu

theorem sorted_mergeSort (l : List Nat) : List.Pairwise (· ≤ ·) (l.mergeSort (· ≤ ·)) := by
  have := List.pairwise_mergeSort (le := fun a b : Nat => decide (a ≤ b))
    (fun a b c hab hbc => by simp at *; omega) (fun a b => by simp; omega) l
  simpa using this

/-- no false negatives, on the functions the driver runs: the filter `build` makes for a block (any block
    hash, any scripts) matches — through `matchAnyElems`, i.e. key derivation, SipHash range mapping, sorting,
    Golomb-Rice coding, decoding and the merge walk — every element of its own contents rule. -/
theorem build_matches_every_element (bh : Bytes) (outs prevs : List Bytes) (e : Bytes)
    (he : e ∈ elements outs prevs) :
    matchAnyElems bh (build bh outs prevs).1 (build bh outs prevs).2 [e] = .ok true := by
  unfold build matchAnyElems hashedSorted
  simp only []
  generalize hk : keyFromBlockHash bh = key
  obtain ⟨k0, k1⟩ := key
  simp only []
  generalize hes : elements outs prevs = es at he
  have hpos : 0 < es.length * M := by
    have h1 : 0 < es.length := List.length_pos_of_mem he
    have h2 : 0 < M := by decide
    exact Nat.mul_pos h1 h2
  generalize hup : es.length * M = upper at hpos
  have hs := sorted_mergeSort (es.map (hashToRange k0 k1 · upper))
  have hperm := List.mergeSort_perm (es.map (hashToRange k0 k1 · upper)) (fun a b : Nat => decide (a ≤ b))
  have hlen : ((es.map (hashToRange k0 k1 · upper)).mergeSort (· ≤ ·)).length = es.length := by simp
  have hb : ∀ v ∈ (es.map (hashToRange k0 k1 · upper)).mergeSort (· ≤ ·), v < upper := by
    intro v hv
    obtain ⟨x, _, rfl⟩ := List.mem_map.mp (hperm.mem_iff.mp hv)
    exact hashToRange_lt k0 k1 x upper hpos
  have hm : hashToRange k0 k1 e upper ∈ (es.map (hashToRange k0 k1 · upper)).mergeSort (· ≤ ·) :=
    hperm.mem_iff.mpr (List.mem_map.mpr ⟨e, he, rfl⟩)
  have key := no_false_negative P upper _ (hashToRange k0 k1 e upper) hs hb hm
  rw [hlen] at key
  have ht : ((List.map (fun x => hashToRange k0 k1 x upper) [e]).eraseDups).mergeSort (· ≤ ·)
      = [hashToRange k0 k1 e upper] := by
    simp [List.eraseDups, List.eraseDupsBy, List.eraseDupsBy.loop]
  rw [ht]
  exact key

end Btc.Bip158
