import Proofs.C17.PowGet
namespace Btc.Pow
open Btc Btc.Py

theorem setCompact_value_lt (x0 x1 x2 x3 : UInt8) :
    (CorePow.setCompact (ofBE [x0, x1, x2, x3])).value < 256 ^ 32 := by
  obtain ⟨h1, h2⟩ := ofBE4 x0 x1 x2 x3
  rw [h1, setCompact_eq _ _ x0.toNat_lt h2, ← U256_eq]
  exact Nat.mod_lt _ (by unfold U256; omega)

theorem fromBytesBE_beBytes (k v : Nat) (h : v < 256 ^ k) : fromBytesBE (beBytes k v) = (v : Int) := by
  unfold fromBytesBE
  rw [ofBE_beBytes, Nat.mod_eq_of_lt h]

/-- generated `next_bits` (integer core) is Core's `CalculateNextWorkRequired`, for every timespan,
    whenever neither compact form overflows (btclib refuses those, Core never reaches them). -/
theorem next_bits_core4 (x0 x1 x2 x3 y0 y1 y2 y3 : UInt8) (ts : Int)
    (hb : (CorePow.setCompact (ofBE [x0, x1, x2, x3])).overflow = false)
    (hl : (CorePow.setCompact (ofBE [y0, y1, y2, y3])).overflow = false) :
    Gen.Pow.next_bits [x0, x1, x2, x3] [y0, y1, y2, y3] ts =
      .ok (beBytes 4 (CorePow.calculateNextWorkRequired (ofBE [x0, x1, x2, x3]) ts
            (CorePow.setCompact (ofBE [y0, y1, y2, y3])).value)) := by
  have hV := setCompact_value_lt x0 x1 x2 x3
  have hL := setCompact_value_lt y0 y1 y2 y3
  unfold Gen.Pow.next_bits CorePow.calculateNextWorkRequired
  rw [target_from_bits_core4, target_from_bits_core4, hb, hl]
  simp only [Bool.false_eq_true, if_false, bind, Except.bind, Gen.Pow.POW_TARGET_TIMESPAN, Gen.Pow.TARGET_SIZE]
  generalize (CorePow.setCompact (ofBE [x0, x1, x2, x3])).value = V at *
  generalize (CorePow.setCompact (ofBE [y0, y1, y2, y3])).value = L at *
  rw [fromBytesBE_beBytes 32 V hV, fromBytesBE_beBytes 32 L hL]
  -- the clamped timespan is the same positive integer on both sides
  have hclamp : (min (max ts 302400) 4838400 : Int) =
      (if (if ts < ((14 * 24 * 60 * 60 / 4 : Nat) : Int) then ((14 * 24 * 60 * 60 / 4 : Nat) : Int) else ts) >
            ((14 * 24 * 60 * 60 * 4 : Nat) : Int) then ((14 * 24 * 60 * 60 * 4 : Nat) : Int)
       else (if ts < ((14 * 24 * 60 * 60 / 4 : Nat) : Int) then ((14 * 24 * 60 * 60 / 4 : Nat) : Int) else ts)) := by
    norm_num
    omega
  rw [hclamp]
  generalize hT : (if (if ts < ((14 * 24 * 60 * 60 / 4 : Nat) : Int) then ((14 * 24 * 60 * 60 / 4 : Nat) : Int) else ts) >
            ((14 * 24 * 60 * 60 * 4 : Nat) : Int) then ((14 * 24 * 60 * 60 * 4 : Nat) : Int)
       else (if ts < ((14 * 24 * 60 * 60 / 4 : Nat) : Int) then ((14 * 24 * 60 * 60 / 4 : Nat) : Int) else ts)) = T
  have hTpos : 0 ≤ T := by
    rw [← hT]; norm_num; split <;> split <;> omega
  obtain ⟨tn, htn⟩ : ∃ tn : Nat, T = (tn : Int) := ⟨T.toNat, by omega⟩
  subst htn
  have htn : ((tn : Int)).toNat = tn := by omega
  first
    | rw [htn]
    | (simp only [Int.toNat_ofNat]; trace "ofNat")
    | (simp; trace "simp")
  have hU : CorePow.U256 = 115792089237316195423570985008687907853269984665640564039457584007913129639936 := by
    norm_num [CorePow.U256]
  have e1 : ((V : Int) * (tn : Int)) % 115792089237316195423570985008687907853269984665640564039457584007913129639936
      = (((V * tn) % CorePow.U256 : Nat) : Int) := by
    rw [hU]; push_cast; rfl
  rw [e1]
  have e2 : ((((V * tn) % CorePow.U256 : Nat) : Int) / 1209600) = ((((V * tn) % CorePow.U256) / 1209600 : Nat) : Int) := by
    push_cast; rfl
  rw [e2]
  generalize hQ : ((V * tn) % CorePow.U256) / 1209600 = Q
  have hQlt : Q < 256 ^ 32 := by
    rw [← hQ]
    have : (V * tn) % CorePow.U256 < CorePow.U256 := Nat.mod_lt _ (by rw [hU]; omega)
    have h2 : (V * tn) % CorePow.U256 / 1209600 ≤ (V * tn) % CorePow.U256 := Nat.div_le_self _ _
    have h3 : CorePow.U256 = 256 ^ 32 := by norm_num [CorePow.U256]
    omega
  have e3 : (min (Q : Int) (L : Int)) = ((if Q > L then L else Q : Nat) : Int) := by
    split <;> omega
  rw [e3]
  have hRlt : (if Q > L then L else Q) < 256 ^ 32 := by split <;> omega
  have h32 : (32 : Int) = ((32 : Nat) : Int) := rfl
  rw [h32, toBytesBE_ok _ 32 hRlt]
  simp only []
  rw [bits_from_target_core _ (by simp), ofBE_beBytes, Nat.mod_eq_of_lt hRlt]

/-- `block_work` is `2^256 // (target + 1)`, refusing an overflowing, a zero and a negative compact form -/
theorem block_work_formula4 (x0 x1 x2 x3 : UInt8) :
    Gen.Pow.block_work [x0, x1, x2, x3] =
      if (CorePow.setCompact (ofBE [x0, x1, x2, x3])).overflow then .error .value
      else if (CorePow.setCompact (ofBE [x0, x1, x2, x3])).value = 0 then .error .value
      else if (CorePow.setCompact (ofBE [x0, x1, x2, x3])).negative then .error .value
      else .ok ((2 ^ 256 / ((CorePow.setCompact (ofBE [x0, x1, x2, x3])).value + 1) : Nat) : Int) := by
  have hV := setCompact_value_lt x0 x1 x2 x3
  unfold Gen.Pow.block_work
  rw [target_from_bits_core4, is_negative_bits_core4]
  by_cases hb : (CorePow.setCompact (ofBE [x0, x1, x2, x3])).overflow = true
  · simp only [hb, if_true, bind, Except.bind]
  · simp only [hb, Bool.false_eq_true, if_false, bind, Except.bind]
    generalize (CorePow.setCompact (ofBE [x0, x1, x2, x3])).negative = N at *
    generalize (CorePow.setCompact (ofBE [x0, x1, x2, x3])).value = V at *
    rw [fromBytesBE_beBytes 32 V hV]
    by_cases h0 : V = 0
    · subst h0; simp; rfl
    · have : ((V : Int) ≠ 0) := by omega
      simp only [this, h0, not_true_eq_false, not_false_eq_true, if_false, ne_eq]
      cases N
      · simp only [Bool.false_eq_true, if_false]
        unfold Btc.Py.div
        rw [Int.fdiv_eq_ediv_of_nonneg _ (by omega)]
        norm_num
        norm_cast
      · simp only [if_true]
        rfl

theorem getBlockProof_eq (n : Nat) (hv : (CorePow.setCompact n).value < 2 ^ 256) :
    CorePow.getBlockProof n =
      if (CorePow.setCompact n).negative || (CorePow.setCompact n).overflow || (CorePow.setCompact n).value == 0 then 0
      else 2 ^ 256 / ((CorePow.setCompact n).value + 1) := by
  unfold CorePow.getBlockProof
  simp only []
  split
  · rfl
  · rename_i h
    simp only [Bool.or_eq_true, beq_iff_eq, not_or] at h
    obtain ⟨_, hz⟩ := h
    generalize (CorePow.setCompact n).value = V at *
    have hU : CorePow.U256 = 2 ^ 256 := rfl
    rw [hU]
    have e : (2 ^ 256 - 1 - V) / (V + 1) + 1 = 2 ^ 256 / (V + 1) := by
      rw [← Nat.add_div_right _ (by omega : 0 < V + 1)]
      congr 1
      omega
    rw [e]
    apply Nat.mod_eq_of_lt
    have : 2 ^ 256 / (V + 1) ≤ 2 ^ 256 / 2 := Nat.div_le_div_left (by omega) (by omega)
    have : (2:Nat) ^ 256 / 2 < 2 ^ 256 := by norm_num
    omega

end Btc.Pow
