import Proofs.C17.PowCanon
namespace Btc.Pow
open Btc Btc.Py

/-- mainnet's `powLimit` as Core holds it (a uint256) and as btclib holds it (`target_from_bits(1d00ffff)`) -/
def coreMainnetLimit : Nat := 2 ^ 224 - 1
def bitsMainnetLimit : Nat := 0xffff * 2 ^ 208

theorem compactOf_top (y : Nat) (h1 : bitsMainnetLimit ≤ y) (h2 : y ≤ coreMainnetLimit) :
    compactOf y = (29, 0xffff) := by
  unfold bitsMainnetLimit at h1
  unfold coreMainnetLimit at h2
  norm_num at h1 h2
  have hb : byteLen y = 28 := byteLen_unique y 28 (by omega) (by norm_num; omega) (by norm_num; omega)
  rw [compactOf_of y 28 (y / 256 ^ 25) hb (by norm_num)]
  norm_num
  have hb1 : y / 1606938044258990275541962092341162602522202993782792835301376 / 8388608 % 2 = 1 := by omega
  have hb2 : y / 1606938044258990275541962092341162602522202993782792835301376 / 256 = 65535 := by omega
  rw [if_pos hb1, hb2]

/-- clamping to Core's 2^224-1 or to btclib's 0xffff·2^208 gives the same compact form: every target
    between the two encodes as 0x1d00ffff -/
theorem clamp_limit_same (x : Nat) (hx : x < 256 ^ 32) :
    CorePow.getCompact (if x > coreMainnetLimit then coreMainnetLimit else x) =
      CorePow.getCompact (if x > bitsMainnetLimit then bitsMainnetLimit else x) := by
  have hle : bitsMainnetLimit ≤ coreMainnetLimit := by unfold bitsMainnetLimit coreMainnetLimit; norm_num
  have hc : coreMainnetLimit < 256 ^ 32 := by unfold coreMainnetLimit; norm_num
  by_cases h1 : x > coreMainnetLimit
  · have h2 : x > bitsMainnetLimit := by omega
    simp only [h1, h2, if_true]
    rw [getCompact_eq _ hc, getCompact_eq _ (by omega), compactOf_top _ hle (Nat.le_refl _),
      compactOf_top _ (Nat.le_refl _) hle]
  · by_cases h2 : x > bitsMainnetLimit
    · simp only [h1, h2, if_true, if_false]
      rw [getCompact_eq _ hx, getCompact_eq _ (by omega), compactOf_top _ (by omega) (by omega),
        compactOf_top _ (Nat.le_refl _) hle]
    · simp only [h1, h2, if_false]

theorem next_work_limit_same (nBits : Nat) (ts : Int) :
    CorePow.calculateNextWorkRequired nBits ts coreMainnetLimit =
      CorePow.calculateNextWorkRequired nBits ts bitsMainnetLimit := by
  unfold CorePow.calculateNextWorkRequired
  simp only []
  apply clamp_limit_same
  have hU : CorePow.U256 = 256 ^ 32 := by norm_num [CorePow.U256]
  refine Nat.lt_of_le_of_lt (Nat.div_le_self _ _) ?_
  rw [← hU]
  exact Nat.mod_lt _ (by rw [hU]; positivity)

theorem bitsMainnetLimit_eq : (CorePow.setCompact 0x1d00ffff).value = bitsMainnetLimit := by decide

/-- clamping to a limit `hi` or to a lower `lo` gives the same compact form whenever every target between the two
    encodes the same -/
theorem clamp_limit_same_gen (lo hi : Nat) (c : Nat × Nat) (hle : lo ≤ hi) (hhi : hi < 256 ^ 32)
    (htop : ∀ y, lo ≤ y → y ≤ hi → compactOf y = c) (x : Nat) (hx : x < 256 ^ 32) :
    CorePow.getCompact (if x > hi then hi else x) = CorePow.getCompact (if x > lo then lo else x) := by
  by_cases h1 : x > hi
  · have h2 : x > lo := by omega
    simp only [h1, h2, if_true]
    rw [getCompact_eq _ hhi, getCompact_eq _ (by omega), htop _ hle (Nat.le_refl _), htop _ (Nat.le_refl _) hle]
  · by_cases h2 : x > lo
    · simp only [h1, h2, if_true, if_false]
      rw [getCompact_eq _ hx, getCompact_eq _ (by omega), htop _ (by omega) (by omega), htop _ (Nat.le_refl _) hle]
    · simp only [h1, h2, if_false]

theorem next_work_limit_same_gen (lo hi : Nat) (c : Nat × Nat) (hle : lo ≤ hi) (hhi : hi < 256 ^ 32)
    (htop : ∀ y, lo ≤ y → y ≤ hi → compactOf y = c) (nBits : Nat) (ts : Int) :
    CorePow.calculateNextWorkRequired nBits ts hi = CorePow.calculateNextWorkRequired nBits ts lo := by
  unfold CorePow.calculateNextWorkRequired
  simp only []
  apply clamp_limit_same_gen lo hi c hle hhi htop
  have hU : CorePow.U256 = 256 ^ 32 := by norm_num [CorePow.U256]
  refine Nat.lt_of_le_of_lt (Nat.div_le_self _ _) ?_
  rw [← hU]
  exact Nat.mod_lt _ (by rw [hU]; positivity)

/-- regtest's `powLimit` as Core holds it (uint256 `7fff…ff`) and as btclib holds it (`target_from_bits(207fffff)`) -/
def coreRegtestLimit : Nat := 2 ^ 255 - 1
def bitsRegtestLimit : Nat := 0x7fffff * 2 ^ 232

theorem compactOf_top_regtest (y : Nat) (h1 : bitsRegtestLimit ≤ y) (h2 : y ≤ coreRegtestLimit) :
    compactOf y = (32, 0x7fffff) := by
  unfold bitsRegtestLimit at h1
  unfold coreRegtestLimit at h2
  norm_num at h1 h2
  have hb : byteLen y = 32 := byteLen_unique y 32 (by omega) (by norm_num; omega) (by norm_num; omega)
  rw [compactOf_of y 32 (y / 256 ^ 29) hb (by norm_num)]
  norm_num
  have hb2 : y / 6901746346790563787434755862277025452451108972170386555162524223799296 = 8388607 := by omega
  rw [hb2]
  norm_num

theorem bitsRegtestLimit_eq : (CorePow.setCompact 0x207fffff).value = bitsRegtestLimit := by decide

/-- signet's (default) `powLimit` is exactly representable: Core's uint256 `00000377ae00…00` IS `target_from_bits(1e0377ae)` -/
theorem bitsSignetLimit_eq : (CorePow.setCompact 0x1e0377ae).value = 0x377ae * 2 ^ 216 := by decide

/-- the timespan is clamped to `[T/4, 4T]` before anything else: a retarget depends on the measured timespan only
    through its clamped value (so no single retarget moves the target by more than a factor four either way) -/
theorem next_work_clamp (nBits : Nat) (ts : Int) (powLimit : Nat) :
    CorePow.calculateNextWorkRequired nBits ts powLimit =
      CorePow.calculateNextWorkRequired nBits (max 302400 (min ts 4838400)) powLimit := by
  have hc : max 302400 (min ts 4838400) = if ts < 302400 then 302400 else if ts > 4838400 then 4838400 else ts := by
    split_ifs <;> omega
  rw [hc]
  unfold CorePow.calculateNextWorkRequired
  norm_num
  by_cases h1 : ts < 302400
  · simp [h1]
  · by_cases h2 : 4838400 < ts
    · simp [h1, h2]
    · simp [h1, h2]

end Btc.Pow
