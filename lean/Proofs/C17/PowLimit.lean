import Proofs.C17.PowCanon
namespace Btc.Pow
open Btc Btc.Py

/-- mainnet's `powLimit` as Core holds it (a uint256) and as btclib holds it (`target_from_bits(1d00ffff)`) -/
def coreMainnetLimit : Nat := 2 ^ 224 - 1
def bitsMainnetLimit : Nat := 0xffff * 2 ^ 208

theorem compactOf_top (y : Nat) (h1 : bitsMainnetLimit ≤ y) (h2 : y ≤ coreMainnetLimit) :
    compactOf y = (29, 0xffff) := by
  unfold bitsMainnetLimit at h1
  unfold coreMainnetLimit at h2
  norm_num at h1 h2
  have hb : byteLen y = 28 := byteLen_unique y 28 (by omega) (by norm_num; omega) (by norm_num; omega)
  rw [compactOf_of y 28 (y / 256 ^ 25) hb (by norm_num)]
  norm_num
  have hb1 : y / 1606938044258990275541962092341162602522202993782792835301376 / 8388608 % 2 = 1 := by omega
  have hb2 : y / 1606938044258990275541962092341162602522202993782792835301376 / 256 = 65535 := by omega
  rw [if_pos hb1, hb2]

/-- clamping to Core's 2^224-1 or to btclib's 0xffff·2^208 gives the same compact form: every target
    between the two encodes as 0x1d00ffff -/
theorem clamp_limit_same (x : Nat) (hx : x < 256 ^ 32) :
    CorePow.getCompact (if x > coreMainnetLimit then coreMainnetLimit else x) =
      CorePow.getCompact (if x > bitsMainnetLimit then bitsMainnetLimit else x) := by
  have hle : bitsMainnetLimit ≤ coreMainnetLimit := by unfold bitsMainnetLimit coreMainnetLimit; norm_num
  have hc : coreMainnetLimit < 256 ^ 32 := by unfold coreMainnetLimit; norm_num
  by_cases h1 : x > coreMainnetLimit
  · have h2 : x > bitsMainnetLimit := by omega
    simp only [h1, h2, if_true]
    rw [getCompact_eq _ hc, getCompact_eq _ (by omega), compactOf_top _ hle (Nat.le_refl _),
      compactOf_top _ (Nat.le_refl _) hle]
  · by_cases h2 : x > bitsMainnetLimit
    · simp only [h1, h2, if_true, if_false]
      rw [getCompact_eq _ hx, getCompact_eq _ (by omega), compactOf_top _ (by omega) (by omega),
        compactOf_top _ (Nat.le_refl _) hle]
    · simp only [h1, h2, if_false]

theorem next_work_limit_same (nBits : Nat) (ts : Int) :
    CorePow.calculateNextWorkRequired nBits ts coreMainnetLimit =
      CorePow.calculateNextWorkRequired nBits ts bitsMainnetLimit := by
  unfold CorePow.calculateNextWorkRequired
  simp only []
  apply clamp_limit_same
  have hU : CorePow.U256 = 256 ^ 32 := by norm_num [CorePow.U256]
  refine Nat.lt_of_le_of_lt (Nat.div_le_self _ _) ?_
  rw [← hU]
  exact Nat.mod_lt _ (by rw [hU]; positivity)

theorem bitsMainnetLimit_eq : (CorePow.setCompact 0x1d00ffff).value = bitsMainnetLimit := by decide

end Btc.Pow
