import Proofs.C17.PowGen
namespace Btc.Pow
open Btc Btc.Py

/-- the three significand bytes before the sign-bit bump -/
def sig0 (v : Nat) : Nat :=
  if byteLen v ≤ 3 then v * 256 ^ (3 - byteLen v) else v / 256 ^ (byteLen v - 3)

/-- (exponent, significand) of `bits_from_target` / `GetCompact` -/
def compactOf (v : Nat) : Nat × Nat :=
  if sig0 v / 8388608 % 2 = 1 then (byteLen v + 1, sig0 v / 256) else (byteLen v, sig0 v)

theorem v_lt (v : Nat) : v < 256 ^ byteLen v := by
  by_cases h : v = 0
  · subst h; simp [byteLen_zero]
  · exact (byteLen_pos v (by omega)).2.2

theorem sig0_lt (v : Nat) : sig0 v < 16777216 := by
  have hv := v_lt v
  unfold sig0
  split
  · rename_i h
    have : v * 256 ^ (3 - byteLen v) < 256 ^ byteLen v * 256 ^ (3 - byteLen v) :=
      Nat.mul_lt_mul_of_pos_right hv (by positivity)
    rw [← Nat.pow_add] at this
    have e : byteLen v + (3 - byteLen v) = 3 := by omega
    rw [e] at this
    norm_num at this
    exact this
  · rename_i h
    rw [Nat.div_lt_iff_lt_mul (by positivity)]
    have : (16777216 : Nat) = 256 ^ 3 := by norm_num
    rw [this, ← Nat.pow_add]
    have e : 3 + (byteLen v - 3) = byteLen v := by omega
    rw [e]; exact hv

theorem byteOf_ok (n : Nat) (h : n < 256) : byteOf (n : Int) = .ok [UInt8.ofNat n] := by
  unfold byteOf; simp; omega

theorem bitLength_nat (v : Nat) : bitLength (v : Int) = ((natBitLength v : Nat) : Int) := by
  simp [bitLength]

theorem bits_from_target_eq (t : Bytes) (h : t.length ≤ 32) :
    Gen.Pow.bits_from_target t =
      .ok (UInt8.ofNat (compactOf (ofBE t)).1 :: beBytes 3 (compactOf (ofBE t)).2) := by
  have hv : ofBE t < 256 ^ 32 := Nat.lt_of_lt_of_le (ofBE_lt t) (Nat.pow_le_pow_right (by omega) h)
  have hbl : byteLen (ofBE t) ≤ 32 := byteLen_le _ _ hv
  have hs := sig0_lt (ofBE t)
  unfold Gen.Pow.bits_from_target
  have hlen : ¬ (len t > Gen.Pow.TARGET_SIZE) := by
    simp only [len, Gen.Pow.TARGET_SIZE]; omega
  simp only [hlen, if_false, fromBytesBE, bitLength_nat, Gen.Pow.SIGNIFICAND_SIGN_BIT]
  generalize ofBE t = v at *
  have hexp : (((natBitLength v : Nat) : Int) + 7) / 8 = ((byteLen v : Nat) : Int) := by
    unfold byteLen; omega
  rw [hexp]
  have hm : (8388608 : Int) = ((8388608 : Nat) : Int) := rfl
  have h8 : (8 : Int) = ((8 : Nat) : Int) := rfl
  have h3 : (3 : Int) = ((3 : Nat) : Int) := rfl
  unfold compactOf sig0 at *
  by_cases hle : byteLen v ≤ 3
  · have hle' : ((byteLen v : Nat) : Int) ≤ 3 := by omega
    simp only [hle, hle', if_true] at hs ⊢
    have e1 : (8 * (3 - ((byteLen v : Nat) : Int))) = ((8 * (3 - byteLen v) : Nat) : Int) := by omega
    rw [e1, shl_nat, ← pow256, hm, land_nat, and_bit23]
    by_cases hb : v * 256 ^ (3 - byteLen v) / 8388608 % 2 = 1
    · have : ((8388608 * (v * 256 ^ (3 - byteLen v) / 8388608 % 2) : Nat) : Int) ≠ 0 := by omega
      simp only [this, hb, if_true, ne_eq, not_false_eq_true]
      have e2 : (((byteLen v : Nat) : Int) + 1) = ((byteLen v + 1 : Nat) : Int) := by omega
      rw [h8, shr_nat, e2, byteOf_ok _ (by omega), h3, toBytesBE_ok _ 3 (by norm_num; omega)]
      norm_num
      rfl
    · have : ¬ ((8388608 * (v * 256 ^ (3 - byteLen v) / 8388608 % 2) : Nat) : Int) ≠ 0 := by omega
      simp only [this, hb, if_false]
      rw [byteOf_ok _ (by omega), h3, toBytesBE_ok _ 3 (by norm_num; omega)]
      rfl
  · have hle' : ¬ ((byteLen v : Nat) : Int) ≤ 3 := by omega
    simp only [hle, hle', if_false] at hs ⊢
    have e1 : (8 * (((byteLen v : Nat) : Int) - 3)) = ((8 * (byteLen v - 3) : Nat) : Int) := by omega
    rw [e1, shr_nat, ← pow256, hm, land_nat, and_bit23]
    by_cases hb : v / 256 ^ (byteLen v - 3) / 8388608 % 2 = 1
    · have : ((8388608 * (v / 256 ^ (byteLen v - 3) / 8388608 % 2) : Nat) : Int) ≠ 0 := by omega
      simp only [this, hb, if_true, ne_eq, not_false_eq_true]
      have e2 : (((byteLen v : Nat) : Int) + 1) = ((byteLen v + 1 : Nat) : Int) := by omega
      rw [h8, shr_nat, e2, byteOf_ok _ (by omega), h3, toBytesBE_ok _ 3 (by norm_num; omega)]
      norm_num
      rfl
    · have : ¬ ((8388608 * (v / 256 ^ (byteLen v - 3) / 8388608 % 2) : Nat) : Int) ≠ 0 := by omega
      simp only [this, hb, if_false]
      rw [byteOf_ok _ (by omega), h3, toBytesBE_ok _ 3 (by norm_num; omega)]
      rfl

theorem compactOf_bounds (v : Nat) (hv : v < 256 ^ 32) :
    (compactOf v).1 ≤ 33 ∧ (compactOf v).2 < 8388608 := by
  have hbl : byteLen v ≤ 32 := byteLen_le _ _ hv
  have hs := sig0_lt v
  unfold compactOf
  split <;> simp <;> omega

theorem getCompact_eq (v : Nat) (hv : v < 256 ^ 32) :
    CorePow.getCompact v = (compactOf v).1 * 16777216 + (compactOf v).2 := by
  have hbl : byteLen v ≤ 32 := byteLen_le _ _ hv
  have hs := sig0_lt v
  have hvl := v_lt v
  unfold CorePow.getCompact
  have hsize : (CorePow.bits v + 7) / 8 = byteLen v := rfl
  simp only [hsize]
  have hnc : (if byteLen v ≤ 3 then (((v % CorePow.U64) <<< (8 * (3 - byteLen v))) % CorePow.U64) % CorePow.U32
      else ((v >>> (8 * (byteLen v - 3))) % CorePow.U64) % CorePow.U32) = sig0 v := by
    unfold sig0 at *
    have u64 : CorePow.U64 = 18446744073709551616 := by norm_num [CorePow.U64]
    have u32 : CorePow.U32 = 4294967296 := by norm_num [CorePow.U32]
    by_cases hle : byteLen v ≤ 3
    · simp only [hle, if_true] at hs ⊢
      have : v < 256 ^ 3 := Nat.lt_of_lt_of_le hvl (Nat.pow_le_pow_right (by omega) hle)
      norm_num at this
      rw [u64, u32, Nat.mod_eq_of_lt (by omega : v < 18446744073709551616), Nat.shiftLeft_eq, ← pow256]
      generalize v * 256 ^ (3 - byteLen v) = q at hs ⊢
      omega
    · simp only [hle, if_false] at hs ⊢
      rw [u64, u32, Nat.shiftRight_eq_div_pow, ← pow256]
      generalize v / 256 ^ (byteLen v - 3) = q at hs ⊢
      omega
  rw [hnc]
  have hb : ((sig0 v &&& 0x00800000) != 0) = decide (sig0 v / 8388608 % 2 = 1) := by
    rw [and_bit23]
    by_cases h : sig0 v / 8388608 % 2 = 1
    · simp [h]
    · have : sig0 v / 8388608 % 2 = 0 := by omega
      simp [this]
  rw [hb]
  have u32 : CorePow.U32 = 4294967296 := by norm_num [CorePow.U32]
  unfold compactOf
  by_cases h : sig0 v / 8388608 % 2 = 1
  · simp only [h, decide_true, if_true]
    rw [Nat.shiftRight_eq_div_pow, Nat.or_comm, u32, Nat.shiftLeft_eq]
    have e1 : (byteLen v + 1) * 2 ^ 24 % 4294967296 = (byteLen v + 1) * 2 ^ 24 := Nat.mod_eq_of_lt (by omega)
    rw [e1, ← Nat.shiftLeft_eq, ← Nat.shiftLeft_add_eq_or_of_lt (by norm_num; omega), Nat.shiftLeft_eq]
  · simp only [h, decide_false, if_false, Bool.false_eq_true]
    rw [Nat.or_comm, u32, Nat.shiftLeft_eq]
    have e1 : byteLen v * 2 ^ 24 % 4294967296 = byteLen v * 2 ^ 24 := Nat.mod_eq_of_lt (by omega)
    rw [e1, ← Nat.shiftLeft_eq, ← Nat.shiftLeft_add_eq_or_of_lt (by norm_num; omega), Nat.shiftLeft_eq]

theorem beBytes4_split (e s : Nat) (he : e < 256) (hs : s < 16777216) :
    beBytes 4 (e * 16777216 + s) = UInt8.ofNat e :: beBytes 3 s := by
  have hlen : (UInt8.ofNat e :: beBytes 3 s).length = 4 := by simp
  have hval : ofBE (UInt8.ofNat e :: beBytes 3 s) = e * 16777216 + s := by
    rw [ofBE_cons, ofBE_beBytes]
    simp
    omega
  have := beBytes_ofBE (UInt8.ofNat e :: beBytes 3 s)
  rw [hlen, hval] at this
  exact this

/-- generated `bits_from_target` is Core's `GetCompact`, for every target of at most 32 bytes -/
theorem bits_from_target_core (t : Bytes) (h : t.length ≤ 32) :
    Gen.Pow.bits_from_target t = .ok (beBytes 4 (CorePow.getCompact (ofBE t))) := by
  have hv : ofBE t < 256 ^ 32 := Nat.lt_of_lt_of_le (ofBE_lt t) (Nat.pow_le_pow_right (by omega) h)
  obtain ⟨b1, b2⟩ := compactOf_bounds _ hv
  rw [bits_from_target_eq t h, getCompact_eq _ hv, beBytes4_split _ _ (by omega) (by omega)]

theorem bits_from_target_bad (t : Bytes) (h : t.length > 32) : Gen.Pow.bits_from_target t = .error .value := by
  unfold Gen.Pow.bits_from_target
  have hlen : (len t > Gen.Pow.TARGET_SIZE) := by
    simp only [len, Gen.Pow.TARGET_SIZE]; omega
  simp only [hlen, if_true]
  rfl

end Btc.Pow
