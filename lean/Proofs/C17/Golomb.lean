import Model.C17.Golomb
namespace Btc.Golomb

/-! ### bits and values -/

theorem bitsOf_length (v : Nat) : ∀ c, (bitsOf v c).length = c
  | 0 => rfl
  | c + 1 => by simp [bitsOf, bitsOf_length v c]

theorem foldl_bitsOf (v : Nat) : ∀ (c acc : Nat),
    (bitsOf v c).foldl (fun acc b => 2 * acc + b.toNat) acc = acc * 2 ^ c + v % 2 ^ c
  | 0, acc => by simp [bitsOf, Nat.mod_one]
  | c + 1, acc => by
    simp only [bitsOf, List.foldl_cons, foldl_bitsOf v c, Nat.toNat_testBit]
    rw [Nat.mod_pow_succ (b := 2) (k := c) (x := v), Nat.pow_succ]
    generalize 2 ^ c = K
    generalize v / K % 2 = b
    have h1 : acc * (K * 2) = 2 * (acc * K) := by rw [← Nat.mul_assoc, Nat.mul_comm]
    have h2 : K * b = b * K := Nat.mul_comm _ _
    rw [Nat.add_mul, Nat.mul_assoc, h1, h2]
    omega

theorem valOf_bitsOf (v c : Nat) : valOf (bitsOf v c) = v % 2 ^ c := by
  simp [valOf, foldl_bitsOf]

theorem valOf_append (a b : List Bool) : valOf (a ++ b) = valOf a * 2 ^ b.length + valOf b := by
  unfold valOf
  rw [List.foldl_append]
  generalize List.foldl (fun acc b => 2 * acc + b.toNat) 0 a = x
  induction b generalizing x with
  | nil => simp
  | cons y ys ih =>
    simp only [List.foldl_cons, List.length_cons, Nat.pow_succ]
    rw [ih (2 * x + y.toNat), ih (2 * 0 + y.toNat)]
    rw [Nat.add_mul, Nat.add_mul]
    have : 2 * x * 2 ^ ys.length = x * (2 ^ ys.length * 2) := by
      rw [Nat.mul_comm 2 x, Nat.mul_assoc, Nat.mul_comm 2]
    omega

theorem valOf_replicate_false (k : Nat) : valOf (List.replicate k false) = 0 := by
  unfold valOf
  induction k with
  | zero => rfl
  | succ n ih => simpa [List.replicate_succ] using ih

/-- the unary quotient: `write(((1 << q) - 1) << 1, q + 1)` is `q` ones and a zero -/
theorem unary_bits_aux (q : Nat) : ∀ c, c ≤ q →
    bitsOf (((1 <<< q) - 1) <<< 1) (c + 1) = List.replicate c true ++ [false]
  | 0, _ => by
    simp only [bitsOf, List.replicate_zero, List.nil_append, List.cons.injEq, and_true]
    rw [Nat.testBit_shiftLeft]; simp
  | c + 1, hc => by
    rw [bitsOf, unary_bits_aux q c (by omega)]
    have : (((1 <<< q) - 1) <<< 1).testBit (c + 1) = true := by
      rw [Nat.testBit_shiftLeft, Nat.shiftLeft_eq, Nat.one_mul, Nat.testBit_two_pow_sub_one]
      simp; omega
    rw [this]
    simp [List.replicate_succ]

theorem unary_bits (q : Nat) : bitsOf (((1 <<< q) - 1) <<< 1) (q + 1) = List.replicate q true ++ [false] :=
  unary_bits_aux q q (Nat.le_refl q)

theorem readUnary_replicate (rest : List Bool) : ∀ q,
    readUnary (List.replicate q true ++ false :: rest) = .ok (q, rest)
  | 0 => by simp [readUnary]
  | q + 1 => by simp [List.replicate_succ, readUnary, readUnary_replicate rest q]

theorem readBits_bitsOf (v p : Nat) (rest : List Bool) :
    readBits p (bitsOf v p ++ rest) = .ok (v % 2 ^ p, rest) := by
  unfold readBits
  have hl := bitsOf_length v p
  have h1 : ¬ ((bitsOf v p ++ rest).length < p) := by simp [hl]
  simp only [h1, if_false]
  rw [List.take_left' hl, List.drop_left' hl, valOf_bitsOf]

/-- one Golomb-Rice code word decodes to its value and leaves the rest of the stream, for every `p` -/
theorem golombDecode_encode (p v : Nat) (rest : List Bool) :
    golombDecode p (golombEncode v p ++ rest) = .ok (v, rest) := by
  unfold golombDecode golombEncode
  simp only [unary_bits, List.append_assoc, List.cons_append, List.nil_append]
  rw [readUnary_replicate]
  simp only [readBits_bitsOf]
  rw [Nat.shiftRight_eq_div_pow, Nat.shiftLeft_eq, Nat.mul_comm, Nat.div_add_mod]

/-! ### the coded set -/

theorem exhausted_pad (k : Nat) (hk : k < 8) : exhausted (List.replicate k false) = .ok () := by
  unfold exhausted
  have h1 : ¬ ((List.replicate k false).length ≥ 8) := by simp; omega
  simp only [h1, if_false, valOf_replicate_false, ne_eq, not_true_eq_false]

theorem exhausted_iff (bits : List Bool) :
    exhausted bits = .ok () ↔ bits.length < 8 ∧ valOf bits = 0 := by
  unfold exhausted
  by_cases h1 : bits.length ≥ 8
  · simp [h1]; omega
  · by_cases h2 : valOf bits = 0
    · simp [h1, h2]; omega
    · simp [h1, h2]

/-- T4 (stream form): the delta-coded, zero-padded stream of a sorted list decodes to that list, and
    the reader ends cleanly -- for every `p`, every bound the values respect, every padding `< 8` bits. -/
theorem decodeStream_encode (p upper k : Nat) (hk : k < 8) : ∀ (vs : List Nat) (last : Nat),
    List.Pairwise (· ≤ ·) (last :: vs) → (∀ v ∈ vs, v < upper) →
    decodeStream p upper vs.length last (encodeDeltas p last vs ++ List.replicate k false) = (vs, none)
  | [], last, _, _ => by
    simp [decodeStream, encodeDeltas, exhausted_pad k hk]
  | v :: vs, last, hs, hb => by
    have hle : last ≤ v := by
      have := (List.pairwise_cons.mp hs).1 v (by simp)
      exact this
    have hs' : List.Pairwise (· ≤ ·) (v :: vs) := (List.pairwise_cons.mp hs).2
    have hv : v < upper := hb v (by simp)
    have hb' : ∀ w ∈ vs, w < upper := fun w hw => hb w (by simp [hw])
    simp only [List.length_cons, decodeStream, encodeDeltas, List.append_assoc, golombDecode_encode]
    have e : last + (v - last) = v := by omega
    have hn : ¬ (v ≥ upper) := by omega
    rw [e, decodeStream_encode p upper k hk vs v hs' hb']
    simp only [hn, if_false]

/-! ### octets -/

theorem bits_of_byte8 (b0 b1 b2 b3 b4 b5 b6 b7 : Bool) :
    bitsOfByte (byteOfBits [b0, b1, b2, b3, b4, b5, b6, b7]) = [b0, b1, b2, b3, b4, b5, b6, b7] := by
  revert b0 b1 b2 b3 b4 b5 b6 b7; decide

/-- `flush` pads with fewer than eight zero bits, and reading the octets back gives the written bits -/
theorem unpack_pack : ∀ bits : List Bool, ∃ k, k < 8 ∧ unpack (pack bits) = bits ++ List.replicate k false
  | [] => ⟨0, by omega, by simp [pack, unpack]⟩
  | b0 :: b1 :: b2 :: b3 :: b4 :: b5 :: b6 :: b7 :: rest => by
    obtain ⟨k, hk, ih⟩ := unpack_pack rest
    refine ⟨k, hk, ?_⟩
    simp only [pack, unpack, bits_of_byte8, ih, List.cons_append, List.nil_append]
  | [b0] => ⟨7, by omega, by revert b0; decide⟩
  | [b0, b1] => ⟨6, by omega, by revert b0 b1; decide⟩
  | [b0, b1, b2] => ⟨5, by omega, by revert b0 b1 b2; decide⟩
  | [b0, b1, b2, b3] => ⟨4, by omega, by revert b0 b1 b2 b3; decide⟩
  | [b0, b1, b2, b3, b4] => ⟨3, by omega, by revert b0 b1 b2 b3 b4; decide⟩
  | [b0, b1, b2, b3, b4, b5] => ⟨2, by omega, by revert b0 b1 b2 b3 b4 b5; decide⟩
  | [b0, b1, b2, b3, b4, b5, b6] => ⟨1, by omega, by revert b0 b1 b2 b3 b4 b5 b6; decide⟩

/-- T4: `decode (encode vs) = vs` for every sorted list, every `P`, every bound the values respect -/
theorem decodeSet_encodeSet (p upper : Nat) (vs : List Nat) (hs : List.Pairwise (· ≤ ·) vs)
    (hb : ∀ v ∈ vs, v < upper) : decodeSet p upper vs.length (encodeSet p vs) = .ok vs := by
  unfold decodeSet encodeSet
  obtain ⟨k, hk, hu⟩ := unpack_pack (encodeDeltas p 0 vs)
  rw [hu, decodeStream_encode p upper k hk vs 0 (List.pairwise_cons.mpr ⟨fun _ _ => Nat.zero_le _, hs⟩) hb]

/-! ### T5: the merge walk of `match_any` -/

theorem mem_dropWhile_of_ge (v : Nat) : ∀ (ts : List Nat) (x : Nat), x ∈ ts → ¬ x < v →
    List.Pairwise (· ≤ ·) ts → x ∈ ts.dropWhile (· < v)
  | [], x, hx, _, _ => by simp at hx
  | a :: rest, x, hx, hge, hs => by
    by_cases ha : a < v
    · have hne : x ≠ a := by omega
      have hx' : x ∈ rest := by
        rcases List.mem_cons.mp hx with h | h
        · exact absurd h hne
        · exact h
      simp only [List.dropWhile_cons, ha, decide_true, if_true]
      exact mem_dropWhile_of_ge v rest x hx' hge (List.pairwise_cons.mp hs).2
    · simp only [List.dropWhile_cons, ha, decide_false]
      exact hx

theorem ge_of_mem_dropWhile (v : Nat) : ∀ (ts : List Nat) (x : Nat), x ∈ ts.dropWhile (· < v) →
    List.Pairwise (· ≤ ·) ts → v ≤ x
  | [], x, hx, _ => by simp at hx
  | a :: rest, x, hx, hs => by
    by_cases ha : a < v
    · simp only [List.dropWhile_cons, ha, decide_true, if_true] at hx
      exact ge_of_mem_dropWhile v rest x hx (List.pairwise_cons.mp hs).2
    · simp only [List.dropWhile_cons, ha, decide_false] at hx
      rcases List.mem_cons.mp hx with h | h
      · omega
      · have := (List.pairwise_cons.mp hs).1 x h
        omega

/-- T5: over sorted targets and sorted decoded values the merge walk answers `hit` exactly when the
    two lists have a common element. -/
theorem walk_hit_iff : ∀ (vs ts : List Nat), List.Pairwise (· ≤ ·) ts → List.Pairwise (· ≤ ·) vs →
    (walk ts vs = .hit ↔ ∃ x, x ∈ ts ∧ x ∈ vs)
  | [], ts, _, _ => by simp [walk]
  | v :: vs, ts, hts, hvs => by
    have hvs' : List.Pairwise (· ≤ ·) vs := (List.pairwise_cons.mp hvs).2
    have hv_le : ∀ w ∈ vs, v ≤ w := (List.pairwise_cons.mp hvs).1
    have hsub : ∀ x ∈ ts.dropWhile (· < v), x ∈ ts := fun x hx => (List.dropWhile_sublist _).subset hx
    have hdsorted : List.Pairwise (· ≤ ·) (ts.dropWhile (· < v)) := hts.sublist (List.dropWhile_sublist _)
    unfold walk
    cases hd : ts.dropWhile (· < v) with
    | nil =>
      simp only []
      constructor
      · intro h; cases h
      · rintro ⟨x, hx, hxv⟩
        exfalso
        have hge : ¬ x < v := by
          rcases List.mem_cons.mp hxv with h | h
          · omega
          · have := hv_le x h; omega
        have := mem_dropWhile_of_ge v ts x hx hge hts
        rw [hd] at this
        simp at this
    | cons t ts' =>
      simp only []
      have ht_ge : v ≤ t := ge_of_mem_dropWhile v ts t (by rw [hd]; simp) hts
      by_cases htv : t = v
      · simp only [htv, if_true, true_iff]
        exact ⟨v, hsub v (by rw [hd, htv]; simp), by simp⟩
      · simp only [htv, if_false]
        rw [hd] at hdsorted hsub
        rw [walk_hit_iff vs (t :: ts') hdsorted hvs']
        constructor
        · rintro ⟨x, hx, hxv⟩
          exact ⟨x, hsub x hx, by simp [hxv]⟩
        · rintro ⟨x, hx, hxv⟩
          have hge : ¬ x < v := by
            rcases List.mem_cons.mp hxv with h | h
            · omega
            · have := hv_le x h; omega
          have hmem := mem_dropWhile_of_ge v ts x hx hge hts
          rw [hd] at hmem
          refine ⟨x, hmem, ?_⟩
          rcases List.mem_cons.mp hxv with h | h
          · -- x = v, but every element of the remaining targets is ≥ t > v
            exfalso
            have ht_le : t ≤ x := by
              rcases List.mem_cons.mp hmem with h' | h'
              · omega
              · exact (List.pairwise_cons.mp hdsorted).1 x h'
            omega
          · exact h

/-- `match_any` on a filter built from sorted in-range values: true exactly when a target is among them -/
theorem matchAny_encodeSet (p upper : Nat) (vs targets : List Nat) (hs : List.Pairwise (· ≤ ·) vs)
    (hb : ∀ v ∈ vs, v < upper) (ht : List.Pairwise (· ≤ ·) targets) :
    matchAny p upper vs.length (encodeSet p vs) targets = .ok (decide (∃ x, x ∈ targets ∧ x ∈ vs)) := by
  have hdec : decodeStream p upper vs.length 0 (unpack (encodeSet p vs)) = (vs, none) := by
    unfold encodeSet
    obtain ⟨k, hk, hu⟩ := unpack_pack (encodeDeltas p 0 vs)
    rw [hu, decodeStream_encode p upper k hk vs 0 (List.pairwise_cons.mpr ⟨fun _ _ => Nat.zero_le _, hs⟩) hb]
  unfold matchAny
  cases targets with
  | nil => simp
  | cons t ts =>
    simp only [hdec]
    have hw := walk_hit_iff vs (t :: ts) ht hs
    cases hwk : walk (t :: ts) vs with
    | hit =>
      have := hw.mp hwk
      rw [decide_eq_true this]
    | miss =>
      have : ¬ ∃ x, x ∈ t :: ts ∧ x ∈ vs := fun h => by
        have := hw.mpr h; rw [hwk] at this; cases this
      rw [decide_eq_false this]
    | ranOut =>
      have : ¬ ∃ x, x ∈ t :: ts ∧ x ∈ vs := fun h => by
        have := hw.mpr h; rw [hwk] at this; cases this
      rw [decide_eq_false this]

/-- T5 (no false negatives): every value the set was built from matches -/
theorem no_false_negative (p upper : Nat) (vs : List Nat) (t : Nat) (hs : List.Pairwise (· ≤ ·) vs)
    (hb : ∀ v ∈ vs, v < upper) (hm : t ∈ vs) :
    matchAny p upper vs.length (encodeSet p vs) [t] = .ok true := by
  rw [matchAny_encodeSet p upper vs [t] hs hb (by simp)]
  have : ∃ x, x ∈ [t] ∧ x ∈ vs := ⟨t, by simp, hm⟩
  rw [decide_eq_true this]

end Btc.Golomb
