import Proofs.C17.Bip158
import Model.C17.Bip158Spec
namespace Btc.Bip158
open Btc Btc.Golomb

theorem bitsOf_eq_writeBitsBE (x : Nat) : ∀ p, bitsOf x p = Spec.writeBitsBE x p
  | 0 => by simp [bitsOf, Spec.writeBitsBE]
  | c + 1 => by
    simp only [bitsOf, Spec.writeBitsBE, List.range_succ, List.reverse_append, List.reverse_cons, List.reverse_nil,
      List.nil_append, List.map_cons, List.singleton_append]
    rw [bitsOf_eq_writeBitsBE x c]
    rfl

theorem golombEncode_eq_spec (x p : Nat) : Golomb.golombEncode x p = Spec.golombEncode x p := by
  unfold Golomb.golombEncode Spec.golombEncode
  simp only []
  rw [unary_bits, bitsOf_eq_writeBitsBE]

theorem encodeDeltas_eq_spec (p : Nat) : ∀ (vs : List Nat) (last : Nat),
    encodeDeltas p last vs = ((Spec.deltas last vs).map (Spec.golombEncode · p)).flatten
  | [], _ => by simp [encodeDeltas, Spec.deltas]
  | v :: vs, last => by
    simp only [encodeDeltas, Spec.deltas, List.map_cons, List.flatten_cons]
    rw [encodeDeltas_eq_spec p vs v, golombEncode_eq_spec]

/-- 'equals the reference construction': the filter `build` makes (the function the driver runs, tied to
    `BasicBlockFilter.from_block` by the `f.build` stream and the BIP158 vector rows) is N = the number of elements of
    the contents rule and the octets of BIP158's `construct_gcs` over them with the generated `P`, `M` and the key read
    off the block hash. -/
theorem build_eq_reference (bh : Bytes) (outs prevs : List Bytes) :
    build bh outs prevs =
      ((elements outs prevs).length,
       pack (Spec.constructGcs (elements outs prevs) P (keyFromBlockHash bh).1 (keyFromBlockHash bh).2 M)) := by
  unfold build hashedSorted encodeSet Spec.constructGcs Spec.hashedSetConstruct
  simp only []
  rw [encodeDeltas_eq_spec]
  have : (fun x => hashToRange (keyFromBlockHash bh).1 (keyFromBlockHash bh).2 x ((elements outs prevs).length * M)) =
      fun it => (siphash (keyFromBlockHash bh).1 (keyFromBlockHash bh).2 it).toNat * ((elements outs prevs).length * M) / 2 ^ 64 := by
    funext x
    unfold hashToRange
    rw [Nat.shiftRight_eq_div_pow]
  rw [this]

end Btc.Bip158
