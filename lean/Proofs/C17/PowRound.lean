import Proofs.C17.PowNext
import Mathlib.Tactic.IntervalCases
import Mathlib.Tactic.Ring
namespace Btc.Pow
open Btc Btc.Py

/-- `bits_from_target` never rounds up and drops less than one unit of the last kept byte:
    with `(e, s) = compactOf v`, `cval e s ≤ v < cval e s + 256^(e-3)` (exact when `e ≤ 3`). -/
theorem compactOf_round (v : Nat) (hv : v < 256 ^ 32) :
    cval (compactOf v).1 (compactOf v).2 ≤ v ∧ v < cval (compactOf v).1 (compactOf v).2 + 256 ^ ((compactOf v).1 - 3) := by
  have hbl : byteLen v ≤ 32 := byteLen_le _ _ hv
  have hs := sig0_lt v
  have hvl := v_lt v
  unfold compactOf
  unfold sig0 at *
  generalize hn : byteLen v = n at *
  by_cases hle : n ≤ 3
  · simp only [hle, if_true] at hs ⊢
    unfold cval
    interval_cases n <;> norm_num at hvl hs ⊢ <;> split <;> simp <;> omega
  · simp only [hle, if_false] at hs ⊢
    have hK : 0 < 256 ^ (n - 3) := by positivity
    have hdm := Nat.div_add_mod v (256 ^ (n - 3))
    have hml := Nat.mod_lt v hK
    have hp1 : 256 ^ (n + 1 - 3) = 256 ^ (n - 3) * 256 := by
      have : n + 1 - 3 = (n - 3) + 1 := by omega
      rw [this, Nat.pow_succ]
    unfold cval
    generalize hKd : 256 ^ (n - 3) = K at *
    generalize hs0 : v / K = s0 at *
    generalize v % K = r at *
    by_cases hb : s0 / 8388608 % 2 = 1
    · simp only [hb, if_true]
      have h3 : ¬ (n + 1 < 3) := by omega
      simp only [h3, if_false, hp1]
      have hq : s0 / 256 % 8388608 = s0 / 256 := Nat.mod_eq_of_lt (by omega)
      rw [hq]
      have hd := Nat.div_add_mod s0 256
      have hr' := Nat.mod_lt s0 (by omega : 0 < 256)
      generalize s0 / 256 = q at *
      generalize s0 % 256 = r' at *
      have h1 : K * r' ≤ K * 255 := Nat.mul_le_mul_left _ (by omega)
      have h2 : K * s0 = 256 * (K * q) + K * r' := by
        rw [← hd, Nat.mul_add, Nat.mul_left_comm]
      have h4 : q * (K * 256) = 256 * (K * q) := by ring
      rw [h4]
      generalize K * q = A at *
      generalize K * r' = B at *
      omega
    · simp only [hb, if_false]
      have h3 : ¬ (n < 3) := by omega
      simp only [h3, if_false]
      have hq : s0 % 8388608 = s0 := by omega
      rw [hq, hKd, Nat.mul_comm s0 K]
      generalize K * s0 = A at *
      omega

theorem beBytes3 (s : Nat) : ∃ a b c, beBytes 3 s = [a, b, c] := by
  simp [beBytes, leBytes]

/-- decode ∘ encode on the generated functions: never above the target, less than one unit of the
    last kept byte below it, never negative. -/
theorem roundtrip_bytes (t : Bytes) (ht : t.length ≤ 32) :
    ∃ b t', Gen.Pow.bits_from_target t = .ok b ∧ Gen.Pow.target_from_bits b = .ok t' ∧
      Gen.Pow.is_negative_bits b = .ok false ∧ b.length = 4 ∧ t'.length = 32 ∧
      ofBE t' ≤ ofBE t ∧ ofBE t < ofBE t' + 256 ^ ((b.headD 0).toNat - 3) := by
  have hv : ofBE t < 256 ^ 32 := Nat.lt_of_lt_of_le (ofBE_lt t) (Nat.pow_le_pow_right (by omega) ht)
  obtain ⟨b1, b2⟩ := compactOf_bounds _ hv
  obtain ⟨r1, r2⟩ := compactOf_round _ hv
  rw [bits_from_target_eq t ht]
  generalize (compactOf (ofBE t)).1 = e at *
  generalize (compactOf (ofBE t)).2 = s at *
  obtain ⟨a, b, c, habc⟩ := beBytes3 s
  have hs3 : ofBE [a, b, c] = s := by
    rw [← habc, ofBE_beBytes]; exact Nat.mod_eq_of_lt (by norm_num; omega)
  have he : (UInt8.ofNat e).toNat = e := by
    simp [UInt8.toNat_ofNat']; omega
  have hc : ¬ cval e s ≥ U256 := by rw [U256_eq]; omega
  refine ⟨UInt8.ofNat e :: beBytes 3 s, beBytes 32 (cval e s), rfl, ?_, ?_, by simp, by simp, ?_, ?_⟩
  · rw [habc, target_from_bits_eq, he, hs3]
    simp [hc]
  · rw [habc, is_negative_bits_eq, he, hs3]
    have : ¬ (s / 8388608 % 2 = 1) := by omega
    simp [this]
  · rw [ofBE_beBytes, Nat.mod_eq_of_lt (by omega)]; exact r1
  · rw [ofBE_beBytes, Nat.mod_eq_of_lt (by omega)]
    simp only [List.headD_cons, he]
    exact r2

end Btc.Pow
